(* Handshake state machine of MatrixSSL for C06 (legal message sequences): explicit, code-shaped transition functions
   that replace the handshake oracle [hsres] of Sess/SessModel.v.

   C sources followed branch by branch (as patched by pending-fixes/C06-1..5):
     matrixssl/tls13Decode.c  tls13CheckHsState (623-690)                          -> [check13]
                              tls13ParseHandshakeMessage (803-1119), next states     -> [step13]
     matrixssl/tls13Encode.c  tls13EncodeResponseServer / tls13EncodeResponseClient  -> [flight13_server], Finished case of [step13]
     matrixssl/sslDecode.c    parseSSLHandshake: rehandshake-disabled checks, expected-vs-received test with every
                              enumerated exception (2037-2290), hsStateDetermined, Finished snapshot,
                              sslUpdateHSHash, handler switch, NewSessionTicket case   -> [gate12] [step12]
                              ChangeCipherSpec record (1287-1470)                     -> [ccs12]
     matrixssl/hsDecode.c     parseClientHello (617-760), parseCertificate (3270-3300), parseClientKeyExchange (1265, 1310),
                              parseCertificateVerify (1506), parseServerHello (1800-1860), parseCertificateStatus (2353),
                              parseServerKeyExchange, parseServerHelloDone (2464), parseCertificateRequest (2646),
                              parseFinished (2655-2800)                               -> [handler12]
   What a handler learns from the BYTES of a message (is it well formed, which version / suite / extensions does a hello
   select, does verify_data match) is an oracle: the [body] of the abstract message.  WHICH handler may run in which
   state, and where the machine goes next, is explicit.  DTLS (MSN / cookie branches) is not modelled.
   Build switches assumed: rehandshakes disabled, USE_OCSP_MUST_STAPLE, USE_STATELESS_SESSION_TICKETS, PSK and (EC)DHE
   suites compiled in (checked against Gen/ConstsHs.v by [HsProofs.config_as_modelled]). *)
From MV Require Export Base.Bytes Gen.Consts Gen.ConstsHs.
Local Open Scope Z_scope.

(* ---- abstract handshake message: type byte + what its handler finds in the body *)
Inductive body :=
| BFail                                            (* the handler's checks on the body fail: it raises a fatal alert of its choice *)
| BHello12 (resumed psk dhe tick status : bool)    (* hello selecting TLS <= 1.2: session resumed (id echoed / session or ticket
                                                      found); suite is PSK; suite is (EC)DHE; ServerHello carries SessionTicket;
                                                      ServerHello carries status_request *)
| BHello13 (hrr psk early : bool)                  (* hello selecting TLS 1.3: ServerHello is a HelloRetryRequest / ClientHello has no
                                                      acceptable key share; a PSK is selected; server accepts early data *)
| BFin (vok : bool)                                (* well-formed Finished; vok: verify_data equals the receiver's own value *)
| BPlain                                           (* body of any other message type that its handler accepts *)
| BHelloNoCookie                                   (* DTLS ClientHello with an empty cookie (everything before the cookie well formed) *)
(* OFFERED is not SELECTED.  In [BHello12] / [BHello13] the attributes [resumed] / [psk] say what the server SELECTED; when they are
   false the ClientHello offered nothing.  The two constructors below are the hellos of a handshake whose ClientHello OFFERED a
   resumption - a pre_shared_key extension (external identity or ticket) / a session id or a SessionTicket - that the server
   does NOT take up (unknown identity, ticket sealed under other keys, session no longer cached).  The ClientHello handlers look at
   such a hello through [sel_view]: what it does next depends on what was selected only (the full handshake of the mode is due). *)
| BHello13d (hrr : bool)                           (* ClientHello only; early data goes with the selected PSK: none here *)
| BHello12d (psk dhe : bool).                      (* ClientHello only *)
Definition sel_view (b : body) : body :=
  match b with
  | BHello13d h => BHello13 h false false
  | BHello12d p d => BHello12 false p d false false
  | _ => b
  end.
Definition offer_declined (b : body) : bool := match b with BHello13d _ | BHello12d _ _ => true | _ => false end.
(* DTLS: how the message_seq of a handshake message relates to ssl->lastMsn (parseSSLHandshake, sslDecode.c 2127-2158, 2346-2364) *)
Inductive mcls :=
| MExp       (* message_seq = lastMsn + 1: the next message of the peer's sequence *)
| MZero      (* message_seq = 0 <= lastMsn: let through by the first test ("msn != 0 &&"), decided by the type *)
| MStale     (* 0 < message_seq <= lastMsn: a retransmission *)
| MFut.      (* message_seq > lastMsn + 1: arrived early *)
Definition classify (last msn : Z) : mcls :=
  if msn >? last + 1 then MFut
  else if negb (msn =? 0) && (last >=? msn) then MStale
  else if msn =? last + 1 then MExp else MZero.
Record hmsg := mkmsg { m_typ : Z; m_body : body; m_cls : mcls }.   (* m_cls is read by DTLS sessions only *)
Definition erase (m : hmsg) : hmsg := mkmsg (m_typ m) (m_body m) MExp.   (* what the accepted-message log keeps of a message *)

Inductive input := ICcs | IHs (m : hmsg).
Inductive item := MCcs | MHs (m : hmsg).                 (* accepted ChangeCipherSpec / handshake messages, in order *)
Inductive tent := Rx (t : Z) | Tx (flight : Z) | Reinit. (* transcript-hash input: received message, own flight, RFC 8446 4.4.1 restart *)

Record hst := mkst {
  server : bool;
  v13 : bool;
  hs : Z;
  rsec : bool;
  wsec : bool;
  err : bool;
  resumed : bool;
  cauth : bool;
  psk : bool;
  dhe : bool;
  tick : Z;
  status : bool;
  lastccs : bool;
  usingpsk : bool;
  hrr : bool;
  early : bool;
  tickkeys : bool;
  gotcr : bool;
  dtls : bool;
  cookie : bool;
  acc : list item;
  tr : list tent;
  snap : list tent
}.
Definition set_server (s : hst) (x : bool) : hst :=
  mkst x (v13 s) (hs s) (rsec s) (wsec s) (err s) (resumed s) (cauth s) (psk s) (dhe s) (tick s) (status s) (lastccs s) (usingpsk s) (hrr s) (early s) (tickkeys s) (gotcr s) (dtls s) (cookie s) (acc s) (tr s) (snap s).
Definition set_v13 (s : hst) (x : bool) : hst :=
  mkst (server s) x (hs s) (rsec s) (wsec s) (err s) (resumed s) (cauth s) (psk s) (dhe s) (tick s) (status s) (lastccs s) (usingpsk s) (hrr s) (early s) (tickkeys s) (gotcr s) (dtls s) (cookie s) (acc s) (tr s) (snap s).
Definition set_hs (s : hst) (x : Z) : hst :=
  mkst (server s) (v13 s) x (rsec s) (wsec s) (err s) (resumed s) (cauth s) (psk s) (dhe s) (tick s) (status s) (lastccs s) (usingpsk s) (hrr s) (early s) (tickkeys s) (gotcr s) (dtls s) (cookie s) (acc s) (tr s) (snap s).
Definition set_rsec (s : hst) (x : bool) : hst :=
  mkst (server s) (v13 s) (hs s) x (wsec s) (err s) (resumed s) (cauth s) (psk s) (dhe s) (tick s) (status s) (lastccs s) (usingpsk s) (hrr s) (early s) (tickkeys s) (gotcr s) (dtls s) (cookie s) (acc s) (tr s) (snap s).
Definition set_wsec (s : hst) (x : bool) : hst :=
  mkst (server s) (v13 s) (hs s) (rsec s) x (err s) (resumed s) (cauth s) (psk s) (dhe s) (tick s) (status s) (lastccs s) (usingpsk s) (hrr s) (early s) (tickkeys s) (gotcr s) (dtls s) (cookie s) (acc s) (tr s) (snap s).
Definition set_err (s : hst) (x : bool) : hst :=
  mkst (server s) (v13 s) (hs s) (rsec s) (wsec s) x (resumed s) (cauth s) (psk s) (dhe s) (tick s) (status s) (lastccs s) (usingpsk s) (hrr s) (early s) (tickkeys s) (gotcr s) (dtls s) (cookie s) (acc s) (tr s) (snap s).
Definition set_resumed (s : hst) (x : bool) : hst :=
  mkst (server s) (v13 s) (hs s) (rsec s) (wsec s) (err s) x (cauth s) (psk s) (dhe s) (tick s) (status s) (lastccs s) (usingpsk s) (hrr s) (early s) (tickkeys s) (gotcr s) (dtls s) (cookie s) (acc s) (tr s) (snap s).
Definition set_cauth (s : hst) (x : bool) : hst :=
  mkst (server s) (v13 s) (hs s) (rsec s) (wsec s) (err s) (resumed s) x (psk s) (dhe s) (tick s) (status s) (lastccs s) (usingpsk s) (hrr s) (early s) (tickkeys s) (gotcr s) (dtls s) (cookie s) (acc s) (tr s) (snap s).
Definition set_psk (s : hst) (x : bool) : hst :=
  mkst (server s) (v13 s) (hs s) (rsec s) (wsec s) (err s) (resumed s) (cauth s) x (dhe s) (tick s) (status s) (lastccs s) (usingpsk s) (hrr s) (early s) (tickkeys s) (gotcr s) (dtls s) (cookie s) (acc s) (tr s) (snap s).
Definition set_dhe (s : hst) (x : bool) : hst :=
  mkst (server s) (v13 s) (hs s) (rsec s) (wsec s) (err s) (resumed s) (cauth s) (psk s) x (tick s) (status s) (lastccs s) (usingpsk s) (hrr s) (early s) (tickkeys s) (gotcr s) (dtls s) (cookie s) (acc s) (tr s) (snap s).
Definition set_tick (s : hst) (x : Z) : hst :=
  mkst (server s) (v13 s) (hs s) (rsec s) (wsec s) (err s) (resumed s) (cauth s) (psk s) (dhe s) x (status s) (lastccs s) (usingpsk s) (hrr s) (early s) (tickkeys s) (gotcr s) (dtls s) (cookie s) (acc s) (tr s) (snap s).
Definition set_status (s : hst) (x : bool) : hst :=
  mkst (server s) (v13 s) (hs s) (rsec s) (wsec s) (err s) (resumed s) (cauth s) (psk s) (dhe s) (tick s) x (lastccs s) (usingpsk s) (hrr s) (early s) (tickkeys s) (gotcr s) (dtls s) (cookie s) (acc s) (tr s) (snap s).
Definition set_lastccs (s : hst) (x : bool) : hst :=
  mkst (server s) (v13 s) (hs s) (rsec s) (wsec s) (err s) (resumed s) (cauth s) (psk s) (dhe s) (tick s) (status s) x (usingpsk s) (hrr s) (early s) (tickkeys s) (gotcr s) (dtls s) (cookie s) (acc s) (tr s) (snap s).
Definition set_usingpsk (s : hst) (x : bool) : hst :=
  mkst (server s) (v13 s) (hs s) (rsec s) (wsec s) (err s) (resumed s) (cauth s) (psk s) (dhe s) (tick s) (status s) (lastccs s) x (hrr s) (early s) (tickkeys s) (gotcr s) (dtls s) (cookie s) (acc s) (tr s) (snap s).
Definition set_hrr (s : hst) (x : bool) : hst :=
  mkst (server s) (v13 s) (hs s) (rsec s) (wsec s) (err s) (resumed s) (cauth s) (psk s) (dhe s) (tick s) (status s) (lastccs s) (usingpsk s) x (early s) (tickkeys s) (gotcr s) (dtls s) (cookie s) (acc s) (tr s) (snap s).
Definition set_early (s : hst) (x : bool) : hst :=
  mkst (server s) (v13 s) (hs s) (rsec s) (wsec s) (err s) (resumed s) (cauth s) (psk s) (dhe s) (tick s) (status s) (lastccs s) (usingpsk s) (hrr s) x (tickkeys s) (gotcr s) (dtls s) (cookie s) (acc s) (tr s) (snap s).
Definition set_tickkeys (s : hst) (x : bool) : hst :=
  mkst (server s) (v13 s) (hs s) (rsec s) (wsec s) (err s) (resumed s) (cauth s) (psk s) (dhe s) (tick s) (status s) (lastccs s) (usingpsk s) (hrr s) (early s) x (gotcr s) (dtls s) (cookie s) (acc s) (tr s) (snap s).
Definition set_gotcr (s : hst) (x : bool) : hst :=
  mkst (server s) (v13 s) (hs s) (rsec s) (wsec s) (err s) (resumed s) (cauth s) (psk s) (dhe s) (tick s) (status s) (lastccs s) (usingpsk s) (hrr s) (early s) (tickkeys s) x (dtls s) (cookie s) (acc s) (tr s) (snap s).
Definition set_dtls (s : hst) (x : bool) : hst :=
  mkst (server s) (v13 s) (hs s) (rsec s) (wsec s) (err s) (resumed s) (cauth s) (psk s) (dhe s) (tick s) (status s) (lastccs s) (usingpsk s) (hrr s) (early s) (tickkeys s) (gotcr s) x (cookie s) (acc s) (tr s) (snap s).
Definition set_cookie (s : hst) (x : bool) : hst :=
  mkst (server s) (v13 s) (hs s) (rsec s) (wsec s) (err s) (resumed s) (cauth s) (psk s) (dhe s) (tick s) (status s) (lastccs s) (usingpsk s) (hrr s) (early s) (tickkeys s) (gotcr s) (dtls s) x (acc s) (tr s) (snap s).
Definition set_acc (s : hst) (x : list item) : hst :=
  mkst (server s) (v13 s) (hs s) (rsec s) (wsec s) (err s) (resumed s) (cauth s) (psk s) (dhe s) (tick s) (status s) (lastccs s) (usingpsk s) (hrr s) (early s) (tickkeys s) (gotcr s) (dtls s) (cookie s) x (tr s) (snap s).
Definition set_tr (s : hst) (x : list tent) : hst :=
  mkst (server s) (v13 s) (hs s) (rsec s) (wsec s) (err s) (resumed s) (cauth s) (psk s) (dhe s) (tick s) (status s) (lastccs s) (usingpsk s) (hrr s) (early s) (tickkeys s) (gotcr s) (dtls s) (cookie s) (acc s) x (snap s).
Definition set_snap (s : hst) (x : list tent) : hst :=
  mkst (server s) (v13 s) (hs s) (rsec s) (wsec s) (err s) (resumed s) (cauth s) (psk s) (dhe s) (tick s) (status s) (lastccs s) (usingpsk s) (hrr s) (early s) (tickkeys s) (gotcr s) (dtls s) (cookie s) (acc s) (tr s) x.

Inductive out :=
| OFatal (d : Z)              (* ssl->err := d: fatal alert d written, SSL_FLAGS_ERROR set *)
| OFail                       (* the handler rejected the body: fatal alert (description chosen by the handler), SSL_FLAGS_ERROR set *)
| OAccept (respond : bool)    (* message consumed; a flight is written or not *)
| OWarn (d : Z)               (* refused with a WARNING alert, session unchanged (no_renegotiation: writeAlert forces the level) *)
| OIgnore                     (* record consumed, nothing happens *)
| ODrop (retx : bool)         (* DTLS: message / ChangeCipherSpec dropped, state untouched; retx: DTLS_RETRANSMIT - the application is asked to
                                 send the last flight again *)
| OHvr                        (* DTLS server: cookie-less ClientHello answered with HelloVerifyRequest, no state kept (RFC 6347 4.2.1) *)
| ORefuse.                    (* session already dead: entry guard of matrixSslDecode *)

Definition fatal (s : hst) (d : Z) : hst * out := (set_err s true, OFatal d).
Definition fail (s : hst) : hst * out := (set_err s true, OFail).

Definition eqb := Z.eqb.
Definition SH := c_SSL_HS_SERVER_HELLO.      Definition CH := c_SSL_HS_CLIENT_HELLO.
Definition HREQ := c_SSL_HS_HELLO_REQUEST.   Definition NST := c_SSL_HS_NEW_SESSION_TICKET.
Definition CERT := c_SSL_HS_CERTIFICATE.     Definition SKE := c_SSL_HS_SERVER_KEY_EXCHANGE.
Definition CREQ := c_SSL_HS_CERTIFICATE_REQUEST.  Definition SHD := c_SSL_HS_SERVER_HELLO_DONE.
Definition CVFY := c_SSL_HS_CERTIFICATE_VERIFY.   Definition CKE := c_SSL_HS_CLIENT_KEY_EXCHANGE.
Definition FIN := c_SSL_HS_FINISHED.         Definition CSTAT := c_SSL_HS_CERTIFICATE_STATUS.
Definition EOED := c_SSL_HS_EOED.            Definition EE := c_SSL_HS_ENCRYPTED_EXTENSION.
Definition DONE := c_SSL_HS_DONE.          Definition HVR := c_SSL_HS_HELLO_VERIFY_REQUEST.
Definition S_START := c_SSL_HS_TLS_1_3_START.       Definition S_RECVD_CH := c_SSL_HS_TLS_1_3_RECVD_CH.
Definition S_WAIT_SH := c_SSL_HS_TLS_1_3_WAIT_SH.   Definition S_WAIT_EE := c_SSL_HS_TLS_1_3_WAIT_EE.
Definition S_WAIT_CERT_CR := c_SSL_HS_TLS_1_3_WAIT_CERT_CR.  Definition S_WAIT_CERT := c_SSL_HS_TLS_1_3_WAIT_CERT.
Definition S_WAIT_CV := c_SSL_HS_TLS_1_3_WAIT_CV.   Definition S_WAIT_FIN := c_SSL_HS_TLS_1_3_WAIT_FINISHED.
Definition S_SEND_FIN := c_SSL_HS_TLS_1_3_SEND_FINISHED.     Definition S_WAIT_EOED := c_SSL_HS_TLS_1_3_WAIT_EOED.
Definition S_SEND_NST := c_SSL_HS_TLS_1_3_SEND_NST.
Definition UNEXPECTED := c_SSL_ALERT_UNEXPECTED_MESSAGE.
Definition T_INIT := h_SESS_TICKET_STATE_INIT.          Definition T_SENT_EMPTY := h_SESS_TICKET_STATE_SENT_EMPTY.
Definition T_SENT_TICKET := h_SESS_TICKET_STATE_SENT_TICKET.  Definition T_RECVD_EXT := h_SESS_TICKET_STATE_RECVD_EXT.
Definition T_IN_LIMBO := h_SESS_TICKET_STATE_IN_LIMBO.
Definition T_NOSID : Z := -1.                 (* ssl->sid == NULL *)

(* a handler that is neither a hello nor a Finished handler accepts exactly the bodies the oracle calls plain *)
Definition body_ok (b : body) : bool := match b with BPlain => true | _ => false end.

(* message enters the accepted log; [hashed]: it also enters the transcript hash *)
Definition accept (s : hst) (m : hmsg) (hashed : bool) : hst :=
  let s1 := set_lastccs (set_acc s (acc s ++ [MHs (erase m)])) false in
  if hashed then set_tr s1 (tr s1 ++ [Rx (m_typ m)]) else s1.
Definition wrote (s : hst) (flight : Z) : hst := set_tr s (tr s ++ [Tx flight]).

(* ================================================================== TLS 1.3 *)

(* tls13CheckHsState: may message [msg] be handled in state [hs]?  (NewSessionTicket: SSL_HS_DONE only, fix C06-3) *)
Definition check13 (server : bool) (hs msg : Z) : bool :=
  if eqb msg CH && eqb hs S_START then true
  else if eqb msg SH && eqb hs S_WAIT_SH then true
  else if eqb msg EE && eqb hs S_WAIT_EE then true
  else if eqb msg CREQ && eqb hs S_WAIT_CERT_CR then true
  else if eqb msg CERT && (eqb hs S_WAIT_CERT || eqb hs S_WAIT_CERT_CR) then true
  else if eqb msg CVFY && eqb hs S_WAIT_CV then true
  else if eqb msg EOED && eqb hs S_WAIT_EOED then true
  else if eqb msg FIN && eqb hs S_WAIT_FIN then true
  else if negb server && eqb msg NST && eqb hs DONE then true
  else false.

(* tls13EncodeResponseServer in state RECVD_CH: HelloRetryRequest (at most once, fix C06-5) or the ServerHello..Finished flight *)
Definition flight13_server (s : hst) (need_hrr : bool) : hst * out :=
  if need_hrr then
    if hrr s then fatal s c_SSL_ALERT_ILLEGAL_PARAMETER
    else (set_tr (set_usingpsk (set_hrr (set_hs s S_START) true) false) [Reinit; Tx SH], OAccept true)
  else
    let s1 := set_wsec (set_rsec (set_hrr (wrote s S_RECVD_CH) false) true) true in
    let nxt := if early s1 then S_WAIT_EOED
               else if negb (usingpsk s1) && cauth s1 then S_WAIT_CERT
               else S_WAIT_FIN in
    (set_hs s1 nxt, OAccept true).

(* the legacy (<= TLS 1.2) machine is defined below; TLS 1.3 falls back to it when a hello selects an older version *)
Section Tls13.
Variable step12 : hst -> hmsg -> hst * out.

Definition step13 (s : hst) (m : hmsg) : hst * out :=
  let t := m_typ m in
  if negb (check13 (server s) (hs s) t) then fatal s UNEXPECTED
  else if eqb t CH then
    (* first pass without side effects, version negotiation, then the real parse and the flight *)
    match sel_view (m_body m) with
    | BHello13 h p e =>
        (* early data is accepted only for the selected PSK and never after a HelloRetryRequest (tls13DecodeExt.c 1205-1235, 1652) *)
        let s1 := set_early (set_usingpsk (set_hs (accept s m true) S_RECVD_CH) p) (e && p && negb (hrr s)) in
        flight13_server s1 h
    | BHello12 _ _ _ _ _ =>
        if hrr s then fatal s c_SSL_ALERT_ILLEGAL_PARAMETER       (* after our HelloRetryRequest the version is fixed *)
        else step12 (set_v13 (set_hs s CH) false) m                (* SSL_NO_TLS_1_3: legacy track re-parses *)
    | _ => fail s
    end
  else if eqb t SH then
    match m_body m with
    | BHello13 true _ _ =>
        if hrr s then fatal s UNEXPECTED                           (* second HelloRetryRequest, fix C06-4 *)
        else
          let s1 := accept (set_hrr s true) m false in
          (* transcript restarts with message_hash; ClientHello2 is written at once: START -> WAIT_SH *)
          (set_hs (set_tr s1 [Reinit; Rx SH; Tx S_START]) S_WAIT_SH, OAccept true)
    | BHello13 false p _ =>
        (set_hs (set_rsec (set_usingpsk (set_hrr (accept s m true) false) p) true) S_WAIT_EE, OAccept false)
    | BHello12 _ _ _ _ _ =>
        if hrr s then fatal s c_SSL_ALERT_ILLEGAL_PARAMETER       (* version changed after HelloRetryRequest, fix C06-4 *)
        else step12 (set_v13 (set_hs s SH) false) m                (* SSL_NO_TLS_1_3: legacy track re-parses *)
    | _ => fail s
    end
  else if eqb t FIN then
    (* tls13ParseFinished compares with the value computed from the transcript hash BEFORE this message is added *)
    match m_body m with
    | BFin true =>
        let s1 := accept (set_snap s (tr s)) m true in
        if server s1 then
          if tickkeys s1 then (set_hs (wrote s1 S_SEND_NST) DONE, OAccept true)        (* SEND_NST -> NewSessionTicket -> DONE *)
          else (set_hs s1 DONE, OAccept false)
        else (set_wsec (set_hs (wrote s1 S_SEND_FIN) DONE) true, OAccept true)          (* SEND_FINISHED -> flight -> DONE *)
    | BFin false => fatal (set_snap s (tr s)) c_SSL_ALERT_DECRYPT_ERROR
    | _ => fail s
    end
  else if negb (body_ok (m_body m)) then fail s
  else if eqb t EE then
    (set_hs (accept s m true) (if usingpsk s then S_WAIT_FIN else S_WAIT_CERT_CR), OAccept false)
  else if eqb t CREQ then (set_gotcr (set_hs (accept s m true) S_WAIT_CERT) true, OAccept false)
  else if eqb t CERT then (set_hs (accept s m true) S_WAIT_CV, OAccept false)
  else if eqb t CVFY then (set_hs (accept s m true) S_WAIT_FIN, OAccept false)
  else if eqb t EOED then (set_hs (accept s m true) S_WAIT_FIN, OAccept false)
  else (* NewSessionTicket: not hashed, no state change *)
    (accept s m false, OAccept false).
End Tls13.

(* ================================================================== TLS <= 1.2 *)

Inductive gres :=
| GRej (d : Z)        (* refused before anything is hashed: state unchanged, fatal alert d *)
| GNoReneg            (* renegotiation request on a completed session: no_renegotiation warning, nothing changes *)
| GIgn                (* HelloRequest while a ClientHello of ours is outstanding: dropped *)
| GDrop (retx : bool) (* DTLS: dropped because of its message_seq (future: silently; seen before: DTLS_RETRANSMIT) *)
| GPass (s : hst).    (* hsStateDetermined; [hs s] names the handler that runs *)

(* parseSSLHandshake up to hsStateDetermined.  Rehandshakes are compiled out.  [tail]: what the end of the mismatch block does
   (TLS: unexpected_message; DTLS: the HelloVerifyRequest exception and the final message_seq test come first) *)
Definition gate12g (s : hst) (t : Z) (tail : gres) : gres :=
  if (if server s then eqb t CH && eqb (hs s) DONE else eqb t HREQ && eqb (hs s) DONE)
  then GNoReneg
  else if negb (eqb t (hs s)) && negb (eqb t CH && eqb (hs s) DONE && server s)      (* server only: fix C06-1 *)
  then
    if eqb t CREQ && eqb (hs s) SHD && negb (cauth s) then GPass (set_hs (set_cauth s true) CREQ)   (* once: fix C06-6 *)
    else if eqb t HREQ && eqb (hs s) DONE && negb (server s) then GPass (set_hs s HREQ)   (* dead: refused above *)
    else if eqb t HREQ && eqb (hs s) SH && rsec s && wsec s && negb (server s) then GIgn
    else if eqb t NST && eqb (hs s) FIN && eqb (tick s) T_RECVD_EXT && negb (server s) then GPass (set_hs s NST)
    else if eqb (hs s) CSTAT then GRej UNEXPECTED                                        (* USE_OCSP_MUST_STAPLE *)
    else if psk s && eqb t SHD && eqb (hs s) SKE then
      if dhe s then GRej UNEXPECTED else GPass (set_hs s SHD)
    else tail
  else
    (* hsStateDetermined: a ClientHello in DONE would reset the context (server, rehandshake builds only) *)
    if eqb t CH && eqb (hs s) DONE then GPass (set_hs s CH) else GPass s.
Definition gate12 (s : hst) (t : Z) : gres := gate12g s t (GRej UNEXPECTED).

(* the same on a DTLS session (sslDecode.c 2127-2158, 2330-2364).  After the rehandshake checks the message_seq is looked at:
   a future one is ignored, one seen before (other than 0) is a retransmission.  A message with the expected message_seq (or 0)
   goes through the type test; at the end of the mismatch block a HelloVerifyRequest is let through to a client that awaits
   ServerHello and holds no cookie yet, the EXPECTED message_seq with a wrong type is fatal, an old one is a retransmission. *)
Definition dtls_tail (s : hst) (t : Z) (c : mcls) : gres :=
  if eqb t HVR && eqb (hs s) SH && negb (cookie s) then GPass (set_hs s HVR)
  else match c with MExp => GRej UNEXPECTED | MZero => GDrop true | _ => GRej UNEXPECTED end.
Definition gate12d (s : hst) (t : Z) (c : mcls) : gres :=
  if negb (dtls s) then gate12 s t
  else if (if server s then eqb t CH && eqb (hs s) DONE else eqb t HREQ && eqb (hs s) DONE) then GNoReneg
  else match c with
       | MFut => GDrop false
       | MStale => GDrop true
       | _ => gate12g s t (dtls_tail s t c)
       end.

(* the switch (ssl->hsState) of parseSSLHandshake has a case for these states only (HelloVerifyRequest: USE_DTLS builds) *)
Definition has_case12 (h : Z) : bool :=
  eqb h CH || eqb h CKE || eqb h FIN || eqb h HREQ || eqb h SH || eqb h CERT || eqb h CSTAT || eqb h NST ||
  eqb h SHD || eqb h CREQ || eqb h CVFY || eqb h SKE || eqb h HVR.

(* the handlers: [hs s] is the state determined by the gate; the message is hashed already *)
Definition handler12 (s : hst) (m : hmsg) : hst * out :=
  let h := hs s in
  if negb (has_case12 h) then fatal s UNEXPECTED
  else if eqb h FIN then
    (* parseFinished: READ_SECURE first, then the length, then the comparison with the snapshot *)
    if negb (rsec s) then fatal s UNEXPECTED
    else match m_body m with
    | BFin true =>
        let s1 := set_hs s DONE in
        if server s1 then
          if resumed s1 then (s1, OAccept false) else (set_wsec (wrote s1 FIN) true, OAccept true)
        else
          if resumed s1 then (set_wsec (wrote s1 FIN) true, OAccept true) else (s1, OAccept false)
    | BFin false => fatal s c_SSL_ALERT_DECRYPT_ERROR
    | _ => fail s
    end
  else if eqb h CH then
    (* parseClientHello *)
    match sel_view (m_body m) with
    | BHello12 r p d tk _ =>
        let s1 := set_dhe (set_psk (set_resumed s r) p) d in
        (* resumed: the request for a client certificate is dropped - the flag itself is cleared when the session id was found in the
           cache (hsDecode.c 533) and left standing when a ticket was unsealed ([tk]: the session came from a ticket); nothing reads it
           on the abbreviated path *)
        if resumed s1 then (set_wsec (wrote (set_hs (set_cauth s1 (tk && cauth s1)) FIN) CH) true, OAccept true)
        else (wrote (set_hs s1 (if cauth s1 then CERT else CKE)) CH, OAccept true)
    | BHelloNoCookie =>
        (* DTLS, not yet protected: HelloVerifyRequest is written, hsState stays CLIENT_HELLO, the session found is cleared again
           (hsDecode.c 296-312); [step12] hands back the untouched state.  (On a protected connection - a rehandshake - the code
           goes on without a cookie; unreachable here.) *)
        if dtls s && negb (rsec s) then (s, OHvr) else fail s
    | _ => fail s
    end
  else if eqb h SH then
    (* parseServerHello: extensions (SessionTicket acknowledgement), then resumption / key exchange *)
    match m_body m with
    | BHello12 r p d tk st =>
        if tk && negb (eqb (tick s) T_SENT_EMPTY || eqb (tick s) T_SENT_TICKET) then fatal s c_SSL_ALERT_ILLEGAL_PARAMETER
        else
          let tk' := if tk then T_RECVD_EXT else if eqb (tick s) T_SENT_TICKET then T_IN_LIMBO else tick s in
          let s1 := set_cookie (set_status (set_dhe (set_psk (set_resumed (set_tick s tk') r) p) d) st) false in   (* cookie freed: hsDecode.c 1568 *)
          (set_hs s1 (if resumed s1 then FIN else if psk s1 then SKE else CERT), OAccept false)
    | _ => fail s
    end
  else if negb (body_ok (m_body m)) then fail s
  else if eqb h CKE then (set_hs s (if cauth s then CVFY else FIN), OAccept false)
  else if eqb h CVFY then (set_hs s FIN, OAccept false)
  else if eqb h CERT then
    if server s then (set_hs s CKE, OAccept false)
    else (set_hs s (if status s then CSTAT else if dhe s then SKE else SHD), OAccept false)
  else if eqb h CSTAT then (set_hs s (if dhe s then SKE else SHD), OAccept false)
  else if eqb h SKE then (set_hs s SHD, OAccept false)
  else if eqb h CREQ then (set_hs s SHD, OAccept false)
  else if eqb h SHD then (set_wsec (wrote (set_hs s FIN) SHD) true, OAccept true)
  else if eqb h NST then (set_hs (set_tick s T_INIT) FIN, OAccept false)
  else if eqb h HVR then (set_cookie (set_hs s SH) true, OAccept true)      (* cookie kept, ClientHello is written again (sslDecode.c 3058-3118) *)
  else (* HREQ: unreachable with rehandshakes compiled out *) (s, OAccept true).

Definition step12 (s : hst) (m : hmsg) : hst * out :=
  match gate12d s (m_typ m) (m_cls m) with
  | GRej d => fatal s d
  | GNoReneg => (s, OWarn c_SSL_ALERT_NO_RENEGOTIATION)
  | GIgn => (s, OIgnore)
  | GDrop r => (s, ODrop r)
  | GPass s1 =>
      (* snapshot for Finished BEFORE the message is hashed; then sslUpdateHSHash; then the handler *)
      let s2 := if eqb (hs s1) FIN then set_snap s1 (tr s1) else s1 in
      let s3 := set_tr s2 (tr s2 ++ [Rx (m_typ m)]) in
      match handler12 s3 m with
      | (s4, OAccept r) => (set_lastccs (set_acc s4 (acc s4 ++ [MHs (erase m)])) false, OAccept r)
      | (_, OHvr) => (s, OHvr)            (* stateless: nothing of this ClientHello is kept *)
      | r => r
      end
  end.

(* ChangeCipherSpec record (well formed): same decisions as Sess.SessModel.decode12, plus the two refusals of fix C06-2 *)
Definition ccs12 (s : hst) : hst * out :=
  let ok (s1 : hst) := (set_lastccs (set_acc s1 (acc s1 ++ [MCcs])) true, OAccept false) in
  if dtls s then
    (* DTLS (sslDecode.c 1327-1352): outside FINISHED the record is skipped ("possible to get the changeCipherSpec message out of
       order").  In FINISHED it is taken unless the promised NewSessionTicket is outstanding.  A further one before Finished is
       taken again (fix C06-2 exempts DTLS): that is how the ChangeCipherSpec of a RETRANSMITTED flight looks - it has no
       message_seq, and the sender bumps its epoch with every ChangeCipherSpec it sends; the read epoch moves on, nothing that
       this machine tracks changes and it is not a further message of the sequence *)
    if eqb (hs s) FIN then
      if lastccs s then (s, OIgnore)
      else if negb (server s) && eqb (tick s) T_RECVD_EXT then fatal s UNEXPECTED else ok (set_rsec s true)
    else if h_dtls_ccs_signals_ticket_resumption && (eqb (hs s) CERT || eqb (hs s) SKE && psk s) && eqb (tick s) T_IN_LIMBO then
      (* pending-fixes/C06-8 (present in the tree iff the generated constant says so): the ChangeCipherSpec that is the only
         sign of a ticket resumption the ServerHello did not acknowledge (RFC 5077 3.4) is taken exactly as in TLS below;
         before that repair it was skipped like every other one, and such a resumption could not complete *)
      ok (set_tick (set_rsec (set_hs (set_resumed s true) FIN) true) T_INIT)
    else (s, ODrop false)
  else if eqb (hs s) FIN then
    if lastccs s then fatal s UNEXPECTED
    else if negb (server s) && eqb (tick s) T_RECVD_EXT then fatal s UNEXPECTED
    else ok (set_rsec s true)
  else if eqb (hs s) CERT && eqb (tick s) T_IN_LIMBO then
    ok (set_tick (set_rsec (set_hs (set_resumed s true) FIN) true) T_INIT)
  else if psk s && eqb (hs s) SKE && eqb (tick s) T_IN_LIMBO then
    ok (set_tick (set_rsec (set_hs (set_resumed s true) FIN) true) T_INIT)
  else fatal s UNEXPECTED.

Definition step (s : hst) (i : input) : hst * out :=
  if err s then (s, ORefuse)
  else match i with
       | ICcs => if v13 s then (s, OIgnore) else ccs12 s
       | IHs m => if v13 s then step13 step12 s m else step12 s m
       end.

Fixpoint run (s : hst) (is : list input) : hst * list out :=
  match is with
  | [] => (s, [])
  | i :: rest => let '(s1, o) := step s i in let '(s2, os) := run s1 rest in (s2, o :: os)
  end.

(* ---- configurations: what the application decided before the first byte arrives *)
Inductive cfg :=
| Server (v13 cauth tickkeys : bool)   (* TLS 1.3 enabled (session starts on the 1.3 track); client authentication requested;
                                          session-ticket keys loaded (a TLS 1.3 NewSessionTicket is sent) *)
| Client (v13 : bool) (tick : Z)       (* TLS 1.3 enabled; sid->sessionTicketState once the ClientHello is written
                                          (T_NOSID: no session id object) *)
| DServer (cauth : bool)               (* DTLS 1.0 / 1.2 server *)
| DClient (tick : Z).                  (* DTLS 1.0 / 1.2 client *)
Definition c_server (c : cfg) : bool := match c with Server _ _ _ | DServer _ => true | _ => false end.
Definition c_v13 (c : cfg) : bool := match c with Server v _ _ => v | Client v _ => v | _ => false end.
Definition c_cauth (c : cfg) : bool := match c with Server _ a _ => a | DServer a => a | _ => false end.
Definition c_tickkeys (c : cfg) : bool := match c with Server _ _ k => k | _ => false end.
Definition c_tick (c : cfg) : Z := match c with Client _ t => t | DClient t => t | _ => T_NOSID end.
Definition c_dtls (c : cfg) : bool := match c with DServer _ | DClient _ => true | _ => false end.
Definition init (c : cfg) : hst :=
  mkst (c_server c) (c_v13 c)
       (if c_server c then (if c_v13 c then S_START else CH) else (if c_v13 c then S_WAIT_SH else SH))
       false false false
       false (c_cauth c) false false (c_tick c) false false
       false false false (c_tickkeys c) false (c_dtls c) false
       [] (if c_server c then [] else [Tx CH]) [].

(* ---- DTLS sessions with concrete message_seq numbers: ssl->lastMsn lives beside the state; the class of a message is computed
   from it, and it becomes the message_seq of every message that was parsed to the end (sslDecode.c 3129-3134) *)
Inductive dinput := DCcs | DHs (t : Z) (b : body) (msn : Z).
Record dst := mkdst { d_core : hst; d_last : Z }.
Definition dinit (c : cfg) : dst := mkdst (init c) (-1).
Definition dabs (d : dst) (i : dinput) : input :=
  match i with DCcs => ICcs | DHs t b msn => IHs (mkmsg t b (classify (d_last d) msn)) end.
Definition dstep (d : dst) (i : dinput) : dst * out :=
  let '(s', o) := step (d_core d) (dabs d i) in
  (mkdst s' (match i, o with
             | DHs _ _ msn, OAccept _ => msn
             | DHs _ _ msn, OHvr => msn
             | _, _ => d_last d
             end), o).
Fixpoint drun (d : dst) (is : list dinput) : dst :=
  match is with [] => d | i :: r => drun (fst (dstep d i)) r end.
