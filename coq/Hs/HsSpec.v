(* C06 - what the property demands: the handshake / ChangeCipherSpec messages a side RECEIVES before it reports
   completion form exactly one of the sequences that the negotiated version and key-exchange mode allow.

   The grammar is transcribed from the message-flow figures of the RFCs and is independent of the code's states:
     RFC 5246 section 7.3 figure 1 (full handshake) and figure 2 (abbreviated handshake), TLS <= 1.2
     RFC 5077 figures 1-4   (NewSessionTicket before the server's ChangeCipherSpec iff the server sent the SessionTicket extension;
                             abbreviated handshake with a ticket, acknowledged or not)
     RFC 6066 section 8     (CertificateStatus after Certificate, may be omitted)
     RFC 4279 section 2     (PSK: no Certificate; ServerKeyExchange optional (identity hint), mandatory for DHE_PSK)
     RFC 8446 section 2 figures 1-4 (full, HelloRetryRequest, PSK resumption, 0-RTT), NewSessionTicket post-handshake
     RFC 6347 section 4.2 figure 1, 4.2.1 (DTLS 1.0 / 1.2: the TLS <= 1.2 flows, preceded by the cookie exchange ClientHello with an
                             empty cookie / HelloVerifyRequest; the sequences are those of the peer's message_seq numbering
                             (4.2.2): a retransmitted copy or a message that arrives ahead of its predecessors is not a further
                             element of the sequence - the model drops both without a trace, see HsModel.classify)
   A flow lists both directions, each message tagged with its sender; a side's legal sequence is the projection on
   what the peer sends.  ChangeCipherSpec is a message in TLS <= 1.2.  The TLS 1.3 middlebox-compatibility
   ChangeCipherSpec is not part of the TLS 1.3 grammar (RFC 8446 section 5: dropped on receipt). *)
From MV Require Export Hs.HsModel.
Local Open Scope Z_scope.

Inductive mk := KCcs | KHs (t : Z) | KCh0.              (* message kinds; KCh0: DTLS ClientHello with an empty cookie *)
Inductive kex := KexRSA | KexECDHE | KexPSK | KexDHEPSK.
Inductive resm :=
| ResNone          (* full handshake *)
| ResYes           (* <=1.2: the ServerHello told so (session id echoed) / the server found the session or ticket; 1.3: a PSK is selected *)
| ResMaybe.        (* <=1.2 client that offered a ticket and got no SessionTicket extension back: RFC 5077 3.4 - the server may
                      still have accepted the ticket; the next message (Certificate vs ChangeCipherSpec) tells *)

Record mode := mkmode {
  md_v13 : bool;       (* negotiated version is TLS 1.3 *)
  md_server : bool;    (* role of the RECEIVER whose sequence is described *)
  md_kex : kex;        (* <= 1.2 key exchange of the selected suite *)
  md_cauth : bool;     (* receiver is a server that asked for a client certificate *)
  md_res : resm;
  md_newticket : bool; (* <= 1.2: ServerHello carried the SessionTicket extension (RFC 5077: NewSessionTicket MUST follow) *)
  md_ocsp : bool;      (* <= 1.2: ServerHello carried status_request *)
  md_hrr : bool;       (* 1.3: a HelloRetryRequest round took place *)
  md_early : bool;     (* 1.3: the server accepted early data (EndOfEarlyData follows) *)
  md_dtls : bool;      (* DTLS 1.0 / 1.2: RFC 6347 4.2 - the TLS flows, preceded by an optional cookie exchange *)
  md_declined : bool   (* the ClientHello OFFERED a resumption (pre_shared_key: external PSK or ticket / SessionTicket / session id) that
                          the server did not select.  [md_res] says what was SELECTED, and the figures are indexed by that alone: no
                          rule below reads this field ([legal_declined_irrelevant]) - an offer that is turned down leaves the full
                          handshake of the mode due, client certificate included (RFC 8446 4.2.11, RFC 5077 3.1, RFC 5246 7.4.1.2) *)
}.

Definition is_psk (k : kex) : bool := match k with KexPSK | KexDHEPSK => true | _ => false end.
Definition when {A} (b : bool) (l : list A) : list A := if b then l else [].
(* [optional b x l]: l is the optional group x (allowed only when b) or nothing *)
Definition optional {A} (b : bool) (x l : list A) : Prop := l = [] \/ (b = true /\ l = x).

Inductive side := Cl | Sv.
Definition msgs_of (who : side) (ts : list mk) : list (side * mk) := map (fun k => (who, k)) ts.

(* ---- the figures, both directions *)
Inductive flow : mode -> list (side * mk) -> Prop :=
(* RFC 5246 figure 1 + RFC 5077 figure 1 + RFC 6066 + RFC 4279 *)
| Flow12Full : forall md cstat ske creq ccv,
    md_v13 md = false -> md_res md <> ResYes ->
    optional (md_ocsp md && negb (is_psk (md_kex md))) [KHs CSTAT] cstat ->                      (* RFC 6066: MAY be omitted ... *)
    (h_ocsp_must_staple && md_ocsp md && negb (is_psk (md_kex md)) = true -> cstat = [KHs CSTAT]) ->  (* ... unless the receiver is a must-staple
                                                                                                      build (USE_OCSP_MUST_STAPLE, Gen/ConstsHs.v): its policy is to
                                                                                                      require the stapled response once status_request is acknowledged *)
    (match md_kex md with
     | KexRSA => ske = [] | KexECDHE => ske = [KHs SKE] | KexDHEPSK => ske = [KHs SKE]
     | KexPSK => optional true [KHs SKE] ske end) ->
    optional true [KHs CREQ] creq ->                                                               (* server's choice *)
    (creq = [] -> ccv = []) ->
    (creq <> [] -> ccv = [KHs CERT] \/ ccv = [KHs CERT; KHs CVFY]) ->                             (* CertificateVerify only with a signing certificate *)
    (creq <> [] -> h_server_accepts_empty_client_cert = false -> ccv = [KHs CERT; KHs CVFY]) ->   (* a build without SERVER_WILL_ACCEPT_EMPTY_CLIENT_CERT_MSG refuses the
                                                                                                      empty Certificate: one it accepts carries a certificate, so
                                                                                                      CertificateVerify (proof of possession) MUST follow *)
    flow md (msgs_of Cl [KHs CH] ++
             msgs_of Sv ([KHs SH] ++ when (negb (is_psk (md_kex md))) [KHs CERT] ++ cstat ++ ske ++ creq ++ [KHs SHD]) ++
             msgs_of Cl (firstn 1 ccv ++ [KHs CKE] ++ skipn 1 ccv ++ [KCcs; KHs FIN]) ++
             msgs_of Sv (when (md_newticket md) [KHs NST] ++ [KCcs; KHs FIN]))
(* RFC 5246 figure 2 + RFC 5077 figures 2-4 *)
| Flow12Abbr : forall md,
    md_v13 md = false -> md_res md <> ResNone ->
    flow md (msgs_of Cl [KHs CH] ++
             msgs_of Sv ([KHs SH] ++ when (md_newticket md) [KHs NST] ++ [KCcs; KHs FIN]) ++
             msgs_of Cl [KCcs; KHs FIN])
(* RFC 8446 figures 1-4 *)
| Flow13 : forall md creq ccv nsts,
    md_v13 md = true ->
    optional (negb (match md_res md with ResYes => true | _ => false end)) [KHs CREQ] creq ->      (* never with PSK: RFC 8446 4.3.2 *)
    (creq = [] -> ccv = []) ->
    (creq <> [] -> ccv = [KHs CERT] \/ ccv = [KHs CERT; KHs CVFY]) ->                              (* empty Certificate: no CertificateVerify *)
    (creq <> [] -> h_server_accepts_empty_client_cert = false -> ccv = [KHs CERT; KHs CVFY]) ->    (* as above *)
    Forall (fun k => k = KHs NST) nsts ->
    flow md (msgs_of Cl [KHs CH] ++
             when (md_hrr md) (msgs_of Sv [KHs SH] ++ msgs_of Cl [KHs CH]) ++
             msgs_of Sv ([KHs SH; KHs EE] ++ creq ++
                         when (negb (match md_res md with ResYes => true | _ => false end)) [KHs CERT; KHs CVFY] ++ [KHs FIN]) ++
             msgs_of Cl (when (md_early md) [KHs EOED] ++ ccv ++ [KHs FIN]) ++
             msgs_of Sv nsts).

(* what the receiver of mode [md] gets: the peer's messages, in order *)
Definition received (md : mode) (f : list (side * mk)) : list mk :=
  map snd (filter (fun x => match fst x, md_server md with Cl, true => true | Sv, false => true | _, _ => false end) f).

(* a server that asked for a certificate expects the Certificate message; one that did not expects none *)
Definition cauth_consistent (md : mode) (f : list (side * mk)) : Prop :=
  md_server md = true -> (md_cauth md = true <-> In (Sv, KHs CREQ) f).

(* RFC 6347 4.2.1 / figure 1: ClientHello (empty cookie), HelloVerifyRequest, then the handshake proper starting with the
   ClientHello that carries the cookie.  A server keeps no state for the exchange, so its own sequence starts with the ClientHello
   that carries the cookie (first alternative below: the cookie-less one was answered and forgotten); a client sees the
   HelloVerifyRequest or - from a server configured not to ask for cookies (MAY, 4.2.1) - the ServerHello at once.  What no
   alternative contains is a handshake that goes on from a ClientHello with an EMPTY cookie ([KCh0] followed by anything but the
   cookie-bearing ClientHello): the default policy (SHOULD, 4.2.1) of asking every new client for a cookie, which is this
   implementation's only one. *)
Definition cookie_round : list (side * mk) := [(Cl, KCh0); (Sv, KHs HVR)].
Definition dflow (md : mode) (f : list (side * mk)) : Prop :=
  flow md f \/ (md_dtls md = true /\ exists f0, flow md f0 /\ f = cookie_round ++ f0).

Definition legal (md : mode) (l : list mk) : Prop :=
  exists f, dflow md f /\ cauth_consistent md f /\ l = received md f.

(* ---- the negotiated mode, read off the hello messages the receiver accepted (and its own configuration) *)
Definition kind_of (i : item) : mk :=
  match i with MCcs => KCcs | MHs m => match m_body m with BHelloNoCookie => KCh0 | _ => KHs (m_typ m) end end.
Definition kinds (l : list item) : list mk := map kind_of l.

Definition is_hello (server : bool) (m : hmsg) : bool :=
  Z.eqb (m_typ m) (if server then CH else SH) && negb (match m_body m with BHelloNoCookie => true | _ => false end).
Fixpoint hellos (server : bool) (l : list item) : list body :=
  match l with
  | [] => []
  | MHs m :: r => if is_hello server m then m_body m :: hellos server r else hellos server r
  | _ :: r => hellos server r
  end.
Definition kex_of (p d : bool) : kex := if p then (if d then KexDHEPSK else KexPSK) else (if d then KexECDHE else KexRSA).

Definition negotiated (c : cfg) (l : list item) : option mode :=
  let sv := c_server c in
  (* early data can only be accepted together with the PSK and not after a HelloRetryRequest (RFC 8446 4.2.10) *)
  let dcl := existsb offer_declined (hellos sv l) in
  let mk13 hrr p e := Some (mkmode true sv KexECDHE (sv && c_cauth c && negb p) (if p then ResYes else ResNone) false false hrr (sv && e && p && negb hrr) false dcl) in
  let mk12 r p d tk st :=
    Some (mkmode false sv (kex_of p d) (sv && c_cauth c && negb r)
            (if r then ResYes else if negb sv && Z.eqb (c_tick c) T_SENT_TICKET && negb tk then ResMaybe else ResNone)
            (negb sv && tk) (negb sv && st) false false (c_dtls c) dcl) in
  (* the hellos are read through [sel_view]: the mode is made of what was selected *)
  match map sel_view (hellos sv l) with
  | [BHello12 r p d tk st] => mk12 r p d tk st
  | [BHello13 false p e] => mk13 false p e
  | [BHello13 true _ _; BHello13 false p e] => mk13 true p e
  | _ => None
  end.

(* [l] can still become a complete legal log: it is the beginning of the received sequence of some flow whose mode
   is the one negotiated by the hellos of the completed log *)
Definition prefix_ok (c : cfg) (l : list item) : Prop :=
  exists l' md, negotiated c (l ++ l') = Some md /\ legal md (kinds (l ++ l')).
