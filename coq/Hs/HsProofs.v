(* C06 proofs.  The theorems quantify over ALL input sequences; they are obtained from
   (1) a reflective exploration [explore] of every state reachable through accepted messages, over a finite
       alphabet (every SSL_HS_* value as message type x every body), run by vm_compute for each configuration,
   (2) two symbolic lemmas that reduce arbitrary inputs to the alphabet (message types outside the alphabet are
       refused by both gates) and that make SSL_HS_DONE absorbing,
   (3) soundness of the boolean deciders of the grammar ([legalb] -> [legal], [prefix_okb] -> [prefix_ok]). *)
From MV Require Import Hs.HsModel Hs.HsSpec.
From Coq Require Import Lia.
Local Open Scope Z_scope.

Lemma config_as_modelled :
  h_rehandshakes_enabled = false /\ h_ocsp_must_staple = true /\ h_stateless_tickets = true /\ h_psk_and_dhe_suites = true.
Proof. repeat split; reflexivity. Qed.
Lemma no_empty_client_cert : h_server_accepts_empty_client_cert = false.
Proof. reflexivity. Qed.

(* ------------------------------------------------------------------ deciders for the grammar *)
Definition mk_eqb (a b : mk) : bool :=
  match a, b with KCcs, KCcs => true | KHs x, KHs y => Z.eqb x y | KCh0, KCh0 => true | _, _ => false end.
Fixpoint mks_eqb (a b : list mk) : bool :=
  match a, b with
  | [], [] => true
  | x :: a', y :: b' => mk_eqb x y && mks_eqb a' b'
  | _, _ => false
  end.
Lemma mk_eqb_eq a b : mk_eqb a b = true -> a = b.
Proof. destruct a, b; simpl; try discriminate; auto. intro H; apply Z.eqb_eq in H; subst; auto. Qed.
Lemma mks_eqb_eq a : forall b, mks_eqb a b = true -> a = b.
Proof.
  induction a; destruct b; simpl; try discriminate; auto.
  intro H. apply andb_prop in H. destruct H as [H1 H2]. apply mk_eqb_eq in H1. apply IHa in H2. subst; auto.
Qed.

Definition res_yes (md : mode) : bool := match md_res md with ResYes => true | _ => false end.
Definition res_none (md : mode) : bool := match md_res md with ResNone => true | _ => false end.

(* every flow of the grammar without post-handshake NewSessionTickets, by enumeration of the optional parts *)
Definition flows12_full (md : mode) : list (list (side * mk)) :=
  let cstats := (if h_ocsp_must_staple && md_ocsp md && negb (is_psk (md_kex md)) then [] else [[]]) ++
                (if md_ocsp md && negb (is_psk (md_kex md)) then [[KHs CSTAT]] else []) in
  let skes := match md_kex md with KexRSA => [[]] | KexECDHE => [[KHs SKE]] | KexDHEPSK => [[KHs SKE]] | KexPSK => [[]; [KHs SKE]] end in
  let tails := ([], []) :: (if h_server_accepts_empty_client_cert then [([KHs CREQ], [KHs CERT])] else []) ++ [([KHs CREQ], [KHs CERT; KHs CVFY])] in
  flat_map (fun cstat => flat_map (fun ske => map (fun cc : list mk * list mk =>
     let (creq, ccv) := cc in
     msgs_of Cl [KHs CH] ++
     msgs_of Sv ([KHs SH] ++ when (negb (is_psk (md_kex md))) [KHs CERT] ++ cstat ++ ske ++ creq ++ [KHs SHD]) ++
     msgs_of Cl (firstn 1 ccv ++ [KHs CKE] ++ skipn 1 ccv ++ [KCcs; KHs FIN]) ++
     msgs_of Sv (when (md_newticket md) [KHs NST] ++ [KCcs; KHs FIN])) tails) skes) cstats.
Definition flow12_abbr (md : mode) : list (side * mk) :=
  msgs_of Cl [KHs CH] ++ msgs_of Sv ([KHs SH] ++ when (md_newticket md) [KHs NST] ++ [KCcs; KHs FIN]) ++ msgs_of Cl [KCcs; KHs FIN].
Definition flows13 (md : mode) (nsts : list mk) : list (list (side * mk)) :=
  let tails := ([], []) :: (if negb (res_yes md) then (if h_server_accepts_empty_client_cert then [([KHs CREQ], [KHs CERT])] else []) ++ [([KHs CREQ], [KHs CERT; KHs CVFY])] else []) in
  map (fun cc : list mk * list mk =>
     let (creq, ccv) := cc in
     msgs_of Cl [KHs CH] ++ when (md_hrr md) (msgs_of Sv [KHs SH] ++ msgs_of Cl [KHs CH]) ++
     msgs_of Sv ([KHs SH; KHs EE] ++ creq ++ when (negb (res_yes md)) [KHs CERT; KHs CVFY] ++ [KHs FIN]) ++
     msgs_of Cl (when (md_early md) [KHs EOED] ++ ccv ++ [KHs FIN]) ++ msgs_of Sv nsts) tails.
Definition flows (md : mode) (nsts : list mk) : list (list (side * mk)) :=
  if md_v13 md then flows13 md nsts
  else (if res_yes md then [] else flows12_full md) ++ (if res_none md then [] else [flow12_abbr md]).

Definition side_mk_eqb (a b : side * mk) : bool :=
  (match fst a, fst b with Cl, Cl => true | Sv, Sv => true | _, _ => false end) && mk_eqb (snd a) (snd b).
Definition cauth_okb (md : mode) (f : list (side * mk)) : bool :=
  if md_server md then Bool.eqb (md_cauth md) (existsb (side_mk_eqb (Sv, KHs CREQ)) f) else true.

Fixpoint strip_nst (l : list mk) : list mk * list mk :=      (* (body, trailing NewSessionTickets) *)
  match l with
  | [] => ([], [])
  | k :: r => let (b, t) := strip_nst r in
              match b, k with
              | [], KHs x => if Z.eqb x NST then ([], k :: t) else ([k], t)
              | _, _ => (k :: b, t)
              end
  end.

Definition dflows (md : mode) (nsts : list mk) : list (list (side * mk)) :=
  flows md nsts ++ (if md_dtls md then map (app cookie_round) (flows md nsts) else []).
Definition legalb (md : mode) (l : list mk) : bool :=
  let nsts := if md_v13 md && negb (md_server md) then snd (strip_nst l) else [] in
  existsb (fun f => cauth_okb md f && mks_eqb l (received md f)) (dflows md nsts).

(* ------------------------------------------------------------------ candidate completions of a log *)
Definition canon (k : mk) : item :=
  match k with
  | KCcs => MCcs
  | KHs t => MHs (mkmsg t (if Z.eqb t FIN then BFin true else BPlain) MExp)
  | KCh0 => MHs (mkmsg CH BHelloNoCookie MExp)
  end.
Fixpoint is_prefix (a b : list mk) : bool :=
  match a, b with
  | [], _ => true
  | x :: a', y :: b' => mk_eqb x y && is_prefix a' b'
  | _, _ => false
  end.
(* for a log that already holds its final hello: every legal sequence of its mode that extends it *)
Definition ext_known (md : mode) (l : list item) : list (list item) :=
  flat_map (fun f => let ks := received md f in
                     if cauth_okb md f && is_prefix (kinds l) ks then [map canon (skipn (length l) ks)] else [])
           (dflows md []).
(* for a log without its final hello: one plain handshake of the configured kind *)
Definition ext_fresh (c : cfg) : list item :=
  if c_v13 c then
    if c_server c then
      MHs (mkmsg CH (BHello13 false false false) MExp) :: map canon (when (c_cauth c) [KHs CERT; KHs CVFY] ++ [KHs FIN])
    else MHs (mkmsg SH (BHello13 false false false) MExp) :: map canon [KHs EE; KHs CERT; KHs CVFY; KHs FIN]
  else
    if c_server c then
      MHs (mkmsg CH (BHello12 false false false false false) MExp) ::
      map canon (when (c_cauth c) [KHs CERT] ++ [KHs CKE] ++ when (c_cauth c) [KHs CVFY] ++ [KCcs; KHs FIN])
    else MHs (mkmsg SH (BHello12 false false false false false) MExp) :: map canon [KHs CERT; KHs SHD; KCcs; KHs FIN].
Definition extensions (c : cfg) (l : list item) : list (list item) :=
  match negotiated c l with
  | Some md => ext_known md l
  | None => [ext_fresh c]
  end.

Definition completeb (c : cfg) (l : list item) : bool :=
  match negotiated c l with Some md => legalb md (kinds l) | None => false end.
Definition prefix_okb (c : cfg) (l : list item) : bool :=
  existsb (fun e => completeb c (l ++ e)) (extensions c l).

(* ------------------------------------------------------------------ the exploration *)
Definition bools := [false; true].
Definition bodies : list body :=
  [BFail; BPlain; BFin true; BFin false; BHelloNoCookie] ++
  flat_map (fun a => flat_map (fun b => flat_map (fun c => flat_map (fun d => map (fun e => BHello12 a b c d e) bools) bools) bools) bools) bools ++
  flat_map (fun a => flat_map (fun b => map (fun c => BHello13 a b c) bools) bools) bools ++
  (* a resumption offer that is turned down *)
  map BHello13d bools ++ flat_map (fun a => map (fun b => BHello12d a b) bools) bools.
(* every value ssl->hsState can hold and every handshake type the code compares with *)
Definition types : list Z :=
  [HREQ; CH; SH; c_SSL_HS_HELLO_VERIFY_REQUEST; NST; EOED; EE; CERT; SKE; CREQ; SHD; CVFY; CKE; FIN; CSTAT;
   S_START; S_RECVD_CH; c_SSL_HS_TLS_1_3_NEGOTIATED; h_SSL_HS_TLS_1_3_WAIT_FLIGHT_2; S_WAIT_EOED; S_WAIT_CERT; S_WAIT_CV;
   S_WAIT_FIN; S_SEND_NST; S_WAIT_SH; S_WAIT_EE; S_WAIT_CERT_CR; S_SEND_FIN; h_SSL_HS_ALERT; h_SSL_HS_CCC; h_SSL_HS_NONE; DONE].
Definition classes : list mcls := [MExp; MZero; MStale; MFut].
(* TLS sessions do not look at the message_seq class ([step_cls_tls]): the expected one stands for all *)
Definition alphabet (d : bool) : list input :=
  ICcs :: flat_map (fun t => flat_map (fun b => map (fun c => IHs (mkmsg t b c)) (if d then classes else [MExp])) bodies) types.

Definition item_of (i : input) : item := match i with ICcs => MCcs | IHs m => MHs (erase m) end.
Definition expected_twin (i : input) : input := match i with ICcs => ICcs | IHs m => IHs (erase m) end.
Definition body_eqb (a b : body) : bool :=
  match a, b with
  | BFail, BFail | BPlain, BPlain => true
  | BFin x, BFin y => Bool.eqb x y
  | BHello12 a1 a2 a3 a4 a5, BHello12 b1 b2 b3 b4 b5 => Bool.eqb a1 b1 && Bool.eqb a2 b2 && Bool.eqb a3 b3 && Bool.eqb a4 b4 && Bool.eqb a5 b5
  | BHello13 a1 a2 a3, BHello13 b1 b2 b3 => Bool.eqb a1 b1 && Bool.eqb a2 b2 && Bool.eqb a3 b3
  | BHelloNoCookie, BHelloNoCookie => true
  | BHello13d a1, BHello13d b1 => Bool.eqb a1 b1
  | BHello12d a1 a2, BHello12d b1 b2 => Bool.eqb a1 b1 && Bool.eqb a2 b2
  | _, _ => false
  end.
Definition mcls_eqb (a b : mcls) : bool :=
  match a, b with MExp, MExp | MZero, MZero | MStale, MStale | MFut, MFut => true | _, _ => false end.
Definition item_eqb (a b : item) : bool :=
  match a, b with
  | MCcs, MCcs => true
  | MHs x, MHs y => Z.eqb (m_typ x) (m_typ y) && body_eqb (m_body x) (m_body y) && mcls_eqb (m_cls x) (m_cls y)
  | _, _ => false
  end.
Fixpoint items_eqb (a b : list item) : bool :=
  match a, b with
  | [], [] => true
  | x :: a', y :: b' => item_eqb x y && items_eqb a' b'
  | _, _ => false
  end.
Definition tent_eqb (a b : tent) : bool :=
  match a, b with Rx x, Rx y => Z.eqb x y | Tx x, Tx y => Z.eqb x y | Reinit, Reinit => true | _, _ => false end.
Fixpoint tents_eqb (a b : list tent) : bool :=
  match a, b with
  | [], [] => true
  | x :: a', y :: b' => tent_eqb x y && tents_eqb a' b'
  | _, _ => false
  end.

Definition is_fin_true (i : input) : bool :=
  match i with IHs (mkmsg t (BFin true) _) => Z.eqb t FIN | _ => false end.
Definition is_fin_typ (i : input) : bool := match i with IHs m => Z.eqb (m_typ m) FIN | _ => false end.
Definition has_kind (k : mk) (l : list item) : bool := existsb (mk_eqb k) (kinds l).

(* what a completed log must contain at least: the messages whose omission the property names *)
Definition required (md : mode) : list mk :=
  [KHs FIN] ++ when (negb (md_v13 md)) [KCcs] ++
  when (negb (md_v13 md) && negb (md_server md) && res_none md && negb (is_psk (md_kex md)))
       ([KHs CERT; KHs SHD] ++ match md_kex md with KexECDHE => [KHs SKE] | _ => [] end) ++
  when (negb (md_v13 md) && md_server md && negb (res_yes md)) [KHs CKE] ++
  when (negb (md_v13 md) && md_server md && md_cauth md) [KHs CERT; KHs CVFY] ++
  when (md_v13 md && negb (md_server md)) [KHs EE] ++
  when (md_v13 md && negb (md_server md) && negb (res_yes md)) [KHs CERT; KHs CVFY] ++
  when (md_v13 md && md_server md && md_cauth md) [KHs CERT; KHs CVFY] ++
  when (md_v13 md && md_server md && md_early md) [KHs EOED].
Definition noskipb (md : mode) (l : list item) : bool := forallb (fun k => has_kind k l) (required md).

Definition doneb (c : cfg) (s : hst) : bool :=
  match negotiated c (acc s) with
  | Some md => legalb md (kinds (acc s)) && Bool.eqb (v13 s) (md_v13 md) && Bool.eqb (server s) (md_server md) && noskipb md (acc s) &&
               Bool.eqb (dtls s) (md_dtls md)
  | None => false
  end.
Definition good (c : cfg) (s : hst) : bool :=
  prefix_okb c (acc s) && existsb (Z.eqb (hs s)) types && (if Z.eqb (hs s) DONE then doneb c s else true) && negb (dtls s && v13 s) &&
  Bool.eqb (dtls s) (c_dtls c).

(* equality of states (the outcomes that leave the session untouched are checked to do so) *)
Definition hst_eqb (a b : hst) : bool :=
  Bool.eqb (server a) (server b) && Bool.eqb (v13 a) (v13 b) && Z.eqb (hs a) (hs b) && Bool.eqb (rsec a) (rsec b) &&
  Bool.eqb (wsec a) (wsec b) && Bool.eqb (err a) (err b) && Bool.eqb (resumed a) (resumed b) && Bool.eqb (cauth a) (cauth b) &&
  Bool.eqb (psk a) (psk b) && Bool.eqb (dhe a) (dhe b) && Z.eqb (tick a) (tick b) && Bool.eqb (status a) (status b) &&
  Bool.eqb (lastccs a) (lastccs b) && Bool.eqb (usingpsk a) (usingpsk b) && Bool.eqb (hrr a) (hrr b) && Bool.eqb (early a) (early b) &&
  Bool.eqb (tickkeys a) (tickkeys b) && Bool.eqb (gotcr a) (gotcr b) && Bool.eqb (dtls a) (dtls b) && Bool.eqb (cookie a) (cookie b) &&
  items_eqb (acc a) (acc b) && tents_eqb (tr a) (tr b) && tents_eqb (snap a) (snap b).
Definition not_expected (i : input) : bool := match i with ICcs => false | IHs m => negb (mcls_eqb (m_cls m) MExp) end.
Definition droppable (i : input) : bool := match i with ICcs => true | IHs m => negb (mcls_eqb (m_cls m) MExp) end.

Definition fatal_out (o : out) : bool := match o with OFatal _ | OFail => true | _ => false end.

Fixpoint explore (n : nat) (c : cfg) (s : hst) : bool :=
  match n with
  | O => false
  | S n' =>
    forallb (fun i =>
      let '(s', o) := step s i in
      match o with
      | OFatal _ | OFail => err s'
      | OAccept _ =>
          negb (err s') && good c s' && items_eqb (acc s') (acc s ++ [item_of i]) &&
          (* a Finished is never accepted on an unprotected <= 1.2 read side *)
          (if is_fin_typ i && negb (v13 s) then rsec s else true) &&
          (* a message accepted although its message_seq class is not "expected" (TLS: the class is not looked at; DTLS: message_seq 0)
             leaves exactly the state its expected twin leaves: that one is explored *)
          (if not_expected i then hst_eqb s' (fst (step s (expected_twin i))) && (match snd (step s (expected_twin i)) with OAccept _ => true | _ => false end)
           else if Z.eqb (hs s') DONE then is_fin_true i && tents_eqb (snap s') (tr s) else explore n' c s')
      | OIgnore => match i with ICcs => (v13 s || (dtls s && lastccs s)) && hst_eqb s s' | _ => false end
      (* DTLS: dropped, session untouched - a ChangeCipherSpec (no message_seq) or a message whose message_seq is not the expected one *)
      | ODrop _ => dtls s && droppable i && hst_eqb s s'
      (* DTLS server: cookie-less ClientHello answered statelessly; the log can still become legal (optional cookie exchange) *)
      | OHvr => dtls s && hst_eqb s s' && prefix_okb c (acc s ++ [item_of i]) && (match i with IHs m => Z.eqb (m_typ m) CH | ICcs => false end)
      | OWarn _ => false
      | ORefuse => false
      end) (alphabet (c_dtls c))
  end.

Definition all_cfgs : list cfg :=
  flat_map (fun a => flat_map (fun b => map (fun d => Server a b d) bools) bools) bools ++
  flat_map (fun a => map (fun t => Client a t) [T_NOSID; T_INIT; T_SENT_EMPTY; T_SENT_TICKET]) bools ++
  map DServer bools ++ map DClient [T_NOSID; T_INIT; T_SENT_EMPTY; T_SENT_TICKET].
Definition start_ok (c : cfg) : bool := negb (err (init c)) && negb (Z.eqb (hs (init c)) DONE) && good c (init c) && explore 16 c (init c).

(* ================================================================== soundness of the deciders *)
Lemma side_mk_eqb_iff x : side_mk_eqb (Sv, KHs CREQ) x = true <-> x = (Sv, KHs CREQ).
Proof.
  destruct x as [sd k]. unfold side_mk_eqb. cbn [fst snd]. split.
  - intro H. apply andb_prop in H. destruct H as [H1 H2]. destruct sd; try discriminate.
    apply mk_eqb_eq in H2. subst. reflexivity.
  - intro H. inversion H; subst. reflexivity.
Qed.

Lemma cauth_okb_sound md f : cauth_okb md f = true -> cauth_consistent md f.
Proof.
  unfold cauth_okb, cauth_consistent. intros H Hs. rewrite Hs in H. apply Bool.eqb_prop in H. rewrite H. split.
  - intro E. apply existsb_exists in E. destruct E as [x [Hin Hx]]. apply side_mk_eqb_iff in Hx. subst. exact Hin.
  - intro Hin. apply existsb_exists. exists (Sv, KHs CREQ). split; [exact Hin | apply side_mk_eqb_iff; reflexivity].
Qed.

Lemma strip_nst_tail l : Forall (fun k => k = KHs NST) (snd (strip_nst l)).
Proof.
  induction l as [|k r IH]; cbn [strip_nst]; [constructor|].
  destruct (strip_nst r) as [b t]. cbn [snd] in *.
  destruct b; destruct k; cbn [snd]; auto.
  destruct (Z.eqb t0 NST) eqn:E; cbn [snd]; auto.
  apply Z.eqb_eq in E. subst. constructor; auto.
Qed.

Lemma tail_cases creq ccv :
  In (creq, ccv) ((if h_server_accepts_empty_client_cert then [([KHs CREQ], [KHs CERT])] else []) ++ [([KHs CREQ], [KHs CERT; KHs CVFY])]) ->
  creq = [KHs CREQ] /\ (ccv = [KHs CERT; KHs CVFY] \/ (ccv = [KHs CERT] /\ h_server_accepts_empty_client_cert = true)).
Proof.
  intro H. apply in_app_or in H. destruct H as [H | [H | []]].
  - destruct h_server_accepts_empty_client_cert; [|destruct H]. destruct H as [H | []]. inversion H; subst. auto.
  - inversion H; subst. auto.
Qed.

(* ---- offered is not selected: the figures are indexed by what was selected; a declined offer changes nothing *)
Definition set_declined (md : mode) (b : bool) : mode :=
  mkmode (md_v13 md) (md_server md) (md_kex md) (md_cauth md) (md_res md) (md_newticket md) (md_ocsp md) (md_hrr md) (md_early md)
         (md_dtls md) b.
Lemma flow_declined md b f : flow md f -> flow (set_declined md b) f.
Proof.
  intro H. destruct H as [md cstat ske creq ccv H1 H2 H3 H4 H5 H6 H7 H8 H9 | md H1 H2 | md creq ccv nsts H1 H2 H3 H4 H5 H6].
  - apply (Flow12Full (set_declined md b) cstat ske creq ccv); assumption.
  - apply (Flow12Abbr (set_declined md b)); assumption.
  - apply (Flow13 (set_declined md b) creq ccv nsts); assumption.
Qed.
Lemma legal_declined md b l : legal md l -> legal (set_declined md b) l.
Proof.
  intros [f [D [C R]]]. exists f. split; [|split; [exact C | exact R]].
  destruct D as [F | [Dt [f0 [F E]]]]; [left; apply flow_declined; exact F | right; split; [exact Dt|]].
  exists f0. split; [apply flow_declined; exact F | exact E].
Qed.

Lemma flows_sound md nsts f : Forall (fun k => k = KHs NST) nsts -> In f (flows md nsts) -> flow md f.
Proof.
  intros Hn Hin. unfold flows in Hin. destruct (md_v13 md) eqn:V.
  - unfold flows13 in Hin. apply in_map_iff in Hin. destruct Hin as [[creq ccv] [Hf Hc]]. subst f.
    destruct Hc as [Hc | Hc].
    + inversion Hc; subst. apply (Flow13 md [] [] nsts); auto.
      * left; reflexivity.
      * intro C; exfalso; apply C; reflexivity.
      * intro C; exfalso; apply C; reflexivity.
    + assert (R : negb (res_yes md) = true) by (destruct (negb (res_yes md)); [reflexivity | destruct Hc]).
      rewrite R in Hc. apply tail_cases in Hc. destruct Hc as [Hq Hv]. subst creq.
      apply (Flow13 md [KHs CREQ] ccv nsts); auto.
      * right; split; [exact R | reflexivity].
      * discriminate.
      * intros _. destruct Hv as [Hv | [Hv _]]; auto.
      * intros _ E. destruct Hv as [Hv | [_ Hv]]; [exact Hv | congruence].
  - apply in_app_or in Hin. destruct Hin as [Hin | Hin].
    + destruct (res_yes md) eqn:R; [destruct Hin|].
      unfold flows12_full in Hin.
      apply in_flat_map in Hin. destruct Hin as [cstat [Hcs Hin]].
      apply in_flat_map in Hin. destruct Hin as [ske [Hsk Hin]].
      apply in_map_iff in Hin. destruct Hin as [[creq ccv] [Hf Hc]]. subst f.
      assert (Hres : md_res md <> ResYes) by (unfold res_yes in R; destruct (md_res md); congruence).
      assert (Hcstat : optional (md_ocsp md && negb (is_psk (md_kex md))) [KHs CSTAT] cstat).
      { apply in_app_or in Hcs. destruct Hcs as [Hcs | Hcs].
        - destruct (h_ocsp_must_staple && md_ocsp md && negb (is_psk (md_kex md))); [destruct Hcs|].
          destruct Hcs as [Hcs | []]. left; auto.
        - destruct (md_ocsp md && negb (is_psk (md_kex md))); [|destruct Hcs].
          destruct Hcs as [Hcs | []]. right; split; auto. }
      assert (Hmust : h_ocsp_must_staple && md_ocsp md && negb (is_psk (md_kex md)) = true -> cstat = [KHs CSTAT]).
      { intro M. apply in_app_or in Hcs. destruct Hcs as [Hcs | Hcs].
        - rewrite M in Hcs. destruct Hcs.
        - destruct (md_ocsp md && negb (is_psk (md_kex md))); [|destruct Hcs].
          destruct Hcs as [Hcs | []]. auto. }
      assert (Hske : match md_kex md with
                     | KexRSA => ske = [] | KexECDHE => ske = [KHs SKE] | KexDHEPSK => ske = [KHs SKE]
                     | KexPSK => optional true [KHs SKE] ske end).
      { destruct (md_kex md); cbn in Hsk.
        - destruct Hsk as [H | []]; auto.
        - destruct Hsk as [H | []]; auto.
        - destruct Hsk as [H | [H | []]]; [left | right]; auto.
        - destruct Hsk as [H | []]; auto. }
      destruct Hc as [Hc | Hc].
      * inversion Hc; subst. apply (Flow12Full md cstat ske [] []); auto.
        -- left; reflexivity.
        -- intro C; exfalso; apply C; reflexivity.
        -- intro C; exfalso; apply C; reflexivity.
      * apply tail_cases in Hc. destruct Hc as [Hq Hv]. subst creq.
        apply (Flow12Full md cstat ske [KHs CREQ] ccv); auto.
        -- right; split; reflexivity.
        -- discriminate.
        -- intros _. destruct Hv as [Hv | [Hv _]]; auto.
        -- intros _ E. destruct Hv as [Hv | [_ Hv]]; [exact Hv | congruence].
    + destruct (res_none md) eqn:R; [destruct Hin|].
      destruct Hin as [Hin | []]. subst f. apply Flow12Abbr; auto.
      unfold res_none in R; destruct (md_res md); congruence.
Qed.

Lemma legalb_sound md l : legalb md l = true -> legal md l.
Proof.
  unfold legalb. intro H. apply existsb_exists in H. destruct H as [f [Hin H]].
  apply andb_prop in H. destruct H as [Hc He]. apply mks_eqb_eq in He.
  exists f. split; [|split; [apply cauth_okb_sound; exact Hc | exact He]].
  assert (Hn : Forall (fun k => k = KHs NST) (if md_v13 md && negb (md_server md) then snd (strip_nst l) else []))
    by (destruct (md_v13 md && negb (md_server md)); [apply strip_nst_tail | constructor]).
  unfold dflows in Hin. apply in_app_or in Hin. destruct Hin as [Hin | Hin].
  - left. eapply flows_sound; [exact Hn | exact Hin].
  - destruct (md_dtls md) eqn:D; [|destruct Hin]. right. split; [exact D|].
    apply in_map_iff in Hin. destruct Hin as [f0 [Hf Hin]]. exists f0. split; [|symmetry; exact Hf].
    eapply flows_sound; [exact Hn | exact Hin].
Qed.

Lemma prefix_okb_sound c l : prefix_okb c l = true -> prefix_ok c l.
Proof.
  unfold prefix_okb. intro H. apply existsb_exists in H. destruct H as [e [_ H]].
  unfold completeb in H. destruct (negotiated c (l ++ e)) as [md|] eqn:N; [|discriminate].
  exists e, md. split; [exact N | apply legalb_sound; exact H].
Qed.

(* ================================================================== from the alphabet to all inputs *)
Lemma bodies_all b : In b bodies.
Proof.
  destruct b as [| [] [] [] [] [] | [] [] [] | [] | | | [] | [] []]; unfold bodies; cbn; repeat (try (left; reflexivity); right).
Qed.

Lemma in_alphabet i : match i with ICcs => True | IHs m => In (m_typ m) types end -> In i (alphabet true).
Proof.
  destruct i as [|[t b c]]; intro H; unfold alphabet; [left; reflexivity | right].
  apply in_flat_map. exists t. split; [exact H|]. apply in_flat_map. exists b. split; [apply bodies_all|].
  apply (in_map (fun c0 => IHs (mkmsg t b c0))). destruct c; cbn; tauto.
Qed.
Lemma in_alphabet_tls m : In (m_typ m) types -> In (IHs (erase m)) (alphabet false).
Proof.
  destruct m as [t b c]. intro H. unfold alphabet, erase. cbn [m_typ m_body]. right.
  apply in_flat_map. exists t. split; [exact H|]. apply in_flat_map. exists b. split; [apply bodies_all|]. left. reflexivity.
Qed.

Lemma types_mem x : existsb (Z.eqb x) types = true -> In x types.
Proof. intro H. apply existsb_exists in H. destruct H as [y [Hy E]]. apply Z.eqb_eq in E. subst. exact Hy. Qed.

Lemma neq_types t x : ~ In t types -> existsb (Z.eqb x) types = true -> eqb t x = false.
Proof.
  intros Hn Hx. apply types_mem in Hx. unfold eqb. apply Z.eqb_neq. intro E. subst. contradiction.
Qed.

Ltac kill_t Hn :=
  repeat match goal with
         | |- context [eqb ?t ?x] =>
             lazymatch goal with
             | H : ~ In t types |- _ => rewrite (neq_types t x H) by reflexivity
             end
         end.

(* a TLS session does not look at the message_seq class *)
Lemma handler12_cls s t b c c' : handler12 s (mkmsg t b c) = handler12 s (mkmsg t b c').
Proof. unfold handler12. cbn [m_body]. reflexivity. Qed.
Lemma step12_cls_tls s t b c : dtls s = false -> step12 s (mkmsg t b c) = step12 s (mkmsg t b MExp).
Proof.
  intro D. unfold step12, gate12d. cbn [m_typ m_cls]. rewrite D. cbn [negb].
  destruct (gate12 s t); reflexivity.
Qed.
Lemma step_cls_tls s m : dtls s = false -> step s (IHs m) = step s (IHs (erase m)).
Proof.
  intro D. destruct m as [t b c]. unfold erase. cbn [m_typ m_body]. unfold step.
  destruct (err s); [reflexivity|]. destruct (v13 s).
  - unfold step13, accept, erase. cbn [m_typ m_body].
    rewrite (step12_cls_tls (set_v13 (set_hs s CH) false) t b c) by (destruct s; exact D).
    rewrite (step12_cls_tls (set_v13 (set_hs s SH) false) t b c) by (destruct s; exact D).
    reflexivity.
  - apply step12_cls_tls. exact D.
Qed.

(* a message whose type is none of the SSL_HS_* values is refused by both gates - or, on a DTLS session, dropped for its message_seq *)
Lemma step_unknown s m :
  err s = false -> In (hs s) types -> ~ In (m_typ m) types ->
  step s (IHs m) = (set_err s true, OFatal UNEXPECTED) \/
  (dtls s = true /\ v13 s = false /\ droppable (IHs m) = true /\ exists r, step s (IHs m) = (s, ODrop r)).
Proof.
  intros He Hh Hn. destruct m as [t b c]. cbn [m_typ] in Hn.
  assert (Hth : eqb t (hs s) = false).
  { unfold eqb. apply Z.eqb_neq. intro E. subst. contradiction. }
  unfold step. rewrite He. destruct (v13 s) eqn:V.
  - left. unfold step13. cbn [m_typ]. unfold check13. kill_t Hn. cbn.
    destruct (server s); cbn; reflexivity.
  - unfold step12. cbn [m_typ m_cls]. unfold gate12d. destruct (dtls s) eqn:D; cbn [negb].
    + kill_t Hn. rewrite !Bool.andb_false_l. replace (if server s then false else false) with false by (destruct (server s); reflexivity).
      destruct c.
      * left. unfold gate12g, dtls_tail. rewrite Hth. kill_t Hn. cbn.
        destruct (server s); cbn; destruct (eqb (hs s) CSTAT); cbn; try reflexivity; destruct (psk s); cbn; reflexivity.
      * unfold gate12g, dtls_tail. rewrite Hth. kill_t Hn. cbn.
        destruct (server s); cbn; destruct (eqb (hs s) CSTAT); cbn; try (left; reflexivity);
          destruct (psk s); cbn; right; (split; [reflexivity | split; [reflexivity | split; [reflexivity | eexists; reflexivity]]]).
      * right. split; [reflexivity | split; [reflexivity | split; [reflexivity | eexists; reflexivity]]].
      * right. split; [reflexivity | split; [reflexivity | split; [reflexivity | eexists; reflexivity]]].
    + left. unfold gate12, gate12g. rewrite Hth. kill_t Hn. cbn.
      destruct (server s); cbn; destruct (eqb (hs s) CSTAT); cbn; try reflexivity;
        destruct (psk s); cbn; reflexivity.
Qed.

(* ================================================================== SSL_HS_DONE is absorbing *)
(* outcomes that are neither fatal nor an advance: the session is left exactly as it was *)
Definition quiet (c : cfg) (s : hst) (i : input) (o : out) : Prop :=
  (* ChangeCipherSpec: the TLS 1.3 middlebox one; DTLS: the one of a retransmitted flight (a ChangeCipherSpec was just taken) *)
  (o = OIgnore /\ i = ICcs /\ (v13 s = true \/ (dtls s = true /\ lastccs s = true))) \/
  (* DTLS: a ChangeCipherSpec out of place (no message_seq: reordering cannot be told apart) or a handshake message whose
     message_seq is not the expected one (retransmission / arrived early) is dropped *)
  (dtls s = true /\ droppable i = true /\ exists r, o = ODrop r) \/
  (* a renegotiation request on a completed session gets the no_renegotiation warning *)
  (o = OWarn c_SSL_ALERT_NO_RENEGOTIATION /\ hs s = DONE /\ v13 s = false /\
   exists m, i = IHs m /\ m_typ m = (if server s then CH else HREQ)) \/
  (* DTLS server: a cookie-less ClientHello is answered with HelloVerifyRequest and forgotten; the (empty) log stays legal *)
  (o = OHvr /\ dtls s = true /\ prefix_ok c (acc s ++ [item_of i]) /\ exists m, i = IHs m /\ m_typ m = CH).

Lemma done_step c s i s' o :
  step s i = (s', o) -> err s = false -> hs s = DONE ->
  (fatal_out o = true /\ err s' = true) \/
  (quiet c s i o /\ s' = s) \/
  (exists m, i = IHs m /\ m_typ m = NST /\ m_body m = BPlain /\ v13 s = true /\ server s = false /\ s' = accept s m false /\ o = OAccept false).
Proof.
  intros Hs He Hh. destruct s as [sv vv h rs ws er re ca pk dh tk st lc up hr ea tkk gc dt ck ac trr sn]. simpl in He, Hh. subst.
  destruct i as [|[t b cl]].
  - unfold step in Hs. cbn [err v13] in Hs. destruct vv.
    + inversion Hs; subst. right; left. split; [left; repeat split; auto | reflexivity].
    + unfold ccs12 in Hs. cbn in Hs. destruct dt.
      * inversion Hs; subst. right; left. split; [right; left; repeat split; eauto | reflexivity].
      * destruct pk; cbn in Hs; inversion Hs; subst; left; split; reflexivity.
  - unfold step in Hs. cbn [err v13] in Hs. destruct vv.
    + (* TLS 1.3 *)
      unfold step13 in Hs. cbn [m_typ m_body server hs] in Hs. unfold check13 in Hs.
      replace (eqb DONE S_START) with false in Hs by reflexivity.
      replace (eqb DONE S_WAIT_SH) with false in Hs by reflexivity.
      replace (eqb DONE S_WAIT_EE) with false in Hs by reflexivity.
      replace (eqb DONE S_WAIT_CERT_CR) with false in Hs by reflexivity.
      replace (eqb DONE S_WAIT_CERT) with false in Hs by reflexivity.
      replace (eqb DONE S_WAIT_CV) with false in Hs by reflexivity.
      replace (eqb DONE S_WAIT_EOED) with false in Hs by reflexivity.
      replace (eqb DONE S_WAIT_FIN) with false in Hs by reflexivity.
      replace (eqb DONE DONE) with true in Hs by reflexivity.
      rewrite !Bool.andb_false_r in Hs. cbn [orb] in Hs. rewrite ?Bool.andb_false_r in Hs. rewrite ?Bool.andb_true_r in Hs.
      destruct sv; cbn [negb andb] in Hs.
      * inversion Hs; subst. left; split; reflexivity.
      * destruct (eqb t NST) eqn:E; cbn [negb] in Hs.
        -- unfold eqb in E. apply Z.eqb_eq in E. subst t.
           replace (eqb NST CH) with false in Hs by reflexivity.
           replace (eqb NST SH) with false in Hs by reflexivity.
           replace (eqb NST FIN) with false in Hs by reflexivity.
           replace (eqb NST EE) with false in Hs by reflexivity.
           replace (eqb NST CREQ) with false in Hs by reflexivity.
           replace (eqb NST CERT) with false in Hs by reflexivity.
           replace (eqb NST CVFY) with false in Hs by reflexivity.
           replace (eqb NST EOED) with false in Hs by reflexivity.
           destruct b; cbn [body_ok negb] in Hs; inversion Hs; subst;
             try (left; split; reflexivity).
           right; right. exists (mkmsg NST BPlain cl). repeat split; reflexivity.
        -- inversion Hs; subst. left; split; reflexivity.
    + (* TLS <= 1.2 and DTLS *)
      unfold step12 in Hs. cbn [m_typ m_cls] in Hs. unfold gate12d, gate12 in Hs. cbn [server hs dtls] in Hs.
      destruct (if sv then eqb t CH && eqb DONE DONE else eqb t HREQ && eqb DONE DONE) eqn:NR.
      * (* renegotiation request *)
        assert (Ht : t = (if sv then CH else HREQ)).
        { replace (eqb DONE DONE) with true in NR by reflexivity. rewrite !Bool.andb_true_r in NR.
          destruct sv; unfold eqb in NR; apply Z.eqb_eq in NR; exact NR. }
        assert (Hs2 : (s', o) = ({| server := sv; v13 := false; hs := DONE; rsec := rs; wsec := ws; err := false; resumed := re; cauth := ca;
                                   psk := pk; dhe := dh; tick := tk; status := st; lastccs := lc; usingpsk := up; hrr := hr; early := ea;
                                   tickkeys := tkk; gotcr := gc; dtls := dt; cookie := ck; acc := ac; tr := trr; snap := sn |},
                                 OWarn c_SSL_ALERT_NO_RENEGOTIATION)).
        { destruct dt; cbn [negb] in Hs; unfold gate12g in Hs; cbn [server hs] in Hs; rewrite ?NR in Hs; symmetry; exact Hs. }
        inversion Hs2; subst s' o. right; left. split; [|reflexivity].
        right; right; left. split; [reflexivity|]. split; [reflexivity|]. split; [reflexivity|].
        exists (mkmsg t b cl). split; [reflexivity|]. cbn [m_typ server]. exact Ht.
      * destruct dt; cbn [negb] in Hs.
        -- (* DTLS *)
           destruct cl.
           ++ (* expected message_seq *)
              unfold gate12g, dtls_tail in Hs. cbn [server hs rsec wsec tick psk dhe cauth cookie] in Hs. rewrite NR in Hs.
              destruct (eqb t DONE) eqn:E.
              ** unfold eqb in E. apply Z.eqb_eq in E. subst t.
                 destruct sv; cbn in Hs; unfold handler12 in Hs; cbn in Hs; inversion Hs; subst; left; split; reflexivity.
              ** replace (eqb DONE SHD) with false in Hs by reflexivity.
                 replace (eqb DONE SH) with false in Hs by reflexivity.
                 replace (eqb DONE FIN) with false in Hs by reflexivity.
                 replace (eqb DONE CSTAT) with false in Hs by reflexivity.
                 replace (eqb DONE SKE) with false in Hs by reflexivity.
                 replace (eqb DONE DONE) with true in Hs by reflexivity.
                 destruct sv, (eqb t CH), (eqb t HREQ), (eqb t CREQ), (eqb t NST), (eqb t SHD), (eqb t HVR), pk, dh; cbn in Hs; cbn in NR;
                   try discriminate; inversion Hs; subst; left; split; reflexivity.
           ++ (* message_seq 0 *)
              unfold gate12g, dtls_tail in Hs. cbn [server hs rsec wsec tick psk dhe cauth cookie] in Hs. rewrite NR in Hs.
              destruct (eqb t DONE) eqn:E.
              ** unfold eqb in E. apply Z.eqb_eq in E. subst t.
                 destruct sv; cbn in Hs; unfold handler12 in Hs; cbn in Hs; inversion Hs; subst; left; split; reflexivity.
              ** replace (eqb DONE SHD) with false in Hs by reflexivity.
                 replace (eqb DONE SH) with false in Hs by reflexivity.
                 replace (eqb DONE FIN) with false in Hs by reflexivity.
                 replace (eqb DONE CSTAT) with false in Hs by reflexivity.
                 replace (eqb DONE SKE) with false in Hs by reflexivity.
                 replace (eqb DONE DONE) with true in Hs by reflexivity.
                 destruct sv, (eqb t CH), (eqb t HREQ), (eqb t CREQ), (eqb t NST), (eqb t SHD), (eqb t HVR), pk, dh; cbn in Hs; cbn in NR;
                   try discriminate; inversion Hs; subst;
                   first [ left; split; reflexivity
                         | right; left; split; [right; left; split; [reflexivity | split; [reflexivity | eexists; reflexivity]] | reflexivity] ].
           ++ inversion Hs; subst. right; left. split; [right; left; split; [reflexivity | split; [reflexivity | eexists; reflexivity]] | reflexivity].
           ++ inversion Hs; subst. right; left. split; [right; left; split; [reflexivity | split; [reflexivity | eexists; reflexivity]] | reflexivity].
        -- (* TLS *)
           unfold gate12g in Hs. cbn [server hs rsec wsec tick psk dhe cauth] in Hs. rewrite NR in Hs.
           destruct (eqb t DONE) eqn:E.
           ++ unfold eqb in E. apply Z.eqb_eq in E. subst t.
              destruct sv; cbn in Hs; unfold handler12 in Hs; cbn in Hs; inversion Hs; subst; left; split; reflexivity.
           ++ replace (eqb DONE SHD) with false in Hs by reflexivity.
              replace (eqb DONE SH) with false in Hs by reflexivity.
              replace (eqb DONE FIN) with false in Hs by reflexivity.
              replace (eqb DONE CSTAT) with false in Hs by reflexivity.
              replace (eqb DONE SKE) with false in Hs by reflexivity.
              replace (eqb DONE DONE) with true in Hs by reflexivity.
              destruct sv, (eqb t CH), (eqb t HREQ), (eqb t CREQ), (eqb t NST), (eqb t SHD), pk, dh; cbn in Hs; cbn in NR;
                try discriminate; inversion Hs; subst; left; split; reflexivity.
Qed.

(* ================================================================== one step from an explored state *)
Lemma body_eqb_eq a b : body_eqb a b = true -> a = b.
Proof.
  destruct a, b; cbn; try discriminate; auto; intro H;
    repeat match goal with
           | H : _ && _ = true |- _ => apply andb_prop in H; destruct H
           | H : Bool.eqb _ _ = true |- _ => apply Bool.eqb_prop in H
           end; subst; reflexivity.
Qed.
Lemma mcls_eqb_eq a b : mcls_eqb a b = true -> a = b.
Proof. destruct a, b; cbn; try discriminate; reflexivity. Qed.
Lemma item_eqb_eq a b : item_eqb a b = true -> a = b.
Proof.
  destruct a as [|[t1 b1 c1]], b as [|[t2 b2 c2]]; cbn; try discriminate; auto. intro H.
  apply andb_prop in H. destruct H as [H H3]. apply andb_prop in H. destruct H as [H1 H2].
  apply Z.eqb_eq in H1. apply body_eqb_eq in H2. apply mcls_eqb_eq in H3. subst. reflexivity.
Qed.
Lemma items_eqb_eq a : forall b, items_eqb a b = true -> a = b.
Proof.
  induction a; destruct b; cbn; try discriminate; auto. intro H.
  apply andb_prop in H. destruct H as [H1 H2]. apply item_eqb_eq in H1. apply IHa in H2. subst. reflexivity.
Qed.
Lemma tent_eqb_eq a b : tent_eqb a b = true -> a = b.
Proof. destruct a, b; cbn; try discriminate; auto; intro H; apply Z.eqb_eq in H; subst; reflexivity. Qed.
Lemma tents_eqb_eq a : forall b, tents_eqb a b = true -> a = b.
Proof.
  induction a; destruct b; cbn; try discriminate; auto. intro H.
  apply andb_prop in H. destruct H as [H1 H2]. apply tent_eqb_eq in H1. apply IHa in H2. subst. reflexivity.
Qed.

Definition live (c : cfg) (s : hst) : Prop :=
  err s = false /\ hs s <> DONE /\ good c s = true /\ exists n, explore n c s = true.

Lemma good_parts c s : good c s = true ->
  prefix_okb c (acc s) = true /\ In (hs s) types /\ (hs s = DONE -> doneb c s = true) /\ (dtls s = true -> v13 s = false) /\ dtls s = c_dtls c.
Proof.
  unfold good. intro H.
  destruct (andb_prop _ _ H) as [H1 E]. destruct (andb_prop _ _ H1) as [H2 D]. destruct (andb_prop _ _ H2) as [H3 C].
  destruct (andb_prop _ _ H3) as [A B].
  split; [exact A|]. split; [apply types_mem; exact B|]. split.
  - intro Hd. rewrite Hd in C. exact C.
  - split; [|apply Bool.eqb_prop; exact E].
    intro T. rewrite T in D. destruct (v13 s); [discriminate | reflexivity].
Qed.
Lemma good_hs c s : good c s = true -> In (hs s) types.
Proof. intro H. apply good_parts in H. tauto. Qed.

Lemma hst_eqb_eq a b : hst_eqb a b = true -> a = b.
Proof.
  destruct a, b. unfold hst_eqb. cbn. intro H.
  repeat match type of H with _ && _ = true => let K := fresh "K" in apply andb_prop in H; destruct H as [H K] end.
  repeat match goal with
         | K : Bool.eqb _ _ = true |- _ => apply Bool.eqb_prop in K
         | K : Z.eqb _ _ = true |- _ => apply Z.eqb_eq in K
         | K : items_eqb _ _ = true |- _ => apply items_eqb_eq in K
         | K : tents_eqb _ _ = true |- _ => apply tents_eqb_eq in K
         end.
  subst. reflexivity.
Qed.

Lemma twin_facts i : item_of (expected_twin i) = item_of i /\ is_fin_typ (expected_twin i) = is_fin_typ i /\
                     is_fin_true (expected_twin i) = is_fin_true i /\ not_expected (expected_twin i) = false.
Proof. destruct i as [|[t b c]]; cbn; repeat split; reflexivity. Qed.
Lemma twin_in_alphabet d i : In i (alphabet d) -> In (expected_twin i) (alphabet d).
Proof.
  unfold alphabet. intros [H | H]; [subst; left; reflexivity | right].
  apply in_flat_map in H. destruct H as [t [Ht H]]. apply in_flat_map in H. destruct H as [b [Hb H]].
  apply in_map_iff in H. destruct H as [c0 [E _]]. subst i. cbn [expected_twin erase m_typ m_body].
  apply in_flat_map. exists t. split; [exact Ht|]. apply in_flat_map. exists b. split; [exact Hb|].
  apply (in_map (fun c1 => IHs (mkmsg t b c1))). destruct d; cbn; tauto.
Qed.

Definition accepted (c : cfg) (s : hst) (i : input) (s' : hst) (o : out) : Prop :=
  exists r, o = OAccept r /\ err s' = false /\ good c s' = true /\ acc s' = acc s ++ [item_of i] /\
            (is_fin_typ i = true -> v13 s = false -> rsec s = true) /\
            ((hs s' = DONE /\ is_fin_true i = true /\ snap s' = tr s) \/
             (err s' = false /\ hs s' <> DONE /\ good c s' = true /\ exists n, explore n c s' = true)).

Lemma live_step_in c s i s' o n :
  err s = false -> good c s = true -> explore (S n) c s = true -> In i (alphabet (c_dtls c)) -> step s i = (s', o) ->
  (fatal_out o = true /\ err s' = true) \/ (quiet c s i o /\ s' = s) \/ accepted c s i s' o.
Proof.
  intros He Hg Hx Ha Hs. cbn [explore] in Hx. rewrite forallb_forall in Hx.
  pose proof (Hx i Ha) as Hi. rewrite Hs in Hi.
  destruct o as [d | | r | w | | rx | |].
  - left; split; [reflexivity | exact Hi].
  - left; split; [reflexivity | exact Hi].
  - right; right.
    destruct (andb_prop _ _ Hi) as [Hx1 KE]. destruct (andb_prop _ _ Hx1) as [Hx2 KD].
    destruct (andb_prop _ _ Hx2) as [Hx3 KC]. destruct (andb_prop _ _ Hx3) as [KA KB].
    apply Bool.negb_true_iff in KA. apply items_eqb_eq in KC.
    destruct (not_expected i) eqn:NE.
    + (* accepted with an unexpected message_seq class: same as its expected twin *)
      destruct (andb_prop _ _ KE) as [KS KO]. apply hst_eqb_eq in KS.
      pose proof (Hx _ (twin_in_alphabet _ _ Ha)) as Ht.
      destruct (step s (expected_twin i)) as [st ot] eqn:Hst. cbn [fst snd] in KS, KO. subst st.
      destruct ot; try discriminate.
      destruct (twin_facts i) as [T1 [T2 [T3 T4]]]. rewrite T4 in Ht.
      destruct (andb_prop _ _ Ht) as [Hy1 LE]. 
      exists r. split; [reflexivity|]. split; [exact KA|]. split; [exact KB|]. split; [exact KC|]. split.
      * intros F V. rewrite F, V in KD. exact KD.
      * destruct (Z.eqb (hs s') DONE) eqn:D.
        -- left. apply Z.eqb_eq in D. apply andb_prop in LE. destruct LE as [F T]. apply tents_eqb_eq in T. rewrite T3 in F. auto.
        -- right. apply Z.eqb_neq in D. split; [exact KA|]. split; [exact D|]. split; [exact KB|]. exists n. exact LE.
    + exists r. split; [reflexivity|]. split; [exact KA|]. split; [exact KB|]. split; [exact KC|]. split.
      * intros F V. rewrite F, V in KD. exact KD.
      * destruct (Z.eqb (hs s') DONE) eqn:D.
        -- left. apply Z.eqb_eq in D. apply andb_prop in KE. destruct KE as [F T]. apply tents_eqb_eq in T. auto.
        -- right. apply Z.eqb_neq in D. split; [exact KA|]. split; [exact D|]. split; [exact KB|]. exists n. exact KE.
  - discriminate.
  - right; left. destruct i as [|m]; [|discriminate].
    destruct (andb_prop _ _ Hi) as [K1 K2]. apply hst_eqb_eq in K2. split; [|symmetry; exact K2].
    left. split; [reflexivity|]. split; [reflexivity|].
    destruct (v13 s); [left; reflexivity|]. cbn [orb] in K1. apply andb_prop in K1. right. exact K1.
  - right; left. destruct (andb_prop _ _ Hi) as [K1 K3]. destruct (andb_prop _ _ K1) as [K0 K2]. apply hst_eqb_eq in K3.
    split; [|symmetry; exact K3]. right; left. split; [exact K0|]. split; [exact K2|]. eexists; reflexivity.
  - right; left. destruct (andb_prop _ _ Hi) as [K4 K5]. destruct (andb_prop _ _ K4) as [K1 K3]. destruct (andb_prop _ _ K1) as [K0 K2].
    apply hst_eqb_eq in K2.
    split; [|symmetry; exact K2]. right; right; right. split; [reflexivity|]. split; [exact K0|]. split; [apply prefix_okb_sound; exact K3|].
    destruct i as [|m]; [discriminate|]. exists m. split; [reflexivity|]. apply Z.eqb_eq. exact K5.
  - discriminate.
Qed.

Lemma live_step c s i s' o :
  live c s -> step s i = (s', o) ->
  (fatal_out o = true /\ err s' = true) \/ (quiet c s i o /\ s' = s) \/ accepted c s i s' o.
Proof.
  intros [He [Hd [Hg [n Hx]]]] Hs.
  destruct n as [|n]; [discriminate|].
  destruct (good_parts c s Hg) as [_ [Hh [_ [Hv Hdt]]]].
  destruct i as [|m].
  - apply (live_step_in c s ICcs s' o n He Hg Hx); [left; reflexivity | exact Hs].
  - destruct (in_dec Z.eq_dec (m_typ m) types) as [Hin | Hout].
    + destruct (c_dtls c) eqn:CD.
      * apply (live_step_in c s (IHs m) s' o n He Hg Hx); [rewrite CD; apply in_alphabet; exact Hin | exact Hs].
      * (* TLS: the class is not looked at *)
        rewrite (step_cls_tls s m Hdt) in Hs.
        assert (Ha : In (IHs (erase m)) (alphabet (c_dtls c))) by (rewrite CD; apply in_alphabet_tls; exact Hin).
        destruct (live_step_in c s (IHs (erase m)) s' o n He Hg Hx Ha Hs) as [F | [[Q E] | A]].
        -- left. exact F.
        -- exfalso. destruct Q as [[_ [Q _]] | [[Q _] | [[_ [Q _]] | [_ [Q _]]]]]; try discriminate; try congruence.
        -- right; right. destruct A as [r A]. exists r.
           destruct (twin_facts (IHs m)) as [T1 [T2 [T3 _]]]. cbn [expected_twin] in T1, T2, T3. rewrite T1, T2, T3 in A. exact A.
    + destruct (step_unknown s m He Hh Hout) as [U | [D [V [Dr [r U]]]]]; rewrite U in Hs; inversion Hs; subst.
      * left; split; reflexivity.
      * right; left. split; [|reflexivity]. right; left. split; [exact D|]. split; [exact Dr|]. eexists; reflexivity.
Qed.

(* ================================================================== the invariant of every run *)
Definition done_inv (c : cfg) (s : hst) : Prop :=
  exists md, negotiated c (acc s) = Some md /\ legal md (kinds (acc s)) /\
             v13 s = md_v13 md /\ server s = md_server md /\ noskipb md (acc s) = true /\
             dtls s = md_dtls md /\ (dtls s = true -> v13 s = false).

Inductive stat (c : cfg) (s : hst) : Prop :=
| StDead : err s = true -> stat c s
| StDone : err s = false -> hs s = DONE -> done_inv c s -> stat c s
| StLive : live c s -> stat c s.

Lemma good_done c s : good c s = true -> hs s = DONE -> done_inv c s.
Proof.
  intros H Hd. destruct (good_parts c s H) as [_ [_ [Hdone [Hv _]]]]. specialize (Hdone Hd).
  unfold doneb in Hdone. destruct (negotiated c (acc s)) as [md|] eqn:N; [|discriminate].
  destruct (andb_prop _ _ Hdone) as [H0 KD]. destruct (andb_prop _ _ H0) as [H1 KN]. destruct (andb_prop _ _ H1) as [H2 KS].
  destruct (andb_prop _ _ H2) as [KL KV].
  exists md. split; [exact N|]. split; [apply legalb_sound; exact KL|].
  split; [apply Bool.eqb_prop; exact KV|]. split; [apply Bool.eqb_prop; exact KS|]. split; [exact KN|].
  split; [apply Bool.eqb_prop; exact KD | exact Hv].
Qed.

Lemma kinds_app a b : kinds (a ++ b) = kinds a ++ kinds b.
Proof. unfold kinds. apply map_app. Qed.

Lemma hellos_app_other sv l m : is_hello sv m = false -> hellos sv (l ++ [MHs m]) = hellos sv l.
Proof.
  intro H. induction l as [|x r IH]; cbn [app hellos].
  - rewrite H. reflexivity.
  - destruct x; [exact IH|]. destruct (is_hello sv m0); rewrite IH; reflexivity.
Qed.

Lemma negotiated_app_other c l m : is_hello (c_server c) m = false -> negotiated c (l ++ [MHs m]) = negotiated c l.
Proof. intro H. unfold negotiated. rewrite (hellos_app_other _ _ _ H). reflexivity. Qed.

Lemma received_app md a b : received md (a ++ b) = received md a ++ received md b.
Proof. unfold received. rewrite filter_app, map_app. reflexivity. Qed.

Lemma app5 {T} (a b c d e x : list T) : a ++ b ++ c ++ d ++ e ++ x = (a ++ b ++ c ++ d ++ e) ++ x.
Proof. rewrite <- !app_assoc. reflexivity. Qed.

Lemma msgs_of_app who a b : msgs_of who (a ++ b) = msgs_of who a ++ msgs_of who b.
Proof. unfold msgs_of. apply map_app. Qed.

(* RFC 8446: one more post-handshake NewSessionTicket keeps a client's sequence legal *)
Lemma legal_nst md l : md_v13 md = true -> md_server md = false -> md_dtls md = false -> legal md l -> legal md (l ++ [KHs NST]).
Proof.
  intros V S D [f [Hdf [Hc Hl]]]. destruct Hdf as [Hf | [Dt _]]; [|congruence].
  inversion Hf; subst; try congruence.
  exists (msgs_of Cl [KHs CH] ++
          when (md_hrr md) (msgs_of Sv [KHs SH] ++ msgs_of Cl [KHs CH]) ++
          msgs_of Sv ([KHs SH; KHs EE] ++ creq ++
                      when (negb (match md_res md with ResYes => true | _ => false end)) [KHs CERT; KHs CVFY] ++ [KHs FIN]) ++
          msgs_of Cl (when (md_early md) [KHs EOED] ++ ccv ++ [KHs FIN]) ++ msgs_of Sv (nsts ++ [KHs NST])).
  split; [|split].
  - left. apply Flow13; auto. apply Forall_app. split; [assumption | constructor; [reflexivity | constructor]].
  - unfold cauth_consistent. intro C. congruence.
  - rewrite (msgs_of_app Sv nsts [KHs NST]). rewrite app5.
    match goal with |- _ = received md (?F ++ ?X) => rewrite (received_app md F X) end.
    replace (received md (msgs_of Sv [KHs NST])) with [KHs NST] by (unfold received; cbn; rewrite S; reflexivity).
    reflexivity.
Qed.

Lemma has_kind_app k l e : has_kind k l = true -> has_kind k (l ++ e) = true.
Proof.
  unfold has_kind. rewrite kinds_app, existsb_app. intro H. rewrite H. reflexivity.
Qed.
Lemma noskipb_app md l e : noskipb md l = true -> noskipb md (l ++ e) = true.
Proof.
  unfold noskipb. rewrite !forallb_forall. intros H k Hk. apply has_kind_app. apply H. exact Hk.
Qed.

Lemma accept_nohash s m :
  err (accept s m false) = err s /\ hs (accept s m false) = hs s /\ v13 (accept s m false) = v13 s /\
  server (accept s m false) = server s /\ acc (accept s m false) = acc s ++ [MHs (erase m)] /\
  snap (accept s m false) = snap s /\ tr (accept s m false) = tr s /\ dtls (accept s m false) = dtls s.
Proof. destruct s. cbn. repeat split; reflexivity. Qed.

Lemma nst_not_hello sv m : m_typ m = NST -> is_hello sv (erase m) = false.
Proof. intro H. unfold is_hello, erase. cbn [m_typ m_body]. rewrite H. destruct sv; reflexivity. Qed.

Lemma done_inv_nst c s m :
  done_inv c s -> m_typ m = NST -> m_body m = BPlain -> v13 s = true -> server s = false ->
  negotiated c (acc s ++ [MHs (erase m)]) = negotiated c (acc s) /\ done_inv c (accept s m false).
Proof.
  intros [md [N [L [V' [S' [K [D Dv]]]]]]] Hn Hb V S.
  pose proof (negotiated_app_other c (acc s) (erase m) (nst_not_hello (c_server c) m Hn)) as Hneg.
  split; [exact Hneg|].
  destruct (accept_nohash s m) as [A1 [A2 [A3 [A4 [A5 [_ [_ A8]]]]]]].
  assert (Dfalse : dtls s = false) by (destruct (dtls s); [rewrite Dv in V by reflexivity; discriminate | reflexivity]).
  exists md. rewrite A5, Hneg. split; [exact N|]. split.
  { rewrite kinds_app. cbn [kinds map kind_of erase m_body m_typ]. rewrite Hb, Hn. apply legal_nst; congruence. }
  split; [congruence|]. split; [congruence|]. split; [apply noskipb_app; exact K|]. split; [congruence|].
  rewrite A8, A3. exact Dv.
Qed.

Lemma stat_step c s i : stat c s -> stat c (fst (step s i)).
Proof.
  intros [He | He Hd Hi | Hl].
  - unfold step. rewrite He. apply StDead. exact He.
  - destruct (step s i) as [s' o] eqn:Hs. cbn [fst].
    destruct (done_step c s i s' o Hs He Hd) as [[_ E] | [[_ E] | [m [Hi' [Hn [Hb [V [S [E _]]]]]]]]].
    + apply StDead. exact E.
    + subst. apply StDone; assumption.
    + subst s'. destruct (accept_nohash s m) as [A1 [A2 _]].
      apply StDone; [congruence | congruence | apply (done_inv_nst c s m Hi Hn Hb V S)].
  - destruct (step s i) as [s' o] eqn:Hs. cbn [fst].
    destruct (live_step c s i s' o Hl Hs) as [[_ E] | [[_ E] | [r [_ [E [G [_ [_ [[D _] | L]]]]]]]]].
    + apply StDead. exact E.
    + subst. apply StLive. exact Hl.
    + apply StDone; [exact E | exact D | apply good_done; assumption].
    + apply StLive. exact L.
Qed.

Lemma stat_run c : forall is s, stat c s -> stat c (fst (run s is)).
Proof.
  induction is as [|i r IH]; intros s H; cbn [run fst]; [exact H|].
  pose proof (stat_step c s i H) as H1. destruct (step s i) as [s1 o]. cbn [fst] in H1.
  specialize (IH s1 H1). destruct (run s1 r) as [s2 os]. exact IH.
Qed.

Lemma all_start_ok : forallb start_ok all_cfgs = true.
Proof. vm_compute. reflexivity. Qed.

Lemma init_live c : In c all_cfgs -> live c (init c).
Proof.
  intro H. pose proof all_start_ok as A. rewrite forallb_forall in A. specialize (A c H).
  unfold start_ok in A.
  destruct (andb_prop _ _ A) as [A1 KX]. destruct (andb_prop _ _ A1) as [A2 KG]. destruct (andb_prop _ _ A2) as [KE KD].
  split; [apply Bool.negb_true_iff; exact KE|]. split; [apply Z.eqb_neq; apply Bool.negb_true_iff; exact KD|].
  split; [exact KG|]. exists 16%nat. exact KX.
Qed.

Lemma reach c is : In c all_cfgs -> stat c (fst (run (init c) is)).
Proof. intro H. apply stat_run. apply StLive. apply init_live. exact H. Qed.

(* ================================================================== the theorems of C06 *)
Theorem only_legal : forall c is, In c all_cfgs ->
  let s := fst (run (init c) is) in
  err s = false -> hs s = DONE ->
  exists md, negotiated c (acc s) = Some md /\ legal md (kinds (acc s)).
Proof.
  intros c is Hc s He Hd. subst s. destruct (reach c is Hc) as [E | _ _ [md [N [L _]]] | [_ [D _]]].
  - congruence.
  - exists md. split; assumption.
  - congruence.
Qed.

(* the non-fatal, non-advancing outcomes without the stateless HelloVerifyRequest answer (which presupposes a log that can
   still become legal) *)
Definition quiet3 (s : hst) (i : input) (o : out) : Prop :=
  (o = OIgnore /\ i = ICcs /\ (v13 s = true \/ (dtls s = true /\ lastccs s = true))) \/
  (dtls s = true /\ droppable i = true /\ exists r, o = ODrop r) \/
  (o = OWarn c_SSL_ALERT_NO_RENEGOTIATION /\ hs s = DONE /\ v13 s = false /\
   exists m, i = IHs m /\ m_typ m = (if server s then CH else HREQ)).

Lemma quiet_cases c s i o : quiet c s i o -> quiet3 s i o \/ (o = OHvr /\ prefix_ok c (acc s ++ [item_of i])).
Proof.
  intros [Q | [Q | [Q | [Q1 [_ [Q2 _]]]]]].
  - left; left; exact Q.
  - left; right; left; exact Q.
  - left; right; right; exact Q.
  - right; split; assumption.
Qed.

Theorem deviation_fatal : forall c is i, In c all_cfgs ->
  let s := fst (run (init c) is) in
  err s = false ->
  ~ prefix_ok c (acc s ++ [item_of i]) ->
  exists s' o, step s i = (s', o) /\
    ((fatal_out o = true /\ err s' = true) \/ (quiet3 s i o /\ s' = s)).
Proof.
  intros c is i Hc s He Hn. subst s. pose proof (reach c is Hc) as R.
  remember (fst (run (init c) is)) as s eqn:Es. clear Es.
  destruct (step s i) as [s' o] eqn:Hs. exists s', o. split; [reflexivity|].
  destruct R as [E | _ D Hi | Hl].
  - congruence.
  - destruct (done_step c s i s' o Hs He D) as [F | [[Q Es] | [m [Hi' [Hm [Hb [V [S [E _]]]]]]]]].
    + left. exact F.
    + destruct (quiet_cases c s i o Q) as [Q3 | [_ P]]; [right; split; assumption | contradiction].
    + exfalso. apply Hn. subst i. cbn [item_of].
      destruct (done_inv_nst c s m Hi Hm Hb V S) as [Hneg [md [N [L _]]]].
      destruct (accept_nohash s m) as [_ [_ [_ [_ [A5 _]]]]]. rewrite A5 in N, L.
      exists [], md. rewrite app_nil_r. split; assumption.
  - destruct (live_step c s i s' o Hl Hs) as [F | [[Q Es] | [r [_ [_ [G [A _]]]]]]].
    + left. exact F.
    + destruct (quiet_cases c s i o Q) as [Q3 | [_ P]]; [right; split; assumption | contradiction].
    + exfalso. apply Hn. rewrite <- A. apply prefix_okb_sound. apply good_parts in G. tauto.
Qed.

Lemma has_kind_in k l : has_kind k l = true -> In k (kinds l).
Proof.
  unfold has_kind. intro H. apply existsb_exists in H. destruct H as [x [Hx E]]. apply mk_eqb_eq in E. subst. exact Hx.
Qed.

(* no completion without the messages the property names: [required] lists them per negotiated mode *)
Theorem no_skip : forall c is, In c all_cfgs ->
  let s := fst (run (init c) is) in
  err s = false -> hs s = DONE ->
  exists md, negotiated c (acc s) = Some md /\ forall k, In k (required md) -> In k (kinds (acc s)).
Proof.
  intros c is Hc s He Hd. subst s. destruct (reach c is Hc) as [E | _ _ [md [N [_ [_ [_ K]]]]] | [_ [D _]]].
  - congruence.
  - exists md. split; [exact N|]. intros k Hk. apply has_kind_in.
    unfold noskipb in K. rewrite forallb_forall in K. apply K. exact Hk.
  - congruence.
Qed.

(* TLS <= 1.2: a Finished message is never accepted while the read side is unprotected, i.e. before ChangeCipherSpec *)
Theorem no_finished_before_ccs : forall c is m, In c all_cfgs ->
  let s := fst (run (init c) is) in
  err s = false -> v13 s = false -> rsec s = false -> m_typ m = FIN ->
  exists s' o, step s (IHs m) = (s', o) /\
    ((fatal_out o = true /\ err s' = true) \/
     (* DTLS: a Finished whose message_seq is not the expected one is dropped like any such message *)
     (dtls s = true /\ m_cls m <> MExp /\ (exists r, o = ODrop r) /\ s' = s)).
Proof.
  intros c is m Hc s He V R Hm. subst s. pose proof (reach c is Hc) as Q.
  remember (fst (run (init c) is)) as s eqn:Es. clear Es.
  destruct (step s (IHs m)) as [s' o] eqn:Hs. exists s', o. split; [reflexivity|].
  assert (Hq : forall q, quiet c s (IHs m) o -> q = s' -> s' = s ->
               (fatal_out o = true /\ err s' = true) \/ (dtls s = true /\ m_cls m <> MExp /\ (exists r, o = ODrop r) /\ s' = s)).
  { intros q [[_ [Q1 _]] | [[D [Dr Ex]] | [[_ [_ [_ [m0 [Hi0 Hm0]]]]] | [_ [_ [_ [m0 [Hi0 Hm0]]]]]]]] _ Es.
    - discriminate.
    - right. split; [exact D|]. split; [|split; [exact Ex | exact Es]].
      cbn [droppable] in Dr. intro E. rewrite E in Dr. discriminate.
    - exfalso. inversion Hi0; subst m0. rewrite Hm in Hm0. destruct (server s); discriminate.
    - exfalso. inversion Hi0; subst m0. rewrite Hm in Hm0. discriminate. }
  destruct Q as [E | _ D Hi | Hl].
  - congruence.
  - destruct (done_step c s (IHs m) s' o Hs He D) as [F | [[Q Es] | [m' [_ [_ [_ [V' _]]]]]]].
    + left. exact F.
    + apply (Hq s' Q eq_refl Es).
    + congruence.
  - destruct (live_step c s (IHs m) s' o Hl Hs) as [F | [[Q Es] | [r [_ [_ [_ [_ [Hf _]]]]]]]].
    + left. exact F.
    + apply (Hq s' Q eq_refl Es).
    + exfalso. assert (rsec s = true).
      { apply Hf; [|exact V]. cbn [is_fin_typ]. rewrite Hm. reflexivity. }
      congruence.
Qed.

(* ---- Finished binds to the receiver's own transcript *)
Section Runs.
Context {X : Type} (f : hst -> X -> input).
Fixpoint grun (s : hst) (xs : list X) : hst :=
  match xs with [] => s | x :: r => grun (fst (step s (f s x))) r end.

Lemma grun_dead : forall xs s, err s = true -> err (grun s xs) = true.
Proof.
  induction xs as [|x r IH]; intros s H; cbn [grun]; [exact H|]. apply IH. unfold step. rewrite H. exact H.
Qed.

Lemma grun_done : forall xs s, err s = false -> hs s = DONE -> err (grun s xs) = false ->
  snap (grun s xs) = snap s /\ hs (grun s xs) = DONE.
Proof.
  induction xs as [|x r IH]; intros s He Hd Hf; cbn [grun] in *; [split; auto|].
  destruct (step s (f s x)) as [s' o] eqn:Hs. cbn [fst] in *.
  destruct (done_step (Server false false false) s (f s x) s' o Hs He Hd) as [[_ E] | [[_ E] | [m [_ [_ [_ [_ [_ [E _]]]]]]]]].
  - rewrite (grun_dead r s' E) in Hf. discriminate.
  - subst s'. apply IH; assumption.
  - subst s'. destruct (accept_nohash s m) as [A1 [A2 [_ [_ [_ [A6 _]]]]]].
    destruct (IH (accept s m false)) as [I1 I2]; [congruence | congruence | exact Hf |].
    split; [congruence | exact I2].
Qed.

Lemma binds_gen c : forall xs s0, live c s0 ->
  err (grun s0 xs) = false -> hs (grun s0 xs) = DONE ->
  exists xs1 x xs2, xs = xs1 ++ x :: xs2 /\ live c (grun s0 xs1) /\ is_fin_true (f (grun s0 xs1) x) = true /\
                    snap (grun s0 xs) = tr (grun s0 xs1).
Proof.
  induction xs as [|x r IH]; intros s0 Hl He Hd; cbn [grun] in *.
  - destruct Hl as [_ [D _]]. contradiction.
  - destruct (step s0 (f s0 x)) as [s1 o] eqn:Hs. cbn [fst] in *.
    destruct (live_step c s0 (f s0 x) s1 o Hl Hs) as [[_ E] | [[_ E] | [q [_ [E [G [_ [_ [[D [F T]] | L]]]]]]]]].
    + rewrite (grun_dead r s1 E) in He. discriminate.
    + subst s1. destruct (IH s0 Hl He Hd) as [xs1 [y [xs2 [Hx [H1 [H2 H3]]]]]].
      exists (x :: xs1), y, xs2. cbn [grun app]. rewrite Hs. cbn [fst]. subst r.
      split; [reflexivity | split; [exact H1 | split; [exact H2 | exact H3]]].
    + exists [], x, r. cbn [grun app]. split; [reflexivity|]. split; [exact Hl|]. split; [exact F|].
      destruct (grun_done r s1 E D He) as [S1 _]. congruence.
    + destruct (IH s1 L He Hd) as [xs1 [y [xs2 [Hx [H1 [H2 H3]]]]]].
      exists (x :: xs1), y, xs2. cbn [grun app]. rewrite Hs. cbn [fst]. subst r.
      split; [reflexivity | split; [exact H1 | split; [exact H2 | exact H3]]].
Qed.
End Runs.

Lemma grun_id : forall is s, grun (fun _ i => i) s is = fst (run s is).
Proof.
  induction is as [|i r IH]; intro s; cbn [grun run]; [reflexivity|].
  rewrite IH. destruct (step s i) as [s1 o]. cbn [fst]. destruct (run s1 r). reflexivity.
Qed.

Lemma is_fin_true_inv i : is_fin_true i = true -> exists cl, i = IHs (mkmsg FIN (BFin true) cl).
Proof.
  destruct i as [|[t b cl]]; cbn; try discriminate. destruct b as [| | |[]| | | |]; try discriminate.
  intro H. apply Z.eqb_eq in H. subst. exists cl. reflexivity.
Qed.

(* completion requires a Finished whose verify_data matched, and the value it was compared with was computed from
   the transcript as it stood BEFORE that Finished was hashed *)
Theorem finished_binds : forall c is, In c all_cfgs ->
  let s := fst (run (init c) is) in
  err s = false -> hs s = DONE ->
  exists is1 cl is2, is = is1 ++ IHs (mkmsg FIN (BFin true) cl) :: is2 /\
    let s1 := fst (run (init c) is1) in
    err s1 = false /\ hs s1 <> DONE /\ snap s = tr s1.
Proof.
  intros c is Hc s He Hd. unfold s in *. rewrite <- grun_id in *.
  destruct (binds_gen (fun _ i => i) c is (init c) (init_live c Hc) He Hd) as [xs1 [x [xs2 [Hx [[E1 [D1 _]] [F T]]]]]].
  apply is_fin_true_inv in F. destruct F as [cl F]. subst x. exists xs1, cl, xs2. rewrite <- grun_id.
  split; [exact Hx | split; [exact E1 | split; [exact D1 | exact T]]].
Qed.

(* the same with the comparison made explicit: the answer of a well-formed Finished is BY DEFINITION the oracle
   [verify] applied to the receiver's transcript at that moment and to the verify_data the message carries *)
Section Verify.
Variable verify : list tent -> Z -> bool.
Definition cinput := (input * Z)%type.         (* abstract input + the verify_data a Finished carries *)
Definition conc (s : hst) (ci : cinput) : input :=
  match ci with
  | (IHs (mkmsg t (BFin _) cl), vd) => IHs (mkmsg t (BFin (verify (tr s) vd)) cl)
  | (i, _) => i
  end.

Theorem finished_binds_oracle : forall c cis, In c all_cfgs ->
  let s := grun conc (init c) cis in
  err s = false -> hs s = DONE ->
  exists pre b cl vd post, cis = pre ++ (IHs (mkmsg FIN (BFin b) cl), vd) :: post /\
    let s1 := grun conc (init c) pre in
    hs s1 <> DONE /\ verify (tr s1) vd = true /\ snap s = tr s1.
Proof.
  intros c cis Hc s He Hd.
  destruct (binds_gen conc c cis (init c) (init_live c Hc) He Hd) as [xs1 [[i vd] [xs2 [Hx [[E1 [D1 _]] [F T]]]]]].
  apply is_fin_true_inv in F. destruct F as [cl0 F].
  destruct i as [|[t b cl]]; [discriminate|]. destruct b as [| | |b| | | |]; cbn [conc] in F; try discriminate.
  inversion F as [[Ht Hv Hcl]]. subst t. exists xs1, b, cl, vd, xs2. split; [exact Hx|]. split; [exact D1|]. split; [first [exact Hv | reflexivity] | exact T].
Qed.
End Verify.

(* ---- DTLS: runs with concrete message_seq numbers are runs of the machine (the class of each message computed from lastMsn) *)
Lemma drun_is_run : forall dis d, exists is, d_core (drun d dis) = fst (run (d_core d) is) /\ length is = length dis.
Proof.
  induction dis as [|i r IH]; intro d; cbn [drun].
  - exists []. split; reflexivity.
  - unfold dstep at 1. destruct (step (d_core d) (dabs d i)) as [s' o] eqn:Hs. cbn [fst].
    destruct (IH (mkdst s' (match i, o with DHs _ _ msn, OAccept _ => msn | DHs _ _ msn, OHvr => msn | _, _ => d_last d end))) as [is [H L]].
    exists (dabs d i :: is). cbn [run length]. rewrite Hs. cbn [d_core] in H. rewrite H.
    destruct (run s' is). cbn [fst]. split; [reflexivity | rewrite L; reflexivity].
Qed.

(* DTLS: a message whose message_seq was seen before (other than 0) or lies ahead never reaches the type test - it is dropped,
   the session is untouched (only a renegotiation request on a completed session is answered first) *)
Lemma dtls_old_or_future_dropped s m :
  err s = false -> v13 s = false -> dtls s = true -> (m_cls m = MStale \/ m_cls m = MFut) ->
  step s (IHs m) = (s, ODrop (match m_cls m with MStale => true | _ => false end)) \/
  (hs s = DONE /\ step s (IHs m) = (s, OWarn c_SSL_ALERT_NO_RENEGOTIATION)).
Proof.
  intros He V D Hc. destruct m as [t b cl]. cbn [m_cls] in *. unfold step. rewrite He, V. unfold step12, gate12d.
  cbn [m_typ m_cls]. rewrite D. cbn [negb].
  destruct (if server s then eqb t CH && eqb (hs s) DONE else eqb t HREQ && eqb (hs s) DONE) eqn:NR.
  - right. split; [|reflexivity].
    destruct (server s); apply andb_prop in NR; destruct NR as [_ NR]; unfold eqb in NR; apply Z.eqb_eq in NR; exact NR.
  - left. destruct Hc as [Hc | Hc]; subst cl; reflexivity.
Qed.

(* ================================================================== the hypotheses are satisfiable *)
Definition hm (t : Z) (b : body) : input := IHs (mkmsg t b MExp).
Definition hmc (t : Z) (b : body) (cl : mcls) : input := IHs (mkmsg t b cl).
Example legal_run_tls12_client_ecdhe_ticket :
  let s := fst (run (init (Client false T_SENT_EMPTY))
                 [hm SH (BHello12 false false true true false); hm CERT BPlain; hm SKE BPlain; hm CREQ BPlain; hm SHD BPlain;
                  hm NST BPlain; ICcs; hm FIN (BFin true)]) in
  hs s = DONE /\ err s = false /\ length (acc s) = 8%nat.
Proof. vm_compute. repeat split; reflexivity. Qed.
Example legal_run_tls12_server_cauth :
  let s := fst (run (init (Server false true false))
                 [hm CH (BHello12 false false true false false); hm CERT BPlain; hm CKE BPlain; hm CVFY BPlain; ICcs; hm FIN (BFin true)]) in
  hs s = DONE /\ err s = false.
Proof. vm_compute. repeat split; reflexivity. Qed.
Example legal_run_tls13_client_hrr :
  let s := fst (run (init (Client true T_INIT))
                 [hm SH (BHello13 true false false); hm SH (BHello13 false false false); hm EE BPlain; hm CERT BPlain; hm CVFY BPlain;
                  hm FIN (BFin true); hm NST BPlain; hm NST BPlain]) in
  hs s = DONE /\ err s = false /\ length (acc s) = 8%nat.
Proof. vm_compute. repeat split; reflexivity. Qed.
Example legal_run_tls13_server_psk_early :
  let s := fst (run (init (Server true true true)) [hm CH (BHello13 false true true); hm EOED BPlain; hm FIN (BFin true)]) in
  hs s = DONE /\ err s = false.
Proof. vm_compute. repeat split; reflexivity. Qed.
Example fallback_tls13_client_to_tls12_resumed :
  let s := fst (run (init (Client true T_INIT)) [hm SH (BHello12 true false true false false); ICcs; hm FIN (BFin true)]) in
  hs s = DONE /\ err s = false /\ v13 s = false.
Proof. vm_compute. repeat split; reflexivity. Qed.
(* the deviations found on the implementation are refused by the model of the repaired code *)
Example deviations_refused :
  (* TLS 1.3 NewSessionTicket before the server Finished *)
  err (fst (run (init (Client true T_INIT)) [hm SH (BHello13 false false false); hm EE BPlain; hm CERT BPlain; hm CVFY BPlain; hm NST BPlain])) = true /\
  (* ClientHello to a client whose handshake is complete *)
  err (fst (run (init (Client false T_INIT)) [hm SH (BHello12 true false true false false); ICcs; hm FIN (BFin true); hm CH (BHello12 false false true false false)])) = true /\
  (* second ChangeCipherSpec *)
  err (fst (run (init (Server false false false)) [hm CH (BHello12 false false true false false); hm CKE BPlain; ICcs; ICcs])) = true /\
  (* ChangeCipherSpec although the promised NewSessionTicket has not arrived *)
  err (fst (run (init (Client false T_SENT_EMPTY)) [hm SH (BHello12 false false false true false); hm CERT BPlain; hm SHD BPlain; ICcs])) = true /\
  (* second HelloRetryRequest; TLS 1.2 ServerHello after a HelloRetryRequest *)
  err (fst (run (init (Client true T_INIT)) [hm SH (BHello13 true false false); hm SH (BHello13 true false false)])) = true /\
  err (fst (run (init (Client true T_INIT)) [hm SH (BHello13 true false false); hm SH (BHello12 false false true false false)])) = true /\
  (* second ClientHello that still needs a HelloRetryRequest *)
  err (fst (run (init (Server true false false)) [hm CH (BHello13 true false false); hm CH (BHello13 true false false)])) = true /\
  (* second CertificateRequest *)
  err (fst (run (init (Client false T_INIT)) [hm SH (BHello12 false false true false false); hm CERT BPlain; hm SKE BPlain; hm CREQ BPlain; hm CREQ BPlain])) = true.
Proof. vm_compute. repeat split; reflexivity. Qed.

(* DTLS: cookie exchange, a retransmitted (stale) ServerHello and an early ChangeCipherSpec are dropped, the ChangeCipherSpec of a
   retransmitted flight is taken, completion *)
Example legal_run_dtls_client :
  let s := fst (run (init (DClient T_INIT))
                 [hm HVR BPlain; hm SH (BHello12 false false true false false); hmc SH (BHello12 false false true false false) MStale; ICcs;
                  hm CERT BPlain; hmc SHD BPlain MFut; hm SKE BPlain; hm SHD BPlain; ICcs; ICcs; hm FIN (BFin true)]) in
  hs s = DONE /\ err s = false /\ length (acc s) = 7%nat.
Proof. vm_compute. repeat split; reflexivity. Qed.
Example legal_run_dtls_server_cookie :
  let d := drun (dinit (DServer true))
             [DHs CH BHelloNoCookie 0; DHs CH (BHello12 false false true false false) 1; DHs CERT BPlain 2; DHs CKE BPlain 3;
              DHs CKE BPlain 3; DHs CVFY BPlain 4; DCcs; DHs FIN (BFin true) 5] in
  hs (d_core d) = DONE /\ err (d_core d) = false /\ d_last d = 5 /\ length (acc (d_core d)) = 6%nat.
Proof. vm_compute. repeat split; reflexivity. Qed.
Example dtls_deviations_refused :
  (* expected message_seq, wrong type: ServerKeyExchange where Certificate is due *)
  err (fst (run (init (DClient T_INIT)) [hm HVR BPlain; hm SH (BHello12 false false true false false); hm SKE BPlain])) = true /\
  (* second HelloVerifyRequest with the expected message_seq *)
  err (fst (run (init (DClient T_INIT)) [hm HVR BPlain; hm HVR BPlain])) = true /\
  (* Finished with the expected message_seq before ChangeCipherSpec *)
  err (fst (run (init (DServer false)) [hm CH (BHello12 false false true false false); hm CKE BPlain; hm FIN (BFin true)])) = true /\
  (* cookie-less ClientHello once the handshake has begun *)
  err (fst (run (init (DServer false)) [hm CH (BHello12 false false true false false); hm CH BHelloNoCookie])) = true.
Proof. vm_compute. repeat split; reflexivity. Qed.
