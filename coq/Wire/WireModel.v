(* C08 - executable, code-shaped models of the framing / reassembly / buffer arithmetic of /repo.

   Discipline (DESIGN.md 2.3): a C buffer is an immutable [list N]; a C pointer into it is an offset
   (Z); the end pointer the code was told about is an explicit [limit]; EVERY read goes through
   [rd buf limit i] / [slice buf limit p n] whose out-of-range case is the distinguished [Fault].
   A heap buffer that the code fills itself (ssl->fragMessage) is a [list (option N)]: [None] is a
   byte that malloc returned and nobody wrote; writes go through [memcpy_to] (out of range = Fault)
   and reads through [rdf]/[slicef] (out of range OR never written = Fault).  Loops run on explicit
   fuel; running out of it is the distinct result [OutOfFuel].
   Everything the modelled code calls but that is not modelled (state gate, message parsers, replay
   window, cipher, the record decoder as seen by the API loop) is a function argument (oracle).

   No proofs in this file.  Sources modelled (line numbers of /repo at a4c56c8 + pending C08 fixes):
     matrixssl/sslDecode.c   validateRecordHdrType/Version/Len 63-197, handleRecordHdr 243-312,
                             matrixSslDecodeTls12AndBelow 486-520 + 686-880 (length test, DTLS epoch
                             gate incl. the "skip the Finished that follows" branch 800-835),
                             CBC pad/MAC layout 889-1250,
                             parseSSLHandshake 1975-2010 (TLS continuation), 2054-2062, 2351-2415
                             (header, hsLenMax), 2416-2575 (DTLS fragments), 2577-2610 (TLS first
                             fragment), 3060-3090 (loop), caller 1503-1515 (free when complete)
     matrixssl/dtls.c        dtlsHsHashFragMsg 577-640, dtlsInitFrag 707-726, dtlsSeenFrag 731-752
     matrixssl/tls13Decode.c tls13ParseRecordHeader / tls13ValidateRecordHeader / CCS loop 47-112,
                             205-280, handshake loop 418-462, tls13FragMessageReadInit/Finish/
                             Continue 713-812, tls13ParseHandshakeMessage 820-900, 1133-1138
     matrixssl/matrixsslApi.c matrixSslGetReadbuf 846-857, revertToDefaultBufsize 1300-1356,
                             matrixSslReceivedData 1362-1741, matrixSslProcessedData 1757-1811
   The functions take a [fixes] record: every field [true] = the code with the pending C08 patch
   applied ([all_fixed], what the theorems are about and what the harness is compared with);
   a field [false] = the code as found, kept so that each defect stays stated ([..._refuted]). *)
From MV Require Import Base.Bytes Gen.Consts Gen.ConstsDtls Gen.ConstsWire Dtls.DtlsModel.
Local Open Scope Z_scope.

(* ------------------------------------------------------------------------------------------ results *)
Inductive res (A : Type) : Type :=
| Ok (a : A)
| Fault                 (* a read or write outside the object it belongs to, or a read of a byte never written *)
| OutOfFuel.
Arguments Ok {A} a. Arguments Fault {A}. Arguments OutOfFuel {A}.

Definition bind {A B : Type} (r : res A) (f : A -> res B) : res B :=
  match r with Ok a => f a | Fault => Fault | OutOfFuel => OutOfFuel end.
Notation "'do' x <- r ; k" := (bind r (fun x => k)) (at level 200, x pattern, r at level 100, k at level 200).

Record fixes := { fx_epoch_skip : bool;      (* C08-dtls-epoch-skip-bounds *)
                  fx_fraglen : bool;         (* C08-dtls-fragment-length-inside-record *)
                  fx_reasm : bool;           (* C08-dtls-reassembly-overlap-zero-length *)
                  fx_ccs : bool;             (* C08-tls13-ccs-parsed-bytes *)
                  fx_loop13 : bool;          (* C08-tls13-handshake-record-loop *)
                  fx_hslen13 : bool }.       (* C08-tls13-handshake-length-limit *)
Definition all_fixed : fixes := Build_fixes true true true true true true.
Definition as_found : fixes := Build_fixes false false false false false false.

Definition lenZ {A} (b : list A) : Z := Z.of_nat (length b).

(* ------------------------------------------------------------------------------------------ reads *)
Definition rd (buf : bytes) (limit i : Z) : res Z :=
  if (0 <=? i) && (i <? limit) then
    match nth_error buf (Z.to_nat i) with Some b => Ok (Z.of_N b) | None => Fault end
  else Fault.

Definition sub_list {A} (l : list A) (p n : Z) : list A := firstn (Z.to_nat n) (skipn (Z.to_nat p) l).

(* n bytes starting at p: a Memcpy source or the message handed to a parser / hash *)
Definition slice (buf : bytes) (limit p n : Z) : res bytes :=
  if (0 <=? p) && (0 <=? n) && (p + n <=? limit) && (limit <=? lenZ buf) then Ok (sub_list buf p n) else Fault.

Definition be16 (buf : bytes) (limit i : Z) : res Z :=
  do a <- rd buf limit i; do b <- rd buf limit (i + 1); Ok (a * 256 + b).
Definition be24 (buf : bytes) (limit i : Z) : res Z :=
  do a <- rd buf limit i; do b <- rd buf limit (i + 1); do c <- rd buf limit (i + 2); Ok (a * 65536 + b * 256 + c).

(* ------------------------------------------------------------------------------------------ heap buffers *)
Definition fbuf := list (option N).
Definition falloc (n : Z) : fbuf := repeat None (Z.to_nat n).       (* psMalloc(n): nothing written yet *)

(* Memcpy(dst + doff, src, length src): every destination byte must be inside the allocation *)
Definition memcpy_to (dst : fbuf) (doff : Z) (src : bytes) : res fbuf :=
  if (0 <=? doff) && (doff + lenZ src <=? lenZ dst) then
    Ok (firstn (Z.to_nat doff) dst ++ map Some src ++ skipn (Z.to_nat (doff + lenZ src)) dst)
  else Fault.

Fixpoint all_some (l : list (option N)) : option bytes :=
  match l with
  | [] => Some []
  | Some x :: r => match all_some r with Some r' => Some (x :: r') | None => None end
  | None :: _ => None
  end.

(* n bytes of a heap buffer starting at p: inside the allocation and all written *)
Definition slicef (b : fbuf) (p n : Z) : res bytes :=
  if (0 <=? p) && (0 <=? n) && (p + n <=? lenZ b) then
    match all_some (sub_list b p n) with Some l => Ok l | None => Fault end
  else Fault.

(* ================================================================== (a) record header, TLS <= 1.2 / DTLS *)
Definition band (a b : Z) : bool := negb (Z.land a b =? 0).

Fixpoint assoc (k : Z) (l : list (Z * Z)) : Z :=
  match l with [] => 0 | (a, b) :: r => if a =? k then b else assoc k r end.
(* psVerFromEncodingMajMin; 0 = v_undefined *)
Definition ver_of_enc (maj min : Z) : Z := assoc (maj * 256 + min) c_ver_table.

(* what the header code reads from the session *)
Record hctx := { hx_head : Z;          (* ssl->recordHeadLen *)
                 hx_actv : Z;          (* ssl->activeVersion (bit mask, incl. v_tls_negotiated) *)
                 hx_supp : Z;          (* ssl->supportedVersions *)
                 hx_hs : Z }.          (* ssl->hsState *)

(* validateRecordHdrType 63-83 *)
Definition rec_type_ok (t : Z) : bool :=
  (t =? c_SSL_RECORD_TYPE_CHANGE_CIPHER_SPEC) || (t =? c_SSL_RECORD_TYPE_ALERT) ||
  (t =? c_SSL_RECORD_TYPE_HANDSHAKE) || (t =? c_SSL_RECORD_TYPE_APPLICATION_DATA).

(* validateRecordHdrVersion 85-176 (USE_LENIENT_TLS_RECORD_VERSION_MATCHING off, rehandshakes off):
   returns (accepted, ssl->activeVersion afterwards) *)
Definition validate_version (x : hctx) (maj min : Z) : bool * Z :=
  let rv := ver_of_enc maj min in
  if rv =? 0 then (false, hx_actv x)
  else if negb (hx_hs x =? c_SSL_HS_CLIENT_HELLO) && band (hx_actv x) c_v_tls_negotiated then
    (* NGTD_VER(ssl, v) = ACTV_VER(ssl, v) && negotiated *)
    (negb (negb (band (hx_actv x) c_v_tls_1_3_any) && negb (band (hx_actv x) rv)), hx_actv x)
  else if band rv c_v_dtls_any then
    if negb (band (hx_supp x) c_v_dtls_any) then (false, hx_actv x)
    else (true, if band (hx_actv x) c_v_dtls_any then hx_actv x else rv)
  else (true, hx_actv x).

Record rechdr := { rh_type : Z; rh_maj : Z; rh_min : Z; rh_epoch : Z; rh_rsn : Z; rh_len : Z;
                   rh_used : Z;     (* bytes of header parsed: c - orig_c *)
                   rh_actv : Z }.   (* activeVersion after SET_ACTV_VER *)
Inductive hdr_result :=
| HOk (h : rechdr)
| HPartial (req : Z)                (* SSL_PARTIAL, *requiredLen = req *)
| HAlert (a : Z) (actv : Z).        (* ssl->err = a; MATRIXSSL_ERROR *)

(* handleRecordHdr 243-312 (ALLOW_SSLV2_CLIENT_HELLO_PARSE off) *)
Definition handle_record_hdr (x : hctx) (b : bytes) (c lim : Z) : res hdr_result :=
  if lim - c <? hx_head x then Ok (HPartial (hx_head x))
  else
    do t <- rd b lim c;
    if negb (rec_type_ok t) then Ok (HAlert c_SSL_ALERT_UNEXPECTED_MESSAGE (hx_actv x))
    else
      do maj <- rd b lim (c + 1);
      do mi <- rd b lim (c + 2);
      let '(ok, actv) := validate_version x maj mi in
      if negb ok then Ok (HAlert c_SSL_ALERT_ILLEGAL_PARAMETER actv)
      else
        do r <- (if band actv c_v_dtls_any then
                   do ep <- be16 b lim (c + 3);
                   do r0 <- be24 b lim (c + 5);
                   do r1 <- be24 b lim (c + 8);
                   do l <- be16 b lim (c + 11);
                   Ok (ep, r0 * 16777216 + r1, l, 13)
                 else
                   do l <- be16 b lim (c + 3);
                   Ok (0, 0, l, 5));
        let '(ep, rsn, l, used) := r in
        (* validateRecordHdrLen 178-197 *)
        if (l >? c_SSL_MAX_RECORD_LEN) || (l =? 0) then Ok (HAlert c_SSL_ALERT_ILLEGAL_PARAMETER actv)
        else Ok (HOk {| rh_type := t; rh_maj := maj; rh_min := mi; rh_epoch := ep; rh_rsn := rsn; rh_len := l;
                        rh_used := used; rh_actv := actv |}).

(* session state read / written between the header and ssl->decrypt *)
Record dctx := { dx_h : hctx;
                 dx_rx : rx;           (* expectedEpoch + replay window (Dtls.DtlsModel) *)
                 dx_pccs : bool;       (* ssl->parsedCCS != 0 *)
                 dx_ade0 : bool;       (* ssl->appDataExch == 0 *)
                 dx_server : bool }.

Inductive stage :=
| SRet (rc : Z) (used : Z) (x : dctx)        (* return rc; *buf = origbuf + used *)
| SPartial (req : Z) (x : dctx)              (* SSL_PARTIAL with *requiredLen = req *)
| SAlert (a : Z) (x : dctx)                  (* ssl->err = a; goto encodeResponse *)
| SDecrypt (off len : Z) (h : rechdr) (x : dctx).   (* ssl->decrypt(ssl, origbuf + off, ..., len) reached *)

Definition with_actv (x : dctx) (a : Z) : dctx :=
  {| dx_h := {| hx_head := hx_head (dx_h x); hx_actv := a; hx_supp := hx_supp (dx_h x); hx_hs := hx_hs (dx_h x) |};
     dx_rx := dx_rx x; dx_pccs := dx_pccs x; dx_ade0 := dx_ade0 x; dx_server := dx_server x |}.
Definition with_rx (x : dctx) (r : rx) : dctx :=
  {| dx_h := dx_h x; dx_rx := r; dx_pccs := dx_pccs x; dx_ade0 := dx_ade0 x; dx_server := dx_server x |}.

(* CHECK_REPLAY_WINDOW 856-870 *)
Definition replay_check (x : dctx) (rsn : Z) : bool * dctx :=
  let '(ok, w) := chk_replay (rx_win (dx_rx x)) (Z.to_N rsn) in
  (ok, with_rx x {| rx_exp := rx_exp (dx_rx x); rx_win := w |}).

(* matrixSslDecodeTls12AndBelow from `decodeMore:` to the call of ssl->decrypt.
   c = offset of the parse pointer from origbuf, lim = *len *)
Fixpoint decode12 (fuel : nat) (fx : fixes) (x : dctx) (b : bytes) (c lim : Z) : res stage :=
  match fuel with
  | O => OutOfFuel
  | S f =>
    if lim - c =? 0 then Ok (SRet c_MATRIXSSL_SUCCESS c x)
    else if lim - c <? c_SSL3_HEADER_LEN then Ok (SPartial c_SSL3_HEADER_LEN x)
    else
      do hr <- handle_record_hdr (dx_h x) b c lim;
      match hr with
      | HPartial r => Ok (SPartial r x)
      | HAlert a actv => Ok (SAlert a (with_actv x actv))
      | HOk h =>
        let x := with_actv x (rh_actv h) in
        let c1 := c + rh_used h in
        let len := rh_len h in
        let dtls := band (rh_actv h) c_v_dtls_any in
        if lim - c1 <? len then
          (if dtls then Ok (SAlert c_SSL_ALERT_ILLEGAL_PARAMETER x)
           else Ok (SPartial (len + hx_head (dx_h x)) x))
        else if negb dtls then Ok (SDecrypt c1 len h x)
        else
          (* epoch and replay validation 688-870 *)
          let rc := compare_epoch (Z.to_N (rh_epoch h)) (rx_exp (dx_rx x)) in
          let is t := rh_type h =? t in
          let hs s := hx_hs (dx_h x) =? s in
          let c2 := c1 + len in
          let window (x : dctx) :=
            let '(ok, x') := replay_check x (rh_rsn h) in
            if ok then Ok (SDecrypt c1 len h x')
            else if lim - c2 >? 0 then decode12 f fx x' b c2 lim
            else Ok (SRet c_MATRIXSSL_SUCCESS c2 x') in
          let newep (x : dctx) := with_rx x (set_epoch (dx_rx x) (Z.to_N (rh_epoch h))) in
          if (rc =? 1) && is c_SSL_RECORD_TYPE_HANDSHAKE && hs c_SSL_HS_FINISHED then
            if negb (dx_pccs x) then Ok (SRet c_MATRIXSSL_SUCCESS c2 x)
            else window (newep x)
          else if negb (rc =? 0) then
            let x1 := if (rc =? 1) && is c_SSL_RECORD_TYPE_HANDSHAKE && hs c_SSL_HS_DONE then newep x else x in
            if (rc =? 1) && is c_SSL_RECORD_TYPE_APPLICATION_DATA && hs c_SSL_HS_DONE then window (newep x1)
            else if is c_SSL_RECORD_TYPE_CHANGE_CIPHER_SPEC && dx_ade0 x1 then
              (* the CCS may be followed by the Finished we have already accepted: skip it 800-835 *)
              if negb (lim =? c2) then
                do t <- rd b lim c2;
                if negb (t =? c_SSL_RECORD_TYPE_HANDSHAKE) then Ok (SRet c_MATRIXSSL_SUCCESS c2 x1)
                else if fx_epoch_skip fx && (lim - c2 <? c_DTLS_HEADER_LEN) then Ok (SRet c_DTLS_RETRANSMIT lim x1)
                else
                  do l <- be16 b lim (c2 + 11);
                  let c3 := c2 + 13 in
                  if fx_epoch_skip fx && (lim - c3 <? l) then Ok (SRet c_DTLS_RETRANSMIT lim x1)
                  else Ok (SRet c_DTLS_RETRANSMIT (c3 + l) x1)
              else Ok (SRet c_DTLS_RETRANSMIT c2 x1)
            else if lim - c2 >? 0 then decode12 f fx x1 b c2 lim
            else if (rc =? 1) && dx_server x1 && hs c_SSL_HS_CLIENT_HELLO then Ok (SAlert c_SSL_ALERT_UNEXPECTED_MESSAGE x1)
            else if rc =? -1 then Ok (SRet c_DTLS_RETRANSMIT c2 x1)
            else Ok (SRet c_MATRIXSSL_SUCCESS c2 x1)
          else window x
      end
  end.

(* ================================================================== (a') TLS 1.3 record header / CCS loop *)
Inductive stage13 :=
| TPartial (req : Z)                      (* SSL_PARTIAL *)
| TAlert (a : Z)                          (* ssl->err = a; goto encodeResponse *)
| TCcsDone (rc used : Z)                  (* only ChangeCipherSpec records: *in += used, *len -= used *)
| TRecord (off len typ parsed : Z).       (* a record to decrypt / parse: payload at off, rec.len = len *)

Definition rec13_type_ok := rec_type_ok.     (* tls13ValidateRecordType 103-113: same four types *)
Definition u16 (v : Z) : Z := v mod 65536.   (* psSize_t parsedBytes *)

(* matrixSslDecodeTls13 214-297; pos = pb.buf.start - *in, lim = *len *)
Fixpoint hdr13 (fuel : nat) (fx : fixes) (outlen_pos : bool) (b : bytes) (pos parsed lim : Z) : res stage13 :=
  match fuel with
  | O => OutOfFuel
  | S f =>
    if lim - pos <? c_TLS_REC_HDR_LEN then Ok (TPartial c_TLS_REC_HDR_LEN)
    else
      do t <- rd b lim pos;
      do _maj <- rd b lim (pos + 1);
      do _min <- rd b lim (pos + 2);
      do l <- be16 b lim (pos + 3);
      let p1 := pos + 5 in
      if (l >? c_TLS_1_3_MAX_CIPHERTEXT_LEN) || (l =? 0) then Ok (TAlert c_SSL_ALERT_ILLEGAL_PARAMETER)
      else if lim - p1 <? l then Ok (TPartial (parsed + l + c_TLS_REC_HDR_LEN))
      else if negb (rec13_type_ok t) then Ok (TAlert c_SSL_ALERT_UNEXPECTED_MESSAGE)
      else if t =? c_SSL_RECORD_TYPE_CHANGE_CIPHER_SPEC then
        do o <- rd b lim p1;
        let p2 := p1 + 1 in
        if negb (o =? 1) || negb (l =? 1) then Ok (TAlert c_SSL_ALERT_ILLEGAL_PARAMETER)
        else
          let parsed' := if fx_ccs fx then u16 p2 else u16 (parsed + p2) in
          if negb (p2 =? lim) then hdr13 f fx outlen_pos b p2 parsed' lim
          else Ok (TCcsDone (if outlen_pos then c_SSL_SEND_RESPONSE else c_MATRIXSSL_SUCCESS) parsed')
      else Ok (TRecord p1 l t parsed)
  end.

(* ================================================================== handshake layer: common pieces *)
(* oracles *)
Inductive gate_res :=
| GProceed                    (* hsStateDetermined: go on to the header *)
| GRet (rc : Z)               (* return rc (ignored / retransmit) *)
| GErr (a : Z).               (* ssl->err = a; return MATRIXSSL_ERROR *)

(* reassembly state of a session: ssl->fragMessage, fragIndex, fragTotal (+ DTLS fields) *)
Record frag := { fr_msg : option fbuf;       (* ssl->fragMessage (None = NULL) with its allocation *)
                 fr_index : Z;               (* ssl->fragIndex *)
                 fr_total : Z;               (* ssl->fragTotal *)
                 fr_stored : Z;              (* ssl->fragLenStored (DTLS) *)
                 fr_msn : Z;                 (* ssl->fragMsn (DTLS) *)
                 fr_hdrs : list (Z * Z) }.   (* used ssl->fragHeaders[] slots in order: (offset, fragLen) *)
Definition frag_none : frag := {| fr_msg := None; fr_index := 0; fr_total := 0; fr_stored := 0; fr_msn := 0; fr_hdrs := [] |}.

(* outcome of one call of the handshake record parser *)
Inductive hs_out :=
| HsRet (rc : Z)                  (* returned rc (MATRIXSSL_SUCCESS, SSL_PROCESS_DATA, DTLS_RETRANSMIT, parser code ...) *)
| HsErr (a : Z).                  (* ssl->err = a; MATRIXSSL_ERROR *)

(* log of what the modelled code handed on: every message given to the hash + parser *)
Definition handoffs := list (Z * bytes).    (* (handshake type, header ++ body as hashed) *)

Definition hs_len_max (hs : Z) : Z := if hs =? c_SSL_HS_CLIENT_HELLO then c_hsLenMax_client_hello else c_hsLenMax.

(* ================================================================== (b) TLS <= 1.2 handshake records *)
(* session side of parseSSLHandshake that is not modelled:
   gate  : hsState -> hsType -> gate_res          the state gate 2054-2300
   parse : hsState -> hsType -> body -> (rc, bytes consumed, hsState')   the message parsers:
           rc < 0 other than SSL_PROCESS_DATA aborts; consumed is clipped to the body by the contract *)
Record orc12 := { o_gate : Z -> Z -> gate_res;
                  o_parse : Z -> Z -> bytes -> Z * Z * Z }.

Record hs12 := { h_frag : frag; h_hs : Z; h_log : handoffs }.

Definition SSL_PROCESS_DATA := c_SSL_PROCESS_DATA.

(* the loop `parseHandshake: ... if (c < end) goto parseHandshake` over the record body b[0, lim) *)
Fixpoint hs_tls_loop (fuel : nat) (o : orc12) (st : hs12) (b : bytes) (c lim : Z) : res (hs12 * hs_out) :=
  match fuel with
  | O => OutOfFuel
  | S f =>
    if lim - c <? 1 then Ok (st, HsErr c_SSL_ALERT_DECODE_ERROR)
    else
      do t <- rd b lim c;
      let c := c + 1 in
      match o_gate o (h_hs st) t with
      | GRet rc => Ok (st, HsRet rc)
      | GErr a => Ok (st, HsErr a)
      | GProceed =>
        if lim - c <? 3 then Ok (st, HsErr c_SSL_ALERT_DECODE_ERROR)
        else
          do hl <- be24 b lim c;
          let c := c + 3 in
          if hl >? hs_len_max (h_hs st) then Ok (st, HsErr c_SSL_ALERT_DECODE_ERROR)
          else if lim - c <? hl then
            (* first fragment 2577-2605 *)
            match fr_msg (h_frag st) with
            | None =>
              let total := hl + c_SSL3_HANDSHAKE_HEADER_LEN in
              let idx := (lim - c) + c_SSL3_HANDSHAKE_HEADER_LEN in
              do src <- slice b lim (c - c_SSL3_HANDSHAKE_HEADER_LEN) idx;
              do m <- memcpy_to (falloc total) 0 src;
              Ok ({| h_frag := {| fr_msg := Some m; fr_index := idx; fr_total := total; fr_stored := fr_stored (h_frag st);
                                  fr_msn := fr_msn (h_frag st); fr_hdrs := fr_hdrs (h_frag st) |};
                     h_hs := h_hs st; h_log := h_log st |}, HsRet c_MATRIXSSL_SUCCESS)
            | Some _ => Ok (st, HsErr c_SSL_ALERT_DECODE_ERROR)
            end
          else
            (* sslUpdateHSHash(c - hshakeHeadLen, hsLen + hshakeHeadLen), then the parser on [c, c + hsLen) *)
            do msg <- slice b lim (c - c_SSL3_HANDSHAKE_HEADER_LEN) (hl + c_SSL3_HANDSHAKE_HEADER_LEN);
            let '(rc, used, hs') := o_parse o (h_hs st) t (skipn 4 msg) in
            let st' := {| h_frag := h_frag st; h_hs := hs'; h_log := h_log st ++ [(t, msg)] |} in
            if (rc <? 0) then Ok (st', HsRet rc)
            else
              let c' := c + Z.max 0 (Z.min used hl) in
              if c' <? lim then hs_tls_loop f o st' b c' lim else Ok (st', HsRet rc)
      end
  end.

(* parseSSLHandshake for a non-DTLS session: record body b[0, lim) *)
Definition parse_hs_tls (fuel : nat) (o : orc12) (st : hs12) (b : bytes) (lim : Z) : res (hs12 * hs_out) :=
  match fr_msg (h_frag st) with
  | Some m =>
    (* continuation 1983-2010 *)
    let fr := h_frag st in
    let n := Z.min lim (fr_total fr - fr_index fr) in
    do src <- slice b lim 0 n;
    do m' <- memcpy_to m (fr_index fr) src;
    let idx := fr_index fr + n in
    let fr' := {| fr_msg := Some m'; fr_index := idx; fr_total := fr_total fr; fr_stored := fr_stored fr;
                  fr_msn := fr_msn fr; fr_hdrs := fr_hdrs fr |} in
    let st1 := {| h_frag := fr'; h_hs := h_hs st; h_log := h_log st |} in
    if idx =? fr_total fr then
      (* SKIP_HSHEADER_PARSE: hash + parse the assembled message out of ssl->fragMessage *)
      do msg <- slicef m' 0 (fr_total fr);
      do t <- (match msg with x :: _ => Ok (Z.of_N x) | [] => Fault end);
      let '(rc, used, hs') := o_parse o (h_hs st) t (skipn 4 msg) in
      let st2 := {| h_frag := fr'; h_hs := hs'; h_log := h_log st ++ [(t, msg)] |} in
      if rc <? 0 then Ok (st2, HsRet rc)
      else if n <? lim then hs_tls_loop fuel o st2 b n lim     (* c = saved_c; goto parseHandshake *)
      else Ok (st2, HsRet rc)
    else Ok (st1, HsRet c_MATRIXSSL_SUCCESS)
  | None => hs_tls_loop fuel o st b 0 lim
  end.

(* caller, sslDecode.c 1503-1515: the reassembly buffer is released once the message was parsed *)
Definition after_hs_record (fr : frag) : frag :=
  match fr_msg fr with
  | Some _ => if fr_index fr =? fr_total fr then
                {| fr_msg := None; fr_index := 0; fr_total := 0; fr_stored := fr_stored fr; fr_msn := fr_msn fr; fr_hdrs := fr_hdrs fr |}
              else fr
  | None => fr
  end.

Definition hs_record_tls (fuel : nat) (o : orc12) (st : hs12) (b : bytes) (lim : Z) : res (hs12 * hs_out) :=
  do r <- parse_hs_tls fuel o st b lim;
  let '(st', out) := r in
  Ok ({| h_frag := after_hs_record (h_frag st'); h_hs := h_hs st'; h_log := h_log st' |}, out).

(* ================================================================== (b') TLS 1.3 handshake records *)
(* oracles: check : hsState -> type -> option alert (tls13CheckHsState);
            parse : hsState -> type -> message (header ++ body) -> (rc, hsState', read keys active afterwards) *)
Record orc13 := { o_check : Z -> Z -> option Z;
                  o_parse13 : Z -> Z -> bytes -> Z * Z * bool }.

Record hs13 := { t_frag : frag; t_hs : Z; t_decrypting : bool; t_log : handoffs }.

Inductive msg13 :=
| MPartial (p' : Z)            (* SSL_PARTIAL: fragment stored, *bufStart = p' *)
| MDone (rc : Z) (p' : Z)      (* rc >= 0 or an error code, *bufStart = p' *)
| MAlert (a : Z) (p' : Z).     (* ssl->err = a, rc < 0 *)

Definition frag_cleared (fr : frag) : frag :=
  {| fr_msg := None; fr_index := 0; fr_total := 0; fr_stored := fr_stored fr; fr_msn := fr_msn fr; fr_hdrs := fr_hdrs fr |}.
(* tls13FragMessageReadFinish *)
Definition finish13 (st : hs13) : hs13 :=
  match fr_msg (t_frag st) with
  | Some _ => {| t_frag := frag_cleared (t_frag st); t_hs := t_hs st; t_decrypting := t_decrypting st; t_log := t_log st |}
  | None => st
  end.

(* header + body of a complete message, from either the record or the reassembly buffer *)
Definition dispatch13 (fx : fixes) (o : orc13) (st : hs13) (msg : bytes) (p' : Z) : hs13 * msg13 :=
  match msg with
  | [] => (finish13 st, MDone 0 p')
  | x :: _ =>
    let t := Z.of_N x in
    match o_check o (t_hs st) t with
    | Some a => (finish13 st, MAlert a p')
    | None =>
      let '(rc, hs', dec') := o_parse13 o (t_hs st) t msg in
      (finish13 {| t_frag := t_frag st; t_hs := hs'; t_decrypting := dec'; t_log := t_log st ++ [(t, msg)] |}, MDone rc p')
    end
  end.

(* tls13ParseHandshakeMessage on b[p, lim) *)
Definition parse_msg13 (fx : fixes) (o : orc13) (st : hs13) (b : bytes) (p lim : Z) : res (hs13 * msg13) :=
  let fresh (st : hs13) :=
    (* psParseTlsHandshakeHeader *)
    if lim - p <? c_TLS_HS_HDR_LEN then Ok (finish13 st, MDone 0 p)
    else
      do _t <- rd b lim p;
      do hl <- be24 b lim (p + 1);
      if fx_hslen13 fx && (hl >? c_hsLenMax) then Ok (finish13 st, MAlert c_SSL_ALERT_DECODE_ERROR p)
      else if lim - (p + 4) <? hl then
        (* tls13FragMessageReadInit 713-751 *)
        let total := hl + c_TLS_HS_HDR_LEN in
        let readable := lim - p in
        do src <- slice b lim p readable;
        do m <- memcpy_to (falloc total) 0 src;
        Ok ({| t_frag := {| fr_msg := Some m; fr_index := readable; fr_total := total; fr_stored := fr_stored (t_frag st);
                            fr_msn := fr_msn (t_frag st); fr_hdrs := fr_hdrs (t_frag st) |};
               t_hs := t_hs st; t_decrypting := t_decrypting st; t_log := t_log st |}, MPartial lim)
      else
        do msg <- slice b lim p (hl + 4);
        Ok (dispatch13 fx o st msg (p + hl + 4)) in
  match fr_msg (t_frag st) with
  | Some m =>
    (* tls13FragMessageReadContinue 772-812 *)
    let fr := t_frag st in
    let n := Z.min (lim - p) (fr_total fr - fr_index fr) in
    do src <- slice b lim p n;
    do m' <- memcpy_to m (fr_index fr) src;
    let idx := fr_index fr + n in
    let fr' := {| fr_msg := Some m'; fr_index := idx; fr_total := fr_total fr; fr_stored := fr_stored fr;
                  fr_msn := fr_msn fr; fr_hdrs := fr_hdrs fr |} in
    let st1 := {| t_frag := fr'; t_hs := t_hs st; t_decrypting := t_decrypting st; t_log := t_log st |} in
    if idx =? fr_total fr then
      do msg <- slicef m' 0 (fr_total fr);
      (* the header is re-read from the assembled message; its length field is hsMsgLen = fragTotal - 4 by construction *)
      Ok (dispatch13 fx o st1 msg (p + n))
    else Ok (st1, MPartial (p + n))
  | None => fresh st
  end.

Inductive out13 :=
| ORet (rc : Z) (used : Z)       (* return rc with *in = start + used *)
| OEncode (a : option Z).        (* goto encodeResponse (alert a, or a handshake response) *)

(* the `while (p != end)` loop 418-462; trailer = TLS_GCM_TAG_LEN + 1 + padLen of a decrypted record *)
Fixpoint hs13_loop (fuel : nat) (fx : fixes) (o : orc13) (st : hs13) (b : bytes) (p0 p lim : Z)
         (decrypted : bool) (trailer : Z) : res (hs13 * out13) :=
  match fuel with
  | O => OutOfFuel
  | S f =>
    if p =? lim then Ok (st, ORet c_MATRIXSSL_SUCCESS (lim + (if decrypted then trailer else 0)))
    else
      let p_start := if fx_loop13 fx then p else p0 in
      do r <- parse_msg13 fx o st b p lim;
      let '(st', m) := r in
      let skip := if fx_loop13 fx then decrypted else t_decrypting st' in
      let tr := if skip then trailer else 0 in
      match m with
      | MPartial p' => Ok (st', ORet c_MATRIXSSL_SUCCESS (p' + tr))
      | MAlert a p' => Ok (st', OEncode (Some a))
      | MDone rc p' =>
        if rc <? 0 then
          (if rc =? c_SSL_NO_TLS_1_3 then Ok (st', ORet rc 0)
           else Ok (st', OEncode None))
        else if p_start =? p' then Ok (st', ORet c_PS_FAILURE 0)
        else hs13_loop f fx o st' b p0 p' lim decrypted trailer
      end
  end.

(* ================================================================== (c) DTLS handshake records *)
(* dtlsSeenFrag 731-752 over the used slots: Some true = seen, Some false = free slot available, None = -1 *)
Fixpoint seen_frag (hdrs : list (Z * Z)) (off : Z) : bool :=
  match hdrs with [] => false | (o, _) :: r => (o =? off) || seen_frag r off end.

Fixpoint overlaps (hdrs : list (Z * Z)) (off len : Z) : bool :=
  match hdrs with
  | [] => false
  | (o, l) :: r => ((off <? o + l) && (o <? off + len)) || overlaps r off len
  end.

(* dtlsHsHashFragMsg 577-640: walk the fragments in offset order; returns the chunks given to the hash.
   i = slot index, next = nextOffset, total = totalLen (read from the first fragment's header) *)
Fixpoint hash_frag_loop (fuel : nat) (hdrs : list (Z * Z)) (m : fbuf) (i next total : Z) (hl : Z) (acc : list bytes)
  : res (list bytes) :=
  match fuel with
  | O => OutOfFuel
  | S f =>
    if i <? c_MAX_FRAGMENTS then
      match nth_error hdrs (Z.to_nat i) with
      | Some (o, l) =>
        if o =? next then
          do chunk <- slicef m o l;
          hash_frag_loop f hdrs m 0 (next + l) (if next =? 0 then hl else total) hl (acc ++ [chunk])
        else if negb (next =? 0) && (next =? total) then Ok acc
        else hash_frag_loop f hdrs m (i + 1) next total hl acc
      | None =>       (* free slot: offset == -1, never equal to nextOffset *)
        if negb (next =? 0) && (next =? total) then Ok acc
        else hash_frag_loop f hdrs m (i + 1) next total hl acc
      end
    else Ok acc
  end.
Definition hash_frag_fuel : nat := 400.     (* > MAX_FRAGMENTS * (MAX_FRAGMENTS + 1) *)

Record orcd := { d_gate : Z -> Z -> Z -> Z -> gate_res;      (* hsState lastMsn hsType msn *)
                 d_parse : Z -> Z -> bytes -> Z * Z * Z }.
Record hsd := { g_frag : frag; g_hs : Z; g_last_msn : Z; g_log : handoffs; g_hashed : list (list bytes) }.

Definition put_frag (st : hsd) (fr : frag) : hsd :=
  {| g_frag := fr; g_hs := g_hs st; g_last_msn := g_last_msn st; g_log := g_log st; g_hashed := g_hashed st |}.

(* the parser runs on a message that lives either in the record or in ssl->fragMessage *)
Definition run_parser (o : orcd) (st : hsd) (t msn : Z) (hdr body : bytes) (hashed : option (list bytes)) : hsd * Z * Z :=
  let '(rc, used, hs') := d_parse o (g_hs st) t body in
  ({| g_frag := g_frag st; g_hs := hs'; g_last_msn := (if rc <? 0 then g_last_msn st else msn);
      g_log := g_log st ++ [(t, hdr ++ body)];
      g_hashed := match hashed with Some h => g_hashed st ++ [h] | None => g_hashed st end |}, rc, used).

(* dtlsInitFrag: fragTotal = 0, all slots free *)
Definition init_frag (fr : frag) : frag :=
  {| fr_msg := fr_msg fr; fr_index := fr_index fr; fr_total := 0; fr_stored := fr_stored fr; fr_msn := fr_msn fr; fr_hdrs := [] |}.

(* parseSSLHandshake for a DTLS session: record body b[0, lim) *)
Fixpoint hs_dtls_loop (fuel : nat) (fx : fixes) (o : orcd) (st : hsd) (b : bytes) (c lim : Z) : res (hsd * hs_out) :=
  match fuel with
  | O => OutOfFuel
  | S f =>
    if lim - c <? 1 then Ok (st, HsErr c_SSL_ALERT_DECODE_ERROR)
    else
      do t <- rd b lim c;
      let c := c + 1 in
      if lim - c <? 5 then Ok (st, HsErr c_SSL_ALERT_DECODE_ERROR)
      else
        do msn0 <- be16 b lim (c + 3);
        if msn0 >? g_last_msn st + 1 then Ok (st, HsRet c_MATRIXSSL_SUCCESS)
        else if negb (msn0 =? 0) && (g_last_msn st >=? msn0) then Ok (st, HsRet c_DTLS_RETRANSMIT)
        else
          match d_gate o (g_hs st) (g_last_msn st) t msn0 with
          | GRet rc => Ok (st, HsRet rc)
          | GErr a => Ok (st, HsErr a)
          | GProceed =>
            if lim - c <? 3 then Ok (st, HsErr c_SSL_ALERT_DECODE_ERROR)
            else
              do hl <- be24 b lim c;
              let c := c + 3 in
              if hl >? hs_len_max (g_hs st) then Ok (st, HsErr c_SSL_ALERT_DECODE_ERROR)
              else if lim - c <? 8 then Ok (st, HsErr c_SSL_ALERT_DECODE_ERROR)
              else
                do msn <- be16 b lim c;
                do foff <- be24 b lim (c + 2);
                do flen <- be24 b lim (c + 5);
                let c := c + 8 in
                if fx_fraglen fx && (lim - c <? flen) then Ok (st, HsErr c_SSL_ALERT_DECODE_ERROR)
                else
                  do hdr <- slice b lim (c - 12) 12;
                  let whole (st : hsd) (hashed : option (list bytes)) (body : bytes) (in_record : bool) :=
                    (* the message is complete: hash + parse it *)
                    let '(st', rc, used) := run_parser o st t msn hdr body hashed in
                    if rc <? 0 then Ok (st', HsRet rc)
                    else if in_record then
                      let c' := c + Z.max 0 (Z.min used hl) in
                      if c' <? lim then hs_dtls_loop f fx o st' b c' lim else Ok (st', HsRet rc)
                    else Ok (st', HsRet rc) in
                  if negb (flen =? hl) then
                    (* a fragment 2430-2560 *)
                    let fr := g_frag st in
                    let fr1 := if fr_total fr =? 0 then
                                 {| fr_msg := Some (falloc hl); fr_index := fr_index fr; fr_total := 0; fr_stored := hl;
                                    fr_msn := msn; fr_hdrs := fr_hdrs fr |}
                               else fr in
                    let st1 := put_frag st fr1 in
                    if negb (fr_msn fr1 =? msn) || (fx_reasm fx && (negb (fr_stored fr1 =? hl) || (flen =? 0)))
                    then Ok (st1, HsRet c_MATRIXSSL_SUCCESS)
                    else if seen_frag (fr_hdrs fr1) foff then Ok (st1, HsRet c_MATRIXSSL_SUCCESS)
                    else if lenZ (fr_hdrs fr1) >=? c_MAX_FRAGMENTS then
                      Ok (put_frag st {| fr_msg := None; fr_index := fr_index fr1; fr_total := 0; fr_stored := fr_stored fr1;
                                         fr_msn := fr_msn fr1; fr_hdrs := [] |}, HsErr c_SSL_ALERT_ILLEGAL_PARAMETER)   (* returns PS_LIMIT_FAIL *)
                    else if (foff + flen >? hl) || (foff + flen >? fr_stored fr1) then Ok (st1, HsErr c_SSL_ALERT_DECODE_ERROR)
                    else if fx_reasm fx && overlaps (fr_hdrs fr1) foff flen then Ok (st1, HsRet c_MATRIXSSL_SUCCESS)
                    else
                      match fr_msg fr1 with
                      | None => Fault                                (* Memcpy(NULL + fragOffset, ...) *)
                      | Some m =>
                        do src <- slice b lim c flen;
                        do m' <- memcpy_to m foff src;
                        let hdrs' := fr_hdrs fr1 ++ [(foff, flen)] in
                        let total' := fr_total fr1 + flen in
                        let fr2 := {| fr_msg := Some m'; fr_index := fr_index fr1; fr_total := total'; fr_stored := fr_stored fr1;
                                      fr_msn := fr_msn fr1; fr_hdrs := hdrs' |} in
                        if negb (total' =? hl) then Ok (put_frag st fr2, HsRet c_MATRIXSSL_SUCCESS)
                        else
                          (* c = ssl->fragMessage; end = c + hsLen; dtlsHsHashFragMsg; dtlsInitFrag *)
                          do chunks <- hash_frag_loop hash_frag_fuel hdrs' m' 0 0 0 hl [];
                          do body <- slicef m' 0 hl;
                          whole (put_frag st (init_frag fr2)) (Some chunks) body false
                      end
                  else if lim - c <? hl then
                    (* reachable only without the fragLen test: the non-DTLS first-fragment code with the 12-byte header *)
                    match fr_msg (g_frag st) with
                    | None =>
                      let total := hl + 12 in
                      let idx := (lim - c) + 12 in
                      do src <- slice b lim (c - 12) idx;
                      do m <- memcpy_to (falloc total) 0 src;
                      Ok (put_frag st {| fr_msg := Some m; fr_index := idx; fr_total := total; fr_stored := fr_stored (g_frag st);
                                         fr_msn := fr_msn (g_frag st); fr_hdrs := fr_hdrs (g_frag st) |}, HsRet c_MATRIXSSL_SUCCESS)
                    | Some _ => Ok (st, HsErr c_SSL_ALERT_DECODE_ERROR)
                    end
                  else
                    do body <- slice b lim c hl;
                    if fr_total (g_frag st) >? 0 then
                      (* pending fragments of another message are hashed instead, then dropped 2574-2578 *)
                      match fr_msg (g_frag st) with
                      | None => Fault
                      | Some m =>
                        do chunks <- hash_frag_loop hash_frag_fuel (fr_hdrs (g_frag st)) m 0 0 0 (fr_stored (g_frag st)) [];
                        whole (put_frag st (init_frag (g_frag st))) (Some chunks) body true
                      end
                    else whole st None body true
          end
  end.

Definition hs_record_dtls (fuel : nat) (fx : fixes) (o : orcd) (st : hsd) (b : bytes) (lim : Z) : res (hsd * hs_out) :=
  do r <- hs_dtls_loop fuel fx o st b 0 lim;
  let '(st', out) := r in
  Ok (put_frag st' (after_hs_record (g_frag st')), out).

(* ================================================================== (d) API buffer arithmetic *)
(* what matrixSslDecode reports to matrixSslReceivedData *)
Record dret := { dr_rc : Z;            (* return code *)
                 dr_moved : Z;         (* buf - prevBuf after the call *)
                 dr_len : Z;           (* *len *)
                 dr_req : Z;           (* *requiredLen *)
                 dr_err : Z;           (* *error *)
                 dr_alert : Z;         (* alertDesc *)
                 dr_ctlen : Z;         (* rec.len + recordHeadLen (+ AEAD overhead) as ProcessedData recomputes it *)
                 dr_done : bool }.     (* matrixSslHandshakeIsComplete afterwards *)

Record abuf := { a_inlen : Z; a_insize : Z; a_outlen : Z; a_outsize : Z;
                 a_hs_complete_flag : bool;     (* BFLAG_HS_COMPLETE *)
                 a_dtls : bool; a_tls13 : bool; a_false_start : bool;
                 a_default : Z;                 (* SSL_DEFAULT_IN_BUF_SIZE or the PMTU *)
                 a_ctlen : Z }.                 (* of the record last reported as application data / alert *)

(* every Memmove / Memcpy of the API layer as (destination object size, dst offset, src offset, n) on inbuf,
   checked against the allocation: out of range = Fault *)
Definition move_in (insize dst src n : Z) : res unit :=
  if (0 <=? n) && (0 <=? dst) && (0 <=? src) && (dst + n <=? insize) && (src + n <=? insize) then Ok tt else Fault.

Definition set_in (a : abuf) (inlen insize : Z) : abuf :=
  {| a_inlen := inlen; a_insize := insize; a_outlen := a_outlen a; a_outsize := a_outsize a;
     a_hs_complete_flag := a_hs_complete_flag a; a_dtls := a_dtls a; a_tls13 := a_tls13 a; a_false_start := a_false_start a;
     a_default := a_default a; a_ctlen := a_ctlen a |}.

(* revertToDefaultBufsize(ssl, SSL_INBUF); realloc_ok = the oracle answer of psRealloc *)
Definition revert_in (realloc_ok : bool) (a : abuf) : abuf :=
  if (a_insize a >? a_default a) && (a_inlen a <? a_default a) && realloc_ok then set_in a (a_inlen a) (a_default a) else a.

(* matrixSslGetReadbuf: (offset of the returned pointer, room) *)
Definition get_readbuf (a : abuf) : Z * Z := (a_inlen a, a_insize a - a_inlen a).

(* the application wrote n <= room bytes at the returned pointer *)
Definition app_write (a : abuf) (n : Z) : res unit :=
  let '(off, room) := get_readbuf a in move_in (a_insize a) off off (if (0 <=? n) && (n <=? room) then n else a_insize a + 1).

Inductive api_ret := ARet (rc : Z) (a : abuf).

(* matrixSslReceivedData after `ssl->inlen += bytes`; dec = the decoder oracle (index of the call, bytes
   offered) ; rok = psRealloc oracle; bufoff = buf - ssl->inbuf *)
Fixpoint recv_loop (fuel : nat) (dec : nat -> abuf -> Z -> dret) (rok : nat -> bool) (k : nat) (a : abuf) (bufoff : Z)
  : res api_ret :=
  match fuel with
  | O => OutOfFuel
  | S f =>
    let d := dec k a bufoff in
    let rc := dr_rc d in
    let done a := ARet c_MATRIXSSL_SUCCESS a in
    let finish rcv (a : abuf) (partial : bool) := Ok (ARet rcv (if partial then a else revert_in (rok k) a)) in
    if (rc =? c_MATRIXSSL_SUCCESS) || (a_dtls a && (rc =? c_DTLS_RETRANSMIT)) then
      let inlen := a_inlen a - dr_moved d in
      let a1 := set_in a inlen (a_insize a) in
      if inlen >? 0 then
        do _ <- move_in (a_insize a) 0 (bufoff + dr_moved d) inlen;       (* Memmove(ssl->inbuf, buf, ssl->inlen) *)
        recv_loop f dec rok (S k) a1 0
      else if rc =? c_DTLS_RETRANSMIT then Ok (ARet c_MATRIXSSL_REQUEST_SEND a1)
      else if negb (a_hs_complete_flag a) then
        (if dr_done d then
           finish c_MATRIXSSL_HANDSHAKE_COMPLETE
                  {| a_inlen := inlen; a_insize := a_insize a; a_outlen := a_outlen a; a_outsize := a_outsize a;
                     a_hs_complete_flag := true; a_dtls := a_dtls a; a_tls13 := a_tls13 a; a_false_start := a_false_start a;
                     a_default := a_default a; a_ctlen := a_ctlen a |} false
         else finish c_MATRIXSSL_REQUEST_RECV a1 false)
      else if a_tls13 a then finish (if dr_done d then c_MATRIXSSL_HANDSHAKE_COMPLETE else c_PS_PROTOCOL_FAIL) a1 false
      else finish c_MATRIXSSL_REQUEST_RECV a1 false
    else if rc =? c_SSL_SEND_RESPONSE then
      if a_false_start a && negb (dr_moved d =? 0) then
        let inlen := a_inlen a - dr_moved d in
        do _ <- move_in (a_insize a) 0 (bufoff + dr_moved d) inlen;
        Ok (ARet c_MATRIXSSL_REQUEST_SEND (set_in a inlen (a_insize a)))
      else
        let len := dr_len d in
        if a_outlen a >? 0 then
          (* append the response (in inbuf) to outbuf, growing it *)
          let outsize := if a_outlen a + len >? a_outsize a then a_outlen a + len else a_outsize a in
          if (a_outlen a + len >? a_outsize a) && negb (rok k) then Ok (ARet c_PS_MEM_FAIL (set_in a 0 (a_insize a)))
          else
            do _ <- move_in (a_insize a) 0 0 len;                                  (* source: inbuf[0, len) *)
            do _ <- move_in outsize (a_outlen a) (a_outlen a) len;                 (* destination: outbuf + outlen *)
            finish c_MATRIXSSL_REQUEST_SEND
                   {| a_inlen := 0; a_insize := a_insize a; a_outlen := a_outlen a + len; a_outsize := outsize;
                      a_hs_complete_flag := a_hs_complete_flag a; a_dtls := a_dtls a; a_tls13 := a_tls13 a;
                      a_false_start := a_false_start a; a_default := a_default a; a_ctlen := a_ctlen a |} false
        else
          (* swap inbuf and outbuf *)
          finish c_MATRIXSSL_REQUEST_SEND
                 {| a_inlen := 0; a_insize := a_outsize a; a_outlen := len; a_outsize := a_insize a;
                    a_hs_complete_flag := a_hs_complete_flag a; a_dtls := a_dtls a; a_tls13 := a_tls13 a;
                    a_false_start := a_false_start a; a_default := a_default a; a_ctlen := a_ctlen a |} false
    else if rc =? c_MATRIXSSL_ERROR then Ok (ARet (dr_err d) a)
    else if rc =? c_SSL_ALERT then
      Ok (ARet c_MATRIXSSL_RECEIVED_ALERT
               {| a_inlen := a_inlen a - dr_moved d; a_insize := a_insize a; a_outlen := a_outlen a; a_outsize := a_outsize a;
                  a_hs_complete_flag := a_hs_complete_flag a; a_dtls := a_dtls a; a_tls13 := a_tls13 a;
                  a_false_start := a_false_start a; a_default := a_default a; a_ctlen := dr_ctlen d |})
    else if rc =? c_SSL_PARTIAL then
      if dr_req d >? c_SSL_MAX_BUF_SIZE then Ok (ARet c_PS_MEM_FAIL a)
      else if dr_req d >? a_insize a then
        (if rok k then finish c_MATRIXSSL_REQUEST_RECV (set_in a (a_inlen a) (dr_req d)) true
         else Ok (ARet c_PS_MEM_FAIL a))
      else finish c_MATRIXSSL_REQUEST_RECV a true
    else if rc =? c_SSL_FULL then
      if dr_req d >? c_SSL_MAX_BUF_SIZE then Ok (ARet c_PS_MEM_FAIL a)
      else if dr_req d >? a_insize a then
        (if rok k then recv_loop f dec rok (S k) (set_in a 0 (dr_req d)) bufoff
         else Ok (ARet c_PS_MEM_FAIL (set_in a 0 (a_insize a))))
      else Ok (ARet c_PS_PROTOCOL_FAIL (set_in a 0 (a_insize a)))
    else if rc =? c_SSL_PROCESS_DATA then
      Ok (ARet c_MATRIXSSL_APP_DATA
               {| a_inlen := a_inlen a - dr_moved d; a_insize := a_insize a; a_outlen := a_outlen a; a_outsize := a_outsize a;
                  a_hs_complete_flag := a_hs_complete_flag a || dr_done d; a_dtls := a_dtls a; a_tls13 := a_tls13 a;
                  a_false_start := a_false_start a; a_default := a_default a; a_ctlen := dr_ctlen d |})
    else finish c_PS_PROTOCOL_FAIL a false        (* any other code: rc keeps its initial value *)
  end.

(* fuel the wrapper supplies: one iteration per byte buffered plus one per possible growth *)
Definition recv_fuel (a : abuf) : nat := Z.to_nat (a_inlen a + c_SSL_MAX_BUF_SIZE + 2).

Definition received_data (dec : nat -> abuf -> Z -> dret) (rok : nat -> bool) (k : nat) (a : abuf) (bytes_in : Z) : res api_ret :=
  do _ <- app_write a bytes_in;
  let a := set_in a (a_inlen a + bytes_in) (a_insize a) in
  if a_inlen a =? 0 then Ok (ARet c_PS_SUCCESS a)
  else recv_loop (recv_fuel a) dec rok k a 0.

(* matrixSslProcessedData 1757-1811 *)
Definition processed_data (dec : nat -> abuf -> Z -> dret) (rok : nat -> bool) (k : nat) (a : abuf) (hs_done : bool) : res api_ret :=
  do _ <- (if a_inlen a >? 0 then move_in (a_insize a) 0 (a_ctlen a) (a_inlen a) else Ok tt);
  let a := revert_in (rok k) a in
  if a_inlen a >? 0 then recv_loop (recv_fuel a) dec rok (S k) a 0
  else if a_outlen a >? 0 then Ok (ARet c_MATRIXSSL_REQUEST_SEND a)
  else if negb hs_done then Ok (ARet c_MATRIXSSL_REQUEST_RECV a)
  else Ok (ARet c_MATRIXSSL_SUCCESS a).

(* ================================================================== (e) CBC pad / MAC layout *)
(* sslDecode.c 889-1250 for a block cipher (deBlockSize > 1, not AEAD): given rec.len, the sizes, the
   last plaintext byte and whether the pad bytes [rec.len - 1 - padLen, rec.len) all carry that value, where
   the code looks for the MAC.  Offsets are relative to decryptedStart (= origbuf). *)
Record cbc_layout := { cl_sane : bool;        (* the length sanity test 889-915 passed *)
                       cl_mac_error : bool;
                       cl_pad_lo : Z;         (* pad bytes examined: [cl_pad_lo, rec.len) when no error *)
                       cl_mac_off : Z;        (* mac = decryptedStart + cl_mac_off *)
                       cl_data_off : Z;       (* data given to verifyMac starts here (after the explicit IV) *)
                       cl_data_len : Z }.
Definition cbc_mac_layout (rec_len mac_size block_size pad_len : Z) (explicit_iv ssl3 pads_equal : bool) : cbc_layout :=
  let min_len := if explicit_iv then mac_size + 1 + block_size else mac_size + 1 in
  if rec_len <? min_len then
    {| cl_sane := false; cl_mac_error := true; cl_pad_lo := 0; cl_mac_off := 0; cl_data_off := 0; cl_data_len := 0 |}
  else
    let err1 := ssl3 && (pad_len >=? block_size) in
    let err2 := if explicit_iv then rec_len <? mac_size + pad_len + 1 + block_size else rec_len <? mac_size + pad_len + 1 in
    (* TLS: all pad bytes must equal the pad length (looked at only when the lengths are consistent) *)
    let err := err1 || err2 || (negb ssl3 && negb pads_equal) in
    let data_off := if explicit_iv then block_size else 0 in
    let mac_off := if err then rec_len - mac_size else rec_len - pad_len - 1 - mac_size in
    {| cl_sane := true; cl_mac_error := err; cl_pad_lo := (if err then rec_len else rec_len - pad_len - 1);
       cl_mac_off := mac_off; cl_data_off := data_off; cl_data_len := mac_off - data_off |}.
