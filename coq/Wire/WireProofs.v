(* C08 - lemmas and main theorems about coq/Wire/WireModel.v (proofs only; statements re-exported in
   Properties/Properties_C08.v). *)
From MV Require Import Base.Bytes Gen.Consts Gen.ConstsDtls Gen.ConstsWire Dtls.DtlsModel Wire.WireModel Wire.WireSpec.
From Coq Require Import Lia ZArith List Bool.
Local Open Scope Z_scope.

(* ------------------------------------------------------------------ tactics *)
Ltac b2p :=
  repeat match goal with
  | H : (_ && _) = true |- _ => apply andb_true_iff in H; destruct H
  | H : (_ && _) = false |- _ => apply andb_false_iff in H
  | H : (_ || _) = true |- _ => apply orb_true_iff in H
  | H : (_ || _) = false |- _ => apply orb_false_iff in H; destruct H
  | H : negb _ = true |- _ => apply negb_true_iff in H
  | H : negb _ = false |- _ => apply negb_false_iff in H
  | H : (_ <? _) = true |- _ => apply Z.ltb_lt in H
  | H : (_ <? _) = false |- _ => apply Z.ltb_ge in H
  | H : (_ <=? _) = true |- _ => apply Z.leb_le in H
  | H : (_ <=? _) = false |- _ => apply Z.leb_gt in H
  | H : (_ >? _) = true |- _ => rewrite Z.gtb_ltb in H; apply Z.ltb_lt in H
  | H : (_ >? _) = false |- _ => rewrite Z.gtb_ltb in H; apply Z.ltb_ge in H
  | H : (_ >=? _) = true |- _ => rewrite Z.geb_leb in H; apply Z.leb_le in H
  | H : (_ >=? _) = false |- _ => rewrite Z.geb_leb in H; apply Z.leb_gt in H
  | H : (_ =? _) = true |- _ => apply Z.eqb_eq in H
  | H : (_ =? _) = false |- _ => apply Z.eqb_neq in H
  end.

Ltac cases_if :=
  match goal with
  | |- context [if ?c then _ else _] => let E := fresh "E" in destruct c eqn:E
  end.

(* ------------------------------------------------------------------ lists *)
Lemma nth_error_firstn : forall {A} (l : list A) n i, (i < n)%nat -> nth_error (firstn n l) i = nth_error l i.
Proof.
  induction l as [|x l IH]; intros n i H; destruct n; destruct i; cbn; try reflexivity; try lia.
  apply IH; lia.
Qed.
Lemma nth_error_skipn : forall {A} (l : list A) n i, nth_error (skipn n l) i = nth_error l (n + i).
Proof.
  induction l as [|x l IH]; intros n i; destruct n; cbn; try reflexivity.
  - destruct i; reflexivity.
  - apply IH.
Qed.

(* ------------------------------------------------------------------ reads *)
Lemma lenZ_nonneg : forall {A} (l : list A), 0 <= lenZ l.
Proof. intros; unfold lenZ; lia. Qed.

Lemma rd_ok : forall b lim i, 0 <= i -> i < lim -> lim <= lenZ b -> exists v, rd b lim i = Ok v /\ 0 <= v.
Proof.
  intros b lim i H0 H1 H2. unfold rd.
  replace (0 <=? i) with true by (symmetry; apply Z.leb_le; lia).
  replace (i <? lim) with true by (symmetry; apply Z.ltb_lt; lia). cbn [andb].
  destruct (nth_error b (Z.to_nat i)) eqn:E.
  - eexists; split; [reflexivity | lia].
  - apply nth_error_None in E. unfold lenZ in H2. lia.
Qed.

Lemma rd_fault_iff : forall b lim i, lim <= lenZ b -> (rd b lim i = Fault <-> ~ (0 <= i < lim)).
Proof.
  intros b lim i Hl; unfold rd; split.
  - intros H [H0 H1].
    replace (0 <=? i) with true in H by (symmetry; apply Z.leb_le; lia).
    replace (i <? lim) with true in H by (symmetry; apply Z.ltb_lt; lia). cbn [andb] in H.
    destruct (nth_error b (Z.to_nat i)) eqn:E; [discriminate|].
    apply nth_error_None in E. unfold lenZ in Hl. lia.
  - intros H. destruct ((0 <=? i) && (i <? lim)) eqn:E; [|reflexivity]. b2p. lia.
Qed.

Lemma be16_ok : forall b lim i, 0 <= i -> i + 1 < lim -> lim <= lenZ b -> exists v, be16 b lim i = Ok v /\ 0 <= v.
Proof.
  intros. unfold be16.
  destruct (rd_ok b lim i) as (a & Ha & ?); try lia.
  destruct (rd_ok b lim (i + 1)) as (c & Hc & ?); try lia.
  rewrite Ha, Hc; cbn. eexists; split; [reflexivity | lia].
Qed.

Lemma be24_ok : forall b lim i, 0 <= i -> i + 2 < lim -> lim <= lenZ b -> exists v, be24 b lim i = Ok v /\ 0 <= v.
Proof.
  intros. unfold be24.
  destruct (rd_ok b lim i) as (a & Ha & ?); try lia.
  destruct (rd_ok b lim (i + 1)) as (c & Hc & ?); try lia.
  destruct (rd_ok b lim (i + 2)) as (d & Hd & ?); try lia.
  rewrite Ha, Hc, Hd; cbn. eexists; split; [reflexivity | lia].
Qed.

Lemma sub_list_length : forall {A} (l : list A) p n, 0 <= p -> 0 <= n -> p + n <= lenZ l -> lenZ (sub_list l p n) = n.
Proof.
  intros A l p n Hp Hn H. unfold sub_list, lenZ in *. rewrite firstn_length, skipn_length. lia.
Qed.

Lemma slice_ok : forall b lim p n, 0 <= p -> 0 <= n -> p + n <= lim -> lim <= lenZ b ->
  slice b lim p n = Ok (sub_list b p n) /\ lenZ (sub_list b p n) = n.
Proof.
  intros. unfold slice.
  replace (0 <=? p) with true by (symmetry; apply Z.leb_le; lia).
  replace (0 <=? n) with true by (symmetry; apply Z.leb_le; lia).
  replace (p + n <=? lim) with true by (symmetry; apply Z.leb_le; lia).
  replace (lim <=? lenZ b) with true by (symmetry; apply Z.leb_le; lia).
  split; [reflexivity | apply sub_list_length; lia].
Qed.


Lemma falloc_length : forall n, 0 <= n -> lenZ (falloc n) = n.
Proof. intros; unfold falloc, lenZ; rewrite repeat_length; lia. Qed.

Lemma falloc_unwritten : forall n i, ~ written (falloc n) i.
Proof.
  intros n i [v H]. unfold falloc in H.
  assert (In (Some v) (repeat (@None N) (Z.to_nat n))) by (eapply nth_error_In; eauto).
  apply repeat_spec in H0. discriminate.
Qed.

Lemma memcpy_to_ok : forall dst doff src, 0 <= doff -> doff + lenZ src <= lenZ dst ->
  exists m, memcpy_to dst doff src = Ok m /\ lenZ m = lenZ dst /\
    (forall i, 0 <= i -> written m i <-> (doff <= i < doff + lenZ src \/ written dst i)).
Proof.
  intros dst doff src H0 H1. unfold memcpy_to.
  replace (0 <=? doff) with true by (symmetry; apply Z.leb_le; lia).
  replace (doff + lenZ src <=? lenZ dst) with true by (symmetry; apply Z.leb_le; lia). cbn [andb].
  eexists; split; [reflexivity|]. unfold lenZ in *. split.
  - rewrite !app_length, map_length, firstn_length, skipn_length. lia.
  - intros i Hi. unfold written.
    assert (L1 : length (firstn (Z.to_nat doff) dst) = Z.to_nat doff) by (rewrite firstn_length; lia).
    destruct (Z_lt_dec i doff) as [Hlt|Hge].
    + rewrite nth_error_app1 by lia. rewrite nth_error_firstn by lia. split; [intros; right; assumption|].
      intros [?|?]; [lia|assumption].
    + rewrite nth_error_app2 by lia. rewrite L1.
      destruct (Z_lt_dec i (doff + Z.of_nat (length src))) as [Hin|Hout].
      * rewrite nth_error_app1 by (rewrite map_length; lia).
        rewrite nth_error_map.
        destruct (nth_error src (Z.to_nat i - Z.to_nat doff)) eqn:E.
        -- cbn. split; [intros; left; lia | intros; eexists; reflexivity].
        -- apply nth_error_None in E. lia.
      * rewrite nth_error_app2 by (rewrite map_length; lia). rewrite map_length.
        rewrite nth_error_skipn.
        replace (Z.to_nat (doff + Z.of_nat (length src)) + (Z.to_nat i - Z.to_nat doff - length src))%nat with (Z.to_nat i) by lia.
        split; [intros; right; assumption|]. intros [?|?]; [lia|assumption].
Qed.

Lemma all_some_ok : forall l, (forall i, (i < length l)%nat -> exists v, nth_error l i = Some (Some v)) -> exists r, all_some l = Some r /\ length r = length l.
Proof.
  induction l as [|x l IH]; intros H.
  - exists []; split; reflexivity.
  - destruct (H 0%nat) as [v Hv]; [cbn; lia|]. cbn in Hv. injection Hv as ->.
    destruct IH as (r & Hr & Hl).
    + intros i Hi. destruct (H (S i)) as [w Hw]; [cbn; lia|]. exists w; exact Hw.
    + cbn. rewrite Hr. eexists; split; [reflexivity | cbn; lia].
Qed.

Lemma slicef_ok : forall m p n, 0 <= p -> 0 <= n -> p + n <= lenZ m ->
  (forall i, p <= i < p + n -> written m i) -> exists l, slicef m p n = Ok l /\ lenZ l = n.
Proof.
  intros m p n Hp Hn Hl Hw. unfold slicef.
  replace (0 <=? p) with true by (symmetry; apply Z.leb_le; lia).
  replace (0 <=? n) with true by (symmetry; apply Z.leb_le; lia).
  replace (p + n <=? lenZ m) with true by (symmetry; apply Z.leb_le; lia). cbn [andb].
  destruct (all_some_ok (sub_list m p n)) as (r & Hr & Hlen).
  - intros i Hi. unfold sub_list in *. rewrite firstn_length, skipn_length in Hi. unfold lenZ in Hl.
    rewrite nth_error_firstn by lia. rewrite nth_error_skipn.
    destruct (Hw (p + Z.of_nat i)) as [v Hv]; [lia|]. exists v.
    replace (Z.to_nat p + i)%nat with (Z.to_nat (p + Z.of_nat i)) by lia. exact Hv.
  - rewrite Hr. eexists; split; [reflexivity|].
    unfold lenZ. rewrite Hlen. apply (sub_list_length m p n); lia.
Qed.

Lemma slicef_fault_unwritten : forall m p n i, p <= i < p + n -> 0 <= p -> ~ written m i -> slicef m p n = Fault.
Proof.
  intros m p n i Hi Hp Hnw. unfold slicef.
  destruct ((0 <=? p) && (0 <=? n) && (p + n <=? lenZ m)) eqn:E; [|reflexivity]. b2p.
  destruct (all_some (sub_list m p n)) eqn:Ea; [|reflexivity]. exfalso. apply Hnw.
  assert (G : forall l r, all_some l = Some r -> forall k, (k < length l)%nat -> exists v, nth_error l k = Some (Some v)).
  { induction l as [|x l IH]; intros r Hr k Hk; [cbn in Hk; lia|].
    cbn in Hr. destruct x as [x|]; [|discriminate]. destruct (all_some l) eqn:El; [|discriminate].
    destruct k; [exists x; reflexivity|]. cbn. eapply IH; [reflexivity | cbn in Hk; lia]. }
  unfold written. unfold sub_list, lenZ in *.
  destruct (G _ _ Ea (Z.to_nat (i - p))) as [v Hv].
  - rewrite firstn_length, skipn_length. lia.
  - rewrite nth_error_firstn in Hv by lia. rewrite nth_error_skipn in Hv.
    replace (Z.to_nat p + Z.to_nat (i - p))%nat with (Z.to_nat i) in Hv by lia. exists v; exact Hv.
Qed.



Lemma validate_version_actv : forall x maj mi ok a,
  validate_version x maj mi = (ok, a) -> a = hx_actv x \/ (ok = true /\ dtlsb (hx_supp x) = true).
Proof.
  intros x maj mi ok a H. unfold validate_version in H.
  repeat match type of H with context [if ?c then _ else _] => destruct c eqn:? end;
    inversion H; subst; auto.
  right. split; [reflexivity|]. unfold dtlsb. b2p. assumption.
Qed.

Ltac use_rd b lim i :=
  let v := fresh "v" in let Hv := fresh "Hv" in let Hp := fresh "Hp" in
  destruct (rd_ok b lim i) as (v & Hv & Hp); [lia | lia | lia |]; rewrite Hv; cbn [bind].
Ltac use_be16 b lim i :=
  let v := fresh "v" in let Hv := fresh "Hv" in let Hp := fresh "Hp" in
  destruct (be16_ok b lim i) as (v & Hv & Hp); [lia | lia | lia |]; rewrite Hv; cbn [bind].
Ltac use_be24 b lim i :=
  let v := fresh "v" in let Hv := fresh "Hv" in let Hp := fresh "Hp" in
  destruct (be24_ok b lim i) as (v & Hv & Hp); [lia | lia | lia |]; rewrite Hv; cbn [bind].


Lemma handle_record_hdr_ok : forall x b c lim,
  wf_h x -> 0 <= c -> c <= lim -> lim <= lenZ b ->
  exists r, handle_record_hdr x b c lim = Ok r /\ hdr_post x c lim r.
Proof.
  intros x b c lim [Hh Hd] H0 H1 H2. unfold handle_record_hdr.
  destruct (lim - c <? hx_head x) eqn:E0.
  { eexists; split; [reflexivity | reflexivity]. }
  b2p. assert (c + 5 <= lim) by lia.
  use_rd b lim c.
  destruct (negb (rec_type_ok v)) eqn:Et.
  { eexists; split; [reflexivity | cbn; auto]. }
  use_rd b lim (c + 1). use_rd b lim (c + 2).
  destruct (validate_version x v0 v1) as [ok actv] eqn:Ev.
  pose proof (validate_version_actv _ _ _ _ _ Ev) as Ha.
  destruct (negb ok) eqn:Eok.
  { eexists; split; [reflexivity|]. cbn. destruct Ha as [?|[? ?]]; auto. }
  fold (dtlsb actv).
  destruct (dtlsb actv) eqn:Edt.
  - assert (hx_head x = 13).
    { apply Hd. destruct Ha as [->|[_ ?]]; auto. }
    use_be16 b lim (c + 3). use_be24 b lim (c + 5). use_be24 b lim (c + 8). use_be16 b lim (c + 11).
    destruct ((v5 >? c_SSL_MAX_RECORD_LEN) || (v5 =? 0)) eqn:El.
    { eexists; split; [reflexivity|]. cbn. destruct Ha as [?|[? ?]]; auto. }
    eexists; split; [reflexivity|]. cbn [hdr_post rh_actv rh_used rh_len rh_epoch rh_rsn]. rewrite Edt. b2p.
    repeat split; try lia. destruct Ha as [?|[? ?]]; auto.
  - use_be16 b lim (c + 3).
    destruct ((v2 >? c_SSL_MAX_RECORD_LEN) || (v2 =? 0)) eqn:El.
    { eexists; split; [reflexivity|]. cbn. destruct Ha as [?|[? ?]]; auto. }
    eexists; split; [reflexivity|]. cbn [hdr_post rh_actv rh_used rh_len rh_epoch rh_rsn]. rewrite Edt. b2p.
    repeat split; try lia. destruct Ha as [?|[? ?]]; auto.
Qed.

Lemma wf_h_actv : forall x a, wf_h x -> (a = hx_actv x \/ dtlsb (hx_supp x) = true) ->
  wf_h {| hx_head := hx_head x; hx_actv := a; hx_supp := hx_supp x; hx_hs := hx_hs x |}.
Proof.
  intros x a [Hh Hd] Ha. split; cbn; [assumption|].
  intros [H|H]; apply Hd; [|auto]. destruct Ha as [->|?]; auto.
Qed.



Lemma stage_post_mono : forall c c' lim s, c <= c' -> stage_post c' lim s -> stage_post c lim s.
Proof. intros c c' lim [] H; cbn; intuition lia. Qed.

Lemma replay_check_wf : forall x rsn ok x', replay_check x rsn = (ok, x') -> wf_d x -> wf_d x'.
Proof.
  intros x rsn ok x' H W. unfold replay_check in H.
  destruct (chk_replay (rx_win (dx_rx x)) (Z.to_N rsn)) as [o w]. inversion H; subst. exact W.
Qed.

Ltac dec_post := cbn [stage_post]; split; [lia | split; [lia | split; [lia | assumption]]].
Ltac ret_post := cbn [stage_post]; split; [lia | split; [auto | assumption]].

Theorem decode12_ok : forall fuel x b c lim,
  wf_d x -> 0 <= c -> c <= lim -> lim <= lenZ b -> lim - c < Z.of_nat fuel ->
  exists s, decode12 fuel all_fixed x b c lim = Ok s /\ stage_post c lim s.
Proof.
  induction fuel as [|f IH]; intros x b c lim W H0 H1 H2 HF; [lia|].
  cbn [decode12].
  destruct (lim - c =? 0) eqn:E0.
  { eexists; split; [reflexivity|]. b2p. ret_post. }
  destruct (lim - c <? c_SSL3_HEADER_LEN) eqn:E1.
  { eexists; split; [reflexivity|]. cbn [stage_post]. split; [vm_compute; split; [reflexivity | discriminate] | exact W]. }
  destruct (handle_record_hdr_ok (dx_h x) b c lim W H0 H1 H2) as (hr & Hhr & Hpost).
  rewrite Hhr. cbn [bind].
  destruct hr as [h | r | a actv]; cbn [hdr_post] in Hpost.
  2:{ eexists; split; [reflexivity|]. cbn [stage_post]. subst r. split; [|exact W].
      destruct W as [[->| ->] _]; vm_compute; split; congruence. }
  2:{ eexists; split; [reflexivity|]. cbn. unfold wf_d; cbn. apply wf_h_actv; assumption. }
  destruct Hpost as (Hused & Hc1 & Hlen & Hep & Hrsn & Hactv).
  assert (W1 : wf_d (with_actv x (rh_actv h))) by (unfold wf_d; cbn; apply wf_h_actv; assumption).
  fold (dtlsb (rh_actv h)).
  set (x1 := with_actv x (rh_actv h)) in *.
  set (c1 := c + rh_used h) in *.
  destruct (lim - c1 <? rh_len h) eqn:E2.
  { destruct (dtlsb (rh_actv h)); eexists; (split; [reflexivity|]); cbn [stage_post]; [exact W1|].
    split; [|exact W1]. unfold x1; cbn [dx_h with_actv hx_head]. destruct W as [[Hh|Hh] _]; rewrite Hh; lia. }
  b2p.
  destruct (dtlsb (rh_actv h)) eqn:Edt; cbn [negb].
  2:{ eexists; split; [reflexivity|]. dec_post. }
  destruct Hused as [Hused Hhead].
  assert (Hc1' : c1 = c + 13) by (unfold c1; lia).
  (* the DTLS gate *)
  set (c2 := c1 + rh_len h) in *.
  assert (Hc2 : c < c2 <= lim) by (unfold c2; lia).
  (* a generic fact about the window continuation *)
  assert (WIN : forall y, wf_d y ->
    exists s, (let '(ok, x') := replay_check y (rh_rsn h) in
               if ok then Ok (SDecrypt c1 (rh_len h) h x')
               else if lim - c2 >? 0 then decode12 f all_fixed x' b c2 lim
               else Ok (SRet c_MATRIXSSL_SUCCESS c2 x')) = Ok s /\ stage_post c lim s).
  { intros y Wy. destruct (replay_check y (rh_rsn h)) as [ok y'] eqn:Er.
    pose proof (replay_check_wf _ _ _ _ Er Wy) as Wy'.
    destruct ok.
    - eexists; split; [reflexivity|]. dec_post.
    - destruct (lim - c2 >? 0) eqn:Em.
      + b2p. destruct (IH y' b c2 lim Wy') as (s & Hs & Hp); try lia.
        exists s; split; [exact Hs|]. eapply stage_post_mono; [|exact Hp]. lia.
      + eexists; split; [reflexivity|]. ret_post. }
  assert (NEWEP : forall y, wf_d y -> wf_d (with_rx y (set_epoch (dx_rx y) (Z.to_N (rh_epoch h))))) by (intros y Wy; exact Wy).
  cbv zeta.
  destruct ((compare_epoch (Z.to_N (rh_epoch h)) (rx_exp (dx_rx x1)) =? 1) &&
            (rh_type h =? c_SSL_RECORD_TYPE_HANDSHAKE) && (hx_hs (dx_h x1) =? c_SSL_HS_FINISHED)) eqn:G1.
  { destruct (negb (dx_pccs x1)).
    - eexists; split; [reflexivity|]. ret_post.
    - apply WIN. apply NEWEP. exact W1. }
  destruct (negb (compare_epoch (Z.to_N (rh_epoch h)) (rx_exp (dx_rx x1)) =? 0)) eqn:G2.
  2:{ apply WIN. exact W1. }
  match goal with |- context [if ?cnd then with_rx x1 ?r else x1] => set (x2 := if cnd then with_rx x1 r else x1) end.
  assert (W2 : wf_d x2) by (unfold x2; match goal with |- context [if ?cnd then _ else _] => destruct cnd end; exact W1).
  destruct ((compare_epoch (Z.to_N (rh_epoch h)) (rx_exp (dx_rx x1)) =? 1) &&
            (rh_type h =? c_SSL_RECORD_TYPE_APPLICATION_DATA) && (hx_hs (dx_h x1) =? c_SSL_HS_DONE)) eqn:G3.
  { apply WIN. apply NEWEP. exact W2. }
  destruct ((rh_type h =? c_SSL_RECORD_TYPE_CHANGE_CIPHER_SPEC) && dx_ade0 x2) eqn:G4.
  { destruct (negb (lim =? c2)) eqn:G5.
    2:{ eexists; split; [reflexivity|]. ret_post. }
    b2p. use_rd b lim c2.
    destruct (negb (v =? c_SSL_RECORD_TYPE_HANDSHAKE)).
    { eexists; split; [reflexivity|]. ret_post. }
    cbn [fx_epoch_skip all_fixed andb].
    destruct (lim - c2 <? c_DTLS_HEADER_LEN) eqn:G6.
    { eexists; split; [reflexivity|]. ret_post. }
    b2p. change c_DTLS_HEADER_LEN with 13 in G6.
    use_be16 b lim (c2 + 11).
    destruct (lim - (c2 + 13) <? v0) eqn:G7.
    { eexists; split; [reflexivity|]. ret_post. }
    b2p. eexists; split; [reflexivity|]. ret_post. }
  destruct (lim - c2 >? 0) eqn:G8.
  { b2p. destruct (IH x2 b c2 lim W2) as (s & Hs & Hp); try lia.
    exists s; split; [exact Hs|]. eapply stage_post_mono; [|exact Hp]. lia. }
  destruct ((compare_epoch (Z.to_N (rh_epoch h)) (rx_exp (dx_rx x1)) =? 1) && dx_server x2 &&
            (hx_hs (dx_h x1) =? c_SSL_HS_CLIENT_HELLO)) eqn:G9.
  { eexists; split; [reflexivity|]. exact W2. }
  destruct (compare_epoch (Z.to_N (rh_epoch h)) (rx_exp (dx_rx x1)) =? -1);
    eexists; (split; [reflexivity|]); ret_post.
Qed.

(* the code as found: the byte after a skipped CCS record is taken for a record header without looking at `end` *)
Definition dtls_client_awaiting_hello : dctx :=
  {| dx_h := {| hx_head := 13; hx_actv := 32; hx_supp := 32; hx_hs := c_SSL_HS_SERVER_HELLO |};
     dx_rx := {| rx_exp := 0%N; rx_win := win_empty |}; dx_pccs := false; dx_ade0 := true; dx_server := false |}.
Definition epoch_skip_witness : bytes := [20; 254; 253; 0; 1; 0; 0; 0; 0; 0; 0; 0; 1; 1; 22]%N.
Definition epoch_skip_witness2 : bytes := [20; 254; 253; 0; 1; 0; 0; 0; 0; 0; 0; 0; 1; 1; 22; 254; 253; 0; 1; 0; 0; 0; 0; 0; 0; 255; 255]%N.

Lemma decode12_as_found_faults : decode12 10 as_found dtls_client_awaiting_hello epoch_skip_witness 0 15 = Fault.
Proof. vm_compute. reflexivity. Qed.
Lemma decode12_as_found_overruns :
  exists x, decode12 10 as_found dtls_client_awaiting_hello epoch_skip_witness2 0 27 = Ok (SRet c_DTLS_RETRANSMIT 65562 x) /\ 27 < 65562.
Proof. eexists. split; [vm_compute; reflexivity | lia]. Qed.
Lemma witness_ctx_wf : wf_d dtls_client_awaiting_hello.
Proof. split; cbn; auto. Qed.


Theorem hdr13_ok : forall fuel outp b pos lim,
  0 <= pos -> pos <= lim -> lim <= lenZ b -> lim <= c_SSL_MAX_BUF_SIZE -> lim - pos < Z.of_nat fuel ->
  exists s, hdr13 fuel all_fixed outp b pos pos lim = Ok s /\ stage13_post pos lim s.
Proof.
  induction fuel as [|f IH]; intros outp b pos lim H0 H1 H2 H3 HF; [lia|].
  cbn [hdr13].
  destruct (lim - pos <? c_TLS_REC_HDR_LEN) eqn:E0.
  { eexists; split; [reflexivity|]. cbn [stage13_post]. b2p. change c_TLS_REC_HDR_LEN with 5 in *.
    vm_compute; split; congruence. }
  b2p. change c_TLS_REC_HDR_LEN with 5 in *.
  use_rd b lim pos. use_rd b lim (pos + 1). use_rd b lim (pos + 2). use_be16 b lim (pos + 3).
  destruct ((v2 >? c_TLS_1_3_MAX_CIPHERTEXT_LEN) || (v2 =? 0)) eqn:E1.
  { eexists; split; [reflexivity | exact I]. }
  b2p.
  destruct (lim - (pos + 5) <? v2) eqn:E2.
  { eexists; split; [reflexivity|]. cbn [stage13_post]. b2p. unfold c_SSL_MAX_BUF_SIZE in *. lia. }
  b2p.
  destruct (negb (rec13_type_ok v)) eqn:E3.
  { eexists; split; [reflexivity | exact I]. }
  destruct (v =? c_SSL_RECORD_TYPE_CHANGE_CIPHER_SPEC) eqn:E4.
  2:{ eexists; split; [reflexivity|]. cbn [stage13_post]. repeat split; lia. }
  use_rd b lim (pos + 5).
  destruct (negb (v3 =? 1) || negb (v2 =? 1)) eqn:E5.
  { eexists; split; [reflexivity | exact I]. }
  b2p. cbn [fx_ccs all_fixed].
  assert (Hu : u16 (pos + 5 + 1) = pos + 5 + 1).
  { unfold u16. apply Z.mod_small. unfold c_SSL_MAX_BUF_SIZE in H3. lia. }
  rewrite Hu.
  destruct (negb (pos + 5 + 1 =? lim)) eqn:E6.
  - b2p. destruct (IH outp b (pos + 5 + 1) lim) as (s & Hs & Hps); try lia.
    exists s; split; [exact Hs|].
    destruct s; cbn [stage13_post] in *; try exact I; intuition lia.
  - b2p. eexists; split; [reflexivity|]. cbn [stage13_post]. repeat split; try lia.
    destruct outp; auto.
Qed.

(* the code as found counts the first ChangeCipherSpec twice: two of them "consume" 18 of 12 bytes *)
Definition two_ccs : bytes := [20; 3; 3; 0; 1; 1; 20; 3; 3; 0; 1; 1]%N.
Lemma hdr13_as_found_overruns : hdr13 10 as_found false two_ccs 0 0 12 = Ok (TCcsDone c_MATRIXSSL_SUCCESS 18).
Proof. vm_compute. reflexivity. Qed.



Lemma hs_len_max_le : forall hs, hs_len_max hs <= c_hsLenMax.
Proof. intros hs. unfold hs_len_max. destruct (hs =? c_SSL_HS_CLIENT_HELLO); vm_compute; congruence. Qed.

Lemma inv_tls_after : forall fr, inv_tls fr -> inv_tls (after_hs_record fr).
Proof.
  intros fr H. unfold after_hs_record. destruct (fr_msg fr) eqn:E; [|exact H].
  destruct (fr_index fr =? fr_total fr); [exact I | exact H].
Qed.

Lemma first_fragment_ok : forall b lim p idx total,
  0 <= p -> 0 <= idx -> p + idx <= lim -> lim <= lenZ b -> idx <= total ->
  exists src m, slice b lim p idx = Ok src /\ memcpy_to (falloc total) 0 src = Ok m /\
            lenZ m = total /\ prefix_written m idx.
Proof.
  intros b lim p idx total Hp Hi Hl Hb Ht.
  destruct (slice_ok b lim p idx) as [Hs Hsl]; try lia.
  destruct (memcpy_to_ok (falloc total) 0 (sub_list b p idx)) as (m & Hm & Hlen & Hw); try lia.
  { rewrite falloc_length by lia. lia. }
  exists (sub_list b p idx), m. split; [exact Hs|]. split; [exact Hm|]. rewrite falloc_length in Hlen by lia. split; [exact Hlen|].
  intros i Hi'. apply Hw; [lia|]. left. lia.
Qed.

Lemma continue_fragment_ok : forall b lim p n m idx total,
  0 <= p -> 0 <= n -> p + n <= lim -> lim <= lenZ b ->
  lenZ m = total -> 0 <= idx -> idx + n <= total -> prefix_written m idx ->
  exists src m', slice b lim p n = Ok src /\ memcpy_to m idx src = Ok m' /\ lenZ m' = total /\ prefix_written m' (idx + n).
Proof.
  intros b lim p n m idx total Hp Hn Hl Hb Hm Hi Ht Hw.
  destruct (slice_ok b lim p n) as [Hs Hsl]; try lia.
  destruct (memcpy_to_ok m idx (sub_list b p n)) as (m' & Hm' & Hlen & Hw'); try lia.
  exists (sub_list b p n), m'. split; [exact Hs|]. split; [exact Hm'|]. split; [lia|].
  intros i Hi'. apply Hw'; [lia|].
  destruct (Z_lt_dec i idx); [right; apply Hw; lia | left; lia].
Qed.

Theorem hs_tls_loop_ok : forall fuel o st b c lim,
  inv_tls (h_frag st) -> 0 <= c -> c <= lim -> lim <= lenZ b -> lim - c < Z.of_nat fuel ->
  exists st' out, hs_tls_loop fuel o st b c lim = Ok (st', out) /\ inv_tls (h_frag st').
Proof.
  induction fuel as [|f IH]; intros o st b c lim I0 H0 H1 H2 HF; [lia|].
  cbn [hs_tls_loop].
  destruct (lim - c <? 1) eqn:E0; [do 2 eexists; split; [reflexivity | exact I0]|]. b2p.
  use_rd b lim c.
  destruct (o_gate o (h_hs st) v); try (do 2 eexists; split; [reflexivity | exact I0]).
  destruct (lim - (c + 1) <? 3) eqn:E1; [do 2 eexists; split; [reflexivity | exact I0]|]. b2p.
  use_be24 b lim (c + 1).
  destruct (v0 >? hs_len_max (h_hs st)) eqn:E2; [do 2 eexists; split; [reflexivity | exact I0]|].
  b2p. pose proof (hs_len_max_le (h_hs st)) as Hmax.
  change c_SSL3_HANDSHAKE_HEADER_LEN with 4.
  destruct (lim - (c + 1 + 3) <? v0) eqn:E3.
  - b2p. destruct (fr_msg (h_frag st)) eqn:Em; [do 2 eexists; split; [reflexivity | exact I0]|].
    destruct (first_fragment_ok b lim (c + 1 + 3 - 4) (lim - (c + 1 + 3) + 4) (v0 + 4)) as (src & m & Hsrc & Hm & Hlen & Hw); try lia.
    rewrite Hsrc. cbn [bind]. rewrite Hm. cbn [bind]. do 2 eexists; split; [reflexivity|].
    cbn [h_frag]. unfold inv_tls; cbn [fr_msg fr_total fr_index]. repeat split; try lia. exact Hw.
  - b2p. destruct (slice_ok b lim (c + 1 + 3 - 4) (v0 + 4)) as [Hs _]; try lia. rewrite Hs. cbn [bind].
    destruct (o_parse o (h_hs st) v (skipn 4 (sub_list b (c + 1 + 3 - 4) (v0 + 4)))) as [[rc used] hs'].
    destruct (rc <? 0); [do 2 eexists; split; [reflexivity | exact I0]|].
    destruct (c + 1 + 3 + Z.max 0 (Z.min used v0) <? lim) eqn:E4.
    + b2p. apply IH; cbn [h_frag]; try assumption; lia.
    + do 2 eexists; split; [reflexivity | exact I0].
Qed.

Theorem hs_record_tls_ok : forall o st b lim,
  inv_tls (h_frag st) -> 0 <= lim -> lim <= lenZ b ->
  exists st' out, hs_record_tls (S (Z.to_nat lim)) o st b lim = Ok (st', out) /\ inv_tls (h_frag st').
Proof.
  intros o st b lim I0 H0 H1. unfold hs_record_tls, parse_hs_tls.
  assert (LOOP : forall st1 c, inv_tls (h_frag st1) -> 0 <= c -> c <= lim ->
            exists st' out, hs_tls_loop (S (Z.to_nat lim)) o st1 b c lim = Ok (st', out) /\ inv_tls (h_frag st')).
  { intros. apply hs_tls_loop_ok; try assumption; lia. }
  assert (FIN : forall r : res (hs12 * hs_out), (exists st' out, r = Ok (st', out) /\ inv_tls (h_frag st')) ->
            exists st' out, (do r0 <- r; let '(st', out) := r0 in
                             Ok ({| h_frag := after_hs_record (h_frag st'); h_hs := h_hs st'; h_log := h_log st' |}, out)) = Ok (st', out) /\
                            inv_tls (h_frag st')).
  { intros r (st' & out & -> & Hi). cbn [bind]. do 2 eexists; split; [reflexivity|]. cbn [h_frag]. apply inv_tls_after; exact Hi. }
  apply FIN.
  destruct (fr_msg (h_frag st)) as [m|] eqn:Em; [|apply LOOP; [exact I0 | lia | lia]].
  unfold inv_tls in I0. rewrite Em in I0. destruct I0 as (Hlen & Hidx & Htot & Hw).
  set (n := Z.min lim (fr_total (h_frag st) - fr_index (h_frag st))).
  assert (Hn : 0 <= n <= lim /\ n <= fr_total (h_frag st) - fr_index (h_frag st)) by (unfold n; lia).
  destruct (continue_fragment_ok b lim 0 n m (fr_index (h_frag st)) (fr_total (h_frag st))) as (src & m' & Hsrc & Hm' & Hlen' & Hw'); try lia; try assumption.
  rewrite Hsrc. cbn [bind]. rewrite Hm'. cbn [bind].
  destruct (fr_index (h_frag st) + n =? fr_total (h_frag st)) eqn:Ec.
  - b2p. destruct (slicef_ok m' 0 (fr_total (h_frag st))) as (msg & Hmsg & Hml); try lia.
    { intros i Hi. apply Hw'. lia. }
    rewrite Hmsg. cbn [bind].
    destruct msg as [|x msg']; [unfold lenZ in Hml; cbn in Hml; lia|]. cbn [bind].
    destruct (o_parse o (h_hs st) (Z.of_N x) (skipn 4 (x :: msg'))) as [[rc used] hs'].
    assert (I2 : inv_tls {| fr_msg := Some m'; fr_index := fr_index (h_frag st) + n; fr_total := fr_total (h_frag st);
                            fr_stored := fr_stored (h_frag st); fr_msn := fr_msn (h_frag st); fr_hdrs := fr_hdrs (h_frag st) |}).
    { unfold inv_tls; cbn [h_frag fr_msg fr_index fr_total]. repeat split; try lia. exact Hw'. }
    destruct (rc <? 0); [do 2 eexists; split; [reflexivity | exact I2]|].
    destruct (n <? lim) eqn:En; [|do 2 eexists; split; [reflexivity | exact I2]].
    b2p. apply LOOP; [exact I2 | lia | lia].
  - b2p. do 2 eexists; split; [reflexivity|]. unfold inv_tls; cbn [h_frag fr_msg fr_index fr_total]. repeat split; try lia. exact Hw'.
Qed.

(* ================================================================== (b') TLS 1.3 handshake reassembly *)
Lemma inv_tls_finish13 : forall st, inv_tls (t_frag (finish13 st)).
Proof.
  intros st. unfold finish13. destruct (fr_msg (t_frag st)) eqn:E; cbn [t_frag].
  - exact I.
  - unfold inv_tls. rewrite E. exact I.
Qed.


Lemma dispatch13_inv : forall fx o st msg p' st' m, dispatch13 fx o st msg p' = (st', m) ->
  inv_tls (t_frag st') /\ (match m with MPartial _ => False | MDone _ q => q = p' | MAlert _ _ => True end).
Proof.
  intros fx o st msg p' st' m H. unfold dispatch13 in H.
  destruct msg as [|x r].
  - inversion H; subst. split; [apply inv_tls_finish13 | reflexivity].
  - destruct (o_check o (t_hs st) (Z.of_N x)).
    + inversion H; subst. split; [apply inv_tls_finish13 | exact I].
    + destruct (o_parse13 o (t_hs st) (Z.of_N x) (x :: r)) as [[rc hs'] dec'].
      inversion H; subst. split; [apply inv_tls_finish13 | reflexivity].
Qed.

Theorem parse_msg13_ok : forall o st b p lim,
  inv_tls (t_frag st) -> 0 <= p -> p < lim -> lim <= lenZ b ->
  exists st' m, parse_msg13 all_fixed o st b p lim = Ok (st', m) /\ inv_tls (t_frag st') /\ msg13_post p lim m.
Proof.
  intros o st b p lim I0 H0 H1 H2. unfold parse_msg13.
  destruct (fr_msg (t_frag st)) as [m|] eqn:Em.
  - unfold inv_tls in I0. rewrite Em in I0. destruct I0 as (Hlen & Hidx & Htot & Hw).
    set (n := Z.min (lim - p) (fr_total (t_frag st) - fr_index (t_frag st))).
    assert (Hn : 0 <= n <= lim - p /\ n <= fr_total (t_frag st) - fr_index (t_frag st)) by (unfold n; lia).
    destruct (continue_fragment_ok b lim p n m (fr_index (t_frag st)) (fr_total (t_frag st)))
      as (src & m' & Hsrc & Hm' & Hlen' & Hw'); try lia; try assumption.
    rewrite Hsrc. cbn [bind]. rewrite Hm'. cbn [bind].
    destruct (fr_index (t_frag st) + n =? fr_total (t_frag st)) eqn:Ec.
    + b2p. destruct (slicef_ok m' 0 (fr_total (t_frag st))) as (msg & Hmsg & Hml); try lia.
      { intros i Hi. apply Hw'. lia. }
      rewrite Hmsg. cbn [bind].
      match goal with |- context [dispatch13 ?a ?b ?c ?d ?e] => destruct (dispatch13 a b c d e) as [st' mm] eqn:Ed end.
      apply dispatch13_inv in Ed. destruct Ed as [Hi Hm].
      do 2 eexists; split; [reflexivity|]. split; [exact Hi|].
      destruct mm; cbn [msg13_post]; [contradiction | subst; lia | exact I].
    + b2p. do 2 eexists; split; [reflexivity|]. split.
      * unfold inv_tls; cbn [t_frag fr_msg fr_index fr_total]. repeat split; try lia. exact Hw'.
      * cbn [msg13_post].
        (* progress: either the record still had bytes (n = lim - p > 0) or the message was not complete *)
        assert (n = lim - p \/ n = fr_total (t_frag st) - fr_index (t_frag st)) as [Hq|Hq] by (unfold n; lia); lia.
  - change c_TLS_HS_HDR_LEN with 4.
    destruct (lim - p <? 4) eqn:E0.
    { do 2 eexists; split; [reflexivity|]. split; [apply inv_tls_finish13 | cbn; lia]. }
    b2p. use_rd b lim p. use_be24 b lim (p + 1).
    cbn [fx_hslen13 all_fixed andb].
    destruct (v0 >? c_hsLenMax) eqn:E1.
    { do 2 eexists; split; [reflexivity|]. split; [apply inv_tls_finish13 | exact I]. }
    b2p.
    destruct (lim - (p + 4) <? v0) eqn:E2.
    + b2p. destruct (first_fragment_ok b lim p (lim - p) (v0 + 4)) as (src & m & Hsrc & Hm & Hlen & Hw); try lia.
      rewrite Hsrc. cbn [bind]. rewrite Hm. cbn [bind].
      do 2 eexists; split; [reflexivity|]. split.
      * unfold inv_tls; cbn [t_frag fr_msg fr_index fr_total]. repeat split; try lia. exact Hw.
      * cbn; lia.
    + b2p. destruct (slice_ok b lim p (v0 + 4)) as [Hs _]; try lia. rewrite Hs. cbn [bind].
      match goal with |- context [dispatch13 ?a ?b ?c ?d ?e] => destruct (dispatch13 a b c d e) as [st' mm] eqn:Ed end.
      apply dispatch13_inv in Ed. destruct Ed as [Hi Hm].
      do 2 eexists; split; [reflexivity|]. split; [exact Hi|].
      destruct mm; cbn [msg13_post]; [contradiction | subst; lia | exact I].
Qed.


(* the loop runs on b[p, lim); the record (with its trailer when it was decrypted) ends at lim + trailer *)
Theorem hs13_loop_ok : forall fuel o st b p0 p lim decrypted trailer,
  inv_tls (t_frag st) -> 0 <= p -> p <= lim -> lim <= lenZ b -> 0 <= trailer -> lim - p < Z.of_nat fuel ->
  exists st' r, hs13_loop fuel all_fixed o st b p0 p lim decrypted trailer = Ok (st', r) /\
                inv_tls (t_frag st') /\ out13_post p lim trailer decrypted r.
Proof.
  induction fuel as [|f IH]; intros o st b p0 p lim decrypted trailer I0 H0 H1 H2 HT HF; [lia|].
  cbn [hs13_loop].
  destruct (p =? lim) eqn:E0.
  { b2p. do 2 eexists; split; [reflexivity|]. split; [exact I0|]. cbn [out13_post].
    repeat split; intros; try congruence; destruct decrypted; lia. }
  b2p. cbn [fx_loop13 all_fixed].
  destruct (parse_msg13_ok o st b p lim I0) as (st' & m & Hm & Hi & Hp); try lia.
  rewrite Hm. cbn [bind].
  destruct m as [p' | rc p' | a p']; cbn [msg13_post] in Hp.
  - do 2 eexists; split; [reflexivity|]. split; [exact Hi|]. cbn [out13_post].
    repeat split; intros; try congruence; destruct decrypted; lia.
  - destruct (rc <? 0) eqn:Er.
    + destruct (rc =? c_SSL_NO_TLS_1_3) eqn:En; do 2 eexists; (split; [reflexivity|]); (split; [exact Hi|]); cbn [out13_post]; auto.
      b2p. repeat split; intros; try reflexivity; exfalso; vm_compute in H; subst; discriminate.
    + destruct (p =? p') eqn:Eq.
      * do 2 eexists; split; [reflexivity|]. split; [exact Hi|]. cbn [out13_post].
        repeat split; intros; try reflexivity; exfalso; vm_compute in H; discriminate.
      * b2p. destruct (IH o st' b p0 p' lim decrypted trailer Hi) as (st2 & r & Hr & Hi2 & Hp2); try lia.
        do 2 eexists; split; [exact Hr|]. split; [exact Hi2|].
        destruct r; cbn [out13_post] in *; auto. destruct Hp2 as (A & B & C). repeat split; auto.
        intros Hs. specialize (A Hs). lia.
  - do 2 eexists; split; [reflexivity|]. split; [exact Hi | exact I].
Qed.

(* the code as found: (1) one stray byte after a complete message spins forever (here: out of any fuel),
   (2) the trailer of an *encrypted* record is skipped in a plaintext record once a message in it turned
   the read keys on: *in lands 17 bytes behind the data *)
Definition o13_accept_all : orc13 := {| o_check := fun _ _ => None; o_parse13 := fun hs _ _ => (0, hs, true) |}.
Definition hs13_fresh : hs13 := {| t_frag := frag_none; t_hs := c_SSL_HS_TLS_1_3_WAIT_SH; t_decrypting := false; t_log := [] |}.
Definition msg_then_stray : bytes := [2; 0; 0; 1; 7; 99]%N.
Definition msg_then_partial : bytes := [2; 0; 0; 1; 7; 2; 0; 0; 9; 1]%N.

Lemma hs13_loop_as_found_spins : forall fuel,
  hs13_loop (S (S fuel)) as_found o13_accept_all hs13_fresh msg_then_stray 0 0 6 false 17 =
  hs13_loop (S fuel) as_found o13_accept_all
    {| t_frag := frag_none; t_hs := c_SSL_HS_TLS_1_3_WAIT_SH; t_decrypting := true; t_log := [(2, [2; 0; 0; 1; 7]%N)] |}
    msg_then_stray 0 5 6 false 17
  /\ forall st, fr_msg (t_frag st) = None ->
     hs13_loop fuel as_found o13_accept_all st msg_then_stray 0 5 6 false 17 = OutOfFuel.
Proof.
  intros fuel. split; [reflexivity|].
  induction fuel as [|f IH]; intros st Hst; [reflexivity|].
  cbn [hs13_loop]. replace (5 =? 6) with false by reflexivity. cbn [fx_loop13 as_found].
  unfold parse_msg13. rewrite Hst. replace (6 - 5 <? c_TLS_HS_HDR_LEN) with true by reflexivity.
  cbn [bind]. replace (0 <? 0) with false by reflexivity. replace (0 =? 5) with false by reflexivity.
  apply IH. unfold finish13. rewrite Hst. exact Hst.
Qed.

Lemma hs13_loop_as_found_overruns :
  exists st, hs13_loop 10 as_found o13_accept_all hs13_fresh msg_then_partial 0 0 10 false 17 = Ok (st, ORet c_MATRIXSSL_SUCCESS 27) /\ 10 < 27.
Proof. eexists; split; [vm_compute; reflexivity | lia]. Qed.

(* ================================================================== (c) DTLS handshake reassembly *)
(* ---- intervals *)

Lemma sum_len_app : forall l1 l2, sum_len (l1 ++ l2) = sum_len l1 + sum_len l2.
Proof.
  induction l1 as [|h l1 IH]; intros l2; [reflexivity|]. cbn [app]. unfold sum_len in *. cbn [fold_right]. rewrite IH. lia.
Qed.

Lemma sum_len_filter : forall f l, sum_len l = sum_len (filter f l) + sum_len (filter (fun h => negb (f h)) l).
Proof.
  induction l as [|h l IH]; [reflexivity|]. cbn [filter]. unfold sum_len in *.
  destruct (f h); cbn [negb fold_right]; lia.
Qed.

Lemma Forall_filter' : forall {A} (P : A -> Prop) f l, Forall P l -> Forall P (filter f l).
Proof. intros A P f l H. apply Forall_forall. intros x Hx. apply filter_In in Hx. eapply Forall_forall in H; [exact H | tauto]. Qed.

Lemma pw_disj_filter : forall f l, pw_disj l -> pw_disj (filter f l).
Proof.
  induction l as [|h l IH]; cbn; [auto|]. intros [H1 H2]. destruct (f h); cbn; [split|]; auto using Forall_filter'.
Qed.

Lemma filter_length_le : forall {A} f (l : list A), (length (filter f l) <= length l)%nat.
Proof. induction l; cbn; [lia|]. destruct (f a); cbn; lia. Qed.

(* disjoint intervals inside [a, b) have total length at most b - a *)
Lemma sum_bound : forall n l a b, (length l <= n)%nat -> Forall (iv_in a b) l -> pw_disj l -> a <= b -> sum_len l <= b - a.
Proof.
  induction n as [|n IH]; intros l a b Hn Hin Hd Hab.
  - destruct l; [cbn; lia | cbn in Hn; lia].
  - destruct l as [|[o len] r]; [cbn; lia|].
    cbn in Hn. inversion Hin as [|? ? Hh Hr]; subst. destruct Hd as [Hd1 Hd2].
    destruct Hh as (Ha & Hl & Hb). cbn [fst snd] in *.
    set (f := fun h : iv => fst h + snd h <=? o).
    assert (Hsplit : sum_len ((o, len) :: r) = len + (sum_len (filter f r) + sum_len (filter (fun h => negb (f h)) r))).
    { rewrite <- (sum_len_filter f r). reflexivity. }
    rewrite Hsplit.
    assert (L : sum_len (filter f r) <= o - a).
    { apply (IH _ a o); try lia.
      - pose proof (filter_length_le f r); lia.
      - apply Forall_forall. intros h Hh. apply filter_In in Hh. destruct Hh as [Hh Hf]. unfold f in Hf. b2p.
        eapply Forall_forall in Hr; [|exact Hh]. destruct Hr as (? & ? & ?). split; [|split]; lia.
      - apply pw_disj_filter; exact Hd2. }
    assert (R : sum_len (filter (fun h => negb (f h)) r) <= b - (o + len)).
    { apply (IH _ (o + len) b); try lia.
      - pose proof (filter_length_le (fun h => negb (f h)) r); lia.
      - apply Forall_forall. intros h Hh. apply filter_In in Hh. destruct Hh as [Hh Hf]. unfold f in Hf. b2p.
        pose proof Hh as Hh'. eapply Forall_forall in Hr; [|exact Hh]. destruct Hr as (? & ? & ?).
        eapply Forall_forall in Hd1; [|exact Hh']. unfold iv_disj in Hd1. cbn [fst snd] in Hd1.
        split; [|split]; lia.
      - apply pw_disj_filter; exact Hd2. }
    lia.
Qed.

(* ... so if the lengths add up to H, every byte of [0, H) is inside one of them *)
Lemma full_cover : forall l H, Forall (iv_in 0 H) l -> pw_disj l -> sum_len l = H -> forall i, 0 <= i < H -> covered l i.
Proof.
  intros l H Hin Hd Hs i Hi.
  (* classical-free: decide coverage by scanning the list *)
  assert (DEC : forall l', (exists h, In h l' /\ fst h <= i < fst h + snd h) \/ Forall (fun h => fst h + snd h <= i \/ i < fst h) l').
  { induction l' as [|h l' IH]; [right; constructor|].
    destruct IH as [(h0 & Hh0 & Hc)|IH]; [left; exists h0; split; [right; exact Hh0 | exact Hc]|].
    destruct (Z_le_dec (fst h) i); [destruct (Z_lt_dec i (fst h + snd h))|].
    - left; exists h; split; [left; reflexivity | lia].
    - right; constructor; [left; lia | exact IH].
    - right; constructor; [right; lia | exact IH]. }
  destruct (DEC l) as [C|NC]; [exact C|]. exfalso.
  set (f := fun h : iv => fst h + snd h <=? i).
  assert (L : sum_len (filter f l) <= i - 0).
  { apply (sum_bound (length l)); try lia.
    - apply filter_length_le.
    - apply Forall_forall. intros h Hh. apply filter_In in Hh. destruct Hh as [Hh Hf]. unfold f in Hf. b2p.
      eapply Forall_forall in Hin; [|exact Hh]. destruct Hin as (? & ? & ?). split; [|split]; lia.
    - apply pw_disj_filter; exact Hd. }
  assert (R : sum_len (filter (fun h => negb (f h)) l) <= H - (i + 1)).
  { apply (sum_bound (length l)); try lia.
    - apply filter_length_le.
    - apply Forall_forall. intros h Hh. apply filter_In in Hh. destruct Hh as [Hh Hf]. unfold f in Hf. b2p.
      pose proof Hh as Hh'. eapply Forall_forall in Hin; [|exact Hh]. destruct Hin as (? & ? & ?).
      eapply Forall_forall in NC; [|exact Hh']. cbn beta in NC. split; [|split]; lia.
    - apply pw_disj_filter; exact Hd. }
  rewrite (sum_len_filter f l) in Hs. lia.
Qed.

Lemma overlaps_false : forall l off len, overlaps l off len = false -> 0 < len -> Forall (fun h => 0 < snd h) l ->
  Forall (fun h => iv_disj h (off, len)) l.
Proof.
  induction l as [|[o k] l IH]; intros off len H Hl Hp; [constructor|].
  cbn [overlaps] in H. b2p. inversion Hp; subst. constructor; [|apply IH; assumption].
  unfold iv_disj; cbn [fst snd] in *. destruct H as [H|H]; b2p; lia.
Qed.

Lemma pw_disj_snoc : forall l h, pw_disj l -> Forall (fun x => iv_disj x h) l -> pw_disj (l ++ [h]).
Proof.
  induction l as [|x l IH]; intros h Hd Hf; cbn; [split; [constructor | exact I]|].
  destruct Hd as [H1 H2]. inversion Hf; subst. split.
  - apply Forall_app; split; [exact H1 | constructor; [assumption | constructor]].
  - apply IH; assumption.
Qed.

Lemma covered_snoc : forall l h i, covered (l ++ [h]) i <-> (covered l i \/ fst h <= i < fst h + snd h).
Proof.
  intros l h i. unfold covered. split.
  - intros (x & Hx & Hc). apply in_app_or in Hx. destruct Hx as [Hx|[<-|[]]]; [left; eauto | right; exact Hc].
  - intros [(x & Hx & Hc)|Hc]; [exists x; split; [apply in_or_app; left; exact Hx | exact Hc]|].
    exists h; split; [apply in_or_app; right; left; reflexivity | exact Hc].
Qed.

(* ---- dtlsHsHashFragMsg terminates and reads only written bytes *)
Definition cnt_ge (next : Z) (l : list iv) : nat := length (filter (fun h => next <=? fst h) l).

Lemma cnt_ge_le : forall next l, (cnt_ge next l <= length l)%nat.
Proof. intros; apply filter_length_le. Qed.

Lemma cnt_ge_drop : forall l o k next, In (o, k) l -> o = next -> 0 < k -> (cnt_ge (next + k) l < cnt_ge next l)%nat.
Proof.
  induction l as [|[a c] l IH]; intros o k next Hin Ho Hk; [contradiction|].
  unfold cnt_ge in *. cbn [filter fst].
  assert (MONO : (length (filter (fun h : iv => (next + k <=? fst h)%Z) l) <= length (filter (fun h : iv => (next <=? fst h)%Z) l))%nat).
  { clear - Hk. induction l as [|[a c] l IH]; cbn [filter fst]; [lia|].
    destruct (next + k <=? a) eqn:E1; destruct (next <=? a) eqn:E2; cbn [length]; b2p; try lia. }
  destruct Hin as [Heq|Hin].
  - inversion Heq; subst. replace (next + k <=? next) with false by (symmetry; apply Z.leb_gt; lia).
    replace (next <=? next) with true by (symmetry; apply Z.leb_le; lia). cbn [length]. lia.
  - specialize (IH o k next Hin Ho Hk).
    destruct (next + k <=? a) eqn:E1; destruct (next <=? a) eqn:E2; cbn [length]; b2p; try lia.
Qed.

Lemma hash_frag_loop_ok : forall fuel hdrs m i next total hl acc,
  (forall o k, In (o, k) hdrs -> 0 < k /\ exists l, slicef m o k = Ok l) ->
  lenZ hdrs <= c_MAX_FRAGMENTS -> 0 <= i <= c_MAX_FRAGMENTS ->
  (17 * Z.of_nat (cnt_ge next hdrs) + (c_MAX_FRAGMENTS - i) < Z.of_nat fuel) ->
  exists r, hash_frag_loop fuel hdrs m i next total hl acc = Ok r.
Proof.
  induction fuel as [|f IH]; intros hdrs m i next total hl acc Hs Hl Hi HF; [lia|].
  cbn [hash_frag_loop]. change c_MAX_FRAGMENTS with 16 in *.
  destruct (i <? 16) eqn:E0; [|eexists; reflexivity]. b2p.
  destruct (nth_error hdrs (Z.to_nat i)) as [[o k]|] eqn:En.
  - destruct (o =? next) eqn:Eo.
    + b2p. apply nth_error_In in En. destruct (Hs o k En) as (Hk & l & Hsl). rewrite Hsl. cbn [bind].
      apply IH; try assumption; try lia.
      pose proof (cnt_ge_drop hdrs o k next En Eo Hk). pose proof (cnt_ge_le next hdrs). unfold lenZ in Hl. lia.
    + destruct (negb (next =? 0) && (next =? total)); [eexists; reflexivity|].
      apply IH; try assumption; lia.
  - destruct (negb (next =? 0) && (next =? total)); [eexists; reflexivity|].
    apply IH; try assumption; lia.
Qed.


Lemma inv_dtls_init : forall fr, fr_index fr = 0 -> inv_dtls (init_frag fr).
Proof. intros fr H. unfold inv_dtls, init_frag; cbn. split; [exact H|]. split; [reflexivity | intros C; contradiction]. Qed.

Lemma inv_dtls_after : forall fr, inv_dtls fr -> inv_dtls (after_hs_record fr).
Proof.
  intros fr H. pose proof H as (Hi & H0 & H1). unfold after_hs_record. destruct (fr_msg fr) eqn:E; [|exact H].
  destruct (fr_index fr =? fr_total fr) eqn:Ec; [|exact H].
  b2p. unfold inv_dtls; cbn. split; [reflexivity|]. split; [intros _; apply H0; lia | intros C; contradiction].
Qed.

Lemma sum_len_pos : forall l, Forall (fun h : iv => 0 < snd h) l -> l <> [] -> 0 < sum_len l.
Proof.
  intros l H Hn. destruct l as [|h l]; [contradiction|]. inversion H; subst.
  assert (G : forall l', Forall (fun h : iv => 0 < snd h) l' -> 0 <= sum_len l').
  { induction l' as [|x l' IH]; intros Hf; [cbn; lia|]. inversion Hf; subst. unfold sum_len in *. cbn [fold_right]. specialize (IH H5). lia. }
  unfold sum_len in *. cbn [fold_right]. specialize (G l H3). lia.
Qed.

(* every stored fragment can be read back: it is inside the allocation and was written *)
Lemma stored_readable : forall m hdrs stored,
  lenZ m = stored ->
  Forall (fun h : iv => 0 <= fst h /\ 0 < snd h /\ fst h + snd h <= stored) hdrs ->
  (forall i, 0 <= i -> (written m i <-> covered hdrs i)) ->
  forall o k, In (o, k) hdrs -> 0 < k /\ exists l, slicef m o k = Ok l.
Proof.
  intros m hdrs stored Hlen Hf Hw o k Hin.
  pose proof Hin as Hin'. eapply Forall_forall in Hf; [|exact Hin]. cbn [fst snd] in Hf. destruct Hf as (H0 & Hk & Hb).
  split; [exact Hk|].
  destruct (slicef_ok m o k) as (l & Hl & _); try lia.
  - intros i Hi. apply Hw; [lia|]. exists (o, k). split; [exact Hin' | cbn [fst snd]; lia].
  - exists l; exact Hl.
Qed.

Lemma run_parser_frag : forall o st t msn hdr body hashed st' rc used,
  run_parser o st t msn hdr body hashed = (st', rc, used) -> g_frag st' = g_frag st.
Proof.
  intros o st t msn hdr body hashed st' rc used H. unfold run_parser in H.
  destruct (d_parse o (g_hs st) t body) as [[rc0 used0] hs']. inversion H; subst. reflexivity.
Qed.

Theorem hs_dtls_loop_ok : forall fuel o st b c lim,
  inv_dtls (g_frag st) -> 0 <= c -> c <= lim -> lim <= lenZ b -> lim - c < Z.of_nat fuel ->
  exists st' out, hs_dtls_loop fuel all_fixed o st b c lim = Ok (st', out) /\ inv_dtls (g_frag st').
Proof.
  induction fuel as [|f IH]; intros o st b c lim I0 H0 H1 H2 HF; [lia|].
  cbn [hs_dtls_loop].
  destruct (lim - c <? 1) eqn:E0; [do 2 eexists; split; [reflexivity | exact I0]|]. b2p.
  use_rd b lim c.
  destruct (lim - (c + 1) <? 5) eqn:E1; [do 2 eexists; split; [reflexivity | exact I0]|]. b2p.
  use_be16 b lim (c + 1 + 3).
  destruct (v0 >? g_last_msn st + 1); [do 2 eexists; split; [reflexivity | exact I0]|].
  destruct (negb (v0 =? 0) && (g_last_msn st >=? v0)); [do 2 eexists; split; [reflexivity | exact I0]|].
  destruct (d_gate o (g_hs st) (g_last_msn st) v v0); try (do 2 eexists; split; [reflexivity | exact I0]).
  destruct (lim - (c + 1) <? 3) eqn:E2; [do 2 eexists; split; [reflexivity | exact I0]|].
  use_be24 b lim (c + 1).
  destruct (v1 >? hs_len_max (g_hs st)) eqn:E3; [do 2 eexists; split; [reflexivity | exact I0]|].
  b2p. pose proof (hs_len_max_le (g_hs st)) as Hmax.
  destruct (lim - (c + 1 + 3) <? 8) eqn:E4; [do 2 eexists; split; [reflexivity | exact I0]|]. b2p.
  use_be24 b lim (c + 1 + 3 + 2). use_be24 b lim (c + 1 + 3 + 5).
  cbn [fx_fraglen fx_reasm all_fixed andb].
  set (c3 := c + 1 + 3 + 8) in *.
  destruct (lim - c3 <? v3) eqn:E5; [do 2 eexists; split; [reflexivity | exact I0]|]. b2p.
  destruct (slice_ok b lim (c3 - 12) 12) as [Hhdr _]; try lia. rewrite Hhdr. cbn [bind].
  set (hdr := sub_list b (c3 - 12) 12).
  (* the continuation once a complete message is at hand *)
  assert (WHOLE : forall st1 hashed body inrec, inv_dtls (g_frag st1) ->
    exists st' out,
      (let '(st', rc, used) := run_parser o st1 v v0 hdr body hashed in
       if rc <? 0 then Ok (st', HsRet rc)
       else if inrec : bool then
         let c' := c3 + Z.max 0 (Z.min used v1) in
         if c' <? lim then hs_dtls_loop f all_fixed o st' b c' lim else Ok (st', HsRet rc)
       else Ok (st', HsRet rc)) = Ok (st', out) /\ inv_dtls (g_frag st')).
  { intros st1 hashed body inrec I1.
    destruct (run_parser o st1 v v0 hdr body hashed) as [[st' rc] used] eqn:Er.
    pose proof (run_parser_frag _ _ _ _ _ _ _ _ _ _ Er) as Hfr.
    assert (I' : inv_dtls (g_frag st')) by (rewrite Hfr; exact I1).
    destruct (rc <? 0); [do 2 eexists; split; [reflexivity | exact I']|].
    destruct inrec; [|do 2 eexists; split; [reflexivity | exact I']].
    cbv zeta. destruct (c3 + Z.max 0 (Z.min used v1) <? lim) eqn:Ec; [|do 2 eexists; split; [reflexivity | exact I']].
    b2p. apply IH; try assumption; unfold c3 in *; lia. }
  cbv zeta.
  destruct (negb (v3 =? v1)) eqn:E6.
  - (* a fragment *)
    b2p. destruct I0 as (Iidx & Iz & Inz).
    set (fr := g_frag st) in *.
    set (fr1 := if fr_total fr =? 0
                then {| fr_msg := Some (falloc v1); fr_index := fr_index fr; fr_total := 0; fr_stored := v1; fr_msn := v0; fr_hdrs := fr_hdrs fr |}
                else fr).
    (* facts about fr1 that hold in both cases *)
    assert (F1 : fr_index fr1 = 0 /\ fr_total fr1 = fr_total fr /\ fr_hdrs fr1 = fr_hdrs fr /\
                 exists m, fr_msg fr1 = Some m /\ lenZ m = fr_stored fr1 /\ fr_stored fr1 <= c_hsLenMax /\
                   Forall (fun h => 0 <= fst h /\ 0 < snd h /\ fst h + snd h <= fr_stored fr1) (fr_hdrs fr1) /\
                   pw_disj (fr_hdrs fr1) /\ fr_total fr1 = sum_len (fr_hdrs fr1) /\ lenZ (fr_hdrs fr1) <= c_MAX_FRAGMENTS /\
                   (forall i, 0 <= i -> (written m i <-> covered (fr_hdrs fr1) i))).
    { unfold fr1. destruct (fr_total fr =? 0) eqn:Et; b2p.
      - cbn [fr_index fr_total fr_hdrs fr_msg fr_stored]. split; [exact Iidx|]. split; [lia|]. split; [reflexivity|].
        exists (falloc v1). rewrite (Iz Et).
        split; [reflexivity|]. split; [apply falloc_length; lia|]. split; [lia|]. split; [constructor|].
        split; [exact I|]. split; [reflexivity|]. split; [vm_compute; congruence|].
        intros i Hi; split.
        + intros Hw; exfalso; eapply falloc_unwritten; exact Hw.
        + intros (h & Hin & _); contradiction.
      - split; [exact Iidx|]. split; [reflexivity|]. split; [reflexivity|]. exact (Inz Et). }
    destruct F1 as (F1i & F1t & F1h & m & F1m & F1len & F1max & F1f & F1d & F1s & F1n & F1w).
    assert (I1 : inv_dtls fr1).
    { split; [exact F1i|]. split.
      - intros Ht. rewrite F1h. apply Iz. lia.
      - intros Ht. exists m. split; [exact F1m|]. split; [exact F1len|]. split; [exact F1max|]. split; [exact F1f|].
        split; [exact F1d|]. split; [exact F1s|]. split; [exact F1n | exact F1w]. }
    destruct (negb (fr_msn fr1 =? v0) || (negb (fr_stored fr1 =? v1) || (v3 =? 0))) eqn:E7;
      [do 2 eexists; split; [reflexivity | exact I1]|].
    b2p.
    destruct (seen_frag (fr_hdrs fr1) v2); [do 2 eexists; split; [reflexivity | exact I1]|].
    destruct (lenZ (fr_hdrs fr1) >=? c_MAX_FRAGMENTS) eqn:E8.
    { do 2 eexists; split; [reflexivity|]. cbn [g_frag put_frag]. unfold inv_dtls; cbn. split; [exact F1i|]. split; [reflexivity | intros C; contradiction]. }
    b2p.
    destruct ((v2 + v3 >? v1) || (v2 + v3 >? fr_stored fr1)) eqn:E9; [do 2 eexists; split; [reflexivity | exact I1]|].
    b2p.
    destruct (overlaps (fr_hdrs fr1) v2 v3) eqn:E10; [do 2 eexists; split; [reflexivity | exact I1]|].
    rewrite F1m.
    destruct (slice_ok b lim c3 v3) as [Hsrc Hsl]; try lia. rewrite Hsrc. cbn [bind].
    destruct (memcpy_to_ok m v2 (sub_list b c3 v3)) as (m' & Hm' & Hlen' & Hw'); try lia.
    rewrite Hm'. cbn [bind].
    (* the invariant of the updated state *)
    set (hdrs' := fr_hdrs fr1 ++ [(v2, v3)]).
    assert (N1 : Forall (fun h : iv => 0 <= fst h /\ 0 < snd h /\ fst h + snd h <= fr_stored fr1) hdrs').
    { apply Forall_app; split; [exact F1f|]. constructor; [cbn [fst snd]; lia | constructor]. }
    assert (N2 : pw_disj hdrs').
    { apply pw_disj_snoc; [exact F1d|]. apply overlaps_false; [exact E10 | lia |].
      eapply Forall_impl; [|exact F1f]. cbn beta. intros; tauto. }
    assert (N3 : fr_total fr1 + v3 = sum_len hdrs').
    { unfold hdrs'. rewrite sum_len_app. cbn [sum_len fold_right snd]. lia. }
    assert (N4 : forall i, 0 <= i -> (written m' i <-> covered hdrs' i)).
    { intros i Hi. rewrite (Hw' i Hi). unfold hdrs'. rewrite covered_snoc. cbn [fst snd]. rewrite (F1w i Hi). rewrite Hsl. tauto. }
    assert (N5 : lenZ hdrs' <= c_MAX_FRAGMENTS).
    { unfold hdrs', lenZ in *. rewrite app_length. cbn [length]. lia. }
    assert (N6 : fr_total fr1 + v3 <> 0).
    { rewrite N3. assert (0 < sum_len hdrs'); [|lia]. apply sum_len_pos.
      - eapply Forall_impl; [|exact N1]. cbn beta. intros; tauto.
      - unfold hdrs'. destruct (fr_hdrs fr1); discriminate. }
    destruct (negb (fr_total fr1 + v3 =? v1)) eqn:E11.
    + do 2 eexists; split; [reflexivity|]. cbn [g_frag put_frag].
      split; [exact F1i|]. cbn [fr_total fr_hdrs fr_msg fr_stored]. split; [intros; contradiction|].
      intros _. exists m'. split; [reflexivity|]. split; [lia|]. split; [exact F1max|]. split; [exact N1|].
      split; [exact N2|]. split; [exact N3|]. split; [exact N5 | exact N4].
    + b2p.
      (* complete: every byte of [0, hsLen) was written by some fragment *)
      assert (COV : forall i, 0 <= i < v1 -> written m' i).
      { intros i Hi. apply N4; [lia|]. apply (full_cover hdrs' v1); try assumption; try lia.
        eapply Forall_impl; [|exact N1]. cbn beta. unfold iv_in. intros; lia. }
      destruct (hash_frag_loop_ok hash_frag_fuel hdrs' m' 0 0 0 v1 []) as (chunks & Hch).
      { apply (stored_readable m' hdrs' (fr_stored fr1)); try assumption. lia. }
      { exact N5. }
      { change c_MAX_FRAGMENTS with 16; lia. }
      { pose proof (cnt_ge_le 0 hdrs'). unfold lenZ in N5. change c_MAX_FRAGMENTS with 16 in *.
        unfold hash_frag_fuel. lia. }
      rewrite Hch. cbn [bind].
      destruct (slicef_ok m' 0 v1) as (body & Hbody & _); try lia.
      { intros i Hi. apply COV. lia. }
      rewrite Hbody. cbn [bind].
      refine (WHOLE (put_frag st (init_frag _)) (Some chunks) body false _).
      cbn [g_frag put_frag]. apply inv_dtls_init. exact F1i.
  - b2p. replace (lim - c3 <? v1) with false by (symmetry; apply Z.ltb_ge; lia).
    destruct (slice_ok b lim c3 v1) as [Hbody _]; try lia. rewrite Hbody. cbn [bind].
    destruct (fr_total (g_frag st) >? 0) eqn:E7; [|exact (WHOLE st None _ true I0)].
    b2p. destruct I0 as (Iidx & Iz & Inz).
    destruct Inz as (m & Im & Ilen & Imax & If & Id & Is & In_ & Iw); [lia|].
    rewrite Im.
    destruct (hash_frag_loop_ok hash_frag_fuel (fr_hdrs (g_frag st)) m 0 0 0 (fr_stored (g_frag st)) []) as (chunks & Hch).
    { apply (stored_readable m _ (fr_stored (g_frag st))); assumption. }
    { exact In_. }
    { change c_MAX_FRAGMENTS with 16; lia. }
    { pose proof (cnt_ge_le 0 (fr_hdrs (g_frag st))). unfold lenZ in In_. change c_MAX_FRAGMENTS with 16 in *.
      unfold hash_frag_fuel. lia. }
    rewrite Hch. cbn [bind].
    refine (WHOLE (put_frag st (init_frag (g_frag st))) (Some chunks) _ true _).
    cbn [g_frag put_frag]. apply inv_dtls_init. exact Iidx.
Qed.

Theorem hs_record_dtls_ok : forall o st b lim,
  inv_dtls (g_frag st) -> 0 <= lim -> lim <= lenZ b ->
  exists st' out, hs_record_dtls (S (Z.to_nat lim)) all_fixed o st b lim = Ok (st', out) /\ inv_dtls (g_frag st').
Proof.
  intros o st b lim I0 H0 H1. unfold hs_record_dtls.
  destruct (hs_dtls_loop_ok (S (Z.to_nat lim)) o st b 0 lim I0) as (st' & out & Hr & Hi); try lia.
  rewrite Hr. cbn [bind]. do 2 eexists; split; [reflexivity|]. cbn [g_frag put_frag]. apply inv_dtls_after; exact Hi.
Qed.

(* what "complete" means, stated on its own: when the fragments' lengths add up to the message length and
   they do not overlap, every byte of the message was written by one of them *)
Theorem reassembly_complete : forall m hdrs H,
  Forall (fun h : iv => 0 <= fst h /\ 0 < snd h /\ fst h + snd h <= H) hdrs -> pw_disj hdrs ->
  (forall i, 0 <= i -> (written m i <-> covered hdrs i)) -> sum_len hdrs = H -> lenZ m = H ->
  exists body, slicef m 0 H = Ok body /\ lenZ body = H.
Proof.
  intros m hdrs H Hf Hd Hw Hs Hl.
  assert (0 <= H).
  { rewrite <- Hs. clear - Hf. induction hdrs as [|x l IH]; [cbn; lia|]. inversion Hf; subst. unfold sum_len in *. cbn [fold_right]. specialize (IH H3). lia. }
  apply slicef_ok; try lia.
  intros i Hi. apply Hw; [lia|]. apply (full_cover hdrs H); try assumption; try lia.
  eapply Forall_impl; [|exact Hf]. cbn beta. unfold iv_in. intros; lia.
Qed.

(* ---- the code as found *)
Definition od_accept_all : orcd := {| d_gate := fun _ _ _ _ => GProceed; d_parse := fun hs _ _ => (0, 0, hs) |}.
Definition hsd_fresh : hsd := {| g_frag := frag_none; g_hs := c_SSL_HS_SERVER_HELLO; g_last_msn := -1; g_log := []; g_hashed := [] |}.
Lemma hsd_fresh_inv : inv_dtls (g_frag hsd_fresh).
Proof. split; [reflexivity|]. split; [reflexivity | intros C; exfalso; apply C; reflexivity]. Qed.

(* (1) fragment_length = 59000 with 10 bytes in the record: the Memcpy source runs past `end` *)
Definition fraglen_witness : bytes := [2; 0; 234; 96; 0; 0; 0; 0; 0; 0; 230; 120; 0; 17; 34; 51; 68; 85; 102; 119; 136; 153]%N.
Lemma dtls_as_found_fraglen_faults : hs_record_dtls 30 as_found od_accept_all hsd_fresh fraglen_witness 22 = Fault.
Proof. vm_compute. reflexivity. Qed.
Lemma dtls_fixed_fraglen_rejected :
  hs_record_dtls 30 all_fixed od_accept_all hsd_fresh fraglen_witness 22 = Ok (hsd_fresh, HsErr c_SSL_ALERT_DECODE_ERROR).
Proof. vm_compute. reflexivity. Qed.

(* (2) fragments (0,10) and (5,5) of a 15-byte message: fragTotal reaches 15 with bytes 10..14 never written;
       handing the message to the hash / parser reads them *)
Definition ovl_a : bytes := [2; 0; 0; 15; 0; 0; 0; 0; 0; 0; 0; 10; 1; 2; 3; 4; 5; 6; 7; 8; 9; 10]%N.
Definition ovl_b : bytes := [2; 0; 0; 15; 0; 0; 0; 0; 5; 0; 0; 5; 6; 7; 8; 9; 10]%N.
Definition st_of (r : res (hsd * hs_out)) : hsd := match r with Ok (s, _) => s | _ => hsd_fresh end.
Definition ovl_st1 : hsd := Eval vm_compute in st_of (hs_record_dtls 30 as_found od_accept_all hsd_fresh ovl_a 22).
Lemma dtls_as_found_overlap_reads_unwritten :
  hs_record_dtls 30 as_found od_accept_all hsd_fresh ovl_a 22 = Ok (ovl_st1, HsRet c_MATRIXSSL_SUCCESS) /\
  hs_record_dtls 30 as_found od_accept_all ovl_st1 ovl_b 17 = Fault.
Proof. split; vm_compute; reflexivity. Qed.
Definition ovl_fx1 : hsd := Eval vm_compute in st_of (hs_record_dtls 30 all_fixed od_accept_all hsd_fresh ovl_a 22).
Definition ovl_fx2 : hsd := Eval vm_compute in st_of (hs_record_dtls 30 all_fixed od_accept_all ovl_fx1 ovl_b 17).
Lemma dtls_fixed_overlap_ignored :
  hs_record_dtls 30 all_fixed od_accept_all hsd_fresh ovl_a 22 = Ok (ovl_fx1, HsRet c_MATRIXSSL_SUCCESS) /\
  hs_record_dtls 30 all_fixed od_accept_all ovl_fx1 ovl_b 17 = Ok (ovl_fx2, HsRet c_MATRIXSSL_SUCCESS) /\
  fr_total (g_frag ovl_fx2) = 10 /\ g_log ovl_fx2 = [].
Proof. repeat split; vm_compute; reflexivity. Qed.

(* (3) fragments (0,5), (5,0), (1,5) of a 10-byte message: dtlsHsHashFragMsg finds the empty fragment at
       nextOffset = 5 again and again *)
Definition zero_hdrs : list (Z * Z) := [(0, 5); (5, 0); (1, 5)].
Lemma hash_loop_as_found_spins : forall m, 5 <= lenZ m -> forall fuel acc,
  hash_frag_loop fuel zero_hdrs m 0 5 10 10 acc = OutOfFuel /\ hash_frag_loop fuel zero_hdrs m 1 5 10 10 acc = OutOfFuel.
Proof.
  intros m Hm. induction fuel as [|f IH]; intros acc; [split; reflexivity|].
  assert (S0 : slicef m 5 0 = Ok []).
  { unfold slicef. replace (5 + 0 <=? lenZ m) with true by (symmetry; apply Z.leb_le; lia). reflexivity. }
  split; cbn [hash_frag_loop]; change c_MAX_FRAGMENTS with 16.
  - change (0 <? 16) with true. change (nth_error zero_hdrs (Z.to_nat 0)) with (Some (0, 5)).
    change (0 =? 5) with false. change (negb (5 =? 0) && (5 =? 10)) with false. cbv iota beta. change (0 + 1) with 1. apply IH.
  - change (1 <? 16) with true. change (nth_error zero_hdrs (Z.to_nat 1)) with (Some (5, 0)).
    change (5 =? 5) with true. cbv iota beta. rewrite S0. cbn [bind]. change (5 + 0) with 5.
    change (5 =? 0) with false. cbv iota. apply IH.
Qed.
Definition zero_a : bytes := [2; 0; 0; 10; 0; 0; 0; 0; 0; 0; 0; 5; 1; 2; 3; 4; 5]%N.
Definition zero_b : bytes := [2; 0; 0; 10; 0; 0; 0; 0; 5; 0; 0; 0]%N.
Definition zero_c : bytes := [2; 0; 0; 10; 0; 0; 0; 0; 1; 0; 0; 5; 2; 3; 4; 5; 6]%N.
Definition zero_st1 : hsd := Eval vm_compute in st_of (hs_record_dtls 30 as_found od_accept_all hsd_fresh zero_a 17).
Definition zero_st2 : hsd := Eval vm_compute in st_of (hs_record_dtls 30 as_found od_accept_all zero_st1 zero_b 12).
Lemma dtls_as_found_zero_fragment_hangs :
  hs_record_dtls 30 as_found od_accept_all hsd_fresh zero_a 17 = Ok (zero_st1, HsRet c_MATRIXSSL_SUCCESS) /\
  hs_record_dtls 30 as_found od_accept_all zero_st1 zero_b 12 = Ok (zero_st2, HsRet c_MATRIXSSL_SUCCESS) /\
  fr_hdrs (g_frag zero_st2) ++ [(1, 5)] = zero_hdrs /\
  hs_record_dtls 30 as_found od_accept_all zero_st2 zero_c 17 = OutOfFuel.
Proof. repeat split; vm_compute; reflexivity. Qed.






Lemma set_in_ok : forall a inlen insize, abuf_ok a -> 0 <= inlen -> inlen <= insize -> insize <= MAXB -> abuf_ok (set_in a inlen insize).
Proof. intros a i s (A & B & C & D & E & F & G) H1 H2 H3. unfold abuf_ok, set_in; cbn. repeat split; lia. Qed.

Lemma revert_in_ok : forall r a, abuf_ok a -> abuf_ok (revert_in r a) /\ a_inlen (revert_in r a) = a_inlen a /\
                                 a_insize (revert_in r a) <= a_insize a.
Proof.
  intros r a H. unfold revert_in.
  destruct ((a_insize a >? a_default a) && (a_inlen a <? a_default a) && r) eqn:E; [|split; [exact H | split; [reflexivity | lia]]].
  b2p. pose proof H as (A & B & C & D & E' & F & G). split; [|cbn; split; [reflexivity | lia]].
  apply set_in_ok; try assumption; lia.
Qed.

Lemma doc_small : forall rc, c_MATRIXSSL_SUCCESS <= rc <= c_MATRIXSSL_APP_DATA_COMPRESSED -> doc_rc rc.
Proof. intros; left; assumption. Qed.
Ltac doc_pos := apply doc_small; vm_compute; split; congruence.
Ltac doc_named := right; unfold doc_neg; tauto.
Ltac no_pd := let HH := fresh "HH" in intros [HH|HH]; vm_compute in HH; discriminate.


Lemma pd_ok_trivial : forall a, a_inlen a = 0 -> pd_ok a.
Proof. intros a H C. lia. Qed.

Theorem recv_loop_ok : forall fuel dec rok k a,
  (forall k a, abuf_ok a -> dec_contract a (dec k a 0)) ->
  abuf_ok a -> a_inlen a + (MAXB - a_insize a) < Z.of_nat fuel ->
  exists r, recv_loop fuel dec rok k a 0 = Ok r /\ ret_post r.
Proof.
  induction fuel as [|f IH]; intros dec rok k a HC Ha HF; [pose proof Ha as (A & B & C & _); lia|].
  pose proof Ha as (A & B & C & D & E & F & G).
  pose proof (HC k a Ha) as (C1 & C2 & C3 & C4).
  cbn [recv_loop]. set (d := dec k a 0) in *.
  assert (FIN : forall rcv a' p, abuf_ok a' -> doc_rc rcv -> rcv <> c_MATRIXSSL_APP_DATA -> rcv <> c_MATRIXSSL_RECEIVED_ALERT ->
            exists r, Ok (ARet rcv (if p : bool then a' else revert_in (rok k) a')) = Ok r /\ ret_post r).
  { intros rcv a' p Ha' Hd N1 N2. eexists; split; [reflexivity|]. cbn [ret_post].
    split; [destruct p; [exact Ha' | apply revert_in_ok; exact Ha']|]. split; [exact Hd|]. intros [?|?]; contradiction. }
  destruct ((dr_rc d =? c_MATRIXSSL_SUCCESS) || (a_dtls a && (dr_rc d =? c_DTLS_RETRANSMIT))) eqn:R1.
  { assert (Hm : 0 <= dr_moved d <= a_inlen a /\ (dr_moved d < a_inlen a -> 1 <= dr_moved d)).
    { apply C1. b2p. destruct R1 as [R1|R1]; b2p; auto. }
    destruct Hm as (M1 & M2).
    assert (Ha1 : abuf_ok (set_in a (a_inlen a - dr_moved d) (a_insize a))) by (apply set_in_ok; try assumption; lia).
    destruct (a_inlen a - dr_moved d >? 0) eqn:R2.
    - b2p. unfold move_in.
      replace ((0 <=? a_inlen a - dr_moved d) && (0 <=? 0) && (0 <=? 0 + dr_moved d) &&
               (0 + (a_inlen a - dr_moved d) <=? a_insize a) && (0 + dr_moved d + (a_inlen a - dr_moved d) <=? a_insize a)) with true.
      2:{ symmetry. repeat (apply andb_true_iff; split); apply Z.leb_le; lia. }
      cbn [bind]. apply IH; [exact HC | exact Ha1|]. cbn [set_in a_inlen a_insize]. lia.
    - destruct (dr_rc d =? c_DTLS_RETRANSMIT).
      { eexists; split; [reflexivity|]. cbn [ret_post]. split; [exact Ha1|]. split; [doc_pos|]. no_pd. }
      destruct (negb (a_hs_complete_flag a)).
      { destruct (dr_done d).
        - apply (FIN _ _ false); [| doc_pos | vm_compute; discriminate | vm_compute; discriminate].
          unfold abuf_ok; cbn. b2p. repeat split; lia.
        - apply (FIN _ _ false); [exact Ha1 | doc_pos | vm_compute; discriminate | vm_compute; discriminate]. }
      destruct (a_tls13 a).
      + destruct (dr_done d); (apply (FIN _ _ false); [exact Ha1 | | vm_compute; discriminate | vm_compute; discriminate]); [doc_pos | doc_named].
      + apply (FIN _ _ false); [exact Ha1 | doc_pos | vm_compute; discriminate | vm_compute; discriminate]. }
  destruct (dr_rc d =? c_SSL_SEND_RESPONSE) eqn:R3.
  { b2p. destruct (C2 R3) as (M1 & M2 & M3).
    destruct (a_false_start a && negb (dr_moved d =? 0)).
    - unfold move_in.
      replace ((0 <=? a_inlen a - dr_moved d) && (0 <=? 0) && (0 <=? 0 + dr_moved d) &&
               (0 + (a_inlen a - dr_moved d) <=? a_insize a) && (0 + dr_moved d + (a_inlen a - dr_moved d) <=? a_insize a)) with true.
      2:{ symmetry. repeat (apply andb_true_iff; split); apply Z.leb_le; lia. }
      cbn [bind]. eexists; split; [reflexivity|]. cbn [ret_post].
      split; [apply set_in_ok; try assumption; lia|]. split; [doc_pos|]. no_pd.
    - destruct (a_outlen a >? 0) eqn:R4.
      + b2p. specialize (M3 ltac:(lia)).
        destruct ((a_outlen a + dr_len d >? a_outsize a) && negb (rok k)) eqn:R5.
        { eexists; split; [reflexivity|]. cbn [ret_post]. split; [apply set_in_ok; try assumption; lia|]. split; [doc_named|].
          no_pd. }
        set (outsize := if a_outlen a + dr_len d >? a_outsize a then a_outlen a + dr_len d else a_outsize a).
        assert (Ho : a_outlen a + dr_len d <= outsize /\ outsize <= MAXB /\ a_outsize a <= outsize).
        { unfold outsize. destruct (a_outlen a + dr_len d >? a_outsize a) eqn:R6; b2p; lia. }
        unfold move_in.
        replace ((0 <=? dr_len d) && (0 <=? 0) && (0 <=? 0) && (0 + dr_len d <=? a_insize a) && (0 + dr_len d <=? a_insize a)) with true.
        2:{ symmetry. repeat (apply andb_true_iff; split); apply Z.leb_le; lia. }
        cbn [bind].
        replace ((0 <=? dr_len d) && (0 <=? a_outlen a) && (0 <=? a_outlen a) && (a_outlen a + dr_len d <=? outsize) &&
                 (a_outlen a + dr_len d <=? outsize)) with true.
        2:{ symmetry. repeat (apply andb_true_iff; split); apply Z.leb_le; lia. }
        cbn [bind]. apply (FIN _ _ false); [| doc_pos | vm_compute; discriminate | vm_compute; discriminate].
        unfold abuf_ok; cbn. repeat split; lia.
      + b2p. apply (FIN _ _ false); [| doc_pos | vm_compute; discriminate | vm_compute; discriminate].
        unfold abuf_ok; cbn. repeat split; lia. }
  destruct (dr_rc d =? c_MATRIXSSL_ERROR) eqn:R6.
  { b2p. eexists; split; [reflexivity|]. cbn [ret_post]. split; [exact Ha|]. split; [right; apply C4; exact R6|].
    pose proof (C4 R6) as Hn. intros [HH|HH]; rewrite HH in Hn; unfold doc_neg in Hn; vm_compute in Hn;
      repeat (destruct Hn as [Hn|Hn]; [discriminate|]); discriminate. }
  destruct (dr_rc d =? c_SSL_ALERT) eqn:R7.
  { b2p. destruct (C3 (or_introl R7)) as (M1 & M2).
    eexists; split; [reflexivity|]. cbn [ret_post]. split; [unfold abuf_ok; cbn; repeat split; lia|].
    split; [doc_pos|]. intros _. unfold pd_ok; cbn. intros; lia. }
  destruct (dr_rc d =? c_SSL_PARTIAL) eqn:R8.
  { destruct (dr_req d >? c_SSL_MAX_BUF_SIZE) eqn:R9.
    { eexists; split; [reflexivity|]. cbn [ret_post]. split; [exact Ha|]. split; [doc_named|]. no_pd. }
    b2p. destruct (dr_req d >? a_insize a) eqn:R10.
    - destruct (rok k).
      + b2p. apply (FIN _ _ true); [apply set_in_ok; try assumption; unfold MAXB; lia | doc_pos | vm_compute; discriminate | vm_compute; discriminate].
      + eexists; split; [reflexivity|]. cbn [ret_post]. split; [exact Ha|]. split; [doc_named|]. no_pd.
    - apply (FIN _ _ true); [exact Ha | doc_pos | vm_compute; discriminate | vm_compute; discriminate]. }
  destruct (dr_rc d =? c_SSL_FULL) eqn:R11.
  { destruct (dr_req d >? c_SSL_MAX_BUF_SIZE) eqn:R9.
    { eexists; split; [reflexivity|]. cbn [ret_post]. split; [exact Ha|]. split; [doc_named|]. no_pd. }
    b2p. destruct (dr_req d >? a_insize a) eqn:R10.
    - b2p. destruct (rok k).
      + apply IH; [exact HC | apply set_in_ok; try assumption; unfold MAXB; lia|]. cbn [set_in a_inlen a_insize]. unfold MAXB in *. lia.
      + eexists; split; [reflexivity|]. cbn [ret_post]. split; [apply set_in_ok; try assumption; lia|]. split; [doc_named|].
        no_pd.
    - eexists; split; [reflexivity|]. cbn [ret_post]. split; [apply set_in_ok; try assumption; lia|]. split; [doc_named|].
      no_pd. }
  destruct (dr_rc d =? c_SSL_PROCESS_DATA) eqn:R12.
  { b2p. destruct (C3 (or_intror R12)) as (M1 & M2).
    eexists; split; [reflexivity|]. cbn [ret_post]. split; [unfold abuf_ok; cbn; repeat split; lia|].
    split; [doc_pos|]. intros _. unfold pd_ok; cbn. intros; lia. }
  apply (FIN _ _ false); [exact Ha | doc_named | vm_compute; discriminate | vm_compute; discriminate].
Qed.

Theorem received_data_ok : forall dec rok k a n,
  (forall k a, abuf_ok a -> dec_contract a (dec k a 0)) ->
  abuf_ok a -> 0 <= n <= snd (get_readbuf a) ->
  exists r, received_data dec rok k a n = Ok r /\ ret_post r.
Proof.
  intros dec rok k a n HC Ha Hn. pose proof Ha as (A & B & C & D & E & F & G).
  unfold received_data, app_write, get_readbuf in *. cbn [snd] in Hn.
  replace ((0 <=? n) && (n <=? a_insize a - a_inlen a)) with true by (symmetry; apply andb_true_iff; split; apply Z.leb_le; lia).
  unfold move_in.
  replace ((0 <=? n) && (0 <=? a_inlen a) && (0 <=? a_inlen a) && (a_inlen a + n <=? a_insize a) && (a_inlen a + n <=? a_insize a)) with true.
  2:{ symmetry. repeat (apply andb_true_iff; split); apply Z.leb_le; lia. }
  cbn [bind].
  assert (Ha1 : abuf_ok (set_in a (a_inlen a + n) (a_insize a))) by (apply set_in_ok; try assumption; lia).
  destruct (a_inlen (set_in a (a_inlen a + n) (a_insize a)) =? 0) eqn:E0.
  - b2p. eexists; split; [reflexivity|]. cbn [ret_post]. split; [exact Ha1|]. split; [doc_pos | no_pd].
  - apply recv_loop_ok; [exact HC | exact Ha1|]. unfold recv_fuel. cbn [set_in a_inlen a_insize]. fold MAXB. lia.
Qed.

Theorem processed_data_ok : forall dec rok k a hs_done,
  (forall k a, abuf_ok a -> dec_contract a (dec k a 0)) ->
  abuf_ok a -> pd_ok a ->
  exists r, processed_data dec rok k a hs_done = Ok r /\ ret_post r.
Proof.
  intros dec rok k a hs_done HC Ha Hp. pose proof Ha as (A & B & C & D & E & F & G).
  unfold processed_data.
  assert (MV : (if a_inlen a >? 0 then move_in (a_insize a) 0 (a_ctlen a) (a_inlen a) else Ok tt) = Ok tt).
  { destruct (a_inlen a >? 0) eqn:E0; [|reflexivity]. b2p. destruct (Hp ltac:(lia)) as (P1 & P2). unfold move_in.
    replace ((0 <=? a_inlen a) && (0 <=? 0) && (0 <=? a_ctlen a) && (0 + a_inlen a <=? a_insize a) && (a_ctlen a + a_inlen a <=? a_insize a)) with true; [reflexivity|].
    symmetry. repeat (apply andb_true_iff; split); apply Z.leb_le; lia. }
  rewrite MV. cbn [bind].
  destruct (revert_in_ok (rok k) a Ha) as (Hr & Hrl & Hrs).
  destruct (a_inlen (revert_in (rok k) a) >? 0) eqn:E1.
  - apply recv_loop_ok; [exact HC | exact Hr|]. unfold recv_fuel. fold MAXB. pose proof Hr as (? & ? & ? & _). lia.
  - destruct (a_outlen (revert_in (rok k) a) >? 0); [|destruct (negb hs_done)];
      (eexists; split; [reflexivity|]); cbn [ret_post]; (split; [exact Hr|]); (split; [doc_pos | no_pd]).
Qed.

(* ================================================================== (e) CBC pad / MAC layout *)
Theorem cbc_layout_in_range : forall rec_len mac_size block_size pad_len eiv ssl3 pe,
  0 <= mac_size -> 0 < block_size -> 0 <= pad_len <= 255 ->
  let l := cbc_mac_layout rec_len mac_size block_size pad_len eiv ssl3 pe in
  cl_sane l = true ->
  0 <= cl_data_off l /\ cl_data_off l <= cl_mac_off l /\ cl_mac_off l + mac_size <= rec_len /\
  cl_data_len l = cl_mac_off l - cl_data_off l /\
  (cl_mac_error l = false -> 0 <= cl_pad_lo l /\ cl_mac_off l + mac_size = cl_pad_lo l /\ cl_pad_lo l + pad_len + 1 = rec_len).
Proof.
  intros rec_len mac_size block_size pad_len eiv ssl3 pe Hm Hb Hp. unfold cbc_mac_layout.
  destruct eiv; destruct (rec_len <? _) eqn:E0; cbn [cl_sane]; try discriminate; intros _; b2p;
    cbn [cl_data_off cl_mac_off cl_data_len cl_mac_error cl_pad_lo];
    match goal with |- context [if ?c then _ else _] => destruct c eqn:E1 end; b2p;
    repeat split; try lia; try discriminate;
    try (destruct E1 as [E1|E1]; b2p; lia).
Qed.


(* the code as found: whatever length a TLS 1.3 handshake header announces (up to 2^24 - 1, i.e. 16 MB) is allocated *)
Lemma parse_msg13_as_found_unbounded : forall o st b lim t hl,
  fr_msg (t_frag st) = None -> 4 <= lim -> lim <= lenZ b -> rd b lim 0 = Ok t -> be24 b lim 1 = Ok hl -> lim - 4 < hl ->
  exists st', parse_msg13 as_found o st b 0 lim = Ok (st', MPartial lim) /\ fr_total (t_frag st') = hl + 4.
Proof.
  intros o st b lim t hl Hn H4 Hl Ht Hh Hlt. unfold parse_msg13. rewrite Hn.
  change c_TLS_HS_HDR_LEN with 4.
  replace (lim - 0 <? 4) with false by (symmetry; apply Z.ltb_ge; lia).
  rewrite Ht. cbn [bind]. change (0 + 1) with 1. rewrite Hh. cbn [bind]. cbn [fx_hslen13 as_found andb].
  replace (lim - (0 + 4) <? hl) with true by (symmetry; apply Z.ltb_lt; lia).
  destruct (first_fragment_ok b lim 0 (lim - 0) (hl + 4)) as (src & m & Hsrc & Hm & _ & _); try lia.
  rewrite Hsrc. cbn [bind]. rewrite Hm. cbn [bind]. eexists; split; [reflexivity | reflexivity].
Qed.
Lemma parse_msg13_fixed_bounded :
  parse_msg13 all_fixed o13_accept_all hs13_fresh [2; 255; 255; 255; 1]%N 0 5 = Ok (hs13_fresh, MAlert c_SSL_ALERT_DECODE_ERROR 0).
Proof. vm_compute. reflexivity. Qed.

(* ================================================================== statements of Properties_C08.v that need glue *)
Lemma p_c08_hdr_no_fault : forall x b c lim,
  wf_d x -> 0 <= c -> c <= lim -> lim <= lenZ b ->
  exists s, decode12 (S (Z.to_nat (lim - c))) all_fixed x b c lim = Ok s /\ stage_post c lim s.
Proof. intros; apply decode12_ok; auto; lia. Qed.

Lemma p_c08_hdr13_no_fault : forall outp b lim,
  0 <= lim -> lim <= lenZ b -> lim <= c_SSL_MAX_BUF_SIZE ->
  exists s, hdr13 (S (Z.to_nat lim)) all_fixed outp b 0 0 lim = Ok s /\ stage13_post 0 lim s.
Proof. intros; apply hdr13_ok; auto; lia. Qed.

Lemma p_c08_hdr_epoch_skip_refuted :
  wf_d dtls_client_awaiting_hello /\
  decode12 10 as_found dtls_client_awaiting_hello epoch_skip_witness 0 15 = Fault /\
  (exists x, decode12 10 as_found dtls_client_awaiting_hello epoch_skip_witness2 0 27 = Ok (SRet c_DTLS_RETRANSMIT 65562 x) /\ 27 < 65562).
Proof. exact (conj witness_ctx_wf (conj decode12_as_found_faults decode12_as_found_overruns)). Qed.

Lemma p_c08_frag_tls13_no_fault : forall o st b p lim decrypted trailer,
  inv_tls (t_frag st) -> 0 <= p -> p <= lim -> lim <= lenZ b -> 0 <= trailer ->
  exists st' r, hs13_loop (S (Z.to_nat (lim - p))) all_fixed o st b p p lim decrypted trailer = Ok (st', r) /\
                inv_tls (t_frag st') /\ out13_post p lim trailer decrypted r.
Proof. intros; apply hs13_loop_ok; auto; lia. Qed.

Lemma p_c08_frag_tls13_refuted :
  (forall fuel st, fr_msg (t_frag st) = None ->
     hs13_loop fuel as_found o13_accept_all st msg_then_stray 0 5 6 false 17 = OutOfFuel) /\
  (exists st, hs13_loop 10 as_found o13_accept_all hs13_fresh msg_then_partial 0 0 10 false 17 = Ok (st, ORet c_MATRIXSSL_SUCCESS 27) /\ 10 < 27) /\
  (forall o st b lim t hl, fr_msg (t_frag st) = None -> 4 <= lim -> lim <= lenZ b -> rd b lim 0 = Ok t -> be24 b lim 1 = Ok hl ->
     lim - 4 < hl -> exists st', parse_msg13 as_found o st b 0 lim = Ok (st', MPartial lim) /\ fr_total (t_frag st') = hl + 4).
Proof.
  exact (conj (fun fuel => proj2 (hs13_loop_as_found_spins fuel)) (conj hs13_loop_as_found_overruns parse_msg13_as_found_unbounded)).
Qed.

Lemma p_c08_frag_dtls_refuted :
  inv_dtls (g_frag hsd_fresh) /\
  hs_record_dtls 30 as_found od_accept_all hsd_fresh fraglen_witness 22 = Fault /\
  (hs_record_dtls 30 as_found od_accept_all hsd_fresh ovl_a 22 = Ok (ovl_st1, HsRet c_MATRIXSSL_SUCCESS) /\
   hs_record_dtls 30 as_found od_accept_all ovl_st1 ovl_b 17 = Fault) /\
  (forall m, 5 <= lenZ m -> forall fuel acc, hash_frag_loop fuel zero_hdrs m 0 5 10 10 acc = OutOfFuel) /\
  hs_record_dtls 30 as_found od_accept_all zero_st2 zero_c 17 = OutOfFuel.
Proof.
  exact (conj hsd_fresh_inv (conj dtls_as_found_fraglen_faults (conj dtls_as_found_overlap_reads_unwritten
        (conj (fun m H fuel acc => proj1 (hash_loop_as_found_spins m H fuel acc))
              (proj2 (proj2 (proj2 dtls_as_found_zero_fragment_hangs))))))).
Qed.

Lemma p_c08_bounds_inv : forall dec rok k a n,
  (forall k a, abuf_ok a -> dec_contract a (dec k a 0)) ->
  abuf_ok a -> 0 <= n <= snd (get_readbuf a) ->
  exists rc a', received_data dec rok k a n = Ok (ARet rc a') /\ abuf_ok a' /\
                0 <= a_inlen a' /\ a_inlen a' <= a_insize a' /\ a_insize a' <= c_SSL_MAX_BUF_SIZE.
Proof.
  intros dec rok k a n HC Ha Hn. destruct (received_data_ok dec rok k a n HC Ha Hn) as ([rc a'] & Hr & Hok & _).
  exists rc, a'. split; [exact Hr|]. split; [exact Hok|]. destruct Hok as (A & B & C & _). auto.
Qed.

Lemma p_c08_bounds_inv_processed : forall dec rok k a hs_done,
  (forall k a, abuf_ok a -> dec_contract a (dec k a 0)) -> abuf_ok a -> pd_ok a ->
  exists rc a', processed_data dec rok k a hs_done = Ok (ARet rc a') /\ abuf_ok a'.
Proof.
  intros dec rok k a h HC Ha Hp. destruct (processed_data_ok dec rok k a h HC Ha Hp) as ([rc a'] & Hr & Hok & _).
  exists rc, a'. split; [exact Hr | exact Hok].
Qed.

Lemma p_c08_terminates : forall dec rok k a,
  (forall k a, abuf_ok a -> dec_contract a (dec k a 0)) -> abuf_ok a ->
  recv_loop (recv_fuel a) dec rok k a 0 <> OutOfFuel /\ recv_loop (recv_fuel a) dec rok k a 0 <> Fault.
Proof.
  intros dec rok k a HC Ha. destruct (recv_loop_ok (recv_fuel a) dec rok k a HC Ha) as (r & Hr & _).
  - unfold recv_fuel. fold MAXB. destruct Ha as (? & ? & ? & _). lia.
  - rewrite Hr. split; discriminate.
Qed.

Lemma p_c08_status_documented : forall dec rok k a n,
  (forall k a, abuf_ok a -> dec_contract a (dec k a 0)) -> abuf_ok a -> 0 <= n <= snd (get_readbuf a) ->
  exists rc a', received_data dec rok k a n = Ok (ARet rc a') /\ doc_rc rc /\
                (rc = c_MATRIXSSL_APP_DATA \/ rc = c_MATRIXSSL_RECEIVED_ALERT -> pd_ok a').
Proof.
  intros dec rok k a n HC Ha Hn. destruct (received_data_ok dec rok k a n HC Ha Hn) as ([rc a'] & Hr & _ & Hd & Hp).
  exists rc, a'. auto.
Qed.

(* ================================================================== non-vacuity: the hypotheses are satisfiable and
   the fixed code does reassemble *)
Example abuf_default_ok : abuf_ok {| a_inlen := 0; a_insize := 1500; a_outlen := 0; a_outsize := 1500; a_hs_complete_flag := false;
                                      a_dtls := false; a_tls13 := false; a_false_start := false; a_default := 1500; a_ctlen := 0 |}.
Proof. unfold abuf_ok, MAXB; cbn. repeat split; try lia; vm_compute; congruence. Qed.

Definition dec_always_partial : nat -> abuf -> Z -> dret :=
  fun _ _ _ => {| dr_rc := c_SSL_PARTIAL; dr_moved := 0; dr_len := 0; dr_req := 5; dr_err := 0; dr_alert := 255; dr_ctlen := 0; dr_done := false |}.
Example dec_contract_satisfiable : forall k a, abuf_ok a -> dec_contract a (dec_always_partial k a 0).
Proof.
  intros k a _. unfold dec_contract, dec_always_partial; cbn [dr_rc].
  split; [intros [HH|[_ HH]]; vm_compute in HH; discriminate|].
  split; [intros HH; vm_compute in HH; discriminate|].
  split; [intros [HH|HH]; vm_compute in HH; discriminate|].
  intros HH; vm_compute in HH; discriminate.
Qed.

Example inv_tls_initial : inv_tls frag_none.
Proof. exact I. Qed.

(* two DTLS fragments (0,5) and (5,5) of a 10-byte message, in reverse order: the parser gets the 10 bytes *)
Definition two_a : bytes := [2; 0; 0; 10; 0; 0; 0; 0; 5; 0; 0; 5; 6; 7; 8; 9; 10]%N.
Definition two_b : bytes := [2; 0; 0; 10; 0; 0; 0; 0; 0; 0; 0; 5; 1; 2; 3; 4; 5]%N.
Definition two_st1 : hsd := Eval vm_compute in st_of (hs_record_dtls 30 all_fixed od_accept_all hsd_fresh two_a 17).
Definition two_st2 : hsd := Eval vm_compute in st_of (hs_record_dtls 30 all_fixed od_accept_all two_st1 two_b 17).
Example dtls_fixed_reassembles :
  hs_record_dtls 30 all_fixed od_accept_all two_st1 two_b 17 = Ok (two_st2, HsRet 0) /\
  g_log two_st2 = [(2, [2; 0; 0; 10; 0; 0; 0; 0; 0; 0; 0; 5; 1; 2; 3; 4; 5; 6; 7; 8; 9; 10]%N)] /\
  g_hashed two_st2 = [[[1; 2; 3; 4; 5]; [6; 7; 8; 9; 10]]%N] /\ fr_msg (g_frag two_st2) = None.
Proof. repeat split; vm_compute; reflexivity. Qed.

(* TLS: a ServerHello-like message cut after 6 of its 9 bytes, then the rest followed by another message *)
Definition o12_accept_all : orc12 := {| o_gate := fun _ _ => GProceed; o_parse := fun hs _ body => (0, lenZ body, hs) |}.
Definition hs12_fresh : hs12 := {| h_frag := frag_none; h_hs := c_SSL_HS_SERVER_HELLO; h_log := [] |}.
Definition st12_of (r : res (hs12 * hs_out)) : hs12 := match r with Ok (s, _) => s | _ => hs12_fresh end.
Definition cut_a : bytes := [2; 0; 0; 5; 1; 2]%N.
Definition cut_b : bytes := [3; 4; 5; 14; 0; 0; 0]%N.
Definition cut_st1 : hs12 := Eval vm_compute in st12_of (hs_record_tls 10 o12_accept_all hs12_fresh cut_a 6).
Definition cut_st2 : hs12 := Eval vm_compute in st12_of (hs_record_tls 10 o12_accept_all cut_st1 cut_b 7).
Example tls_fixed_reassembles :
  fr_index (h_frag cut_st1) = 6 /\ fr_total (h_frag cut_st1) = 9 /\
  h_log cut_st2 = [(2, [2; 0; 0; 5; 1; 2; 3; 4; 5]%N); (14, [14; 0; 0; 0]%N)] /\ fr_msg (h_frag cut_st2) = None.
Proof. repeat split; vm_compute; reflexivity. Qed.
