(* C08 - proofs about coq/Wire/PbufModel.v *)
From MV Require Import Base.Bytes Gen.Consts Gen.ConstsWire Wire.WireModel Wire.WireSpec Wire.WireProofs Wire.PbufModel Wire.PbufSpec.
From Coq Require Import Lia ZArith List Bool.
Local Open Scope Z_scope.

Lemma rd_nth : forall b lim i, 0 <= i -> i < lim -> lim <= lenZ b -> rd b lim i = Ok (Z.of_N (nth (Z.to_nat i) b 0%N)).
Proof.
  intros b lim i H0 H1 H2. unfold rd.
  replace (0 <=? i) with true by (symmetry; apply Z.leb_le; lia).
  replace (i <? lim) with true by (symmetry; apply Z.ltb_lt; lia). cbn [andb].
  destruct (nth_error b (Z.to_nat i)) eqn:E.
  - rewrite (nth_error_nth _ _ _ E). reflexivity.
  - apply nth_error_None in E. unfold lenZ in H2. lia.
Qed.

Lemma read_len_enc : forall b lim n p acc, 0 <= p -> p + Z.of_nat n <= lim -> lim <= lenZ b ->
  read_len b lim p n acc = Ok (enc_len b p n acc).
Proof.
  induction n as [|k IH]; intros p acc H0 H1 H2; [reflexivity|].
  cbn [read_len enc_len]. rewrite rd_nth by lia. cbn [bind]. apply IH; lia.
Qed.

Lemma enc_len_nonneg : forall b n p acc, 0 <= acc -> 0 <= enc_len b p n acc.
Proof. induction n as [|k IH]; intros p acc H; cbn [enc_len]; [exact H | apply IH; lia]. Qed.

Lemma num_len_bytes_range : forall m, 0 <= num_len_bytes m <= 3 /\ (0 < m -> 1 <= num_len_bytes m).
Proof.
  intros m. unfold num_len_bytes.
  destruct (m >? 0) eqn:E0; destruct (m >? 255) eqn:E1; destruct (m >? 65535) eqn:E2; b2p; lia.
Qed.

(* the code computes exactly the specification, reading only inside [s, e) *)
Theorem parse_tls_vec_spec : forall b s e mn mx, 0 <= s -> s <= e -> e <= lenZ b ->
  parse_tls_vec b s e mn mx = Ok (vec_spec b s e mn mx).
Proof.
  intros b s e mn mx H0 H1 H2. unfold parse_tls_vec, vec_spec.
  destruct (mx >? two24); [reflexivity|].
  pose proof (num_len_bytes_range mx) as [Hn _].
  destruct (e - s <? num_len_bytes mx) eqn:E0; [reflexivity|]. b2p.
  rewrite (read_len_enc b e (Z.to_nat (num_len_bytes mx)) s 0) by lia. cbn [bind].
  set (len := enc_len b s (Z.to_nat (num_len_bytes mx)) 0).
  destruct (e - (s + num_len_bytes mx) <? len) eqn:E1; b2p.
  - replace (len <=? e - s - num_len_bytes mx) with false by (symmetry; apply Z.leb_gt; lia). reflexivity.
  - replace (len <=? e - s - num_len_bytes mx) with true by (symmetry; apply Z.leb_le; lia). cbn [andb].
    destruct (len <? mn) eqn:E2; b2p.
    + replace (mn <=? len) with false by (symmetry; apply Z.leb_gt; lia). reflexivity.
    + replace (mn <=? len) with true by (symmetry; apply Z.leb_le; lia). cbn [andb].
      destruct (len >? mx) eqn:E3; b2p.
      * replace (len <=? mx) with false by (symmetry; apply Z.leb_gt; lia). reflexivity.
      * replace (len <=? mx) with true by (symmetry; apply Z.leb_le; lia). reflexivity.
Qed.

(* an accepted vector lies inside [s, e): length octets and body *)
Theorem vec_spec_in_range : forall b s e mn mx n d, vec_spec b s e mn mx = VOk n d ->
  n = num_len_bytes mx /\ 0 <= n <= 3 /\ 0 <= d /\ s + n + d <= e /\ mn <= d <= mx /\ (0 < mx -> 1 <= n).
Proof.
  intros b s e mn mx n d H. unfold vec_spec in H.
  destruct (mx >? two24); [discriminate|].
  destruct (e - s <? num_len_bytes mx); [discriminate|].
  destruct ((enc_len b s (Z.to_nat (num_len_bytes mx)) 0 <=? e - s - num_len_bytes mx) && (mn <=? _) && (_ <=? mx)) eqn:E; [|discriminate].
  inversion H; subst. b2p. pose proof (num_len_bytes_range mx) as [Hn Hp].
  pose proof (enc_len_nonneg b (Z.to_nat (num_len_bytes mx)) s 0 ltac:(lia)).
  repeat split; try lia.
Qed.

(* PS_LIMIT_FAIL exactly when the length octets or the body do not fit, or the length is outside min..max *)
Theorem vec_spec_limit_iff : forall b s e mn mx, mx <= two24 ->
  let n := num_len_bytes mx in let len := enc_len b s (Z.to_nat n) 0 in
  (vec_spec b s e mn mx = VErr c_PS_LIMIT_FAIL <-> (e - s < n \/ e - s - n < len \/ len < mn \/ mx < len)) /\
  (vec_spec b s e mn mx = VOk n len <-> (n <= e - s /\ len <= e - s - n /\ mn <= len <= mx)).
Proof.
  intros b s e mn mx Hm n len. unfold vec_spec. fold n. fold len.
  replace (mx >? two24) with false by (symmetry; rewrite Z.gtb_ltb; apply Z.ltb_ge; lia).
  destruct (e - s <? n) eqn:E0; b2p.
  - split; split; intros HH; try discriminate; try reflexivity; [left; lia | exfalso; lia].
  - destruct ((len <=? e - s - n) && (mn <=? len) && (len <=? mx)) eqn:E; b2p.
    + split; split; intros HH; try discriminate; try reflexivity; [exfalso; lia | lia].
    + split; split; intros HH; try reflexivity; try discriminate.
      * destruct E as [E|E]; b2p; [destruct E as [E|E]; b2p; lia | lia].
      * exfalso. destruct E as [E|E]; b2p; [destruct E as [E|E]; b2p; lia | lia].
Qed.

(* ------------------------------------------------------------------ psParseBuf primitives *)
Lemma readable_wf : forall b pb, wf_pb b pb -> pb_readable pb = pb_end pb - pb_start pb /\ 0 <= pb_readable pb.
Proof.
  intros b pb (A & B & C). unfold pb_readable.
  replace (pb_end pb - pb_start pb <? 0) with false by (symmetry; apply Z.ltb_ge; lia). lia.
Qed.

Lemma can_read_wf : forall b pb n, wf_pb b pb -> pb_can_read pb n = true -> pb_err pb = false /\ pb_start pb + n <= pb_end pb.
Proof.
  intros b pb n W H. destruct (readable_wf b pb W) as [Hr _]. unfold pb_can_read in H.
  destruct (pb_err pb); [discriminate|]. rewrite Hr in H. b2p. split; [reflexivity | lia].
Qed.

Lemma move_wf : forall b pb n, wf_pb b pb -> 0 <= n -> pb_start pb + n <= pb_end pb -> wf_pb b (pb_move pb n) /\ advanced pb (pb_move pb n) n.
Proof. intros b pb n (A & B & C) H0 H1. unfold wf_pb, advanced, pb_move; cbn. repeat split; lia. Qed.

Definition op_post {A} (b : bytes) (pb : pbuf) (k : Z) (r : option A * pbuf) : Prop :=
  match r with
  | (Some _, pb') => wf_pb b pb' /\ advanced pb pb' k
  | (None, pb') => pb' = pb
  end.

Theorem pb_octet_ok : forall b pb, wf_pb b pb -> exists r, pb_octet b pb = Ok r /\ op_post b pb 1 r.
Proof.
  intros b pb W. unfold pb_octet. destruct (pb_can_read pb 1) eqn:E; [|eexists; split; [reflexivity | reflexivity]].
  destruct (can_read_wf b pb 1 W E) as [_ H]. pose proof W as (A & B & C).
  destruct (rd_ok b (pb_end pb) (pb_start pb)) as (v & Hv & _); try lia. rewrite Hv. cbn [bind].
  eexists; split; [reflexivity|]. apply move_wf; [exact W | lia | lia].
Qed.

Theorem pb_be16_ok : forall b pb, wf_pb b pb -> exists r, pb_be16 b pb = Ok r /\ op_post b pb 2 r.
Proof.
  intros b pb W. unfold pb_be16. destruct (pb_can_read pb 2) eqn:E; [|eexists; split; [reflexivity | reflexivity]].
  destruct (can_read_wf b pb 2 W E) as [_ H]. pose proof W as (A & B & C).
  destruct (be16_ok b (pb_end pb) (pb_start pb)) as (v & Hv & _); try lia. rewrite Hv. cbn [bind].
  eexists; split; [reflexivity|]. apply move_wf; [exact W | lia | lia].
Qed.

Theorem pb_be32_ok : forall b pb, wf_pb b pb -> exists r, pb_be32 b pb = Ok r /\ op_post b pb 4 r.
Proof.
  intros b pb W. unfold pb_be32. destruct (pb_can_read pb 4) eqn:E; [|eexists; split; [reflexivity | reflexivity]].
  destruct (can_read_wf b pb 4 W E) as [_ H]. pose proof W as (A & B & C).
  destruct (be16_ok b (pb_end pb) (pb_start pb)) as (v & Hv & _); try lia.
  destruct (be16_ok b (pb_end pb) (pb_start pb + 2)) as (w & Hw & _); try lia. rewrite Hv. cbn [bind]. rewrite Hw. cbn [bind].
  eexists; split; [reflexivity|]. apply move_wf; [exact W | lia | lia].
Qed.

Theorem pb_try_octets_ok : forall b pb n store, wf_pb b pb -> 0 <= n ->
  exists r, pb_try_octets b pb n store = Ok r /\ op_post b pb n r /\
            (forall v pb', r = (Some v, pb') -> store = true -> lenZ v = n).
Proof.
  intros b pb n store W Hn. unfold pb_try_octets.
  destruct (pb_can_read pb n) eqn:E.
  2:{ eexists; split; [reflexivity|]. split; [reflexivity|]. intros; discriminate. }
  destruct (can_read_wf b pb n W E) as [_ H]. pose proof W as (A & B & C).
  destruct store.
  - destruct (slice_ok b (pb_end pb) (pb_start pb) n) as [Hs Hl]; try lia. rewrite Hs. cbn [bind].
    eexists; split; [reflexivity|]. split; [apply move_wf; [exact W | lia | lia]|].
    intros v pb' Hr _. inversion Hr; subst. exact Hl.
  - eexists; split; [reflexivity|]. split; [apply move_wf; [exact W | lia | lia]|]. intros; discriminate.
Qed.

Theorem pb_try_forward_ok : forall b pb n, wf_pb b pb -> 0 <= n ->
  let '(k, pb') := pb_try_forward pb n in wf_pb b pb' /\ ((k = n /\ advanced pb pb' n) \/ (k = 0 /\ pb' = pb)).
Proof.
  intros b pb n W Hn. unfold pb_try_forward. destruct (pb_can_read pb n) eqn:E; [|split; [exact W | right; auto]].
  destruct (can_read_wf b pb n W E) as [_ H]. destruct (move_wf b pb n W Hn H). split; [assumption | left; auto].
Qed.

(* the unchecked psParseForward keeps the buffer well formed exactly when the caller checked first *)
Theorem pb_forward_ok : forall b pb n, wf_pb b pb -> 0 <= n -> pb_can_read pb n = true -> wf_pb b (pb_forward pb n).
Proof. intros b pb n W Hn E. destruct (can_read_wf b pb n W E) as [_ H]. apply move_wf; assumption. Qed.

Theorem pb_rec_hdr_ok : forall b pb, wf_pb b pb -> exists r, pb_rec_hdr b pb = Ok r /\ op_post b pb 5 r.
Proof.
  intros b pb W. unfold pb_rec_hdr. destruct (pb_can_read pb 5) eqn:E; [|eexists; split; [reflexivity | reflexivity]].
  destruct (can_read_wf b pb 5 W E) as [_ H]. pose proof W as (A & B & C).
  destruct (rd_ok b (pb_end pb) (pb_start pb)) as (v0 & H0 & _); try lia.
  destruct (rd_ok b (pb_end pb) (pb_start pb + 1)) as (v1 & H1 & _); try lia.
  destruct (rd_ok b (pb_end pb) (pb_start pb + 2)) as (v2 & H2 & _); try lia.
  destruct (be16_ok b (pb_end pb) (pb_start pb + 3)) as (v3 & H3 & _); try lia.
  rewrite H0; cbn [bind]. rewrite H1; cbn [bind]. rewrite H2; cbn [bind]. rewrite H3; cbn [bind].
  eexists; split; [reflexivity|]. apply move_wf; [exact W | lia | lia].
Qed.

Theorem pb_hs_hdr_ok : forall b pb, wf_pb b pb -> exists r, pb_hs_hdr b pb = Ok r /\ op_post b pb 4 r.
Proof.
  intros b pb W. unfold pb_hs_hdr. destruct (pb_can_read pb 4) eqn:E; [|eexists; split; [reflexivity | reflexivity]].
  destruct (can_read_wf b pb 4 W E) as [_ H]. pose proof W as (A & B & C).
  destruct (rd_ok b (pb_end pb) (pb_start pb)) as (v0 & H0 & _); try lia.
  destruct (be24_ok b (pb_end pb) (pb_start pb + 1)) as (v1 & H1 & _); try lia.
  rewrite H0; cbn [bind]. rewrite H1; cbn [bind].
  eexists; split; [reflexivity|]. apply move_wf; [exact W | lia | lia].
Qed.

(* psParseBufParseTlsVector: on success the pb stands at the first body octet and the whole body is readable *)
Theorem pb_tls_vector_ok : forall b pb mn mx, wf_pb b pb ->
  exists r pb', pb_tls_vector b pb mn mx = Ok (r, pb') /\ wf_pb b pb' /\
    match r with
    | VOk n d => advanced pb pb' n /\ pb_can_read pb' d = true /\ mn <= d <= mx /\ 0 <= d /\ (0 < mx -> 1 <= n)
    | VErr rc => pb' = pb /\ rc < 0
    end.
Proof.
  intros b pb mn mx W. pose proof W as (A & B & C). unfold pb_tls_vector.
  destruct (pb_err pb) eqn:Ee.
  { do 2 eexists; split; [reflexivity|]. split; [exact W|]. split; [reflexivity | vm_compute; reflexivity]. }
  rewrite (parse_tls_vec_spec b (pb_start pb) (pb_end pb) mn mx A B C). cbn [bind].
  destruct (vec_spec b (pb_start pb) (pb_end pb) mn mx) as [n d | rc] eqn:Ev.
  - destruct (vec_spec_in_range _ _ _ _ _ _ _ Ev) as (Hn & Hr & Hd & Hfit & Hmm & Hp).
    destruct (move_wf b pb n W ltac:(lia) ltac:(lia)) as [W' Ha].
    do 2 eexists; split; [reflexivity|]. split; [exact W'|]. split; [exact Ha|].
    split; [|auto]. unfold pb_can_read. cbn [pb_move pb_err]. rewrite Ee.
    destruct (readable_wf b (pb_move pb n) W') as [Hr' _]. rewrite Hr'. cbn [pb_move pb_start pb_end].
    rewrite Z.geb_leb. apply Z.leb_le. lia.
  - do 2 eexists; split; [reflexivity|]. split; [exact W|]. split; [reflexivity|].
    unfold vec_spec in Ev.
    repeat match type of Ev with context [if ?c then _ else _] => destruct c end; inversion Ev; vm_compute; reflexivity.
Qed.

(* psParseBufCopyN never reads outside the pb and never stores more than *targetlen *)
Theorem pb_copy_n_ok : forall b pb req ht tl, wf_pb b pb -> 0 <= req -> 0 <= tl ->
  exists rc v tl', pb_copy_n b pb req ht tl = Ok (rc, v, tl') /\ lenZ v <= tl /\
    (rc = c_PS_SUCCESS -> lenZ v = tl' /\ tl' = Z.min req (pb_end pb - pb_start pb)).
Proof.
  intros b pb req ht tl W Hq Ht. pose proof W as (A & B & C). destruct (readable_wf b pb W) as [Hr Hr0].
  unfold pb_copy_n. rewrite Hr.
  destruct (pb_err pb).
  { do 3 eexists; split; [reflexivity|]. split; [cbn; lia|]. intros H; vm_compute in H; discriminate. }
  set (rq := if req >? pb_end pb - pb_start pb then pb_end pb - pb_start pb else req).
  assert (Hrq : rq = Z.min req (pb_end pb - pb_start pb)) by (unfold rq; destruct (req >? _) eqn:E; b2p; lia).
  destruct (negb ht).
  { do 3 eexists; split; [reflexivity|]. split; [cbn; lia|]. intros H; vm_compute in H; discriminate. }
  destruct (rq >? tl) eqn:E1.
  { do 3 eexists; split; [reflexivity|]. split; [cbn; lia|]. intros H; vm_compute in H; discriminate. }
  b2p. destruct (slice_ok b (pb_end pb) (pb_start pb) rq) as [Hs Hl]; try lia. rewrite Hs. cbn [bind].
  do 3 eexists; split; [reflexivity|]. split; [lia|]. intros _. split; [exact Hl | exact Hrq].
Qed.

(* ------------------------------------------------------------------ the hoisted-`avail` variant of the body test
   (`avail < len` with avail = end - start still counting the length octets) accepts a body that ends
   numLenBytes octets behind `end` *)
Definition parse_tls_vec_avail (b : bytes) (start end_ minLen maxLen : Z) : res vec_res :=
  let n := num_len_bytes maxLen in
  if maxLen >? two24 then Ok (VErr c_PS_ARG_FAIL)
  else if end_ - start <? n then Ok (VErr c_PS_LIMIT_FAIL)
  else
    do len <- read_len b end_ start (Z.to_nat n) 0;
    if end_ - start <? len then Ok (VErr c_PS_LIMIT_FAIL)
    else if len <? minLen then Ok (VErr c_PS_LIMIT_FAIL)
    else if len >? maxLen then Ok (VErr c_PS_LIMIT_FAIL)
    else Ok (VOk n len).
Lemma avail_variant_overclaims :
  parse_tls_vec_avail [0; 4; 1; 2]%N 0 4 0 65535 = Ok (VOk 2 4) /\ 0 + 2 + 4 > 4 /\
  parse_tls_vec [0; 4; 1; 2]%N 0 4 0 65535 = Ok (VErr c_PS_LIMIT_FAIL).
Proof. repeat split; vm_compute; reflexivity. Qed.

(* ------------------------------------------------------------------ non-vacuity *)
Example wf_pb_example : wf_pb [0; 3; 1; 2; 3; 9]%N (pb_from false 0 6).
Proof. unfold wf_pb; cbn. repeat split; lia. Qed.
(* opaque x<1..2^16-1> with 3 body octets followed by one more octet: accepted, pb on the first body octet *)
Example pb_tls_vector_example :
  pb_tls_vector [0; 3; 1; 2; 3; 9]%N (pb_from false 0 6) 1 65535 = Ok (VOk 2 3, {| pb_start := 2; pb_end := 6; pb_err := false |}) /\
  pb_tls_vector [0; 5; 1; 2; 3; 9]%N (pb_from false 0 6) 1 65535 = Ok (VErr c_PS_LIMIT_FAIL, pb_from false 0 6) /\
  pb_tls_vector [0; 4; 1; 2; 3; 9]%N (pb_from false 0 6) 1 65535 = Ok (VOk 2 4, {| pb_start := 2; pb_end := 6; pb_err := false |}).
Proof. repeat split; vm_compute; reflexivity. Qed.
