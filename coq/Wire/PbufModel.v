(* C08 - code-shaped models of the parse primitives of core/src/psbuf.c + core/include/psbuf.h that the
   TLS 1.3 decoders (matrixssl/tls13Decode.c, tls13DecodeExt.c) are written with.  Same discipline as
   WireModel.v: the live object is [b : list N], pointers are offsets, every dereference goes through
   [rd b limit i] / [slice b limit p n] with the parse buffer's own end as limit; outside = [Fault].

   Sources modelled (/repo at 43a712c):
     core/src/psbuf.c      psBufFromStaticData 108-118, psParseBufFromStaticData 899-907,
                           psParseBufCopyN 1146-1176, psParseTlsVariableLengthVec 1362-1430
     core/include/psbuf.h  psParseCanRead 333-344, psParseGetRemainingLen 346-357,
                           psParseTlsRecordHeader 359-381, psParseTlsHandshakeHeader 383-403,
                           psParseOctet 405-416, psParseBufParseTlsVector 425-452,
                           psParseBufTryParseOctets 454-475, psParseBufTryParseBigEndianUint16 477-493,
                           psParseBufTryParseBigEndianUint32 495-513, psParseTryForward 516-527,
                           psParseForward 529-533, psParseRewind 535-539, psParseBufCopyNPsSize 638-665
   No proofs in this file. *)
From MV Require Import Base.Bytes Gen.Consts Gen.ConstsWire Wire.WireModel.
Local Open Scope Z_scope.

(* ------------------------------------------------------------------ psParseTlsVariableLengthVec *)
Definition two24 : Z := 16777216.
(* number of length octets of `opaque x<min..maxLen>` *)
Definition num_len_bytes (maxLen : Z) : Z :=
  (if maxLen >? 0 then 1 else 0) + (if maxLen >? 255 then 1 else 0) + (if maxLen >? 65535 then 1 else 0).

Inductive vec_res :=
| VOk (nlen dlen : Z)        (* returned nlen (number of length octets), *vecDataLen = dlen *)
| VErr (rc : Z).

(* `while (numLenBytes > 0) { len = (len << 8) + *p; p++; ... }` - at most three octets *)
Fixpoint read_len (b : bytes) (lim p : Z) (n : nat) (acc : Z) : res Z :=
  match n with
  | O => Ok acc
  | S k => do v <- rd b lim p; read_len b lim (p + 1) k (acc * 256 + v)
  end.

Definition parse_tls_vec (b : bytes) (start end_ minLen maxLen : Z) : res vec_res :=
  let n := num_len_bytes maxLen in
  if maxLen >? two24 then Ok (VErr c_PS_ARG_FAIL)
  else if end_ - start <? n then Ok (VErr c_PS_LIMIT_FAIL)
  else
    do len <- read_len b end_ start (Z.to_nat n) 0;
    let p := start + n in
    if end_ - p <? len then Ok (VErr c_PS_LIMIT_FAIL)            (* the body must fit behind the length octets *)
    else if len <? minLen then Ok (VErr c_PS_LIMIT_FAIL)
    else if len >? maxLen then Ok (VErr c_PS_LIMIT_FAIL)
    else Ok (VOk n len).

(* ------------------------------------------------------------------ psParseBuf_t *)
Record pbuf := { pb_start : Z;       (* pb->buf.start - object *)
                 pb_end : Z;         (* pb->buf.end - object *)
                 pb_err : bool }.    (* pb->err != 0 *)

(* psParseBufFromStaticData(pb, object + off, len); a NULL data pointer gives an empty buffer in error state *)
Definition pb_from (null : bool) (off len : Z) : pbuf :=
  if null then {| pb_start := 0; pb_end := 0; pb_err := true |}
  else {| pb_start := off; pb_end := off + len; pb_err := false |}.

Definition size_max : Z := 18446744073709551616.    (* size_t arithmetic: end - start when start > end *)
Definition pb_readable (pb : pbuf) : Z :=
  let r := pb_end pb - pb_start pb in if r <? 0 then r + size_max else r.

Definition pb_can_read (pb : pbuf) (n : Z) : bool := if pb_err pb then false else pb_readable pb >=? n.
Definition pb_remaining (pb : pbuf) : Z := if pb_err pb then 0 else pb_readable pb.

Definition pb_move (pb : pbuf) (n : Z) : pbuf := {| pb_start := pb_start pb + n; pb_end := pb_end pb; pb_err := pb_err pb |}.

(* psParseOctet / psParseBufTryParseBigEndianUint16 / 32: None = returned 0 *)
Definition pb_octet (b : bytes) (pb : pbuf) : res (option Z * pbuf) :=
  if pb_can_read pb 1 then do v <- rd b (pb_end pb) (pb_start pb); Ok (Some v, pb_move pb 1) else Ok (None, pb).
Definition pb_be16 (b : bytes) (pb : pbuf) : res (option Z * pbuf) :=
  if pb_can_read pb 2 then do v <- be16 b (pb_end pb) (pb_start pb); Ok (Some v, pb_move pb 2) else Ok (None, pb).
Definition pb_be32 (b : bytes) (pb : pbuf) : res (option Z * pbuf) :=
  if pb_can_read pb 4 then
    do h <- be16 b (pb_end pb) (pb_start pb); do l <- be16 b (pb_end pb) (pb_start pb + 2);
    Ok (Some (h * 65536 + l), pb_move pb 4)
  else Ok (None, pb).

(* psParseBufTryParseOctets(pb, n, out, store): the source is dereferenced only when store is set *)
Definition pb_try_octets (b : bytes) (pb : pbuf) (n : Z) (store : bool) : res (option bytes * pbuf) :=
  if pb_can_read pb n then
    if store then do v <- slice b (pb_end pb) (pb_start pb) n; Ok (Some v, pb_move pb n)
    else Ok (Some [], pb_move pb n)
  else Ok (None, pb).

(* psParseTryForward (checked) / psParseForward, psParseRewind (unchecked pointer moves) *)
Definition pb_try_forward (pb : pbuf) (n : Z) : Z * pbuf :=
  if pb_can_read pb n then (n, pb_move pb n) else (0, pb).
Definition pb_forward (pb : pbuf) (n : Z) : pbuf := pb_move pb n.
Definition pb_rewind (pb : pbuf) (n : Z) : pbuf := pb_move pb (- n).

(* psParseTlsRecordHeader: (type, major, minor, length); psParseTlsHandshakeHeader: (type, length) *)
Definition pb_rec_hdr (b : bytes) (pb : pbuf) : res (option (Z * Z * Z * Z) * pbuf) :=
  if pb_can_read pb 5 then
    do t <- rd b (pb_end pb) (pb_start pb); do ma <- rd b (pb_end pb) (pb_start pb + 1);
    do mi <- rd b (pb_end pb) (pb_start pb + 2); do l <- be16 b (pb_end pb) (pb_start pb + 3);
    Ok (Some (t, ma, mi, l), pb_move pb 5)
  else Ok (None, pb).
Definition pb_hs_hdr (b : bytes) (pb : pbuf) : res (option (Z * Z) * pbuf) :=
  if pb_can_read pb 4 then
    do t <- rd b (pb_end pb) (pb_start pb); do l <- be24 b (pb_end pb) (pb_start pb + 1);
    Ok (Some (t, l), pb_move pb 4)
  else Ok (None, pb).

(* psParseBufParseTlsVector *)
Definition pb_tls_vector (b : bytes) (pb : pbuf) (minLen maxLen : Z) : res (vec_res * pbuf) :=
  if pb_err pb then Ok (VErr c_PS_FAILURE, pb)
  else
    do r <- parse_tls_vec b (pb_start pb) (pb_end pb) minLen maxLen;
    match r with
    | VOk n d => Ok (VOk n d, pb_move pb n)
    | VErr rc => Ok (VErr rc, pb)
    end.

(* psParseBufCopyN(pb, reqLen, target, &targetlen): (rc, bytes stored in target, *targetlen afterwards);
   has_target = target != NULL *)
Definition pb_copy_n (b : bytes) (pb : pbuf) (reqLen : Z) (has_target : bool) (targetlen : Z) : res (Z * bytes * Z) :=
  let len := pb_readable pb in
  if pb_err pb then Ok (c_PS_FAILURE, [], targetlen)
  else
    let req := if reqLen >? len then len else reqLen in
    if negb has_target then Ok (c_PS_OUTPUT_LENGTH, [], req)
    else if req >? targetlen then Ok (c_PS_OUTPUT_LENGTH, [], req)
    else do v <- slice b (pb_end pb) (pb_start pb) req; Ok (c_PS_SUCCESS, v, req).
