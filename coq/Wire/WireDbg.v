From MV Require Import Base.Bytes Gen.Consts Gen.ConstsDtls Gen.ConstsWire Dtls.DtlsModel Wire.WireModel Wire.WireProofs.
From Coq Require Import Lia ZArith List Bool.
Local Open Scope Z_scope.
(* ---- the code as found *)
Definition od_accept_all : orcd := {| d_gate := fun _ _ _ _ => GProceed; d_parse := fun hs _ _ => (0, 0, hs) |}.
Definition hsd_fresh : hsd := {| g_frag := frag_none; g_hs := c_SSL_HS_SERVER_HELLO; g_last_msn := -1; g_log := []; g_hashed := [] |}.
Lemma hsd_fresh_inv : inv_dtls (g_frag hsd_fresh).
Proof. split; [reflexivity|]. split; [reflexivity | intros C; exfalso; apply C; reflexivity]. Qed.

(* (1) fragment_length = 59000 with 10 bytes in the record: the Memcpy source runs past `end` *)
Definition fraglen_witness : bytes := [2; 0; 234; 96; 0; 0; 0; 0; 0; 0; 230; 120; 0; 17; 34; 51; 68; 85; 102; 119; 136; 153]%N.
Lemma dtls_as_found_fraglen_faults : hs_record_dtls 30 as_found od_accept_all hsd_fresh fraglen_witness 22 = Fault.
Proof. vm_compute. reflexivity. Qed.
Lemma dtls_fixed_fraglen_rejected :
  hs_record_dtls 30 all_fixed od_accept_all hsd_fresh fraglen_witness 22 = Ok (hsd_fresh, HsErr c_SSL_ALERT_DECODE_ERROR).
Proof. vm_compute. reflexivity. Qed.

(* (2) fragments (0,10) and (5,5) of a 15-byte message: fragTotal reaches 15 with bytes 10..14 never written;
       handing the message to the hash / parser reads them *)
Definition ovl_a : bytes := [2; 0; 0; 15; 0; 0; 0; 0; 0; 0; 0; 10; 1; 2; 3; 4; 5; 6; 7; 8; 9; 10]%N.
Definition ovl_b : bytes := [2; 0; 0; 15; 0; 0; 0; 0; 5; 0; 0; 5; 6; 7; 8; 9; 10]%N.
Lemma dtls_as_found_overlap_reads_unwritten :
  exists st1, hs_record_dtls 30 as_found od_accept_all hsd_fresh ovl_a 22 = Ok (st1, HsRet c_MATRIXSSL_SUCCESS) /\
              hs_record_dtls 30 as_found od_accept_all st1 ovl_b 17 = Fault.
Proof. eexists; split; vm_compute; reflexivity. Qed.
Lemma dtls_fixed_overlap_ignored :
  exists st1 st2, hs_record_dtls 30 all_fixed od_accept_all hsd_fresh ovl_a 22 = Ok (st1, HsRet c_MATRIXSSL_SUCCESS) /\
              hs_record_dtls 30 all_fixed od_accept_all st1 ovl_b 17 = Ok (st2, HsRet c_MATRIXSSL_SUCCESS) /\
              fr_total (g_frag st2) = 10 /\ g_log st2 = [].
Proof. do 2 eexists; repeat split; vm_compute; reflexivity. Qed.

(* (3) fragments (0,5), (5,0), (1,5) of a 10-byte message: dtlsHsHashFragMsg finds the empty fragment at
       nextOffset = 5 again and again *)
Definition zero_hdrs : list (Z * Z) := [(0, 5); (5, 0); (1, 5)].
Lemma hash_loop_as_found_spins : forall m, 5 <= lenZ m -> forall fuel acc,
  hash_frag_loop fuel zero_hdrs m 0 5 10 10 acc = OutOfFuel /\ hash_frag_loop fuel zero_hdrs m 1 5 10 10 acc = OutOfFuel.
Proof.
  intros m Hm. induction fuel as [|f IH]; intros acc; [split; reflexivity|].
  assert (S0 : slicef m 5 0 = Ok []).
  { unfold slicef. replace (5 + 0 <=? lenZ m) with true by (symmetry; apply Z.leb_le; lia). reflexivity. }
  split; cbn [hash_frag_loop]; change c_MAX_FRAGMENTS with 16; cbn [Z.ltb Z.compare Z.to_nat nth_error zero_hdrs Pos.to_nat Pos.iter_op Nat.add].
  - replace (0 =? 5) with false by reflexivity. cbn [negb andb]. replace (5 =? 0) with false by reflexivity.
    cbn [negb andb]. replace (5 =? 10) with false by reflexivity. change (0 + 1) with 1. apply IH.
  - replace (5 =? 5) with true by reflexivity. rewrite S0. cbn [bind]. change (5 + 0) with 5.
    replace (5 =? 0) with false by reflexivity. apply IH.
Qed.
Definition zero_a : bytes := [2; 0; 0; 10; 0; 0; 0; 0; 0; 0; 0; 5; 1; 2; 3; 4; 5]%N.
Definition zero_b : bytes := [2; 0; 0; 10; 0; 0; 0; 0; 5; 0; 0; 0]%N.
Definition zero_c : bytes := [2; 0; 0; 10; 0; 0; 0; 0; 1; 0; 0; 5; 2; 3; 4; 5; 6]%N.
Lemma dtls_as_found_zero_fragment_hangs :
  exists st1 st2, hs_record_dtls 30 as_found od_accept_all hsd_fresh zero_a 17 = Ok (st1, HsRet c_MATRIXSSL_SUCCESS) /\
                  hs_record_dtls 30 as_found od_accept_all st1 zero_b 12 = Ok (st2, HsRet c_MATRIXSSL_SUCCESS) /\
                  fr_hdrs (g_frag st2) = zero_hdrs /\
                  hs_record_dtls 30 as_found od_accept_all st2 zero_c 17 = OutOfFuel.
Proof. do 2 eexists; repeat split; vm_compute; reflexivity. Qed.
