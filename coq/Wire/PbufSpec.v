(* C08 - what is demanded of the psbuf parse primitives: a parse buffer stays inside its object, every
   successful primitive consumed exactly what it says and never looked outside [start, end), and
   psParseTlsVariableLengthVec accepts a vector exactly when its body fits behind the length octets. *)
From MV Require Import Base.Bytes Gen.Consts Gen.ConstsWire Wire.WireModel Wire.PbufModel.
From Coq Require Import Lia ZArith List Bool.
Local Open Scope Z_scope.

Definition wf_pb (b : bytes) (pb : pbuf) : Prop := 0 <= pb_start pb /\ pb_start pb <= pb_end pb /\ pb_end pb <= lenZ b.

(* the value the n length octets at offset p encode, read off the object directly *)
Fixpoint enc_len (b : bytes) (p : Z) (n : nat) (acc : Z) : Z :=
  match n with
  | O => acc
  | S k => enc_len b (p + 1) k (acc * 256 + Z.of_N (nth (Z.to_nat p) b 0%N))
  end.

(* the specification of psParseTlsVariableLengthVec, without any pointer arithmetic *)
Definition vec_spec (b : bytes) (s e minLen maxLen : Z) : vec_res :=
  let n := num_len_bytes maxLen in
  if maxLen >? two24 then VErr c_PS_ARG_FAIL
  else if e - s <? n then VErr c_PS_LIMIT_FAIL
  else
    let len := enc_len b s (Z.to_nat n) 0 in
    if (len <=? e - s - n) && (minLen <=? len) && (len <=? maxLen) then VOk n len else VErr c_PS_LIMIT_FAIL.

(* the pb moved forward by k and is otherwise unchanged *)
Definition advanced (pb pb' : pbuf) (k : Z) : Prop :=
  pb_start pb' = pb_start pb + k /\ pb_end pb' = pb_end pb /\ pb_err pb' = pb_err pb.
