(* C08 - what the property demands of the modelled code, independent of how the code is written:
   well-formedness of the session state the functions are started in, what every result must satisfy
   (offsets inside the input, buffers inside their limits, documented return codes), the reassembly
   invariants, and the interface contract of the record decoder as seen by the API loop. *)
From MV Require Import Base.Bytes Gen.Consts Gen.ConstsDtls Gen.ConstsWire Dtls.DtlsModel Wire.WireModel.
From Coq Require Import Lia ZArith List Bool.
Local Open Scope Z_scope.

Notation iv := (Z * Z)%type.                       (* a stored fragment: (offset, length) *)

(* ================================================================== (a) record header *)
Definition dtlsb (v : Z) : bool := band v c_v_dtls_any.

Definition wf_h (x : hctx) : Prop :=
  (hx_head x = 5 \/ hx_head x = 13) /\
  (dtlsb (hx_actv x) = true \/ dtlsb (hx_supp x) = true -> hx_head x = 13).

Definition hdr_post (x : hctx) (c lim : Z) (r : hdr_result) : Prop :=
  match r with
  | HOk h => (if dtlsb (rh_actv h) then rh_used h = 13 /\ hx_head x = 13 else rh_used h = 5) /\
             c + rh_used h <= lim /\ 0 < rh_len h <= c_SSL_MAX_RECORD_LEN /\
             0 <= rh_epoch h /\ 0 <= rh_rsn h /\
             (rh_actv h = hx_actv x \/ dtlsb (hx_supp x) = true)
  | HPartial r => r = hx_head x
  | HAlert _ a => a = hx_actv x \/ dtlsb (hx_supp x) = true
  end.

Definition wf_d (x : dctx) : Prop := wf_h (dx_h x).

Definition stage_post (c lim : Z) (s : stage) : Prop :=
  match s with
  | SRet rc used x => c <= used <= lim /\ (rc = c_MATRIXSSL_SUCCESS \/ rc = c_DTLS_RETRANSMIT) /\ wf_d x
  | SPartial req x => 0 < req <= c_SSL_MAX_RECORD_LEN + 13 /\ wf_d x
  | SAlert a x => wf_d x
  | SDecrypt off len h x => c <= off /\ 0 < len /\ off + len <= lim /\ wf_d x
  end.

(* ------------------------------------------------------------------ (a') TLS 1.3 header / CCS loop *)
Definition stage13_post (pos lim : Z) (s : stage13) : Prop :=
  match s with
  | TPartial req => 0 < req <= c_SSL_MAX_BUF_SIZE + c_TLS_1_3_MAX_CIPHERTEXT_LEN + 5
  | TAlert _ => True
  | TCcsDone rc used => pos < used /\ used = lim /\ (rc = c_SSL_SEND_RESPONSE \/ rc = c_MATRIXSSL_SUCCESS)
  | TRecord off len typ parsed => pos <= parsed /\ off = parsed + 5 /\ 0 < len <= c_TLS_1_3_MAX_CIPHERTEXT_LEN /\ off + len <= lim
  end.

(* ------------------------------------------------------------------ heap buffers *)
Definition written (m : fbuf) (i : Z) : Prop := exists v, nth_error m (Z.to_nat i) = Some (Some v).

(* ================================================================== (b) TLS <= 1.2 handshake reassembly *)
Definition prefix_written (m : fbuf) (n : Z) : Prop := forall i, 0 <= i < n -> written m i.

(* the reassembly state of a TLS / TLS 1.3 session: allocation = fragTotal, bytes [0, fragIndex) written *)
Definition inv_tls (fr : frag) : Prop :=
  match fr_msg fr with
  | None => True
  | Some m => lenZ m = fr_total fr /\ 0 <= fr_index fr <= fr_total fr /\ 1 <= fr_total fr <= c_hsLenMax + 4 /\
              prefix_written m (fr_index fr)
  end.

Definition msg13_post (p lim : Z) (m : msg13) : Prop :=
  match m with
  | MPartial p' => p < p' <= lim
  | MDone rc p' => p <= p' <= lim
  | MAlert _ p' => True
  end.

Definition out13_post (p lim trailer : Z) (decrypted : bool) (r : out13) : Prop :=
  match r with
  | ORet rc used => (rc = c_MATRIXSSL_SUCCESS -> p < used \/ (p = lim /\ p <= used)) /\
                    (rc = c_MATRIXSSL_SUCCESS -> used <= lim + (if decrypted then trailer else 0)) /\
                    (rc <> c_MATRIXSSL_SUCCESS -> used = 0)
  | OEncode _ => True
  end.

Definition iv_in (a b : Z) (h : iv) : Prop := a <= fst h /\ 0 <= snd h /\ fst h + snd h <= b.

Definition iv_disj (h1 h2 : iv) : Prop := fst h1 + snd h1 <= fst h2 \/ fst h2 + snd h2 <= fst h1.

Fixpoint pw_disj (l : list iv) : Prop :=
  match l with [] => True | h :: r => Forall (iv_disj h) r /\ pw_disj r end.

Definition sum_len (l : list iv) : Z := fold_right (fun h a => snd h + a) 0 l.

Definition covered (l : list iv) (i : Z) : Prop := exists h, In h l /\ fst h <= i < fst h + snd h.

(* ---- the reassembly invariant of a DTLS session *)
Definition inv_dtls (fr : frag) : Prop :=
  fr_index fr = 0 /\
  (fr_total fr = 0 -> fr_hdrs fr = []) /\
  (fr_total fr <> 0 ->
     exists m, fr_msg fr = Some m /\ lenZ m = fr_stored fr /\ fr_stored fr <= c_hsLenMax /\
       Forall (fun h => 0 <= fst h /\ 0 < snd h /\ fst h + snd h <= fr_stored fr) (fr_hdrs fr) /\
       pw_disj (fr_hdrs fr) /\ fr_total fr = sum_len (fr_hdrs fr) /\
       lenZ (fr_hdrs fr) <= c_MAX_FRAGMENTS /\
       (forall i, 0 <= i -> (written m i <-> covered (fr_hdrs fr) i))).

(* ================================================================== (d) API buffer arithmetic *)
Definition MAXB := c_SSL_MAX_BUF_SIZE.

Definition abuf_ok (a : abuf) : Prop :=
  0 <= a_inlen a /\ a_inlen a <= a_insize a /\ a_insize a <= MAXB /\
  0 <= a_outlen a /\ a_outlen a <= a_outsize a /\ a_outsize a <= MAXB /\
  0 < a_default a <= MAXB.

(* what matrixSslProcessedData needs from the state left by an APP_DATA / RECEIVED_ALERT return *)
Definition pd_ok (a : abuf) : Prop := a_inlen a > 0 -> 0 <= a_ctlen a /\ a_ctlen a + a_inlen a <= a_insize a.

Definition doc_neg (rc : Z) : Prop :=
  rc = c_PS_FAILURE \/ rc = c_PS_ARG_FAIL \/ rc = c_PS_PLATFORM_FAIL \/ rc = c_PS_MEM_FAIL \/ rc = c_PS_LIMIT_FAIL \/
  rc = c_PS_UNSUPPORTED_FAIL \/ rc = c_PS_DISABLED_FEATURE_FAIL \/ rc = c_PS_PROTOCOL_FAIL \/ rc = c_PS_TIMEOUT_FAIL \/
  rc = c_PS_INTERRUPT_FAIL \/ rc = c_PS_PARSE_FAIL \/ rc = c_PS_AUTH_FAIL \/ rc = c_PS_CERT_AUTH_FAIL.

(* documented results of matrixSslReceivedData / matrixSslProcessedData *)
Definition doc_rc (rc : Z) : Prop := (c_MATRIXSSL_SUCCESS <= rc <= c_MATRIXSSL_APP_DATA_COMPRESSED) \/ doc_neg rc.

(* contract of the record decoder as seen by the API loop (matrixSslDecode's interface comment, sslDecode.c 318-365) *)
Definition dec_contract (a : abuf) (d : dret) : Prop :=
  let rc := dr_rc d in
  ((rc = c_MATRIXSSL_SUCCESS \/ (a_dtls a = true /\ rc = c_DTLS_RETRANSMIT)) ->
     0 <= dr_moved d <= a_inlen a /\ (dr_moved d < a_inlen a -> 1 <= dr_moved d)) /\
  (rc = c_SSL_SEND_RESPONSE ->
     0 <= dr_moved d <= a_inlen a /\ 0 <= dr_len d <= a_insize a /\ (a_outlen a > 0 -> a_outlen a + dr_len d <= MAXB)) /\
  (rc = c_SSL_ALERT \/ rc = c_SSL_PROCESS_DATA -> 0 <= dr_ctlen d <= dr_moved d /\ dr_moved d <= a_inlen a) /\
  (rc = c_MATRIXSSL_ERROR -> doc_neg (dr_err d)).

Definition ret_post (r : api_ret) : Prop :=
  match r with ARet rc a => abuf_ok a /\ doc_rc rc /\ (rc = c_MATRIXSSL_APP_DATA \/ rc = c_MATRIXSSL_RECEIVED_ALERT -> pd_ok a) end.
