(* C20 - lock discipline of the shared structures (model; no proofs in this file).

   Gen/LockPaths.v (tools/srcgen/gen_lockpaths.py) gives, for every function of the library that
   touches a mutex or one of the shared structures (session table + chronological list, ticket-key
   list, CRL list, ECDHE key cache, PRNG state, CA list / identities / callbacks of the shared key
   set), its control-flow TREE.  Leaves: Lock m, Unlock m, Acc shared rw, Call f, Ret.

   This file defines
     - the path semantics of such trees (exec: every syntactic path, calls inlined),
     - what it means for a path to be well locked (wl),
     - the executable checker check_paths (abstract interpretation over the set of held mutexes),
     - an interleaving semantics of N threads over the leaf events with per-thread held sets (gvalid)
       and the happens-before relation (hb),
     - atomic-step operation histories (interleave / run_ops),
     - the abstract ticket-key list with the two-step "find + callback + use" operation of
       getTicketKeys (matrixssl/matrixssl.c 1726-1798) under both pinning disciplines. *)
From Coq Require Import List Bool Arith NArith String Lia.
Import ListNotations.

Definition mutex := nat.
Definition shared := nat.
Definition fid := nat.

Inductive rw := R | W.
Inductive leaf :=
| Lock (m : mutex) | Unlock (m : mutex) | Acc (x : shared) (k : rw) | Call (f : fid) | Ret.
Inductive tree :=
| TLeaf (l : leaf) | TSkip | TSeq (a b : tree) | TChoice (a b : tree)
| TLoop (b : tree)        (* zero or more iterations; `break` leaves it, `continue` starts the next one *)
| TCatch (b : tree)       (* switch body / do{}while(0): `break` leaves it *)
| TBreak | TContinue.

(* KEntry: checked from the empty lock set.  KHelper: written to run with locks held, checked in every
   calling context (all its callers are in the table).  KSetup: single-threaded set-up / tear-down by
   API contract.  KSummary: callee outside the table, body = the mutexes it may take.  KWaived:
   excluded by an open known finding. *)
Inductive fkind := KEntry | KHelper | KSetup | KSummary | KWaived.
Record fn_decl := { fn_id : fid; fn_name : string; fn_file : string; fn_line : N; fn_kind : fkind; fn_body : tree }.
Inductive pin_mode := PinNone | PinFlag | PinCounter.

(* ------------------------------------------------------------------------------------------- held sets *)
Definition held := list mutex.
Definition mem (m : mutex) (S : held) : bool := existsb (Nat.eqb m) S.
Fixpoint ins (m : mutex) (S : held) : held :=
  match S with
  | [] => [m]
  | h :: t => if m <? h then m :: S else if m =? h then S else h :: ins m t
  end.
Definition rem (m : mutex) (S : held) : held := filter (fun h => negb (h =? m)) S.
Fixpoint held_eqb (a b : held) : bool :=
  match a, b with
  | [], [] => true
  | x :: a', y :: b' => (x =? y) && held_eqb a' b'
  | _, _ => false
  end.

Fixpoint assoc {A} (k : nat) (l : list (nat * A)) : option A :=
  match l with [] => None | (k', v) :: t => if k =? k' then Some v else assoc k t end.

Record config := { c_mutex_of : list (shared * option mutex); c_rank : list (mutex * nat) }.

Section Checker.
Variable cfg : config.
Variable ps : list fn_decl.

Definition mutex_of (x : shared) : option (option mutex) := assoc x (c_mutex_of cfg).
Definition rank (m : mutex) : option nat := assoc m (c_rank cfg).

(* an access is allowed: its mutex is held; an object without mutex (set-up only) may only be read *)
Definition guarded (S : held) (x : shared) (k : rw) : bool :=
  match mutex_of x with
  | Some (Some m) => mem m S
  | Some None => match k with R => true | W => false end
  | None => false
  end.
(* m may be taken while S is held: strictly above everything held in the declared lock order *)
Definition rank_ok (m : mutex) (S : held) : bool :=
  match rank m with
  | None => false
  | Some r => forallb (fun h => match rank h with Some rh => rh <? r | None => false end) S
  end.

Fixpoint lookup (f : fid) (l : list fn_decl) : option fn_decl :=
  match l with [] => None | d :: t => if fn_id d =? f then Some d else lookup f t end.

Definition is_waived (d : fn_decl) : bool := match fn_kind d with KWaived => true | _ => false end.

(* ------------------------------------------------------------------------------------------- paths *)
Inductive ev := ELock (m : mutex) | EUnlock (m : mutex) | EAcc (x : shared) (k : rw).
Inductive xk := XN | XB | XC | XR.     (* normal / break / continue / return *)

Inductive exec : tree -> list ev -> xk -> Prop :=
| ex_lock m : exec (TLeaf (Lock m)) [ELock m] XN
| ex_unlock m : exec (TLeaf (Unlock m)) [EUnlock m] XN
| ex_acc x k : exec (TLeaf (Acc x k)) [EAcc x k] XN
| ex_ret : exec (TLeaf Ret) [] XR
| ex_call f d tr x : lookup f ps = Some d -> is_waived d = false -> exec (fn_body d) tr x -> x = XN \/ x = XR ->
                     exec (TLeaf (Call f)) tr XN
| ex_call_waived f d : lookup f ps = Some d -> is_waived d = true -> exec (TLeaf (Call f)) [] XN
| ex_skip : exec TSkip [] XN
| ex_seq a b t1 t2 x : exec a t1 XN -> exec b t2 x -> exec (TSeq a b) (t1 ++ t2) x
| ex_seq_exit a b t1 x : exec a t1 x -> x <> XN -> exec (TSeq a b) t1 x
| ex_choice_l a b t x : exec a t x -> exec (TChoice a b) t x
| ex_choice_r a b t x : exec b t x -> exec (TChoice a b) t x
| ex_loop_done b : exec (TLoop b) [] XN
| ex_loop_iter b t1 t2 x1 x : exec b t1 x1 -> x1 = XN \/ x1 = XC -> exec (TLoop b) t2 x -> exec (TLoop b) (t1 ++ t2) x
| ex_loop_break b t1 : exec b t1 XB -> exec (TLoop b) t1 XN
| ex_loop_ret b t1 : exec b t1 XR -> exec (TLoop b) t1 XR
| ex_catch b t x : exec b t x -> exec (TCatch b) t (match x with XB => XN | _ => x end)
| ex_break : exec TBreak [] XB
| ex_continue : exec TContinue [] XC.

(* a path is well locked from the held set S: result = held set at its end *)
Fixpoint wl (S : held) (tr : list ev) : option held :=
  match tr with
  | [] => Some S
  | ELock m :: tr' => if mem m S then None else if rank_ok m S then wl (ins m S) tr' else None
  | EUnlock m :: tr' => if mem m S then wl (rem m S) tr' else None
  | EAcc x k :: tr' => if guarded S x k then wl S tr' else None
  end.

(* ------------------------------------------------------------------------------------------- checker *)
Record out := { o_norm : option held; o_brk : option held; o_cont : option held; o_ret : bool }.

Definition joinh (a b : option held) : option (option held) :=
  match a, b with
  | None, x => Some x
  | x, None => Some x
  | Some p, Some q => if held_eqb p q then Some (Some p) else None
  end.
Definition at_or_none (S : held) (a : option held) : bool :=
  match a with None => true | Some p => held_eqb p S end.
Definition is_none (a : option held) : bool := match a with None => true | Some _ => false end.

Fixpoint run (fuel : nat) (H0 : held) (t : tree) (S : held) : option out :=
  match fuel with
  | O => None
  | Datatypes.S n =>
    match t with
    | TSkip => Some {| o_norm := Some S; o_brk := None; o_cont := None; o_ret := false |}
    | TBreak => Some {| o_norm := None; o_brk := Some S; o_cont := None; o_ret := false |}
    | TContinue => Some {| o_norm := None; o_brk := None; o_cont := Some S; o_ret := false |}
    | TLeaf Ret => if held_eqb S H0 then Some {| o_norm := None; o_brk := None; o_cont := None; o_ret := true |} else None
    | TLeaf (Lock m) =>
        if mem m S then None
        else if rank_ok m S then Some {| o_norm := Some (ins m S); o_brk := None; o_cont := None; o_ret := false |} else None
    | TLeaf (Unlock m) =>
        if mem m S then Some {| o_norm := Some (rem m S); o_brk := None; o_cont := None; o_ret := false |} else None
    | TLeaf (Acc x k) =>
        if guarded S x k then Some {| o_norm := Some S; o_brk := None; o_cont := None; o_ret := false |} else None
    | TLeaf (Call f) =>
        match lookup f ps with
        | None => None
        | Some d =>
          if is_waived d then Some {| o_norm := Some S; o_brk := None; o_cont := None; o_ret := false |}
          else match run n S (fn_body d) S with
               | None => None
               | Some o =>
                 if is_none (o_brk o) && is_none (o_cont o) && at_or_none S (o_norm o)
                 then Some {| o_norm := Some S; o_brk := None; o_cont := None; o_ret := false |}
                 else None
               end
        end
    | TSeq a b =>
        match run n H0 a S with
        | None => None
        | Some oa =>
          match o_norm oa with
          | None => Some oa
          | Some S1 =>
            match run n H0 b S1 with
            | None => None
            | Some ob =>
              match joinh (o_brk oa) (o_brk ob), joinh (o_cont oa) (o_cont ob) with
              | Some bk, Some ct => Some {| o_norm := o_norm ob; o_brk := bk; o_cont := ct; o_ret := o_ret oa || o_ret ob |}
              | _, _ => None
              end
            end
          end
        end
    | TChoice a b =>
        match run n H0 a S, run n H0 b S with
        | Some oa, Some ob =>
          match joinh (o_norm oa) (o_norm ob), joinh (o_brk oa) (o_brk ob), joinh (o_cont oa) (o_cont ob) with
          | Some nm, Some bk, Some ct => Some {| o_norm := nm; o_brk := bk; o_cont := ct; o_ret := o_ret oa || o_ret ob |}
          | _, _, _ => None
          end
        | _, _ => None
        end
    | TLoop b =>
        match run n H0 b S with
        | None => None
        | Some ob =>
          (* loop invariant: the held set at the loop head is S on every iteration *)
          if at_or_none S (o_norm ob) && at_or_none S (o_cont ob)
          then match joinh (Some S) (o_brk ob) with
               | Some nm => Some {| o_norm := nm; o_brk := None; o_cont := None; o_ret := o_ret ob |}
               | None => None
               end
          else None
        end
    | TCatch b =>
        match run n H0 b S with
        | None => None
        | Some ob =>
          match joinh (o_norm ob) (o_brk ob) with
          | Some nm => Some {| o_norm := nm; o_brk := None; o_cont := o_cont ob; o_ret := o_ret ob |}
          | None => None
          end
        end
    end
  end.

Definition fuel0 : nat := 200 * 200.

Definition check_entry_f (fuel : nat) (d : fn_decl) : bool :=
  match run fuel [] (fn_body d) [] with
  | Some o => is_none (o_brk o) && is_none (o_cont o) && at_or_none [] (o_norm o)
  | None => false
  end.
Definition check_entry : fn_decl -> bool := check_entry_f fuel0.
Definition is_entry (d : fn_decl) : bool := match fn_kind d with KEntry => true | _ => false end.

Definition check_paths : bool := forallb (fun d => if is_entry d then check_entry d else true) ps.
(* names of the entry functions that fail (diagnostics for props/C20.py) *)
Definition failing : list string := map fn_name (filter (fun d => is_entry d && negb (check_entry d)) ps).

End Checker.

(* ------------------------------------------------------------------------------------------- interleavings *)
(* N threads; every thread has its held set; a mutex can be taken only when no thread holds it
   (pthread mutex semantics); every access must be guarded in the accessing thread (this is what the
   per-path theorem provides for each thread's own trace). *)
Definition tid := nat.
Definition hmap := tid -> held.
Definition upd (H : hmap) (t : tid) (S : held) : hmap := fun t' => if t' =? t then S else H t'.

Section Inter.
Variable cfg : config.

Inductive gvalid : hmap -> list (tid * ev) -> Prop :=
| gv_nil H : gvalid H []
| gv_lock H t m s : (forall t', ~ In m (H t')) -> gvalid (upd H t (ins m (H t))) s -> gvalid H ((t, ELock m) :: s)
| gv_unlock H t m s : In m (H t) -> gvalid (upd H t (rem m (H t))) s -> gvalid H ((t, EUnlock m) :: s)
| gv_acc H t x k s : guarded cfg (H t) x k = true -> gvalid H s -> gvalid H ((t, EAcc x k) :: s).

(* mutual exclusion invariant *)
Definition excl (H : hmap) : Prop := forall t t' m, In m (H t) -> In m (H t') -> t = t'.

(* happens-before over positions of an interleaving: program order, unlock -> later lock of the same
   mutex, transitivity *)
Inductive hb (s : list (tid * ev)) : nat -> nat -> Prop :=
| hb_po i j t e1 e2 : i < j -> nth_error s i = Some (t, e1) -> nth_error s j = Some (t, e2) -> hb s i j
| hb_sync i j t1 t2 m : i < j -> nth_error s i = Some (t1, EUnlock m) -> nth_error s j = Some (t2, ELock m) -> hb s i j
| hb_trans i j k : hb s i j -> hb s j k -> hb s i k.

End Inter.

(* ------------------------------------------------------------------------------------------- atomic steps *)
(* Every critical section is one atomic step on the abstract state.  An operation belongs to a thread
   (connection); a schedule is any interleaving of the threads' operation lists. *)
Section Atomic.
Variables (St Op Res : Type).
Variable step : Op -> St -> St * Res.

(* thread programs as a function tid -> remaining operations (finitely many non-empty) *)
Inductive interleave : (nat -> list Op) -> list (nat * Op) -> Prop :=
| il_nil P : (forall i, P i = []) -> interleave P []
| il_cons P i o l s : P i = o :: l -> interleave (fun j => if j =? i then l else P j) s -> interleave P ((i, o) :: s).

Fixpoint run_ops (s : list (nat * Op)) (st : St) : St * list (nat * Res) :=
  match s with
  | [] => (st, [])
  | (i, o) :: s' => let (st', r) := step o st in let (stf, rs) := run_ops s' st' in (stf, (i, r) :: rs)
  end.

Definition thread_of {A} (i : nat) (l : list (nat * A)) : list A := map snd (filter (fun p => fst p =? i) l).
End Atomic.

(* ------------------------------------------------------------------------------------------- ticket keys *)
(* Abstract ticket-key list (keys->sessTickets) with the compound operation of getTicketKeys when a
   ticket_cb is registered:
     step 1 (under g_sessTicketLock): find the key by name, pin it, remember the POINTER   [TkFind]
     -- lock dropped, user callback runs, lock re-taken --
     step 2 (under the lock): continue with the remembered pointer                           [TkUse]
     end of matrixUnlockSessionTicket (under the lock): unpin                                [TkRelease]
   matrixSslDeleteSessionTicketKey (under the lock) frees a key whose inUse is 0.            [TkDelete]
   PinFlag:    pin = `inUse = 1`, unpin = `inUse = 0`      (the code as found)
   PinCounter: pin = `inUse++`,   unpin = `inUse--`        (pending fix C20-ticket-key-refcount) *)
Record tkey := { tk_name : nat; tk_inuse : nat }.
Inductive tkop := TkFind (name : nat) | TkUse | TkRelease | TkDelete (name : nat) | TkLoad (name : nat).
Record tkstate := { tk_list : list tkey; tk_ptr : tid -> option nat; tk_uaf : bool }.

Definition pin (md : pin_mode) (k : tkey) : tkey :=
  {| tk_name := tk_name k; tk_inuse := match md with PinCounter => Datatypes.S (tk_inuse k) | _ => 1 end |}.
Definition unpin (md : pin_mode) (k : tkey) : tkey :=
  {| tk_name := tk_name k; tk_inuse := match md with PinCounter => pred (tk_inuse k) | _ => 0 end |}.
Definition on_key (f : tkey -> tkey) (name : nat) (l : list tkey) : list tkey :=
  map (fun k => if tk_name k =? name then f k else k) l.
Definition has_key (name : nat) (l : list tkey) : bool := existsb (fun k => tk_name k =? name) l.

Definition tk_step (md : pin_mode) (t : tid) (o : tkop) (s : tkstate) : tkstate :=
  match o with
  | TkFind name =>
      if has_key name (tk_list s)
      then {| tk_list := on_key (pin md) name (tk_list s); tk_ptr := fun t' => if t' =? t then Some name else tk_ptr s t'; tk_uaf := tk_uaf s |}
      else s
  | TkUse =>
      match tk_ptr s t with
      | Some name => if has_key name (tk_list s) then s else {| tk_list := tk_list s; tk_ptr := tk_ptr s; tk_uaf := true |}
      | None => s
      end
  | TkRelease =>
      match tk_ptr s t with
      | Some name => {| tk_list := on_key (unpin md) name (tk_list s); tk_ptr := fun t' => if t' =? t then None else tk_ptr s t'; tk_uaf := tk_uaf s |}
      | None => s
      end
  | TkDelete name =>
      {| tk_list := filter (fun k => negb ((tk_name k =? name) && (tk_inuse k =? 0))) (tk_list s); tk_ptr := tk_ptr s; tk_uaf := tk_uaf s |}
  | TkLoad name =>
      if has_key name (tk_list s) then s
      else {| tk_list := tk_list s ++ [{| tk_name := name; tk_inuse := 0 |}]; tk_ptr := tk_ptr s; tk_uaf := tk_uaf s |}
  end.

Fixpoint tk_run (md : pin_mode) (sch : list (tid * tkop)) (s : tkstate) : tkstate :=
  match sch with [] => s | (t, o) :: r => tk_run md r (tk_step md t o s) end.

(* a thread is well formed when it uses the protocol: Find; Use; Release (or deletes / loads keys) *)
Fixpoint tk_wf_thread (l : list tkop) : bool :=
  match l with
  | [] => true
  | TkFind _ :: TkUse :: TkRelease :: r => tk_wf_thread r
  | TkDelete _ :: r => tk_wf_thread r
  | TkLoad _ :: r => tk_wf_thread r
  | _ => false
  end.

(* all interleavings of finitely many threads (bounded exhaustive exploration inside Coq) *)
Fixpoint pick_each {A} (pre : list (tid * list A)) (ths : list (tid * list A)) : list (tid * A * list (tid * list A)) :=
  match ths with
  | [] => []
  | (t, []) :: r => pick_each (pre ++ [(t, [])]) r
  | (t, o :: l) :: r => (t, o, pre ++ (t, l) :: r) :: pick_each (pre ++ [(t, o :: l)]) r
  end.
Fixpoint all_il {A} (fuel : nat) (ths : list (tid * list A)) : list (list (tid * A)) :=
  match fuel with
  | O => [[]]
  | Datatypes.S n =>
      match pick_each [] ths with
      | [] => [[]]
      | cs => flat_map (fun c => match c with (t, o, rest) => map (cons (t, o)) (all_il n rest) end) cs
      end
  end.
Definition tk_init (names : list nat) : tkstate :=
  {| tk_list := map (fun n => {| tk_name := n; tk_inuse := 0 |}) names; tk_ptr := fun _ => None; tk_uaf := false |}.
Definition total_ops {A} (ths : list (tid * list A)) : nat := fold_right (fun p n => List.length (snd p) + n) 0 ths.

