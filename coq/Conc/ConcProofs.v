(* C20 - proofs: soundness of the lock-discipline checker, data-race freedom of well-locked
   interleavings, atomic-step serialisability, ticket-key pinning across the dropped lock. *)
From Coq Require Import List Bool Arith NArith String Lia Permutation.
Import ListNotations.
From MV Require Import Conc.ConcModel.

(* ------------------------------------------------------------------------------------------- held sets *)
Lemma mem_In m S : mem m S = true <-> In m S.
Proof.
  unfold mem. rewrite existsb_exists. split.
  - intros [x [Hx He]]. apply Nat.eqb_eq in He. subst. exact Hx.
  - intros H. exists m. split; [exact H | apply Nat.eqb_refl].
Qed.

Lemma mem_false m S : mem m S = false <-> ~ In m S.
Proof. rewrite <- mem_In. destruct (mem m S); split; congruence. Qed.

Lemma In_ins x m S : In x (ins m S) <-> x = m \/ In x S.
Proof.
  induction S as [|h t IH]; simpl.
  - intuition.
  - destruct (m <? h) eqn:E1; simpl; [intuition|].
    destruct (m =? h) eqn:E2; simpl.
    + apply Nat.eqb_eq in E2. subst. intuition.
    + rewrite IH. intuition.
Qed.

Lemma In_rem x m S : In x (rem m S) <-> x <> m /\ In x S.
Proof.
  unfold rem. rewrite filter_In. split.
  - intros [Hi Hn]. apply negb_true_iff in Hn. apply Nat.eqb_neq in Hn. tauto.
  - intros [Hn Hi]. split; [exact Hi|]. apply negb_true_iff. apply Nat.eqb_neq. exact Hn.
Qed.

Lemma held_eqb_eq a b : held_eqb a b = true -> a = b.
Proof.
  revert b. induction a as [|x a IH]; destruct b as [|y b]; simpl; try congruence.
  intros H. apply andb_true_iff in H. destruct H as [H1 H2]. apply Nat.eqb_eq in H1. f_equal; auto.
Qed.

Lemma held_eqb_refl a : held_eqb a a = true.
Proof. induction a; simpl; auto. rewrite Nat.eqb_refl. exact IHa. Qed.

Local Arguments joinh : simpl never.
Local Arguments at_or_none : simpl never.
Local Arguments is_none : simpl never.
Local Arguments guarded : simpl never.
Local Arguments rank_ok : simpl never.
Local Arguments mem : simpl never.
Local Arguments held_eqb : simpl never.
Local Arguments lookup : simpl never.
Local Arguments is_waived : simpl never.

Strategy opaque [fuel0].

Section Sound.
Variable cfg : config.
Variable ps : list fn_decl.

Notation wl := (wl cfg).
Notation run := (run cfg ps).
Notation exec := (exec ps).

Lemma wl_app S t1 t2 : wl S (t1 ++ t2) = match wl S t1 with Some S1 => wl S1 t2 | None => None end.
Proof.
  revert S. induction t1 as [|e t1 IH]; intros S; simpl; [reflexivity|].
  destruct e.
  - destruct (mem m S); [reflexivity|]. destruct (rank_ok cfg m S); [apply IH|reflexivity].
  - destruct (mem m S); [apply IH|reflexivity].
  - destruct (guarded cfg S x k); [apply IH|reflexivity].
Qed.

Lemma joinh_l a b c S : joinh a b = Some c -> a = Some S -> c = Some S.
Proof.
  unfold joinh. intros H E. subst. destruct b as [q|].
  - destruct (held_eqb S q); congruence.
  - congruence.
Qed.

Lemma joinh_r a b c S : joinh a b = Some c -> b = Some S -> c = Some S.
Proof.
  unfold joinh. intros H E. subst. destruct a as [p|].
  - destruct (held_eqb p S) eqn:Eq; [|congruence]. apply held_eqb_eq in Eq. congruence.
  - congruence.
Qed.

Lemma at_or_none_some S a S' : at_or_none S a = true -> a = Some S' -> S' = S.
Proof. unfold at_or_none. intros H E. subst. apply held_eqb_eq. exact H. Qed.

Lemma is_none_true a : is_none a = true -> a = None.
Proof. destruct a; unfold is_none; congruence. Qed.

(* what the abstract outcome says about a concrete path end *)
Definition covers (o : out) (H0 : held) (x : xk) (S' : held) : Prop :=
  match x with
  | XN => o_norm o = Some S'
  | XB => o_brk o = Some S'
  | XC => o_cont o = Some S'
  | XR => o_ret o = true /\ S' = H0
  end.

Theorem run_sound :
  forall t tr x, exec t tr x ->
  forall fuel H0 S o, run fuel H0 t S = Some o ->
  exists S', wl S tr = Some S' /\ covers o H0 x S'.
Proof.
  induction 1 as [ m | m | y k | | f d tr x Hlk Hwv Hex IH Hx | f d Hlk Hwv | | a b t1 t2 x He1 IH1 He2 IH2
                 | a b t1 x He IH Hne | a b t x He IH | a b t x He IH | b | b t1 t2 x1 x He1 IH1 Hx1 He2 IH2
                 | b t1 He IH | b t1 He IH | b t x He IH | | ];
    intros fuel E0 S o Hrun; (destruct fuel as [|n]; [discriminate|]); simpl in Hrun.
  - (* lock *)
    destruct (mem m S) eqn:Em; [discriminate|]. destruct (rank_ok cfg m S) eqn:Er; [|discriminate].
    inversion Hrun; subst. exists (ins m S). simpl. rewrite Em, Er. split; reflexivity.
  - (* unlock *)
    destruct (mem m S) eqn:Em; [|discriminate]. inversion Hrun; subst.
    exists (rem m S). simpl. rewrite Em. split; reflexivity.
  - (* acc *)
    destruct (guarded cfg S y k) eqn:Eg; [|discriminate]. inversion Hrun; subst.
    exists S. simpl. rewrite Eg. split; reflexivity.
  - (* ret *)
    destruct (held_eqb S E0) eqn:Eq; [|discriminate]. inversion Hrun; subst.
    exists S. simpl. split; [reflexivity|]. split; [reflexivity|]. apply held_eqb_eq. exact Eq.
  - (* call *)
    rewrite Hlk in Hrun. rewrite Hwv in Hrun.
    destruct (ConcModel.run cfg ps n S (fn_body d) S) as [o'|] eqn:Eb; [|discriminate].
    destruct (is_none (o_brk o') && is_none (o_cont o') && at_or_none S (o_norm o')) eqn:Ec; [|discriminate].
    inversion Hrun; subst. clear Hrun.
    apply andb_true_iff in Ec. destruct Ec as [Ec Ea]. apply andb_true_iff in Ec. destruct Ec as [Ebk Ect].
    destruct (IH _ _ _ _ Eb) as [S' [Hw Hc]].
    exists S. simpl. split; [|reflexivity].
    destruct Hx as [-> | ->]; simpl in Hc.
    + rewrite (at_or_none_some _ _ _ Ea Hc) in Hw. exact Hw.
    + destruct Hc as [_ ->]. exact Hw.
  - (* waived call *)
    rewrite Hlk in Hrun. rewrite Hwv in Hrun. inversion Hrun; subst. exists S. split; reflexivity.
  - (* skip *)
    inversion Hrun; subst. exists S. split; reflexivity.
  - (* seq, first part normal *)
    destruct (ConcModel.run cfg ps n E0 a S) as [oa|] eqn:Ea; [|discriminate].
    destruct (IH1 _ _ _ _ Ea) as [S1 [Hw1 Hc1]]. simpl in Hc1. rewrite Hc1 in Hrun.
    destruct (ConcModel.run cfg ps n E0 b S1) as [ob|] eqn:Eb; [|discriminate].
    destruct (joinh (o_brk oa) (o_brk ob)) as [bk|] eqn:Ejb; [|discriminate].
    destruct (joinh (o_cont oa) (o_cont ob)) as [ct|] eqn:Ejc; [|discriminate].
    inversion Hrun; subst. clear Hrun.
    destruct (IH2 _ _ _ _ Eb) as [S2 [Hw2 Hc2]].
    exists S2. rewrite wl_app, Hw1. split; [exact Hw2|].
    destruct x; simpl in *.
    + exact Hc2.
    + eapply joinh_r; eauto.
    + eapply joinh_r; eauto.
    + destruct Hc2 as [Hr ->]. split; [|reflexivity]. rewrite Hr. apply orb_true_r.
  - (* seq, first part exits *)
    destruct (ConcModel.run cfg ps n E0 a S) as [oa|] eqn:Ea; [|discriminate].
    destruct (IH _ _ _ _ Ea) as [S1 [Hw1 Hc1]].
    exists S1. split; [exact Hw1|].
    destruct (o_norm oa) as [Sn|] eqn:En.
    + destruct (ConcModel.run cfg ps n E0 b Sn) as [ob|] eqn:Eb; [|discriminate].
      destruct (joinh (o_brk oa) (o_brk ob)) as [bk|] eqn:Ejb; [|discriminate].
      destruct (joinh (o_cont oa) (o_cont ob)) as [ct|] eqn:Ejc; [|discriminate].
      inversion Hrun; subst. clear Hrun.
      destruct x; simpl in *.
      * congruence.
      * eapply joinh_l; eauto.
      * eapply joinh_l; eauto.
      * destruct Hc1 as [Hr ->]. split; [|reflexivity]. rewrite Hr. reflexivity.
    + inversion Hrun; subst. exact Hc1.
  - (* choice left *)
    destruct (ConcModel.run cfg ps n E0 a S) as [oa|] eqn:Ea; [|discriminate].
    destruct (ConcModel.run cfg ps n E0 b S) as [ob|] eqn:Eb; [|discriminate].
    destruct (joinh (o_norm oa) (o_norm ob)) as [nm|] eqn:Ejn; [|discriminate].
    destruct (joinh (o_brk oa) (o_brk ob)) as [bk|] eqn:Ejb; [|discriminate].
    destruct (joinh (o_cont oa) (o_cont ob)) as [ct|] eqn:Ejc; [|discriminate].
    inversion Hrun; subst. clear Hrun.
    destruct (IH _ _ _ _ Ea) as [S1 [Hw1 Hc1]]. exists S1. split; [exact Hw1|].
    destruct x; simpl in *; try (eapply joinh_l; eauto; fail).
    destruct Hc1 as [Hr ->]. split; [|reflexivity]. rewrite Hr. reflexivity.
  - (* choice right *)
    destruct (ConcModel.run cfg ps n E0 a S) as [oa|] eqn:Ea; [|discriminate].
    destruct (ConcModel.run cfg ps n E0 b S) as [ob|] eqn:Eb; [|discriminate].
    destruct (joinh (o_norm oa) (o_norm ob)) as [nm|] eqn:Ejn; [|discriminate].
    destruct (joinh (o_brk oa) (o_brk ob)) as [bk|] eqn:Ejb; [|discriminate].
    destruct (joinh (o_cont oa) (o_cont ob)) as [ct|] eqn:Ejc; [|discriminate].
    inversion Hrun; subst. clear Hrun.
    destruct (IH _ _ _ _ Eb) as [S1 [Hw1 Hc1]]. exists S1. split; [exact Hw1|].
    destruct x; simpl in *; try (eapply joinh_r; eauto; fail).
    destruct Hc1 as [Hr ->]. split; [|reflexivity]. rewrite Hr. apply orb_true_r.
  - (* loop: zero iterations *)
    destruct (ConcModel.run cfg ps n E0 b S) as [ob|] eqn:Eb; [|discriminate].
    destruct (at_or_none S (o_norm ob) && at_or_none S (o_cont ob)) eqn:Ei; [|discriminate].
    destruct (joinh (Some S) (o_brk ob)) as [nm|] eqn:Ej; [|discriminate].
    inversion Hrun; subst. exists S. split; [reflexivity|]. simpl. eapply joinh_l; eauto.
  - (* loop: one iteration, then the loop again from the same held set *)
    destruct (ConcModel.run cfg ps n E0 b S) as [ob|] eqn:Eb; [|discriminate].
    destruct (at_or_none S (o_norm ob) && at_or_none S (o_cont ob)) eqn:Ei; [|discriminate].
    destruct (joinh (Some S) (o_brk ob)) as [nm|] eqn:Ej; [|discriminate].
    destruct (IH1 _ _ _ _ Eb) as [S1 [Hw1 Hc1]].
    apply andb_true_iff in Ei. destruct Ei as [Ein Eic].
    assert (S1 = S) as ->.
    { destruct Hx1 as [-> | ->]; simpl in Hc1.
      - exact (at_or_none_some _ _ _ Ein Hc1).
      - exact (at_or_none_some _ _ _ Eic Hc1). }
    assert (Hrun' : ConcModel.run cfg ps (Datatypes.S n) E0 (TLoop b) S = Some o).
    { simpl. rewrite Eb, Ein, Eic. simpl. rewrite Ej. exact Hrun. }
    destruct (IH2 _ _ _ _ Hrun') as [S2 [Hw2 Hc2]].
    exists S2. rewrite wl_app, Hw1. split; assumption.
  - (* loop: break *)
    destruct (ConcModel.run cfg ps n E0 b S) as [ob|] eqn:Eb; [|discriminate].
    destruct (at_or_none S (o_norm ob) && at_or_none S (o_cont ob)) eqn:Ei; [|discriminate].
    destruct (joinh (Some S) (o_brk ob)) as [nm|] eqn:Ej; [|discriminate].
    inversion Hrun; subst.
    destruct (IH _ _ _ _ Eb) as [S1 [Hw1 Hc1]]. simpl in Hc1.
    exists S1. split; [exact Hw1|]. simpl. eapply joinh_r; eauto.
  - (* loop: return *)
    destruct (ConcModel.run cfg ps n E0 b S) as [ob|] eqn:Eb; [|discriminate].
    destruct (at_or_none S (o_norm ob) && at_or_none S (o_cont ob)) eqn:Ei; [|discriminate].
    destruct (joinh (Some S) (o_brk ob)) as [nm|] eqn:Ej; [|discriminate].
    inversion Hrun; subst.
    destruct (IH _ _ _ _ Eb) as [S1 [Hw1 Hc1]]. simpl in Hc1.
    exists S1. split; [exact Hw1|]. exact Hc1.
  - (* catch *)
    destruct (ConcModel.run cfg ps n E0 b S) as [ob|] eqn:Eb; [|discriminate].
    destruct (joinh (o_norm ob) (o_brk ob)) as [nm|] eqn:Ej; [|discriminate].
    inversion Hrun; subst.
    destruct (IH _ _ _ _ Eb) as [S1 [Hw1 Hc1]].
    exists S1. split; [exact Hw1|].
    destruct x; simpl in *.
    + eapply joinh_l; eauto.
    + eapply joinh_r; eauto.
    + exact Hc1.
    + exact Hc1.
  - (* break *)
    inversion Hrun; subst. exists S. split; reflexivity.
  - (* continue *)
    inversion Hrun; subst. exists S. split; reflexivity.
Qed.

(* ------------------------------------------------------------------------------------------- the four clauses *)
(* position-wise reading of wl: what held before a given event of a well-locked path *)
Lemma wl_split S pre e post S' :
  wl S (pre ++ e :: post) = Some S' -> exists Sm, wl S pre = Some Sm /\ wl Sm (e :: post) = Some S'.
Proof.
  rewrite wl_app. destruct (wl S pre) as [Sm|]; [|discriminate]. intros H. exists Sm. split; [reflexivity|exact H].
Qed.

Definition lt_rank (a b : mutex) : Prop :=
  exists ra rb, rank cfg a = Some ra /\ rank cfg b = Some rb /\ ra < rb.

Lemma rank_ok_lt m S : rank_ok cfg m S = true -> forall h, In h S -> lt_rank h m.
Proof.
  unfold rank_ok. destruct (rank cfg m) as [r|] eqn:Er; [|discriminate].
  rewrite forallb_forall. intros H h Hh. specialize (H h Hh).
  destruct (rank cfg h) as [rh|] eqn:Eh; [|discriminate].
  apply Nat.ltb_lt in H. exists rh, r. auto.
Qed.

(* every access happens while the mutex of the object is held (objects without a mutex are only read) *)
Lemma wl_acc S pre x k post S' :
  wl S (pre ++ EAcc x k :: post) = Some S' ->
  exists Sm, wl S pre = Some Sm /\
    match mutex_of cfg x with
    | Some (Some m) => In m Sm
    | Some None => k = R
    | None => False
    end.
Proof.
  intros H. destruct (wl_split _ _ _ _ _ H) as [Sm [Hp Hq]]. exists Sm. split; [exact Hp|].
  simpl in Hq. destruct (guarded cfg Sm x k) eqn:Eg; [|discriminate].
  unfold guarded in Eg. destruct (mutex_of cfg x) as [[m|]|].
  - apply mem_In. exact Eg.
  - destruct k; [reflexivity|discriminate].
  - discriminate.
Qed.

(* no mutex is taken while it is already held, and only above everything held in the lock order *)
Lemma wl_lock S pre m post S' :
  wl S (pre ++ ELock m :: post) = Some S' ->
  exists Sm, wl S pre = Some Sm /\ ~ In m Sm /\ forall h, In h Sm -> lt_rank h m.
Proof.
  intros H. destruct (wl_split _ _ _ _ _ H) as [Sm [Hp Hq]]. exists Sm. split; [exact Hp|].
  simpl in Hq. destruct (mem m Sm) eqn:Em; [discriminate|]. destruct (rank_ok cfg m Sm) eqn:Er; [|discriminate].
  split; [apply mem_false; exact Em | apply rank_ok_lt; exact Er].
Qed.

Lemma wl_unlock S pre m post S' :
  wl S (pre ++ EUnlock m :: post) = Some S' -> exists Sm, wl S pre = Some Sm /\ In m Sm.
Proof.
  intros H. destruct (wl_split _ _ _ _ _ H) as [Sm [Hp Hq]]. exists Sm. split; [exact Hp|].
  simpl in Hq. destruct (mem m Sm) eqn:Em; [|discriminate]. apply mem_In. exact Em.
Qed.

(* the lock order is a strict order, hence acyclic *)
Lemma lt_rank_trans a b c : lt_rank a b -> lt_rank b c -> lt_rank a c.
Proof.
  intros [ra [rb [Ha [Hb Hab]]]] [rb' [rc [Hb' [Hc Hbc]]]]. rewrite Hb in Hb'. inversion Hb'; subst.
  exists ra, rc. repeat split; auto. lia.
Qed.

Lemma lt_rank_irrefl a : ~ lt_rank a a.
Proof. intros [ra [rb [Ha [Hb Hab]]]]. rewrite Ha in Hb. inversion Hb; subst. lia. Qed.

Inductive tc (Rel : mutex -> mutex -> Prop) : mutex -> mutex -> Prop :=
| tc_one a b : Rel a b -> tc Rel a b
| tc_step a b c : Rel a b -> tc Rel b c -> tc Rel a c.

Lemma lock_order_acyclic (Rel : mutex -> mutex -> Prop) :
  (forall a b, Rel a b -> lt_rank a b) -> forall a, ~ tc Rel a a.
Proof.
  intros Hsub a Hc.
  assert (Hlt : forall x y, tc Rel x y -> lt_rank x y).
  { induction 1; [auto|]. eapply lt_rank_trans; eauto. }
  exact (lt_rank_irrefl a (Hlt _ _ Hc)).
Qed.

(* "b is taken while a is held" on some path of some entry function *)
Definition takes_while_held (a b : mutex) : Prop :=
  exists d tr x pre post Sm, In d ps /\ is_entry d = true /\ exec (fn_body d) tr x /\
    tr = pre ++ ELock b :: post /\ wl [] pre = Some Sm /\ In a Sm.

Lemma check_entry_f_sound fuel d :
  check_entry_f cfg ps fuel d = true ->
  forall tr x, exec (fn_body d) tr x -> wl [] tr = Some [] /\ (x = XN \/ x = XR).
Proof.
  unfold check_entry_f. intros Hall tr x Hex.
  destruct (ConcModel.run cfg ps fuel [] (fn_body d) []) as [o|] eqn:Er; [|discriminate].
  apply andb_true_iff in Hall. destruct Hall as [Hall Hn]. apply andb_true_iff in Hall. destruct Hall as [Hb Hc].
  apply is_none_true in Hb. apply is_none_true in Hc.
  destruct (run_sound _ _ _ Hex _ _ _ _ Er) as [S' [Hw Hcov]].
  destruct x; simpl in Hcov.
  - rewrite (at_or_none_some _ _ _ Hn Hcov) in Hw. split; [exact Hw|]. left; reflexivity.
  - congruence.
  - congruence.
  - destruct Hcov as [_ ->]. split; [exact Hw|]. right; reflexivity.
Qed.

Theorem checker_sound :
  check_paths cfg ps = true ->
  forall d, In d ps -> is_entry d = true ->
  forall tr x, exec (fn_body d) tr x ->
    (* the whole path is well locked from the empty set, ends with the empty set, and ends by return / end of body *)
    wl [] tr = Some [] /\ (x = XN \/ x = XR).
Proof.
  unfold check_paths. rewrite forallb_forall. intros Hall d Hd He tr x Hex.
  specialize (Hall d Hd). rewrite He in Hall. unfold check_entry in Hall.
  exact (check_entry_f_sound fuel0 d Hall tr x Hex).
Qed.

Corollary checker_sound_clauses :
  check_paths cfg ps = true ->
  forall d, In d ps -> is_entry d = true -> forall tr x, exec (fn_body d) tr x ->
    (forall pre y k post, tr = pre ++ EAcc y k :: post ->
        exists Sm, wl [] pre = Some Sm /\
          match mutex_of cfg y with Some (Some m) => In m Sm | Some None => k = R | None => False end) /\
    (forall pre m post, tr = pre ++ ELock m :: post ->
        exists Sm, wl [] pre = Some Sm /\ ~ In m Sm /\ forall h, In h Sm -> lt_rank h m) /\
    (forall pre m post, tr = pre ++ EUnlock m :: post -> exists Sm, wl [] pre = Some Sm /\ In m Sm) /\
    wl [] tr = Some [] /\
    (forall a, ~ tc takes_while_held a a).
Proof.
  intros Hck d Hd He tr x Hex.
  destruct (checker_sound Hck d Hd He tr x Hex) as [Hw _].
  repeat split.
  - intros pre y k post ->. eapply wl_acc; eauto.
  - intros pre m post ->. eapply wl_lock; eauto.
  - intros pre m post ->. eapply wl_unlock; eauto.
  - exact Hw.
  - apply lock_order_acyclic. intros a b [d' [tr' [x' [pre [post [Sm [Hd' [He' [Hex' [-> [Hp Ha]]]]]]]]]]].
    destruct (checker_sound Hck d' Hd' He' _ _ Hex') as [Hw' _].
    destruct (wl_lock _ _ _ _ _ Hw') as [Sm' [Hp' [_ Hlt]]]. rewrite Hp in Hp'. inversion Hp'; subst. auto.
Qed.

End Sound.

(* ------------------------------------------------------------------------------------------- interleavings *)
Section DRF.
Variable cfg : config.
Notation gvalid := (gvalid cfg).

Lemma upd_same H t S : upd H t S t = S.
Proof. unfold upd. rewrite Nat.eqb_refl. reflexivity. Qed.
Lemma upd_other H t S t' : t' <> t -> upd H t S t' = H t'.
Proof. unfold upd. intros Hn. apply Nat.eqb_neq in Hn. rewrite Hn. reflexivity. Qed.

Lemma excl_lock H t m : excl H -> (forall t', ~ In m (H t')) -> excl (upd H t (ins m (H t))).
Proof.
  intros He Hf a b x Ha Hb.
  destruct (Nat.eq_dec a t) as [->|Na]; destruct (Nat.eq_dec b t) as [->|Nb]; auto.
  - rewrite upd_same in Ha. rewrite upd_other in Hb by exact Nb. apply In_ins in Ha. destruct Ha as [->|Ha].
    + exfalso. exact (Hf _ Hb).
    + exact (He _ _ _ Ha Hb).
  - rewrite upd_other in Ha by exact Na. rewrite upd_same in Hb. apply In_ins in Hb. destruct Hb as [->|Hb].
    + exfalso. exact (Hf _ Ha).
    + exact (He _ _ _ Ha Hb).
  - rewrite upd_other in Ha by exact Na. rewrite upd_other in Hb by exact Nb. exact (He _ _ _ Ha Hb).
Qed.

Lemma excl_unlock H t m : excl H -> excl (upd H t (rem m (H t))).
Proof.
  intros He a b x Ha Hb.
  assert (Ha' : In x (H a)).
  { destruct (Nat.eq_dec a t) as [->|Na]; [rewrite upd_same in Ha; apply In_rem in Ha; tauto | rewrite upd_other in Ha by exact Na; exact Ha]. }
  assert (Hb' : In x (H b)).
  { destruct (Nat.eq_dec b t) as [->|Nb]; [rewrite upd_same in Hb; apply In_rem in Hb; tauto | rewrite upd_other in Hb by exact Nb; exact Hb]. }
  exact (He _ _ _ Ha' Hb').
Qed.

Lemma guarded_In S x k m : guarded cfg S x k = true -> mutex_of cfg x = Some (Some m) -> In m S.
Proof. unfold guarded. intros Hg Hm. rewrite Hm in Hg. apply mem_In. exact Hg. Qed.

(* a thread that does not hold m must take it before it can access an object guarded by m *)
Lemma must_lock :
  forall H s, gvalid H s -> forall j t2 x k m,
  ~ In m (H t2) -> nth_error s j = Some (t2, EAcc x k) -> mutex_of cfg x = Some (Some m) ->
  exists l, l < j /\ nth_error s l = Some (t2, ELock m).
Proof.
  induction 1 as [H | H t m0 s Hfree Hv IH | H t m0 s Hin Hv IH | H t y k0 s Hg Hv IH]; intros j t2 x k m Hn Hj Hm.
  - destruct j; discriminate.
  - destruct j as [|j]; [simpl in Hj; congruence|]. simpl in Hj.
    destruct (Nat.eq_dec t t2) as [->|Nt].
    + destruct (Nat.eq_dec m0 m) as [->|Nm].
      * exists 0. split; [lia|reflexivity].
      * assert (Hn' : ~ In m (upd H t2 (ins m0 (H t2)) t2)).
        { rewrite upd_same. intros Hi. apply In_ins in Hi. destruct Hi; [congruence|tauto]. }
        destruct (IH _ _ _ _ _ Hn' Hj Hm) as [l [Hl He]]. exists (S l). split; [lia|exact He].
    + assert (Hn' : ~ In m (upd H t (ins m0 (H t)) t2)) by (rewrite upd_other by congruence; exact Hn).
      destruct (IH _ _ _ _ _ Hn' Hj Hm) as [l [Hl He]]. exists (S l). split; [lia|exact He].
  - destruct j as [|j]; [simpl in Hj; congruence|]. simpl in Hj.
    assert (Hn' : ~ In m (upd H t (rem m0 (H t)) t2)).
    { destruct (Nat.eq_dec t2 t) as [->|Nt]; [rewrite upd_same; intros Hi; apply In_rem in Hi; tauto | rewrite upd_other by exact Nt; exact Hn]. }
    destruct (IH _ _ _ _ _ Hn' Hj Hm) as [l [Hl He]]. exists (S l). split; [lia|exact He].
  - destruct j as [|j].
    + simpl in Hj. inversion Hj; subst. exfalso. apply Hn. eapply guarded_In; eauto.
    + simpl in Hj. destruct (IH _ _ _ _ _ Hn Hj Hm) as [l [Hl He]]. exists (S l). split; [lia|exact He].
Qed.

(* if t1 holds m now and t2 later accesses an object guarded by m, then in between t1 released m and
   afterwards t2 took it *)
Lemma must_unlock_then_lock :
  forall H s, gvalid H s -> forall j t1 t2 x k m,
  excl H -> In m (H t1) -> t1 <> t2 -> nth_error s j = Some (t2, EAcc x k) -> mutex_of cfg x = Some (Some m) ->
  exists u l, u < l /\ l < j /\ nth_error s u = Some (t1, EUnlock m) /\ nth_error s l = Some (t2, ELock m).
Proof.
  induction 1 as [H | H t m0 s Hfree Hv IH | H t m0 s Hin Hv IH | H t y k0 s Hg Hv IH]; intros j t1 t2 x k m Hex Hh Hne Hj Hm.
  - destruct j; discriminate.
  - destruct j as [|j]; [simpl in Hj; congruence|]. simpl in Hj.
    assert (Hh' : In m (upd H t (ins m0 (H t)) t1)).
    { destruct (Nat.eq_dec t1 t) as [->|Nt]; [rewrite upd_same; apply In_ins; right; exact Hh | rewrite upd_other by exact Nt; exact Hh]. }
    destruct (IH _ _ _ _ _ _ (excl_lock _ _ _ Hex Hfree) Hh' Hne Hj Hm) as [u [l [H1 [H2 [H3 H4]]]]].
    exists (S u), (S l). repeat split; try lia; assumption.
  - destruct j as [|j]; [simpl in Hj; congruence|]. simpl in Hj.
    destruct (Nat.eq_dec t t1) as [->|Nt]; [destruct (Nat.eq_dec m0 m) as [->|Nm]|].
    + (* t1 releases m here *)
      assert (Hn2 : ~ In m (upd H t1 (rem m (H t1)) t2)).
      { rewrite upd_other by congruence. intros Hi. apply Hne. exact (Hex _ _ _ Hh Hi). }
      destruct (must_lock _ _ Hv _ _ _ _ _ Hn2 Hj Hm) as [l [Hl He]].
      exists 0, (S l). split; [lia|]. split; [lia|]. split; [reflexivity|exact He].
    + assert (Hh' : In m (upd H t1 (rem m0 (H t1)) t1)) by (rewrite upd_same; apply In_rem; split; [congruence|exact Hh]).
      destruct (IH _ _ _ _ _ _ (excl_unlock _ _ _ Hex) Hh' Hne Hj Hm) as [u [l [H1 [H2 [H3 H4]]]]].
      exists (S u), (S l). repeat split; try lia; assumption.
    + assert (Hh' : In m (upd H t (rem m0 (H t)) t1)) by (rewrite upd_other by congruence; exact Hh).
      destruct (IH _ _ _ _ _ _ (excl_unlock _ _ _ Hex) Hh' Hne Hj Hm) as [u [l [H1 [H2 [H3 H4]]]]].
      exists (S u), (S l). repeat split; try lia; assumption.
  - destruct j as [|j].
    + simpl in Hj. inversion Hj; subst. exfalso. apply Hne. eapply Hex; [exact Hh|]. eapply guarded_In; eauto.
    + simpl in Hj. destruct (IH _ _ _ _ _ _ Hex Hh Hne Hj Hm) as [u [l [H1 [H2 [H3 H4]]]]].
      exists (S u), (S l). repeat split; try lia; assumption.
Qed.

Lemma nth_error_skipn {A} (s : list A) n k : nth_error (skipn n s) k = nth_error s (n + k).
Proof.
  revert s. induction n as [|n IH]; intros s; simpl; [reflexivity|].
  destruct s as [|a s]; [destruct k; reflexivity|apply IH].
Qed.

Lemma skipn_nth {A} (s : list A) n e : nth_error s n = Some e -> skipn n s = e :: skipn (S n) s.
Proof.
  revert s. induction n as [|n IH]; intros s Hn; destruct s as [|a s]; simpl in *; try discriminate.
  - inversion Hn; reflexivity.
  - apply IH. exact Hn.
Qed.

Lemma gvalid_suffix H s : gvalid H s -> excl H -> forall n, exists Hn, gvalid Hn (skipn n s) /\ excl Hn.
Proof.
  induction 1 as [H | H t m0 s Hfree Hv IH | H t m0 s Hin Hv IH | H t y k0 s Hg Hv IH]; intros Hex n.
  - exists H. split; [destruct n; constructor|exact Hex].
  - destruct n as [|n]; [exists H; split; [constructor; assumption|exact Hex]|]. simpl.
    exact (IH (excl_lock _ _ _ Hex Hfree) n).
  - destruct n as [|n]; [exists H; split; [constructor; assumption|exact Hex]|]. simpl.
    exact (IH (excl_unlock _ _ _ Hex) n).
  - destruct n as [|n]; [exists H; split; [constructor; assumption|exact Hex]|]. simpl.
    exact (IH Hex n).
Qed.

Lemma gvalid_acc_inv H t x k s : gvalid H ((t, EAcc x k) :: s) -> guarded cfg (H t) x k = true /\ gvalid H s.
Proof. intros Hv. inversion Hv; subst. split; assumption. Qed.

(* DATA-RACE FREEDOM.  In every interleaving in which (a) a mutex is only granted when free and (b) every
   thread's accesses are guarded in that thread (= each thread's own path is well locked, checker_sound),
   two accesses of different threads to the same mutex-guarded object are ordered by happens-before;
   objects without a mutex are never written. *)
Theorem drf :
  forall H0 s, gvalid H0 s -> excl H0 ->
  forall i j t1 t2 x k1 k2, i < j -> t1 <> t2 ->
  nth_error s i = Some (t1, EAcc x k1) -> nth_error s j = Some (t2, EAcc x k2) ->
  match mutex_of cfg x with
  | Some (Some m) => hb s i j
  | Some None => k1 = R /\ k2 = R
  | None => False
  end.
Proof.
  intros H0 s Hv Hex i j t1 t2 x k1 k2 Hij Hne Hi Hj.
  destruct (gvalid_suffix _ _ Hv Hex i) as [Hi' [Hvi Hexi]].
  rewrite (skipn_nth _ _ _ Hi) in Hvi.
  remember (skipn (S i) s) as rest eqn:Erest.
  destruct (gvalid_acc_inv _ _ _ _ _ Hvi) as [Hg Hv'].
  destruct (gvalid_suffix _ _ Hv Hex j) as [Hj' [Hvj Hexj]].
  rewrite (skipn_nth _ _ _ Hj) in Hvj.
  destruct (gvalid_acc_inv _ _ _ _ _ Hvj) as [Hg2 _].
  unfold guarded in Hg, Hg2.
  destruct (mutex_of cfg x) as [[m|]|] eqn:Em.
  - assert (Hh : In m (Hi' t1)) by (apply mem_In; exact Hg).
    assert (Hjr : nth_error rest (j - S i) = Some (t2, EAcc x k2)).
    { subst rest. rewrite nth_error_skipn. replace (S i + (j - S i)) with j by lia. exact Hj. }
    destruct (must_unlock_then_lock _ _ Hv' _ _ _ _ _ _ Hexi Hh Hne Hjr Em) as [u [l [H1 [H2 [H3 H4]]]]].
    subst rest. rewrite nth_error_skipn in H3, H4.
    eapply hb_trans; [eapply hb_po with (j := S i + u); [lia|exact Hi|exact H3]|].
    eapply hb_trans; [eapply hb_sync with (j := S i + l); [lia|exact H3|exact H4]|].
    eapply hb_po; [|exact H4|exact Hj]. lia.
  - destruct k1; [|discriminate]. destruct k2; [|discriminate]. split; reflexivity.
  - discriminate.
Qed.

(* CRITICAL SECTIONS DO NOT OVERLAP.  While t holds m (until its own Unlock m) no other thread takes or
   releases m or accesses an object guarded by m: the section is one atomic step w.r.t. everything m guards. *)
Definition touches (m : mutex) (e : ev) : bool :=
  match e with
  | ELock m' | EUnlock m' => m' =? m
  | EAcc x _ => match mutex_of cfg x with Some (Some m') => m' =? m | _ => false end
  end.

Theorem sections_atomic :
  forall H s, gvalid H s -> forall t m, excl H -> In m (H t) ->
  forall j t' e, nth_error s j = Some (t', e) -> t' <> t ->
  (forall u, u < j -> nth_error s u <> Some (t, EUnlock m)) ->
  touches m e = false.
Proof.
  induction 1 as [H | H th m0 s Hfree Hv IH | H th m0 s Hin Hv IH | H th y k0 s Hg Hv IH]; intros t m Hex Hh j t' e Hj Hne Hno.
  - destruct j; discriminate.
  - destruct j as [|j]; simpl in Hj.
    + inversion Hj; subst. simpl. apply Nat.eqb_neq. intros ->. exact (Hfree _ Hh).
    + assert (Hh' : In m (upd H th (ins m0 (H th)) t)).
      { destruct (Nat.eq_dec t th) as [->|Nt]; [rewrite upd_same; apply In_ins; right; exact Hh | rewrite upd_other by exact Nt; exact Hh]. }
      apply (IH t m (excl_lock _ _ _ Hex Hfree) Hh' j t' e Hj Hne).
      intros u Hu. apply (Hno (S u)). lia.
  - destruct j as [|j]; simpl in Hj.
    + inversion Hj; subst. simpl. apply Nat.eqb_neq. intros ->. apply Hne. exact (Hex _ _ _ Hin Hh).
    + assert (Hh' : In m (upd H th (rem m0 (H th)) t)).
      { destruct (Nat.eq_dec t th) as [->|Nt].
        - rewrite upd_same. apply In_rem. split; [|exact Hh]. intros ->. apply (Hno 0); [lia|reflexivity].
        - rewrite upd_other by exact Nt. exact Hh. }
      apply (IH t m (excl_unlock _ _ _ Hex) Hh' j t' e Hj Hne).
      intros u Hu. apply (Hno (S u)). lia.
  - destruct j as [|j]; simpl in Hj.
    + inversion Hj; subst. simpl. destruct (mutex_of cfg y) as [[m'|]|] eqn:Em; try reflexivity.
      apply Nat.eqb_neq. intros ->. apply Hne. eapply Hex; [|exact Hh]. eapply guarded_In; eauto.
    + apply (IH t m Hex Hh j t' e Hj Hne). intros u Hu. apply (Hno (S u)). lia.
Qed.

End DRF.

(* ------------------------------------------------------------------------------------------- atomic steps *)
Section AtomicProofs.
Variables (St Op Res : Type).
Variable step : Op -> St -> St * Res.

(* A schedule of atomic steps IS a sequential history of the same operations: every thread's operations
   appear in it exactly in program order. *)
Lemma interleave_threads P s : interleave Op P s -> forall i, thread_of i s = P i.
Proof.
  induction 1 as [P Hall | P i o l s Hp Hil IH]; intros j.
  - rewrite Hall. reflexivity.
  - unfold thread_of in *. simpl. destruct (i =? j) eqn:E.
    + apply Nat.eqb_eq in E. subst. simpl. rewrite IH. rewrite Nat.eqb_refl. symmetry. exact Hp.
    + rewrite IH. rewrite Nat.eqb_sym in E. rewrite E. reflexivity.
Qed.

(* Hence whatever is proved for ARBITRARY sequential operation histories (invariants, refinement of a
   specification machine, per-operation results) holds under every schedule, at every intermediate point. *)
Theorem atomic_serialisable :
  forall P s, interleave Op P s ->
    (forall i, thread_of i s = P i) /\
    (forall (Inv : St -> Prop) init, (forall h : list (nat * Op), Inv (fst (run_ops St Op Res step h init))) ->
        forall n, Inv (fst (run_ops St Op Res step (firstn n s) init))) /\
    (forall (Spec : list (nat * Op) -> list (nat * Res) -> Prop) init,
        (forall h : list (nat * Op), Spec h (snd (run_ops St Op Res step h init))) ->
        Spec s (snd (run_ops St Op Res step s init))).
Proof.
  intros P s Hil. split; [exact (interleave_threads _ _ Hil)|]. split.
  - intros Inv init Hall n. apply Hall.
  - intros Spec init Hall. apply Hall.
Qed.
End AtomicProofs.

(* ------------------------------------------------------------------------------------------- ticket keys *)
(* three sessions presenting tickets of key 7 (each: find+pin / use after the callback / release), while
   another thread deletes key 7; and two sessions with a deleter that deletes, re-loads, deletes. *)
Definition tk_cfg1 : list (tid * list tkop) :=
  [(0, [TkFind 7; TkUse; TkRelease]); (1, [TkFind 7; TkUse; TkRelease]); (2, [TkFind 7; TkUse; TkRelease]); (3, [TkDelete 7])].
Definition tk_cfg2 : list (tid * list tkop) :=
  [(0, [TkFind 7; TkUse; TkRelease]); (1, [TkFind 7; TkUse; TkRelease]); (2, [TkDelete 7; TkLoad 7; TkDelete 7])].
Definition tk_safe_all (md : pin_mode) (c : list (tid * list tkop)) : bool :=
  forallb (fun sch => negb (tk_uaf (tk_run md sch (tk_init [7; 8])))) (all_il (total_ops c) c).

(* the code as found: the pin is a flag, a second session clears it, the key is freed under the first one *)
Definition tk_witness : list (tid * tkop) :=
  [(0, TkFind 7); (1, TkFind 7); (1, TkUse); (1, TkRelease); (3, TkDelete 7); (0, TkUse); (0, TkRelease)].

Lemma tk_flag_refuted :
  In tk_witness (all_il (total_ops tk_cfg1) [(0, [TkFind 7; TkUse; TkRelease]); (1, [TkFind 7; TkUse; TkRelease]); (3, [TkDelete 7])]) /\
  tk_uaf (tk_run PinFlag tk_witness (tk_init [7; 8])) = true.
Proof. split; [|vm_compute; reflexivity]. vm_compute. tauto. Qed.

(* with a reference count no interleaving of these configurations reaches a use after free *)
Lemma tk_counter_safe_bounded : tk_safe_all PinCounter tk_cfg1 = true /\ tk_safe_all PinCounter tk_cfg2 = true.
Proof. split; vm_compute; reflexivity. Qed.
Lemma tk_flag_unsafe_bounded : tk_safe_all PinFlag tk_cfg1 = false.
Proof. vm_compute; reflexivity. Qed.
