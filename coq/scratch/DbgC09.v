(* C09 - lemmas and main theorems about coq/Asn/AsnModel.v *)
From Coq Require Import Lia ZifyBool ZifyN ZifyNat.
From MV Require Import Base.Bytes Gen.Consts Gen.ConstsAsn Gen.B64Map Asn.AsnModel Asn.AsnSpec.
Local Open Scope N_scope.
Ltac Zify.zify_post_hook ::= Z.div_mod_to_equations.

(* ------------------------------------------------------------------------------------------ post calculus *)
Lemma post_bind {A B} (Q : B -> Prop) (r : res A) (f : A -> res B) :
  post (fun a => post Q (f a)) r -> post Q (bind r f).
Proof. destruct r; cbn; auto. Qed.

Lemma post_weaken {A} (Q Q' : A -> Prop) (r : res A) :
  post Q r -> (forall a, Q a -> Q' a) -> post Q' r.
Proof. destruct r; cbn; auto. Qed.

Lemma post_remap {A} (Q : A -> Prop) rc (r : res A) : post Q r -> post Q (remap rc r).
Proof. destruct r; cbn; auto. Qed.

Lemma post_if {A} (Q : A -> Prop) (b : bool) (x y : res A) :
  (b = true -> post Q x) -> (b = false -> post Q y) -> post Q (if b then x else y).
Proof. destruct b; auto. Qed.

Lemma post_safe {A} (Q : A -> Prop) (r : res A) : post Q r -> safe r.
Proof. destruct r; cbn; unfold safe; intuition congruence. Qed.

Lemma lenN_app (a b : bytes) : lenN (a ++ b) = lenN a + lenN b.
Proof. unfold lenN. rewrite app_length. lia. Qed.

Lemma post_rd (Q : N -> Prop) buf limit i :
  holds buf limit -> i < limit ->
  (forall b, nth_error buf (N.to_nat i) = Some b -> Q b) ->
  post Q (rd buf limit i).
Proof.
  unfold holds, rd, lenN. intros Hh Hi HQ.
  destruct (N.ltb_spec i limit); [|lia].
  destruct (nth_error buf (N.to_nat i)) eqn:E.
  - cbn. auto.
  - apply nth_error_None in E. lia.
Qed.

Lemma sub_bytes_length buf p n : p + n <= lenN buf -> lenN (sub_bytes buf p n) = n.
Proof.
  unfold sub_bytes, lenN. intros H.
  rewrite firstn_length, skipn_length. lia.
Qed.

Lemma post_slice (Q : bytes -> Prop) buf limit p n :
  holds buf limit -> p + n <= limit ->
  (lenN (sub_bytes buf p n) = n -> Q (sub_bytes buf p n)) ->
  post Q (slice buf limit p n).
Proof.
  unfold holds, slice. intros Hh Hi HQ.
  destruct (N.leb_spec (p + n) limit); [|lia].
  destruct (N.leb_spec (p + n) (lenN buf)); [|lia].
  cbn. apply HQ. apply sub_bytes_length. lia.
Qed.

Lemma slice_ok buf limit p n s : slice buf limit p n = Ok s -> s = sub_bytes buf p n /\ p + n <= limit /\ lenN s = n.
Proof.
  unfold slice. destruct (N.leb_spec (p + n) limit); [|discriminate].
  destruct (N.leb_spec (p + n) (lenN buf)); [|discriminate].
  intros E; inversion E; subst. repeat split; auto. apply sub_bytes_length; auto.
Qed.

Lemma u32sub_small a b : b <= a -> a < two32 -> u32sub a b = a - b.
Proof. unfold u32sub, two32. intros. lia. Qed.

Ltac b2p :=
  repeat match goal with
  | H : (_ || _) = true |- _ => apply orb_true_iff in H
  | H : (_ || _) = false |- _ => apply orb_false_iff in H; destruct H
  | H : (_ && _) = true |- _ => apply andb_true_iff in H; destruct H
  | H : (_ && _) = false |- _ => apply andb_false_iff in H
  | H : negb _ = true |- _ => apply negb_true_iff in H
  | H : negb _ = false |- _ => apply negb_false_iff in H
  | H : (_ <? _) = true |- _ => apply N.ltb_lt in H
  | H : (_ <? _) = false |- _ => apply N.ltb_ge in H
  | H : (_ <=? _) = true |- _ => apply N.leb_le in H
  | H : (_ <=? _) = false |- _ => apply N.leb_gt in H
  | H : (_ =? _) = true |- _ => apply N.eqb_eq in H
  | H : (_ =? _) = false |- _ => apply N.eqb_neq in H
  end.

Ltac u32 :=
  repeat match goal with
  | H : context [u32sub ?a ?b] |- _ => rewrite (u32sub_small a b) in H by lia
  | |- context [u32sub ?a ?b] => rewrite (u32sub_small a b) by lia
  end.
Ltac splits := repeat match goal with |- _ /\ _ => split end.

(* one step of symbolic execution of a model function under [post] *)
Ltac pstep :=
  lazymatch goal with
  | |- post _ (Err _) => exact I
  | |- post _ (if _ then _ else _) => apply post_if; intro
  | |- post _ (bind _ _) => apply post_bind
  | |- post _ (remap _ _) => apply post_remap
  | |- post _ (rd _ _ _) => apply post_rd; [assumption | | intros ? ?]
  | |- post _ (slice _ _ _ _) => apply post_slice; [assumption | | intros ?]
  | |- post _ (Ok _) => cbn [post]
  | |- post _ (let _ := _ in _) => cbv zeta
  end; cbv beta.

(* ------------------------------------------------------------------------------------------ asn1.c *)
Definition len32_post (c size : N) (indef : bool) (r : Z * N * N) : Prop :=
  let '(rc, len, c') := r in
  c < c' /\ c' <= c + size /\ c' <= c + 5 /\ len < two32 /\
  (indef = false -> rc = 0%Z /\ c' + len <= c + size) /\
  (rc = 0%Z \/ (rc = z_ASN_UNKNOWN_LEN /\ indef = true)).

Lemma getAsnLength32_spec buf c size indef :
  holds buf (c + size) ->
  post (len32_post c size indef) (getAsnLength32 buf c size indef).
Proof.
  intros Hh. unfold getAsnLength32.
  pstep; [pstep|]. b2p.
  pstep. pstep; [lia|].
  assert (Hfin : forall l c', c < c' -> c' <= c + size -> c' <= c + 5 -> l < two32 ->
     post (len32_post c size indef)
       (if negb indef && (c + size <? c' + l) then Err c_PS_LIMIT_FAIL else Ok (0%Z, l, c'))).
  { intros l c' H1 H2 H3 H4. pstep; [pstep|]. pstep. unfold len32_post.
    split; [lia|]. split; [lia|]. split; [lia|]. split; [lia|]. split; [|left; reflexivity].
    intros ->. split; [reflexivity|lia]. }
  pstep.
  - pstep; [pstep|]. b2p. pstep.
    + destruct indef; [|pstep]. pstep. unfold len32_post. b2p.
      splits; try lia; try (apply N.mod_lt; discriminate); try discriminate.
    + pstep; [|pstep]. b2p. pstep. pstep; [lia|].
      apply Hfin; try lia. apply N.mod_lt. discriminate.
  - b2p. apply Hfin; try lia.
    assert (b mod 128 < 128) by (apply N.mod_lt; discriminate). unfold two32. lia.
Qed.

Definition len16_post (c size : N) (r : N * N) : Prop :=
  let '(len, c') := r in c < c' /\ c' <= c + size /\ c' + len <= c + size /\ len < two16.

Lemma mod16_le x : x mod two16 <= x.
Proof. apply N.mod_le. discriminate. Qed.
Lemma mod16_lt x : x mod two16 < two16.
Proof. apply N.mod_lt. discriminate. Qed.

Lemma getAsnLength_spec buf c size :
  holds buf (c + size) -> post (len16_post c size) (getAsnLength buf c size).
Proof.
  intros Hh. unfold getAsnLength. pstep.
  eapply post_weaken; [apply getAsnLength32_spec; auto|].
  intros [[rc len] c'] HS. cbn in HS. destruct HS as (S1 & S2 & S3 & S4 & S5 & S6).
  destruct (S5 eq_refl). cbn. pose proof (mod16_le len). pose proof (mod16_lt len). lia.
Qed.

(* SEQUENCE / SET headers *)
Definition cons32_post (c size : N) (indef : bool) (r : Z * N * N) : Prop :=
  let '(rc, len, c') := r in
  c + 1 < c' /\ c' <= c + size /\ c' <= c + 6 /\ len < two32 /\
  (indef = false -> rc = 0%Z /\ c' + len <= c + size).

Lemma getAsnConstructed32_spec is_set buf c size indef :
  holds buf (c + size) ->
  post (cons32_post c size indef) (getAsnConstructed32 is_set buf c size indef).
Proof.
  intros Hh. unfold getAsnConstructed32.
  pstep; [pstep|]. b2p.
  pstep. pstep; [lia|].
  pstep; [pstep|].
  pstep.
  eapply post_weaken; [apply getAsnLength32_spec|].
  { unfold holds in *. replace (c + 1 + (size - 1)) with (c + size) by lia. auto. }
  intros [[rc len] p] HS. cbn in HS. destruct HS as (S1 & S2 & S3 & S4 & S5 & S6).
  destruct is_set.
  - pstep; [pstep|]. pstep. unfold cons32_post. splits; try lia; try (intros E; destruct (S5 E); splits; first [assumption|lia]).
  - pstep; [pstep|]. pstep. unfold cons32_post. splits; try lia; try (intros E; destruct (S5 E); splits; first [assumption|lia]).
Qed.

Definition cons16_post (c size : N) (r : N * N) : Prop :=
  let '(len, c') := r in c + 1 < c' /\ c' <= c + size /\ c' + len <= c + size /\ len < two16.

Lemma getAsnSequence_spec buf c size :
  holds buf (c + size) -> post (cons16_post c size) (getAsnSequence buf c size).
Proof.
  intros Hh. unfold getAsnSequence, getAsnSequence32. pstep.
  eapply post_weaken; [apply getAsnConstructed32_spec; auto|].
  intros [[rc len] c'] HS. cbn in HS. destruct HS as (S1 & S2 & S3 & S4 & S5).
  destruct (S5 eq_refl). cbn. pose proof (mod16_le len). pose proof (mod16_lt len). lia.
Qed.

Lemma getAsnSet_spec buf c size :
  holds buf (c + size) -> post (cons16_post c size) (getAsnSet buf c size).
Proof.
  intros Hh. unfold getAsnSet, getAsnSet32. pstep.
  eapply post_weaken; [apply getAsnConstructed32_spec; auto|].
  intros [[rc len] c'] HS. cbn in HS. destruct HS as (S1 & S2 & S3 & S4 & S5).
  destruct (S5 eq_refl). cbn. pose proof (mod16_le len). pose proof (mod16_lt len). lia.
Qed.

(* INTEGER / ENUMERATED *)
Lemma getAsnIntLike_spec tag buf c size :
  holds buf (c + size) -> c + size < two32 ->
  post (fun r => c + 2 < snd r /\ snd r <= c + size) (getAsnIntLike tag true buf c size).
Proof.
  intros Hh Hs. unfold getAsnIntLike.
  pstep; [pstep|]. b2p.
  pstep. pstep; [lia|].
  pstep; [pstep|].
  pstep.
  eapply post_weaken; [apply getAsnLength32_spec|].
  { unfold holds in *. replace (c + 1 + (size - 1)) with (c + size) by lia. auto. }
  intros [[rc vlen] p] HS. cbn in HS. destruct HS as (S1 & S2 & S3 & S4 & S5 & S6).
  destruct (S5 eq_refl) as [_ S7].
  pstep; [pstep|]. b2p. u32.
  pstep; [pstep|].
  pstep. pstep; [lia|].
  pstep. pstep; [lia|].
  pstep. cbn [snd]. lia.
Qed.

(* OBJECT IDENTIFIER / AlgorithmIdentifier *)
Lemma getAsnOID_spec buf c size chk :
  holds buf (c + size) ->
  post (fun r => let '(_, plen, c') := r in c + 1 < c' /\ c' <= c + size /\ plen < two16 /\ plen <= c + size - c')
       (getAsnOID buf c size chk).
Proof.
  intros Hh. unfold getAsnOID.
  pstep; [pstep|]. b2p.
  pstep. pstep; [lia|].
  pstep; [pstep|].
  pstep.
  eapply post_weaken; [apply getAsnLength32_spec|].
  { unfold holds in *. replace (c + 1 + (c + size - (c + 1))) with (c + size) by lia. auto. }
  intros [[rc arcLen] p] HS. cbn in HS. destruct HS as (S1 & S2 & S3 & S4 & S5 & S6).
  destruct (S5 eq_refl) as [_ S7].
  pstep; [pstep|]. pstep; [pstep|]. b2p.
  pstep. pstep; [lia|].
  pose proof (mod16_le (c + size - (p + arcLen))). pose proof (mod16_lt (c + size - (p + arcLen))).
  destruct chk.
  - pstep.
    + pstep. lia.
    + b2p. pstep. pstep; [lia|].
      pstep; [pstep; lia|].
      pstep; [pstep|]. pstep; [pstep|]. b2p. pstep. lia.
  - pstep. unfold two16. lia.
Qed.

Lemma getAsnAlgorithmIdentifier_spec buf c size :
  holds buf (c + size) ->
  post (fun r => let '(_, plen, c') := r in c + 3 < c' /\ c' <= c + size /\ plen < two16)
       (getAsnAlgorithmIdentifier buf c size).
Proof.
  intros Hh. unfold getAsnAlgorithmIdentifier.
  pstep; [pstep|]. b2p. pstep.
  eapply post_weaken; [apply getAsnConstructed32_spec; auto|].
  intros [[rc llen] p] HS. cbn in HS. destruct HS as (S1 & S2 & S3 & S4 & S5).
  destruct (S5 eq_refl) as [_ S7].
  pstep; [pstep|]. b2p.
  eapply post_weaken; [apply getAsnOID_spec|].
  { unfold holds in *. lia. }
  intros [[oi plen] c'] (A & B & C & D). lia.
Qed.

(* getAsnTagLenUnsafe is safe exactly under the contract stated at its only call site: the pointer
   is at a TLV whose header was validated (here: at least the header bytes are inside the block) *)
Lemma getAsnTagLenUnsafe_spec buf limit c :
  holds buf limit -> c + 5 <= limit ->
  post (fun _ => True) (getAsnTagLenUnsafe buf limit c).
Proof.
  intros Hh Hc. unfold getAsnTagLenUnsafe.
  pstep. pstep; [lia|].
  pstep; [pstep; auto|].
  pstep. pstep; [lia|].
  pstep; [|pstep; auto].
  pstep; [pstep; auto|]. b2p.
  pstep. pstep; [lia|]. pstep. auto.
Qed.

(* asnCopyOid: all stores stay inside the MAX_OID_BYTES array, for every (unbounded) derlen *)
Lemma oid_put_append (Q : bytes -> Prop) written idx v :
  idx = lenN written -> idx < n_MAX_OID_BYTES -> Q (written ++ [v]) -> post Q (oid_put written idx v).
Proof.
  intros E H HQ. unfold oid_put.
  destruct (N.ltb_spec idx n_MAX_OID_BYTES); [|lia].
  destruct (N.eqb_spec idx (lenN written)); [exact HQ|lia].
Qed.

Lemma oid_copy_loop_spec data : forall i len w,
  lenN w = 2 + i -> 2 + i + lenN data <= n_MAX_OID_BYTES ->
  post (fun r => snd r = w ++ data /\ fst r <= len + lenN data) (oid_copy_loop data i len w).
Proof.
  induction data as [|ch r IH]; intros i len w Hw Hb; cbn [oid_copy_loop].
  - cbn [post fst snd]. rewrite app_nil_r. split; [reflexivity|lia].
  - assert (L : lenN (ch :: r) = 1 + lenN r) by (unfold lenN; cbn [length]; lia).
    pstep. apply oid_put_append; [lia|lia|].
    eapply post_weaken; [apply IH|].
    + rewrite lenN_app. change (lenN [ch]) with 1. lia.
    + lia.
    + intros [l' w']. cbn [fst snd]. intros [E1 E2]. split.
      * rewrite E1, <- app_assoc. reflexivity.
      * destruct (128 <=? ch); lia.
Qed.

Definition oidcopy_post (buf : bytes) (p derlen : N) (r : N * bytes) : Prop :=
  let '(ret, w) := r in
  lenN w <= n_MAX_OID_BYTES /\ ret < 256 /\
  (0 < ret -> 1 <= derlen /\ derlen + 2 <= n_MAX_OID_BYTES /\ w = [n_ASN_OID; derlen] ++ sub_bytes buf p derlen).

Lemma asnCopyOid_spec buf limit p derlen :
  holds buf limit -> p + derlen <= limit ->
  post (oidcopy_post buf p derlen) (asnCopyOid buf limit p derlen).
Proof.
  intros Hh Hp. unfold asnCopyOid.
  assert (M : 2 < n_MAX_OID_BYTES) by (unfold n_MAX_OID_BYTES; lia).
  pstep.
  - pstep. apply oid_put_append; [reflexivity|lia|].
    pstep. apply oid_put_append; [reflexivity|lia|].
    pstep. unfold oidcopy_post. change (lenN ([] ++ [0] ++ [0])) with 2. change (lenN (([] ++ [0]) ++ [0])) with 2. change (lenN [0; 0]) with 2. splits; try lia.
  - b2p. pstep. apply oid_put_append; [reflexivity|lia|].
    pstep. apply oid_put_append; [reflexivity|lia|].
    pstep. pstep; [lia|].
    pstep. eapply post_weaken; [apply (oid_copy_loop_spec _ 0 1); [reflexivity|lia]|].
    intros [len w]. cbn [fst snd]. intros [E1 E2].
    assert (D : derlen mod 256 = derlen) by (apply N.mod_small; unfold n_MAX_OID_BYTES in *; lia).
    assert (LW : lenN w = 2 + derlen) by (rewrite E1, lenN_app; unfold lenN at 1; cbn [app length]; lia).
    assert (ML : len mod 256 < 256) by (apply N.mod_lt; discriminate).
    pstep; pstep; unfold oidcopy_post; splits; try lia.
    intros _. splits; try lia. rewrite E1, D. reflexivity.
Qed.

(* ------------------------------------------------------------------------------------------ GeneralNames *)
Lemma printable_spec c : printable c = true <-> printable_byte c.
Proof. unfold printable, printable_byte. lia. Qed.

Lemma ia5_scan_spec d : forall t,
  ia5_scan 1 d = Some t ->
  (t = 1 /\ Forall printable_byte d) \/
  (t = 0 /\ exists d', d = d' ++ [0] /\ Forall printable_byte d').
Proof.
  induction d as [|c r IH]; intros t H; cbn [ia5_scan] in H.
  - inversion H. left. split; auto.
  - destruct (printable c) eqn:P.
    + apply printable_spec in P. destruct (IH _ H) as [[-> F]|[-> [d' [-> F]]]].
      * left. split; auto.
      * right. split; auto. exists (c :: d'). split; auto.
    + unfold f_DISABLE_X509_GENERAL_NAME_SUPPORT_C_NULL in H. cbn [negb andb] in H.
      destruct (N.eqb_spec c 0); [|discriminate]. destruct r; [|discriminate].
      inversion H. subst. right. split; auto. exists []. split; auto.
Qed.

Lemma firstn_lenN_app (a b : bytes) : firstn (N.to_nat (lenN a)) (a ++ b) = a.
Proof.
  unfold lenN. rewrite Nat2N.id. rewrite firstn_app, Nat.sub_diag, firstn_all. cbn. apply app_nil_r.
Qed.

Lemma firstn_lenN_all (a : bytes) n : lenN a <= n -> firstn (N.to_nat n) a = a.
Proof. unfold lenN. intros. apply firstn_all2. lia. Qed.

Definition gn_other_post (p len : N) (extEnd : N) (r : bytes * N * N) : Prop :=
  let '(_, p', len') := r in p < p' /\ p' <= extEnd /\ p' + len' = p + len.

Lemma gn_other_spec buf extEnd p len :
  holds buf extEnd -> extEnd < two32 -> p <= extEnd ->
  post (gn_other_post p len extEnd) (gn_other buf extEnd p len).
Proof.
  intros Hh H32 Hp. unfold gn_other.
  pstep. pstep. u32.
  eapply post_weaken; [apply getAsnLength_spec; unfold holds in *; lia|].
  intros [l1 p1] (A1 & A2 & A3 & A4).
  pstep; [pstep|]. b2p. u32.
  pstep. pstep; [lia|].
  pstep; [pstep|].
  pstep. pstep. u32.
  eapply post_weaken; [apply getAsnLength_spec; unfold holds in *; lia|].
  intros [oidLen p2] (B1 & B2 & B3 & B4).
  pstep; [pstep|]. b2p. u32.
  pstep. pstep; [lia|].
  pstep; [pstep|]. b2p. u32.
  pstep. pstep; [lia|].
  pstep; [pstep|].
  pstep. pstep. u32.
  eapply post_weaken; [apply getAsnLength_spec; unfold holds in *; lia|].
  intros [l3 p3] (C1 & C2 & C3 & C4).
  pstep; [pstep|]. b2p. u32.
  pstep; [pstep|]. b2p. u32.
  pstep; [pstep|]. b2p.
  pstep. unfold gn_other_post. lia.
Qed.

Definition gn_one_post (p len extEnd : N) (r : gname * N * N * N) : Prop :=
  let '(g, p', len', _) := r in p < p' /\ p' <= extEnd /\ p' + len' = p + len /\ gn_clean g.

Lemma gn_one_spec buf extEnd p len :
  holds buf extEnd -> extEnd < two32 -> p + len <= extEnd -> 3 <= len ->
  post (gn_one_post p len extEnd) (gn_one buf extEnd p len 1).
Proof.
  intros Hh H32 Hp H3. unfold gn_one.
  pstep. pstep; [lia|].
  pstep.
  apply post_weaken with (Q := fun r : bytes * N * N => let '(_, p1, len1) := r in p + 1 <= p1 /\ p1 <= extEnd /\ p1 + len1 = p + len).
  { pstep.
    - eapply post_weaken; [apply gn_other_spec; auto; lia|].
      intros [[o p1] len1]. unfold gn_other_post. lia.
    - pstep. lia. }
  intros [[oid p1] len1] (A1 & A2 & A3).
  pstep. pstep. u32.
  eapply post_weaken; [apply getAsnLength_spec; unfold holds in *; lia|].
  intros [dataLen p2] (B1 & B2 & B3 & B4).
  pstep; [pstep|]. b2p. u32.
  pstep; [pstep|]. b2p.
  pstep; [pstep|]. b2p.
  pstep. pstep; [lia|].
  set (data := sub_bytes buf p2 dataLen) in *.
  pstep.
  apply post_weaken with (Q := fun tn =>
     (tn = 1 /\ (is_ia5_kind (b mod 16) = true -> Forall printable_byte data)) \/
     (tn = 0 /\ exists d', data = d' ++ [0] /\ Forall printable_byte d')).
  { pstep.
    - destruct (ia5_scan 1 data) as [t|] eqn:E; [|exact I].
      cbn [post]. destruct (ia5_scan_spec _ _ E) as [[-> F]|[-> F]]; auto.
    - pstep; [pstep|]. pstep. left. split; auto. congruence. }
  intros tn Htn. pstep.
  unfold gn_one_post. splits; try lia.
  unfold gn_clean. cbn [g_buf g_len g_id].
  unfold f_DISABLE_X509_GENERAL_NAME_SUPPORT_C_NULL. cbn [negb andb].
  destruct Htn as [[-> F]|[-> [d' [E F]]]].
  - exists data. cbn [N.eqb]. splits; auto.
    apply firstn_lenN_all. rewrite lenN_app. cbn. lia.
  - exists d'. cbn [N.eqb]. rewrite N.add_0_r.
    assert (L : lenN data = lenN d' + 1) by (rewrite E, lenN_app; reflexivity).
    splits; auto.
    + rewrite <- H5. rewrite firstn_lenN_app. exact E.
    + lia.
Qed.

Lemma gn_loop_spec fuel : forall buf extEnd endp p len tn limit acc,
  holds buf extEnd -> extEnd < two32 -> p + len <= extEnd ->
  (N.to_nat len < fuel)%nat -> Forall gn_clean acc ->
  post (fun r => Forall gn_clean (fst r)) (gn_loop fuel true buf extEnd endp p len tn limit acc).
Proof.
  induction fuel as [|f IH]; intros buf extEnd endp p len tn limit acc Hh H32 Hp Hf Hacc; [lia|].
  cbn [gn_loop]. pstep.
  - pstep. cbn [fst]. apply Forall_rev. auto.
  - b2p. pstep.
    eapply post_weaken; [apply gn_one_spec; auto|].
    intros [[[g p'] len'] tn'] (A1 & A2 & A3 & A4).
    pstep.
    + pstep. cbn [fst]. apply Forall_rev. auto.
    + apply IH; auto; lia.
Qed.

Theorem parse_general_names_spec buf extEnd p len limit :
  holds buf extEnd -> extEnd < two32 -> p + len <= extEnd ->
  post (fun r => Forall gn_clean (fst r)) (parse_general_names buf extEnd p len limit).
Proof.
  intros. unfold parse_general_names, parse_general_names_gen.
  apply gn_loop_spec; auto; lia.
Qed.

(* ------------------------------------------------------------------------------------------ DN attributes *)
Lemma holds_le buf a b : holds buf b -> a <= b -> holds buf a.
Proof. unfold holds. lia. Qed.

Lemma cstr_full (data t : bytes) :
  length (cstr (data ++ 0 :: t)) = length data -> Forall (fun b => b <> 0) data.
Proof.
  induction data as [|x r IH]; intros H; [constructor|].
  cbn [app cstr] in H. destruct (N.eqb_spec x 0).
  - cbn in H. discriminate.
  - cbn [length] in H. constructor; auto.
Qed.

Definition dn_step_ok (s : dn_step) : Prop :=
  match s with DnStored a => dn_terminated a | _ => True end.

Lemma dn_value_spec buf dnEnd p id :
  holds buf dnEnd -> dnEnd < two32 -> p <= dnEnd -> dnEnd < p + 65536 ->
  post (fun r => p < snd r /\ snd r <= dnEnd /\ dn_step_ok (fst r)) (dn_value buf dnEnd p id).
Proof.
  intros Hh H32 Hp H16. unfold dn_value.
  pstep; [pstep|]. b2p.
  pstep. pstep; [lia|].
  pstep. pstep. u32.
  eapply post_weaken; [apply getAsnLength_spec; eapply holds_le; eauto; lia|].
  intros [llen p2] (B1 & B2 & B3 & B4).
  pstep; [pstep|]. b2p. u32.
  pstep; [pstep|].
  pstep; [|pstep].
  pstep. pstep; [lia|].
  set (data := sub_bytes buf p2 llen) in *.
  pstep; [pstep|].
  pstep. cbn [fst snd]. splits; try lia.
  destruct (dn_is_stored id); cbn [dn_step_ok]; auto.
  unfold dn_terminated. cbn [d_str d_len d_type].
  exists data. change (repeat 0 (N.to_nat n_DN_NUM_TERMINATING_NULLS)) with [0; 0].
  change n_DN_NUM_TERMINATING_NULLS with 2.
  assert (E : (llen + 2) mod two16 = llen + 2) by (apply N.mod_small; unfold two16; lia).
  rewrite E. splits; auto; try lia.
  intros Hc. rewrite Hc in H5. cbn [andb] in H5. b2p.
  change (repeat 0 (N.to_nat n_DN_NUM_TERMINATING_NULLS)) with [0; 0] in H5.
  apply cstr_full with (t := [0]). unfold lenN in *. lia.
Qed.

Lemma dn_attr_spec buf dnEnd p :
  holds buf dnEnd -> dnEnd < two32 -> p <= dnEnd -> dnEnd < p + 65536 ->
  post (fun r => p < snd r /\ snd r <= dnEnd /\ dn_step_ok (fst r)) (dn_attr buf dnEnd p).
Proof.
  intros Hh H32 Hp H16. unfold dn_attr.
  pstep; [pstep|]. b2p.
  pstep. pstep; [lia|].
  pstep; [pstep|].
  pstep. pstep. u32.
  eapply post_weaken; [apply getAsnLength_spec; eapply holds_le; eauto; lia|].
  intros [arcLen p2] (B1 & B2 & B3 & B4).
  pstep; [pstep|]. b2p. u32.
  pstep; [pstep|]. b2p.
  pstep.
  apply post_weaken with (Q := fun dc : bool => dc = true -> arcLen = 10).
  { pstep.
    - b2p. pstep. pstep; [lia|]. pstep. auto.
    - pstep. discriminate. }
  intros dc Hdc. pstep.
  - specialize (Hdc H4).
    eapply post_weaken; [apply dn_value_spec; auto; lia|].
    intros [s p3]; cbn [fst snd]; intros (X1 & X2 & X3); splits; auto; lia.
  - pstep. pstep; [lia|].
    pstep. pstep; [lia|].
    pstep.
    + pstep; [pstep|]. b2p. u32.
      pstep. pstep. u32.
      eapply post_weaken; [apply getAsnLength_spec; eapply holds_le; eauto; lia|].
      intros [llen p3] (C1 & C2 & C3 & C4).
      pstep; [pstep|]. b2p. u32.
      pstep. cbn [fst snd dn_step_ok]. lia.
    + pstep; [pstep|]. b2p.
      pstep. pstep; [lia|].
      eapply post_weaken; [apply dn_value_spec; auto; lia|].
      intros [s p3]; cbn [fst snd]; intros (X1 & X2 & X3); splits; auto; lia.
Qed.

Lemma dn_loop_spec fuel : forall buf dnEnd base p inset setlen moreInSet acc,
  holds buf dnEnd -> dnEnd < two32 -> base <= p -> p <= dnEnd -> dnEnd < base + 65536 ->
  (N.to_nat (dnEnd - p) < fuel)%nat -> Forall dn_terminated acc ->
  post (fun r => Forall dn_terminated (fst r) /\ p <= snd r /\ snd r <= dnEnd)
       (dn_loop fuel buf dnEnd p inset setlen moreInSet acc).
Proof.
  induction fuel as [|f IH]; intros buf dnEnd base p inset setlen moreInSet acc Hh H32 Hb Hp H16 Hf Hacc; [lia|].
  cbn [dn_loop]. pstep.
  - pstep. cbn [fst snd]. splits; try lia. apply Forall_rev. auto.
  - pstep.
    apply post_weaken with (Q := fun r : N * N => p <= snd r /\ snd r <= dnEnd).
    { pstep.
      - pstep. cbn [snd]. lia.
      - pstep. u32.
        eapply post_weaken; [apply getAsnSet_spec; eapply holds_le; eauto; lia|].
        intros [sl p1] (A1 & A2 & A3 & A4). cbn [snd]. lia. }
    intros [setlen' p1]. cbn [snd]. intros [A1 A2].
    pstep. pstep. u32.
    eapply post_weaken; [apply getAsnSequence_spec; eapply holds_le; eauto; lia|].
    intros [llen p2] (B1 & B2 & B3 & B4).
    pstep.
    eapply post_weaken; [apply dn_attr_spec; auto; lia|].
    intros [step p3]. cbn [fst snd]. intros (C1 & C2 & C3).
    destruct step; cbn [dn_step_ok] in C3.
    + eapply post_weaken; [eapply (IH buf dnEnd base p3); auto; try lia|].
      intros [l q]. cbn [fst snd]. intros (D1 & D2 & D3). splits; auto; lia.
    + eapply post_weaken; [eapply (IH buf dnEnd base p3); auto; try lia|].
      intros [l q]. cbn [fst snd]. intros (D1 & D2 & D3). splits; auto; lia.
    + eapply post_weaken; [eapply (IH buf dnEnd base p3); auto; try lia|].
      intros [l q]. cbn [fst snd]. intros (D1 & D2 & D3). splits; auto; lia.
Qed.

Theorem dn_attributes_spec buf c len :
  holds buf (c + len) -> c + len < two32 -> len < 65536 ->
  post (fun r => Forall dn_terminated (fst r) /\ c < snd r /\ snd r <= c + len) (dn_attributes buf c len).
Proof.
  intros Hh H32 H16. unfold dn_attributes.
  pstep. pstep.
  eapply post_weaken; [apply getAsnSequence_spec; auto|].
  intros [llen p] (A1 & A2 & A3 & A4).
  eapply post_weaken; [eapply (dn_loop_spec _ buf (p + llen) c p); auto; try lia|].
  - eapply holds_le; eauto.
  - intros [l q]. cbn [fst snd]. intros (D1 & D2 & D3). splits; auto; lia.
Qed.

(* ------------------------------------------------------------------------------------------ CRL revoked entries *)
Lemma getSerialNum_spec buf c len :
  holds buf (c + len) ->
  post (fun r => c + 1 < snd r /\ snd r <= c + len) (getSerialNum buf c len).
Proof.
  intros Hh. unfold getSerialNum.
  pstep; [pstep|]. b2p.
  pstep. pstep; [lia|].
  pstep; [pstep|].
  pstep. pstep.
  eapply post_weaken; [apply getAsnLength_spec; eapply holds_le; eauto; lia|].
  intros [vlen p] (A1 & A2 & A3 & A4).
  pstep; [pstep|]. b2p.
  pstep. pstep; [lia|].
  pstep. cbn [snd]. lia.
Qed.

Lemma crl_entry_spec buf endp p :
  holds buf endp -> endp < two32 -> p <= endp ->
  post (fun r => let '(_, p', used) := r in p + 2 <= p' /\ p' <= endp /\ used = p' - p) (crl_entry true buf endp p).
Proof.
  intros Hh H32 Hp. unfold crl_entry.
  pstep. pstep. u32.
  eapply post_weaken; [apply getAsnConstructed32_spec; eapply holds_le; eauto; lia|].
  intros [[rc ilen] p1] HS. cbn in HS. destruct HS as (S1 & S2 & S3 & S4 & S5). destruct (S5 eq_refl) as [_ S6].
  pose proof (mod16_le ilen) as M.
  pstep.
  eapply post_weaken; [apply getSerialNum_spec; eapply holds_le; eauto; lia|].
  intros [serial p2]. cbn [snd]. intros [B1 B2].
  pstep; [pstep|]. b2p.
  pstep. pstep; [lia|].
  pstep; [pstep|].
  pstep. pstep. u32.
  eapply post_weaken; [apply getAsnLength_spec; eapply holds_le; eauto; lia|].
  intros [timelen p3] (C1 & C2 & C3 & C4).
  pstep; [pstep|]. b2p. u32.
  pstep. pstep; [lia|].
  pstep; [pstep|].
  pstep; [pstep|]. cbn [andb] in *. b2p. u32.
  pstep.

Show.
Abort.
