(* Bytes and C strings.  A byte is an [N] (< 256 by convention); a C string is the list of bytes
   before the first 0. *)
From Coq Require Export List NArith ZArith Bool Lia.
Export ListNotations.
Local Open Scope N_scope.

Definition byte := N.
Definition bytes := list N.

(* C-string view of a buffer that is known to be 0-terminated after its last element *)
Fixpoint cstr (b : bytes) : bytes :=
  match b with
  | [] => []
  | x :: r => if x =? 0 then [] else x :: cstr r
  end.

Definition nonul (b : bytes) : bool := forallb (fun x => negb (x =? 0)) b.

(* ASCII tolower in the "C" locale *)
Definition lower (c : N) : N := if (65 <=? c) && (c <=? 90) then c + 32 else c.

(* strcasecmp(a,b) == 0 on C strings *)
Fixpoint strcaseeq (a b : bytes) : bool :=
  match a, b with
  | [], [] => true
  | x :: a', y :: b' => (lower x =? lower y) && strcaseeq a' b'
  | _, _ => false
  end.

(* strcmp(a,b) == 0 *)
Fixpoint streq (a b : bytes) : bool :=
  match a, b with
  | [], [] => true
  | x :: a', y :: b' => (x =? y) && streq a' b'
  | _, _ => false
  end.

(* decimal rendering of a number, as printf("%u") does *)
Fixpoint dec_digits (fuel : nat) (n : N) (acc : bytes) : bytes :=
  match fuel with
  | O => acc
  | S f => let acc' := (48 + n mod 10) :: acc in
           if n / 10 =? 0 then acc' else dec_digits f (n / 10) acc'
  end.
Definition dec (n : N) : bytes := dec_digits 20 n [].
