(* What property C13 demands of the pstm operations, independent of the shape of the code:
   every operation, on well-formed operands, either returns the exact integer result in a well-formed
   pstm_int (also when the destination is one of the operands), or reports one of its documented errors. *)
From MV Require Export Big.BigModel.
Local Open Scope Z_scope.

Definition digit (d : Z) : Prop := 0 <= d < W.

(* the integer a pstm_int stands for *)
Definition mag (p : pint) : Z := val (firstn (used p) (dp p)).
Definition ival (p : pint) : Z := if sign p then - mag p else mag p.

(* representation invariant (pstm.h 143-157, pstm_clamp): *)
Record wfp (p : pint) : Prop := mk_wfp {
  wf_used : (used p <= alloc p)%nat;                              (* used <= alloc *)
  wf_alloc : (alloc p <= MAXN)%nat;                               (* alloc <= PSTM_MAX_SIZE *)
  wf_digits : Forall digit (dp p);                                (* every digit in [0, 2^DIGIT_BIT) *)
  wf_high : forall k, (used p <= k)%nat -> nth k (dp p) 0 = 0;    (* digits above used are zero *)
  wf_top : (0 < used p)%nat -> nth (used p - 1) (dp p) 0 <> 0;    (* leading digit non-zero *)
  wf_zero : used p = 0%nat -> sign p = false                      (* zero is positive *)
}.

(* frame: objects other than the destination(s) are untouched *)
Definition frame (st st' : store) (dst : id -> Prop) : Prop := forall j, ~ dst j -> get st' j = get st j.

(* documented error returns *)
Definition mem_or_limit (e : err) : Prop := e = EMem \/ e = ELimit.

(* the exact results, as integers *)
Definition sgn_mag (neg : bool) (m : Z) : Z := if neg then - m else m.
Definition trunc_div2k (a k : Z) : Z := Z.sgn a * (Z.abs a / 2 ^ k).          (* pstm_div_2d quotient: magnitude shifted, sign kept *)
Definition trunc_mod2k (a k : Z) : Z := Z.sgn a * (Z.abs a mod 2 ^ k).        (* pstm_div_2d remainder / pstm_mod_2d *)
