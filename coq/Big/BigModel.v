(* Executable, code-shaped model of the pstm big-integer library (property C13).
   C sources: crypto/math/pstm.c, pstm_mul_comba.c, pstm_sqr_comba.c, pstm_montgomery_reduce.c, pstm.h
   (configuration of the default build: 64-bit digits, x86-64 assembly macros, PSTM_LARGE_DIV off).
   No proofs here: the model must still run when a proof breaks.

   Shape of the model
   * a pstm_int is [pint] = digit list (little endian, length = alloc), [used], [sign];
   * C objects live in a [store] (list of pint indexed by an object id); every function takes object
     ids, so "c == a", "c == b", "a == b == c" are ordinary instances (equal ids = equal pointers)
     and every read of an operand after the destination was written sees the written value, exactly as
     in C.  Distinct ids own distinct digit buffers.
   * digit-by-digit loops that read operands and write the destination are written with the loop
     combinators [lo_loop] (index ascending) / [hi_loop] (index descending): one store write per
     iteration, reads go through the current store.
   * pstm_word arithmetic is reduced modulo W*W, pstm_digit arithmetic modulo W, where the C does so.
   * x86-64 assembly macros (MULADD, SQRADD, SQRADD2, INNERMUL, INNERMUL8, PROPCARRY) are modelled by
     their add-with-carry meaning on 64-bit registers.
   * error returns: PS_MEM_FAIL/PSTM_MEM = EMem, PS_LIMIT_FAIL = ELimit, PS_ARG_FAIL = EArg,
     PS_FAILURE = EFail.  EFault marks an out-of-bounds access of a digit buffer (never a C return code).
   * the allocator never fails; pstm_grow fails exactly when size > PSTM_MAX_SIZE.

   The model follows the FIXED code of the pending patches pending-fixes/C13-*.patch (each place is
   marked FIXED below with what the unfixed code did). *)
From Coq Require Export List ZArith Bool Lia.
From MV Require Export Gen.Consts.
Export ListNotations.
Local Open Scope Z_scope.

(* ---- constants (pstm.h 82-141) *)
Definition DB : Z := c_DIGIT_BIT.                      (* DIGIT_BIT *)
Definition W : Z := 2 ^ DB.                            (* one more than PSTM_MASK *)
Definition MAXN : nat := Z.to_nat c_PSTM_MAX_SIZE.     (* PSTM_MAX_SIZE *)
(* shifts and masks, as in the C; BigProofs.v relates them to mod / div (Z.land_ones, Z.shiftr_div_pow2) *)
Definition dmod (x : Z) : Z := Z.land x (Z.ones DB).           (* (pstm_digit) x        = x mod W *)
Definition wmod (x : Z) : Z := Z.land x (Z.ones (DB + DB)).    (* pstm_word arithmetic   = x mod W^2 *)
Definition hi (x : Z) : Z := Z.shiftr x DB.                     (* x >> DIGIT_BIT         = x / W *)
Definition shr (x n : Z) : Z := Z.shiftr x n.                   (* x >> n *)
Definition shl (x n : Z) : Z := dmod (Z.shiftl x n).            (* (pstm_digit)(x << n) *)
Definition lowbits (x n : Z) : Z := Z.land x (Z.ones n).        (* x & ((1 << n) - 1) *)

(* ---- results *)
Inductive err := EMem | ELimit | EArg | EFail | EFault.
Inductive res (A : Type) := Ok (a : A) | Err (e : err).
Arguments Ok {A} a. Arguments Err {A} e.
Definition bind {A B} (r : res A) (f : A -> res B) : res B := match r with Ok a => f a | Err e => Err e end.
Notation "'do' x <- r ; k" := (bind r (fun x => k)) (at level 200, x pattern, r at level 100, k at level 200).
(* "if (f(..) != PSTM_OKAY) return CODE;" *)
Definition remap {A} (e : err) (r : res A) : res A := match r with Ok a => Ok a | Err _ => Err e end.
Definition err_code (e : err) : Z :=
  match e with EMem => c_PS_MEM_FAIL | ELimit => c_PS_LIMIT_FAIL | EArg => c_PS_ARG_FAIL | EFail => c_PS_FAILURE | EFault => 1 end.

(* ---- pstm_int (pstm.h 143-157) and the object store *)
Record pint := mkp { dp : list Z; used : nat; sign : bool }.       (* sign: true = PSTM_NEG *)
Definition alloc (p : pint) : nat := length (dp p).
Definition pzero : pint := mkp [] 0 false.
Definition id := nat.
Definition store := list pint.
Fixpoint get (st : store) (i : id) : pint :=
  match i, st with
  | _, [] => pzero
  | O, p :: _ => p
  | S i', _ :: r => get r i'
  end.
Fixpoint set (st : store) (i : id) (p : pint) : store :=
  match i, st with
  | O, [] => [p]
  | O, _ :: r => p :: r
  | S i', [] => pzero :: set [] i' p
  | S i', q :: r => q :: set r i' p
  end.

Definition rdd (p : pint) (x : nat) : Z := nth x (dp p) 0.              (* p->dp[x] *)
Fixpoint upd (l : list Z) (x : nat) (v : Z) : list Z :=
  match l, x with
  | [], _ => []
  | _ :: r, O => v :: r
  | d :: r, S x' => d :: upd r x' v
  end.
Definition wrd (p : pint) (x : nat) (v : Z) : pint := mkp (upd (dp p) x v) (used p) (sign p).   (* p->dp[x] = v *)
Definition set_used (c : id) (u : nat) (st : store) : store := let p := get st c in set st c (mkp (dp p) u (sign p)).
Definition set_sign (c : id) (s : bool) (st : store) : store := let p := get st c in set st c (mkp (dp p) (used p) s).
Definition set_dp (c : id) (d : list Z) (st : store) : store := let p := get st c in set st c (mkp d (used p) (sign p)).
Definition wr (c : id) (x : nat) (v : Z) (st : store) : store := set st c (wrd (get st c) x v).
(* for (x = lo; x < hi; x++) c->dp[x] = 0; *)
Fixpoint zero_range (l : list Z) (lo hi : nat) : list Z :=
  match l with
  | [] => []
  | d :: r => (match lo, hi with O, S _ => 0 | _, _ => d end) :: zero_range r (Nat.pred lo) (Nat.pred hi)
  end.
Definition zero_digits (c : id) (lo hi : nat) (st : store) : store := set_dp c (zero_range (dp (get st c)) lo hi) st.

(* ---- loop combinators: one destination digit per iteration, operands read through the store *)
(* for (x = x0; x < x0 + n; x++) { (d, t) = body(x, t); c->dp[x] = d; } *)
Fixpoint lo_loop (body : nat -> Z -> store -> Z * Z) (c : id) (n x : nat) (t : Z) (st : store) : store * Z :=
  match n with
  | O => (st, t)
  | S n' => let '(d, t') := body x t st in lo_loop body c n' (S x) t' (wr c x d st)
  end.
(* for (x = n - 1; x >= 0; x--) { (d, t) = body(x, t); c->dp[x] = d; } *)
Fixpoint hi_loop (body : nat -> Z -> store -> Z * Z) (c : id) (n : nat) (t : Z) (st : store) : store * Z :=
  match n with
  | O => (st, t)
  | S n' => let '(d, t') := body n' t st in hi_loop body c n' t' (wr c n' d st)
  end.

(* ---- pstm_grow (pstm.c 101-135): realloc keeps the old digits, new digits are zeroed *)
Definition pstm_grow (a : id) (size : nat) (st : store) : res store :=
  if (MAXN <? size)%nat then Err EMem
  else let A := get st a in
       if (alloc A <? size)%nat then Ok (set_dp a (dp A ++ repeat 0 (size - alloc A)) st) else Ok st.

(* pstm_init_size (58-81) into a fresh object *)
Definition pstm_init_size (a : id) (size : nat) (st : store) : res store :=
  if (MAXN <? size)%nat then Err EMem else Ok (set st a (mkp (repeat 0 size) 0 false)).

(* ---- pstm_clamp (208-220) *)
Fixpoint clamp_used (d : list Z) (u : nat) : nat :=
  match u with
  | O => O
  | S u' => if nth u' d 0 =? 0 then clamp_used d u' else u
  end.
Definition pstm_clamp (a : id) (st : store) : store :=
  let A := get st a in
  let u := clamp_used (dp A) (used A) in
  set st a (mkp (dp A) u (if (u =? 0)%nat then false else sign A)).

(* ---- pstm_zero (293-306), pstm_set (718-723) *)
Definition pstm_zero (a : id) (st : store) : store := set st a (mkp (repeat 0 (alloc (get st a))) 0 false).
Definition pstm_set (a : id) (b : Z) (st : store) : store :=
  let st := pstm_zero a st in
  let st := wr a 0 b st in
  set_used a (if rdd (get st a) 0 =? 0 then 0%nat else 1%nat) st.

(* ---- pstm_copy (141-183): b = a.  Distinct ids own distinct buffers, so the two loops are block moves. *)
Definition pstm_copy (a b : id) (st : store) : res store :=
  if (a =? b)%nat then Ok st else
  do st <- (if (alloc (get st b) <? used (get st a))%nat then pstm_grow b (used (get st a)) st else Ok st);
  let A := get st a in let B := get st b in
  let n := used A in
  if (alloc B <? n)%nat then Err EFault else
  let d := firstn n (dp A) ++ skipn n (zero_range (dp B) n (used B)) in
  Ok (set st b (mkp d n (sign A))).

(* pstm_abs (190-198) *)
Definition pstm_abs (a b : id) (st : store) : res store :=
  do st <- remap EMem (pstm_copy a b st);
  Ok (set_sign b false st).

(* pstm_init_copy (1470-1499) into a fresh object a, toSqr = 0 *)
Definition pstm_init_copy (a b : id) (st : store) : res store :=
  if (a =? b)%nat then Ok st else
  do st <- pstm_init_size a (alloc (get st b)) st;
  pstm_copy b a st.

(* ---- pstm_cmp_mag (312-343), pstm_cmp (349-373), pstm_cmp_d (379-404) *)
Fixpoint cmp_digits (da db : list Z) (n : nat) : Z :=       (* from digit n-1 down to digit 0 *)
  match n with
  | O => c_PSTM_EQ
  | S n' => let x := nth n' da 0 in let y := nth n' db 0 in
            if x >? y then c_PSTM_GT else if x <? y then c_PSTM_LT else cmp_digits da db n'
  end.
Definition pstm_cmp_mag (a b : id) (st : store) : Z :=
  let A := get st a in let B := get st b in
  if (used B <? used A)%nat then c_PSTM_GT
  else if (used A <? used B)%nat then c_PSTM_LT
  else cmp_digits (dp A) (dp B) (used A).
Definition pstm_cmp (a b : id) (st : store) : Z :=
  let A := get st a in let B := get st b in
  if negb (Bool.eqb (sign A) (sign B)) then (if sign A then c_PSTM_LT else c_PSTM_GT)
  else if sign A then pstm_cmp_mag b a st else pstm_cmp_mag a b st.
Definition pstm_cmp_d (a : id) (b : Z) (st : store) : Z :=
  let A := get st a in
  if (negb (b =? 0) && (used A =? 0)%nat) || sign A then c_PSTM_LT
  else if (1 <? used A)%nat then c_PSTM_GT
  else if rdd A 0 >? b then c_PSTM_GT else if rdd A 0 <? b then c_PSTM_LT else c_PSTM_EQ.

(* ---- pstm_count_bits (676-697): the shift loop counts the bits of the top digit *)
Definition digit_bits (q : Z) : Z := if q <=? 0 then 0 else Z.log2 q + 1.
Definition pstm_count_bits (a : id) (st : store) : Z :=
  let A := get st a in
  if (used A =? 0)%nat then 0 else (Z.of_nat (used A) - 1) * DB + digit_bits (rdd A (used A - 1)).
Definition pstm_unsigned_bin_size (a : id) (st : store) : Z :=
  let size := pstm_count_bits a st in shr size 3 + (if Z.land size 7 =? 0 then 0 else 1).

(* ---- s_pstm_add (967-1031): unsigned addition |a| + |b| -> c *)
Definition add_body (a b : id) (x : nat) (t : Z) (st : store) : Z * Z :=
  let A := get st a in let B := get st b in
  let adp := if (used A <=? x)%nat then 0 else rdd A x in
  let bdp := if (used B <=? x)%nat then 0 else rdd B x in
  let t' := wmod (t + adp + bdp) in
  (dmod t', hi t').
Definition s_pstm_add (a b c : id) (st : store) : res store :=
  let y := Nat.max (used (get st a)) (used (get st b)) in
  let oldused := used (get st c) in
  let st := set_used c y st in
  do st <- (if (alloc (get st c) <? y)%nat then remap EMem (pstm_grow c y st) else Ok st);
  if (alloc (get st c) <? y)%nat then Err EFault else
  let '(st, t) := lo_loop (add_body a b) c y 0 0 st in
  do r <- (if negb (t =? 0) then
             (* FIXED: the unfixed code tested "t != 0 && x < PSTM_MAX_SIZE" and dropped the carry at the limit *)
             if (MAXN <=? y)%nat then Err ELimit
             else
               do st <- (if (used (get st c) =? alloc (get st c))%nat
                         then remap EMem (pstm_grow c (alloc (get st c) + 1) st) else Ok st);
               let u := used (get st c) in
               if (alloc (get st c) <=? u)%nat then Err EFault else
               Ok (set_used c (S u) (wr c u (dmod t) st), S y)
           else Ok (st, y));
  let '(st, x) := r in
  let st := set_used c x st in
  let st := zero_digits c x oldused st in
  Ok (pstm_clamp c st).

(* ---- pstm_sub_s (915-954): unsigned subtraction |a| - |b| -> c, documented precondition |a| >= |b| *)
Definition sub_body1 (a b : id) (x : nat) (t : Z) (st : store) : Z * Z :=
  let t' := wmod (rdd (get st a) x - (rdd (get st b) x + t)) in
  (dmod t', Z.land (hi t') 1).
Definition sub_body2 (a : id) (x : nat) (t : Z) (st : store) : Z * Z :=
  let t' := wmod (rdd (get st a) x - t) in
  (* FIXED: the unfixed code had "t = (t >> DIGIT_BIT)" without "& 1": after a borrow out of a zero digit
     the next digit had 2^64-1 subtracted instead of 1 *)
  (dmod t', Z.land (hi t') 1).
Definition pstm_sub_s (a b c : id) (st : store) : res store :=
  if (used (get st a) <? used (get st b))%nat then Err ELimit else
  do st <- (if (alloc (get st c) <? used (get st a))%nat then pstm_grow c (used (get st a)) st else Ok st);
  let oldused := used (get st c) in
  let oldbused := used (get st b) in
  let st := set_used c (used (get st a)) st in
  let ua := used (get st a) in
  if (alloc (get st c) <? ua)%nat then Err EFault else
  let '(st, t) := lo_loop (sub_body1 a b) c oldbused 0 0 st in
  let '(st, t) := lo_loop (sub_body2 a) c (ua - oldbused) oldbused t st in
  let st := zero_digits c ua oldused st in
  Ok (pstm_clamp c st).

(* ---- pstm_add (2423-2467), pstm_sub (1039-1087): sign logic *)
Definition pstm_add (a b c : id) (st : store) : res store :=
  let sa := sign (get st a) in let sb := sign (get st b) in
  if Bool.eqb sa sb then s_pstm_add a b c (set_sign c sa st)
  else if pstm_cmp_mag a b st =? c_PSTM_LT then pstm_sub_s b a c (set_sign c sb st)
  else pstm_sub_s a b c (set_sign c sa st).
Definition pstm_sub (a b c : id) (st : store) : res store :=
  let sa := sign (get st a) in let sb := sign (get st b) in
  if negb (Bool.eqb sa sb) then s_pstm_add a b c (set_sign c sa st)
  else if negb (pstm_cmp_mag a b st =? c_PSTM_LT) then pstm_sub_s a b c (set_sign c sa st)
  else pstm_sub_s b a c (set_sign c (negb sa) st).

(* ---- pstm_add_d (569-582), pstm_sub_d (1094-1107): tmp is a fresh 8-digit object *)
Definition fresh (a c : id) : id := (4 + Nat.max a c)%nat.      (* not a, not c, and none of the caller's four objects *)
Definition pstm_add_d (a : id) (b : Z) (c : id) (st : store) : res store :=
  let tmp := fresh a c in
  do st <- remap EMem (pstm_init_size tmp (Z.to_nat (DB / 8)) st);
  pstm_add a tmp c (pstm_set tmp b st).
Definition pstm_sub_d (a : id) (b : Z) (c : id) (st : store) : res store :=
  let tmp := fresh a c in
  do st <- remap EMem (pstm_init_size tmp (Z.to_nat (DB / 8)) st);
  pstm_sub a tmp c (pstm_set tmp b st).

(* ---- pstm_mul_d (1289-1323): c = a * b, b one digit *)
Definition muld_body (a : id) (b : Z) (x : nat) (w : Z) (st : store) : Z * Z :=
  let w' := wmod (rdd (get st a) x * b + w) in (dmod w', hi w').
Definition pstm_mul_d (a : id) (b : Z) (c : id) (st : store) : res store :=
  do st <- (if (alloc (get st c) <? used (get st a) + 1)%nat then pstm_grow c (used (get st a) + 1) st else Ok st);
  let oldused := used (get st c) in
  let st := set_used c (used (get st a)) st in
  let st := set_sign c (sign (get st a)) st in
  let ua := used (get st a) in
  if (alloc (get st c) <? ua + 1)%nat then Err EFault else
  let '(st, w) := lo_loop (muld_body a b) c ua 0 0 st in
  let '(st, x) := (if negb (w =? 0) && negb (used (get st a) =? MAXN)%nat
                   then (set_used c (S (used (get st c))) (wr c (used (get st c)) (dmod w) st), S ua)
                   else (st, ua)) in
  let st := zero_digits c x oldused st in
  Ok (pstm_clamp c st).

(* ---- pstm_mul_2 (849-908): b = 2a *)
Definition mul2_body (a : id) (x : nat) (r : Z) (st : store) : Z * Z :=
  let d := rdd (get st a) x in (Z.lor (shl d 1) r, shr d (DB - 1)).          (* (d << 1) | r ; d >> (DIGIT_BIT-1) *)
Definition pstm_mul_2 (a b : id) (st : store) : res store :=
  do st <- (if (alloc (get st b) <? used (get st a) + 1)%nat then pstm_grow b (used (get st a) + 1) st else Ok st);
  let oldused := used (get st b) in
  let st := set_used b (used (get st a)) st in
  let ua := used (get st a) in
  if (alloc (get st b) <? ua + 1)%nat then Err EFault else
  let '(st, r) := lo_loop (mul2_body a) b ua 0 0 st in
  (* FIXED: the unfixed code tested "r != 0 && b->used != PSTM_MAX_SIZE - 1" and dropped the top bit of a
     191-digit operand *)
  let st := if negb (r =? 0) then set_used b (S (used (get st b))) (wr b ua 1 st) else st in
  let st := zero_digits b (used (get st b)) oldused st in
  Ok (set_sign b (sign (get st a)) st).

(* ---- pstm_div_2 (1418-1464): b = a / 2 (magnitude) *)
Definition div2_body (a : id) (x : nat) (r : Z) (st : store) : Z * Z :=
  let d := rdd (get st a) x in (Z.lor (shr d 1) (shl r (DB - 1)), Z.land d 1).  (* (d >> 1) | (r << 63) ; d & 1 *)
Definition pstm_div_2 (a b : id) (st : store) : res store :=
  do st <- (if (alloc (get st b) <? used (get st a))%nat then remap EMem (pstm_grow b (used (get st a)) st) else Ok st);
  let oldused := used (get st b) in
  let st := set_used b (used (get st a)) st in
  let ub := used (get st b) in
  if (alloc (get st b) <? ub)%nat then Err EFault else
  let '(st, _) := hi_loop (div2_body a) b ub 0 st in
  let st := zero_digits b ub oldused st in
  let st := set_sign b (sign (get st a)) st in
  Ok (pstm_clamp b st).

(* ---- pstm_rshd (730-753), pstm_lshd (761-804): digit shifts, in place *)
Definition pstm_rshd (a : id) (b : nat) (st : store) : store :=
  let A := get st a in
  if (used A <=? b)%nat then pstm_zero a st else
  let u := used A in
  let d := skipn b (firstn u (dp A)) ++ repeat 0 b ++ skipn u (dp A) in
  pstm_clamp a (set st a (mkp d (u - b) (sign A))).
Definition pstm_lshd (a : id) (b : nat) (st : store) : res store :=
  if (b =? 0)%nat then Ok st else
  let need := (used (get st a) + b)%nat in
  if 65536 <=? Z.of_nat need then Err EFault else       (* psSize_t is 16 bits: pstm_grow would see a truncated size *)
  do st <- (if (alloc (get st a) <? need)%nat then pstm_grow a need st else Ok st);
  let A := get st a in
  if (alloc A <? need)%nat then Err EFault else
  let d := repeat 0 b ++ firstn (used A) (dp A) ++ skipn need (dp A) in
  (* FIXED: the unfixed code did not clamp: shifting zero left used = b with all digits zero *)
  Ok (pstm_clamp a (set st a (mkp d need (sign A)))).

(* ---- pstm_2expt (810-842): a = 2^b *)
Definition pstm_2expt (a : id) (b : Z) (st : store) : res store :=
  let st := pstm_zero a st in
  if b <? 0 then Ok st else
  let z := Z.to_nat (b / DB) in
  if (MAXN <=? z)%nat then Err ELimit else
  let st := set_used a (S z) st in
  do st <- (if (alloc (get st a) <? S z)%nat then remap EMem (pstm_grow a (S z) st) else Ok st);
  if (alloc (get st a) <=? z)%nat then Err EFault else
  Ok (wr a z (shl 1 (b mod DB)) st).

(* ---- pstm_mul_2d (1197-1244, static): c = a * 2^b, b >= 0 *)
Definition mul2d_body (c : id) (b : Z) (x : nat) (carry : Z) (st : store) : Z * Z :=
  let d := rdd (get st c) x in (dmod (shl d b + carry), shr d (DB - b)).   (* (d << b) + carry ; d >> (DIGIT_BIT - b) *)
Definition pstm_mul_2d (a : id) (b : Z) (c : id) (st : store) : res store :=
  do st <- remap EMem (pstm_copy a c st);
  do st <- (if DB <=? b then remap EMem (pstm_lshd c (Z.to_nat (b / DB)) st) else Ok st);
  let b := b mod DB in
  if b =? 0 then Ok (pstm_clamp c st) else
  let uc := used (get st c) in
  if (alloc (get st c) <? uc)%nat then Err EFault else
  let '(st, carry) := lo_loop (mul2d_body c b) c uc 0 0 st in
  do st <- (if negb (carry =? 0) then
              (* FIXED: the unfixed code tested "carry && x < PSTM_MAX_SIZE" and dropped the carry at the limit *)
              if (MAXN <=? uc)%nat then Err ELimit
              else
                do st <- (if (used (get st c) =? alloc (get st c))%nat
                          then remap EMem (pstm_grow c (alloc (get st c) + 1) st) else Ok st);
                let u := used (get st c) in
                if (alloc (get st c) <=? u)%nat then Err EFault else
                Ok (set_used c (S u) (wr c u carry st))
            else Ok st);
  Ok (pstm_clamp c st).

(* ---- pstm_mod_2d (1250-1282, static): c = a mod 2^b (magnitude) *)
Definition pstm_mod_2d (a : id) (b : Z) (c : id) (st : store) : res store :=
  if b <=? 0 then Ok (pstm_zero c st) else
  do st <- remap EMem (pstm_copy a c st);
  if DB * Z.of_nat (used (get st a)) <=? b then Ok st else
  let x := Z.to_nat (b / DB + (if b mod DB =? 0 then 0 else 1)) in
  let st := zero_digits c x (used (get st c)) st in
  (* "&= ~0 >> (DIGIT_BIT - b)": the x86-64 shift instruction takes the count modulo 64 (for b > 64 the C
     expression has a negative shift count; the compiled code masks with 2^(b mod 64) - 1, all ones if 0) *)
  let k := Z.to_nat (b / DB) in
  let st := wr c k (lowbits (rdd (get st c) k) (if b mod DB =? 0 then DB else b mod DB)) st in
  Ok (pstm_clamp c st).

(* ---- pstm_div_2d (1335-1411): c = a / 2^b, d = a mod 2^b (optional) *)
Definition div2d_body (c : id) (D : Z) (x : nat) (r : Z) (st : store) : Z * Z :=
  let d := rdd (get st c) x in (Z.lor (shr d D) (shl r (DB - D)), lowbits d D).       (* (d >> D) | (r << shift) ; d & mask *)
Definition pstm_div_2d (a : id) (b : Z) (c : id) (d : option id) (st : store) : res store :=
  if b <=? 0 then
    do st <- remap EMem (pstm_copy a c st);
    Ok (match d with Some d => pstm_zero d st | None => st end)
  else
  (* FIXED: when c == a the unfixed code computed the remainder from the already shifted a *)
  do pre <- (match d with
             | Some d' => if (c =? a)%nat then do st <- remap EMem (pstm_mod_2d a b d' st); Ok (st, None) else Ok (st, d)
             | None => Ok (st, d) end);
  let '(st, d) := pre in
  let finish (r : res store) (st : store) : res store :=
      match d with
      | Some d' => match pstm_mod_2d a b d' st with Ok st' => (match r with Ok _ => Ok st' | Err e => Err e end) | Err _ => Err EMem end
      | None => match r with Ok _ => Ok st | Err e => Err e end
      end in
  match pstm_copy a c st with
  | Err _ => finish (Err EMem) st
  | Ok st =>
    let st := if DB <=? b then pstm_rshd c (Z.to_nat (b / DB)) st else st in
    let D := b mod DB in
    let st := if D =? 0 then st else fst (hi_loop (div2d_body c D) c (used (get st c)) 0 st) in
    let st := pstm_clamp c st in
    finish (Ok st) st
  end.

(* ---- comba multiplier (pstm_mul_comba.c 258-363) *)
(* MULADD (110-118): mulq ; addq %rax,c0 ; adcq %rdx,c1 ; adcq $0,c2 *)
Definition muladd (acc : Z * Z * Z) (i j : Z) : Z * Z * Z :=
  let '(c0, c1, c2) := acc in
  let p := i * j in
  let s0 := c0 + dmod p in
  let s1 := c1 + hi p + hi s0 in
  (dmod s0, dmod s1, dmod (c2 + hi s1)).
Definition comba_forward (acc : Z * Z * Z) : Z * Z * Z := let '(_, c1, c2) := acc in (c1, c2, 0).
(* for (iz = 0; iz < iy; ++iz) MULADD( *tmpx++, *tmpy-- ); *)
Fixpoint mul_col (da db : list Z) (tx ty iy : nat) (acc : Z * Z * Z) : Z * Z * Z :=
  match iy with
  | O => acc
  | S k => mul_col da db (S tx) (Nat.pred ty) k (muladd acc (nth tx da 0) (nth ty db 0))
  end.
(* columns ix .. ix+n-1; returns dst digits *)
Fixpoint mul_cols (da db : list Z) (ua ub : nat) (n ix : nat) (acc : Z * Z * Z) : list Z :=
  match n with
  | O => []
  | S n' =>
    let ty := Nat.min ix (ub - 1) in
    let tx := (ix - ty)%nat in
    let iy := if (ub =? 0)%nat then O else Nat.min (ua - tx) (ty + 1) in     (* ub = 0: ty = -1, no iteration *)
    let acc := mul_col da db tx ty iy (comba_forward acc) in
    (let '(c0, _, _) := acc in c0) :: mul_cols da db ua ub n' (S ix) acc
  end.
(* The unrolled 16x16 and 32x32 variants (USE_1024/2048_KEY_SPEED_OPTIMIZATIONS, selected by
   A->used == B->used == 16 / 32) compute the same columns from a stack copy of both operands and (FIXED:
   the unfixed variants did not clear stale digits of C above the product) store them the same way; they are
   not transcribed separately and are tied to this model by correspondence at exactly those sizes. *)
Definition pstm_mul_comba (a b c : id) (st : store) : res store :=
  let pa := (used (get st a) + used (get st b))%nat in
  do st <- (if (alloc (get st c) <? pa)%nat then remap EMem (pstm_grow c pa st) else Ok st);
  let A := get st a in let B := get st b in
  let dst := mul_cols (dp A) (dp B) (used A) (used B) pa 0 (0, 0, 0) in
  let iy := used (get st c) in
  let sg := xorb (sign A) (sign B) in
  let C := get st c in
  if (alloc C <? pa)%nat then Err EFault else
  let d := zero_range (dst ++ skipn pa (dp C)) pa iy in
  Ok (pstm_clamp c (set st c (mkp d pa sg))).

(* ---- comba squarer (pstm_sqr_comba.c 531-655) *)
Definition sqradd2 (acc : Z * Z * Z) (i j : Z) : Z * Z * Z := muladd (muladd acc i j) i j.     (* SQRADD2: the product added twice *)
Fixpoint sqr_col (da : list Z) (tx ty iy : nat) (acc : Z * Z * Z) : Z * Z * Z :=
  match iy with
  | O => acc
  | S k => sqr_col da (S tx) (Nat.pred ty) k (sqradd2 acc (nth tx da 0) (nth ty da 0))
  end.
Fixpoint sqr_cols (da : list Z) (ua : nat) (n ix : nat) (acc : Z * Z * Z) : list Z :=
  match n with
  | O => []
  | S n' =>
    let ty := Nat.min (ua - 1) ix in
    let tx := (ix - ty)%nat in
    let iy := Nat.min (Nat.min (ua - tx) (ty + 1)) ((ty + 1 - tx) / 2) in
    let acc := sqr_col da tx ty iy (comba_forward acc) in
    let acc := if Nat.even ix then muladd acc (nth (ix / 2) da 0) (nth (ix / 2) da 0) else acc in   (* SQRADD *)
    (let '(c0, _, _) := acc in c0) :: sqr_cols da ua n' (S ix) acc
  end.
Definition pstm_sqr_comba (a b : id) (st : store) : res store :=
  let pa := (used (get st a) + used (get st a))%nat in
  do st <- (if (alloc (get st b) <? pa)%nat then remap EMem (pstm_grow b pa st) else Ok st);
  let A := get st a in
  let dst := sqr_cols (dp A) (used A) pa 0 (0, 0, 0) in
  let B := get st b in
  if (alloc B <? pa)%nat then Err EFault else
  let d := zero_range (dst ++ skipn pa (dp B)) pa (used B) in
  (* FIXED: the unfixed generic squarer left B->sign untouched (the square of a negative number in place
     stayed negative) *)
  Ok (pstm_clamp b (set st b (mkp d pa false))).

(* ---- pstm_read_unsigned_bin (439-525, 64-bit digit branch 500-520) *)
Fixpoint read_bytes (a : id) (buf : list Z) (st : store) : res store :=
  match buf with
  | [] => Ok st
  | byte :: r =>
    do st <- remap EMem (pstm_mul_2d a 8 a st);
    if (alloc (get st a) =? 0)%nat then Err EFault else
    let st := wr a 0 (Z.lor (rdd (get st a) 0) byte) st in
    read_bytes a r (set_used a (S (used (get st a))) st)
  end.
Definition pstm_read_unsigned_bin (a : id) (buf : list Z) (st : store) : res store :=
  let st := pstm_zero a st in
  let len := Z.of_nat (length buf) in
  let u := Z.to_nat ((len / (DB / 8)) * DB / DB + 2) in
  let st := set_used a u st in
  do st <- (if (alloc (get st a) <? u)%nat then remap EMem (pstm_grow a u st) else Ok st);
  do st <- read_bytes a buf st;
  Ok (pstm_clamp a st).

(* ---- pstm_to_unsigned_bin (2529-2553): t is a fresh object *)
Fixpoint to_bin_loop (fuel : nat) (t : id) (st : store) (acc : list Z) : res (list Z) :=
  match fuel with
  | O => Err EFault
  | S f =>
    if (used (get st t) =? 0)%nat then Ok acc          (* acc is already reversed: pstm_reverse *)
    else
      let byte := Z.land (rdd (get st t) 0) 255 in
      do st <- pstm_div_2d t 8 t None st;
      to_bin_loop f t st (byte :: acc)
  end.
Definition pstm_to_unsigned_bin (a : id) (st : store) : res (list Z) :=
  let t := fresh a a in
  do st <- pstm_init_copy t a st;
  to_bin_loop (S (Z.to_nat (DB / 8) * used (get st a))) t st [].

(* ---- pstm_montgomery_setup (1120-1143): rho = -1/a mod W *)
Definition pstm_montgomery_setup (a : id) (st : store) : res Z :=
  let b := rdd (get st a) 0 in
  if Z.land b 1 =? 0 then Err EArg else
  let x := dmod (Z.land (b + 2) 4 * 2 + b) in
  let step x := dmod (x * dmod (2 - b * x)) in
  let x := step x in let x := step x in let x := step x in
  let x := if 32 <? DB then step x else x in
  Ok (dmod (W - x)).

(* ---- pstm_montgomery_calc_normalization (1150-1191): a = W^used(b) mod b *)
Fixpoint norm_loop (n : nat) (a b : id) (st : store) : res store :=
  match n with
  | O => Ok st
  | S n' =>
    do st <- remap EMem (pstm_mul_2 a a st);
    do st <- (if negb (pstm_cmp_mag a b st =? c_PSTM_LT) then remap EMem (pstm_sub_s a b a st) else Ok st);
    norm_loop n' a b st
  end.
Definition pstm_montgomery_calc_normalization (a b : id) (st : store) : res store :=
  let bits := pstm_count_bits b st mod DB in
  let bits := if bits =? 0 then DB else bits in
  do r <- (if (1 <? used (get st b))%nat
           then do st <- pstm_2expt a ((Z.of_nat (used (get st b)) - 1) * DB + bits - 1) st; Ok (st, bits)
           else Ok (pstm_set a 1 st, 1));
  let '(st, bits) := r in
  norm_loop (Z.to_nat (DB - (bits - 1))) a b st.

(* ---- pstm_montgomery_reduce (pstm_montgomery_reduce.c 379-482) *)
(* INNERMUL (89-101): rdx:rax = mu * *tmpm++ ; rax += cy ; rax += _c[0] ; _c[0] = rax ; cy = rdx.
   INNERMUL8 is eight of them. *)
Definition innermul (mu : Z) (m cv cy : Z) : Z * Z := let t := mu * m + cy + cv in (dmod t, hi t).
Fixpoint inner_loop (mu : Z) (dm : list Z) (c : list Z) (k y n : nat) (cy : Z) : list Z * Z :=
  match n with
  | O => (c, cy)
  | S n' => let '(v, cy') := innermul mu (nth y dm 0) (nth k c 0) cy in
            inner_loop mu dm (upd c k v) (S k) (S y) n' cy'
  end.
(* while (cy) { PROPCARRY; ++_c; } *)
Fixpoint propcarry (fuel : nat) (c : list Z) (k : nat) (cy : Z) : res (list Z) :=
  if cy =? 0 then Ok c else
  match fuel with
  | O => Err EFault
  | S f => if (length c <=? k)%nat then Err EFault else
           let s := nth k c 0 + cy in propcarry f (upd c k (dmod s)) (S k) (hi s)
  end.
Fixpoint mont_rounds (n x : nat) (pa : nat) (dm : list Z) (mp : Z) (c : list Z) : res (list Z) :=
  match n with
  | O => Ok c
  | S n' =>
    let mu := dmod (nth x c 0 * mp) in
    (* for (; y < (pa & ~7); y += 8) INNERMUL8; for (; y < pa; y++) INNERMUL; *)
    let '(c, cy) := inner_loop mu dm c x 0 (8 * (pa / 8)) 0 in
    let '(c, cy) := inner_loop mu dm c (x + 8 * (pa / 8)) (8 * (pa / 8)) (pa - 8 * (pa / 8)) cy in
    do c <- propcarry (length c) c (x + pa) cy;
    mont_rounds n' (S x) pa dm mp c
  end.
Definition pstm_montgomery_reduce (a m : id) (mp : Z) (st : store) : res store :=
  let pa := used (get st m) in
  let A := get st a in
  (* FIXED: the unfixed code only refused pa > a->alloc, then wrote pa + 1 digits into a->dp and copied
     a->used digits into a scratch of 2*pa + 1 digits *)
  if (alloc A <? pa + 1)%nat || (2 * pa <? used A)%nat then Err ELimit else
  let oldused := used A in
  let c0 := firstn oldused (dp A) ++ repeat 0 (2 * pa + 1 - oldused) in
  do c <- mont_rounds pa 0 pa (dp (get st m)) mp c0;
  let d := zero_range (firstn (pa + 1) (skipn pa c) ++ skipn (pa + 1) (dp A)) (pa + 1) oldused in
  let st := pstm_clamp a (set st a (mkp d (pa + 1) (sign A))) in
  if negb (pstm_cmp_mag a m st =? c_PSTM_LT) then remap EMem (pstm_sub_s a m a st) else Ok st.

(* ================================================================== helpers for the drivers / examples *)
Fixpoint digits_of (n : nat) (v : Z) : list Z :=        (* n little-endian digits of v >= 0 *)
  match n with O => [] | S n' => dmod v :: digits_of n' (hi v) end.
Fixpoint val (ds : list Z) : Z := match ds with [] => 0 | d :: r => d + W * val r end.
Fixpoint ndigits (fuel : nat) (v : Z) : nat := match fuel with O => O | S f => if v <=? 0 then O else S (ndigits f (hi v)) end.
(* operand as the harness builds it: magnitude, requested alloc, optional over-long used *)
Definition mk_pint (neg : bool) (mag : Z) (alloc_req used_req : nat) : pint :=
  let n := ndigits (S MAXN) mag in
  let al := Nat.max (Nat.max (Nat.max alloc_req n) used_req) 1 in
  mkp (digits_of al mag) (Nat.max n used_req) neg.
Fixpoint val_fast (ds : list Z) : Z := match ds with [] => 0 | d :: r => d + Z.shiftl (val_fast r) DB end.   (* = val, for the driver *)
Definition pmag (p : pint) : Z := val_fast (firstn (used p) (dp p)).
Definition zflag (p : pint) : bool := forallb (fun d => d =? 0) (skipn (used p) (dp p)).
Definition list_eqb (a b : list Z) : bool := (length a =? length b)%nat && forallb (fun xy => fst xy =? snd xy) (combine a b).
Definition pint_eqb (p q : pint) : bool := list_eqb (dp p) (dp q) && (used p =? used q)%nat && Bool.eqb (sign p) (sign q).
