(* Proofs for property C13: the pstm model (BigModel.v) satisfies BigSpec.v for ALL operands and
   every aliasing of destination and operands.  Stdlib only. *)
From MV Require Export Big.BigSpec.
From Coq Require Import Lia ZArith List Bool Arith.
Local Open Scope Z_scope.
Ltac Zify.zify_post_hook ::= Z.div_mod_to_equations.

(* ================================================================= A. digits, shifts and masks *)
Lemma DB_pos : 0 < DB. Proof. reflexivity. Qed.
Lemma W_def : W = 2 ^ DB. Proof. reflexivity. Qed.
Lemma W_pos : 0 < W.
Proof. rewrite W_def. apply Z.pow_pos_nonneg; [lia | pose proof DB_pos; lia]. Qed.
Lemma W_split : W = 2 * 2 ^ (DB - 1).
Proof. rewrite W_def. replace DB with (Z.succ (DB - 1)) at 1 by lia. rewrite Z.pow_succ_r by (pose proof DB_pos; lia). reflexivity. Qed.
Lemma half_pos : 0 < 2 ^ (DB - 1).
Proof. apply Z.pow_pos_nonneg; [lia | pose proof DB_pos; lia]. Qed.
Lemma W_ge2 : 2 <= W.
Proof. rewrite W_split. pose proof half_pos. lia. Qed.
Lemma MAXN_def : MAXN = Z.to_nat c_PSTM_MAX_SIZE. Proof. reflexivity. Qed.

Lemma dmod_spec : forall x, dmod x = x mod W.
Proof. intros. unfold dmod. rewrite Z.land_ones by (pose proof DB_pos; lia). reflexivity. Qed.
Lemma hi_spec : forall x, hi x = x / W.
Proof. intros. unfold hi. rewrite Z.shiftr_div_pow2 by (pose proof DB_pos; lia). reflexivity. Qed.
Lemma wmod_spec : forall x, wmod x = x mod (W * W).
Proof. intros. unfold wmod. rewrite Z.land_ones by (pose proof DB_pos; lia). rewrite Z.pow_add_r by (pose proof DB_pos; lia). reflexivity. Qed.
Lemma shr_spec : forall x n, 0 <= n -> shr x n = x / 2 ^ n.
Proof. intros. unfold shr. apply Z.shiftr_div_pow2; assumption. Qed.
Lemma shl_spec : forall x n, 0 <= n -> shl x n = (x * 2 ^ n) mod W.
Proof. intros. unfold shl. rewrite dmod_spec, Z.shiftl_mul_pow2 by assumption. reflexivity. Qed.
Lemma lowbits_spec : forall x n, 0 <= n -> lowbits x n = x mod 2 ^ n.
Proof. intros. unfold lowbits. apply Z.land_ones; assumption. Qed.
Lemma land1_spec : forall x, Z.land x 1 = x mod 2.
Proof. intros. change 1 with (Z.ones 1). rewrite Z.land_ones by lia. reflexivity. Qed.
Lemma lor_add : forall a b, Z.land a b = 0 -> Z.lor a b = a + b.
Proof. intros. rewrite Z.add_nocarry_lxor by assumption. symmetry. apply Z.lxor_lor. assumption. Qed.

Global Opaque W DB dmod hi wmod shr shl lowbits.

Lemma digit_0 : digit 0. Proof. unfold digit. pose proof W_pos. lia. Qed.
Lemma digit_mod : forall x, digit (x mod W). Proof. intros. unfold digit. pose proof W_pos. lia. Qed.
Lemma Wpow_pos : forall n : nat, 0 < W ^ Z.of_nat n.
Proof. intros. apply Z.pow_pos_nonneg; [apply W_pos | lia]. Qed.
Lemma Wpow_S : forall n : nat, W ^ Z.of_nat (S n) = W * W ^ Z.of_nat n.
Proof. intros. rewrite Nat2Z.inj_succ, Z.pow_succ_r by lia. reflexivity. Qed.

(* ================================================================= B. lists of digits *)
Lemma nth_firstn_lt : forall (l : list Z) n k, (k < n)%nat -> nth k (firstn n l) 0 = nth k l 0.
Proof. induction l; intros; destruct n; destruct k; simpl; try lia; auto. apply IHl. lia. Qed.
Lemma nth_firstn_ge : forall (l : list Z) n k, (n <= k)%nat -> nth k (firstn n l) 0 = 0.
Proof. induction l; intros; destruct n; destruct k; simpl; try lia; auto. apply IHl. lia. Qed.
Lemma nth_skipn : forall (l : list Z) n k, nth k (skipn n l) 0 = nth (n + k) l 0.
Proof. induction l; intros; destruct n; simpl; auto. destruct k; reflexivity. Qed.
Lemma nth_repeat0 : forall n k, nth k (repeat 0 n) 0 = 0.
Proof. induction n; destruct k; simpl; auto. Qed.
Lemma nth_app : forall (a b : list Z) k, nth k (a ++ b) 0 = if (k <? length a)%nat then nth k a 0 else nth (k - length a) b 0.
Proof.
  intros. destruct (k <? length a)%nat eqn:E.
  - apply Nat.ltb_lt in E. apply app_nth1. assumption.
  - apply Nat.ltb_ge in E. apply app_nth2. assumption.
Qed.
Lemma nth_beyond : forall (l : list Z) k, (length l <= k)%nat -> nth k l 0 = 0.
Proof. intros. apply nth_overflow. assumption. Qed.
Lemma Forall_digit_nth : forall l, (forall k, (k < length l)%nat -> digit (nth k l 0)) -> Forall digit l.
Proof.
  induction l; intros H; constructor.
  - apply (H 0%nat). simpl. lia.
  - apply IHl. intros k Hk. apply (H (S k)). simpl. lia.
Qed.
Lemma nth_digit : forall l k, Forall digit l -> digit (nth k l 0).
Proof.
  induction l; intros k H; destruct k; simpl; try apply digit_0.
  - inversion H; assumption.
  - apply IHl. inversion H; assumption.
Qed.

Lemma length_upd : forall l x v, length (upd l x v) = length l.
Proof. induction l; intros; destruct x; simpl; auto. Qed.
Lemma nth_upd : forall l x v k, nth k (upd l x v) 0 = if ((k =? x)%nat && (x <? length l)%nat)%bool then v else nth k l 0.
Proof.
  induction l; intros; simpl.
  - destruct k; rewrite andb_false_r; reflexivity.
  - destruct x; destruct k; simpl; auto. rewrite IHl. reflexivity.
Qed.
Lemma length_zero_range : forall l lo hi, length (zero_range l lo hi) = length l.
Proof. induction l; intros; simpl; auto. Qed.
Lemma nth_zero_range : forall l lo hi k, nth k (zero_range l lo hi) 0 = if ((lo <=? k)%nat && (k <? hi)%nat)%bool then 0 else nth k l 0.
Proof.
  induction l; intros; simpl.
  - destruct k; destruct ((lo <=? _)%nat && _)%bool; reflexivity.
  - destruct k.
    + destruct lo; destruct hi; reflexivity.
    + rewrite IHl.
      assert (((Nat.pred lo <=? k)%nat && (k <? Nat.pred hi)%nat)%bool = ((lo <=? S k)%nat && (S k <? hi)%nat)%bool) as ->; [|reflexivity].
      destruct lo; destruct hi; unfold Nat.ltb; simpl; rewrite ?andb_false_r; reflexivity.
Qed.

(* sum of a digit function: vs g x n = g x + W g (x+1) + ... + W^(n-1) g (x+n-1) *)
Fixpoint vs (g : nat -> Z) (x n : nat) : Z := match n with O => 0 | S n' => g x + W * vs g (S x) n' end.
Lemma vs_ext : forall g h n x, (forall k, (x <= k < x + n)%nat -> g k = h k) -> vs g x n = vs h x n.
Proof.
  induction n; intros; simpl; auto. rewrite (H x) by lia. rewrite (IHn (S x)); auto. intros. apply H. lia.
Qed.
Lemma vs_shift : forall g n x, vs g (S x) n = vs (fun k => g (S k)) x n.
Proof. induction n; intros; simpl; auto. rewrite IHn. reflexivity. Qed.
Lemma vs_zero : forall g n x, (forall k, (x <= k < x + n)%nat -> g k = 0) -> vs g x n = 0.
Proof. induction n; intros; simpl; auto. rewrite H by lia. rewrite IHn; [lia|]. intros. apply H. lia. Qed.
Lemma vs_val : forall l n, vs (fun k => nth k l 0) 0 n = val (firstn n l).
Proof.
  induction l; intros.
  - rewrite firstn_nil. simpl. apply vs_zero. intros. destruct k; reflexivity.
  - destruct n; simpl; auto. rewrite vs_shift. simpl. rewrite IHl. reflexivity.
Qed.
Lemma vs_split : forall g n m x, vs g x (n + m) = vs g x n + W ^ Z.of_nat n * vs g (x + n) m.
Proof.
  induction n; intros.
  - rewrite Nat.add_0_r. change (Z.of_nat 0) with 0. rewrite Z.pow_0_r. cbn [vs Nat.add]. lia.
  - replace (S n + m)%nat with (S (n + m)) by lia. cbn [vs]. rewrite IHn, Wpow_S. replace (S x + n)%nat with (x + S n)%nat by lia. lia.
Qed.
Lemma vs_bound : forall g n x, (forall k, (x <= k < x + n)%nat -> digit (g k)) -> 0 <= vs g x n < W ^ Z.of_nat n.
Proof.
  induction n; intros.
  - simpl. lia.
  - cbn [vs]. rewrite Wpow_S. pose proof (H x ltac:(lia)) as Hd. unfold digit in Hd.
    assert (0 <= vs g (S x) n < W ^ Z.of_nat n) by (apply IHn; intros; apply H; lia). nia.
Qed.
(* stopping the sum above the last non-zero digit *)
Lemma vs_high : forall g u n, (u <= n)%nat -> (forall k, (u <= k)%nat -> g k = 0) -> vs g 0 n = vs g 0 u.
Proof.
  intros. replace n with (u + (n - u))%nat by lia. rewrite vs_split. rewrite (vs_zero g (n - u)); [lia|]. intros. apply H0. lia.
Qed.
(* a number with a non-zero top digit is at least W^(n-1) *)
Lemma vs_top : forall g n, (forall k, (k < S n)%nat -> digit (g k)) -> g n <> 0 -> W ^ Z.of_nat n <= vs g 0 (S n).
Proof.
  intros g n H H0. replace (S n) with (n + 1)%nat by lia. rewrite vs_split. cbn [vs Nat.add].
  assert (0 <= vs g 0 n < W ^ Z.of_nat n) by (apply vs_bound; intros; apply H; lia).
  pose proof (H n ltac:(lia)) as Hd. unfold digit in Hd. pose proof (Wpow_pos n). nia.
Qed.

(* ================================================================= C. the object store *)
Lemma get_nil : forall i, get [] i = pzero.
Proof. destruct i; reflexivity. Qed.
Lemma get_set_same : forall i st p, get (set st i p) i = p.
Proof. induction i; destruct st; simpl; auto. Qed.
Lemma get_set_other : forall i j st p, i <> j -> get (set st i p) j = get st j.
Proof.
  induction i; intros j st p H; destruct st; destruct j; simpl; try congruence; rewrite ?get_nil; auto.
  - destruct j; reflexivity.
  - rewrite IHi by congruence. apply get_nil.
Qed.
Lemma get_set : forall st i p j, get (set st i p) j = if (j =? i)%nat then p else get st j.
Proof.
  intros. destruct (j =? i)%nat eqn:E.
  - apply Nat.eqb_eq in E. subst. apply get_set_same.
  - apply Nat.eqb_neq in E. apply get_set_other. congruence.
Qed.
Lemma rdd_mk : forall d u s k, rdd (mkp d u s) k = nth k d 0. Proof. reflexivity. Qed.
Lemma alloc_mk : forall d u s, alloc (mkp d u s) = length d. Proof. reflexivity. Qed.

Ltac unf := unfold zero_digits, pstm_zero, wr, wrd, set_used, set_sign, set_dp.
Ltac gs := repeat (rewrite get_set in * ); cbn [dp used sign] in *.
Ltac eqb_case i j := let E := fresh "E" in destruct (i =? j)%nat eqn:E; [apply Nat.eqb_eq in E; try subst | apply Nat.eqb_neq in E].

(* ================================================================= D. pstm_clamp *)
Definition clampp (p : pint) : pint :=
  let u := clamp_used (dp p) (used p) in mkp (dp p) u (if (u =? 0)%nat then false else sign p).
Lemma pstm_clamp_eq : forall a st, pstm_clamp a st = set st a (clampp (get st a)).
Proof. reflexivity. Qed.
Lemma clamp_used_le : forall d u, (clamp_used d u <= u)%nat.
Proof. induction u; simpl; auto. destruct (nth u d 0 =? 0); lia. Qed.
Lemma clamp_used_high : forall d u k, (clamp_used d u <= k < u)%nat -> nth k d 0 = 0.
Proof.
  induction u; intros k H; simpl in *; [lia|].
  destruct (nth u d 0 =? 0) eqn:E; [|lia]. apply Z.eqb_eq in E.
  destruct (Nat.eq_dec k u); [subst; assumption|]. apply IHu. lia.
Qed.
Lemma clamp_used_top : forall d u, (0 < clamp_used d u)%nat -> nth (clamp_used d u - 1) d 0 <> 0.
Proof.
  induction u; intros H; simpl in *; [lia|].
  destruct (nth u d 0 =? 0) eqn:E; [apply IHu; assumption|]. apply Z.eqb_neq in E. simpl. rewrite Nat.sub_0_r. assumption.
Qed.

(* everything a pstm_int needs except normalisation: what the code has just before it calls pstm_clamp *)
Definition pre_wf (p : pint) : Prop :=
  (used p <= alloc p)%nat /\ (alloc p <= MAXN)%nat /\ Forall digit (dp p) /\ (forall k, (used p <= k)%nat -> nth k (dp p) 0 = 0).
Lemma wfp_pre : forall p, wfp p -> pre_wf p.
Proof. intros p [H1 H2 H3 H4 H5 H6]. repeat split; assumption. Qed.
Lemma mag_vs : forall p, mag p = vs (rdd p) 0 (used p).
Proof. intros. unfold mag, rdd. symmetry. apply vs_val. Qed.
Lemma mag_nonneg : forall p, Forall digit (dp p) -> 0 <= mag p < W ^ Z.of_nat (used p).
Proof. intros. rewrite mag_vs. apply vs_bound. intros. apply nth_digit. assumption. Qed.
Lemma mag_vs_ge : forall p n, pre_wf p -> (used p <= n)%nat -> mag p = vs (rdd p) 0 n.
Proof. intros p n (H1 & H2 & H3 & H4) Hn. rewrite mag_vs. symmetry. apply vs_high; assumption. Qed.

Lemma clampp_wf : forall p, pre_wf p ->
  wfp (clampp p) /\ mag (clampp p) = mag p /\ alloc (clampp p) = alloc p /\ dp (clampp p) = dp p /\
  sign (clampp p) = (if mag p =? 0 then false else sign p).
Proof.
  intros p (H1 & H2 & H3 & H4).
  pose proof (clamp_used_le (dp p) (used p)) as Hle.
  assert (Hhigh : forall k, (clamp_used (dp p) (used p) <= k)%nat -> nth k (dp p) 0 = 0).
  { intros k Hk. destruct (Nat.lt_ge_cases k (used p)); [apply (clamp_used_high _ (used p)); lia | apply H4; assumption]. }
  assert (Hmag : mag (clampp p) = mag p).
  { rewrite !mag_vs. unfold clampp. cbn [used]. unfold rdd. cbn [dp]. symmetry. apply vs_high; assumption. }
  assert (Hz : (clamp_used (dp p) (used p) = 0)%nat <-> mag p = 0).
  { rewrite <- Hmag. rewrite mag_vs. unfold clampp. cbn [used]. split; intros Hc.
    - rewrite Hc. reflexivity.
    - destruct (clamp_used (dp p) (used p)) as [|n] eqn:En; [reflexivity|exfalso].
      assert (W ^ Z.of_nat n <= vs (rdd (mkp (dp p) (S n) (if (S n =? 0)%nat then false else sign p))) 0 (S n)).
      { apply vs_top.
        - intros. apply nth_digit. assumption.
        - unfold rdd. cbn [dp]. pose proof (clamp_used_top (dp p) (used p)) as Ht. rewrite En in Ht. simpl in Ht. rewrite Nat.sub_0_r in Ht. apply Ht. lia. }
      pose proof (Wpow_pos n). lia. }
  split; [|split; [assumption|split; [reflexivity|split; [reflexivity|]]]].
  - unfold alloc in *. constructor; unfold clampp, alloc; cbn [dp used sign].
    + lia.
    + assumption.
    + assumption.
    + assumption.
    + apply clamp_used_top.
    + intros Hu. rewrite Hu. reflexivity.
  - unfold clampp. cbn [sign]. destruct (mag p =? 0) eqn:Em.
    + apply Z.eqb_eq in Em. apply Hz in Em. rewrite Em. reflexivity.
    + apply Z.eqb_neq in Em. destruct (clamp_used (dp p) (used p) =? 0)%nat eqn:Ec; [|reflexivity].
      apply Nat.eqb_eq in Ec. apply Hz in Ec. contradiction.
Qed.

(* a well formed zero-magnitude number is +0; ival in terms of sign and magnitude *)
Lemma ival_clamp : forall p s, pre_wf p -> ival (clampp (mkp (dp p) (used p) s)) = sgn_mag s (mag p).
Proof.
  intros p s H.
  assert (Hp : pre_wf (mkp (dp p) (used p) s)) by exact H.
  destruct (clampp_wf _ Hp) as (_ & Hm & _ & _ & Hs).
  unfold ival. rewrite Hs, Hm. unfold mag at 1 3. cbn [dp used sign]. fold (mag p).
  unfold sgn_mag. destruct (mag p =? 0) eqn:E; [apply Z.eqb_eq in E; rewrite E; destruct s; reflexivity | reflexivity].
Qed.

(* ================================================================= E. the loop combinators *)
Fixpoint pure_lo (f : nat -> Z -> Z * Z) (n x : nat) (t : Z) : list Z * Z :=
  match n with
  | O => ([], t)
  | S n' => let '(d, t') := f x t in let '(r, tf) := pure_lo f n' (S x) t' in (d :: r, tf)
  end.
Lemma pure_lo_ext : forall f g n x t, (forall k u, (x <= k < x + n)%nat -> f k u = g k u) -> pure_lo f n x t = pure_lo g n x t.
Proof.
  induction n; intros; simpl; auto. rewrite (H x t) by lia. destruct (g x t) as [d t'].
  rewrite (IHn (S x) t'); auto. intros. apply H. lia.
Qed.
Lemma pure_lo_length : forall f n x t, length (fst (pure_lo f n x t)) = n.
Proof.
  induction n; intros; simpl; auto. destruct (f x t) as [d t']. specialize (IHn (S x) t').
  destruct (pure_lo f n (S x) t'). simpl in *. lia.
Qed.

Definition agree_lo (x : nat) (st st' : store) : Prop :=
  forall i, used (get st' i) = used (get st i) /\ sign (get st' i) = sign (get st i) /\
            forall k, (x <= k)%nat -> rdd (get st' i) k = rdd (get st i) k.
Definition lo_local (body : nat -> Z -> store -> Z * Z) : Prop :=
  forall x t st st', agree_lo x st st' -> body x t st' = body x t st.

Lemma agree_lo_wr : forall c x d st, agree_lo (S x) st (wr c x d st).
Proof.
  intros c x d st i. unf. gs. eqb_case i c; cbn [used sign]; repeat split; auto.
  intros k Hk. unfold rdd. cbn [dp]. rewrite nth_upd.
  destruct (k =? x)%nat eqn:E; [apply Nat.eqb_eq in E; lia | reflexivity].
Qed.

Lemma lo_loop_spec : forall body c, lo_local body -> forall n x t st,
  (x + n <= alloc (get st c))%nat ->
  exists st', lo_loop body c n x t st = (st', snd (pure_lo (fun k u => body k u st) n x t)) /\
    (forall j, j <> c -> get st' j = get st j) /\
    used (get st' c) = used (get st c) /\ sign (get st' c) = sign (get st c) /\ alloc (get st' c) = alloc (get st c) /\
    (forall k, rdd (get st' c) k =
       if ((x <=? k)%nat && (k <? x + n)%nat)%bool then nth (k - x) (fst (pure_lo (fun k u => body k u st) n x t)) 0
       else rdd (get st c) k).
Proof.
  intros body c Hloc. induction n; intros x t st Hal.
  - exists st. simpl. repeat split; auto. intros k.
    destruct ((x <=? k)%nat && (k <? x + 0)%nat)%bool eqn:E; [|reflexivity].
    apply andb_true_iff in E. destruct E as [E1 E2]. apply Nat.leb_le in E1. apply Nat.ltb_lt in E2. lia.
  - cbn [lo_loop pure_lo]. destruct (body x t st) as [d t'] eqn:Eb.
    assert (Hal1 : (S x + n <= alloc (get (wr c x d st) c))%nat).
    { unf. gs. rewrite Nat.eqb_refl. rewrite alloc_mk, length_upd. unfold alloc in Hal. lia. }
    destruct (IHn (S x) t' (wr c x d st) Hal1) as (st' & Hl & Hf & Hu & Hs & Ha & Hd).
    assert (Hpl : pure_lo (fun k u => body k u (wr c x d st)) n (S x) t' = pure_lo (fun k u => body k u st) n (S x) t').
    { apply pure_lo_ext. intros k u Hk. apply Hloc. intros i.
      destruct (agree_lo_wr c x d st i) as (A1 & A2 & A3). repeat split; auto. intros k' Hk'. apply A3. lia. }
    rewrite Hpl in Hl, Hd. destruct (pure_lo (fun k u => body k u st) n (S x) t') as [r tf] eqn:Ep.
    exists st'. cbn [fst snd] in *. split; [exact Hl|].
    assert (Hc : get (wr c x d st) c = mkp (upd (dp (get st c)) x d) (used (get st c)) (sign (get st c))).
    { unf. gs. rewrite Nat.eqb_refl. reflexivity. }
    split; [|split; [|split; [|split]]].
    + intros j Hj. rewrite Hf by assumption. unf. gs. eqb_case j c; [contradiction|reflexivity].
    + rewrite Hu, Hc. reflexivity.
    + rewrite Hs, Hc. reflexivity.
    + rewrite Ha, Hc. rewrite alloc_mk, length_upd. reflexivity.
    + intros k. rewrite Hd, Hc. unfold rdd. cbn [dp]. rewrite nth_upd.
      assert (Hx : (x <? length (dp (get st c)))%nat = true) by (apply Nat.ltb_lt; unfold alloc in Hal; lia).
      rewrite Hx, andb_true_r.
      destruct (Nat.lt_trichotomy k x) as [Hk|[Hk|Hk]].
      * replace (S x <=? k)%nat with false by (symmetry; apply Nat.leb_gt; lia).
        replace (x <=? k)%nat with false by (symmetry; apply Nat.leb_gt; lia).
        replace (k =? x)%nat with false by (symmetry; apply Nat.eqb_neq; lia). reflexivity.
      * subst k. replace (S x <=? x)%nat with false by (symmetry; apply Nat.leb_gt; lia).
        rewrite Nat.leb_refl, Nat.eqb_refl. replace (x <? x + S n)%nat with true by (symmetry; apply Nat.ltb_lt; lia).
        rewrite Nat.sub_diag. reflexivity.
      * replace (S x <=? k)%nat with true by (symmetry; apply Nat.leb_le; lia).
        replace (x <=? k)%nat with true by (symmetry; apply Nat.leb_le; lia).
        replace (S x + n)%nat with (x + S n)%nat by lia. cbn [andb].
        destruct (k <? x + S n)%nat; [|replace (k =? x)%nat with false by (symmetry; apply Nat.eqb_neq; lia); reflexivity].
        replace (k - x)%nat with (S (k - S x)) by lia. reflexivity.
Qed.

Fixpoint pure_hi (f : nat -> Z -> Z * Z) (n : nat) (t : Z) : list Z * Z :=
  match n with
  | O => ([], t)
  | S n' => let '(d, t') := f n' t in let '(r, tf) := pure_hi f n' t' in (r ++ [d], tf)
  end.
Lemma pure_hi_ext : forall f g n t, (forall k u, (k < n)%nat -> f k u = g k u) -> pure_hi f n t = pure_hi g n t.
Proof.
  induction n; intros; simpl; auto. rewrite (H n t) by lia. destruct (g n t) as [d t'].
  rewrite (IHn t'); auto.
Qed.
Lemma pure_hi_length : forall f n t, length (fst (pure_hi f n t)) = n.
Proof.
  induction n; intros; simpl; auto. destruct (f n t) as [d t']. specialize (IHn t').
  destruct (pure_hi f n t'). simpl in *. rewrite app_length. simpl. lia.
Qed.
Definition agree_below (n : nat) (st st' : store) : Prop :=
  forall i, used (get st' i) = used (get st i) /\ sign (get st' i) = sign (get st i) /\
            forall k, (k < n)%nat -> rdd (get st' i) k = rdd (get st i) k.
Definition hi_local (body : nat -> Z -> store -> Z * Z) : Prop :=
  forall x t st st', agree_below (S x) st st' -> body x t st' = body x t st.
Lemma agree_below_wr : forall c x d st, agree_below x st (wr c x d st).
Proof.
  intros c x d st i. unf. gs. eqb_case i c; cbn [used sign]; repeat split; auto.
  intros k Hk. unfold rdd. cbn [dp]. rewrite nth_upd.
  destruct (k =? x)%nat eqn:E; [apply Nat.eqb_eq in E; lia | reflexivity].
Qed.
Lemma hi_loop_spec : forall body c, hi_local body -> forall n t st,
  (n <= alloc (get st c))%nat ->
  exists st', hi_loop body c n t st = (st', snd (pure_hi (fun k u => body k u st) n t)) /\
    (forall j, j <> c -> get st' j = get st j) /\
    used (get st' c) = used (get st c) /\ sign (get st' c) = sign (get st c) /\ alloc (get st' c) = alloc (get st c) /\
    (forall k, rdd (get st' c) k =
       if (k <? n)%nat then nth k (fst (pure_hi (fun k u => body k u st) n t)) 0 else rdd (get st c) k).
Proof.
  intros body c Hloc. induction n; intros t st Hal.
  - exists st. simpl. repeat split; auto.
  - cbn [hi_loop pure_hi]. destruct (body n t st) as [d t'] eqn:Eb.
    assert (Hal1 : (n <= alloc (get (wr c n d st) c))%nat).
    { unf. gs. rewrite Nat.eqb_refl. rewrite alloc_mk, length_upd. unfold alloc in Hal. lia. }
    destruct (IHn t' (wr c n d st) Hal1) as (st' & Hl & Hf & Hu & Hs & Ha & Hd).
    assert (Hpl : pure_hi (fun k u => body k u (wr c n d st)) n t' = pure_hi (fun k u => body k u st) n t').
    { apply pure_hi_ext. intros k u Hk. apply Hloc. intros i.
      destruct (agree_below_wr c n d st i) as (A1 & A2 & A3). repeat split; auto. intros k' Hk'. apply A3. lia. }
    rewrite Hpl in Hl, Hd.
    pose proof (pure_hi_length (fun k u => body k u st) n t') as Hlen.
    destruct (pure_hi (fun k u => body k u st) n t') as [r tf] eqn:Ep.
    exists st'. cbn [fst snd] in *. split; [exact Hl|].
    assert (Hc : get (wr c n d st) c = mkp (upd (dp (get st c)) n d) (used (get st c)) (sign (get st c))).
    { unf. gs. rewrite Nat.eqb_refl. reflexivity. }
    split; [|split; [|split; [|split]]].
    + intros j Hj. rewrite Hf by assumption. unf. gs. eqb_case j c; [contradiction|reflexivity].
    + rewrite Hu, Hc. reflexivity.
    + rewrite Hs, Hc. reflexivity.
    + rewrite Ha, Hc. rewrite alloc_mk, length_upd. reflexivity.
    + intros k. rewrite Hd, Hc. unfold rdd. cbn [dp]. rewrite nth_upd, nth_app, Hlen.
      assert (Hx : (n <? length (dp (get st c)))%nat = true) by (apply Nat.ltb_lt; unfold alloc in Hal; lia).
      rewrite Hx, andb_true_r.
      destruct (Nat.lt_trichotomy k n) as [Hk|[Hk|Hk]].
      * replace (k <? n)%nat with true by (symmetry; apply Nat.ltb_lt; lia).
        replace (k <? S n)%nat with true by (symmetry; apply Nat.ltb_lt; lia). reflexivity.
      * subst k. rewrite Nat.ltb_irrefl, Nat.eqb_refl, Nat.sub_diag.
        replace (n <? S n)%nat with true by (symmetry; apply Nat.ltb_lt; lia). reflexivity.
      * replace (k <? n)%nat with false by (symmetry; apply Nat.ltb_ge; lia).
        replace (k <? S n)%nat with false by (symmetry; apply Nat.ltb_ge; lia).
        replace (k =? n)%nat with false by (symmetry; apply Nat.eqb_neq; lia). reflexivity.
Qed.

(* ascending carry / borrow chains: every step keeps  digit + W * cv carry_out = g k + cv carry_in *)
Lemma val_vs_off : forall r x, val r = vs (fun k => nth (k - x) r 0) x (length r).
Proof.
  induction r; intros; simpl; auto. rewrite Nat.sub_diag. rewrite (IHr (S x)).
  f_equal. f_equal. apply vs_ext. intros k Hk. replace (k - x)%nat with (S (k - S x)) by lia. reflexivity.
Qed.
Lemma pure_lo_conserve : forall (f : nat -> Z -> Z * Z) (g : nat -> Z) (cv : Z -> Z) (P : Z -> Prop) n x t,
  (forall k u, (x <= k < x + n)%nat -> P u ->
     digit (fst (f k u)) /\ P (snd (f k u)) /\ fst (f k u) + W * cv (snd (f k u)) = g k + cv u) ->
  P t ->
  Forall digit (fst (pure_lo f n x t)) /\ P (snd (pure_lo f n x t)) /\
  val (fst (pure_lo f n x t)) + W ^ Z.of_nat n * cv (snd (pure_lo f n x t)) = vs g x n + cv t.
Proof.
  induction n; intros x t H Ht.
  - cbn [pure_lo fst snd val vs]. change (Z.of_nat 0) with 0. rewrite Z.pow_0_r. repeat split; auto. lia.
  - cbn [pure_lo vs]. destruct (H x t ltac:(lia) Ht) as (Hd & HP & He). destruct (f x t) as [d t']. cbn [fst snd] in *.
    destruct (IHn (S x) t') as (Hr & HPf & Hv); [intros; apply H; [lia|assumption] | assumption |].
    destruct (pure_lo f n (S x) t') as [r tf]. cbn [fst snd val] in *. rewrite Wpow_S.
    repeat split; auto.
    transitivity (d + W * (val r + W ^ Z.of_nat n * cv tf)); [ring|]. rewrite Hv. lia.
Qed.

Lemma vs_add : forall f g n x, vs (fun k => f k + g k) x n = vs f x n + vs g x n.
Proof. induction n; intros; simpl; auto. rewrite IHn. lia. Qed.
Lemma vs_scale : forall f c n x, vs (fun k => c * f k) x n = c * vs f x n.
Proof. induction n; intros; simpl; [lia|]. rewrite IHn. lia. Qed.

(* ================================================================= F. growing and finishing a destination *)
Lemma grow_spec : forall c n st, (n <= MAXN)%nat ->
  exists st', pstm_grow c n st = Ok st' /\ (forall j, j <> c -> get st' j = get st j) /\
    used (get st' c) = used (get st c) /\ sign (get st' c) = sign (get st c) /\
    alloc (get st' c) = Nat.max (alloc (get st c)) n /\ (forall k, rdd (get st' c) k = rdd (get st c) k) /\
    (Forall digit (dp (get st c)) -> Forall digit (dp (get st' c))).
Proof.
  intros c n st Hn. unfold pstm_grow. replace (MAXN <? n)%nat with false by (symmetry; apply Nat.ltb_ge; assumption).
  destruct (alloc (get st c) <? n)%nat eqn:E.
  - apply Nat.ltb_lt in E. eexists. split; [reflexivity|]. unf. gs. rewrite Nat.eqb_refl. cbn [used sign dp]. repeat split; auto.
    + intros j Hj. gs. eqb_case j c; [contradiction|reflexivity].
    + rewrite alloc_mk, app_length, repeat_length. unfold alloc in *. lia.
    + intros k. unfold rdd. cbn [dp]. rewrite nth_app. destruct (k <? length (dp (get st c)))%nat eqn:Ek; [reflexivity|].
      apply Nat.ltb_ge in Ek. rewrite nth_repeat0. symmetry. apply nth_beyond. assumption.
    + intros Hd. apply Forall_app. split; [assumption|]. apply Forall_forall. intros z Hz. apply repeat_spec in Hz. subst. apply digit_0.
  - apply Nat.ltb_ge in E. exists st. repeat split; auto. lia.
Qed.
Lemma grow_err : forall c n st e, pstm_grow c n st = Err e -> e = EMem /\ (MAXN < n)%nat.
Proof.
  intros c n st e. unfold pstm_grow. destruct (MAXN <? n)%nat eqn:E.
  - intros H. inversion H. apply Nat.ltb_lt in E. auto.
  - destruct (alloc (get st c) <? n)%nat; discriminate.
Qed.
(* "if (c->alloc < n) grow(c, n)" *)
Definition ensure (c : id) (n : nat) (st : store) : res store :=
  if (alloc (get st c) <? n)%nat then pstm_grow c n st else Ok st.
Lemma ensure_spec : forall c n st, (n <= MAXN)%nat ->
  exists st', ensure c n st = Ok st' /\ (forall j, j <> c -> get st' j = get st j) /\
    used (get st' c) = used (get st c) /\ sign (get st' c) = sign (get st c) /\
    alloc (get st' c) = Nat.max (alloc (get st c)) n /\ (forall k, rdd (get st' c) k = rdd (get st c) k) /\
    (Forall digit (dp (get st c)) -> Forall digit (dp (get st' c))).
Proof.
  intros. unfold ensure. destruct (alloc (get st c) <? n)%nat eqn:E.
  - apply grow_spec. assumption.
  - apply Nat.ltb_ge in E. exists st. repeat split; auto. lia.
Qed.
Lemma ensure_remap : forall c n st e,
  (if (alloc (get st c) <? n)%nat then remap e (pstm_grow c n st) else Ok st) = remap e (ensure c n st).
Proof. intros. unfold ensure. destruct (alloc (get st c) <? n)%nat; reflexivity. Qed.
Lemma ensure_err : forall c n st e, ensure c n st = Err e -> e = EMem /\ (MAXN < n)%nat.
Proof. intros c n st e. unfold ensure. destruct (alloc (get st c) <? n)%nat; [apply grow_err | discriminate]. Qed.

(* c->used = x; zero c->dp[x .. oldused-1]; pstm_clamp(c) *)
Lemma finish_spec : forall c st x oldused,
  (x <= alloc (get st c))%nat -> (alloc (get st c) <= MAXN)%nat -> Forall digit (dp (get st c)) ->
  (forall k, (x <= k)%nat -> (oldused <= k)%nat -> rdd (get st c) k = 0) ->
  let st' := pstm_clamp c (zero_digits c x oldused (set_used c x st)) in
  wfp (get st' c) /\ mag (get st' c) = vs (rdd (get st c)) 0 x /\
  sign (get st' c) = (if vs (rdd (get st c)) 0 x =? 0 then false else sign (get st c)) /\
  alloc (get st' c) = alloc (get st c) /\ (forall j, j <> c -> get st' j = get st j).
Proof.
  intros c st x oldused Hx Ha Hd Hz st'.
  set (C := get st c) in *.
  set (P := mkp (zero_range (dp C) x oldused) x (sign C)).
  assert (HP : get (zero_digits c x oldused (set_used c x st)) c = P).
  { unf. gs. rewrite !Nat.eqb_refl. reflexivity. }
  assert (Hpre : pre_wf P).
  { unfold pre_wf, P. cbn [dp used alloc]. unfold alloc. cbn [dp]. rewrite length_zero_range. unfold alloc in *. repeat split; try lia.
    - apply Forall_digit_nth. intros k Hk. rewrite nth_zero_range. destruct ((x <=? k)%nat && (k <? oldused)%nat)%bool; [apply digit_0 | apply nth_digit; assumption].
    - intros k Hk. rewrite nth_zero_range. destruct ((x <=? k)%nat && (k <? oldused)%nat)%bool eqn:E; [reflexivity|].
      apply andb_false_iff in E. destruct E as [E|E]; [apply Nat.leb_gt in E; lia|]. apply Nat.ltb_ge in E. apply (Hz k); assumption. }
  destruct (clampp_wf P Hpre) as (Hw & Hm & Hal & _ & Hs).
  assert (Hget : get st' c = clampp P).
  { unfold st'. rewrite pstm_clamp_eq. gs. rewrite Nat.eqb_refl. rewrite HP. reflexivity. }
  assert (HmP : mag P = vs (rdd C) 0 x).
  { rewrite mag_vs. unfold P. cbn [used]. apply vs_ext. intros k Hk. unfold rdd. cbn [dp]. rewrite nth_zero_range.
    replace (x <=? k)%nat with false by (symmetry; apply Nat.leb_gt; lia). reflexivity. }
  rewrite Hget. rewrite Hm, Hs, Hal, HmP. split; [exact Hw|]. split; [reflexivity|]. split; [reflexivity|]. split.
  - unfold P, alloc. cbn [dp]. rewrite length_zero_range. reflexivity.
  - intros j Hj. unfold st'. rewrite pstm_clamp_eq. unf. gs. eqb_case j c; [contradiction|reflexivity].
Qed.

(* ================================================================= G. s_pstm_add *)
Definition add_step (ax bx t : Z) : Z * Z := let t' := wmod (t + ax + bx) in (dmod t', hi t').
Lemma add_step_ok : forall ax bx t, digit ax -> digit bx -> 0 <= t <= 1 ->
  digit (fst (add_step ax bx t)) /\ 0 <= snd (add_step ax bx t) <= 1 /\
  fst (add_step ax bx t) + W * snd (add_step ax bx t) = (ax + bx) + t.
Proof.
  intros ax bx t Ha Hb Ht. unfold add_step. cbn [fst snd]. rewrite wmod_spec, dmod_spec, hi_spec.
  unfold digit in *. pose proof W_pos. pose proof W_ge2.
  rewrite (Z.mod_small (t + ax + bx)) by nia.
  set (s := t + ax + bx).
  assert (0 <= s < W * 2) by (unfold s; lia).
  split; [apply Z.mod_pos_bound; lia|]. split.
  - split; [apply Z.div_pos; lia | apply Z.lt_succ_r; apply Z.div_lt_upper_bound; lia].
  - pose proof (Z.div_mod s W ltac:(lia)). lia.
Qed.
Lemma add_body_local : forall a b, lo_local (add_body a b).
Proof.
  intros a b x t st st' H. unfold add_body.
  destruct (H a) as (Ua & _ & Da). destruct (H b) as (Ub & _ & Db).
  rewrite Ua, Ub, (Da x (le_n x)), (Db x (le_n x)). reflexivity.
Qed.

(* reading operand i at index x in the store the loop starts from gives the digit of the ORIGINAL operand,
   whether or not i is the destination c whose used count was already overwritten with y *)
Lemma guarded_read : forall st0 st c i y x,
  pre_wf (get st0 i) -> (forall k, rdd (get st i) k = rdd (get st0 i) k) ->
  (i <> c -> used (get st i) = used (get st0 i)) -> (i = c -> used (get st i) = y) -> (x < y)%nat ->
  (if (used (get st i) <=? x)%nat then 0 else rdd (get st i) x) = rdd (get st0 i) x.
Proof.
  intros st0 st c i y x (_ & _ & _ & Hh) Hd Hn He Hx.
  destruct (Nat.eq_dec i c) as [E|E].
  - rewrite (He E). replace (y <=? x)%nat with false by (symmetry; apply Nat.leb_gt; assumption). apply Hd.
  - rewrite (Hn E). destruct (used (get st0 i) <=? x)%nat eqn:L; [|apply Hd].
    apply Nat.leb_le in L. symmetry. apply Hh. assumption.
Qed.

Theorem s_pstm_add_spec : forall a b c st,
  pre_wf (get st a) -> pre_wf (get st b) -> pre_wf (get st c) ->
  (exists st', s_pstm_add a b c st = Ok st' /\ wfp (get st' c) /\
     mag (get st' c) = mag (get st a) + mag (get st b) /\
     sign (get st' c) = (if mag (get st a) + mag (get st b) =? 0 then false else sign (get st c)) /\
     (forall j, j <> c -> get st' j = get st j))
  \/ (s_pstm_add a b c st = Err ELimit /\ W ^ Z.of_nat MAXN <= mag (get st a) + mag (get st b)).
Proof.
  intros a b c st HA HB HC.
  pose proof HA as (HA1 & HA2 & HA3 & HA4). pose proof HB as (HB1 & HB2 & HB3 & HB4). pose proof HC as (HC1 & HC2 & HC3 & HC4).
  unfold s_pstm_add. cbv zeta.
  set (y := Nat.max (used (get st a)) (used (get st b))).
  set (oldused := used (get st c)).
  assert (Hy : (y <= MAXN)%nat) by (unfold y; lia).
  set (st1 := set_used c y st).
  assert (H1o : forall j, j <> c -> get st1 j = get st j) by (intros j Hj; unfold st1; unf; gs; eqb_case j c; [contradiction|reflexivity]).
  assert (H1c : get st1 c = mkp (dp (get st c)) y (sign (get st c))) by (unfold st1; unf; gs; rewrite Nat.eqb_refl; reflexivity).
  rewrite ensure_remap.
  destruct (ensure_spec c y st1 Hy) as (st2 & He & H2o & H2u & H2s & H2a & H2d & H2f).
  rewrite He. cbn [remap bind].
  rewrite H1c in H2u, H2s, H2a, H2d, H2f. cbn [used sign dp] in *. unfold alloc in *. cbn [dp] in H2a.
  replace (length (dp (get st2 c)) <? y)%nat with false by (symmetry; apply Nat.ltb_ge; lia).
  (* the loop *)
  destruct (lo_loop_spec (add_body a b) c (add_body_local a b) y 0 0 st2 ltac:(unfold alloc; lia))
    as (st3 & Hl & H3o & H3u & H3s & H3a & H3d).
  rewrite Hl. clear Hl. unfold alloc in *.
  (* digits seen by the loop are the original ones *)
  assert (Hsame : forall i k, rdd (get st2 i) k = rdd (get st i) k).
  { intros i k. destruct (Nat.eq_dec i c) as [E|E].
    - subst i. rewrite H2d. reflexivity.
    - rewrite H2o, H1o by assumption. reflexivity. }
  assert (Hused_o : forall i, i <> c -> used (get st2 i) = used (get st i)) by (intros i E; rewrite H2o, H1o by assumption; reflexivity).
  assert (Hpl : pure_lo (fun k u => add_body a b k u st2) y 0 0 =
                pure_lo (fun k u => add_step (rdd (get st a) k) (rdd (get st b) k) u) y 0 0).
  { apply pure_lo_ext. intros k u Hk. unfold add_body, add_step.
    rewrite (guarded_read st st2 c a y k), (guarded_read st st2 c b y k); auto; try lia; intros; subst; assumption. }
  rewrite Hpl in *. clear Hpl.
  destruct (pure_lo_conserve (fun k u => add_step (rdd (get st a) k) (rdd (get st b) k) u)
              (fun k => rdd (get st a) k + rdd (get st b) k) (fun u => u) (fun u => 0 <= u <= 1) y 0 0) as (Hrd & Ht & Hv).
  { intros k u _ Hu. apply add_step_ok; auto; apply nth_digit; assumption. }
  { lia. }
  pose proof (pure_lo_length (fun k u => add_step (rdd (get st a) k) (rdd (get st b) k) u) y 0 0) as Hlen.
  destruct (pure_lo (fun k u => add_step (rdd (get st a) k) (rdd (get st b) k) u) y 0 0) as [r t] eqn:Ep.
  cbn [fst snd] in *.
  rewrite vs_add in Hv. rewrite <- (mag_vs_ge (get st a) y HA), <- (mag_vs_ge (get st b) y HB) in Hv by (unfold y; lia).
  (* facts about the destination after the loop *)
  assert (Hr : forall k, (k < y)%nat -> rdd (get st3 c) k = nth k r 0).
  { intros k Hk. rewrite H3d. replace (0 <=? k)%nat with true by reflexivity.
    replace (k <? 0 + y)%nat with true by (symmetry; apply Nat.ltb_lt; lia). rewrite Nat.sub_0_r. reflexivity. }
  assert (Hhi : forall k, (y <= k)%nat -> rdd (get st3 c) k = rdd (get st c) k).
  { intros k Hk. rewrite H3d. replace (k <? 0 + y)%nat with false by (symmetry; apply Nat.ltb_ge; lia). rewrite andb_false_r. apply H2d. }
  assert (Hval : vs (rdd (get st3 c)) 0 y = val r).
  { rewrite (val_vs_off r 0), Hlen. apply vs_ext. intros k Hk. rewrite Nat.sub_0_r. apply Hr. lia. }
  assert (Hdig3 : Forall digit (dp (get st3 c))).
  { apply Forall_digit_nth. intros k Hk. fold (rdd (get st3 c) k). destruct (Nat.lt_ge_cases k y).
    - rewrite Hr by assumption. apply nth_digit. assumption.
    - rewrite Hhi by assumption. apply nth_digit. assumption. }
  destruct (t =? 0) eqn:Et; cbn [negb bind].
  - (* no carry out *)
    apply Z.eqb_eq in Et. subst t. left.
    destruct (finish_spec c st3 y oldused) as (Fw & Fm & Fs & Fa & Fo); try assumption; try (unfold alloc; lia).
    { intros k Hk Hk2. rewrite Hhi by assumption. apply HC4. assumption. }
    eexists. split; [reflexivity|]. rewrite Fm, Fs, Hval, H3s, H2s. replace (val r) with (mag (get st a) + mag (get st b)) by lia.
    split; [exact Fw|]. split; [reflexivity|]. split; [reflexivity|].
    intros j Hj. rewrite Fo, H3o, H2o, H1o by assumption. reflexivity.
  - apply Z.eqb_neq in Et. assert (t = 1) by lia. subst t.
    destruct (MAXN <=? y)%nat eqn:El.
    + apply Nat.leb_le in El. right. split; [reflexivity|].
      assert (W ^ Z.of_nat MAXN <= W ^ Z.of_nat y) by (apply Z.pow_le_mono_r; [apply W_pos | lia]).
      assert (0 <= val r) by (rewrite <- Hval; apply vs_bound; intros; rewrite Hr by lia; apply nth_digit; assumption). lia.
    + apply Nat.leb_gt in El. left.
      (* room for the carry digit *)
      assert (Hroom : exists st4, (if (used (get st3 c) =? alloc (get st3 c))%nat then remap EMem (pstm_grow c (alloc (get st3 c) + 1) st3) else Ok st3) = Ok st4 /\
                 (forall j, j <> c -> get st4 j = get st3 j) /\ used (get st4 c) = y /\ sign (get st4 c) = sign (get st c) /\
                 (y < alloc (get st4 c))%nat /\ (alloc (get st4 c) <= MAXN)%nat /\ (forall k, rdd (get st4 c) k = rdd (get st3 c) k) /\ Forall digit (dp (get st4 c))).
      { unfold alloc. rewrite H3u, H2u. destruct (y =? length (dp (get st3 c)))%nat eqn:Ey.
        - apply Nat.eqb_eq in Ey. destruct (grow_spec c (length (dp (get st3 c)) + 1) st3 ltac:(lia)) as (st4 & G1 & G2 & G3 & G4 & G5 & G6 & G7).
          exists st4. rewrite G1. cbn [remap]. unfold alloc in *.
          split; [reflexivity|]. split; [exact G2|]. split; [rewrite G3, H3u, H2u; reflexivity|]. split; [rewrite G4, H3s, H2s; reflexivity|].
          split; [lia|]. split; [lia|]. split; [exact G6|]. apply G7; assumption.
        - apply Nat.eqb_neq in Ey. exists st3.
          split; [reflexivity|]. split; [auto|]. split; [rewrite H3u, H2u; reflexivity|]. split; [rewrite H3s, H2s; reflexivity|].
          split; [lia|]. split; [lia|]. split; [auto|]. assumption. }
      destruct Hroom as (st4 & R1 & R2 & R3 & R4 & R5 & R6 & R7 & R8). unfold alloc in *.
      rewrite R1. cbn [bind]. rewrite R3.
      replace (length (dp (get st4 c)) <=? y)%nat with false by (symmetry; apply Nat.leb_gt; assumption).
      cbn [bind].
      set (st5 := set_used c (S y) (wr c y (dmod 1) st4)).
      assert (H5c : get st5 c = mkp (upd (dp (get st4 c)) y (dmod 1)) (S y) (sign (get st4 c))).
      { unfold st5. unf. gs. rewrite !Nat.eqb_refl. reflexivity. }
      assert (H5o : forall j, j <> c -> get st5 j = get st4 j).
      { intros j Hj. unfold st5. unf. gs. eqb_case j c; [contradiction|reflexivity]. }
      assert (Hd1 : dmod 1 = 1) by (rewrite dmod_spec; apply Z.mod_small; pose proof W_ge2; lia).
      assert (H5d : forall k, rdd (get st5 c) k = if (k =? y)%nat then 1 else rdd (get st4 c) k).
      { intros k. rewrite H5c. unfold rdd. cbn [dp]. rewrite nth_upd, Hd1.
        replace (y <? length (dp (get st4 c)))%nat with true by (symmetry; apply Nat.ltb_lt; exact R5). rewrite andb_true_r. reflexivity. }
      destruct (finish_spec c st5 (S y) oldused) as (Fw & Fm & Fs & Fa & Fo).
      { rewrite H5c, alloc_mk, length_upd. exact R5. }
      { rewrite H5c, alloc_mk, length_upd. exact R6. }
      { apply Forall_digit_nth. intros k Hk. fold (rdd (get st5 c) k). rewrite H5d. destruct (k =? y)%nat; [unfold digit; pose proof W_ge2; lia | apply nth_digit; assumption]. }
      { intros k Hk Hk2. rewrite H5d. replace (k =? y)%nat with false by (symmetry; apply Nat.eqb_neq; lia).
        rewrite R7, Hhi by lia. apply HC4. assumption. }
      eexists. split; [reflexivity|].
      assert (Hv5 : vs (rdd (get st5 c)) 0 (S y) = mag (get st a) + mag (get st b)).
      { replace (S y) with (y + 1)%nat by lia. rewrite vs_split. cbn [vs Nat.add]. rewrite H5d, Nat.eqb_refl.
        rewrite (vs_ext _ (rdd (get st3 c))); [rewrite Hval; lia|].
        intros k Hk. rewrite H5d. replace (k =? y)%nat with false by (symmetry; apply Nat.eqb_neq; lia). apply R7. }
      rewrite Fm, Fs, Hv5. split; [exact Fw|]. split; [reflexivity|]. split.
      * rewrite H5c. cbn [sign]. rewrite R4. reflexivity.
      * intros j Hj. rewrite Fo, H5o, R2, H3o, H2o, H1o by assumption. reflexivity.
Qed.

(* ================================================================= H. comparison *)
Definition cmp_spec (x y : Z) : Z := if x >? y then c_PSTM_GT else if x <? y then c_PSTM_LT else c_PSTM_EQ.
Lemma cmp_spec_gt : forall x y, y < x -> cmp_spec x y = c_PSTM_GT.
Proof. intros. unfold cmp_spec. replace (x >? y) with true; [reflexivity|]. symmetry. apply Z.gtb_lt. assumption. Qed.
Lemma cmp_spec_lt : forall x y, x < y -> cmp_spec x y = c_PSTM_LT.
Proof.
  intros. unfold cmp_spec. rewrite Z.gtb_ltb. replace (y <? x) with false by (symmetry; apply Z.ltb_ge; lia).
  replace (x <? y) with true; [reflexivity|]. symmetry. apply Z.ltb_lt. assumption.
Qed.
Lemma cmp_spec_eq : forall x, cmp_spec x x = c_PSTM_EQ.
Proof. intros. unfold cmp_spec. rewrite Z.gtb_ltb, Z.ltb_irrefl. reflexivity. Qed.
Lemma vs_S : forall g n, vs g 0 (S n) = vs g 0 n + W ^ Z.of_nat n * g n.
Proof. intros. replace (S n) with (n + 1)%nat by lia. rewrite vs_split. cbn [vs Nat.add]. lia. Qed.
Lemma cmp_digits_spec : forall da db n, Forall digit da -> Forall digit db ->
  cmp_digits da db n = cmp_spec (vs (fun k => nth k da 0) 0 n) (vs (fun k => nth k db 0) 0 n).
Proof.
  intros da db n Ha Hb. induction n.
  - reflexivity.
  - cbn [cmp_digits]. rewrite !vs_S.
    pose proof (nth_digit da n Ha) as Hx. pose proof (nth_digit db n Hb) as Hy. unfold digit in *.
    assert (0 <= vs (fun k => nth k da 0) 0 n < W ^ Z.of_nat n) by (apply vs_bound; intros; apply nth_digit; assumption).
    assert (0 <= vs (fun k => nth k db 0) 0 n < W ^ Z.of_nat n) by (apply vs_bound; intros; apply nth_digit; assumption).
    pose proof (Wpow_pos n).
    destruct (Z.lt_trichotomy (nth n da 0) (nth n db 0)) as [L|[L|L]].
    + replace (nth n da 0 >? nth n db 0) with false by (symmetry; rewrite Z.gtb_ltb; apply Z.ltb_ge; lia).
      replace (nth n da 0 <? nth n db 0) with true by (symmetry; apply Z.ltb_lt; lia).
      symmetry. apply cmp_spec_lt. nia.
    + replace (nth n da 0 >? nth n db 0) with false by (symmetry; rewrite Z.gtb_ltb; apply Z.ltb_ge; lia).
      replace (nth n da 0 <? nth n db 0) with false by (symmetry; apply Z.ltb_ge; lia).
      rewrite IHn, L.
      destruct (Z.lt_trichotomy (vs (fun k => nth k da 0) 0 n) (vs (fun k => nth k db 0) 0 n)) as [M|[M|M]].
      * rewrite !cmp_spec_lt by lia. reflexivity.
      * rewrite M, !cmp_spec_eq. reflexivity.
      * rewrite !cmp_spec_gt by lia. reflexivity.
    + replace (nth n da 0 >? nth n db 0) with true by (symmetry; apply Z.gtb_lt; lia).
      symmetry. apply cmp_spec_gt. nia.
Qed.
Lemma mag_lower : forall p, wfp p -> (0 < used p)%nat -> W ^ Z.of_nat (used p - 1) <= mag p.
Proof.
  intros p Hw Hu. rewrite mag_vs. replace (used p) with (S (used p - 1)) at 2 by lia. apply vs_top.
  - intros. apply nth_digit. apply (wf_digits _ Hw).
  - apply (wf_top _ Hw). assumption.
Qed.
Lemma neg_pos : forall p, wfp p -> sign p = true -> 0 < mag p.
Proof.
  intros p Hw Hs. destruct (used p) eqn:Eu; [rewrite (wf_zero _ Hw Eu) in Hs; discriminate|].
  pose proof (mag_lower _ Hw ltac:(lia)). pose proof (Wpow_pos (used p - 1)). lia.
Qed.
Theorem pstm_cmp_mag_spec : forall a b st, wfp (get st a) -> wfp (get st b) ->
  pstm_cmp_mag a b st = cmp_spec (mag (get st a)) (mag (get st b)).
Proof.
  intros a b st HA HB. unfold pstm_cmp_mag.
  pose proof (mag_nonneg _ (wf_digits _ HA)) as Ma. pose proof (mag_nonneg _ (wf_digits _ HB)) as Mb.
  destruct (used (get st b) <? used (get st a))%nat eqn:E1.
  - apply Nat.ltb_lt in E1. pose proof (mag_lower _ HA ltac:(lia)).
    assert (W ^ Z.of_nat (used (get st b)) <= W ^ Z.of_nat (used (get st a) - 1)) by (apply Z.pow_le_mono_r; [apply W_pos | lia]).
    symmetry. apply cmp_spec_gt. lia.
  - apply Nat.ltb_ge in E1. destruct (used (get st a) <? used (get st b))%nat eqn:E2.
    + apply Nat.ltb_lt in E2. pose proof (mag_lower _ HB ltac:(lia)).
      assert (W ^ Z.of_nat (used (get st a)) <= W ^ Z.of_nat (used (get st b) - 1)) by (apply Z.pow_le_mono_r; [apply W_pos | lia]).
      symmetry. apply cmp_spec_lt. lia.
    + apply Nat.ltb_ge in E2. assert (Eu : used (get st a) = used (get st b)) by lia.
      rewrite cmp_digits_spec by (apply wf_digits; assumption).
      rewrite !mag_vs. unfold rdd. rewrite Eu. reflexivity.
Qed.
Theorem pstm_cmp_spec : forall a b st, wfp (get st a) -> wfp (get st b) ->
  pstm_cmp a b st = cmp_spec (ival (get st a)) (ival (get st b)).
Proof.
  intros a b st HA HB. unfold pstm_cmp, ival.
  pose proof (mag_nonneg _ (wf_digits _ HA)) as Ma. pose proof (mag_nonneg _ (wf_digits _ HB)) as Mb.
  pose proof (neg_pos _ HA) as Za. pose proof (neg_pos _ HB) as Zb.
  destruct (sign (get st a)) eqn:Sa; destruct (sign (get st b)) eqn:Sb; cbn [Bool.eqb negb].
  - rewrite pstm_cmp_mag_spec by assumption. specialize (Za eq_refl). specialize (Zb eq_refl).
    destruct (Z.lt_trichotomy (mag (get st a)) (mag (get st b))) as [M|[M|M]].
    + rewrite !cmp_spec_gt by lia. reflexivity.
    + rewrite M, !cmp_spec_eq. reflexivity.
    + rewrite !cmp_spec_lt by lia. reflexivity.
  - specialize (Za eq_refl). symmetry. apply cmp_spec_lt. lia.
  - specialize (Zb eq_refl). symmetry. apply cmp_spec_gt. lia.
  - apply pstm_cmp_mag_spec; assumption.
Qed.

(* ================================================================= I. pstm_sub_s *)
Lemma finish_core : forall c st1 (C : pint) x oldused s,
  get st1 c = mkp (zero_range (dp C) x oldused) x s ->
  (x <= alloc C)%nat -> (alloc C <= MAXN)%nat -> Forall digit (dp C) ->
  (forall k, (x <= k)%nat -> (oldused <= k)%nat -> rdd C k = 0) ->
  let st' := pstm_clamp c st1 in
  wfp (get st' c) /\ mag (get st' c) = vs (rdd C) 0 x /\
  sign (get st' c) = (if vs (rdd C) 0 x =? 0 then false else s) /\
  alloc (get st' c) = alloc C /\ (forall j, j <> c -> get st' j = get st1 j).
Proof.
  intros c st1 C x oldused s HP Hx Ha Hd Hz st'.
  set (P := mkp (zero_range (dp C) x oldused) x s) in *.
  assert (Hpre : pre_wf P).
  { unfold pre_wf, P. cbn [dp used alloc]. unfold alloc. cbn [dp]. rewrite length_zero_range. unfold alloc in *. repeat split; try lia.
    - apply Forall_digit_nth. intros k Hk. rewrite nth_zero_range. destruct ((x <=? k)%nat && (k <? oldused)%nat)%bool; [apply digit_0 | apply nth_digit; assumption].
    - intros k Hk. rewrite nth_zero_range. destruct ((x <=? k)%nat && (k <? oldused)%nat)%bool eqn:E; [reflexivity|].
      apply andb_false_iff in E. destruct E as [E|E]; [apply Nat.leb_gt in E; lia|]. apply Nat.ltb_ge in E. apply (Hz k); assumption. }
  destruct (clampp_wf P Hpre) as (Hw & Hm & Hal & _ & Hs).
  assert (Hget : get st' c = clampp P).
  { unfold st'. rewrite pstm_clamp_eq. gs. rewrite Nat.eqb_refl. rewrite HP. reflexivity. }
  assert (HmP : mag P = vs (rdd C) 0 x).
  { rewrite mag_vs. unfold P. cbn [used]. apply vs_ext. intros k Hk. unfold rdd. cbn [dp]. rewrite nth_zero_range.
    replace (x <=? k)%nat with false by (symmetry; apply Nat.leb_gt; lia). reflexivity. }
  rewrite Hget. rewrite Hm, Hs, Hal, HmP. split; [exact Hw|]. split; [reflexivity|]. split; [reflexivity|]. split.
  - unfold P, alloc. cbn [dp]. rewrite length_zero_range. reflexivity.
  - intros j Hj. unfold st'. rewrite pstm_clamp_eq. gs. eqb_case j c; [contradiction|reflexivity].
Qed.
(* zero c->dp[x .. oldused-1]; pstm_clamp(c), when c->used == x already *)
Lemma finish_spec2 : forall c st x oldused,
  used (get st c) = x ->
  (x <= alloc (get st c))%nat -> (alloc (get st c) <= MAXN)%nat -> Forall digit (dp (get st c)) ->
  (forall k, (x <= k)%nat -> (oldused <= k)%nat -> rdd (get st c) k = 0) ->
  let st' := pstm_clamp c (zero_digits c x oldused st) in
  wfp (get st' c) /\ mag (get st' c) = vs (rdd (get st c)) 0 x /\
  sign (get st' c) = (if vs (rdd (get st c)) 0 x =? 0 then false else sign (get st c)) /\
  alloc (get st' c) = alloc (get st c) /\ (forall j, j <> c -> get st' j = get st j).
Proof.
  intros c st x oldused Hu Hx Ha Hd Hz st'.
  destruct (finish_core c (zero_digits c x oldused st) (get st c) x oldused (sign (get st c))) as (F1 & F2 & F3 & F4 & F5); try assumption.
  { unf. gs. rewrite Nat.eqb_refl. rewrite Hu. reflexivity. }
  split; [exact F1|]. split; [exact F2|]. split; [exact F3|]. split; [exact F4|].
  intros j Hj. unfold st'. rewrite F5 by assumption. unf. gs. eqb_case j c; [contradiction|reflexivity].
Qed.

Definition sub_step (ax bx t : Z) : Z * Z := let t' := wmod (ax - (bx + t)) in (dmod t', Z.land (hi t') 1).
Lemma sub_step_ok : forall ax bx t, digit ax -> digit bx -> 0 <= t <= 1 ->
  digit (fst (sub_step ax bx t)) /\ 0 <= snd (sub_step ax bx t) <= 1 /\
  fst (sub_step ax bx t) + W * - snd (sub_step ax bx t) = (ax - bx) + - t.
Proof.
  intros ax bx t Ha Hb Ht. unfold sub_step. cbn [fst snd]. rewrite wmod_spec, dmod_spec, hi_spec, land1_spec.
  unfold digit in *. pose proof W_pos. pose proof W_ge2. pose proof W_split as Hs. pose proof half_pos.
  set (s := ax - (bx + t)).
  destruct (Z_lt_le_dec s 0) as [Hn|Hp].
  - assert (E1 : s mod (W * W) = s + W * W).
    { symmetry. apply (Z.mod_unique _ _ (-1)); [left; unfold s; nia | ring]. }
    rewrite E1.
    assert (E2 : (s + W * W) mod W = s + W).
    { symmetry. apply (Z.mod_unique _ _ (W - 1)); [left; unfold s; lia | ring]. }
    assert (E3 : (s + W * W) / W = W - 1).
    { symmetry. apply (Z.div_unique _ _ _ (s + W)); [left; unfold s; lia | ring]. }
    rewrite E2, E3.
    assert (E4 : (W - 1) mod 2 = 1).
    { symmetry. apply (Z.mod_unique _ _ (2 ^ (DB - 1) - 1)); lia. }
    rewrite E4. unfold s. lia.
  - assert (s < W) by (unfold s; lia).
    rewrite (Z.mod_small s (W * W)) by nia. rewrite (Z.mod_small s W) by lia. rewrite (Z.div_small s W) by lia.
    change (0 mod 2) with 0. unfold s in *. lia.
Qed.
Lemma sub_body1_local : forall a b, lo_local (sub_body1 a b).
Proof.
  intros a b x t st st' H. unfold sub_body1.
  destruct (H a) as (_ & _ & Da). destruct (H b) as (_ & _ & Db).
  rewrite (Da x (le_n x)), (Db x (le_n x)). reflexivity.
Qed.
Lemma sub_body2_local : forall a, lo_local (sub_body2 a).
Proof.
  intros a x t st st' H. unfold sub_body2. destruct (H a) as (_ & _ & Da). rewrite (Da x (le_n x)). reflexivity.
Qed.
Lemma vs_sub : forall f g n x, vs (fun k => f k - g k) x n = vs f x n - vs g x n.
Proof. induction n; intros; simpl; auto. rewrite IHn. lia. Qed.
Lemma ensure_fold : forall c n st, (if (alloc (get st c) <? n)%nat then pstm_grow c n st else Ok st) = ensure c n st.
Proof. reflexivity. Qed.

Theorem pstm_sub_s_spec : forall a b c st,
  pre_wf (get st a) -> pre_wf (get st b) -> pre_wf (get st c) ->
  (used (get st b) <= used (get st a))%nat -> mag (get st b) <= mag (get st a) ->
  exists st', pstm_sub_s a b c st = Ok st' /\ wfp (get st' c) /\
     mag (get st' c) = mag (get st a) - mag (get st b) /\
     sign (get st' c) = (if mag (get st a) - mag (get st b) =? 0 then false else sign (get st c)) /\
     (forall j, j <> c -> get st' j = get st j).
Proof.
  intros a b c st HA HB HC Hub Hmag.
  pose proof HA as (HA1 & HA2 & HA3 & HA4). pose proof HB as (HB1 & HB2 & HB3 & HB4). pose proof HC as (HC1 & HC2 & HC3 & HC4).
  unfold pstm_sub_s. cbv zeta.
  replace (used (get st a) <? used (get st b))%nat with false by (symmetry; apply Nat.ltb_ge; assumption).
  rewrite ensure_fold.
  set (ua := used (get st a)) in *. set (ub := used (get st b)) in *. set (oldused := used (get st c)) in *.
  unfold alloc in *.
  assert (Hua : (ua <= MAXN)%nat) by lia.
  destruct (ensure_spec c ua st Hua) as (st1 & He & H1o & H1u & H1s & H1a & H1d & H1f). unfold alloc in *.
  rewrite He. cbn [bind].
  assert (Hu1 : forall i, used (get st1 i) = used (get st i)).
  { intros i. destruct (Nat.eq_dec i c) as [E|E]; [subst; assumption | rewrite H1o by assumption; reflexivity]. }
  assert (Hd1 : forall i k, rdd (get st1 i) k = rdd (get st i) k).
  { intros i k. destruct (Nat.eq_dec i c) as [E|E]; [subst; apply H1d | rewrite H1o by assumption; reflexivity]. }
  rewrite !Hu1. fold ua ub oldused.
  set (st2 := set_used c ua st1).
  assert (H2o : forall j, j <> c -> get st2 j = get st1 j) by (intros j Hj; unfold st2; unf; gs; eqb_case j c; [contradiction|reflexivity]).
  assert (H2c : get st2 c = mkp (dp (get st1 c)) ua (sign (get st1 c))) by (unfold st2; unf; gs; rewrite Nat.eqb_refl; reflexivity).
  assert (Hu2 : used (get st2 a) = ua).
  { destruct (Nat.eq_dec a c) as [E|E]; [subst; rewrite H2c; reflexivity | rewrite H2o, Hu1 by assumption; reflexivity]. }
  assert (Hd2 : forall i k, rdd (get st2 i) k = rdd (get st i) k).
  { intros i k. destruct (Nat.eq_dec i c) as [E|E]; [subst; rewrite H2c; unfold rdd; cbn [dp]; apply H1d | rewrite H2o by assumption; apply Hd1]. }
  rewrite Hu2.
  assert (Hal2 : length (dp (get st2 c)) = Nat.max (length (dp (get st c))) ua) by (rewrite H2c; cbn [dp]; assumption).
  replace (length (dp (get st2 c)) <? ua)%nat with false by (symmetry; apply Nat.ltb_ge; lia).
  (* first loop: digits 0 .. ub-1 *)
  destruct (lo_loop_spec (sub_body1 a b) c (sub_body1_local a b) ub 0 0 st2 ltac:(unfold alloc; lia))
    as (st3 & Hl & H3o & H3u & H3s & H3a & H3d). unfold alloc in *.
  rewrite Hl. clear Hl.
  assert (Hpl : pure_lo (fun k u => sub_body1 a b k u st2) ub 0 0 =
                pure_lo (fun k u => sub_step (rdd (get st a) k) (rdd (get st b) k) u) ub 0 0).
  { apply pure_lo_ext. intros k u Hk. unfold sub_body1, sub_step. rewrite !Hd2. reflexivity. }
  rewrite Hpl in *. clear Hpl.
  destruct (pure_lo_conserve (fun k u => sub_step (rdd (get st a) k) (rdd (get st b) k) u)
              (fun k => rdd (get st a) k - rdd (get st b) k) (fun u => - u) (fun u => 0 <= u <= 1) ub 0 0) as (Hr1d & Ht1 & Hv1).
  { intros k u _ Hu. apply sub_step_ok; auto; apply nth_digit; assumption. }
  { lia. }
  pose proof (pure_lo_length (fun k u => sub_step (rdd (get st a) k) (rdd (get st b) k) u) ub 0 0) as Hlen1.
  destruct (pure_lo (fun k u => sub_step (rdd (get st a) k) (rdd (get st b) k) u) ub 0 0) as [r1 t1] eqn:Ep1.
  cbn [fst snd] in *.
  (* second loop: digits ub .. ua-1 *)
  destruct (lo_loop_spec (sub_body2 a) c (sub_body2_local a) (ua - ub) ub t1 st3 ltac:(unfold alloc; lia))
    as (st4 & Hl & H4o & H4u & H4s & H4a & H4d). unfold alloc in *.
  rewrite Hl. clear Hl.
  assert (Hd3 : forall k, (ub <= k)%nat -> rdd (get st3 a) k = rdd (get st a) k).
  { intros k Hk. destruct (Nat.eq_dec a c) as [E|E].
    - subst a. rewrite H3d. replace (k <? 0 + ub)%nat with false by (symmetry; apply Nat.ltb_ge; lia). rewrite andb_false_r. apply Hd2.
    - rewrite H3o by assumption. apply Hd2. }
  assert (Hpl : pure_lo (fun k u => sub_body2 a k u st3) (ua - ub) ub t1 =
                pure_lo (fun k u => sub_step (rdd (get st a) k) 0 u) (ua - ub) ub t1).
  { apply pure_lo_ext. intros k u Hk. unfold sub_body2, sub_step. rewrite Hd3 by lia. reflexivity. }
  rewrite Hpl in *. clear Hpl.
  destruct (pure_lo_conserve (fun k u => sub_step (rdd (get st a) k) 0 u)
              (fun k => rdd (get st a) k - 0) (fun u => - u) (fun u => 0 <= u <= 1) (ua - ub) ub t1) as (Hr2d & Ht2 & Hv2).
  { intros k u _ Hu. apply sub_step_ok; auto; [apply nth_digit; assumption | apply digit_0]. }
  { assumption. }
  pose proof (pure_lo_length (fun k u => sub_step (rdd (get st a) k) 0 u) (ua - ub) ub t1) as Hlen2.
  destruct (pure_lo (fun k u => sub_step (rdd (get st a) k) 0 u) (ua - ub) ub t1) as [r2 t2] eqn:Ep2.
  cbn [fst snd] in *.
  (* the destination after both loops *)
  assert (Hlo : forall k, (k < ub)%nat -> rdd (get st4 c) k = nth k r1 0).
  { intros k Hk. rewrite H4d. replace (ub <=? k)%nat with false by (symmetry; apply Nat.leb_gt; lia). cbn [andb].
    rewrite H3d. replace (k <? 0 + ub)%nat with true by (symmetry; apply Nat.ltb_lt; lia). cbn [Nat.leb andb]. rewrite Nat.sub_0_r. reflexivity. }
  assert (Hmid : forall k, (ub <= k < ua)%nat -> rdd (get st4 c) k = nth (k - ub) r2 0).
  { intros k Hk. rewrite H4d. replace (ub <=? k)%nat with true by (symmetry; apply Nat.leb_le; lia).
    replace (k <? ub + (ua - ub))%nat with true by (symmetry; apply Nat.ltb_lt; lia). reflexivity. }
  assert (Hhi : forall k, (ua <= k)%nat -> rdd (get st4 c) k = rdd (get st c) k).
  { intros k Hk. rewrite H4d. replace (k <? ub + (ua - ub))%nat with false by (symmetry; apply Nat.ltb_ge; lia). rewrite andb_false_r.
    rewrite H3d. replace (k <? 0 + ub)%nat with false by (symmetry; apply Nat.ltb_ge; lia). rewrite andb_false_r. apply Hd2. }
  assert (Hdig4 : Forall digit (dp (get st4 c))).
  { apply Forall_digit_nth. intros k Hk. fold (rdd (get st4 c) k). destruct (Nat.lt_ge_cases k ub); [|destruct (Nat.lt_ge_cases k ua)].
    - rewrite Hlo by assumption. apply nth_digit. assumption.
    - rewrite Hmid by lia. apply nth_digit. assumption.
    - rewrite Hhi by assumption. apply nth_digit. assumption. }
  assert (Hu4 : used (get st4 c) = ua) by (rewrite H4u, H3u, H2c; reflexivity).
  assert (Hs4 : sign (get st4 c) = sign (get st c)) by (rewrite H4s, H3s, H2c; cbn [sign]; assumption).
  destruct (finish_spec2 c st4 ua oldused) as (Fw & Fm & Fs & Fa & Fo); try assumption; try (unfold alloc; lia).
  { intros k Hk Hk2. rewrite Hhi by assumption. apply HC4. assumption. }
  (* the value *)
  assert (Hval : vs (rdd (get st4 c)) 0 ua = mag (get st a) - mag (get st b)).
  { replace ua with (ub + (ua - ub))%nat at 1 by lia. rewrite vs_split. cbn [Nat.add].
    rewrite (vs_ext (rdd (get st4 c)) (fun k => nth (k - 0) r1 0) ub 0) by (intros k Hk; rewrite Nat.sub_0_r; apply Hlo; lia).
    rewrite (vs_ext (rdd (get st4 c)) (fun k => nth (k - ub) r2 0) (ua - ub) ub) by (intros k Hk; apply Hmid; lia).
    rewrite <- Hlen1 at 1. rewrite <- (val_vs_off r1 0). rewrite <- Hlen2 at 1. rewrite <- (val_vs_off r2 ub).
    rewrite vs_sub in Hv1, Hv2.
    rewrite (vs_zero (fun _ => 0)) in Hv2 by reflexivity.
    assert (Ma : mag (get st a) = vs (rdd (get st a)) 0 ub + W ^ Z.of_nat ub * vs (rdd (get st a)) ub (ua - ub)).
    { rewrite mag_vs. fold ua. replace ua with (ub + (ua - ub))%nat at 1 by lia. rewrite vs_split. reflexivity. }
    assert (Mb : mag (get st b) = vs (rdd (get st b)) 0 ub) by (rewrite mag_vs; reflexivity).
    assert (Hpw : W ^ Z.of_nat ub * W ^ Z.of_nat (ua - ub) = W ^ Z.of_nat ua).
    { rewrite <- Z.pow_add_r by lia. f_equal. lia. }
    assert (HV : val r1 + W ^ Z.of_nat ub * val r2 = mag (get st a) - mag (get st b) + W ^ Z.of_nat ua * t2).
    { rewrite Ma, Mb, <- Hpw. 
      transitivity ((val r1 + W ^ Z.of_nat ub * - t1) + W ^ Z.of_nat ub * (val r2 + W ^ Z.of_nat (ua - ub) * - t2)
                    + W ^ Z.of_nat ub * t1 + W ^ Z.of_nat ub * W ^ Z.of_nat (ua - ub) * t2); [ring|].
      rewrite Hv1, Hv2. ring. }
    assert (0 <= val r1 + W ^ Z.of_nat ub * val r2 < W ^ Z.of_nat ua).
    { assert (0 <= val r1 < W ^ Z.of_nat ub).
      { rewrite (val_vs_off r1 0), Hlen1. apply vs_bound. intros. apply nth_digit. assumption. }
      assert (0 <= val r2 < W ^ Z.of_nat (ua - ub)).
      { rewrite (val_vs_off r2 0), Hlen2. apply vs_bound. intros. apply nth_digit. assumption. }
      pose proof (Wpow_pos ub). nia. }
    pose proof (mag_nonneg _ HA3) as Mna. fold ua in Mna. pose proof (mag_nonneg _ HB3) as Mnb.
    assert (t2 = 0 \/ t2 = 1) as [T|T] by lia; subst t2; lia. }
  eexists. split; [reflexivity|]. rewrite Fm, Fs, Hval, Hs4.
  split; [exact Fw|]. split; [reflexivity|]. split; [reflexivity|].
  intros j Hj. rewrite Fo, H4o, H3o, H2o, H1o by assumption. reflexivity.
Qed.

(* ================================================================= J. pstm_add / pstm_sub: sign logic *)
Lemma ival_from : forall p m s, mag p = m -> sign p = (if m =? 0 then false else s) -> ival p = sgn_mag s m.
Proof.
  intros p m s Hm Hs. unfold ival, sgn_mag. rewrite Hm, Hs. destruct (m =? 0) eqn:E; [|reflexivity].
  apply Z.eqb_eq in E. subst m. rewrite E. destruct s; reflexivity.
Qed.
Lemma get_set_sign : forall c s st i,
  get (set_sign c s st) i = if (i =? c)%nat then mkp (dp (get st c)) (used (get st c)) s else get st i.
Proof. intros. unf. gs. reflexivity. Qed.
Lemma set_sign_facts : forall c s st i,
  dp (get (set_sign c s st) i) = dp (get st i) /\ used (get (set_sign c s st) i) = used (get st i) /\
  mag (get (set_sign c s st) i) = mag (get st i) /\ (pre_wf (get st i) -> pre_wf (get (set_sign c s st) i)) /\
  (i <> c -> get (set_sign c s st) i = get st i) /\ sign (get (set_sign c s st) c) = s.
Proof.
  intros. rewrite !get_set_sign. rewrite Nat.eqb_refl. eqb_case i c.
  - unfold mag, pre_wf, alloc. cbn [dp used sign]. repeat split; auto; try tauto; try congruence.
  - cbn [sign]. split; [reflexivity|]. split; [reflexivity|]. split; [reflexivity|]. split; [auto|]. split; [reflexivity|reflexivity].
Qed.
Lemma used_le_of_mag : forall p q, wfp p -> wfp q -> mag p <= mag q -> (used p <= used q)%nat.
Proof.
  intros p q Hp Hq Hm. destruct (Nat.le_gt_cases (used p) (used q)) as [L|L]; [assumption|exfalso].
  pose proof (mag_lower _ Hp ltac:(lia)). pose proof (mag_nonneg _ (wf_digits _ Hq)).
  assert (W ^ Z.of_nat (used q) <= W ^ Z.of_nat (used p - 1)) by (apply Z.pow_le_mono_r; [apply W_pos | lia]). lia.
Qed.
Lemma lt_const : (c_PSTM_GT =? c_PSTM_LT) = false /\ (c_PSTM_EQ =? c_PSTM_LT) = false /\ (c_PSTM_LT =? c_PSTM_LT) = true.
Proof. repeat split; reflexivity. Qed.
Lemma cmp_mag_lt : forall a b st, wfp (get st a) -> wfp (get st b) ->
  (pstm_cmp_mag a b st =? c_PSTM_LT) = (mag (get st a) <? mag (get st b)).
Proof.
  intros. rewrite pstm_cmp_mag_spec by assumption. destruct lt_const as (C1 & C2 & C3).
  destruct (Z.lt_trichotomy (mag (get st a)) (mag (get st b))) as [M|[M|M]].
  - rewrite cmp_spec_lt by assumption. rewrite C3. symmetry. apply Z.ltb_lt. assumption.
  - rewrite M, cmp_spec_eq, C2. symmetry. apply Z.ltb_irrefl.
  - rewrite cmp_spec_gt by assumption. rewrite C1. symmetry. apply Z.ltb_ge. lia.
Qed.

(* the common core of pstm_add and pstm_sub: c = (sa ? -|a| : |a|) + (sb ? -|b| : |b|) *)
Definition addsub (sa sb : bool) (a b c : id) (st : store) : res store :=
  if Bool.eqb sa sb then s_pstm_add a b c (set_sign c sa st)
  else if pstm_cmp_mag a b st =? c_PSTM_LT then pstm_sub_s b a c (set_sign c sb st)
  else pstm_sub_s a b c (set_sign c sa st).
Lemma addsub_spec : forall sa sb a b c st,
  wfp (get st a) -> wfp (get st b) -> wfp (get st c) ->
  (exists st', addsub sa sb a b c st = Ok st' /\ wfp (get st' c) /\
     ival (get st' c) = sgn_mag sa (mag (get st a)) + sgn_mag sb (mag (get st b)) /\
     (forall j, j <> c -> get st' j = get st j))
  \/ (addsub sa sb a b c st = Err ELimit /\
      W ^ Z.of_nat MAXN <= Z.abs (sgn_mag sa (mag (get st a)) + sgn_mag sb (mag (get st b)))).
Proof.
  intros sa sb a b c st HA HB HC. unfold addsub.
  pose proof (mag_nonneg _ (wf_digits _ HA)) as Ma. pose proof (mag_nonneg _ (wf_digits _ HB)) as Mb.
  destruct (Bool.eqb sa sb) eqn:Es.
  - apply eqb_prop in Es. subst sb.
    destruct (set_sign_facts c sa st a) as (_ & _ & Fa & Pa & _ & _).
    destruct (set_sign_facts c sa st b) as (_ & _ & Fb & Pb & _ & _).
    destruct (set_sign_facts c sa st c) as (_ & _ & _ & Pc & _ & Sc).
    destruct (s_pstm_add_spec a b c (set_sign c sa st) (Pa (wfp_pre _ HA)) (Pb (wfp_pre _ HB)) (Pc (wfp_pre _ HC)))
      as [(st' & R1 & R2 & R3 & R4 & R5) | (R1 & R2)].
    + left. exists st'. rewrite Fa, Fb in *. rewrite Sc in R4. split; [exact R1|]. split; [exact R2|]. split.
      * rewrite (ival_from _ _ _ R3 R4). unfold sgn_mag. destruct sa; lia.
      * intros j Hj. rewrite R5 by assumption. destruct (set_sign_facts c sa st j) as (_ & _ & _ & _ & Fj & _). apply Fj. assumption.
    + right. rewrite Fa, Fb in *. split; [exact R1|]. unfold sgn_mag. destruct sa; lia.
  - assert (Hsb : sb = negb sa) by (destruct sa; destruct sb; simpl in *; congruence).
    rewrite cmp_mag_lt by assumption. left.
    destruct (mag (get st a) <? mag (get st b)) eqn:El.
    + apply Z.ltb_lt in El.
      destruct (set_sign_facts c sb st a) as (_ & Ua & Fa & Pa & _ & _).
      destruct (set_sign_facts c sb st b) as (_ & Ub & Fb & Pb & _ & _).
      destruct (set_sign_facts c sb st c) as (_ & _ & _ & Pc & _ & Sc).
      destruct (pstm_sub_s_spec b a c (set_sign c sb st) (Pb (wfp_pre _ HB)) (Pa (wfp_pre _ HA)) (Pc (wfp_pre _ HC)))
        as (st' & R1 & R2 & R3 & R4 & R5).
      { rewrite Ua, Ub. apply used_le_of_mag; auto. lia. }
      { rewrite Fa, Fb. lia. }
      exists st'. rewrite Fa, Fb in *. rewrite Sc in R4. split; [exact R1|]. split; [exact R2|]. split.
      * rewrite (ival_from _ _ _ R3 R4). unfold sgn_mag. subst sb. destruct sa; simpl; lia.
      * intros j Hj. rewrite R5 by assumption. destruct (set_sign_facts c sb st j) as (_ & _ & _ & _ & Fj & _). apply Fj. assumption.
    + apply Z.ltb_ge in El.
      destruct (set_sign_facts c sa st a) as (_ & Ua & Fa & Pa & _ & _).
      destruct (set_sign_facts c sa st b) as (_ & Ub & Fb & Pb & _ & _).
      destruct (set_sign_facts c sa st c) as (_ & _ & _ & Pc & _ & Sc).
      destruct (pstm_sub_s_spec a b c (set_sign c sa st) (Pa (wfp_pre _ HA)) (Pb (wfp_pre _ HB)) (Pc (wfp_pre _ HC)))
        as (st' & R1 & R2 & R3 & R4 & R5).
      { rewrite Ua, Ub. apply used_le_of_mag; auto. }
      { rewrite Fa, Fb. lia. }
      exists st'. rewrite Fa, Fb in *. rewrite Sc in R4. split; [exact R1|]. split; [exact R2|]. split.
      * rewrite (ival_from _ _ _ R3 R4). unfold sgn_mag. subst sb. destruct sa; simpl; lia.
      * intros j Hj. rewrite R5 by assumption. destruct (set_sign_facts c sa st j) as (_ & _ & _ & _ & Fj & _). apply Fj. assumption.
Qed.

Theorem pstm_add_spec : forall a b c st,
  wfp (get st a) -> wfp (get st b) -> wfp (get st c) ->
  (exists st', pstm_add a b c st = Ok st' /\ wfp (get st' c) /\
     ival (get st' c) = ival (get st a) + ival (get st b) /\ (forall j, j <> c -> get st' j = get st j))
  \/ (pstm_add a b c st = Err ELimit /\ W ^ Z.of_nat MAXN <= Z.abs (ival (get st a) + ival (get st b))).
Proof.
  intros a b c st HA HB HC.
  exact (addsub_spec (sign (get st a)) (sign (get st b)) a b c st HA HB HC).
Qed.
Lemma pstm_sub_addsub : forall a b c st,
  pstm_sub a b c st = addsub (sign (get st a)) (negb (sign (get st b))) a b c st.
Proof.
  intros. unfold pstm_sub, addsub. destruct (sign (get st a)); destruct (sign (get st b)); cbn [Bool.eqb negb];
    try reflexivity; destruct (pstm_cmp_mag a b st =? c_PSTM_LT); reflexivity.
Qed.
Theorem pstm_sub_spec : forall a b c st,
  wfp (get st a) -> wfp (get st b) -> wfp (get st c) ->
  (exists st', pstm_sub a b c st = Ok st' /\ wfp (get st' c) /\
     ival (get st' c) = ival (get st a) - ival (get st b) /\ (forall j, j <> c -> get st' j = get st j))
  \/ (pstm_sub a b c st = Err ELimit /\ W ^ Z.of_nat MAXN <= Z.abs (ival (get st a) - ival (get st b))).
Proof.
  intros a b c st HA HB HC. rewrite pstm_sub_addsub.
  assert (E : ival (get st a) - ival (get st b) =
              sgn_mag (sign (get st a)) (mag (get st a)) + sgn_mag (negb (sign (get st b))) (mag (get st b))).
  { unfold ival, sgn_mag. destruct (sign (get st b)); simpl; lia. }
  rewrite E. exact (addsub_spec (sign (get st a)) (negb (sign (get st b))) a b c st HA HB HC).
Qed.

(* the two halves in the shape used by Properties_C13.v *)
Theorem pstm_add_exact : forall a b c st st',
  wfp (get st a) -> wfp (get st b) -> wfp (get st c) -> pstm_add a b c st = Ok st' ->
  wfp (get st' c) /\ ival (get st' c) = ival (get st a) + ival (get st b) /\ frame st st' (fun j => j = c).
Proof.
  intros a b c st st' HA HB HC H. destruct (pstm_add_spec a b c st HA HB HC) as [(s & R1 & R2 & R3 & R4) | (R1 & _)]; [|congruence].
  rewrite R1 in H. inversion H. subst s. split; [assumption|]. split; [assumption|]. intros j Hj. apply R4. assumption.
Qed.
Theorem pstm_add_error : forall a b c st e,
  wfp (get st a) -> wfp (get st b) -> wfp (get st c) -> pstm_add a b c st = Err e ->
  e = ELimit /\ W ^ Z.of_nat MAXN <= Z.abs (ival (get st a) + ival (get st b)).
Proof.
  intros a b c st e HA HB HC H. destruct (pstm_add_spec a b c st HA HB HC) as [(s & R1 & _) | (R1 & R2)]; [congruence|].
  rewrite R1 in H. inversion H. auto.
Qed.
Theorem pstm_sub_exact : forall a b c st st',
  wfp (get st a) -> wfp (get st b) -> wfp (get st c) -> pstm_sub a b c st = Ok st' ->
  wfp (get st' c) /\ ival (get st' c) = ival (get st a) - ival (get st b) /\ frame st st' (fun j => j = c).
Proof.
  intros a b c st st' HA HB HC H. destruct (pstm_sub_spec a b c st HA HB HC) as [(s & R1 & R2 & R3 & R4) | (R1 & _)]; [|congruence].
  rewrite R1 in H. inversion H. subst s. split; [assumption|]. split; [assumption|]. intros j Hj. apply R4. assumption.
Qed.
Theorem pstm_sub_error : forall a b c st e,
  wfp (get st a) -> wfp (get st b) -> wfp (get st c) -> pstm_sub a b c st = Err e ->
  e = ELimit /\ W ^ Z.of_nat MAXN <= Z.abs (ival (get st a) - ival (get st b)).
Proof.
  intros a b c st e HA HB HC H. destruct (pstm_sub_spec a b c st HA HB HC) as [(s & R1 & _) | (R1 & R2)]; [congruence|].
  rewrite R1 in H. inversion H. auto.
Qed.
Theorem s_pstm_add_exact : forall a b c st st',
  wfp (get st a) -> wfp (get st b) -> wfp (get st c) -> s_pstm_add a b c st = Ok st' ->
  wfp (get st' c) /\ mag (get st' c) = mag (get st a) + mag (get st b) /\ frame st st' (fun j => j = c).
Proof.
  intros a b c st st' HA HB HC H.
  destruct (s_pstm_add_spec a b c st (wfp_pre _ HA) (wfp_pre _ HB) (wfp_pre _ HC)) as [(s & R1 & R2 & R3 & R4 & R5) | (R1 & _)]; [|congruence].
  rewrite R1 in H. inversion H. subst s. split; [assumption|]. split; [assumption|]. intros j Hj. apply R5. assumption.
Qed.
Theorem s_pstm_add_error : forall a b c st e,
  wfp (get st a) -> wfp (get st b) -> wfp (get st c) -> s_pstm_add a b c st = Err e ->
  e = ELimit /\ W ^ Z.of_nat MAXN <= mag (get st a) + mag (get st b).
Proof.
  intros a b c st e HA HB HC H.
  destruct (s_pstm_add_spec a b c st (wfp_pre _ HA) (wfp_pre _ HB) (wfp_pre _ HC)) as [(s & R1 & _) | (R1 & R2)]; [congruence|].
  rewrite R1 in H. inversion H. auto.
Qed.
Theorem pstm_sub_s_exact : forall a b c st,
  wfp (get st a) -> wfp (get st b) -> wfp (get st c) -> mag (get st b) <= mag (get st a) ->
  exists st', pstm_sub_s a b c st = Ok st' /\ wfp (get st' c) /\
    mag (get st' c) = mag (get st a) - mag (get st b) /\ frame st st' (fun j => j = c).
Proof.
  intros a b c st HA HB HC Hm.
  destruct (pstm_sub_s_spec a b c st (wfp_pre _ HA) (wfp_pre _ HB) (wfp_pre _ HC) (used_le_of_mag _ _ HB HA Hm) Hm) as (st' & R1 & R2 & R3 & R4 & R5).
  exists st'. split; [assumption|]. split; [assumption|]. split; [assumption|]. intros j Hj. apply R5. assumption.
Qed.
Theorem pstm_clamp_exact : forall a st, pre_wf (get st a) ->
  wfp (get (pstm_clamp a st) a) /\ mag (get (pstm_clamp a st) a) = mag (get st a) /\ frame st (pstm_clamp a st) (fun j => j = a).
Proof.
  intros a st H. rewrite pstm_clamp_eq. destruct (clampp_wf _ H) as (Hw & Hm & _).
  gs. rewrite Nat.eqb_refl. split; [assumption|]. split; [assumption|]. intros j Hj. gs. eqb_case j a; [contradiction|reflexivity].
Qed.

(* ================================================================= K. pstm_mul_d, pstm_add_d, pstm_sub_d *)
Definition muld_step (ax b w : Z) : Z * Z := let w' := wmod (ax * b + w) in (dmod w', hi w').
Lemma muld_step_ok : forall ax b w, digit ax -> digit b -> 0 <= w < W ->
  digit (fst (muld_step ax b w)) /\ 0 <= snd (muld_step ax b w) < W /\
  fst (muld_step ax b w) + W * snd (muld_step ax b w) = ax * b + w.
Proof.
  intros ax b w Ha Hb Hw. unfold muld_step. cbn [fst snd]. rewrite wmod_spec, dmod_spec, hi_spec.
  unfold digit in *. pose proof W_pos.
  assert (0 <= ax * b + w < W * W) by nia.
  rewrite (Z.mod_small (ax * b + w)) by assumption.
  set (s := ax * b + w) in *.
  split; [apply Z.mod_pos_bound; lia|]. split.
  - split; [apply Z.div_pos; lia | apply Z.div_lt_upper_bound; lia].
  - pose proof (Z.div_mod s W ltac:(lia)). lia.
Qed.
Lemma muld_body_local : forall a b, lo_local (muld_body a b).
Proof.
  intros a b x t st st' H. unfold muld_body. destruct (H a) as (_ & _ & Da). rewrite (Da x (le_n x)). reflexivity.
Qed.

Theorem pstm_mul_d_spec : forall a b c st,
  pre_wf (get st a) -> pre_wf (get st c) -> digit b ->
  (exists st', pstm_mul_d a b c st = Ok st' /\ wfp (get st' c) /\
     mag (get st' c) = mag (get st a) * b /\
     sign (get st' c) = (if mag (get st a) * b =? 0 then false else sign (get st a)) /\
     (forall j, j <> c -> get st' j = get st j))
  \/ (pstm_mul_d a b c st = Err EMem /\ used (get st a) = MAXN).
Proof.
  intros a b c st HA HC Hb.
  pose proof HA as (HA1 & HA2 & HA3 & HA4). pose proof HC as (HC1 & HC2 & HC3 & HC4).
  unfold pstm_mul_d. cbv zeta. rewrite ensure_fold.
  set (ua := used (get st a)) in *. set (oldused := used (get st c)) in *. set (sa := sign (get st a)).
  unfold alloc in *.
  destruct (Nat.eq_dec ua MAXN) as [Emax|Emax].
  { right. split; [|assumption]. destruct (ensure c (ua + 1) st) as [s|e] eqn:Ee.
    - exfalso. unfold ensure, pstm_grow in Ee. replace (MAXN <? ua + 1)%nat with true in Ee by (symmetry; apply Nat.ltb_lt; lia).
      destruct (alloc (get st c) <? ua + 1)%nat eqn:El; [discriminate|]. apply Nat.ltb_ge in El. unfold alloc in El. lia.
    - destruct (ensure_err _ _ _ _ Ee) as (-> & _). reflexivity. }
  left.
  assert (Hua : (ua + 1 <= MAXN)%nat) by lia.
  destruct (ensure_spec c (ua + 1) st Hua) as (st1 & He & H1o & H1u & H1s & H1a & H1d & H1f). unfold alloc in *.
  rewrite He. cbn [bind].
  assert (Hu1 : forall i, used (get st1 i) = used (get st i)).
  { intros i. destruct (Nat.eq_dec i c) as [E|E]; [subst; assumption | rewrite H1o by assumption; reflexivity]. }
  assert (Hs1 : forall i, sign (get st1 i) = sign (get st i)).
  { intros i. destruct (Nat.eq_dec i c) as [E|E]; [subst; assumption | rewrite H1o by assumption; reflexivity]. }
  assert (Hd1 : forall i k, rdd (get st1 i) k = rdd (get st i) k).
  { intros i k. destruct (Nat.eq_dec i c) as [E|E]; [subst; apply H1d | rewrite H1o by assumption; reflexivity]. }
  rewrite !Hu1. fold ua oldused.
  set (st2 := set_used c ua st1).
  assert (H2o : forall j, j <> c -> get st2 j = get st1 j) by (intros j Hj; unfold st2; unf; gs; eqb_case j c; [contradiction|reflexivity]).
  assert (H2c : get st2 c = mkp (dp (get st1 c)) ua (sign (get st1 c))) by (unfold st2; unf; gs; rewrite Nat.eqb_refl; reflexivity).
  assert (Hs2 : sign (get st2 a) = sa).
  { destruct (Nat.eq_dec a c) as [E|E]; [subst a; rewrite H2c; cbn [sign]; apply Hs1 | rewrite H2o by assumption; apply Hs1]. }
  rewrite Hs2.
  set (st3 := set_sign c sa st2).
  assert (H3o : forall j, j <> c -> get st3 j = get st2 j) by (intros j Hj; unfold st3; unf; gs; eqb_case j c; [contradiction|reflexivity]).
  assert (H3c : get st3 c = mkp (dp (get st1 c)) ua sa) by (unfold st3; unf; gs; rewrite Nat.eqb_refl; rewrite H2c; reflexivity).
  assert (Hu3 : used (get st3 a) = ua).
  { destruct (Nat.eq_dec a c) as [E|E]; [subst a; rewrite H3c; reflexivity | rewrite H3o, H2o, Hu1 by assumption; reflexivity]. }
  assert (Hd3 : forall i k, rdd (get st3 i) k = rdd (get st i) k).
  { intros i k. destruct (Nat.eq_dec i c) as [E|E]; [subst; rewrite H3c; unfold rdd; cbn [dp]; apply H1d | rewrite H3o, H2o by assumption; apply Hd1]. }
  rewrite Hu3.
  assert (Hal3 : length (dp (get st3 c)) = Nat.max (length (dp (get st c))) (ua + 1)) by (rewrite H3c; cbn [dp]; assumption).
  replace (length (dp (get st3 c)) <? ua + 1)%nat with false by (symmetry; apply Nat.ltb_ge; lia).
  destruct (lo_loop_spec (muld_body a b) c (muld_body_local a b) ua 0 0 st3 ltac:(unfold alloc; lia))
    as (st4 & Hl & H4o & H4u & H4s & H4a & H4d). unfold alloc in *.
  rewrite Hl. clear Hl.
  assert (Hpl : pure_lo (fun k u => muld_body a b k u st3) ua 0 0 =
                pure_lo (fun k u => muld_step (rdd (get st a) k) b u) ua 0 0).
  { apply pure_lo_ext. intros k u Hk. unfold muld_body, muld_step. rewrite Hd3. reflexivity. }
  rewrite Hpl in *. clear Hpl.
  destruct (pure_lo_conserve (fun k u => muld_step (rdd (get st a) k) b u)
              (fun k => rdd (get st a) k * b) (fun u => u) (fun u => 0 <= u < W) ua 0 0) as (Hrd & Hw & Hv).
  { intros k u _ Hu. apply muld_step_ok; auto. apply nth_digit; assumption. }
  { pose proof W_pos; lia. }
  pose proof (pure_lo_length (fun k u => muld_step (rdd (get st a) k) b u) ua 0 0) as Hlen.
  destruct (pure_lo (fun k u => muld_step (rdd (get st a) k) b u) ua 0 0) as [r w] eqn:Ep.
  cbn [fst snd] in *.
  assert (Hsum : vs (fun k => rdd (get st a) k * b) 0 ua = mag (get st a) * b).
  { rewrite (vs_ext _ (fun k => b * rdd (get st a) k)) by (intros; lia). rewrite vs_scale, mag_vs. fold ua. lia. }
  rewrite Hsum in Hv.
  assert (Hr : forall k, (k < ua)%nat -> rdd (get st4 c) k = nth k r 0).
  { intros k Hk. rewrite H4d. replace (0 <=? k)%nat with true by reflexivity.
    replace (k <? 0 + ua)%nat with true by (symmetry; apply Nat.ltb_lt; lia). rewrite Nat.sub_0_r. reflexivity. }
  assert (Hhi : forall k, (ua <= k)%nat -> rdd (get st4 c) k = rdd (get st c) k).
  { intros k Hk. rewrite H4d. replace (k <? 0 + ua)%nat with false by (symmetry; apply Nat.ltb_ge; lia). rewrite andb_false_r. apply Hd3. }
  assert (Hval : vs (rdd (get st4 c)) 0 ua = val r).
  { rewrite (val_vs_off r 0), Hlen. apply vs_ext. intros k Hk. rewrite Nat.sub_0_r. apply Hr. lia. }
  assert (Hdig4 : Forall digit (dp (get st4 c))).
  { apply Forall_digit_nth. intros k Hk. fold (rdd (get st4 c) k). destruct (Nat.lt_ge_cases k ua).
    - rewrite Hr by assumption. apply nth_digit. assumption.
    - rewrite Hhi by assumption. apply nth_digit. assumption. }
  assert (Hu4a : used (get st4 a) = ua).
  { destruct (Nat.eq_dec a c) as [E|E]; [subst a; rewrite H4u, H3c; reflexivity | rewrite H4o by assumption; assumption]. }
  assert (Hu4 : used (get st4 c) = ua) by (rewrite H4u, H3c; reflexivity).
  assert (Hs4 : sign (get st4 c) = sa) by (rewrite H4s, H3c; reflexivity).
  rewrite Hu4a. replace (ua =? MAXN)%nat with false by (symmetry; apply Nat.eqb_neq; assumption). cbn [negb]. rewrite andb_true_r.
  destruct (w =? 0) eqn:Ew; cbn [negb].
  - apply Z.eqb_eq in Ew. subst w.
    destruct (finish_spec2 c st4 ua oldused) as (Fw & Fm & Fs & Fa & Fo); try assumption; try (unfold alloc; lia).
    { intros k Hk Hk2. rewrite Hhi by assumption. apply HC4. assumption. }
    eexists. split; [reflexivity|]. rewrite Fm, Fs, Hval, Hs4. replace (val r) with (mag (get st a) * b) by lia.
    split; [exact Fw|]. split; [reflexivity|]. split; [reflexivity|].
    intros j Hj. rewrite Fo, H4o, H3o, H2o, H1o by assumption. reflexivity.
  - apply Z.eqb_neq in Ew. rewrite Hu4.
    set (st5 := set_used c (S ua) (wr c ua (dmod w) st4)).
    assert (H5c : get st5 c = mkp (upd (dp (get st4 c)) ua (dmod w)) (S ua) sa).
    { unfold st5. unf. gs. rewrite !Nat.eqb_refl. rewrite Hs4. reflexivity. }
    assert (H5o : forall j, j <> c -> get st5 j = get st4 j).
    { intros j Hj. unfold st5. unf. gs. eqb_case j c; [contradiction|reflexivity]. }
    assert (Hdw : dmod w = w) by (rewrite dmod_spec; apply Z.mod_small; lia).
    assert (H5d : forall k, rdd (get st5 c) k = if (k =? ua)%nat then w else rdd (get st4 c) k).
    { intros k. rewrite H5c. unfold rdd. cbn [dp]. rewrite nth_upd, Hdw.
      replace (ua <? length (dp (get st4 c)))%nat with true by (symmetry; apply Nat.ltb_lt; lia). rewrite andb_true_r. reflexivity. }
    destruct (finish_spec2 c st5 (S ua) oldused) as (Fw & Fm & Fs & Fa & Fo).
    { rewrite H5c. reflexivity. }
    { rewrite H5c, alloc_mk, length_upd. lia. }
    { rewrite H5c, alloc_mk, length_upd. lia. }
    { apply Forall_digit_nth. intros k Hk. fold (rdd (get st5 c) k). rewrite H5d. destruct (k =? ua)%nat; [exact Hw | apply nth_digit; assumption]. }
    { intros k Hk Hk2. rewrite H5d. replace (k =? ua)%nat with false by (symmetry; apply Nat.eqb_neq; lia).
      rewrite Hhi by lia. apply HC4. assumption. }
    eexists. split; [reflexivity|].
    assert (Hv5 : vs (rdd (get st5 c)) 0 (S ua) = mag (get st a) * b).
    { rewrite vs_S. rewrite H5d, Nat.eqb_refl.
      rewrite (vs_ext _ (rdd (get st4 c))); [rewrite Hval; lia|].
      intros k Hk. rewrite H5d. replace (k =? ua)%nat with false by (symmetry; apply Nat.eqb_neq; lia). reflexivity. }
    rewrite Fm, Fs, Hv5. split; [exact Fw|]. split; [reflexivity|]. split.
    + rewrite H5c. reflexivity.
    + intros j Hj. rewrite Fo, H5o, H4o, H3o, H2o, H1o by assumption. reflexivity.
Qed.

Lemma N8_bounds : (1 <= Z.to_nat (DB / 8) <= MAXN)%nat.
Proof. split; apply Nat.leb_le; vm_compute; reflexivity. Qed.
Lemma fresh_neq : forall a c, fresh a c <> a /\ fresh a c <> c.
Proof. intros. unfold fresh. lia. Qed.
Lemma tmp_digit_spec : forall tmp b st, digit b ->
  exists st2, remap EMem (pstm_init_size tmp (Z.to_nat (DB / 8)) st) = Ok st2 /\
    let st3 := pstm_set tmp b st2 in
    wfp (get st3 tmp) /\ ival (get st3 tmp) = b /\ (forall j, j <> tmp -> get st3 j = get st j).
Proof.
  intros tmp b st Hb. pose proof N8_bounds as (N1 & N2). set (n := Z.to_nat (DB / 8)) in *.
  unfold pstm_init_size. replace (MAXN <? n)%nat with false by (symmetry; apply Nat.ltb_ge; assumption).
  eexists. split; [reflexivity|]. cbv zeta.
  unfold pstm_set. cbv zeta. unf. gs. rewrite !Nat.eqb_refl. cbn [dp used sign alloc]. unfold alloc. cbn [dp]. rewrite !repeat_length.
  unfold rdd. cbn [dp].
  destruct n as [|n']; [lia|]. cbn [repeat upd nth].
  split; [|split].
  - unfold digit in Hb. constructor; unfold alloc; cbn [dp used sign length]; rewrite ?repeat_length.
    + destruct (b =? 0); lia.
    + lia.
    + constructor; [assumption|]. apply Forall_forall. intros z Hz. apply repeat_spec in Hz. subst. apply digit_0.
    + intros k Hk. destruct k; [destruct (b =? 0) eqn:E; [apply Z.eqb_eq in E; assumption | lia] | cbn [nth]; apply nth_repeat0].
    + destruct (b =? 0) eqn:E; [lia|]. apply Z.eqb_neq in E. intros _. cbn [Nat.sub nth]. assumption.
    + reflexivity.
  - unfold ival, mag. cbn [sign dp used]. destruct (b =? 0) eqn:E; [apply Z.eqb_eq in E; subst; reflexivity|]. cbn [firstn val]. lia.
  - intros j Hj. gs. eqb_case j tmp; [contradiction|reflexivity].
Qed.

Theorem pstm_add_d_spec : forall a b c st,
  wfp (get st a) -> wfp (get st c) -> digit b ->
  (exists st', pstm_add_d a b c st = Ok st' /\ wfp (get st' c) /\ ival (get st' c) = ival (get st a) + b /\
     (forall j, j <> c -> j <> fresh a c -> get st' j = get st j))
  \/ (pstm_add_d a b c st = Err ELimit /\ W ^ Z.of_nat MAXN <= Z.abs (ival (get st a) + b)).
Proof.
  intros a b c st HA HC Hb. unfold pstm_add_d. cbv zeta.
  destruct (fresh_neq a c) as (Na & Nc). set (tmp := fresh a c) in *.
  destruct (tmp_digit_spec tmp b st Hb) as (st2 & E2 & Hw & Hi & Ho). rewrite E2. cbn [bind].
  set (st3 := pstm_set tmp b st2) in *.
  assert (HA3 : wfp (get st3 a)) by (rewrite Ho by auto; assumption).
  assert (HC3 : wfp (get st3 c)) by (rewrite Ho by auto; assumption).
  destruct (pstm_add_spec a tmp c st3 HA3 Hw HC3) as [(st' & R1 & R2 & R3 & R4) | (R1 & R2)].
  - left. exists st'. rewrite Hi, (Ho a) in R3 by auto. split; [assumption|]. split; [assumption|]. split; [assumption|].
    intros j J1 J2. rewrite R4, Ho by assumption. reflexivity.
  - right. rewrite Hi, (Ho a) in R2 by auto. split; assumption.
Qed.
Theorem pstm_sub_d_spec : forall a b c st,
  wfp (get st a) -> wfp (get st c) -> digit b ->
  (exists st', pstm_sub_d a b c st = Ok st' /\ wfp (get st' c) /\ ival (get st' c) = ival (get st a) - b /\
     (forall j, j <> c -> j <> fresh a c -> get st' j = get st j))
  \/ (pstm_sub_d a b c st = Err ELimit /\ W ^ Z.of_nat MAXN <= Z.abs (ival (get st a) - b)).
Proof.
  intros a b c st HA HC Hb. unfold pstm_sub_d. cbv zeta.
  destruct (fresh_neq a c) as (Na & Nc). set (tmp := fresh a c) in *.
  destruct (tmp_digit_spec tmp b st Hb) as (st2 & E2 & Hw & Hi & Ho). rewrite E2. cbn [bind].
  set (st3 := pstm_set tmp b st2) in *.
  assert (HA3 : wfp (get st3 a)) by (rewrite Ho by auto; assumption).
  assert (HC3 : wfp (get st3 c)) by (rewrite Ho by auto; assumption).
  destruct (pstm_sub_spec a tmp c st3 HA3 Hw HC3) as [(st' & R1 & R2 & R3 & R4) | (R1 & R2)].
  - left. exists st'. rewrite Hi, (Ho a) in R3 by auto. split; [assumption|]. split; [assumption|]. split; [assumption|].
    intros j J1 J2. rewrite R4, Ho by assumption. reflexivity.
  - right. rewrite Hi, (Ho a) in R2 by auto. split; assumption.
Qed.

(* ================================================================= L. pstm_copy, pstm_lshd, pstm_rshd *)
Lemma pre_wf_of_digits : forall d u s, (u <= length d)%nat -> (length d <= MAXN)%nat ->
  (forall k, (k < length d)%nat -> digit (nth k d 0)) -> (forall k, (u <= k)%nat -> nth k d 0 = 0) -> pre_wf (mkp d u s).
Proof. intros. unfold pre_wf, alloc. cbn [dp used]. repeat split; auto. apply Forall_digit_nth. assumption. Qed.

Theorem pstm_copy_spec : forall a b st, pre_wf (get st a) -> pre_wf (get st b) ->
  exists st', pstm_copy a b st = Ok st' /\ pre_wf (get st' b) /\
    used (get st' b) = used (get st a) /\ sign (get st' b) = sign (get st a) /\
    (forall k, rdd (get st' b) k = rdd (get st a) k) /\ mag (get st' b) = mag (get st a) /\
    (forall j, j <> b -> get st' j = get st j).
Proof.
  intros a b st HA HB. unfold pstm_copy. eqb_case a b.
  - exists st. repeat split; auto; apply HA.
  - pose proof HA as (HA1 & HA2 & HA3 & HA4). pose proof HB as (HB1 & HB2 & HB3 & HB4).
    rewrite ensure_fold. unfold alloc in *.
    set (n := used (get st a)) in *.
    destruct (ensure_spec b n st ltac:(lia)) as (st1 & He & H1o & H1u & H1s & H1a & H1d & H1f). unfold alloc in *.
    rewrite He. cbn [bind]. cbv zeta. rewrite (H1o a) by auto. fold n.
    replace (length (dp (get st1 b)) <? n)%nat with false by (symmetry; apply Nat.ltb_ge; lia).
    eexists. split; [reflexivity|]. gs. rewrite Nat.eqb_refl. cbn [used sign].
    set (d := firstn n (dp (get st a)) ++ skipn n (zero_range (dp (get st1 b)) n (used (get st1 b)))).
    assert (Hlen : length d = length (dp (get st1 b))).
    { unfold d. rewrite app_length, firstn_length, skipn_length, length_zero_range. lia. }
    assert (Hnth : forall k, nth k d 0 = rdd (get st a) k).
    { intros k. unfold d. rewrite nth_app, firstn_length. replace (Nat.min n (length (dp (get st a)))) with n by lia.
      destruct (k <? n)%nat eqn:Ek.
      - apply Nat.ltb_lt in Ek. apply nth_firstn_lt. assumption.
      - apply Nat.ltb_ge in Ek. rewrite nth_skipn, nth_zero_range. replace (n + (k - n))%nat with k by lia.
        unfold rdd. rewrite (HA4 k Ek).
        destruct ((n <=? k)%nat && (k <? used (get st1 b))%nat)%bool eqn:Ez; [reflexivity|].
        apply andb_false_iff in Ez. destruct Ez as [Ez|Ez]; [apply Nat.leb_gt in Ez; lia|]. apply Nat.ltb_ge in Ez.
        fold (rdd (get st1 b) k). rewrite H1d. apply HB4. lia. }
    assert (Hpre : pre_wf (mkp d n (sign (get st a)))).
    { apply pre_wf_of_digits; try lia.
      - intros k Hk. rewrite Hnth. apply nth_digit. assumption.
      - intros k Hk. rewrite Hnth. apply HA4. assumption. }
    split; [exact Hpre|]. split; [reflexivity|]. split; [reflexivity|]. split; [exact Hnth|]. split.
    + rewrite !mag_vs. cbn [used]. apply vs_ext. intros k Hk. unfold rdd at 1. cbn [dp]. apply Hnth.
    + intros j Hj. gs. eqb_case j b; [contradiction|]. apply H1o. assumption.
Qed.

Lemma vs_reindex : forall g z n x, vs (fun k => g (k - z)%nat) (z + x) n = vs g x n.
Proof.
  induction n; intros; simpl; auto. replace (z + x - z)%nat with x by lia. f_equal. f_equal.
  replace (S (z + x)) with (z + S x)%nat by lia. apply IHn.
Qed.
Lemma vs_shift_up : forall g z n, vs (fun k => if (k <? z)%nat then 0 else g (k - z)%nat) 0 (z + n) = W ^ Z.of_nat z * vs g 0 n.
Proof.
  intros. rewrite vs_split. rewrite vs_zero by (intros k Hk; replace (k <? z)%nat with true by (symmetry; apply Nat.ltb_lt; lia); reflexivity).
  cbn [Nat.add]. rewrite (vs_ext _ (fun k => g (k - z)%nat) n z) by (intros k Hk; replace (k <? z)%nat with false by (symmetry; apply Nat.ltb_ge; lia); reflexivity).
  replace z with (z + 0)%nat at 2 by lia. rewrite vs_reindex. lia.
Qed.

Theorem pstm_lshd_spec : forall c z st, pre_wf (get st c) -> (0 < z)%nat -> Z.of_nat (MAXN + z) < 65536 ->
  (exists st', pstm_lshd c z st = Ok st' /\ wfp (get st' c) /\
     mag (get st' c) = mag (get st c) * W ^ Z.of_nat z /\
     sign (get st' c) = (if mag (get st c) =? 0 then false else sign (get st c)) /\
     (forall j, j <> c -> get st' j = get st j))
  \/ (pstm_lshd c z st = Err EMem /\ (MAXN < used (get st c) + z)%nat).
Proof.
  intros c z st HC Hz H16. pose proof HC as (HC1 & HC2 & HC3 & HC4). unfold alloc in *.
  unfold pstm_lshd. replace (z =? 0)%nat with false by (symmetry; apply Nat.eqb_neq; lia). cbv zeta.
  set (u := used (get st c)) in *.
  replace (65536 <=? Z.of_nat (u + z)) with false by (symmetry; apply Z.leb_gt; lia).
  rewrite ensure_fold.
  destruct (Nat.le_gt_cases (u + z) MAXN) as [Hfit|Hbig].
  - left. destruct (ensure_spec c (u + z)%nat st Hfit) as (st1 & He & H1o & H1u & H1s & H1a & H1d & H1f). unfold alloc in *.
    rewrite He. cbn [bind]. rewrite H1u, H1s. fold u.
    replace (length (dp (get st1 c)) <? u + z)%nat with false by (symmetry; apply Nat.ltb_ge; lia).
    set (d := repeat 0 z ++ firstn u (dp (get st1 c)) ++ skipn (u + z) (dp (get st1 c))).
    assert (Hlen : length d = length (dp (get st1 c))).
    { unfold d. rewrite !app_length, repeat_length, firstn_length, skipn_length. lia. }
    assert (Hnth : forall k, nth k d 0 = if (k <? z)%nat then 0 else rdd (get st c) (k - z)).
    { intros k. unfold d. rewrite nth_app, repeat_length. destruct (k <? z)%nat eqn:Ek; [apply nth_repeat0|].
      apply Nat.ltb_ge in Ek. rewrite nth_app, firstn_length. replace (Nat.min u (length (dp (get st1 c)))) with u by lia.
      destruct (k - z <? u)%nat eqn:Ek2.
      - apply Nat.ltb_lt in Ek2. rewrite nth_firstn_lt by assumption. fold (rdd (get st1 c) (k - z)). apply H1d.
      - apply Nat.ltb_ge in Ek2. rewrite nth_skipn. replace (u + z + (k - z - u))%nat with k by lia.
        fold (rdd (get st1 c) k). rewrite H1d. unfold rdd. rewrite (HC4 k) by lia. symmetry. apply HC4. lia. }
    set (P := mkp d (u + z) (sign (get st c))).
    assert (Hpre : pre_wf P).
    { apply pre_wf_of_digits; try lia.
      - intros k Hk. rewrite Hnth. destruct (k <? z)%nat; [apply digit_0 | apply nth_digit; assumption].
      - intros k Hk. rewrite Hnth. replace (k <? z)%nat with false by (symmetry; apply Nat.ltb_ge; lia). apply HC4. lia. }
    destruct (clampp_wf P Hpre) as (Hw & Hm & _ & _ & Hs).
    assert (HmP : mag P = mag (get st c) * W ^ Z.of_nat z).
    { rewrite !mag_vs. unfold P. cbn [used]. fold u. replace (u + z)%nat with (z + u)%nat by lia.
      rewrite Z.mul_comm. rewrite <- (vs_shift_up (rdd (get st c)) z u).
      apply vs_ext. intros k Hk. unfold rdd at 1. cbn [dp]. apply Hnth. }
    eexists. split; [reflexivity|]. rewrite pstm_clamp_eq. gs. rewrite !Nat.eqb_refl. fold d. fold P.
    rewrite Hm, Hs, HmP. split; [exact Hw|]. split; [reflexivity|]. split.
    + unfold P. cbn [sign]. pose proof (Wpow_pos z). destruct (mag (get st c) =? 0) eqn:E0.
      * apply Z.eqb_eq in E0. rewrite E0. reflexivity.
      * apply Z.eqb_neq in E0. replace (mag (get st c) * W ^ Z.of_nat z =? 0) with false; [reflexivity|]. symmetry. apply Z.eqb_neq. nia.
    + intros j Hj. gs. eqb_case j c; [contradiction|]. apply H1o. assumption.
  - right. split; [|assumption]. destruct (ensure c (u + z) st) as [s|e] eqn:Ee.
    + exfalso. unfold ensure, pstm_grow in Ee. replace (MAXN <? u + z)%nat with true in Ee by (symmetry; apply Nat.ltb_lt; lia).
      destruct (alloc (get st c) <? u + z)%nat eqn:El; [discriminate|]. apply Nat.ltb_ge in El. unfold alloc in El. lia.
    + destruct (ensure_err _ _ _ _ Ee) as (-> & _). reflexivity.
Qed.

Lemma vs_reindex_add : forall g z n x, vs (fun k => g (k + z)%nat) x n = vs g (x + z) n.
Proof.
  induction n; intros; simpl; auto. f_equal. f_equal. rewrite IHn. reflexivity.
Qed.
Theorem pstm_rshd_spec : forall a b st, pre_wf (get st a) ->
  let st' := pstm_rshd a b st in
  wfp (get st' a) /\ mag (get st' a) = mag (get st a) / W ^ Z.of_nat b /\
  sign (get st' a) = (if mag (get st a) / W ^ Z.of_nat b =? 0 then false else sign (get st a)) /\
  (forall j, j <> a -> get st' j = get st j).
Proof.
  intros a b st HA. pose proof HA as (HA1 & HA2 & HA3 & HA4). unfold alloc in *.
  pose proof (mag_nonneg _ HA3) as Mb. set (u := used (get st a)) in *.
  cbv zeta. unfold pstm_rshd. fold u.
  destruct (u <=? b)%nat eqn:Eub.
  - apply Nat.leb_le in Eub.
    assert (W ^ Z.of_nat u <= W ^ Z.of_nat b) by (apply Z.pow_le_mono_r; [apply W_pos | lia]).
    rewrite (Z.div_small (mag (get st a))) by lia. change (0 =? 0) with true.
    unf. gs. rewrite Nat.eqb_refl. split; [|split; [|split]].
    + apply mk_wfp; unfold alloc; cbn [dp used sign]; rewrite ?repeat_length.
      * lia.
      * lia.
      * apply Forall_forall. intros z Hz. apply repeat_spec in Hz. subst. apply digit_0.
      * intros. apply nth_repeat0.
      * intros. lia.
      * reflexivity.
    + reflexivity.
    + reflexivity.
    + intros j Hj. gs. eqb_case j a; [contradiction|reflexivity].
  - apply Nat.leb_gt in Eub.
    set (d := skipn b (firstn u (dp (get st a))) ++ repeat 0 b ++ skipn u (dp (get st a))).
    assert (Hlen : length d = length (dp (get st a))).
    { unfold d. rewrite !app_length, skipn_length, firstn_length, repeat_length, skipn_length. lia. }
    assert (Hnth : forall k, nth k d 0 = if (k <? u - b)%nat then rdd (get st a) (k + b) else 0).
    { intros k. unfold d. rewrite nth_app, skipn_length, firstn_length. replace (Nat.min u (length (dp (get st a))) - b)%nat with (u - b)%nat by lia.
      destruct (k <? u - b)%nat eqn:Ek.
      - apply Nat.ltb_lt in Ek. rewrite nth_skipn, nth_firstn_lt by lia. unfold rdd. f_equal. lia.
      - apply Nat.ltb_ge in Ek. rewrite nth_app, repeat_length. destruct (k - (u - b) <? b)%nat eqn:Ek2; [apply nth_repeat0|].
        apply Nat.ltb_ge in Ek2. rewrite nth_skipn. apply HA4. lia. }
    set (P := mkp d (u - b) (sign (get st a))).
    assert (Hpre : pre_wf P).
    { apply pre_wf_of_digits; try lia.
      - intros k Hk. rewrite Hnth. destruct (k <? u - b)%nat; [apply nth_digit; assumption | apply digit_0].
      - intros k Hk. rewrite Hnth. replace (k <? u - b)%nat with false by (symmetry; apply Nat.ltb_ge; lia). reflexivity. }
    destruct (clampp_wf P Hpre) as (Hw & Hm & _ & _ & Hs).
    assert (HmP : mag P = mag (get st a) / W ^ Z.of_nat b).
    { rewrite !mag_vs. fold u. unfold P. cbn [used].
      rewrite (vs_ext _ (fun k => rdd (get st a) (k + b)) (u - b) 0).
      2:{ intros k Hk. unfold rdd at 1. cbn [dp]. rewrite Hnth. replace (k <? u - b)%nat with true by (symmetry; apply Nat.ltb_lt; lia). reflexivity. }
      rewrite vs_reindex_add. cbn [Nat.add].
      replace u with (b + (u - b))%nat at 2 by lia. rewrite vs_split. cbn [Nat.add].
      assert (0 <= vs (rdd (get st a)) 0 b < W ^ Z.of_nat b) by (apply vs_bound; intros; apply nth_digit; assumption).
      pose proof (Wpow_pos b).
      apply (Z.div_unique _ _ _ (vs (rdd (get st a)) 0 b)); [left; lia | lia]. }
    rewrite pstm_clamp_eq. gs. rewrite !Nat.eqb_refl. fold d. fold P.
    rewrite Hm, Hs, HmP. split; [exact Hw|]. split; [reflexivity|]. split; [reflexivity|].
    intros j Hj. gs. eqb_case j a; [contradiction|reflexivity].
Qed.

(* ================================================================= M. comba multiplier *)
Definition accv (acc : Z * Z * Z) : Z := let '(c0, c1, c2) := acc in c0 + W * c1 + W * W * c2.
Definition accd (acc : Z * Z * Z) : Prop := let '(c0, c1, c2) := acc in digit c0 /\ digit c1 /\ digit c2.
Lemma MAXN_lt_W : Z.of_nat MAXN < W.
Proof. vm_compute. reflexivity. Qed.

Lemma muladd_ok : forall acc i j, accd acc -> digit i -> digit j -> accv acc + i * j < W * W * W ->
  accd (muladd acc i j) /\ accv (muladd acc i j) = accv acc + i * j.
Proof.
  intros [[c0 c1] c2] i j (H0 & H1 & H2) Hi Hj Hb. unfold muladd, accv, accd in *. rewrite !dmod_spec, !hi_spec.
  unfold digit in *. pose proof W_pos as HW.
  set (p := i * j) in *.
  assert (Hp : 0 <= p < W * W) by (unfold p; nia).
  pose proof (Z.div_mod p W ltac:(lia)) as Ep. pose proof (Z.mod_pos_bound p W HW) as Bp.
  assert (Bph : 0 <= p / W < W) by (split; [apply Z.div_pos; lia | apply Z.div_lt_upper_bound; lia]).
  set (pl := p mod W) in *. set (ph := p / W) in *.
  set (s0 := c0 + pl).
  pose proof (Z.div_mod s0 W ltac:(lia)) as E0. pose proof (Z.mod_pos_bound s0 W HW) as B0.
  assert (Bq0 : 0 <= s0 / W <= 1) by (split; [apply Z.div_pos; unfold s0; lia | apply Z.lt_succ_r; apply Z.div_lt_upper_bound; unfold s0; lia]).
  set (r0 := s0 mod W) in *. set (q0 := s0 / W) in *.
  set (s1 := c1 + ph + q0).
  pose proof (Z.div_mod s1 W ltac:(lia)) as E1. pose proof (Z.mod_pos_bound s1 W HW) as B1.
  assert (Bq1 : 0 <= s1 / W <= 1) by (split; [apply Z.div_pos; unfold s1; lia | apply Z.lt_succ_r; apply Z.div_lt_upper_bound; unfold s1; lia]).
  set (r1 := s1 mod W) in *. set (q1 := s1 / W) in *.
  assert (Hsum : r0 + W * r1 + W * W * (c2 + q1) = c0 + W * c1 + W * W * c2 + p).
  { unfold s0, s1 in *. nia. }
  assert (Hc2 : c2 + q1 < W) by nia.
  rewrite (Z.mod_small (c2 + q1) W) by lia.
  split; [repeat split; lia | lia].
Qed.

Fixpoint colsum (da db : list Z) (tx ty iy : nat) : Z :=
  match iy with O => 0 | S k => nth tx da 0 * nth ty db 0 + colsum da db (S tx) (Nat.pred ty) k end.
Lemma colsum_bound : forall da db, Forall digit da -> Forall digit db -> forall iy tx ty,
  0 <= colsum da db tx ty iy <= Z.of_nat iy * ((W - 1) * (W - 1)).
Proof.
  intros da db Ha Hb. induction iy; intros; cbn [colsum]; [lia|].
  pose proof (nth_digit da tx Ha) as Hx. pose proof (nth_digit db ty Hb) as Hy. unfold digit in *.
  specialize (IHiy (S tx) (Nat.pred ty)). rewrite Nat2Z.inj_succ. nia.
Qed.
Lemma mul_col_ok : forall da db, Forall digit da -> Forall digit db -> forall iy tx ty acc,
  accd acc -> accv acc + colsum da db tx ty iy < W * W * W ->
  accd (mul_col da db tx ty iy acc) /\ accv (mul_col da db tx ty iy acc) = accv acc + colsum da db tx ty iy.
Proof.
  intros da db Ha Hb. induction iy; intros tx ty acc Hd Hbnd; cbn [mul_col colsum] in *; [split; [assumption|lia]|].
  pose proof (colsum_bound da db Ha Hb iy (S tx) (Nat.pred ty)) as Hc.
  destruct (muladd_ok acc (nth tx da 0) (nth ty db 0) Hd (nth_digit _ _ Ha) (nth_digit _ _ Hb)) as (Hd' & Hv'); [lia|].
  destruct (IHiy (S tx) (Nat.pred ty) _ Hd') as (Hd2 & Hv2); [lia|].
  split; [assumption|lia].
Qed.

Definition code_col (da db : list Z) (ua ub ix : nat) : Z :=
  let ty := Nat.min ix (ub - 1) in let tx := (ix - ty)%nat in
  let iy := if (ub =? 0)%nat then O else Nat.min (ua - tx) (ty + 1) in colsum da db tx ty iy.
Lemma mul_cols_ok : forall da db ua ub, Forall digit da -> Forall digit db -> (ua <= MAXN)%nat ->
  forall n ix acc, accd acc ->
  exists R, 0 <= R /\ Forall digit (mul_cols da db ua ub n ix acc) /\ length (mul_cols da db ua ub n ix acc) = n /\
    val (mul_cols da db ua ub n ix acc) + W ^ Z.of_nat n * R = accv (comba_forward acc) + vs (code_col da db ua ub) ix n.
Proof.
  intros da db ua ub Ha Hb Hua. pose proof MAXN_lt_W as HM. pose proof W_pos as HW.
  induction n; intros ix acc Hd.
  - cbn [mul_cols val vs length]. destruct acc as [[c0 c1] c2]. destruct Hd as (D0 & D1 & D2). unfold digit in *.
    exists (accv (comba_forward (c0, c1, c2))). cbn [comba_forward accv]. change (Z.of_nat 0) with 0. rewrite Z.pow_0_r.
    split; [nia|]. split; [constructor|]. split; [reflexivity|lia].
  - cbn [mul_cols].
    set (ty := Nat.min ix (ub - 1)). set (tx := (ix - ty)%nat).
    set (iy := if (ub =? 0)%nat then O else Nat.min (ua - tx) (ty + 1)).
    assert (Hiy : (iy <= MAXN)%nat) by (unfold iy; destruct (ub =? 0)%nat; lia).
    destruct acc as [[c0 c1] c2]. destruct Hd as (D0 & D1 & D2). unfold digit in D0, D1, D2.
    assert (Hf : accd (comba_forward (c0, c1, c2))) by (cbn [comba_forward accd]; unfold digit; repeat split; lia).
    assert (Hfv : accv (comba_forward (c0, c1, c2)) = c1 + W * c2) by (cbn [comba_forward accv]; lia).
    pose proof (colsum_bound da db Ha Hb iy tx ty) as Hc.
    destruct (mul_col_ok da db Ha Hb iy tx ty _ Hf) as (Hd2 & Hv2); [rewrite Hfv; nia|].
    set (acc2 := mul_col da db tx ty iy (comba_forward (c0, c1, c2))) in *.
    destruct (IHn (S ix) acc2 Hd2) as (R & HR & Hdg & Hln & Hvl).
    destruct acc2 as [[e0 e1] e2] eqn:Eacc. destruct Hd2 as (E0 & E1 & E2).
    exists R. split; [assumption|]. split; [constructor; assumption|]. split; [cbn [length]; lia|].
    cbn [val vs]. rewrite Wpow_S.
    assert (Hcc : code_col da db ua ub ix = colsum da db tx ty iy) by reflexivity.
    rewrite Hcc. cbn [comba_forward accv] in Hvl, Hv2. cbn [comba_forward accv].
    transitivity (e0 + W * (val (mul_cols da db ua ub n (S ix) (e0, e1, e2)) + W ^ Z.of_nat n * R)); [ring|].
    rewrite Hvl. lia.
Qed.

(* the column sums of the schoolbook product *)
Fixpoint tsum (f : nat -> Z) (n : nat) : Z := match n with O => 0 | S n' => tsum f n' + f n' end.
Fixpoint rsum (f : nat -> Z) (lo m : nat) : Z := match m with O => 0 | S m' => f lo + rsum f (S lo) m' end.
Lemma tsum_ext : forall f g n, (forall i, (i < n)%nat -> f i = g i) -> tsum f n = tsum g n.
Proof. induction n; intros; simpl; auto. rewrite IHn, H by auto. reflexivity. Qed.
Lemma tsum_zero : forall f n, (forall i, (i < n)%nat -> f i = 0) -> tsum f n = 0.
Proof. induction n; intros; simpl; auto. rewrite IHn, H by auto. reflexivity. Qed.
Lemma rsum_ext : forall f g m lo, (forall i, (lo <= i < lo + m)%nat -> f i = g i) -> rsum f lo m = rsum g lo m.
Proof. induction m; intros; simpl; auto. rewrite (H lo) by lia. rewrite (IHm (S lo)); auto. intros; apply H; lia. Qed.
Lemma rsum_top : forall f m lo, rsum f lo (S m) = rsum f lo m + f (lo + m)%nat.
Proof.
  induction m; intros.
  - simpl. rewrite Nat.add_0_r. lia.
  - change (rsum f lo (S (S m))) with (f lo + rsum f (S lo) (S m)). rewrite IHm. cbn [rsum]. replace (S lo + m)%nat with (lo + S m)%nat by lia. lia.
Qed.
Lemma tsum_window : forall f lo m n, (lo + m <= n)%nat ->
  tsum (fun i => if ((lo <=? i)%nat && (i <? lo + m)%nat)%bool then f i else 0) n = rsum f lo m.
Proof.
  intros f lo m. revert lo. induction m; intros lo n H.
  - cbn [rsum]. apply tsum_zero. intros i Hi. destruct (lo <=? i)%nat eqn:E1; [|reflexivity]. apply Nat.leb_le in E1.
    replace (i <? lo + 0)%nat with false by (symmetry; apply Nat.ltb_ge; lia). reflexivity.
  - rewrite rsum_top. induction n; [lia|]. cbn [tsum].
    destruct (Nat.eq_dec (lo + S m) (S n)) as [E|E].
    + replace (lo <=? n)%nat with true by (symmetry; apply Nat.leb_le; lia).
      replace (n <? lo + S m)%nat with true by (symmetry; apply Nat.ltb_lt; lia). cbn [andb].
      replace n with (lo + m)%nat at 2 by lia. f_equal.
      rewrite <- (IHm lo n ltac:(lia)). apply tsum_ext. intros i Hi.
      destruct (lo <=? i)%nat; [|reflexivity]. cbn [andb].
      replace (i <? lo + S m)%nat with true by (symmetry; apply Nat.ltb_lt; lia).
      replace (i <? lo + m)%nat with true by (symmetry; apply Nat.ltb_lt; lia). reflexivity.
    + rewrite IHn by lia. replace (n <? lo + S m)%nat with false by (symmetry; apply Nat.ltb_ge; lia). rewrite andb_false_r. lia.
Qed.

Definition colterm (a b : nat -> Z) (ub k i : nat) : Z :=
  if ((i <=? k)%nat && (k - i <? ub)%nat)%bool then a i * b (k - i)%nat else 0.
Definition col (a b : nat -> Z) (ua ub k : nat) : Z := tsum (colterm a b ub k) ua.
Lemma vs_tsum_swap : forall a b ub ua n,
  vs (fun k => tsum (colterm a b ub k) (S ua)) 0 n = vs (fun k => tsum (colterm a b ub k) ua) 0 n + vs (fun k => colterm a b ub k ua) 0 n.
Proof. intros. rewrite <- vs_add. apply vs_ext. intros. reflexivity. Qed.
Lemma col_product : forall a b ub ua, vs (col a b ua ub) 0 (ua + ub) = vs a 0 ua * vs b 0 ub.
Proof.
  intros a b ub. induction ua.
  - unfold col. cbn [tsum vs Nat.add]. rewrite vs_zero by reflexivity. lia.
  - unfold col in *. replace (S ua + ub)%nat with (S (ua + ub)) by lia. rewrite vs_tsum_swap.
    rewrite (vs_S (fun k => tsum (colterm a b ub k) ua)). rewrite IHua.
    rewrite (tsum_zero (colterm a b ub (ua + ub)) ua).
    2:{ intros i Hi. unfold colterm. replace (ua + ub - i <? ub)%nat with false by (symmetry; apply Nat.ltb_ge; lia). rewrite andb_false_r. reflexivity. }
    set (h := fun j => if (j <? ub)%nat then a ua * b j else 0).
    rewrite (vs_ext (fun k => colterm a b ub k ua) (fun k => if (k <? ua)%nat then 0 else h (k - ua)%nat) (S (ua + ub)) 0).
    2:{ intros k Hk. unfold colterm, h. destruct (k <? ua)%nat eqn:E1.
        - apply Nat.ltb_lt in E1. replace (ua <=? k)%nat with false by (symmetry; apply Nat.leb_gt; lia). reflexivity.
        - apply Nat.ltb_ge in E1. replace (ua <=? k)%nat with true by (symmetry; apply Nat.leb_le; lia). reflexivity. }
    replace (S (ua + ub)) with (ua + S ub)%nat by lia. rewrite vs_shift_up. rewrite (vs_S h ub).
    unfold h at 2. rewrite Nat.ltb_irrefl.
    rewrite (vs_ext h (fun j => a ua * b j) ub 0) by (intros j Hj; unfold h; replace (j <? ub)%nat with true by (symmetry; apply Nat.ltb_lt; lia); reflexivity).
    rewrite vs_scale, (vs_S a ua). ring.
Qed.
Lemma colsum_rsum : forall da db iy tx ty, (iy <= ty + 1)%nat ->
  colsum da db tx ty iy = rsum (fun i => nth i da 0 * nth (tx + ty - i) db 0) tx iy.
Proof.
  intros da db. induction iy; intros tx ty H; cbn [colsum rsum]; auto.
  replace (tx + ty - tx)%nat with ty by lia. f_equal.
  destruct iy; [reflexivity|]. rewrite IHiy by lia. apply rsum_ext. intros i Hi. f_equal. f_equal. lia.
Qed.
Lemma code_col_col : forall da db ua ub k,
  code_col da db ua ub k = col (fun i => nth i da 0) (fun j => nth j db 0) ua ub k.
Proof.
  intros. unfold code_col, col. cbv zeta.
  destruct (ub =? 0)%nat eqn:Eu.
  - apply Nat.eqb_eq in Eu. subst ub. cbn [colsum]. symmetry. apply tsum_zero. intros i Hi. unfold colterm.
    replace (k - i <? 0)%nat with false by reflexivity. rewrite andb_false_r. reflexivity.
  - apply Nat.eqb_neq in Eu.
    set (ty := Nat.min k (ub - 1)). set (tx := (k - ty)%nat). set (iy := Nat.min (ua - tx) (ty + 1)).
    rewrite colsum_rsum by (unfold iy; lia).
    transitivity (tsum (fun i => if ((tx <=? i)%nat && (i <? tx + iy)%nat)%bool then nth i da 0 * nth (tx + ty - i) db 0 else 0) ua).
    { destruct (Nat.le_gt_cases (tx + iy) ua) as [Hfit|Hbig].
      - symmetry. apply tsum_window. assumption.
      - assert (Hz0 : iy = 0%nat). { unfold iy in Hbig |- *. lia. } rewrite Hz0. cbn [rsum]. symmetry. apply tsum_zero. intros i Hi.
        destruct (tx <=? i)%nat eqn:E1; [|reflexivity]. apply Nat.leb_le in E1.
        replace (i <? tx + 0)%nat with false by (symmetry; apply Nat.ltb_ge; lia). reflexivity. }
    apply tsum_ext. intros i Hi. unfold colterm.
    assert (Hb : ((tx <=? i)%nat && (i <? tx + iy)%nat)%bool = ((i <=? k)%nat && (k - i <? ub)%nat)%bool).
    { destruct (tx <=? i)%nat eqn:E1; destruct (i <? tx + iy)%nat eqn:E2; destruct (i <=? k)%nat eqn:E3; destruct (k - i <? ub)%nat eqn:E4; cbn [andb]; try reflexivity; exfalso;
      repeat match goal with
             | H : (_ <=? _)%nat = true |- _ => apply Nat.leb_le in H
             | H : (_ <=? _)%nat = false |- _ => apply Nat.leb_gt in H
             | H : (_ <? _)%nat = true |- _ => apply Nat.ltb_lt in H
             | H : (_ <? _)%nat = false |- _ => apply Nat.ltb_ge in H
             end; unfold iy, tx, ty in *; lia. }
    rewrite Hb. destruct ((i <=? k)%nat && (k - i <? ub)%nat)%bool eqn:E; [|reflexivity].
    apply andb_true_iff in E. destruct E as [E3 E4]. apply Nat.leb_le in E3. f_equal. f_equal. unfold tx, ty. lia.
Qed.

Theorem pstm_mul_comba_spec : forall a b c st,
  pre_wf (get st a) -> pre_wf (get st b) -> pre_wf (get st c) ->
  (exists st', pstm_mul_comba a b c st = Ok st' /\ wfp (get st' c) /\
     mag (get st' c) = mag (get st a) * mag (get st b) /\
     sign (get st' c) = (if mag (get st a) * mag (get st b) =? 0 then false else xorb (sign (get st a)) (sign (get st b))) /\
     (forall j, j <> c -> get st' j = get st j))
  \/ (pstm_mul_comba a b c st = Err EMem /\ (MAXN < used (get st a) + used (get st b))%nat).
Proof.
  intros a b c st HA HB HC.
  pose proof HA as (HA1 & HA2 & HA3 & HA4). pose proof HB as (HB1 & HB2 & HB3 & HB4). pose proof HC as (HC1 & HC2 & HC3 & HC4).
  unfold pstm_mul_comba. cbv zeta. rewrite ensure_remap. unfold alloc in *.
  set (ua := used (get st a)) in *. set (ub := used (get st b)) in *. set (pa := (ua + ub)%nat).
  destruct (Nat.le_gt_cases pa MAXN) as [Hfit|Hbig].
  2:{ right. split; [|assumption]. destruct (ensure c pa st) as [s|e] eqn:Ee; [|reflexivity].
      exfalso. unfold ensure, pstm_grow in Ee. replace (MAXN <? pa)%nat with true in Ee by (symmetry; apply Nat.ltb_lt; lia).
      destruct (alloc (get st c) <? pa)%nat eqn:El; [discriminate|]. apply Nat.ltb_ge in El. unfold alloc in El. lia. }
  left.
  destruct (ensure_spec c pa st Hfit) as (st1 & He & H1o & H1u & H1s & H1a & H1d & H1f). unfold alloc in *.
  rewrite He. cbn [remap bind].
  assert (Hu1 : forall i, used (get st1 i) = used (get st i)).
  { intros i. destruct (Nat.eq_dec i c) as [E|E]; [subst; assumption | rewrite H1o by assumption; reflexivity]. }
  assert (Hs1 : forall i, sign (get st1 i) = sign (get st i)).
  { intros i. destruct (Nat.eq_dec i c) as [E|E]; [subst; assumption | rewrite H1o by assumption; reflexivity]. }
  assert (Hd1 : forall i k, rdd (get st1 i) k = rdd (get st i) k).
  { intros i k. destruct (Nat.eq_dec i c) as [E|E]; [subst; apply H1d | rewrite H1o by assumption; reflexivity]. }
  assert (Hf1 : forall i, Forall digit (dp (get st i)) -> Forall digit (dp (get st1 i))).
  { intros i Hi. destruct (Nat.eq_dec i c) as [E|E]; [subst; apply H1f; assumption | rewrite H1o by assumption; assumption]. }
  rewrite !Hu1, !Hs1. fold ua ub.
  replace (length (dp (get st1 c)) <? pa)%nat with false by (symmetry; apply Nat.ltb_ge; lia).
  destruct (mul_cols_ok (dp (get st1 a)) (dp (get st1 b)) ua ub (Hf1 a HA3) (Hf1 b HB3) ltac:(lia) pa 0 (0, 0, 0))
    as (R & HR & Hdg & Hln & Hvl).
  { cbn [accd]. repeat split; apply digit_0. }
  set (dst := mul_cols (dp (get st1 a)) (dp (get st1 b)) ua ub pa 0 (0, 0, 0)) in *.
  assert (Hprod : vs (code_col (dp (get st1 a)) (dp (get st1 b)) ua ub) 0 pa = mag (get st a) * mag (get st b)).
  { rewrite (vs_ext _ (col (fun i => nth i (dp (get st1 a)) 0) (fun j => nth j (dp (get st1 b)) 0) ua ub) pa 0) by (intros; apply code_col_col).
    unfold pa. rewrite col_product. rewrite !mag_vs. fold ua ub. f_equal; apply vs_ext; intros k Hk; apply Hd1. }
  cbn [comba_forward accv] in Hvl. rewrite Hprod in Hvl.
  assert (Hvd : 0 <= val dst < W ^ Z.of_nat pa).
  { rewrite (val_vs_off dst 0), Hln. apply vs_bound. intros. apply nth_digit. assumption. }
  assert (HR0 : R = 0).
  { pose proof (mag_nonneg _ HA3) as Ma. pose proof (mag_nonneg _ HB3) as Mb. fold ua in Ma. fold ub in Mb.
    assert (W ^ Z.of_nat pa = W ^ Z.of_nat ua * W ^ Z.of_nat ub) by (unfold pa; rewrite Nat2Z.inj_add, Z.pow_add_r by lia; reflexivity).
    pose proof (Wpow_pos ua). pose proof (Wpow_pos ub). nia. }
  subst R.
  set (Cs := mkp (dst ++ skipn pa (dp (get st1 c))) 0 false).
  set (sg := xorb (sign (get st a)) (sign (get st b))).
  set (st2 := set st1 c (mkp (zero_range (dst ++ skipn pa (dp (get st1 c))) pa (used (get st c))) pa sg)).
  assert (Hn : forall k, rdd Cs k = if (k <? pa)%nat then nth k dst 0 else rdd (get st c) k).
  { intros k. unfold Cs, rdd. cbn [dp]. rewrite nth_app, Hln. destruct (k <? pa)%nat eqn:Ek; [reflexivity|].
    apply Nat.ltb_ge in Ek. rewrite nth_skipn. replace (pa + (k - pa))%nat with k by lia. apply H1d. }
  destruct (finish_core c st2 Cs pa (used (get st c)) sg) as (Fw & Fm & Fs & Fa & Fo).
  { unfold st2. gs. rewrite Nat.eqb_refl. reflexivity. }
  { unfold Cs, alloc. cbn [dp]. rewrite app_length, skipn_length, Hln. lia. }
  { unfold Cs, alloc. cbn [dp]. rewrite app_length, skipn_length, Hln. lia. }
  { apply Forall_digit_nth. intros k Hk. fold (rdd Cs k). rewrite Hn. destruct (k <? pa)%nat; apply nth_digit; assumption. }
  { intros k Hk Hk2. rewrite Hn. replace (k <? pa)%nat with false by (symmetry; apply Nat.ltb_ge; lia). apply HC4. assumption. }
  eexists. split; [reflexivity|]. fold sg. fold st2.
  assert (Hv : vs (rdd Cs) 0 pa = mag (get st a) * mag (get st b)).
  { rewrite (vs_ext _ (fun k => nth (k - 0) dst 0) pa 0).
    - rewrite <- Hln at 1. rewrite <- (val_vs_off dst 0). lia.
    - intros k Hk. rewrite Hn. replace (k <? pa)%nat with true by (symmetry; apply Nat.ltb_lt; lia). rewrite Nat.sub_0_r. reflexivity. }
  rewrite Fm, Fs, Hv. split; [exact Fw|]. split; [reflexivity|]. split; [reflexivity|].
  intros j Hj. rewrite Fo by assumption. unfold st2. gs. eqb_case j c; [contradiction|]. apply H1o. assumption.
Qed.

(* ================================================================= N. statements in the shape of Properties_C13.v *)
Ltac from_spec S :=
  let s := fresh "s" in let R := fresh "R" in
  destruct S as [(s & R) | R]; [ | destruct R; congruence ].
Theorem pstm_mul_d_exact : forall a b c st st',
  wfp (get st a) -> wfp (get st c) -> digit b -> pstm_mul_d a b c st = Ok st' ->
  wfp (get st' c) /\ ival (get st' c) = ival (get st a) * b /\ frame st st' (fun j => j = c).
Proof.
  intros a b c st st' HA HC Hb H.
  destruct (pstm_mul_d_spec a b c st (wfp_pre _ HA) (wfp_pre _ HC) Hb) as [(s & R1 & R2 & R3 & R4 & R5) | (R1 & _)]; [|congruence].
  rewrite R1 in H. inversion H. subst s. split; [assumption|]. split.
  - rewrite (ival_from _ _ _ R3 R4). unfold ival, sgn_mag. destruct (sign (get st a)); lia.
  - intros j Hj. apply R5. assumption.
Qed.
Theorem pstm_mul_d_error : forall a b c st e,
  wfp (get st a) -> wfp (get st c) -> digit b -> pstm_mul_d a b c st = Err e -> e = EMem /\ used (get st a) = MAXN.
Proof.
  intros a b c st e HA HC Hb H.
  destruct (pstm_mul_d_spec a b c st (wfp_pre _ HA) (wfp_pre _ HC) Hb) as [(s & R1 & _) | (R1 & R2)]; [congruence|].
  rewrite R1 in H. inversion H. auto.
Qed.
Theorem pstm_add_d_exact : forall a b c st st',
  wfp (get st a) -> wfp (get st c) -> digit b -> pstm_add_d a b c st = Ok st' ->
  wfp (get st' c) /\ ival (get st' c) = ival (get st a) + b /\ frame st st' (fun j => j = c \/ j = fresh a c).
Proof.
  intros a b c st st' HA HC Hb H.
  destruct (pstm_add_d_spec a b c st HA HC Hb) as [(s & R1 & R2 & R3 & R4) | (R1 & _)]; [|congruence].
  rewrite R1 in H. inversion H. subst s. split; [assumption|]. split; [assumption|]. intros j Hj. apply R4; tauto.
Qed.
Theorem pstm_add_d_error : forall a b c st e,
  wfp (get st a) -> wfp (get st c) -> digit b -> pstm_add_d a b c st = Err e ->
  e = ELimit /\ W ^ Z.of_nat MAXN <= Z.abs (ival (get st a) + b).
Proof.
  intros a b c st e HA HC Hb H.
  destruct (pstm_add_d_spec a b c st HA HC Hb) as [(s & R1 & _) | (R1 & R2)]; [congruence|].
  rewrite R1 in H. inversion H. auto.
Qed.
Theorem pstm_sub_d_exact : forall a b c st st',
  wfp (get st a) -> wfp (get st c) -> digit b -> pstm_sub_d a b c st = Ok st' ->
  wfp (get st' c) /\ ival (get st' c) = ival (get st a) - b /\ frame st st' (fun j => j = c \/ j = fresh a c).
Proof.
  intros a b c st st' HA HC Hb H.
  destruct (pstm_sub_d_spec a b c st HA HC Hb) as [(s & R1 & R2 & R3 & R4) | (R1 & _)]; [|congruence].
  rewrite R1 in H. inversion H. subst s. split; [assumption|]. split; [assumption|]. intros j Hj. apply R4; tauto.
Qed.
Theorem pstm_sub_d_error : forall a b c st e,
  wfp (get st a) -> wfp (get st c) -> digit b -> pstm_sub_d a b c st = Err e ->
  e = ELimit /\ W ^ Z.of_nat MAXN <= Z.abs (ival (get st a) - b).
Proof.
  intros a b c st e HA HC Hb H.
  destruct (pstm_sub_d_spec a b c st HA HC Hb) as [(s & R1 & _) | (R1 & R2)]; [congruence|].
  rewrite R1 in H. inversion H. auto.
Qed.
Theorem pstm_mul_comba_exact : forall a b c st st',
  wfp (get st a) -> wfp (get st b) -> wfp (get st c) -> pstm_mul_comba a b c st = Ok st' ->
  wfp (get st' c) /\ ival (get st' c) = ival (get st a) * ival (get st b) /\ frame st st' (fun j => j = c).
Proof.
  intros a b c st st' HA HB HC H.
  destruct (pstm_mul_comba_spec a b c st (wfp_pre _ HA) (wfp_pre _ HB) (wfp_pre _ HC)) as [(s & R1 & R2 & R3 & R4 & R5) | (R1 & _)]; [|congruence].
  rewrite R1 in H. inversion H. subst s. split; [assumption|]. split.
  - rewrite (ival_from _ _ _ R3 R4). unfold ival, sgn_mag. destruct (sign (get st a)); destruct (sign (get st b)); cbn [xorb]; lia.
  - intros j Hj. apply R5. assumption.
Qed.
Theorem pstm_mul_comba_error : forall a b c st e,
  wfp (get st a) -> wfp (get st b) -> wfp (get st c) -> pstm_mul_comba a b c st = Err e ->
  e = EMem /\ (MAXN < used (get st a) + used (get st b))%nat.
Proof.
  intros a b c st e HA HB HC H.
  destruct (pstm_mul_comba_spec a b c st (wfp_pre _ HA) (wfp_pre _ HB) (wfp_pre _ HC)) as [(s & R1 & _) | (R1 & R2)]; [congruence|].
  rewrite R1 in H. inversion H. auto.
Qed.
Theorem pstm_copy_exact : forall a b st, wfp (get st a) -> wfp (get st b) ->
  exists st', pstm_copy a b st = Ok st' /\ wfp (get st' b) /\ ival (get st' b) = ival (get st a) /\ frame st st' (fun j => j = b).
Proof.
  intros a b st HA HB.
  destruct (pstm_copy_spec a b st (wfp_pre _ HA) (wfp_pre _ HB)) as (st' & R1 & (P1 & P2 & P3 & P4) & R3 & R4 & R5 & R6 & R7).
  exists st'. split; [assumption|]. split.
  - constructor; auto.
    + intros Hu. unfold rdd in R5. rewrite R5, R3. apply (wf_top _ HA). rewrite <- R3. assumption.
    + intros Hu. rewrite R4. apply (wf_zero _ HA). rewrite <- R3. assumption.
  - split; [unfold ival; rewrite R4, R6; reflexivity|]. intros j Hj. apply R7. assumption.
Qed.
Theorem pstm_lshd_exact : forall c z st st', wfp (get st c) -> (0 < z)%nat -> Z.of_nat (MAXN + z) < 65536 ->
  pstm_lshd c z st = Ok st' ->
  wfp (get st' c) /\ ival (get st' c) = ival (get st c) * W ^ Z.of_nat z /\ frame st st' (fun j => j = c).
Proof.
  intros c z st st' HC Hz H16 H.
  destruct (pstm_lshd_spec c z st (wfp_pre _ HC) Hz H16) as [(s & R1 & R2 & R3 & R4 & R5) | (R1 & _)]; [|congruence].
  rewrite R1 in H. inversion H. subst s. split; [assumption|]. split.
  - unfold ival. rewrite R3, R4. pose proof (Wpow_pos z). destruct (mag (get st c) =? 0) eqn:E.
    + apply Z.eqb_eq in E. rewrite E. destruct (sign (get st c)); lia.
    + destruct (sign (get st c)); lia.
  - intros j Hj. apply R5. assumption.
Qed.
Theorem pstm_lshd_error : forall c z st e, wfp (get st c) -> (0 < z)%nat -> Z.of_nat (MAXN + z) < 65536 ->
  pstm_lshd c z st = Err e -> e = EMem /\ (MAXN < used (get st c) + z)%nat.
Proof.
  intros c z st e HC Hz H16 H.
  destruct (pstm_lshd_spec c z st (wfp_pre _ HC) Hz H16) as [(s & R1 & _) | (R1 & R2)]; [congruence|].
  rewrite R1 in H. inversion H. auto.
Qed.
Theorem pstm_rshd_exact : forall a b st, wfp (get st a) ->
  wfp (get (pstm_rshd a b st) a) /\ mag (get (pstm_rshd a b st) a) = mag (get st a) / W ^ Z.of_nat b /\
  (mag (get st a) / W ^ Z.of_nat b <> 0 -> sign (get (pstm_rshd a b st) a) = sign (get st a)) /\
  frame st (pstm_rshd a b st) (fun j => j = a).
Proof.
  intros a b st HA. destruct (pstm_rshd_spec a b st (wfp_pre _ HA)) as (R1 & R2 & R3 & R4).
  split; [assumption|]. split; [assumption|]. split.
  - intros Hn. rewrite R3. apply Z.eqb_neq in Hn. rewrite Hn. reflexivity.
  - intros j Hj. apply R4. assumption.
Qed.

(* ---- partial results for operations that are modelled and run against the library on every check but whose
   value theorem is not proved yet: only "an error is PS_MEM_FAIL and means the result needs more than
   PSTM_MAX_SIZE digits" is shown *)
Theorem pstm_sqr_comba_error_partial : forall a b st e, pre_wf (get st a) -> pre_wf (get st b) ->
  pstm_sqr_comba a b st = Err e -> e = EMem /\ (MAXN < used (get st a) + used (get st a))%nat.
Proof.
  intros a b st e HA HB. unfold pstm_sqr_comba. cbv zeta. rewrite ensure_remap.
  set (pa := (used (get st a) + used (get st a))%nat).
  destruct (Nat.le_gt_cases pa MAXN) as [Hfit|Hbig].
  - destruct (ensure_spec b pa st Hfit) as (st1 & He & _ & _ & _ & H1a & _). rewrite He. cbn [remap bind].
    replace (alloc (get st1 b) <? pa)%nat with false by (symmetry; apply Nat.ltb_ge; lia). discriminate.
  - destruct (ensure b pa st) as [s|e'] eqn:Ee.
    + exfalso. unfold ensure, pstm_grow in Ee. replace (MAXN <? pa)%nat with true in Ee by (symmetry; apply Nat.ltb_lt; lia).
      destruct HB as (HB1 & HB2 & _). destruct (alloc (get st b) <? pa)%nat eqn:El; [discriminate|]. apply Nat.ltb_ge in El. lia.
    + cbn [remap bind]. intros H. inversion H. auto.
Qed.
Theorem pstm_mul_2_error_partial : forall a b st e, pre_wf (get st a) -> pre_wf (get st b) ->
  pstm_mul_2 a b st = Err e -> e = EMem /\ used (get st a) = MAXN.
Proof.
  intros a b st e HA HB. unfold pstm_mul_2. cbv zeta. rewrite ensure_fold.
  destruct HA as (HA1 & HA2 & _). destruct HB as (HB1 & HB2 & _).
  set (ua := used (get st a)) in *.
  destruct (Nat.le_gt_cases (ua + 1) MAXN) as [Hfit|Hbig].
  - destruct (ensure_spec b (ua + 1) st Hfit) as (st1 & He & H1o & H1u & _ & H1a & _). rewrite He. cbn [bind].
    assert (Hu : used (get (set_used b (used (get st1 a)) st1) a) = ua).
    { assert (used (get st1 a) = ua) by (destruct (Nat.eq_dec a b) as [E|E]; [subst; assumption | rewrite H1o by assumption; reflexivity]).
      rewrite H. unf. gs. eqb_case a b; [reflexivity | rewrite H1o by assumption; reflexivity]. }
    rewrite Hu.
    assert (Hal : alloc (get (set_used b (used (get st1 a)) st1) b) = alloc (get st1 b)) by (unf; gs; rewrite Nat.eqb_refl; reflexivity).
    rewrite Hal. replace (alloc (get st1 b) <? ua + 1)%nat with false by (symmetry; apply Nat.ltb_ge; lia).
    destruct (lo_loop (mul2_body a) b ua 0 0 (set_used b (used (get st1 a)) st1)). discriminate.
  - destruct (ensure b (ua + 1) st) as [s|e'] eqn:Ee.
    + exfalso. unfold ensure, pstm_grow in Ee. replace (MAXN <? ua + 1)%nat with true in Ee by (symmetry; apply Nat.ltb_lt; lia).
      destruct (alloc (get st b) <? ua + 1)%nat eqn:El; [discriminate|]. apply Nat.ltb_ge in El. lia.
    + cbn [bind]. intros H. inversion H. subst e'. destruct (ensure_err _ _ _ _ Ee) as (-> & _). split; [reflexivity|]. unfold alloc in *. lia.
Qed.

(* ================================================================= N2. pstm_mul_2 *)
Lemma wfp_of_pre : forall p, pre_wf p -> ((0 < used p)%nat -> W ^ Z.of_nat (used p - 1) <= mag p) -> (used p = 0%nat -> sign p = false) -> wfp p.
Proof.
  intros p (H1 & H2 & H3 & H4) Hm Hs. constructor; auto.
  intros Hu Ht. specialize (Hm Hu).
  assert (mag p < W ^ Z.of_nat (used p - 1)); [|lia].
  rewrite mag_vs. replace (used p) with (S (used p - 1)) at 1 by lia. rewrite vs_S. unfold rdd at 2. rewrite Ht.
  assert (0 <= vs (rdd p) 0 (used p - 1) < W ^ Z.of_nat (used p - 1)) by (apply vs_bound; intros; apply nth_digit; assumption). lia.
Qed.
Definition mul2_step (d r : Z) : Z * Z := (Z.lor (shl d 1) r, shr d (DB - 1)).
Lemma mul2_step_ok : forall d r, digit d -> 0 <= r <= 1 ->
  digit (fst (mul2_step d r)) /\ 0 <= snd (mul2_step d r) <= 1 /\ fst (mul2_step d r) + W * snd (mul2_step d r) = 2 * d + r.
Proof.
  intros d r Hd Hr. unfold mul2_step. cbn [fst snd]. pose proof DB_pos. rewrite shl_spec, shr_spec by lia.
  unfold digit in *. pose proof W_split as Hs. pose proof half_pos as Hh. set (h := 2 ^ (DB - 1)) in *.
  change (2 ^ 1) with 2.
  pose proof (Z.div_mod d h ltac:(lia)) as Ed. pose proof (Z.mod_pos_bound d h Hh) as Bd.
  assert (Bq : 0 <= d / h <= 1) by (split; [apply Z.div_pos; lia | apply Z.lt_succ_r; apply Z.div_lt_upper_bound; lia]).
  assert (Em : (d * 2) mod W = 2 * (d mod h)).
  { symmetry. apply (Z.mod_unique _ _ (d / h)); [left; lia | nia]. }
  rewrite Em.
  assert (El : Z.lor (2 * (d mod h)) r = 2 * (d mod h) + r).
  { apply lor_add. assert (r = 0 \/ r = 1) as [R|R] by lia; subst r; [apply Z.land_0_r|].
    rewrite land1_spec. rewrite Z.mul_comm. apply Z.mod_mul. lia. }
  rewrite El. split; [lia|]. split; [lia|]. nia.
Qed.
Lemma mul2_body_local : forall a, lo_local (mul2_body a).
Proof.
  intros a x t st st' H. unfold mul2_body. destruct (H a) as (_ & _ & Da). rewrite (Da x (le_n x)). reflexivity.
Qed.

Theorem pstm_mul_2_spec : forall a b st,
  wfp (get st a) -> pre_wf (get st b) ->
  (exists st', pstm_mul_2 a b st = Ok st' /\ wfp (get st' b) /\
     mag (get st' b) = 2 * mag (get st a) /\ sign (get st' b) = sign (get st a) /\
     (forall j, j <> b -> get st' j = get st j))
  \/ (pstm_mul_2 a b st = Err EMem /\ used (get st a) = MAXN).
Proof.
  intros a b st HAw HB. pose proof (wfp_pre _ HAw) as HA.
  pose proof HA as (HA1 & HA2 & HA3 & HA4). pose proof HB as (HB1 & HB2 & HB3 & HB4).
  unfold pstm_mul_2. cbv zeta. rewrite ensure_fold.
  set (ua := used (get st a)) in *. set (oldused := used (get st b)) in *. set (sa := sign (get st a)).
  unfold alloc in *.
  destruct (Nat.eq_dec ua MAXN) as [Emax|Emax].
  { right. split; [|assumption]. destruct (ensure b (ua + 1) st) as [s|e] eqn:Ee.
    - exfalso. unfold ensure, pstm_grow in Ee. replace (MAXN <? ua + 1)%nat with true in Ee by (symmetry; apply Nat.ltb_lt; lia).
      destruct (alloc (get st b) <? ua + 1)%nat eqn:El; [discriminate|]. apply Nat.ltb_ge in El. unfold alloc in El. lia.
    - destruct (ensure_err _ _ _ _ Ee) as (-> & _). reflexivity. }
  left.
  assert (Hua : (ua + 1 <= MAXN)%nat) by lia.
  destruct (ensure_spec b (ua + 1) st Hua) as (st1 & He & H1o & H1u & H1s & H1a & H1d & H1f). unfold alloc in *.
  rewrite He. cbn [bind].
  assert (Hu1 : forall i, used (get st1 i) = used (get st i)).
  { intros i. destruct (Nat.eq_dec i b) as [E|E]; [subst; assumption | rewrite H1o by assumption; reflexivity]. }
  assert (Hs1 : forall i, sign (get st1 i) = sign (get st i)).
  { intros i. destruct (Nat.eq_dec i b) as [E|E]; [subst; assumption | rewrite H1o by assumption; reflexivity]. }
  assert (Hd1 : forall i k, rdd (get st1 i) k = rdd (get st i) k).
  { intros i k. destruct (Nat.eq_dec i b) as [E|E]; [subst; apply H1d | rewrite H1o by assumption; reflexivity]. }
  rewrite !Hu1. fold ua oldused.
  set (st2 := set_used b ua st1).
  assert (H2o : forall j, j <> b -> get st2 j = get st1 j) by (intros j Hj; unfold st2; unf; gs; eqb_case j b; [contradiction|reflexivity]).
  assert (H2c : get st2 b = mkp (dp (get st1 b)) ua (sign (get st1 b))) by (unfold st2; unf; gs; rewrite Nat.eqb_refl; reflexivity).
  assert (Hu2 : used (get st2 a) = ua).
  { destruct (Nat.eq_dec a b) as [E|E]; [subst a; rewrite H2c; reflexivity | rewrite H2o, Hu1 by assumption; reflexivity]. }
  assert (Hd2 : forall i k, rdd (get st2 i) k = rdd (get st i) k).
  { intros i k. destruct (Nat.eq_dec i b) as [E|E]; [subst; rewrite H2c; unfold rdd; cbn [dp]; apply H1d | rewrite H2o by assumption; apply Hd1]. }
  rewrite Hu2.
  assert (Hal2 : length (dp (get st2 b)) = Nat.max (length (dp (get st b))) (ua + 1)) by (rewrite H2c; cbn [dp]; assumption).
  replace (length (dp (get st2 b)) <? ua + 1)%nat with false by (symmetry; apply Nat.ltb_ge; lia).
  destruct (lo_loop_spec (mul2_body a) b (mul2_body_local a) ua 0 0 st2 ltac:(unfold alloc; lia))
    as (st3 & Hl & H3o & H3u & H3s & H3a & H3d). unfold alloc in *.
  rewrite Hl. clear Hl.
  assert (Hpl : pure_lo (fun k u => mul2_body a k u st2) ua 0 0 = pure_lo (fun k u => mul2_step (rdd (get st a) k) u) ua 0 0).
  { apply pure_lo_ext. intros k u Hk. unfold mul2_body, mul2_step. rewrite Hd2. reflexivity. }
  rewrite Hpl in *. clear Hpl.
  destruct (pure_lo_conserve (fun k u => mul2_step (rdd (get st a) k) u)
              (fun k => 2 * rdd (get st a) k) (fun u => u) (fun u => 0 <= u <= 1) ua 0 0) as (Hrd & Hr & Hv).
  { intros k u _ Hu. apply mul2_step_ok; auto. apply nth_digit; assumption. }
  { lia. }
  pose proof (pure_lo_length (fun k u => mul2_step (rdd (get st a) k) u) ua 0 0) as Hlen.
  destruct (pure_lo (fun k u => mul2_step (rdd (get st a) k) u) ua 0 0) as [r t] eqn:Ep.
  cbn [fst snd] in *.
  rewrite vs_scale in Hv. rewrite <- mag_vs in Hv.
  assert (Hrr : forall k, (k < ua)%nat -> rdd (get st3 b) k = nth k r 0).
  { intros k Hk. rewrite H3d. replace (0 <=? k)%nat with true by reflexivity.
    replace (k <? 0 + ua)%nat with true by (symmetry; apply Nat.ltb_lt; lia). rewrite Nat.sub_0_r. reflexivity. }
  assert (Hhi : forall k, (ua <= k)%nat -> rdd (get st3 b) k = rdd (get st b) k).
  { intros k Hk. rewrite H3d. replace (k <? 0 + ua)%nat with false by (symmetry; apply Nat.ltb_ge; lia). rewrite andb_false_r. apply Hd2. }
  assert (Hval : vs (rdd (get st3 b)) 0 ua = val r).
  { rewrite (val_vs_off r 0), Hlen. apply vs_ext. intros k Hk. rewrite Nat.sub_0_r. apply Hrr. lia. }
  assert (Hu3 : used (get st3 b) = ua) by (rewrite H3u, H2c; reflexivity).
  assert (Hs3a : sign (get st3 a) = sa).
  { destruct (Nat.eq_dec a b) as [E|E]; [subst a; rewrite H3s, H2c; cbn [sign]; apply Hs1 | rewrite H3o, H2o by assumption; apply Hs1]. }
  (* the object before the final sign assignment *)
  set (st4 := if negb (t =? 0) then set_used b (S (used (get st3 b))) (wr b ua 1 st3) else st3).
  set (x := if negb (t =? 0) then S ua else ua).
  assert (H4 : used (get st4 b) = x /\ (forall j, j <> b -> get st4 j = get st3 j) /\ length (dp (get st4 b)) = length (dp (get st3 b)) /\
               (forall k, rdd (get st4 b) k = if (negb (t =? 0) && (k =? ua)%nat)%bool then 1 else rdd (get st3 b) k)).
  { unfold st4, x. destruct (t =? 0); cbn [negb andb].
    - repeat split; auto.
    - unf. gs. rewrite !Nat.eqb_refl. cbn [used dp]. rewrite Hu3. split; [reflexivity|]. split.
      + intros j Hj. gs. eqb_case j b; [contradiction|reflexivity].
      + split; [apply length_upd|]. intros k. unfold rdd. cbn [dp]. rewrite nth_upd.
        replace (ua <? length (dp (get st3 b)))%nat with true by (symmetry; apply Nat.ltb_lt; lia). rewrite andb_true_r. reflexivity. }
  destruct H4 as (H4u & H4o & H4l & H4d).
  set (st5 := zero_digits b (used (get st4 b)) oldused st4).
  assert (H5c : get st5 b = mkp (zero_range (dp (get st4 b)) x oldused) x (sign (get st4 b))).
  { unfold st5. unf. gs. rewrite Nat.eqb_refl. rewrite H4u. reflexivity. }
  assert (H5o : forall j, j <> b -> get st5 j = get st4 j) by (intros j Hj; unfold st5; unf; gs; eqb_case j b; [contradiction|reflexivity]).
  assert (Hs5a : sign (get st5 a) = sa).
  { destruct (Nat.eq_dec a b) as [E|E].
    - subst a. rewrite H5c. cbn [sign]. unfold st4. destruct (negb (t =? 0)); [unf; gs; rewrite Nat.eqb_refl; cbn [sign]|]; exact Hs3a.
    - rewrite H5o, H4o by assumption. exact Hs3a. }
  eexists. split; [reflexivity|]. fold st4. fold st5. rewrite Hs5a.
  set (P := mkp (zero_range (dp (get st4 b)) x oldused) x sa).
  assert (HP : get (set_sign b sa st5) b = P) by (unf; gs; rewrite Nat.eqb_refl; rewrite H5c; reflexivity).
  assert (Hn : forall k, rdd P k = if (k <? ua)%nat then nth k r 0 else if (negb (t =? 0) && (k =? ua)%nat)%bool then 1 else 0).
  { intros k. unfold P, rdd. cbn [dp]. rewrite nth_zero_range. fold (rdd (get st4 b) k). rewrite H4d.
    destruct (k <? ua)%nat eqn:Ek.
    - apply Nat.ltb_lt in Ek. replace (x <=? k)%nat with false by (symmetry; apply Nat.leb_gt; unfold x; destruct (negb (t =? 0)); lia). cbn [andb].
      replace (k =? ua)%nat with false by (symmetry; apply Nat.eqb_neq; lia). rewrite andb_false_r. apply Hrr. assumption.
    - apply Nat.ltb_ge in Ek. destruct (negb (t =? 0) && (k =? ua)%nat)%bool eqn:Ec.
      + apply andb_true_iff in Ec. destruct Ec as [Ec1 Ec2]. apply Nat.eqb_eq in Ec2. subst k.
        replace (x <=? ua)%nat with false by (symmetry; apply Nat.leb_gt; unfold x; rewrite Ec1; lia). reflexivity.
      + destruct ((x <=? k)%nat && (k <? oldused)%nat)%bool eqn:Ez; [reflexivity|].
        rewrite Hhi by assumption. apply HB4.
        apply andb_false_iff in Ez. destruct Ez as [Ez|Ez]; [|apply Nat.ltb_ge in Ez; assumption].
        apply Nat.leb_gt in Ez. apply andb_false_iff in Ec. unfold x in Ez. destruct (negb (t =? 0)); [|lia].
        destruct Ec as [Ec|Ec]; [discriminate|]. apply Nat.eqb_neq in Ec. lia. }
  assert (Hmag : mag P = 2 * mag (get st a)).
  { rewrite mag_vs. unfold P at 2. cbn [used]. unfold x. destruct (t =? 0) eqn:Et; cbn [negb].
    - apply Z.eqb_eq in Et. subst t. rewrite (vs_ext _ (fun k => nth (k - 0) r 0) ua 0).
      + rewrite <- Hlen at 1. rewrite <- (val_vs_off r 0). lia.
      + intros k Hk. rewrite Hn. replace (k <? ua)%nat with true by (symmetry; apply Nat.ltb_lt; lia). rewrite Nat.sub_0_r. reflexivity.
    - apply Z.eqb_neq in Et. assert (t = 1) by lia. subst t. rewrite vs_S. rewrite Hn, Nat.ltb_irrefl, Nat.eqb_refl. cbn [negb andb].
      rewrite (vs_ext _ (fun k => nth (k - 0) r 0) ua 0).
      + rewrite <- Hlen at 1. rewrite <- (val_vs_off r 0). lia.
      + intros k Hk. rewrite Hn. replace (k <? ua)%nat with true by (symmetry; apply Nat.ltb_lt; lia). rewrite Nat.sub_0_r. reflexivity. }
  assert (Hpre : pre_wf P).
  { apply pre_wf_of_digits; unfold P; cbn [dp]; rewrite ?length_zero_range, ?H4l.
    - unfold x. destruct (negb (t =? 0)); lia.
    - lia.
    - intros k Hk. change (nth k (zero_range (dp (get st4 b)) x oldused) 0) with (rdd P k). rewrite Hn. destruct (k <? ua)%nat; [apply nth_digit; assumption|].
      destruct (negb (t =? 0) && (k =? ua)%nat)%bool; [unfold digit; pose proof W_ge2; lia | apply digit_0].
    - intros k Hk. change (nth k (zero_range (dp (get st4 b)) x oldused) 0) with (rdd P k). rewrite Hn. unfold x in Hk.
      replace (k <? ua)%nat with false by (symmetry; apply Nat.ltb_ge; destruct (negb (t =? 0)); lia).
      destruct (negb (t =? 0)) eqn:En; cbn [andb]; [|reflexivity]. replace (k =? ua)%nat with false by (symmetry; apply Nat.eqb_neq; lia). reflexivity. }
  rewrite HP. split; [|split; [exact Hmag|split; [reflexivity|]]].
  - apply wfp_of_pre; [exact Hpre| |].
    + unfold P at 1 2. cbn [used]. intros Hx. rewrite Hmag.
      pose proof (mag_nonneg _ HA3) as Ma. fold ua in Ma. unfold x in *. destruct (t =? 0) eqn:Et; cbn [negb] in *.
      * pose proof (mag_lower _ HAw ltac:(fold ua; lia)) as Ml. fold ua in Ml. lia.
      * apply Z.eqb_neq in Et. assert (t = 1) by lia. subst t. replace (S ua - 1)%nat with ua by lia.
        assert (0 <= val r) by (rewrite <- Hval; apply vs_bound; intros; rewrite Hrr by lia; apply nth_digit; assumption). lia.
    + unfold P. cbn [used sign]. intros Hx. unfold x in Hx. destruct (negb (t =? 0)); [lia|]. apply (wf_zero _ HAw). exact Hx.
  - intros j Hj. unf. gs. eqb_case j b; [contradiction|]. rewrite H5o, H4o, H3o, H2o, H1o by assumption. reflexivity.
Qed.
Theorem pstm_mul_2_exact : forall a b st st', wfp (get st a) -> wfp (get st b) -> pstm_mul_2 a b st = Ok st' ->
  wfp (get st' b) /\ ival (get st' b) = 2 * ival (get st a) /\ frame st st' (fun j => j = b).
Proof.
  intros a b st st' HA HB H.
  destruct (pstm_mul_2_spec a b st HA (wfp_pre _ HB)) as [(s & R1 & R2 & R3 & R4 & R5) | (R1 & _)]; [|congruence].
  rewrite R1 in H. inversion H. subst s. split; [assumption|]. split.
  - unfold ival. rewrite R3, R4. destruct (sign (get st a)); lia.
  - intros j Hj. apply R5. assumption.
Qed.
Theorem pstm_mul_2_error : forall a b st e, wfp (get st a) -> wfp (get st b) -> pstm_mul_2 a b st = Err e ->
  e = EMem /\ used (get st a) = MAXN.
Proof. intros a b st e HA HB. apply pstm_mul_2_error_partial; apply wfp_pre; assumption. Qed.

(* ================================================================= N3. comba squarer *)
Lemma sqr_col_ok : forall da, Forall digit da -> forall iy tx ty acc,
  accd acc -> accv acc + 2 * colsum da da tx ty iy < W * W * W ->
  accd (sqr_col da tx ty iy acc) /\ accv (sqr_col da tx ty iy acc) = accv acc + 2 * colsum da da tx ty iy.
Proof.
  intros da Ha. induction iy; intros tx ty acc Hd Hbnd; cbn [sqr_col colsum] in *; [split; [assumption|lia]|].
  pose proof (colsum_bound da da Ha Ha iy (S tx) (Nat.pred ty)) as Hc.
  pose proof (nth_digit da tx Ha) as Hx. pose proof (nth_digit da ty Ha) as Hy.
  assert (0 <= nth tx da 0 * nth ty da 0) by (unfold digit in *; nia).
  unfold sqradd2.
  destruct (muladd_ok acc (nth tx da 0) (nth ty da 0) Hd Hx Hy) as (Hd1 & Hv1); [lia|].
  destruct (muladd_ok _ (nth tx da 0) (nth ty da 0) Hd1 Hx Hy) as (Hd2 & Hv2); [lia|].
  destruct (IHiy (S tx) (Nat.pred ty) _ Hd2) as (Hd3 & Hv3); [lia|].
  split; [assumption|lia].
Qed.
Definition code_sqcol (da : list Z) (ua ix : nat) : Z :=
  let ty := Nat.min (ua - 1) ix in let tx := (ix - ty)%nat in
  let iy := Nat.min (Nat.min (ua - tx) (ty + 1)) ((ty + 1 - tx) / 2) in
  2 * colsum da da tx ty iy + (if Nat.even ix then nth (ix / 2) da 0 * nth (ix / 2) da 0 else 0).
Lemma sqr_cols_ok : forall da ua, Forall digit da -> (ua <= MAXN)%nat ->
  forall n ix acc, accd acc ->
  exists R, 0 <= R /\ Forall digit (sqr_cols da ua n ix acc) /\ length (sqr_cols da ua n ix acc) = n /\
    val (sqr_cols da ua n ix acc) + W ^ Z.of_nat n * R = accv (comba_forward acc) + vs (code_sqcol da ua) ix n.
Proof.
  intros da ua Ha Hua. pose proof MAXN_lt_W as HM. pose proof W_pos as HW.
  induction n; intros ix acc Hd.
  - cbn [sqr_cols val vs length]. destruct acc as [[c0 c1] c2]. destruct Hd as (D0 & D1 & D2). unfold digit in *.
    exists (accv (comba_forward (c0, c1, c2))). cbn [comba_forward accv]. change (Z.of_nat 0) with 0. rewrite Z.pow_0_r.
    split; [nia|]. split; [constructor|]. split; [reflexivity|lia].
  - cbn [sqr_cols].
    set (ty := Nat.min (ua - 1) ix). set (tx := (ix - ty)%nat).
    set (iy := Nat.min (Nat.min (ua - tx) (ty + 1)) ((ty + 1 - tx) / 2)).
    assert (Hiy : (2 * iy + 1 <= MAXN + 1)%nat).
    { unfold iy. assert (2 * ((ty + 1 - tx) / 2) <= ty + 1 - tx)%nat by (apply Nat.mul_div_le; lia). unfold ty in *. lia. }
    destruct acc as [[c0 c1] c2]. destruct Hd as (D0 & D1 & D2). unfold digit in D0, D1, D2.
    assert (Hf : accd (comba_forward (c0, c1, c2))) by (cbn [comba_forward accd]; unfold digit; repeat split; lia).
    assert (Hfv : accv (comba_forward (c0, c1, c2)) = c1 + W * c2) by (cbn [comba_forward accv]; lia).
    pose proof (colsum_bound da da Ha Ha iy tx ty) as Hc.
    pose proof (nth_digit da (ix / 2) Ha) as Hm. unfold digit in Hm.
    assert (Hsq : 0 <= nth (ix / 2) da 0 * nth (ix / 2) da 0 <= (W - 1) * (W - 1)) by nia.
    assert (Hiyz : 2 * Z.of_nat iy + 1 <= Z.of_nat MAXN + 1) by lia.
    destruct (sqr_col_ok da Ha iy tx ty _ Hf) as (Hd2 & Hv2); [rewrite Hfv; nia|].
    set (acc2 := sqr_col da tx ty iy (comba_forward (c0, c1, c2))) in *.
    set (acc3 := if Nat.even ix then muladd acc2 (nth (ix / 2) da 0) (nth (ix / 2) da 0) else acc2).
    assert (H3 : accd acc3 /\ accv acc3 = accv (comba_forward (c0, c1, c2)) + code_sqcol da ua ix).
    { unfold acc3, code_sqcol. fold ty tx iy. destruct (Nat.even ix).
      - destruct (muladd_ok acc2 (nth (ix / 2) da 0) (nth (ix / 2) da 0) Hd2 (nth_digit _ _ Ha) (nth_digit _ _ Ha)) as (Hd3 & Hv3); [rewrite Hv2, Hfv; nia|].
        split; [assumption|lia].
      - split; [assumption|lia]. }
    destruct H3 as (Hd3 & Hv3).
    destruct (IHn (S ix) acc3 Hd3) as (R & HR & Hdg & Hln & Hvl).
    destruct acc3 as [[e0 e1] e2] eqn:Eacc. destruct Hd3 as (E0 & E1 & E2).
    exists R. split; [assumption|]. split; [constructor; assumption|]. split; [cbn [length]; lia|].
    cbn [val vs]. rewrite Wpow_S. cbn [comba_forward accv] in Hvl, Hv3. cbn [comba_forward accv].
    transitivity (e0 + W * (val (sqr_cols da ua n (S ix) (e0, e1, e2)) + W ^ Z.of_nat n * R)); [ring|].
    rewrite Hvl. lia.
Qed.

(* a sum over a window on which f is mirror symmetric is twice the sum over its lower half (+ the middle term) *)
Lemma rsum_ends : forall f m lo, rsum f lo (S (S m)) = f lo + rsum f (S lo) m + f (lo + S m)%nat.
Proof.
  intros. change (rsum f lo (S (S m))) with (f lo + rsum f (S lo) (S m)). rewrite rsum_top.
  replace (S lo + m)%nat with (lo + S m)%nat by lia. lia.
Qed.
Lemma sym_sum_even : forall f h lo, (forall z, (z < 2 * h)%nat -> f (lo + z)%nat = f (lo + 2 * h - 1 - z)%nat) ->
  rsum f lo (2 * h) = 2 * rsum f lo h.
Proof.
  intros f. induction h; intros lo Hs; [reflexivity|].
  replace (2 * S h)%nat with (S (S (2 * h))) by lia. rewrite rsum_ends.
  rewrite (IHh (S lo)).
  - cbn [rsum]. pose proof (Hs 0%nat ltac:(lia)) as H0. rewrite Nat.add_0_r in H0. replace (lo + 2 * S h - 1 - 0)%nat with (lo + S (2 * h))%nat in H0 by lia. lia.
  - intros z Hz. pose proof (Hs (S z) ltac:(lia)) as H1. replace (lo + S z)%nat with (S lo + z)%nat in H1 by lia.
    replace (lo + 2 * S h - 1 - S z)%nat with (S lo + 2 * h - 1 - z)%nat in H1 by lia. exact H1.
Qed.
Lemma sym_sum_odd : forall f h lo, (forall z, (z < 2 * h + 1)%nat -> f (lo + z)%nat = f (lo + 2 * h - z)%nat) ->
  rsum f lo (2 * h + 1) = 2 * rsum f lo h + f (lo + h)%nat.
Proof.
  intros f. induction h; intros lo Hs.
  - cbn [rsum Nat.mul Nat.add]. rewrite Nat.add_0_r. lia.
  - replace (2 * S h + 1)%nat with (S (S (2 * h + 1))) by lia. rewrite rsum_ends.
    rewrite (IHh (S lo)).
    + cbn [rsum]. pose proof (Hs 0%nat ltac:(lia)) as H0. rewrite Nat.add_0_r in H0. replace (lo + 2 * S h - 0)%nat with (lo + S (2 * h + 1))%nat in H0 by lia.
      replace (S lo + h)%nat with (lo + S h)%nat by lia. lia.
    + intros z Hz. pose proof (Hs (S z) ltac:(lia)) as H1. replace (lo + S z)%nat with (S lo + z)%nat in H1 by lia.
      replace (lo + 2 * S h - S z)%nat with (S lo + 2 * h - z)%nat in H1 by lia. exact H1.
Qed.
Lemma code_sqcol_col : forall da ua k, (0 < ua)%nat -> (k < 2 * ua)%nat ->
  code_sqcol da ua k = col (fun i => nth i da 0) (fun j => nth j da 0) ua ua k.
Proof.
  intros da ua k Hua Hk. rewrite <- code_col_col. unfold code_sqcol, code_col. cbv zeta.
  replace (ua =? 0)%nat with false by (symmetry; apply Nat.eqb_neq; lia).
  rewrite (Nat.min_comm (ua - 1) k).
  set (ty := Nat.min k (ua - 1)). set (tx := (k - ty)%nat).
  set (L := (ty + 1 - tx)%nat).
  assert (HL : Nat.min (ua - tx) (ty + 1) = L) by (unfold L, tx, ty; lia).
  rewrite HL.
  assert (Hh : Nat.min L (L / 2) = (L / 2)%nat) by (apply Nat.min_r; apply Nat.div_le_upper_bound; lia).
  rewrite Hh.
  assert (Hk2 : (tx + ty = k)%nat) by (unfold tx, ty; lia).
  rewrite (colsum_rsum da da L tx ty) by (unfold L; lia).
  rewrite (colsum_rsum da da (L / 2) tx ty) by (assert (L / 2 <= L)%nat by (apply Nat.div_le_upper_bound; lia); unfold L in *; lia).
  set (f := fun i => nth i da 0 * nth (tx + ty - i) da 0).
  assert (Hsym : forall z, (z < L)%nat -> f (tx + z)%nat = f (tx + L - 1 - z)%nat).
  { intros z Hz. unfold f. replace (tx + ty - (tx + z))%nat with (ty - z)%nat by lia.
    replace (tx + L - 1 - z)%nat with (ty - z)%nat by (unfold L in *; lia).
    replace (tx + ty - (ty - z))%nat with (tx + z)%nat by (unfold L in *; lia). ring. }
  destruct (Nat.even k) eqn:Ek.
  - (* k even: L odd *)
    apply Nat.even_spec in Ek. destruct Ek as [m Em].
    assert (HLo : L = (2 * (L / 2) + 1)%nat).
    { assert (Hp : exists q, L = (2 * q + 1)%nat) by (exists (ty - m)%nat; unfold L in *; lia).
      destruct Hp as [q Hq]. rewrite Hq. replace ((2 * q + 1) / 2)%nat with q; [reflexivity|]. apply Nat.div_unique with 1%nat; lia. }
    replace (rsum f tx L) with (rsum f tx (2 * (L / 2) + 1)) by (rewrite <- HLo; reflexivity). rewrite sym_sum_odd.
    + f_equal. unfold f.
      assert (Hkm : (k / 2 = m)%nat) by (rewrite Em, Nat.mul_comm; apply Nat.div_mul; lia).
      assert (Hmid : (tx + L / 2 = k / 2)%nat).
      { assert (L / 2 = ty - m)%nat by (symmetry; apply Nat.div_unique with 1%nat; unfold L in *; lia). unfold L in *. lia. }
      rewrite Hmid, Hkm. f_equal. f_equal. lia.
    + intros z Hz. rewrite <- HLo in Hz. rewrite (Hsym z Hz). f_equal. rewrite HLo at 1. lia.
  - (* k odd: L even *)
    assert (Ho : Nat.odd k = true) by (rewrite <- Nat.negb_even, Ek; reflexivity).
    apply Nat.odd_spec in Ho. destruct Ho as [m Em].
    assert (HLe : L = (2 * (L / 2))%nat).
    { assert (Hp : exists q, L = (2 * q)%nat) by (exists (ty - m)%nat; unfold L in *; lia).
      destruct Hp as [q Hq]. rewrite Hq. rewrite (Nat.mul_comm 2 q), Nat.div_mul by lia. lia. }
    replace (rsum f tx L) with (rsum f tx (2 * (L / 2))) by (rewrite <- HLe; reflexivity). rewrite sym_sum_even.
    + lia.
    + intros z Hz. rewrite <- HLe in Hz. rewrite (Hsym z Hz). f_equal. rewrite HLe at 1. lia.
Qed.

Theorem pstm_sqr_comba_spec : forall a b st,
  pre_wf (get st a) -> pre_wf (get st b) ->
  (exists st', pstm_sqr_comba a b st = Ok st' /\ wfp (get st' b) /\
     mag (get st' b) = mag (get st a) * mag (get st a) /\ sign (get st' b) = false /\
     (forall j, j <> b -> get st' j = get st j))
  \/ (pstm_sqr_comba a b st = Err EMem /\ (MAXN < used (get st a) + used (get st a))%nat).
Proof.
  intros a b st HA HB.
  pose proof HA as (HA1 & HA2 & HA3 & HA4). pose proof HB as (HB1 & HB2 & HB3 & HB4).
  unfold pstm_sqr_comba. cbv zeta. rewrite ensure_remap. unfold alloc in *.
  set (ua := used (get st a)) in *. set (pa := (ua + ua)%nat).
  destruct (Nat.le_gt_cases pa MAXN) as [Hfit|Hbig].
  2:{ right. split; [|assumption]. destruct (ensure b pa st) as [s|e] eqn:Ee; [|reflexivity].
      exfalso. unfold ensure, pstm_grow in Ee. replace (MAXN <? pa)%nat with true in Ee by (symmetry; apply Nat.ltb_lt; lia).
      destruct (alloc (get st b) <? pa)%nat eqn:El; [discriminate|]. apply Nat.ltb_ge in El. unfold alloc in El. lia. }
  left.
  destruct (ensure_spec b pa st Hfit) as (st1 & He & H1o & H1u & H1s & H1a & H1d & H1f). unfold alloc in *.
  rewrite He. cbn [remap bind].
  assert (Hu1 : forall i, used (get st1 i) = used (get st i)).
  { intros i. destruct (Nat.eq_dec i b) as [E|E]; [subst; assumption | rewrite H1o by assumption; reflexivity]. }
  assert (Hd1 : forall i k, rdd (get st1 i) k = rdd (get st i) k).
  { intros i k. destruct (Nat.eq_dec i b) as [E|E]; [subst; apply H1d | rewrite H1o by assumption; reflexivity]. }
  assert (Hf1 : forall i, Forall digit (dp (get st i)) -> Forall digit (dp (get st1 i))).
  { intros i Hi. destruct (Nat.eq_dec i b) as [E|E]; [subst; apply H1f; assumption | rewrite H1o by assumption; assumption]. }
  rewrite !Hu1. fold ua.
  replace (length (dp (get st1 b)) <? pa)%nat with false by (symmetry; apply Nat.ltb_ge; lia).
  destruct (sqr_cols_ok (dp (get st1 a)) ua (Hf1 a HA3) ltac:(lia) pa 0 (0, 0, 0)) as (R & HR & Hdg & Hln & Hvl).
  { cbn [accd]. repeat split; apply digit_0. }
  set (dst := sqr_cols (dp (get st1 a)) ua pa 0 (0, 0, 0)) in *.
  assert (Hprod : vs (code_sqcol (dp (get st1 a)) ua) 0 pa = mag (get st a) * mag (get st a)).
  { destruct (Nat.eq_dec ua 0) as [E0|E0].
    - unfold pa. rewrite E0. cbn [Nat.add vs]. rewrite mag_vs. fold ua. rewrite E0. reflexivity.
    - rewrite (vs_ext _ (col (fun i => nth i (dp (get st1 a)) 0) (fun j => nth j (dp (get st1 a)) 0) ua ua) pa 0)
        by (intros k Hk; apply code_sqcol_col; unfold pa in *; lia).
      unfold pa. rewrite col_product. rewrite !mag_vs. fold ua. f_equal; apply vs_ext; intros k Hk; apply Hd1. }
  cbn [comba_forward accv] in Hvl. rewrite Hprod in Hvl.
  assert (Hvd : 0 <= val dst < W ^ Z.of_nat pa).
  { rewrite (val_vs_off dst 0), Hln. apply vs_bound. intros. apply nth_digit. assumption. }
  assert (HR0 : R = 0).
  { pose proof (mag_nonneg _ HA3) as Ma. fold ua in Ma.
    assert (W ^ Z.of_nat pa = W ^ Z.of_nat ua * W ^ Z.of_nat ua) by (unfold pa; rewrite Nat2Z.inj_add, Z.pow_add_r by lia; reflexivity).
    pose proof (Wpow_pos ua). nia. }
  subst R.
  set (Cs := mkp (dst ++ skipn pa (dp (get st1 b))) 0 false).
  set (st2 := set st1 b (mkp (zero_range (dst ++ skipn pa (dp (get st1 b))) pa (used (get st b))) pa false)).
  assert (Hn : forall k, rdd Cs k = if (k <? pa)%nat then nth k dst 0 else rdd (get st b) k).
  { intros k. unfold Cs, rdd. cbn [dp]. rewrite nth_app, Hln. destruct (k <? pa)%nat eqn:Ek; [reflexivity|].
    apply Nat.ltb_ge in Ek. rewrite nth_skipn. replace (pa + (k - pa))%nat with k by lia. apply H1d. }
  destruct (finish_core b st2 Cs pa (used (get st b)) false) as (Fw & Fm & Fs & Fa & Fo).
  { unfold st2. gs. rewrite Nat.eqb_refl. reflexivity. }
  { unfold Cs, alloc. cbn [dp]. rewrite app_length, skipn_length, Hln. lia. }
  { unfold Cs, alloc. cbn [dp]. rewrite app_length, skipn_length, Hln. lia. }
  { apply Forall_digit_nth. intros k Hk. fold (rdd Cs k). rewrite Hn. destruct (k <? pa)%nat; apply nth_digit; assumption. }
  { intros k Hk Hk2. rewrite Hn. replace (k <? pa)%nat with false by (symmetry; apply Nat.ltb_ge; lia). apply HB4. assumption. }
  eexists. split; [reflexivity|]. fold st2.
  assert (Hv : vs (rdd Cs) 0 pa = mag (get st a) * mag (get st a)).
  { rewrite (vs_ext _ (fun k => nth (k - 0) dst 0) pa 0).
    - rewrite <- Hln at 1. rewrite <- (val_vs_off dst 0). lia.
    - intros k Hk. rewrite Hn. replace (k <? pa)%nat with true by (symmetry; apply Nat.ltb_lt; lia). rewrite Nat.sub_0_r. reflexivity. }
  rewrite Fm, Fs, Hv. split; [exact Fw|]. split; [reflexivity|]. split; [destruct (mag (get st a) * mag (get st a) =? 0); reflexivity|].
  intros j Hj. rewrite Fo by assumption. unfold st2. gs. eqb_case j b; [contradiction|]. apply H1o. assumption.
Qed.
Theorem pstm_sqr_comba_exact : forall a b st st', wfp (get st a) -> wfp (get st b) -> pstm_sqr_comba a b st = Ok st' ->
  wfp (get st' b) /\ ival (get st' b) = ival (get st a) * ival (get st a) /\ frame st st' (fun j => j = b).
Proof.
  intros a b st st' HA HB H.
  destruct (pstm_sqr_comba_spec a b st (wfp_pre _ HA) (wfp_pre _ HB)) as [(s & R1 & R2 & R3 & R4 & R5) | (R1 & _)]; [|congruence].
  rewrite R1 in H. inversion H. subst s. split; [assumption|]. split.
  - unfold ival. rewrite R3, R4. destruct (sign (get st a)); lia.
  - intros j Hj. apply R5. assumption.
Qed.
Theorem pstm_sqr_comba_error : forall a b st e, wfp (get st a) -> wfp (get st b) -> pstm_sqr_comba a b st = Err e ->
  e = EMem /\ (MAXN < used (get st a) + used (get st a))%nat.
Proof. intros a b st e HA HB. apply pstm_sqr_comba_error_partial; apply wfp_pre; assumption. Qed.

(* ---- partial: pstm_div_2 never fails on well formed operands (value theorem not proved) *)
Theorem pstm_div_2_total_partial : forall a b st, pre_wf (get st a) -> pre_wf (get st b) ->
  exists st', pstm_div_2 a b st = Ok st'.
Proof.
  intros a b st (HA1 & HA2 & _) (HB1 & HB2 & _). unfold pstm_div_2. cbv zeta. rewrite ensure_remap.
  destruct (ensure_spec b (used (get st a)) st ltac:(unfold alloc in *; lia)) as (st1 & He & H1o & H1u & _ & H1a & _).
  rewrite He. cbn [remap bind].
  set (st2 := set_used b (used (get st1 a)) st1).
  assert (Hal : alloc (get st2 b) = alloc (get st1 b)) by (unfold st2; unf; gs; rewrite Nat.eqb_refl; reflexivity).
  assert (Hu : used (get st2 b) = used (get st1 a)) by (unfold st2; unf; gs; rewrite Nat.eqb_refl; reflexivity).
  assert (Hua : used (get st1 a) = used (get st a)).
  { destruct (Nat.eq_dec a b) as [E|E]; [subst; assumption | rewrite H1o by assumption; reflexivity]. }
  rewrite Hal, Hu, Hua. replace (alloc (get st1 b) <? used (get st a))%nat with false by (symmetry; apply Nat.ltb_ge; lia).
  destruct (hi_loop (div2_body a) b (used (get st a)) 0 st2). eexists. reflexivity.
Qed.

(* ================================================================= O. non-vacuity *)
Definition digitb (d : Z) : bool := (0 <=? d) && (d <? W).
Definition wfb (p : pint) : bool :=
  (used p <=? alloc p)%nat && (alloc p <=? MAXN)%nat && forallb digitb (dp p) &&
  forallb (fun d => d =? 0) (skipn (used p) (dp p)) &&
  ((used p =? 0)%nat || negb (nth (used p - 1) (dp p) 0 =? 0)) && ((negb (used p =? 0)%nat) || negb (sign p)).
Lemma wfb_sound : forall p, wfb p = true -> wfp p.
Proof.
  intros p H. unfold wfb in H. repeat (apply andb_true_iff in H; destruct H as [H ?]).
  apply Nat.leb_le in H. apply Nat.leb_le in H4.
  constructor; try assumption.
  - apply Forall_forall. intros d Hd. rewrite forallb_forall in H3. specialize (H3 d Hd). unfold digitb in H3.
    apply andb_true_iff in H3. destruct H3 as [A B]. apply Z.leb_le in A. apply Z.ltb_lt in B. split; assumption.
  - intros k Hk. destruct (Nat.lt_ge_cases k (length (dp p))) as [L|L]; [|apply nth_beyond; assumption].
    rewrite forallb_forall in H2. replace k with (used p + (k - used p))%nat by lia. rewrite <- nth_skipn.
    apply Z.eqb_eq. apply H2. apply nth_In. rewrite skipn_length. lia.
  - intros Hu. apply orb_true_iff in H1. destruct H1 as [A|A]; [apply Nat.eqb_eq in A; lia|].
    apply negb_true_iff in A. apply Z.eqb_neq in A. assumption.
  - intros Hu. apply orb_true_iff in H0. destruct H0 as [A|A].
    + apply negb_true_iff in A. apply Nat.eqb_neq in A. contradiction.
    + apply negb_true_iff in A. assumption.
Qed.
(* well formed operands exist, every theorem's hypotheses are satisfiable, and both outcomes occur *)
Definition ex_store : store :=
  [mk_pint true (2 ^ 130 + 5) 4%nat 0%nat; mk_pint false (2 ^ 64 - 1) 1%nat 0%nat; mk_pint false 7 2%nat 0%nat; mk_pint false 0 1%nat 0%nat].
Example ex_wf : wfp (get ex_store 0%nat) /\ wfp (get ex_store 1%nat) /\ wfp (get ex_store 2%nat) /\ wfp (get ex_store 3%nat).
Proof. repeat split; apply wfb_sound; vm_compute; reflexivity. Qed.
Example ex_add_ok : exists st', pstm_add 0%nat 1%nat 0%nat ex_store = Ok st' /\ ival (get st' 0%nat) = - (2 ^ 130 + 5) + (2 ^ 64 - 1).
Proof. eexists. split; vm_compute; reflexivity. Qed.
Example ex_sub_borrow : exists st', pstm_sub 0%nat 1%nat 2%nat ex_store = Ok st' /\ ival (get st' 2%nat) = - (2 ^ 130 + 5) - (2 ^ 64 - 1).
Proof. eexists. split; vm_compute; reflexivity. Qed.
Example ex_mul_alias : exists st', pstm_mul_comba 0%nat 0%nat 0%nat ex_store = Ok st' /\ ival (get st' 0%nat) = (2 ^ 130 + 5) * (2 ^ 130 + 5).
Proof. eexists. split; vm_compute; reflexivity. Qed.
Definition ex_full : store := [mk_pint false (2 ^ (c_DIGIT_BIT * c_PSTM_MAX_SIZE) - 1) MAXN 0%nat; mk_pint false 1 1%nat 0%nat; mk_pint false 0 1%nat 0%nat].
Example ex_add_limit : wfp (get ex_full 0%nat) /\ pstm_add 0%nat 1%nat 2%nat ex_full = Err ELimit.
Proof. split; [apply wfb_sound; vm_compute; reflexivity | vm_compute; reflexivity]. Qed.
Example ex_cmp : pstm_cmp 0%nat 1%nat ex_store = c_PSTM_LT /\ pstm_cmp_mag 0%nat 1%nat ex_store = c_PSTM_GT.
Proof. split; vm_compute; reflexivity. Qed.
