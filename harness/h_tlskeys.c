/* h_tlskeys (C10): live two-peer handshakes in every mode of the default build; everything the RFCs
   derive is DUMPED so that the extracted Gallina transcription of the RFCs (coq/Tls/TlsSpec.v, driven by
   ocaml/drv_c10.ml) can recompute it from the primary inputs.
   One scenario per input line; commands separated by " ; ":
     new k=v ...          as in h_sess.c plus  grp=<c groups,..> sgrp=<s groups,..> shares=<n> sig=<c sigalgs hex,..> ec=<256|384|521: client curve, TLS 1.2>
                          ssig=<s sigalgs> pad=<tls13BlockSize> psk=1 (external TLS 1.3 PSK) spsk=<0 server without it|2 server with another> psklen=<n> rotate=1 (server ticket keys replaced before this session)
                          pskke=1 (the server selects psk_ke: it treats the client's psk_key_exchange_modes {psk_dhe_ke, psk_ke} as {psk_ke})
     hs                   pump until quiescent, logging every record on the wire (global order)
     app <c|s> <len> <b>  application send of <len> bytes (byte i = (b + i) & 255), pump, print what the peer's
                          application received (ok=1 iff identical) - records are logged as well
     quiet <0|1>          1: log only the 5-byte header of further records (large payload tests)
     dump                 print the state of both peers + the event log + the wire log
     inj <c|s> <hex>      feed records made by an independent peer (the extracted spec) to a side; print what its application got
     ks13 <suite> <c|s> <psk> ke <th CH..SH> <th ..sFin> <th ..cFin>   direct calls of the TLS 1.3 key schedule stages in the psk_ke state
   Link-time wraps (besides those of sess.h):
     transcript hashes    psSha256Init/Update psSha384Init/Update psMd5Sha1Init/Update   (by context address)
     <= TLS 1.2 PRF       prf prf2                                                        (secret, seed, output, destination)
     TLS 1.3 schedule     psHkdfExtract psHkdfExpandLabel                 (inputs, label bytes as passed, output, destination, source)
     signatures           psSign psVerify psVerifySig                                     (signed / verified content)
     API entry points     matrixSslNew{Client,Server}Session ReceivedData ProcessedData EncodeToOutdata GetOutdata
                          (which peer is running; session options for groups / signature algorithms)
   Roles of derived values are taken from the DESTINATION (which ssl->sec field is written), never from the
   label the library used - a wrong label therefore shows up as a wrong value of the right role. */
#include "sess.h"

/* ------------------------------------------------------------------ event log */
enum { EV_HINIT = 1, EV_HUPD, EV_PRF, EV_PRF2, EV_EXTRACT, EV_EXPLABEL, EV_SIGN, EV_VERIFY, EV_VERIFYSIG };
typedef struct { int kind, side, a, b; const void *p, *p2; unsigned char *d[4]; size_t l[4]; } ev_t;
#define MAXEV 200000
static ev_t *g_ev; static int g_nev; static int g_cur = -1; static int g_logging = 1;
static unsigned char *dupb(const void *p, size_t l) { unsigned char *r = malloc(l + 1); if (l && p) memcpy(r, p, l); return r; }
static ev_t *ev_new(int kind, const void *p) {
    if (!g_ev) g_ev = calloc(MAXEV, sizeof(ev_t));
    if (!g_logging || g_nev >= MAXEV) return NULL;
    ev_t *e = &g_ev[g_nev++]; memset(e, 0, sizeof *e); e->kind = kind; e->side = g_cur; e->p = p; return e;
}
static void ev_reset(void) { for (int i = 0; i < g_nev; i++) for (int j = 0; j < 4; j++) free(g_ev[i].d[j]); g_nev = 0; }
static void ev_set(ev_t *e, int j, const void *p, size_t l) { if (e) { e->d[j] = dupb(p, l); e->l[j] = l; } }

/* hash contexts */
#define WRAP_HASH(NAME, CTXT, HK) \
    int32_t __real_##NAME##Init(CTXT *c); void __real_##NAME##Update(CTXT *c, const unsigned char *b, uint32_t l); \
    int32_t __wrap_##NAME##Init(CTXT *c) { ev_t *e = ev_new(EV_HINIT, c); if (e) e->a = HK; return __real_##NAME##Init(c); } \
    void __wrap_##NAME##Update(CTXT *c, const unsigned char *b, uint32_t l) { ev_t *e = ev_new(EV_HUPD, c); if (e) { e->a = HK; ev_set(e, 0, b, l); } __real_##NAME##Update(c, b, l); }
WRAP_HASH(psSha256, psSha256_t, 256)
WRAP_HASH(psSha384, psSha384_t, 384)
WRAP_HASH(psMd5Sha1, psMd5Sha1_t, 51)

int32_t __real_prf(const unsigned char *sec, psSize_t secLen, const unsigned char *seed, psSize_t seedLen, unsigned char *out, psSize_t outLen);
int32_t __wrap_prf(const unsigned char *sec, psSize_t secLen, const unsigned char *seed, psSize_t seedLen, unsigned char *out, psSize_t outLen)
{
    ev_t *e = ev_new(EV_PRF, out); ev_set(e, 0, sec, secLen); ev_set(e, 1, seed, seedLen);
    int32_t rc = __real_prf(sec, secLen, seed, seedLen, out, outLen);
    if (e) { e->a = rc; ev_set(e, 2, out, outLen); }
    return rc;
}
int32_t __real_prf2(const unsigned char *sec, psSize_t secLen, const unsigned char *seed, psSize_t seedLen, unsigned char *out, psSize_t outLen, uint32_t flags);
int32_t __wrap_prf2(const unsigned char *sec, psSize_t secLen, const unsigned char *seed, psSize_t seedLen, unsigned char *out, psSize_t outLen, uint32_t flags)
{
    ev_t *e = ev_new(EV_PRF2, out); ev_set(e, 0, sec, secLen); ev_set(e, 1, seed, seedLen);
    int32_t rc = __real_prf2(sec, secLen, seed, seedLen, out, outLen, flags);
    if (e) { e->a = rc; e->b = (flags & CRYPTO_FLAGS_SHA3) ? 384 : 256; ev_set(e, 2, out, outLen); }
    return rc;
}
int32_t __real_psHkdfExtract(psCipherType_e alg, const unsigned char *salt, psSize_t saltLen, const unsigned char *ikm, psSize_t ikmLen, unsigned char *prk, psSize_t *prkLen);
int32_t __wrap_psHkdfExtract(psCipherType_e alg, const unsigned char *salt, psSize_t saltLen, const unsigned char *ikm, psSize_t ikmLen, unsigned char *prk, psSize_t *prkLen)
{
    ev_t *e = ev_new(EV_EXTRACT, prk); ev_set(e, 0, salt, saltLen); ev_set(e, 1, ikm, ikmLen);
    int32_t rc = __real_psHkdfExtract(alg, salt, saltLen, ikm, ikmLen, prk, prkLen);
    if (e) { e->a = rc; e->b = (alg == HMAC_SHA384) ? 384 : 256; ev_set(e, 2, prk, rc < 0 ? 0 : *prkLen); }
    return rc;
}
int32_t __real_psHkdfExpandLabel(psPool_t *pool, psCipherType_e alg, const unsigned char *secret, psSize_t secretLen, const char *label, psSize_t labelLen,
                                 const unsigned char *context, psSize_t contextLen, psSize_t length, unsigned char *out);
int32_t __wrap_psHkdfExpandLabel(psPool_t *pool, psCipherType_e alg, const unsigned char *secret, psSize_t secretLen, const char *label, psSize_t labelLen,
                                 const unsigned char *context, psSize_t contextLen, psSize_t length, unsigned char *out)
{
    ev_t *e = ev_new(EV_EXPLABEL, out); if (e) e->p2 = secret; ev_set(e, 0, secret, secretLen); ev_set(e, 1, label, labelLen); ev_set(e, 3, context, contextLen);
    int32_t rc = __real_psHkdfExpandLabel(pool, alg, secret, secretLen, label, labelLen, context, contextLen, length, out);
    if (e) { e->a = rc; e->b = (alg == HMAC_SHA384) ? 384 : 256; ev_set(e, 2, out, rc < 0 ? 0 : length); }
    return rc;
}
int32_t __real_psSign(psPool_t *pool, psPubKey_t *k, int32_t sigAlg, const unsigned char *in, psSizeL_t inLen, unsigned char **out, psSize_t *outLen, psSignOpts_t *opts);
int32_t __wrap_psSign(psPool_t *pool, psPubKey_t *k, int32_t sigAlg, const unsigned char *in, psSizeL_t inLen, unsigned char **out, psSize_t *outLen, psSignOpts_t *opts)
{
    ev_t *e = ev_new(EV_SIGN, NULL); ev_set(e, 0, in, inLen); if (e) e->b = sigAlg;
    int lg = g_logging; g_logging = 0;          /* the hashing inside the signature primitive is not of interest */
    int32_t rc = __real_psSign(pool, k, sigAlg, in, inLen, out, outLen, opts);
    g_logging = lg; if (e) e->a = rc;
    return rc;
}
psRes_t __real_psVerify(psPool_t *pool, const unsigned char *d, psSizeL_t dl, const unsigned char *sig, psSize_t sl, psPubKey_t *k, int32_t alg, psBool_t *res, psVerifyOptions_t *o);
psRes_t __wrap_psVerify(psPool_t *pool, const unsigned char *d, psSizeL_t dl, const unsigned char *sig, psSize_t sl, psPubKey_t *k, int32_t alg, psBool_t *res, psVerifyOptions_t *o)
{
    ev_t *e = ev_new(EV_VERIFY, NULL); ev_set(e, 0, d, dl); if (e) e->b = alg;
    int lg = g_logging; g_logging = 0;
    psRes_t rc = __real_psVerify(pool, d, dl, sig, sl, k, alg, res, o);
    g_logging = lg; if (e) e->a = (rc >= 0 && res && *res == PS_TRUE) ? 1 : 0;
    return rc;
}
psRes_t __real_psVerifySig(psPool_t *pool, const unsigned char *d, psSizeL_t dl, const unsigned char *sig, psSize_t sl, psPubKey_t *k, int32_t alg, psBool_t *res, psVerifyOptions_t *o);
psRes_t __wrap_psVerifySig(psPool_t *pool, const unsigned char *d, psSizeL_t dl, const unsigned char *sig, psSize_t sl, psPubKey_t *k, int32_t alg, psBool_t *res, psVerifyOptions_t *o)
{
    ev_t *e = ev_new(EV_VERIFYSIG, NULL); ev_set(e, 0, d, dl); if (e) e->b = alg;
    int lg = g_logging; g_logging = 0;
    psRes_t rc = __real_psVerifySig(pool, d, dl, sig, sl, k, alg, res, o);
    g_logging = lg; if (e) e->a = (rc >= 0 && res && *res == PS_TRUE) ? 1 : 0;
    return rc;
}

/* ------------------------------------------------------------------ API entry points: who is running */
static uint16_t g_cgrp[8], g_sgrp[8], g_csig[16], g_ssig[16]; static int g_ncgrp, g_nsgrp, g_ncsig, g_nssig, g_shares = 1, g_pad, g_cec, g_spsk = 1, g_psklen, g_rotate, g_pskke;
static int side_of(ssl_t *s) { return s == g_s.ssl ? 1 : 0; }
/* external TLS 1.3 PSK (sess.h psk=1 loads the same PSK into both key sets): spsk=0 the server gets none, spsk=2 the server
   gets another identity with another key (either way it declines the client's offer -> certificate handshake);
   psklen=<n> both get an n-byte key instead of the 32-byte one */
int32_t __real_matrixSslLoadTls13Psk(sslKeys_t *keys, const unsigned char *key, psSize_t keyLen, const unsigned char *id, psSize_t idLen, const psTls13SessionParams_t *params);
int32_t __wrap_matrixSslLoadTls13Psk(sslKeys_t *keys, const unsigned char *key, psSize_t keyLen, const unsigned char *id, psSize_t idLen, const psTls13SessionParams_t *params)
{
    static unsigned char k2[64]; static const unsigned char id2[] = "verif-other-psk-id";
    int server = (keys == g_s.keys);
    if (server && g_spsk == 0) return 0;
    if (g_psklen > 0 && g_psklen <= 64) { for (int i = 0; i < g_psklen; i++) k2[i] = (unsigned char) (0x30 + i); key = k2; keyLen = (psSize_t) g_psklen; }
    if (server && g_spsk == 2) { for (int i = 0; i < 64; i++) k2[i] = (unsigned char) (0xc0 + i); return __real_matrixSslLoadTls13Psk(keys, k2, keyLen, id2, sizeof(id2) - 1, params); }
    return __real_matrixSslLoadTls13Psk(keys, key, keyLen, id, idLen, params);
}
int32_t __real_matrixSslNewClientSession(ssl_t **ssl, const sslKeys_t *keys, sslSessionId_t *sid, const psCipher16_t cs[], uint8_t n, sslCertCb_t cb,
                                         const char *name, tlsExtension_t *ext, sslExtCb_t extCb, sslSessOpts_t *o);
int32_t __wrap_matrixSslNewClientSession(ssl_t **ssl, const sslKeys_t *keys, sslSessionId_t *sid, const psCipher16_t cs[], uint8_t n, sslCertCb_t cb,
                                         const char *name, tlsExtension_t *ext, sslExtCb_t extCb, sslSessOpts_t *o)
{
    g_cur = 0;
    if (g_ncgrp) matrixSslSessOptsSetKeyExGroups(o, g_cgrp, (psSize_t) g_ncgrp, (psSize_t) g_shares);
    if (g_ncsig) matrixSslSessOptsSetSigAlgs(o, g_csig, (psSize_t) g_ncsig);
    if (g_pad) o->tls13BlockSize = (psSizeL_t) g_pad;
    if (g_cec) o->ecFlags = g_cec;
    int32_t rc = __real_matrixSslNewClientSession(ssl, keys, sid, cs, n, cb, name, ext, extCb, o);
    g_cur = -1; return rc;
}
int32_t __real_matrixSslNewServerSession(ssl_t **ssl, const sslKeys_t *keys, sslCertCb_t cb, sslSessOpts_t *o);
int32_t __wrap_matrixSslNewServerSession(ssl_t **ssl, const sslKeys_t *keys, sslCertCb_t cb, sslSessOpts_t *o)
{
    g_cur = 1;
    if (g_rotate) {      /* the server has rotated its ticket keys: tickets of the previous session can no longer be opened */
        static unsigned char tn[16] = "verif-ticketkey", tn2[16] = "verif-ticketke2", sk[32], hk[32];
        memset(sk, 0x11, 32); memset(hk, 0x22, 32);
        matrixSslDeleteSessionTicketKey((sslKeys_t *) keys, tn);
        matrixSslLoadSessionTicketKeys((sslKeys_t *) keys, tn2, sk, 32, hk, 32);
    }
    if (g_nsgrp) matrixSslSessOptsSetKeyExGroups(o, g_sgrp, (psSize_t) g_nsgrp, 1);
    if (g_nssig) matrixSslSessOptsSetSigAlgs(o, g_ssig, (psSize_t) g_nssig);
    if (g_pad) o->tls13BlockSize = (psSizeL_t) g_pad;
    int32_t rc = __real_matrixSslNewServerSession(ssl, keys, cb, o);
    g_cur = -1; return rc;
}
/* PSK-only key exchange: MatrixSSL clients always offer both modes and the server prefers psk_dhe_ke; a conforming server
   may just as well choose psk_ke (RFC 8446 4.2.9).  With pskke=1 the server forgets that psk_dhe_ke was offered once the
   ClientHello extensions are parsed - nothing on the wire is altered, both roles then run the psk_ke schedule for real */
int32_t __real_tls13ParseExtensions(ssl_t *ssl, psParseBuf_t *pb, unsigned char hsMsgType, psBool_t allowStateChange);
int32_t __wrap_tls13ParseExtensions(ssl_t *ssl, psParseBuf_t *pb, unsigned char hsMsgType, psBool_t allowStateChange)
{
    int32_t rc = __real_tls13ParseExtensions(ssl, pb, hsMsgType, allowStateChange);
    if (g_pskke && (ssl->flags & SSL_FLAGS_SERVER) && hsMsgType == SSL_HS_CLIENT_HELLO) {
        int had = 0;
        for (int i = 0; i < 2; i++) if (ssl->sec.tls13ClientPskModes[i] == psk_keyex_mode_psk_ke) had = 1;
        if (had) { ssl->sec.tls13ClientPskModes[0] = psk_keyex_mode_psk_ke; ssl->sec.tls13ClientPskModes[1] = psk_keyex_mode_none; ssl->sec.tls13ClientPskModesLen = 1; }
    }
    return rc;
}
int32_t __real_matrixSslReceivedData(ssl_t *ssl, uint32_t bytes, unsigned char **pt, uint32_t *ptLen);
int32_t __wrap_matrixSslReceivedData(ssl_t *ssl, uint32_t bytes, unsigned char **pt, uint32_t *ptLen)
{ g_cur = side_of(ssl); int32_t rc = __real_matrixSslReceivedData(ssl, bytes, pt, ptLen); g_cur = -1; return rc; }
int32_t __real_matrixSslProcessedData(ssl_t *ssl, unsigned char **pt, uint32_t *ptLen);
int32_t __wrap_matrixSslProcessedData(ssl_t *ssl, unsigned char **pt, uint32_t *ptLen)
{ g_cur = side_of(ssl); int32_t rc = __real_matrixSslProcessedData(ssl, pt, ptLen); g_cur = -1; return rc; }
int32_t __real_matrixSslEncodeToOutdata(ssl_t *ssl, unsigned char *buf, uint32_t len);
int32_t __wrap_matrixSslEncodeToOutdata(ssl_t *ssl, unsigned char *buf, uint32_t len)
{ g_cur = side_of(ssl); int32_t rc = __real_matrixSslEncodeToOutdata(ssl, buf, len); g_cur = -1; return rc; }
int32_t __real_matrixSslGetOutdata(ssl_t *ssl, unsigned char **buf);
int32_t __wrap_matrixSslGetOutdata(ssl_t *ssl, unsigned char **buf)
{ g_cur = side_of(ssl); int32_t rc = __real_matrixSslGetOutdata(ssl, buf); g_cur = -1; return rc; }

/* ------------------------------------------------------------------ wire log */
typedef struct { int dir, full; unsigned char *b; size_t len; int inner; } wrec_t;
#define MAXW 4096
static wrec_t g_w[MAXW]; static int g_nw; static int g_hdronly = 0;
static void wire_reset(void) { for (int i = 0; i < g_nw; i++) free(g_w[i].b); g_nw = 0; }

/* receive-side application data is printed by sess.h's feed() through P(); capture instead of printing */
static unsigned char *g_rx[2]; static size_t g_rxlen[2], g_rxcap[2];

static int pump_logged(void)
{
    int n = 0, moved = 1, guard = 0;
    g_quiet = 1; flush_out(&g_c); flush_out(&g_s);
    while (moved && guard++ < 2000) {
        moved = 0;
        for (int dir = 0; dir < 2; dir++) {
            queue_t *q = dir ? &g_s2c : &g_c2s; size_t l;
            while ((l = q_reclen(q)) != 0) {
                if (g_nw < MAXW) {
                    wrec_t *w = &g_w[g_nw++]; w->dir = dir; w->full = !g_hdronly; w->len = l;
                    w->b = dupb(q->b, g_hdronly ? 5 : l);
                    w->inner = (q->mh != q->mt) ? q->m[q->mh % MQ].inner : -1;
                }
                deliver_one(dir, 0); n++; moved = 1;
            }
        }
    }
    g_quiet = 0;
    return n;
}

/* ------------------------------------------------------------------ dump */
static void kv(const char *k, const unsigned char *b, size_t l) { printf(" %s=", k); puthex(b, l); }
typedef struct { const char *name; size_t off, len; } fld_t;
#define F(x) { #x, offsetof(ssl_t, sec.x), sizeof(((ssl_t *) 0)->sec.x) }
static const fld_t g_flds[] = {
    F(masterSecret), F(keyBlock),
    F(tls13EarlySecret), F(tls13EarlySecretSha384), F(tls13ExtBinderSecret), F(tls13EarlyTrafficSecretClient), F(tls13HandshakeSecret),
    F(tls13HsTrafficSecretClient), F(tls13HsTrafficSecretServer), F(tls13MasterSecret), F(tls13AppTrafficSecretClient),
    F(tls13AppTrafficSecretServer), F(tls13ResumptionMasterSecret), F(tls13HsWriteKey), F(tls13HsWriteIv), F(tls13HsReadKey), F(tls13HsReadIv),
    F(tls13EarlyDataKey), F(tls13EarlyDataIv), F(tls13AppWriteKey), F(tls13AppWriteIv), F(tls13AppReadKey), F(tls13AppReadIv),
    F(tls13ExtBinderKey), F(tls13FinishedKey), F(tls13VerifyData),
    F(msgHashSha256), F(msgHashSha384), F(msgHashMd5Sha1), F(tls13msgHashSha256), F(tls13msgHashSha384),
};
/* name of the ssl->sec field of peer `side` that contains p ("-" if none) */
static const char *role_of(int side, const void *p)
{
    static char buf[80];
    for (int s = 0; s < 2; s++) {
        ssl_t *ssl = s ? g_s.ssl : g_c.ssl; if (!ssl) continue;
        if (side >= 0 && side != s) continue;
        const unsigned char *base = (const unsigned char *) ssl, *q = p;
        for (size_t i = 0; i < sizeof g_flds / sizeof g_flds[0]; i++)
            if (q >= base + g_flds[i].off && q < base + g_flds[i].off + g_flds[i].len) {
                snprintf(buf, sizeof buf, "%c.%s+%d", s ? 's' : 'c', g_flds[i].name, (int) (q - (base + g_flds[i].off))); return buf;
            }
    }
    return "-";
}

static void dump_peer(peer_t *p, const char *pf)
{
    ssl_t *s = p->ssl; char k[64];
    if (!s) { printf(" %s.nil=1", pf); return; }
    printf(" %s.ver=%d %s.suite=%04x %s.resumed=%d %s.ems=%d %s.done=%d %s.err=%d", pf, ACTV_VER(s, v_tls_1_3_any) ? 4 : ACTV_VER(s, v_tls_1_2) ? 3 : ACTV_VER(s, v_tls_1_1) ? 2 : ACTV_VER(s, v_tls_1_0) ? 1 : 0,
           pf, s->cipher ? s->cipher->ident : 0, pf, (s->flags & SSL_FLAGS_RESUMED) ? 1 : 0, pf, (int) s->extFlags.extended_master_secret,
           pf, matrixSslHandshakeIsComplete(s) ? 1 : 0, pf, (int) s->err);
    if (s->cipher) printf(" %s.sizes=%d:%d:%d:%d", pf, (int) s->cipher->macSize, (int) s->cipher->keySize, (int) s->cipher->ivSize, (int) s->cipher->blockSize);
    printf(" %s.psk=%d", pf, (int) s->sec.tls13UsingPsk);
    snprintf(k, sizeof k, "%s.cr", pf); kv(k, s->sec.clientRandom, 32);
    snprintf(k, sizeof k, "%s.sr", pf); kv(k, s->sec.serverRandom, 32);
    snprintf(k, sizeof k, "%s.ms", pf); kv(k, s->sec.masterSecret, 48);
    if (!ACTV_VER(s, v_tls_1_3_any) && s->cipher && s->sec.wMACptr) {
        /* the key block through the pointers the record layer activates from (tls.c genKeyBlock) */
        snprintf(k, sizeof k, "%s.wmac", pf); kv(k, s->sec.wMACptr, s->cipher->macSize);
        snprintf(k, sizeof k, "%s.rmac", pf); kv(k, s->sec.rMACptr, s->cipher->macSize);
        snprintf(k, sizeof k, "%s.wkey", pf); kv(k, s->sec.wKeyptr, s->cipher->keySize);
        snprintf(k, sizeof k, "%s.rkey", pf); kv(k, s->sec.rKeyptr, s->cipher->keySize);
        snprintf(k, sizeof k, "%s.wiv", pf); kv(k, s->sec.wIVptr, s->cipher->ivSize);
        snprintf(k, sizeof k, "%s.riv", pf); kv(k, s->sec.rIVptr, s->cipher->ivSize);
    }
    /* what the record layer is actually using now */
    snprintf(k, sizeof k, "%s.act.wkey", pf); kv(k, s->sec.writeKey, s->cipher ? s->cipher->keySize : 0);
    snprintf(k, sizeof k, "%s.act.rkey", pf); kv(k, s->sec.readKey, s->cipher ? s->cipher->keySize : 0);
    snprintf(k, sizeof k, "%s.act.wiv", pf); kv(k, ACTV_VER(s, v_tls_1_3_any) ? s->sec.tls13WriteIv : s->sec.writeIV, s->cipher ? s->cipher->ivSize : 0);
    snprintf(k, sizeof k, "%s.act.riv", pf); kv(k, ACTV_VER(s, v_tls_1_3_any) ? s->sec.tls13ReadIv : s->sec.readIV, s->cipher ? s->cipher->ivSize : 0);
    snprintf(k, sizeof k, "%s.act.wmac", pf); kv(k, s->sec.writeMAC, s->cipher ? s->cipher->macSize : 0);
    snprintf(k, sizeof k, "%s.act.rmac", pf); kv(k, s->sec.readMAC, s->cipher ? s->cipher->macSize : 0);
    snprintf(k, sizeof k, "%s.seq", pf); kv(k, s->sec.seq, 8);
    snprintf(k, sizeof k, "%s.rseq", pf); kv(k, s->sec.remSeq, 8);
    if (ACTV_VER(s, v_tls_1_3_any)) {
        int hl = (s->cipher && (s->cipher->flags & CRYPTO_FLAGS_SHA3)) ? 48 : 32, kl = s->cipher ? s->cipher->keySize : 0, il = s->cipher ? s->cipher->ivSize : 0;
        snprintf(k, sizeof k, "%s.t13.master", pf); kv(k, s->sec.tls13MasterSecret, hl);
        snprintf(k, sizeof k, "%s.t13.cap", pf); kv(k, s->sec.tls13AppTrafficSecretClient, hl);
        snprintf(k, sizeof k, "%s.t13.sap", pf); kv(k, s->sec.tls13AppTrafficSecretServer, hl);
        snprintf(k, sizeof k, "%s.t13.res", pf); kv(k, s->sec.tls13ResumptionMasterSecret, hl);
        snprintf(k, sizeof k, "%s.t13.hswkey", pf); kv(k, s->sec.tls13HsWriteKey, kl);
        snprintf(k, sizeof k, "%s.t13.hswiv", pf); kv(k, s->sec.tls13HsWriteIv, il);
        snprintf(k, sizeof k, "%s.t13.hsrkey", pf); kv(k, s->sec.tls13HsReadKey, kl);
        snprintf(k, sizeof k, "%s.t13.hsriv", pf); kv(k, s->sec.tls13HsReadIv, il);
        snprintf(k, sizeof k, "%s.t13.apwkey", pf); kv(k, s->sec.tls13AppWriteKey, kl);
        snprintf(k, sizeof k, "%s.t13.apwiv", pf); kv(k, s->sec.tls13AppWriteIv, il);
        snprintf(k, sizeof k, "%s.t13.aprkey", pf); kv(k, s->sec.tls13AppReadKey, kl);
        snprintf(k, sizeof k, "%s.t13.apriv", pf); kv(k, s->sec.tls13AppReadIv, il);
    }
}

static void do_dump(void)
{
    printf("dump:");
    dump_peer(&g_c, "c"); dump_peer(&g_s, "s");
    /* events; identical payloads of consecutive hash updates on sibling contexts are printed once */
    for (int i = 0; i < g_nev; i++) {
        ev_t *e = &g_ev[i]; const char *r; static ev_t *lastu; if (i == 0) lastu = NULL;
        switch (e->kind) {
        case EV_HINIT: r = role_of(-1, e->p); if (r[0] != '-') printf(" ev=I:%s", r); break;
        case EV_HUPD: r = role_of(-1, e->p);
            if (r[0] != '-') {
                printf(" ev=U:%s:", r);
                if (lastu && lastu->l[0] == e->l[0] && e->l[0] > 0 && memcmp(lastu->d[0], e->d[0], e->l[0]) == 0) printf("=");
                else puthex(e->d[0], e->l[0]);
                lastu = e;
            }
            break;
        case EV_PRF: case EV_PRF2:
            printf(" ev=P:%d:%d:%s:", e->side, e->kind == EV_PRF ? 0 : e->b, role_of(e->side, e->p));
            puthex(e->d[0], e->l[0]); printf(":"); puthex(e->d[1], e->l[1]); printf(":"); puthex(e->d[2], e->l[2]); break;
        case EV_EXTRACT:
            printf(" ev=X:%d:%d:%s:", e->side, e->b, role_of(e->side, e->p));
            puthex(e->d[0], e->l[0]); printf(":"); puthex(e->d[1], e->l[1]); printf(":"); puthex(e->d[2], e->l[2]); break;
        case EV_EXPLABEL:
            printf(" ev=L:%d:%d:%s:", e->side, e->b, role_of(e->side, e->p));
            puthex(e->d[0], e->l[0]); printf(":"); puthex(e->d[1], e->l[1]); printf(":"); puthex(e->d[3], e->l[3]); printf(":"); puthex(e->d[2], e->l[2]);
            printf(":%s", role_of(e->side, e->p2)); break;       /* where the input secret lives: the derivation site of unnamed outputs */
        case EV_SIGN: case EV_VERIFY: case EV_VERIFYSIG:
            printf(" ev=%s:%d:%d:%d:", e->kind == EV_SIGN ? "S" : e->kind == EV_VERIFY ? "V" : "W", e->side, e->b, e->a); puthex(e->d[0], e->l[0]); break;
        }
    }
    for (int i = 0; i < g_nw; i++) { printf(" rec=%d:%d:%zu:", g_w[i].dir, g_w[i].inner, g_w[i].len); puthex(g_w[i].b, g_w[i].full ? g_w[i].len : 5); }
}

static int parse_list(const char *s, int *out, int max) { int n = 0; while (*s && n < max) { out[n++] = atoi(s); while (*s && *s != ',') s++; if (*s) s++; } return n; }
static int parse_u16(const char *s, uint16_t *out, int max, int base) { int n = 0; char *e; while (*s && n < max) { out[n++] = (uint16_t) strtol(s, &e, base); s = e; if (*s == ',') s++; else break; } return n; }

static void do_new(char **a, int n)
{
    scfg_t c; memset(&c, 0, sizeof c); c.cca = 1; c.seed = 1;
    g_ncgrp = g_nsgrp = g_ncsig = g_nssig = 0; g_shares = 1; g_pad = 0; g_cec = 0; g_spsk = 1; g_psklen = 0; g_rotate = 0; g_pskke = 0;
    for (int i = 0; i < n; i++) {
        char *eq = strchr(a[i], '='); if (!eq) continue; *eq = 0; char *v = eq + 1;
        if (!strcmp(a[i], "cv")) c.ncver = parse_list(v, c.cver, 4);
        else if (!strcmp(a[i], "sv")) c.nsver = parse_list(v, c.sver, 4);
        else if (!strcmp(a[i], "suite")) { while (*v && c.nsuites < 8) { c.suites[c.nsuites++] = (psCipher16_t) strtol(v, &v, 16); if (*v == ',') v++; } }
        else if (!strcmp(a[i], "cauth")) c.cauth = atoi(v);
        else if (!strcmp(a[i], "ccb")) c.ccb = atoi(v);
        else if (!strcmp(a[i], "scb")) c.scb = atoi(v);
        else if (!strcmp(a[i], "key")) c.key = !strcmp(v, "ec");
        else if (!strcmp(a[i], "resume")) c.resume = atoi(v);
        else if (!strcmp(a[i], "ticket")) c.ticket = atoi(v);
        else if (!strcmp(a[i], "ems")) c.ems = atoi(v);
        else if (!strcmp(a[i], "cca")) c.cca = atoi(v);
        else if (!strcmp(a[i], "name")) c.name = v;
        else if (!strcmp(a[i], "year")) c.year = atoi(v);
        else if (!strcmp(a[i], "seed")) c.seed = strtoull(v, NULL, 10);
        else if (!strcmp(a[i], "keepkeys")) c.keep_skeys = atoi(v);
        else if (!strcmp(a[i], "grp")) g_ncgrp = parse_u16(v, g_cgrp, 8, 10);
        else if (!strcmp(a[i], "sgrp")) g_nsgrp = parse_u16(v, g_sgrp, 8, 10);
        else if (!strcmp(a[i], "shares")) g_shares = atoi(v);
        else if (!strcmp(a[i], "sig")) g_ncsig = parse_u16(v, g_csig, 16, 16);
        else if (!strcmp(a[i], "ssig")) g_nssig = parse_u16(v, g_ssig, 16, 16);
        else if (!strcmp(a[i], "pad")) g_pad = atoi(v);
        else if (!strcmp(a[i], "psk")) c.psk = atoi(v);
        else if (!strcmp(a[i], "smaxed")) c.smaxed = atoi(v);
        else if (!strcmp(a[i], "spsk")) g_spsk = atoi(v);
        else if (!strcmp(a[i], "psklen")) g_psklen = atoi(v);
        else if (!strcmp(a[i], "rotate")) g_rotate = atoi(v);
        else if (!strcmp(a[i], "pskke")) g_pskke = atoi(v);
        else if (!strcmp(a[i], "ec")) g_cec = atoi(v) == 256 ? SSL_OPT_SECP256R1 : atoi(v) == 384 ? SSL_OPT_SECP384R1 : atoi(v) == 521 ? SSL_OPT_SECP521R1 : 0;
    }
    g_logging = 0;                 /* deleting the previous pair is not part of the new scenario */
    ev_reset(); wire_reset(); g_hdronly = 0;
    peer_free(&g_c); peer_free(&g_s);
    g_logging = 1;
    int rc = sess_new(&c);
    if (rc == 0) { g_quiet = 1; flush_out(&g_c); g_quiet = 0; }
    printf("new:%d", rc);
}

static peer_t *side(const char *s) { return s[0] == 's' ? &g_s : &g_c; }

/* feed() of sess.h prints received application data through P(); with g_quiet it is silent.  For the payload
   round trip the receiver's plaintext is needed: a private receive loop over the queue */
static void app_roundtrip(peer_t *from, size_t len, int b0)
{
    peer_t *to = from->is_server ? &g_c : &g_s; queue_t *q = from->is_server ? &g_s2c : &g_c2s; int dir = from->is_server;
    unsigned char *d = malloc(len + 1); for (size_t i = 0; i < len; i++) d[i] = (unsigned char) (b0 + i);
    int32 rc = from->ssl ? matrixSslEncodeToOutdata(from->ssl, d, (uint32) len) : -999;
    printf("app:%c len=%zu rc=%d", from->is_server ? 's' : 'c', len, rc < 0 ? rc : 0);
    g_quiet = 1; flush_out(from); g_quiet = 0;
    unsigned char *got = malloc(len + 65536); size_t gl = 0; int bad = 0; size_t l; printf(" recs=");
    while ((l = q_reclen(q)) != 0) {
        if (g_nw < MAXW) { wrec_t *w = &g_w[g_nw++]; w->dir = dir; w->full = !g_hdronly; w->len = l; w->b = dupb(q->b, g_hdronly ? 5 : l); w->inner = (q->mh != q->mt) ? q->m[q->mh % MQ].inner : -1; }
        printf("%d:%zu,", q->b[0], l - 5);
        unsigned char *tmp = dupb(q->b, l); q_pop(q, l); q_meta_pop(q);
        size_t off = 0;
        while (off < l) {
            unsigned char *rb; int32 room = matrixSslGetReadbuf(to->ssl, &rb); if (room <= 0) { bad = 1; break; }
            size_t n = l - off; if (n > (size_t) room) n = (size_t) room; memcpy(rb, tmp + off, n); off += n;
            unsigned char *pt; uint32 ptlen; int32 r = matrixSslReceivedData(to->ssl, (uint32) n, &pt, &ptlen);
            while (r == MATRIXSSL_APP_DATA) { if (gl + ptlen <= len + 65536) { memcpy(got + gl, pt, ptlen); gl += ptlen; } r = matrixSslProcessedData(to->ssl, &pt, &ptlen); }
            if (r < 0) { bad = r; break; }
        }
        free(tmp); g_quiet = 1; flush_out(to); g_quiet = 0;
        if (bad) break;
    }
    printf(" got=%zu ok=%d bad=%d", gl, (gl == len && memcmp(got, d, len) == 0) ? 1 : 0, bad);
    free(got); free(d);
}

/* inj <c|s> <hex>: records made by someone else (the extracted RFC spec acting as the peer) are fed to a side;
   prints what its application received */
static void do_inject(peer_t *to, const char *hex)
{
    unsigned char *d; size_t l = unhex(hex, &d), off = 0; int32 last = 0; int alerts = 0;
    unsigned char *got = malloc(l + 16); size_t gl = 0;
    while (to->ssl && off < l) {
        unsigned char *rb; int32 room = matrixSslGetReadbuf(to->ssl, &rb); if (room <= 0) { last = -9999; break; }
        size_t n = l - off; if (n > (size_t) room) n = (size_t) room; memcpy(rb, d + off, n); off += n;
        unsigned char *pt; uint32 ptlen; int32 r = matrixSslReceivedData(to->ssl, (uint32) n, &pt, &ptlen);
        for (;;) {
            if (r == MATRIXSSL_APP_DATA) { if (gl + ptlen <= l) { memcpy(got + gl, pt, ptlen); gl += ptlen; } r = matrixSslProcessedData(to->ssl, &pt, &ptlen); continue; }
            if (r == MATRIXSSL_RECEIVED_ALERT) { alerts++; r = matrixSslProcessedData(to->ssl, &pt, &ptlen); continue; }
            break;
        }
        last = r; if (r < 0) break;
    }
    printf("inj:%c rc=%d alerts=%d err=%d got=", to->is_server ? 's' : 'c', last < 0 ? last : 0, alerts, to->ssl ? (int) to->ssl->err : -1); puthex(got, gl);
    g_quiet = 1; flush_out(to); g_quiet = 0;
    free(got); free(d);
}

/* ks13 <suite hex> <role c|s> <psk hex> <mode ke> <th_sh> <th_sfin> <th_cfin>: the key schedule entry points called directly on an
   ssl_t in the state after a ServerHello that selected the PSK without key_share (psk_ke): every stage's output */
static void do_ks13(char **a, int n)
{
    if (n < 8) { printf("ks13:args"); return; }
    uint16_t suite = (uint16_t) strtol(a[1], NULL, 16); int server = a[2][0] == 's';
    unsigned char *psk, *t1, *t2, *t3; size_t pl = unhex(a[3], &psk), l1 = unhex(a[5], &t1), l2 = unhex(a[6], &t2), l3 = unhex(a[7], &t3);
    static const unsigned char id[] = "verif-direct-psk";
    ssl_t *ssl = calloc(1, sizeof(*ssl)); int32_t rc; int lg = g_cur;
    ssl->cipher = sslGetDefinedCipherSpec(suite);
    if (!ssl->cipher || ssl->cipher->ident != suite) { printf("ks13:nosuite"); free(ssl); return; }
    int hl = (ssl->cipher->flags & CRYPTO_FLAGS_SHA3) ? 48 : 32;
    if (server) ssl->flags |= SSL_FLAGS_SERVER;
    psTls13SessionParams_t pp; memset(&pp, 0, sizeof pp); pp.cipherId = suite;       /* the PSK is bound to this suite's hash whatever its length */
    ssl->sec.tls13ChosenPsk = tls13NewPsk(psk, (psSize_t) pl, id, sizeof(id) - 1, PS_FALSE, &pp);
    ssl->sec.tls13UsingPsk = PS_TRUE; ssl->sec.tls13ChosenPskMode = psk_keyex_mode_psk_ke;
    memcpy(ssl->sec.tls13TrHashSnapshotCHtoSH, t1, l1 < 48 ? l1 : 48);
    g_logging = 0;
    printf("ks13:");
    rc = tls13DeriveHandshakeTrafficSecrets(ssl); printf(" rc1=%d", rc);
    kv("hs", ssl->sec.tls13HandshakeSecret, hl); kv("c_hs", ssl->sec.tls13HsTrafficSecretClient, hl); kv("s_hs", ssl->sec.tls13HsTrafficSecretServer, hl);
    rc = tls13DeriveHandshakeKeys(ssl); printf(" rc2=%d", rc);
    kv(server ? "c_hs_key" : "s_hs_key", ssl->sec.tls13HsReadKey, ssl->cipher->keySize); kv(server ? "c_hs_iv" : "s_hs_iv", ssl->sec.tls13HsReadIv, ssl->cipher->ivSize);
    kv(server ? "s_hs_key" : "c_hs_key", ssl->sec.tls13HsWriteKey, ssl->cipher->keySize); kv(server ? "s_hs_iv" : "c_hs_iv", ssl->sec.tls13HsWriteIv, ssl->cipher->ivSize);
    memcpy(ssl->sec.tls13TrHashSnapshot, t2, l2 < 48 ? l2 : 48);
    rc = tls13DeriveAppTrafficSecrets(ssl); printf(" rc3=%d", rc);
    kv("master", ssl->sec.tls13MasterSecret, hl); kv("c_ap", ssl->sec.tls13AppTrafficSecretClient, hl); kv("s_ap", ssl->sec.tls13AppTrafficSecretServer, hl);
    rc = tls13DeriveAppKeys(ssl); printf(" rc4=%d", rc);
    kv(server ? "c_ap_key" : "s_ap_key", ssl->sec.tls13AppReadKey, ssl->cipher->keySize); kv(server ? "c_ap_iv" : "s_ap_iv", ssl->sec.tls13AppReadIv, ssl->cipher->ivSize);
    kv(server ? "s_ap_key" : "c_ap_key", ssl->sec.tls13AppWriteKey, ssl->cipher->keySize); kv(server ? "s_ap_iv" : "c_ap_iv", ssl->sec.tls13AppWriteIv, ssl->cipher->ivSize);
    memcpy(ssl->sec.tls13TrHashSnapshot, t3, l3 < 48 ? l3 : 48);
    rc = tls13DeriveResumptionMasterSecret(ssl); printf(" rc5=%d", rc);
    kv("res", ssl->sec.tls13ResumptionMasterSecret, hl);
    g_logging = 1; g_cur = lg;
    tls13FreePsk(ssl->sec.tls13ChosenPsk, NULL); free(ssl); free(psk); free(t1); free(t2); free(t3);
}

static void run_cmd(char **a, int n)
{
    if (n == 0) return;
    if (!strcmp(a[0], "inj") && n >= 3) { do_inject(side(a[1]), a[2]); return; }
    if (!strcmp(a[0], "ks13")) { do_ks13(a, n); return; }
    if (!strcmp(a[0], "new")) do_new(a + 1, n - 1);
    else if (!strcmp(a[0], "hs")) { int k = pump_logged(); printf("hs:%d c=%d s=%d", k, g_c.ssl ? matrixSslHandshakeIsComplete(g_c.ssl) : -1, g_s.ssl ? matrixSslHandshakeIsComplete(g_s.ssl) : -1); }
    else if (!strcmp(a[0], "app") && n >= 4) app_roundtrip(side(a[1]), (size_t) atol(a[2]), atoi(a[3]));
    else if (!strcmp(a[0], "quiet") && n >= 2) { g_hdronly = atoi(a[1]); g_logging = !g_hdronly; printf("quiet:%d", g_hdronly); }
    else if (!strcmp(a[0], "tick") && n >= 2) { g_vtime += atol(a[1]); printf("tick:%ld", g_vtime); }
    else if (!strcmp(a[0], "dump")) do_dump();
    else printf("?%s", a[0]);
}

int main(void)
{
    if (matrixSslOpen() < 0) { printf("INITFAIL\n"); return 2; }
    while (next_case()) {
        int i = 0;
        while (i < g_ntok) {
            int j = i; while (j < g_ntok && strcmp(g_tok[j], ";") != 0) j++;
            run_cmd(g_tok + i, j - i);
            if (j < g_ntok) printf(" | ");
            i = j + 1;
        }
        printf("\n"); fflush(stdout);
    }
    return 0;
}
