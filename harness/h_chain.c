/* C03 harness: certificate *graphs* for the real chain validator.
   Every node of a case is a freshly parsed real certificate (so sigHash / signature / keys are
   genuine) whose validator-visible fields are then overridden by the case:

     cert <idx> <derhex>                     register a base certificate (DER) in the table
     info                                    one line per table entry: what the parser made of it
     vc <rv> <nchain> <nanch> <node>...      matrixValidateCertsExt(chain, anchors, NULL name)
     ac <nchain> <hasissuer> <node>...       psX509AuthenticateCert(chain, issuer|NULL) directly
     tw <idx> <kidx>                         validate [idx] against anchor [kidx] TWICE on the same structs
     pv <idx> <aidx>...                      public matrixValidateCerts on untouched parsed certificates: leaf, anchor list
     ps <yyyymmdd> <derhex> <desc...>        psX509ParseCert on (mutated) DER with the calendar at that day, 12:00
     crl <idx> <derhex>                      register a CRL (DER) in the CRL table (psX509ParseCRL)
     vk <rv> <nchain> <nanch> <ncrl> <node>... <crl>...     vc with a CRL cache loaded first
     ak <nchain> <hasissuer> <ncrl> <node>... <crl>...      ac with a CRL cache loaded first
     rv <yyyymmdd> <nchain> <nanch> <ncrl> <certhex>... <anchorhex>... <crlhex>:<by>:<mode>...
                                             DER level, nothing overridden: parse everything, for every CRL
                                             psX509ParseCRL, psX509AuthenticateCRL(by = a<i> | c<i> | -), psCRL_Update (mode u) or
                                             psCRL_Insert (mode i); then the public matrixValidateCerts(chain, anchors)

   crl = ci:iss:au:ap:ex:nu:co:ss:up:sf:ta:serials          (sf.. : ground truth for the model side, ignored here)
     ci   CRL table index (parsed afresh: the revoked list is what psX509ParseCRL makes of the DER)
     iss  issuer DN hash id;  au  authenticated flag at entry;  ap  node index handed to psX509AuthenticateCRL before insertion (-1 none)
     ex   expired flag at entry;  nu  nextUpdate variant (0 own, 1 past, 2 unparsable, 3 absent);  co=1 flips a signature byte
     ss   CRL table index whose signature the CRL carries (-1 own);  up  0 psCRL_Insert, 1 psCRL_Update

   node = b:k:hs:ss:co:alg:subj:iss:ver:ca:pl:ku:eku:crit:akl:akv:skl:skv:fl0:st0:nb:na:rev:sf:kf:ta:p3:dn[:serial]
     (sf..dn: ground truth for the model side, ignored here;  rev: unused;  serial: serialNumber octets in hex, absent or "-" = own)
     b    table index of the certificate that is parsed (body)
     k    table index whose public key the node carries (-1 = own)
     hs   table index whose sigHash the node carries (-1 = own)
     ss   table index whose signature bytes the node carries (-1 = own);  co=1 flips one byte of it
     alg  sigAlgorithm (-1 = own)
     subj/iss  DN hash ids;  ver version;  ca bc.cA;  pl pathLenConstraint;  ku keyUsageFlags;  eku ekuFlags
     crit 1 = extKeyUsage marked critical;  akl/akv skl/skv  authority / subject key id (length, fill value)
     fl0/st0  authFailFlags / authStatus at entry;  nb/na  notBefore / notAfter variant;  rev  CRL verdict

   result:  rc=<rc> found=<-|c<i>|a<i>> st=<authStatus,...> fl=<authFailFlags,...> (chain certificates)
            rl=<results of psCRL_determineRevokedStatus, in call order> ka=<authenticated,expired of every CRL afterwards> au=<psX509AuthenticateCRL results> */
#define WRAP_TIME
#include "matrixssl/matrixsslImpl.h"
#include "hcommon.h"

#define MAXT 64
#define MAXN 16
static struct base {
    unsigned char *der; size_t derLen; int ok;
    unsigned char sigHash[MAX_HASH_SIZE]; psSize_t sigHashLen;
    unsigned char *sig; psSize_t sigLen; int32 alg;
} T[MAXT];
static int nT;

/* ---- the library's unconditional trace messages go to stdout: silence them (link-time wrappers) */
void __wrap__psTrace(const char *m) { (void) m; }
void __wrap__psTraceInt(const char *m, int32 v) { (void) m; (void) v; }
void __wrap__psTraceStr(const char *m, const char *v) { (void) m; (void) v; }
void __wrap__psTracePtr(const char *m, const void *v) { (void) m; (void) v; }

/* ---- every consultation of the CRL cache is logged (link-time wrapper around the real function) */
static int32 g_rl[64]; static int g_nrl;
int32_t __real_psCRL_determineRevokedStatus(psX509Cert_t *cert);
int32_t __wrap_psCRL_determineRevokedStatus(psX509Cert_t *cert)
{
    int32_t r = __real_psCRL_determineRevokedStatus(cert);
    if (g_nrl < 64) g_rl[g_nrl++] = r;
    return r;
}

#define MAXC 96
static struct { unsigned char *der; size_t derLen; int ok; unsigned char *sig; psSize_t sigLen; } CR[MAXC];
static int nCR;
static psX509Crl_t *parse_crl_idx(int i)
{
    psX509Crl_t *c = NULL;
    if (i < 0 || i >= nCR || !CR[i].der) return NULL;
    if (psX509ParseCRL(NULL, &c, CR[i].der, (int32) CR[i].derLen) < 0) return NULL;
    return c;
}

static psX509Cert_t *parse_idx(int i)
{
    psX509Cert_t *c = NULL;
    if (i < 0 || i >= nT || !T[i].der) return NULL;
    if (psX509ParseCert(NULL, T[i].der, (uint32) T[i].derLen, &c, 0) < 0) { if (c) psX509FreeCert(c); return NULL; }
    return c;
}

typedef struct {
    psX509Cert_t *c;        /* the node */
    psX509Cert_t *donor;    /* key donor (kept alive; its key is shallow-copied into c) */
    psPubKey_t savedKey;    /* c's own key, restored before free */
    int swapped;
} node_t;

static char *dupstr(const char *s) { size_t l = strlen(s); char *p = psMalloc(NULL, l + 1); memcpy(p, s, l + 1); return p; }

static int build_node(node_t *n, char *tok)
{
    long f[28]; int nf = 0; char *save = NULL, *serial = NULL;
    for (char *e = strtok_r(tok, ":", &save); e && nf < 29; e = strtok_r(NULL, ":", &save)) { if (nf < 28) f[nf] = atol(e); else serial = e; nf++; }
    if (nf != 28 && nf != 29) return -1;      /* fields 23..27 are the generator's ground truth, used by the model side only */
    memset(n, 0, sizeof(*n));
    psX509Cert_t *c = parse_idx((int) f[0]);
    if (!c) return -1;
    n->c = c;
    if (f[1] >= 0) {
        n->donor = parse_idx((int) f[1]);
        if (!n->donor) return -1;
        n->savedKey = c->publicKey; c->publicKey = n->donor->publicKey; n->swapped = 1;
    }
    if (f[2] >= 0) {
        if (f[2] >= nT || !T[f[2]].ok) return -1;
        memset(c->sigHash, 0, sizeof(c->sigHash));
        memcpy(c->sigHash, T[f[2]].sigHash, T[f[2]].sigHashLen); c->sigHashLen = T[f[2]].sigHashLen;
    }
    if (f[3] >= 0) {
        if (f[3] >= nT || !T[f[3]].ok) return -1;
        psFree(c->signature, NULL);
        c->signature = psMalloc(NULL, T[f[3]].sigLen + 1);
        memcpy(c->signature, T[f[3]].sig, T[f[3]].sigLen); c->signatureLen = T[f[3]].sigLen;
    }
    if (f[4] == 1) c->signature[c->signatureLen / 2] ^= 0x01;
    if (f[5] >= 0) c->sigAlgorithm = (int32) f[5];
    memset(c->subject.hash, 0, sizeof(c->subject.hash)); memset(c->subject.hash, (int) (f[6] & 0xff), SHA1_HASH_SIZE);
    c->subject.hash[0] = (char) ((f[6] >> 8) & 0xff);
    memset(c->issuer.hash, 0, sizeof(c->issuer.hash)); memset(c->issuer.hash, (int) (f[7] & 0xff), SHA1_HASH_SIZE);
    c->issuer.hash[0] = (char) ((f[7] >> 8) & 0xff);
    c->version = (int32) f[8];
    c->extensions.bc.cA = (x509bcCAValue_t) f[9];
    c->extensions.bc.pathLenConstraint = (int32) f[10];
    c->extensions.keyUsageFlags = (uint32) f[11];
    c->extensions.ekuFlags = (uint32) f[12];
    c->extensions.critFlags = f[13] ? EXT_CRIT_FLAG(OID_ENUM(id_ce_extKeyUsage)) : 0;
    psFree(c->extensions.ak.keyId, NULL); c->extensions.ak.keyId = NULL; c->extensions.ak.keyLen = (psSize_t) f[14];
    if (f[14] > 0) { c->extensions.ak.keyId = psMalloc(NULL, f[14]); memset(c->extensions.ak.keyId, (int) f[15], f[14]); }
    psFree(c->extensions.sk.id, NULL); c->extensions.sk.id = NULL; c->extensions.sk.len = (psSize_t) f[16];
    if (f[16] > 0) { c->extensions.sk.id = psMalloc(NULL, f[16]); memset(c->extensions.sk.id, (int) f[17], f[16]); }
    c->authFailFlags = (uint32) f[18];
    c->authStatus = (int32) f[19];
    static const char *NB[] = { NULL, "010101000000Z", "950101000000Z", "250101000000Z", "xx" };
    static const char *NA[] = { NULL, "190101000000Z", "xx" };
    if (f[20] > 0 && f[20] < 5) { psFree(c->notBefore, NULL); c->notBefore = dupstr(NB[f[20]]); c->notBeforeTimeType = ASN_UTCTIME; }
    if (f[21] > 0 && f[21] < 3) { psFree(c->notAfter, NULL); c->notAfter = dupstr(NA[f[21]]); c->notAfterTimeType = ASN_UTCTIME; }
    if (serial && strcmp(serial, "-") != 0) {
        unsigned char *sn; size_t l = unhex(serial[0] == 'e' ? "-" : serial, &sn);      /* "e" = empty */
        psFree(c->serialNumber, NULL); c->serialNumber = NULL; c->serialNumberLen = (psSize_t) l;
        if (l > 0) { c->serialNumber = psMalloc(NULL, l); memcpy(c->serialNumber, sn, l); }
        free(sn);
    }
    return 0;
}

static void free_node(node_t *n)
{
    if (n->c) {
        if (n->swapped) n->c->publicKey = n->savedKey;
        n->c->next = NULL; psX509FreeCert(n->c);
    }
    if (n->donor) psX509FreeCert(n->donor);
    memset(n, 0, sizeof(*n));
}

static void print_result(int32 rc, psX509Cert_t *found, node_t *ch, int nc, node_t *an, int na)
{
    printf("rc=%d found=", (int) rc);
    int done = 0;
    if (!found) { printf("-"); done = 1; }
    for (int i = 0; i < nc && !done; i++) if (found == ch[i].c) { printf("c%d", i); done = 1; }
    for (int i = 0; i < na && !done; i++) if (found == an[i].c) { printf("a%d", i); done = 1; }
    if (!done) printf("?");
    printf(" st=");
    for (int i = 0; i < nc; i++) printf("%s%d", i ? "," : "", (int) ch[i].c->authStatus);
    printf(" fl=");
    for (int i = 0; i < nc; i++) printf("%s%u", i ? "," : "", (unsigned) ch[i].c->authFailFlags);
    printf(" rl=");
    if (!g_nrl) printf("-");
    for (int i = 0; i < g_nrl; i++) printf("%s%d", i ? "," : "", (int) g_rl[i]);
}

/* ---- CRL cache of a case */
typedef struct { psX509Crl_t *c; int32 aurc; int hasau; } kcrl_t;
static int build_crl(kcrl_t *k, char *tok, node_t *ch, int nc, node_t *an, int na)
{
    long f[9]; int nf = 0; char *save = NULL;
    for (char *e = strtok_r(tok, ":", &save); e && nf < 9; e = strtok_r(NULL, ":", &save)) f[nf++] = atol(e);
    if (nf != 9) return -1;
    memset(k, 0, sizeof(*k));
    psX509Crl_t *c = parse_crl_idx((int) f[0]);
    if (!c) return -1;
    k->c = c;
    memset(c->issuer.hash, 0, sizeof(c->issuer.hash)); memset(c->issuer.hash, (int) (f[1] & 0xff), SHA1_HASH_SIZE);
    c->issuer.hash[0] = (char) ((f[1] >> 8) & 0xff);
    c->authenticated = (int32_t) f[2];
    c->expired = (uint16_t) f[4];
    if (f[5] == 1 || f[5] == 2) { psFree(c->nextUpdate, NULL); c->nextUpdate = dupstr(f[5] == 1 ? "190101000000Z" : "xx"); c->nextUpdateType = ASN_UTCTIME; }
    if (f[5] == 3) { psFree(c->nextUpdate, NULL); c->nextUpdate = NULL; }
    if (f[7] >= 0) {
        if (f[7] >= nCR || !CR[f[7]].ok) return -1;
        psFree(c->sig, NULL); c->sig = psMalloc(NULL, CR[f[7]].sigLen + 1);
        memcpy(c->sig, CR[f[7]].sig, CR[f[7]].sigLen); c->sigLen = CR[f[7]].sigLen;
    }
    if (f[6] == 1) c->sig[c->sigLen / 2] ^= 0x01;
    if (f[3] >= 0) {
        psX509Cert_t *ca = f[3] < nc ? ch[f[3]].c : (f[3] < nc + na ? an[f[3] - nc].c : NULL);
        if (!ca) return -1;
        k->aurc = psX509AuthenticateCRL(ca, c, NULL); k->hasau = 1;
    }
    if (f[8]) psCRL_Update(c, 0); else psCRL_Insert(c);
    return 0;
}
static void print_cache(kcrl_t *k, int nk)
{
    printf(" ka=");
    if (!nk) printf("-");
    for (int i = 0; i < nk; i++) printf("%s%d%d", i ? "," : "", k[i].c->authenticated ? 1 : 0, k[i].c->expired ? 1 : 0);
    printf(" au=");
    int any = 0;
    for (int i = 0; i < nk; i++) if (k[i].hasau) { printf("%s%d", any ? "," : "", (int) k[i].aurc); any = 1; }
    if (!any) printf("-");
    printf("\n");
}

int main(void)
{
    if (psCryptoOpen(PSCRYPTO_CONFIG) < 0) { printf("INITFAIL\n"); return 2; }
    while (next_case()) {
        if (g_ntok == 3 && strcmp(g_tok[0], "cert") == 0) {
            int i = atoi(g_tok[1]);
            if (i < 0 || i >= MAXT) { printf("BADCASE\n"); fflush(stdout); continue; }
            if (i >= nT) nT = i + 1;
            T[i].derLen = unhex(g_tok[2], &T[i].der);
            psX509Cert_t *c = parse_idx(i);
            T[i].ok = 0;
            if (c) {
                T[i].ok = 1;
                memcpy(T[i].sigHash, c->sigHash, sizeof(c->sigHash)); T[i].sigHashLen = c->sigHashLen;
                T[i].sig = malloc(c->signatureLen + 1); memcpy(T[i].sig, c->signature, c->signatureLen); T[i].sigLen = c->signatureLen;
                T[i].alg = c->sigAlgorithm;
                printf("cert %d ok alg=%d hashlen=%d siglen=%d keytype=%d keysize=%d ver=%d ca=%d pl=%d ku=%u eku=%u crit=%u akl=%d skl=%d fl=%u\n", i,
                       (int) c->sigAlgorithm, (int) c->sigHashLen, (int) c->signatureLen, (int) c->publicKey.type, (int) c->publicKey.keysize,
                       (int) c->version, (int) c->extensions.bc.cA, (int) c->extensions.bc.pathLenConstraint,
                       (unsigned) c->extensions.keyUsageFlags, (unsigned) c->extensions.ekuFlags, (unsigned) c->extensions.critFlags,
                       (int) c->extensions.ak.keyLen, (int) c->extensions.sk.len, (unsigned) c->authFailFlags);
                psX509FreeCert(c);
            } else printf("cert %d parsefail\n", i);
        } else if (g_ntok == 3 && strcmp(g_tok[0], "crl") == 0) {
            int i = atoi(g_tok[1]);
            if (i < 0 || i >= MAXC) { printf("BADCASE\n"); fflush(stdout); continue; }
            if (i >= nCR) nCR = i + 1;
            free(CR[i].der); free(CR[i].sig); CR[i].sig = NULL;
            CR[i].derLen = unhex(g_tok[2], &CR[i].der); CR[i].ok = 0;
            psX509Crl_t *c = parse_crl_idx(i);
            if (c) {
                int n = 0; for (x509revoked_t *e = c->revoked; e; e = e->next) n++;
                CR[i].ok = 1; CR[i].sig = malloc(c->sigLen + 1); memcpy(CR[i].sig, c->sig, c->sigLen); CR[i].sigLen = c->sigLen;
                printf("crl %d ok n=%d alg=%d next=%d\n", i, n, (int) c->sigAlg, c->nextUpdate ? 1 : 0);
                psX509FreeCRL(c);
            } else printf("crl %d parsefail\n", i);
        } else if (g_ntok >= 4 && (strcmp(g_tok[0], "vc") == 0 || strcmp(g_tok[0], "ac") == 0 || strcmp(g_tok[0], "vk") == 0 || strcmp(g_tok[0], "ak") == 0)) {
            int isvc = g_tok[0][0] == 'v', hask = g_tok[0][1] == 'k';
            int rv = isvc ? atoi(g_tok[1]) : 0;
            int nc = atoi(g_tok[isvc ? 2 : 1]), na = atoi(g_tok[isvc ? 3 : 2]);
            int nk = hask ? atoi(g_tok[isvc ? 4 : 3]) : 0;
            int base = (isvc ? 4 : 3) + (hask ? 1 : 0);
            node_t ch[MAXN], an[MAXN]; kcrl_t kc[MAXN]; int bad = 0;
            memset(ch, 0, sizeof(ch)); memset(an, 0, sizeof(an)); memset(kc, 0, sizeof(kc));
            g_nrl = 0;
            if (nc < 1 || nc > MAXN || na < 0 || na > MAXN || nk < 0 || nk > MAXN || g_ntok != base + nc + na + nk) { printf("BADCASE\n"); fflush(stdout); continue; }
            for (int i = 0; i < nc && !bad; i++) if (build_node(&ch[i], g_tok[base + i]) < 0) bad = 1;
            for (int i = 0; i < na && !bad; i++) if (build_node(&an[i], g_tok[base + nc + i]) < 0) bad = 1;
            for (int i = 0; i < nk && !bad; i++) if (build_crl(&kc[i], g_tok[base + nc + na + i], ch, nc, an, na) < 0) bad = 1;
            if (bad) { printf("NODEFAIL\n"); }
            else {
                for (int i = 0; i + 1 < nc; i++) ch[i].c->next = ch[i + 1].c;
                for (int i = 0; i + 1 < na; i++) an[i].c->next = an[i + 1].c;
                psX509Cert_t *found = NULL; int32 rc;
                if (isvc) {
                    matrixValidateCertsOptions_t opts; memset(&opts, 0, sizeof(opts));
                    if (rv) opts.flags |= VCERTS_FLAG_REVALIDATE_DATES;
                    rc = matrixValidateCertsExt(NULL, ch[0].c, na ? an[0].c : NULL, NULL, &found, NULL, NULL, &opts);
                } else {
                    rc = psX509AuthenticateCert(NULL, ch[0].c, na ? an[0].c : NULL, &found, NULL, NULL);
                }
                print_result(rc, found, ch, nc, an, na);
                print_cache(kc, nk);
            }
            for (int i = 0; i < nk; i++) if (kc[i].c) psX509FreeCRL(kc[i].c);
            for (int i = 0; i < nc; i++) free_node(&ch[i]);
            for (int i = 0; i < na; i++) free_node(&an[i]);
        } else if (g_ntok == 3 && strcmp(g_tok[0], "tw") == 0) {
            /* the same parsed structures validated twice (no re-parse in between) */
            psX509Cert_t *l = parse_idx(atoi(g_tok[1])), *a = parse_idx(atoi(g_tok[2])), *found = NULL;
            if (!l || !a) { printf("NODEFAIL\n"); }
            else {
                matrixValidateCertsOptions_t opts; memset(&opts, 0, sizeof(opts));
                unsigned char before[8]; memcpy(before, l->signature, 8);
                int32 r1 = matrixValidateCertsExt(NULL, l, a, NULL, &found, NULL, NULL, &opts); int s1 = l->authStatus;
                int changed = memcmp(before, l->signature, 8) != 0;
                int32 r2 = matrixValidateCertsExt(NULL, l, a, NULL, &found, NULL, NULL, &opts); int s2 = l->authStatus;
                printf("first=%d/%d second=%d/%d sigbuf_changed=%d\n", (int) r1, s1, (int) r2, s2, changed);
            }
            if (l) psX509FreeCert(l); if (a) psX509FreeCert(a);
        } else if (g_ntok >= 3 && g_ntok < 3 + MAXN && strcmp(g_tok[0], "pv") == 0) {
            psX509Cert_t *l = parse_idx(atoi(g_tok[1])), *an[MAXN], *found = NULL; int na = g_ntok - 2, bad = (l == NULL);
            for (int i = 0; i < na; i++) { an[i] = parse_idx(atoi(g_tok[2 + i])); if (!an[i]) bad = 1; }
            if (bad) printf("NODEFAIL\n");
            else {
                for (int i = 0; i + 1 < na; i++) an[i]->next = an[i + 1];
                int32 rc = matrixValidateCerts(NULL, l, an[0], NULL, &found, NULL, NULL);
                printf("rc=%d st=%d\n", (int) rc, (int) l->authStatus);
                for (int i = 0; i < na; i++) an[i]->next = NULL;
            }
            if (l) psX509FreeCert(l);
            for (int i = 0; i < na; i++) if (an[i]) psX509FreeCert(an[i]);
        } else if (g_ntok >= 6 && strcmp(g_tok[0], "rv") == 0) {
            int nc = atoi(g_tok[2]), na = atoi(g_tok[3]), nk = atoi(g_tok[4]), bad = 0;
            psX509Cert_t *cc[MAXN], *aa[MAXN], *found = NULL; psX509Crl_t *kk[MAXN]; int32 aurc[MAXN]; int hasau[MAXN];
            memset(cc, 0, sizeof(cc)); memset(aa, 0, sizeof(aa)); memset(kk, 0, sizeof(kk)); memset(hasau, 0, sizeof(hasau));
            if (nc < 1 || nc > MAXN || na < 0 || na > MAXN || nk < 0 || nk > MAXN || g_ntok != 5 + nc + na + nk) { printf("BADCASE\n"); fflush(stdout); continue; }
            int sy = g_pin_year, sm = g_pin_mon, sd = g_pin_day, ymd = atoi(g_tok[1]);
            g_pin_year = ymd / 10000; g_pin_mon = (ymd / 100) % 100; g_pin_day = ymd % 100;
            g_nrl = 0;
            for (int i = 0; i < nc + na && !bad; i++) {
                unsigned char *der; size_t l = unhex(g_tok[5 + i], &der); psX509Cert_t *c = NULL;
                if (psX509ParseCert(NULL, der, (uint32) l, &c, 0) < 0) { if (c) psX509FreeCert(c); c = NULL; bad = 1; }
                if (i < nc) cc[i] = c; else aa[i - nc] = c;
                free(der);
            }
            for (int i = 0; i < nk && !bad; i++) {
                char *save = NULL, *h = strtok_r(g_tok[5 + nc + na + i], ":", &save), *by = strtok_r(NULL, ":", &save), *mode = strtok_r(NULL, ":", &save);
                if (!h || !by || !mode) { bad = 1; break; }
                unsigned char *der; size_t l = unhex(h, &der);
                if (psX509ParseCRL(NULL, &kk[i], der, (int32) l) < 0) { kk[i] = NULL; bad = 2; }
                free(der);
                if (bad) break;
                psX509Cert_t *ca = by[0] == 'a' ? (atoi(by + 1) < na ? aa[atoi(by + 1)] : NULL) : by[0] == 'c' ? (atoi(by + 1) < nc ? cc[atoi(by + 1)] : NULL) : NULL;
                if (ca) { aurc[i] = psX509AuthenticateCRL(ca, kk[i], NULL); hasau[i] = 1; }
                if (mode[0] == 'u') psCRL_Update(kk[i], 0); else psCRL_Insert(kk[i]);
            }
            if (bad) printf(bad == 2 ? "CRLPARSEFAIL\n" : "NODEFAIL\n");
            else {
                for (int i = 0; i + 1 < nc; i++) cc[i]->next = cc[i + 1];
                for (int i = 0; i + 1 < na; i++) aa[i]->next = aa[i + 1];
                int32 rc = matrixValidateCerts(NULL, cc[0], na ? aa[0] : NULL, NULL, &found, NULL, NULL);
                printf("rc=%d st=", (int) rc);
                for (int i = 0; i < nc; i++) printf("%s%d", i ? "," : "", (int) cc[i]->authStatus);
                printf(" rs=");
                for (int i = 0; i < nc; i++) printf("%s%d", i ? "," : "", (int) cc[i]->revokedStatus);
                printf(" au=");
                int any = 0;
                for (int i = 0; i < nk; i++) if (hasau[i]) { printf("%s%d", any ? "," : "", (int) aurc[i]); any = 1; }
                if (!any) printf("-");
                printf("\n");
                for (int i = 0; i + 1 < nc; i++) cc[i]->next = NULL;
                for (int i = 0; i + 1 < na; i++) aa[i]->next = NULL;
            }
            for (int i = 0; i < nk; i++) if (kk[i]) psX509FreeCRL(kk[i]);
            for (int i = 0; i < nc; i++) if (cc[i]) psX509FreeCert(cc[i]);
            for (int i = 0; i < na; i++) if (aa[i]) psX509FreeCert(aa[i]);
            g_pin_year = sy; g_pin_mon = sm; g_pin_day = sd;
        } else if (g_ntok >= 3 && strcmp(g_tok[0], "ps") == 0) {   /* further tokens: abstract description for the model side */
            unsigned char *der; size_t l = unhex(g_tok[2], &der);
            psX509Cert_t *c = NULL;
            int sy = g_pin_year, sm = g_pin_mon, sd = g_pin_day, ymd = atoi(g_tok[1]);
            g_pin_year = ymd / 10000; g_pin_mon = (ymd / 100) % 100; g_pin_day = ymd % 100;
            int32 rc = psX509ParseCert(NULL, der, (uint32) l, &c, 0);
            g_pin_year = sy; g_pin_mon = sm; g_pin_day = sd;
            if (rc < 0) printf("parse=fail\n");
            else printf("parse=ok fl=%u\n", (unsigned) c->authFailFlags);
            if (c) psX509FreeCert(c);
            free(der);
        } else printf("BADCASE\n");
        fflush(stdout);
    }
    return 0;
}
