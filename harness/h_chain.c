/* C03 harness: certificate *graphs* for the real chain validator.
   Every node of a case is a freshly parsed real certificate (so sigHash / signature / keys are
   genuine) whose validator-visible fields are then overridden by the case:

     cert <idx> <derhex>                     register a base certificate (DER) in the table
     info                                    one line per table entry: what the parser made of it
     vc <rv> <nchain> <nanch> <node>...      matrixValidateCertsExt(chain, anchors, NULL name)
     ac <nchain> <hasissuer> <node>...       psX509AuthenticateCert(chain, issuer|NULL) directly
     tw <idx> <kidx>                         validate [idx] against anchor [kidx] TWICE on the same structs
     pv <idx> <aidx>...                      public matrixValidateCerts on untouched parsed certificates: leaf, anchor list
     ps <yyyymmdd> <derhex> <desc...>        psX509ParseCert on (mutated) DER with the calendar at that day, 12:00

   node = b:k:hs:ss:co:alg:subj:iss:ver:ca:pl:ku:eku:crit:akl:akv:skl:skv:fl0:st0:nb:na:rev:sf:kf:ta:p3:dn
     (sf..dn: ground truth for the model side, ignored here)
     b    table index of the certificate that is parsed (body)
     k    table index whose public key the node carries (-1 = own)
     hs   table index whose sigHash the node carries (-1 = own)
     ss   table index whose signature bytes the node carries (-1 = own);  co=1 flips one byte of it
     alg  sigAlgorithm (-1 = own)
     subj/iss  DN hash ids;  ver version;  ca bc.cA;  pl pathLenConstraint;  ku keyUsageFlags;  eku ekuFlags
     crit 1 = extKeyUsage marked critical;  akl/akv skl/skv  authority / subject key id (length, fill value)
     fl0/st0  authFailFlags / authStatus at entry;  nb/na  notBefore / notAfter variant;  rev  CRL verdict

   result:  rc=<rc> found=<-|c<i>|a<i>> st=<authStatus,...> fl=<authFailFlags,...>      (chain certificates) */
#define WRAP_TIME
#include "matrixssl/matrixsslImpl.h"
#include "hcommon.h"

#define MAXT 64
#define MAXN 16
static struct base {
    unsigned char *der; size_t derLen; int ok;
    unsigned char sigHash[MAX_HASH_SIZE]; psSize_t sigHashLen;
    unsigned char *sig; psSize_t sigLen; int32 alg;
} T[MAXT];
static int nT;

/* ---- the library's unconditional trace messages go to stdout: silence them (link-time wrappers) */
void __wrap__psTrace(const char *m) { (void) m; }
void __wrap__psTraceInt(const char *m, int32 v) { (void) m; (void) v; }
void __wrap__psTraceStr(const char *m, const char *v) { (void) m; (void) v; }
void __wrap__psTracePtr(const char *m, const void *v) { (void) m; (void) v; }

/* ---- CRL verdict is an input of the validator: link-time wrapper of the cache lookup */
static struct { psX509Cert_t *c; int32 st; } g_rev[MAXN * 2]; static int g_nrev;
int32_t __wrap_psCRL_determineRevokedStatus(psX509Cert_t *cert)
{
    for (int i = 0; i < g_nrev; i++) if (g_rev[i].c == cert) { cert->revokedStatus = g_rev[i].st; return g_rev[i].st; }
    cert->revokedStatus = CRL_CHECK_NOT_EXPECTED;
    return cert->revokedStatus;
}

static psX509Cert_t *parse_idx(int i)
{
    psX509Cert_t *c = NULL;
    if (i < 0 || i >= nT || !T[i].der) return NULL;
    if (psX509ParseCert(NULL, T[i].der, (uint32) T[i].derLen, &c, 0) < 0) { if (c) psX509FreeCert(c); return NULL; }
    return c;
}

typedef struct {
    psX509Cert_t *c;        /* the node */
    psX509Cert_t *donor;    /* key donor (kept alive; its key is shallow-copied into c) */
    psPubKey_t savedKey;    /* c's own key, restored before free */
    int swapped;
} node_t;

static char *dupstr(const char *s) { size_t l = strlen(s); char *p = psMalloc(NULL, l + 1); memcpy(p, s, l + 1); return p; }

static int build_node(node_t *n, char *tok)
{
    long f[28]; int nf = 0; char *save = NULL;
    for (char *e = strtok_r(tok, ":", &save); e && nf < 28; e = strtok_r(NULL, ":", &save)) f[nf++] = atol(e);
    if (nf != 28) return -1;      /* fields 23..27 are the generator's ground truth, used by the model side only */
    memset(n, 0, sizeof(*n));
    psX509Cert_t *c = parse_idx((int) f[0]);
    if (!c) return -1;
    n->c = c;
    if (f[1] >= 0) {
        n->donor = parse_idx((int) f[1]);
        if (!n->donor) return -1;
        n->savedKey = c->publicKey; c->publicKey = n->donor->publicKey; n->swapped = 1;
    }
    if (f[2] >= 0) {
        if (f[2] >= nT || !T[f[2]].ok) return -1;
        memset(c->sigHash, 0, sizeof(c->sigHash));
        memcpy(c->sigHash, T[f[2]].sigHash, T[f[2]].sigHashLen); c->sigHashLen = T[f[2]].sigHashLen;
    }
    if (f[3] >= 0) {
        if (f[3] >= nT || !T[f[3]].ok) return -1;
        psFree(c->signature, NULL);
        c->signature = psMalloc(NULL, T[f[3]].sigLen + 1);
        memcpy(c->signature, T[f[3]].sig, T[f[3]].sigLen); c->signatureLen = T[f[3]].sigLen;
    }
    if (f[4] == 1) c->signature[c->signatureLen / 2] ^= 0x01;
    if (f[5] >= 0) c->sigAlgorithm = (int32) f[5];
    memset(c->subject.hash, 0, sizeof(c->subject.hash)); memset(c->subject.hash, (int) (f[6] & 0xff), SHA1_HASH_SIZE);
    c->subject.hash[0] = (char) ((f[6] >> 8) & 0xff);
    memset(c->issuer.hash, 0, sizeof(c->issuer.hash)); memset(c->issuer.hash, (int) (f[7] & 0xff), SHA1_HASH_SIZE);
    c->issuer.hash[0] = (char) ((f[7] >> 8) & 0xff);
    c->version = (int32) f[8];
    c->extensions.bc.cA = (x509bcCAValue_t) f[9];
    c->extensions.bc.pathLenConstraint = (int32) f[10];
    c->extensions.keyUsageFlags = (uint32) f[11];
    c->extensions.ekuFlags = (uint32) f[12];
    c->extensions.critFlags = f[13] ? EXT_CRIT_FLAG(OID_ENUM(id_ce_extKeyUsage)) : 0;
    psFree(c->extensions.ak.keyId, NULL); c->extensions.ak.keyId = NULL; c->extensions.ak.keyLen = (psSize_t) f[14];
    if (f[14] > 0) { c->extensions.ak.keyId = psMalloc(NULL, f[14]); memset(c->extensions.ak.keyId, (int) f[15], f[14]); }
    psFree(c->extensions.sk.id, NULL); c->extensions.sk.id = NULL; c->extensions.sk.len = (psSize_t) f[16];
    if (f[16] > 0) { c->extensions.sk.id = psMalloc(NULL, f[16]); memset(c->extensions.sk.id, (int) f[17], f[16]); }
    c->authFailFlags = (uint32) f[18];
    c->authStatus = (int32) f[19];
    static const char *NB[] = { NULL, "010101000000Z", "950101000000Z", "250101000000Z", "xx" };
    static const char *NA[] = { NULL, "190101000000Z", "xx" };
    if (f[20] > 0 && f[20] < 5) { psFree(c->notBefore, NULL); c->notBefore = dupstr(NB[f[20]]); c->notBeforeTimeType = ASN_UTCTIME; }
    if (f[21] > 0 && f[21] < 3) { psFree(c->notAfter, NULL); c->notAfter = dupstr(NA[f[21]]); c->notAfterTimeType = ASN_UTCTIME; }
    if (g_nrev < MAXN * 2) { g_rev[g_nrev].c = c; g_rev[g_nrev].st = (int32) f[22]; g_nrev++; }
    return 0;
}

static void free_node(node_t *n)
{
    if (n->c) {
        if (n->swapped) n->c->publicKey = n->savedKey;
        n->c->next = NULL; psX509FreeCert(n->c);
    }
    if (n->donor) psX509FreeCert(n->donor);
    memset(n, 0, sizeof(*n));
}

static void print_result(int32 rc, psX509Cert_t *found, node_t *ch, int nc, node_t *an, int na)
{
    printf("rc=%d found=", (int) rc);
    int done = 0;
    if (!found) { printf("-"); done = 1; }
    for (int i = 0; i < nc && !done; i++) if (found == ch[i].c) { printf("c%d", i); done = 1; }
    for (int i = 0; i < na && !done; i++) if (found == an[i].c) { printf("a%d", i); done = 1; }
    if (!done) printf("?");
    printf(" st=");
    for (int i = 0; i < nc; i++) printf("%s%d", i ? "," : "", (int) ch[i].c->authStatus);
    printf(" fl=");
    for (int i = 0; i < nc; i++) printf("%s%u", i ? "," : "", (unsigned) ch[i].c->authFailFlags);
    printf("\n");
}

int main(void)
{
    if (psCryptoOpen(PSCRYPTO_CONFIG) < 0) { printf("INITFAIL\n"); return 2; }
    while (next_case()) {
        if (g_ntok == 3 && strcmp(g_tok[0], "cert") == 0) {
            int i = atoi(g_tok[1]);
            if (i < 0 || i >= MAXT) { printf("BADCASE\n"); fflush(stdout); continue; }
            if (i >= nT) nT = i + 1;
            T[i].derLen = unhex(g_tok[2], &T[i].der);
            psX509Cert_t *c = parse_idx(i);
            T[i].ok = 0;
            if (c) {
                T[i].ok = 1;
                memcpy(T[i].sigHash, c->sigHash, sizeof(c->sigHash)); T[i].sigHashLen = c->sigHashLen;
                T[i].sig = malloc(c->signatureLen + 1); memcpy(T[i].sig, c->signature, c->signatureLen); T[i].sigLen = c->signatureLen;
                T[i].alg = c->sigAlgorithm;
                printf("cert %d ok alg=%d hashlen=%d siglen=%d keytype=%d keysize=%d ver=%d ca=%d pl=%d ku=%u eku=%u crit=%u akl=%d skl=%d fl=%u\n", i,
                       (int) c->sigAlgorithm, (int) c->sigHashLen, (int) c->signatureLen, (int) c->publicKey.type, (int) c->publicKey.keysize,
                       (int) c->version, (int) c->extensions.bc.cA, (int) c->extensions.bc.pathLenConstraint,
                       (unsigned) c->extensions.keyUsageFlags, (unsigned) c->extensions.ekuFlags, (unsigned) c->extensions.critFlags,
                       (int) c->extensions.ak.keyLen, (int) c->extensions.sk.len, (unsigned) c->authFailFlags);
                psX509FreeCert(c);
            } else printf("cert %d parsefail\n", i);
        } else if (g_ntok >= 4 && (strcmp(g_tok[0], "vc") == 0 || strcmp(g_tok[0], "ac") == 0)) {
            int isvc = g_tok[0][0] == 'v';
            int rv = isvc ? atoi(g_tok[1]) : 0;
            int nc = atoi(g_tok[isvc ? 2 : 1]), na = atoi(g_tok[isvc ? 3 : 2]);
            int base = isvc ? 4 : 3;
            node_t ch[MAXN], an[MAXN]; int bad = 0;
            memset(ch, 0, sizeof(ch)); memset(an, 0, sizeof(an));
            g_nrev = 0;
            if (nc < 1 || nc > MAXN || na < 0 || na > MAXN || g_ntok != base + nc + na) { printf("BADCASE\n"); fflush(stdout); continue; }
            for (int i = 0; i < nc && !bad; i++) if (build_node(&ch[i], g_tok[base + i]) < 0) bad = 1;
            for (int i = 0; i < na && !bad; i++) if (build_node(&an[i], g_tok[base + nc + i]) < 0) bad = 1;
            if (bad) { printf("NODEFAIL\n"); }
            else {
                for (int i = 0; i + 1 < nc; i++) ch[i].c->next = ch[i + 1].c;
                for (int i = 0; i + 1 < na; i++) an[i].c->next = an[i + 1].c;
                psX509Cert_t *found = NULL; int32 rc;
                if (isvc) {
                    matrixValidateCertsOptions_t opts; memset(&opts, 0, sizeof(opts));
                    if (rv) opts.flags |= VCERTS_FLAG_REVALIDATE_DATES;
                    rc = matrixValidateCertsExt(NULL, ch[0].c, na ? an[0].c : NULL, NULL, &found, NULL, NULL, &opts);
                } else {
                    rc = psX509AuthenticateCert(NULL, ch[0].c, na ? an[0].c : NULL, &found, NULL, NULL);
                }
                print_result(rc, found, ch, nc, an, na);
            }
            for (int i = 0; i < nc; i++) free_node(&ch[i]);
            for (int i = 0; i < na; i++) free_node(&an[i]);
        } else if (g_ntok == 3 && strcmp(g_tok[0], "tw") == 0) {
            /* the same parsed structures validated twice (no re-parse in between) */
            psX509Cert_t *l = parse_idx(atoi(g_tok[1])), *a = parse_idx(atoi(g_tok[2])), *found = NULL;
            g_nrev = 0;
            if (!l || !a) { printf("NODEFAIL\n"); }
            else {
                matrixValidateCertsOptions_t opts; memset(&opts, 0, sizeof(opts));
                unsigned char before[8]; memcpy(before, l->signature, 8);
                int32 r1 = matrixValidateCertsExt(NULL, l, a, NULL, &found, NULL, NULL, &opts); int s1 = l->authStatus;
                int changed = memcmp(before, l->signature, 8) != 0;
                int32 r2 = matrixValidateCertsExt(NULL, l, a, NULL, &found, NULL, NULL, &opts); int s2 = l->authStatus;
                printf("first=%d/%d second=%d/%d sigbuf_changed=%d\n", (int) r1, s1, (int) r2, s2, changed);
            }
            if (l) psX509FreeCert(l); if (a) psX509FreeCert(a);
        } else if (g_ntok >= 3 && g_ntok < 3 + MAXN && strcmp(g_tok[0], "pv") == 0) {
            psX509Cert_t *l = parse_idx(atoi(g_tok[1])), *an[MAXN], *found = NULL; int na = g_ntok - 2, bad = (l == NULL);
            g_nrev = 0;
            for (int i = 0; i < na; i++) { an[i] = parse_idx(atoi(g_tok[2 + i])); if (!an[i]) bad = 1; }
            if (bad) printf("NODEFAIL\n");
            else {
                for (int i = 0; i + 1 < na; i++) an[i]->next = an[i + 1];
                int32 rc = matrixValidateCerts(NULL, l, an[0], NULL, &found, NULL, NULL);
                printf("rc=%d st=%d\n", (int) rc, (int) l->authStatus);
                for (int i = 0; i < na; i++) an[i]->next = NULL;
            }
            if (l) psX509FreeCert(l);
            for (int i = 0; i < na; i++) if (an[i]) psX509FreeCert(an[i]);
        } else if (g_ntok >= 3 && strcmp(g_tok[0], "ps") == 0) {   /* further tokens: abstract description for the model side */
            unsigned char *der; size_t l = unhex(g_tok[2], &der);
            psX509Cert_t *c = NULL;
            int sy = g_pin_year, sm = g_pin_mon, sd = g_pin_day, ymd = atoi(g_tok[1]);
            g_pin_year = ymd / 10000; g_pin_mon = (ymd / 100) % 100; g_pin_day = ymd % 100;
            int32 rc = psX509ParseCert(NULL, der, (uint32) l, &c, 0);
            g_pin_year = sy; g_pin_mon = sm; g_pin_day = sd;
            if (rc < 0) printf("parse=fail\n");
            else printf("parse=ok fl=%u\n", (unsigned) c->authFailFlags);
            if (c) psX509FreeCert(c);
            free(der);
        } else printf("BADCASE\n");
        fflush(stdout);
    }
    return 0;
}
