/* h_rec: C02 correspondence harness - what the receiving record layer does with attacker-edited bytes.
   One case per line; fields separated by " | ":
     cap  <session> |                      establish the session, print both sides' read/write record state and the genuine records
     run  <session> to=<s|c> | <state> | <wire-hex>
                                           (re)establish the session, check that <state> is the receiver's real read state,
                                           then - in a forked child - feed <wire> to the receiver and print what happened
     enc  aescbc <key> <iv> <pt> | enc gcm <key> <nonce> <aad> <pt> | enc chacha <key> <nonce> <aad> <pt>
                                           the library's own primitives under a captured key (to build records a key holder could)
     cc12 | <state> | <typ> <body-hex>     direct call of csChacha20Poly1305IetfDecrypt (the TLS 1.2 suite is not in the default build)
   <session> = cv=.. sv=.. suite=.. seed=.. [pad=c:<n>,s:<n>] msgs=<side>:<hex>,...   (side c|s = who sends; "<side>:@<len>:<b>" = len pattern
               bytes; pad = matrixSslSetTls13BlockPadding(side, n) after the handshake)
   <state>   = <fam> <msz> <key> <mackey> <iv> <seq> <maj> <min> <expl> <maxfrag>
   run result: events (D:<hex> application data delivered, A:<lvl>:<desc> alert received, F:<alert> fatal alert sent, P bytes buffered
   waiting for more, E<rc> API error) then seq=<remSeq> ; dead=<0|1> probe=<refused|accepted|none> */
#include "sess.h"
#include <unistd.h>
#include <sys/wait.h>

static char g_key[1 << 18]; static int g_have = 0;
#define MAXR 64
static unsigned char *g_rec[2][MAXR]; static size_t g_reclen[2][MAXR]; static int g_nrec[2];

static void pat_bytes(unsigned char *b, size_t n, int seed) { for (size_t i = 0; i < n; i++) b[i] = (unsigned char) (seed + 13 * i); }

static const char *fam_of(ssl_t *s) {
    if (ACTV_VER(s, v_tls_1_3_any)) return (s->cipher->flags & CRYPTO_FLAGS_CHACHA) ? "chacha13" : "gcm13";
    if (s->flags & SSL_FLAGS_AEAD_R) return (s->cipher->flags & CRYPTO_FLAGS_CHACHA) ? "chacha12" : "gcm12";
    return "cbc";
}
static unsigned long long seq64(const unsigned char *q) { unsigned long long v = 0; for (int i = 0; i < 8; i++) v = (v << 8) | q[i]; return v; }

/* <fam> <msz> <key> <mackey> <iv> <seq> <maj> <min> <expl> <maxfrag> of one half (rd=1: read half) */
static void print_state(ssl_t *s, int rd) {
    const char *f = fam_of(s); int cbc = !strcmp(f, "cbc"), v13 = ACTV_VER(s, v_tls_1_3_any) ? 1 : 0;
    int msz = cbc ? (rd ? s->deMacSize : s->enMacSize) : 0;
    printf("%s %d ", f, msz);
    puthex(rd ? s->sec.readKey : s->sec.writeKey, s->cipher->keySize); printf(" ");
    puthex(rd ? s->sec.readMAC : s->sec.writeMAC, (size_t) msz); printf(" ");
    if (cbc) puthex(rd ? s->sec.decryptCtx.aes.IV : s->sec.encryptCtx.aes.IV, 16);
    else if (v13) puthex(rd ? s->sec.tls13ReadIv : s->sec.tls13WriteIv, 12);
    else if (!strcmp(f, "gcm12")) puthex(rd ? s->sec.readIV : s->sec.writeIV, 4);
    else puthex(rd ? s->sec.readIV : s->sec.writeIV, 12);
    printf(" %llx %d %d %d %d", seq64(rd ? s->sec.remSeq : s->sec.seq), psEncodeVersionMaj(GET_ACTV_VER(s)), psEncodeVersionMin(GET_ACTV_VER(s)),
           ACTV_VER(s, v_tls_explicit_iv) ? 1 : 0, s->maxPtFrag == 0xFF ? SSL_MAX_PLAINTEXT_LEN : s->maxPtFrag);
}
static void sprint_state(char *out, size_t cap, ssl_t *s, int rd) {
    fflush(stdout); char *buf = NULL; size_t sz = 0; FILE *old = stdout; FILE *m = open_memstream(&buf, &sz);
    stdout = m; print_state(s, rd); fflush(m); stdout = old; fclose(m); snprintf(out, cap, "%s", buf); free(buf);
}

static int establish(int from, int upto) {
    /* tokens g_tok[from..upto) are the session description */
    size_t o = 0; char key[sizeof g_key]; key[0] = 0;
    for (int i = from; i < upto; i++) { o += (size_t) snprintf(key + o, sizeof key - o, "%s ", g_tok[i]); if (o >= sizeof key - 1) return -90; }
    if (g_have && !strcmp(key, g_key)) return 0;
    g_have = 0; strcpy(g_key, key);
    scfg_t c; memset(&c, 0, sizeof c); c.cca = 1; c.seed = 1;
    const char *msgs = NULL; long padc = 0, pads = 0;
    for (int i = from; i < upto; i++) {
        char *t = strdup(g_tok[i]); char *eq = strchr(t, '='); if (!eq) { free(t); continue; } *eq = 0; char *v = eq + 1;
        if (!strcmp(t, "cv")) { c.ncver = 0; for (char *p = v; *p && c.ncver < 4;) { c.cver[c.ncver++] = atoi(p); while (*p && *p != ',') p++; if (*p) p++; } }
        else if (!strcmp(t, "sv")) { c.nsver = 0; for (char *p = v; *p && c.nsver < 4;) { c.sver[c.nsver++] = atoi(p); while (*p && *p != ',') p++; if (*p) p++; } }
        else if (!strcmp(t, "suite")) { char *p = v; while (*p && c.nsuites < 8) { c.suites[c.nsuites++] = (psCipher16_t) strtol(p, &p, 16); if (*p == ',') p++; } }
        else if (!strcmp(t, "seed")) c.seed = strtoull(v, NULL, 10);
        else if (!strcmp(t, "key")) c.key = !strcmp(v, "ec");
        else if (!strcmp(t, "msgs")) msgs = g_tok[i] + 5;
        else if (!strcmp(t, "pad")) { for (char *p = v; *p;) { int sd = *p; long n = p[1] == ':' ? atol(p + 2) : 0; if (sd == 'c') padc = n; else if (sd == 's') pads = n; while (*p && *p != ',') p++; if (*p) p++; } }
        free(t);
    }
    int rc = sess_new(&c); if (rc) return rc;
    g_quiet = 1; pump(1);
    if (!matrixSslHandshakeIsComplete(g_c.ssl) || !matrixSslHandshakeIsComplete(g_s.ssl)) return -91;
    /* pad=c:<n>,s:<n>: RFC 8446 5.4 record padding to a block size, switched on after the handshake (public API) */
    if (padc > 0 && matrixSslSetTls13BlockPadding(g_c.ssl, (psSizeL_t) padc) < 0) return -95;
    if (pads > 0 && matrixSslSetTls13BlockPadding(g_s.ssl, (psSizeL_t) pads) < 0) return -95;
    q_init(&g_c2s); q_init(&g_s2c);
    for (int d = 0; d < 2; d++) { for (int i = 0; i < g_nrec[d]; i++) free(g_rec[d][i]); g_nrec[d] = 0; }
    /* application sends, not delivered */
    for (const char *p = msgs; p && *p;) {
        int side = *p; if (p[1] != ':') return -92; p += 2;
        unsigned char *d; size_t l;
        const char *e = strchr(p, ','); size_t tl = e ? (size_t) (e - p) : strlen(p);
        char *tok = strndup(p, tl);
        if (tok[0] == '@') { l = (size_t) atol(tok + 1); char *c2 = strchr(tok + 1, ':'); d = malloc(l + 1); pat_bytes(d, l, c2 ? (int) strtol(c2 + 1, NULL, 16) : 0); }
        else l = unhex(tok, &d);
        free(tok);
        peer_t *sd = side == 's' ? &g_s : &g_c;
        int32 erc = matrixSslEncodeToOutdata(sd->ssl, d, (uint32) l); free(d);
        if (erc < 0) return -93;
        flush_out(sd);
        p += tl; if (*p == ',') p++;
    }
    for (int d = 0; d < 2; d++) {
        queue_t *q = d ? &g_s2c : &g_c2s; size_t off = 0;
        while (off + 5 <= q->len && g_nrec[d] < MAXR) {
            size_t l = 5 + ((size_t) q->b[off + 3] << 8) + q->b[off + 4]; if (off + l > q->len) break;
            g_rec[d][g_nrec[d]] = malloc(l); memcpy(g_rec[d][g_nrec[d]], q->b + off, l); g_reclen[d][g_nrec[d]] = l; g_nrec[d]++; off += l;
        }
    }
    g_have = 1; g_quiet = 0;
    return 0;
}

/* uninitialised locals of the library become a fixed, hostile pattern instead of whatever the previous call left on the stack */
static void __attribute__((noinline)) poison_stack(void) {
    unsigned char a[48 * 1024]; memset(a, 0xEE, sizeof a); __asm__ volatile("" : : "r"(a) : "memory");
}

/* feed bytes to a peer and print canonical events */
static void feed_events(peer_t *p, const unsigned char *d, size_t l) {
    size_t off = 0; int guard = 0, stop = 0;
    while (off < l && !stop && guard++ < 100000) {
        unsigned char *rb; int32 room = matrixSslGetReadbuf(p->ssl, &rb);
        if (room <= 0) { printf("Erb%d ", room); return; }
        size_t n = l - off; if (n > (size_t) room) n = (size_t) room;
        memcpy(rb, d + off, n); off += n;
        unsigned char *pt; uint32 ptlen;
        poison_stack();
        int32 rc = matrixSslReceivedData(p->ssl, (uint32) n, &pt, &ptlen);
        for (;;) {
            if (rc == MATRIXSSL_APP_DATA || rc == MATRIXSSL_APP_DATA_COMPRESSED) { printf("D:"); puthex(pt, ptlen); printf(" "); poison_stack(); rc = matrixSslProcessedData(p->ssl, &pt, &ptlen); continue; }
            if (rc == MATRIXSSL_RECEIVED_ALERT) { printf("A:%d:%d ", ptlen >= 1 ? pt[0] : -1, ptlen >= 2 ? pt[1] : -1); rc = matrixSslProcessedData(p->ssl, &pt, &ptlen); continue; }
            if (rc == MATRIXSSL_REQUEST_SEND) {
                if (p->ssl->err != SSL_ALERT_NONE) printf("F:%d ", (int) p->ssl->err); else printf("SEND ");
                unsigned char *ob; int32 on;
                while ((on = matrixSslGetOutdata(p->ssl, &ob)) > 0) { int32 src = matrixSslSentData(p->ssl, (uint32) on); if (src == MATRIXSSL_REQUEST_CLOSE || src < 0) { stop = 1; break; } }
                break;
            }
            if (rc == MATRIXSSL_REQUEST_RECV || rc == MATRIXSSL_SUCCESS || rc == MATRIXSSL_HANDSHAKE_COMPLETE) break;
            if (rc == MATRIXSSL_REQUEST_CLOSE) { stop = 1; break; }
            printf("E%d ", rc); return;
        }
    }
}

static int find_bar(int from) { for (int i = from; i < g_ntok; i++) if (!strcmp(g_tok[i], "|")) return i; return g_ntok; }

static void do_cap(void) {
    int b = find_bar(1); int rc = establish(1, b);
    if (rc) { printf("cap fail %d", rc); return; }
    printf("cap ok | rs="); print_state(g_s.ssl, 1); printf(" | rc="); print_state(g_c.ssl, 1);
    printf(" | ws="); print_state(g_s.ssl, 0); printf(" | wc="); print_state(g_c.ssl, 0);
    for (int d = 0; d < 2; d++) { printf(" | %s=", d ? "s2c" : "c2s"); if (!g_nrec[d]) printf("-"); for (int i = 0; i < g_nrec[d]; i++) { if (i) printf(","); puthex(g_rec[d][i], g_reclen[d][i]); } }
}

static int do_run(void) {
    int b1 = find_bar(1), b2 = find_bar(b1 + 1);
    if (b1 < 3 || b2 >= g_ntok - 1) { printf("BADCASE"); return 0; }
    int to_server = !strcmp(g_tok[b1 - 1], "to=s");
    int rc = establish(1, b1 - 1);
    if (rc) { printf("SETUP-FAIL %d", rc); return 0; }
    peer_t *rcv = to_server ? &g_s : &g_c, *snd = to_server ? &g_c : &g_s;
    char have[4096], want[4096]; size_t o = 0; want[0] = 0;
    sprint_state(have, sizeof have, rcv->ssl, 1);
    for (int i = b1 + 1; i < b2; i++) o += (size_t) snprintf(want + o, sizeof want - o, "%s%s", i > b1 + 1 ? " " : "", g_tok[i]);
    if (strcmp(have, want)) { printf("STATE-MISMATCH have=%s", have); return 0; }
    unsigned char *w; size_t wl = unhex(g_tok[b2 + 1], &w);
    fflush(stdout);
    pid_t pid = fork();
    if (pid == 0) {
        feed_events(rcv, w, wl);
        int dead = (rcv->ssl->flags & (SSL_FLAGS_ERROR | SSL_FLAGS_CLOSED)) ? 1 : 0;
        if (!dead && rcv->ssl->inlen > 0) printf("P ");
        printf("seq=%llx ; dead=%d ", seq64(rcv->ssl->sec.remSeq), dead);
        /* probe: one more genuine record from the peer must not be accepted by a dead session */
        if (dead) {
            static const unsigned char zz[2] = { 0x7a, 0x7a }; g_quiet = 1; q_init(&g_c2s); q_init(&g_s2c);
            int32 erc = matrixSslEncodeToOutdata(snd->ssl, (unsigned char *) zz, 2);
            if (erc < 0) printf("probe=none");
            else {
                flush_out(snd); queue_t *q = to_server ? &g_c2s : &g_s2c;
                unsigned char *rb; int32 room = matrixSslGetReadbuf(rcv->ssl, &rb);
                if (room <= 0 || (size_t) room < q->len) printf("probe=refused");
                else { memcpy(rb, q->b, q->len); unsigned char *pt; uint32 ptl; int32 r2 = matrixSslReceivedData(rcv->ssl, (uint32) q->len, &pt, &ptl);
                       printf(r2 == MATRIXSSL_APP_DATA ? "probe=accepted" : "probe=refused"); }
            }
        } else printf("probe=none");
        printf("\n"); fflush(stdout); _exit(0);
    }
    int st = 0; waitpid(pid, &st, 0); free(w);
    if (WIFSIGNALED(st)) { printf("CRASH:%d\n", WTERMSIG(st)); fflush(stdout); }
    else if (!WIFEXITED(st) || WEXITSTATUS(st) != 0) { printf("CHILD-FAIL\n"); fflush(stdout); }
    return 1;
}

static void do_enc(void) {
    if (g_ntok < 5) { printf("BADCASE"); return; }
    unsigned char *key, *iv, *a = NULL, *pt; size_t kl = unhex(g_tok[2], &key), il = unhex(g_tok[3], &iv), al = 0, pl;
    if (!strcmp(g_tok[1], "aescbc") && g_ntok >= 5) {
        pl = unhex(g_tok[4], &pt); psAesCbc_t ctx; unsigned char *ct = malloc(pl + 16);
        if (il != 16 || pl % 16 || psAesInitCBC(&ctx, iv, key, (uint8_t) kl, PS_AES_ENCRYPT) < 0) printf("ENCFAIL");
        else { psAesEncryptCBC(&ctx, pt, ct, (uint32) pl); puthex(ct, pl); psAesClearCBC(&ctx); }
        free(ct); free(pt);
    } else if (!strcmp(g_tok[1], "gcm") && g_ntok >= 6) {
        al = unhex(g_tok[4], &a); pl = unhex(g_tok[5], &pt); psAesGcm_t ctx; unsigned char *ct = malloc(pl + 16); memset(&ctx, 0, sizeof ctx);
        if (il != 12 || psAesInitGCM(&ctx, key, (uint8_t) kl) < 0) printf("ENCFAIL");
        else { psAesReadyGCM(&ctx, iv, a, (uint32) al); psAesEncryptGCM(&ctx, pt, ct, (uint32) pl); psAesGetGCMTag(&ctx, 16, ct + pl); puthex(ct, pl + 16); psAesClearGCM(&ctx); }
        free(ct); free(pt); free(a);
    } else if (!strcmp(g_tok[1], "chacha") && g_ntok >= 6) {
        al = unhex(g_tok[4], &a); pl = unhex(g_tok[5], &pt); psChacha20Poly1305Ietf_t ctx; unsigned char *ct = malloc(pl + 16);
        if (il != 12 || kl != 32 || psChacha20Poly1305IetfInit(&ctx, key) < 0) printf("ENCFAIL");
        else { psChacha20Poly1305IetfEncrypt(&ctx, pt, (uint32) pl, iv, a, (uint32) al, ct); puthex(ct, pl + 16); }
        free(ct); free(pt); free(a);
    } else printf("BADCASE");
    free(key); free(iv);
}

/* TLS 1.2 ChaCha20-Poly1305 record decryption, called directly on a session object whose read half is overwritten
   with the state of the case line: csChacha20Poly1305IetfDecrypt + the surrounding arithmetic of sslDecode.c 934-959, 1260-1282 */
static void do_cc12(void) {
    int b1 = find_bar(0), b2 = find_bar(b1 + 1);
    if (b2 - b1 != 11 || b2 + 2 >= g_ntok) { printf("BADCASE"); return; }
    char **st = g_tok + b1 + 1;
    static int ready = 0; static char *sess[] = { "cv=3", "sv=3", "suite=009c", "seed=7", "msgs=c:00" };
    if (!ready) { char *save[8]; int sn = g_ntok; memcpy(save, g_tok, sizeof save); for (int i = 0; i < 5; i++) g_tok[1 + i] = sess[i]; g_have = 0; int rc = establish(1, 6); memcpy(g_tok, save, sizeof save); g_ntok = sn; if (rc) { printf("SETUP-FAIL %d", rc); return; } ready = 1; g_have = 0; g_key[0] = 0; }
    ssl_t *s = g_s.ssl; unsigned char *key, *iv, *body; size_t kl = unhex(st[2], &key), il = unhex(st[4], &iv), bl = unhex(g_tok[b2 + 2], &body);
    unsigned long long q = strtoull(st[5], NULL, 16);
    if (kl != 32 || il != 12) { printf("BADCASE"); return; }
    memcpy(s->sec.readKey, key, 32); memcpy(s->sec.readIV, iv, 12);
    for (int i = 7; i >= 0; i--) { s->sec.remSeq[i] = (unsigned char) q; q >>= 8; }
    psChacha20Poly1305IetfInit(&s->sec.decryptCtx.chacha20poly1305ietf, s->sec.readKey);
    s->rec.type = (unsigned char) atoi(g_tok[b2 + 1]); s->rec.len = (uint32) bl;
    int32 rc = csChacha20Poly1305IetfDecrypt(s, body, body, (uint32) bl);
    if (rc < 0) printf("F:%d ", SSL_ALERT_DECRYPT_ERROR);
    else { int32 ptl = (int32) bl - 16; int32 lim = s->maxPtFrag == 0xFF ? SSL_MAX_PLAINTEXT_LEN : s->maxPtFrag;
           if (ptl > lim) printf("F:%d ", SSL_ALERT_RECORD_OVERFLOW); else { printf(s->rec.type == 23 ? "D:" : "T%d:", s->rec.type); puthex(body, (size_t) ptl); printf(" "); } }
    printf("seq=%llx", seq64(s->sec.remSeq));
    free(key); free(iv); free(body);
}


/* ------------------------------------------------------------------ DTLS 1.2: in-memory pair, every datagram delivered in order
   dcap suite=<hex> seed=<n> msgs=<side>:<hex>,... |          -> read state of both sides + the application datagrams per direction
   drun suite=.. seed=.. msgs=.. to=<s|c> | <dg-hex>,<dg-hex>,... [| <state>]  -> per datagram: D:<hex> delivered, F:<alert> fatal alert, N nothing,
                                                                      E<rc> error return; then dead=<0|1> */
static peer_t d_c, d_s; static char d_key[1 << 16]; static int d_have = 0;
static unsigned char *d_dg[2][MAXR]; static size_t d_dglen[2][MAXR]; static int d_ndg[2];
typedef struct { unsigned char *b[256]; int len[256]; int n; } inbox_t;

static void d_events(peer_t *p, const unsigned char *d, size_t l, int print) {
    unsigned char *rb; int32 room = matrixSslGetReadbuf(p->ssl, &rb);
    if (room <= 0 || (size_t) room < l) { if (print) printf("Erb "); return; }
    memcpy(rb, d, l); unsigned char *pt; uint32 ptlen; int got = 0;
    poison_stack();
    int32 rc = matrixSslReceivedData(p->ssl, (uint32) l, &pt, &ptlen);
    for (int guard = 0; guard < 64; guard++) {
        if (rc == MATRIXSSL_APP_DATA) { if (print) { printf("D:"); puthex(pt, ptlen); printf(" "); } got = 1; rc = matrixSslProcessedData(p->ssl, &pt, &ptlen); continue; }
        if (rc == MATRIXSSL_RECEIVED_ALERT) { if (print) printf("A:%d:%d ", ptlen >= 1 ? pt[0] : -1, ptlen >= 2 ? pt[1] : -1); got = 1; rc = matrixSslProcessedData(p->ssl, &pt, &ptlen); continue; }
        if (rc == MATRIXSSL_HANDSHAKE_COMPLETE) { p->done_events++; break; }
        break;
    }
    if (!print) return;
    if (rc == MATRIXSSL_REQUEST_SEND && p->ssl->err != SSL_ALERT_NONE) { printf("F:%d ", (int) p->ssl->err); return; }
    if (rc < 0) { printf("E%d ", rc); return; }
    if (!got) printf("N ");
}

static int d_establish(int from, int upto) {
    size_t o = 0; char key[sizeof d_key]; key[0] = 0;
    for (int i = from; i < upto; i++) { o += (size_t) snprintf(key + o, sizeof key - o, "%s ", g_tok[i]); if (o >= sizeof key - 1) return -90; }
    if (d_have && !strcmp(key, d_key)) return 0;
    d_have = 0; strcpy(d_key, key);
    int suite = 0xc02f; uint64_t seed = 1; const char *msgs = NULL;
    for (int i = from; i < upto; i++) {
        if (!strncmp(g_tok[i], "suite=", 6)) suite = (int) strtol(g_tok[i] + 6, NULL, 16);
        else if (!strncmp(g_tok[i], "seed=", 5)) seed = strtoull(g_tok[i] + 5, NULL, 10);
        else if (!strncmp(g_tok[i], "msgs=", 5)) msgs = g_tok[i] + 5;
    }
    if (d_c.ssl) { matrixSslDeleteSession(d_c.ssl); d_c.ssl = NULL; } if (d_s.ssl) { matrixSslDeleteSession(d_s.ssl); d_s.ssl = NULL; }
    if (d_c.keys) { matrixSslDeleteKeys(d_c.keys); d_c.keys = NULL; }
    matrixSslClose(); if (matrixSslOpen() < 0) return -9;
    g_have = 0; g_key[0] = 0; memset(&g_c, 0, sizeof g_c); memset(&g_s, 0, sizeof g_s); g_skeys_persist = NULL; g_saved_sid = NULL;   /* the TLS pair died with matrixSslClose */
    ent_seed(seed); g_pin_year = 2020; g_vtime = 1592222400;
    if (matrixSslNewKeys(&d_c.keys, NULL) < 0 || load_identity(d_c.keys, 0, 1, 1) < 0) return -1;
    sslSessOpts_t so; psCipher16_t cs[1] = { (psCipher16_t) suite };
    memset(&so, 0, sizeof so); so.versionFlag = SSL_FLAGS_DTLS | SSL_FLAGS_TLS_1_2;
    if (matrixSslNewClientSession(&d_c.ssl, d_c.keys, NULL, cs, 1, cb_client, NULL, NULL, NULL, &so) != MATRIXSSL_REQUEST_SEND) return -2;
    memset(&so, 0, sizeof so); so.versionFlag = SSL_FLAGS_DTLS | SSL_FLAGS_TLS_1_2;
    if (matrixSslNewServerSession(&d_s.ssl, d_c.keys, NULL, &so) < 0) return -3;
    d_c.cb_mode = 2; d_c.done_events = d_s.done_events = 0; d_s.is_server = 1;
    peer_t *pp[2] = { &d_c, &d_s };
    for (int round = 0; round < 40 && !(d_c.done_events && d_s.done_events); round++) {
        for (int who = 0; who < 2; who++) {
            inbox_t in; in.n = 0; unsigned char *buf; int32 len;
            while (pp[who]->ssl->outlen > 0 && in.n < 256 && (len = matrixDtlsGetOutdata(pp[who]->ssl, &buf)) > 0) {
                in.b[in.n] = malloc((size_t) len); memcpy(in.b[in.n], buf, (size_t) len); in.len[in.n] = len; in.n++;
                int32 rc = matrixDtlsSentData(pp[who]->ssl, (uint32) len);
                if (rc == MATRIXSSL_HANDSHAKE_COMPLETE) pp[who]->done_events++;
                if (rc < 0) break;
            }
            for (int i = 0; i < in.n; i++) { d_events(pp[1 - who], in.b[i], (size_t) in.len[i], 0); free(in.b[i]); }
        }
    }
    if (!matrixSslHandshakeIsComplete(d_c.ssl) || !matrixSslHandshakeIsComplete(d_s.ssl)) return -91;
    for (int d = 0; d < 2; d++) { for (int i = 0; i < d_ndg[d]; i++) free(d_dg[d][i]); d_ndg[d] = 0; }
    for (const char *p = msgs; p && *p;) {
        int side = *p; if (p[1] != ':') return -92; p += 2;
        const char *e = strchr(p, ','); size_t tl = e ? (size_t) (e - p) : strlen(p);
        char *tok = strndup(p, tl); unsigned char *d; size_t l = unhex(tok, &d); free(tok);
        peer_t *sd = side == 's' ? &d_s : &d_c; int dir = side == 's' ? 1 : 0;
        unsigned char *wb; if (matrixSslGetWritebuf(sd->ssl, &wb, (uint32) l) < (int32) l) return -93;
        memcpy(wb, d, l); free(d);
        if (matrixSslEncodeWritebuf(sd->ssl, (uint32) l) < 0) return -94;
        unsigned char *buf; int32 len;
        while (sd->ssl->outlen > 0 && d_ndg[dir] < MAXR && (len = matrixDtlsGetOutdata(sd->ssl, &buf)) > 0) {
            d_dg[dir][d_ndg[dir]] = malloc((size_t) len); memcpy(d_dg[dir][d_ndg[dir]], buf, (size_t) len); d_dglen[dir][d_ndg[dir]] = (size_t) len; d_ndg[dir]++;
            if (matrixDtlsSentData(sd->ssl, (uint32) len) < 0) break;
        }
        p += tl; if (*p == ',') p++;
    }
    d_have = 1;
    return 0;
}

static void do_dcap(void) {
    int b = find_bar(1); int rc = d_establish(1, b);
    if (rc) { printf("dcap fail %d", rc); return; }
    printf("dcap ok | rs="); print_state(d_s.ssl, 1); printf(" | rc="); print_state(d_c.ssl, 1);
    for (int d = 0; d < 2; d++) { printf(" | %s=", d ? "s2c" : "c2s"); if (!d_ndg[d]) printf("-"); for (int i = 0; i < d_ndg[d]; i++) { if (i) printf(","); puthex(d_dg[d][i], d_dglen[d][i]); } }
}

static int do_drun(void) {
    int b1 = find_bar(1);
    if (b1 < 3 || b1 >= g_ntok - 1) { printf("BADCASE"); return 0; }
    int to_server = !strcmp(g_tok[b1 - 1], "to=s");
    int rc = d_establish(1, b1 - 1);
    if (rc) { printf("SETUP-FAIL %d", rc); return 0; }
    peer_t *rcv = to_server ? &d_s : &d_c;
    int b2 = find_bar(b1 + 1);
    if (b2 < g_ntok) {        /* optional third field: the receiver's read state the case was built for */
        char have[4096], want[4096]; size_t o = 0; want[0] = 0;
        sprint_state(have, sizeof have, rcv->ssl, 1);
        for (int i = b2 + 1; i < g_ntok; i++) o += (size_t) snprintf(want + o, sizeof want - o, "%s%s", i > b2 + 1 ? " " : "", g_tok[i]);
        if (strcmp(have, want)) { printf("STATE-MISMATCH have=%s", have); return 0; }
    }
    fflush(stdout);
    pid_t pid = fork();
    if (pid == 0) {
        char *list = g_tok[b1 + 1];
        for (char *p = list; *p;) {
            char *e = strchr(p, ','); size_t tl = e ? (size_t) (e - p) : strlen(p);
            char *tok = strndup(p, tl); unsigned char *d; size_t l = unhex(tok, &d); free(tok);
            if (rcv->ssl->flags & (SSL_FLAGS_ERROR | SSL_FLAGS_CLOSED)) printf("X "); else d_events(rcv, d, l, 1);
            free(d); p += tl; if (*p == ',') p++;
            printf("/ ");
        }
        printf("dead=%d\n", (rcv->ssl->flags & (SSL_FLAGS_ERROR | SSL_FLAGS_CLOSED)) ? 1 : 0); fflush(stdout); _exit(0);
    }
    int st = 0; waitpid(pid, &st, 0);
    if (WIFSIGNALED(st)) { printf("CRASH:%d\n", WTERMSIG(st)); fflush(stdout); }
    else if (!WIFEXITED(st) || WEXITSTATUS(st) != 0) { printf("CHILD-FAIL\n"); fflush(stdout); }
    return 1;
}

int main(void)
{
    if (matrixSslOpen() < 0) { printf("INITFAIL\n"); return 2; }
    while (next_case()) {
        if (g_ntok == 0) { printf("BADCASE\n"); continue; }
        if (!strcmp(g_tok[0], "run")) { if (do_run()) { fflush(stdout); continue; } printf("\n"); fflush(stdout); continue; }     /* prints its own newline (from the child) */
        if (!strcmp(g_tok[0], "drun")) { if (do_drun()) { fflush(stdout); continue; } printf("\n"); fflush(stdout); continue; }
        else if (!strcmp(g_tok[0], "dcap")) do_dcap();
        else if (!strcmp(g_tok[0], "cap")) do_cap();
        else if (!strcmp(g_tok[0], "enc")) do_enc();
        else if (!strcmp(g_tok[0], "cc12")) do_cc12();
        else printf("BADCASE");
        printf("\n"); fflush(stdout);
    }
    return 0;
}
