/* C13 harness: drives the pstm_* big-integer functions of the freshly built libcrypt_s.a.

   One case per line (7 tokens):
       <op> <alias> <K> <A> <B> <C> <D>
   operand  := '-'                         (unused: object stays an initialised zero of alloc 1)
             | <sign><hex>/<alloc>[/<used>]   sign '+'|'-', hex = magnitude (most significant first),
                                            alloc = digits allocated (raised to what the value needs),
                                            used  = optional over-long used count (value then has leading
                                            zero digits: non-normalised input for clamp)
   bytes    := hex string or '-' (ops read_bin: A is a byte string)
   alias    := '-' | comma list of x=y (x,y in a,b,c,d: pointer x is made equal to pointer y, applied in
               order) or x=0 (pointer x is NULL).  E.g. "c=a", "b=a,c=a", "d=0".
   K        := '-' | decimal number (shift count / paD mode) | 0x<hex> (digit operand)
   paD mode (mul, sqr, mont_reduce): 0 = NULL, 1 = large enough scratch, 2 = scratch one digit too small

   Result line:
       rc=<rc> [r=<scalar>] [<x>=<sign><hex>/<alloc>/<used>/<z>]...   for every DISTINCT object among a,b,c,d
   where an object that still has exactly its input value/alloc/used/sign prints "<x>==" instead, z=1 iff all
   digits from used to alloc-1 are zero.  After an error (rc<0) only "rc=<rc>" is printed: the state of the
   destination after a failure is not part of the contract.

   With -DH_PSTM_STATIC the file crypto/math/pstm.c of the same scratch tree is compiled INTO the harness so
   that its static functions (pstm_mul_2d, pstm_mod_2d, s_pstm_add) can be called directly (ops mul_2d, mod_2d,
   s_add).  Without it every call goes to the library object. */
#include "matrixssl/matrixsslImpl.h"
#include "hcommon.h"

/* H_PSTM_STATIC: the build passes `-include <scratch>/crypto/math/pstm.c` so the static functions are in this TU */

#define NOBJ 4
typedef struct { pstm_int v; int present; pstm_digit *in_dp; int in_used, in_alloc, in_sign; } obj_t;
static obj_t O[NOBJ];
static pstm_int *P[NOBJ];

static int hexdig(int c) { return hexval(c); }

/* parse operand into o; returns 0 ok */
static int parse_operand(const char *s, obj_t *o)
{
    memset(o, 0, sizeof(*o));
    if (strcmp(s, "-") == 0) {
        if (pstm_init_size(NULL, &o->v, 1) != PSTM_OKAY) return -1;
        o->present = 0;
    } else {
        int neg = (s[0] == '-');
        const char *h = s + 1;
        const char *sl = strchr(h, '/');
        if (!sl) return -1;
        size_t hl = (size_t)(sl - h);
        long alloc = strtol(sl + 1, NULL, 10);
        const char *sl2 = strchr(sl + 1, '/');
        long uover = sl2 ? strtol(sl2 + 1, NULL, 10) : -1;
        /* skip leading zeros */
        while (hl > 0 && *h == '0') { h++; hl--; }
        size_t per = sizeof(pstm_digit) * 2;
        long need = (long)((hl + per - 1) / per);
        if (alloc < need) alloc = need;
        if (uover > alloc) alloc = uover;
        if (alloc < 1) alloc = 1;
        if (alloc > PSTM_MAX_SIZE) return -1;
        if (pstm_init_size(NULL, &o->v, (psSize_t) alloc) != PSTM_OKAY) return -1;
        for (size_t i = 0; i < hl; i++) {
            int d = hexdig(h[hl - 1 - i]);
            if (d < 0) return -1;
            o->v.dp[i / per] |= ((pstm_digit) d) << (4 * (i % per));
        }
        o->v.used = (uint16_t)(uover >= 0 && uover > need ? uover : need);
        o->v.sign = neg ? PSTM_NEG : PSTM_ZPOS;
        o->present = 1;
    }
    o->in_used = o->v.used; o->in_alloc = o->v.alloc; o->in_sign = o->v.sign;
    o->in_dp = malloc(sizeof(pstm_digit) * (o->v.alloc ? o->v.alloc : 1));
    memcpy(o->in_dp, o->v.dp, sizeof(pstm_digit) * o->v.alloc);
    return 0;
}

static void print_obj(char name, obj_t *o)
{
    pstm_int *v = &o->v;
    if (v->dp == NULL) { printf(" %c=NULLDP", name); return; }
    if (v->used == o->in_used && v->alloc == o->in_alloc && v->sign == o->in_sign &&
        memcmp(v->dp, o->in_dp, sizeof(pstm_digit) * v->alloc) == 0) { printf(" %c==", name); return; }
    printf(" %c=%c", name, v->sign == PSTM_NEG ? '-' : (v->sign == PSTM_ZPOS ? '+' : '?'));
    if (v->used > v->alloc) { printf("USED>ALLOC/%d/%d/0", v->alloc, v->used); return; }
    int top = (int) v->used - 1;
    while (top >= 0 && v->dp[top] == 0) top--;            /* value printed without leading zero digits; used is printed too */
    if (top < 0) printf("0");
    for (int i = top; i >= 0; i--) {
        if (i == top) printf("%llx", (unsigned long long) v->dp[i]);
        else printf("%0*llx", (int)(sizeof(pstm_digit) * 2), (unsigned long long) v->dp[i]);
    }
    int z = 1;
    for (int i = v->used; i < v->alloc; i++) if (v->dp[i] != 0) z = 0;
    printf("/%d/%d/%d", v->alloc, v->used, z);
}

static void print_state(int32_t rc, int have_r, long long r)
{
    printf("rc=%d", (int) rc);
    if (rc < 0) { printf("\n"); return; }
    if (have_r) printf(" r=%lld", r);
    for (int i = 0; i < NOBJ; i++) {
        if (!O[i].present && O[i].v.dp && O[i].v.used == 0 && O[i].v.alloc == 1 && O[i].v.sign == 0 && O[i].v.dp[0] == 0) continue;
        print_obj("abcd"[i], &O[i]);
    }
    printf("\n");
}

static int apply_alias(char *s)
{
    for (int i = 0; i < NOBJ; i++) P[i] = &O[i].v;
    if (strcmp(s, "-") == 0) return 0;
    char *save = NULL;
    for (char *e = strtok_r(s, ",", &save); e; e = strtok_r(NULL, ",", &save)) {
        if (strlen(e) != 3 || e[1] != '=') return -1;
        int x = e[0] - 'a';
        if (x < 0 || x >= NOBJ) return -1;
        if (e[2] == '0') P[x] = NULL;
        else { int y = e[2] - 'a'; if (y < 0 || y >= NOBJ) return -1; P[x] = P[y]; }
    }
    return 0;
}

static pstm_digit parse_k_digit(const char *s)
{
    if (s[0] == '0' && s[1] == 'x') return (pstm_digit) strtoull(s + 2, NULL, 16);
    return (pstm_digit) strtoull(s, NULL, 10);
}

/* scratch for paD modes; need = number of digits the callee wants */
static pstm_digit *make_pad(int mode, size_t need_digits, psSize_t *len)
{
    if (mode == 0) { *len = 0; return NULL; }
    size_t n = (mode == 1) ? need_digits + 3 : (need_digits > 0 ? need_digits - 1 : 0);
    if (n == 0) n = 1, *len = (mode == 1) ? sizeof(pstm_digit) : 0; else *len = (psSize_t)(n * sizeof(pstm_digit));
    pstm_digit *p = malloc(n * sizeof(pstm_digit));
    memset(p, 0xA5, n * sizeof(pstm_digit));
    return p;
}

int main(void)
{
    if (psCryptoOpen(PSCRYPTO_CONFIG) < 0) { printf("INITFAIL\n"); return 2; }
    while (next_case()) {
        if (g_ntok != 7) { printf("BADCASE\n"); fflush(stdout); continue; }
        const char *op = g_tok[0];
        int isbytes = (strcmp(op, "read_bin") == 0);
        int bad = 0;
        unsigned char *bytes = NULL; size_t blen = 0;
        for (int i = 0; i < NOBJ; i++) {
            if (i == 0 && isbytes) { blen = unhex(g_tok[3], &bytes); if (parse_operand("-", &O[0])) bad = 1; continue; }
            if (parse_operand(g_tok[3 + i], &O[i])) bad = 1;
        }
        if (bad || apply_alias(g_tok[1])) { printf("BADCASE\n"); fflush(stdout); goto cleanup; }
        const char *K = g_tok[2];
        long k = (K[0] == '-' && K[1] == 0) ? 0 : strtol(K, NULL, 0);
        pstm_int *a = P[0], *b = P[1], *c = P[2], *d = P[3];
        int32_t rc = 0;
        if (!strcmp(op, "add")) { rc = pstm_add(a, b, c); print_state(rc, 0, 0); }
        else if (!strcmp(op, "sub")) { rc = pstm_sub(a, b, c); print_state(rc, 0, 0); }
        else if (!strcmp(op, "sub_s")) { rc = pstm_sub_s(a, b, c); print_state(rc, 0, 0); }
        else if (!strcmp(op, "add_d")) { rc = pstm_add_d(NULL, a, parse_k_digit(K), c); print_state(rc, 0, 0); }
        else if (!strcmp(op, "sub_d")) { rc = pstm_sub_d(NULL, a, parse_k_digit(K), c); print_state(rc, 0, 0); }
        else if (!strcmp(op, "mul_d")) { rc = pstm_mul_d(a, parse_k_digit(K), c); print_state(rc, 0, 0); }
        else if (!strcmp(op, "mul_2")) { rc = pstm_mul_2(a, c); print_state(rc, 0, 0); }
        else if (!strcmp(op, "div_2")) { rc = pstm_div_2(a, c); print_state(rc, 0, 0); }
        else if (!strcmp(op, "div_2d")) { rc = pstm_div_2d(NULL, a, (int16_t) k, c, d); print_state(rc, 0, 0); }
        else if (!strcmp(op, "lshd")) { rc = pstm_lshd(a, (uint16_t) k); print_state(rc, 0, 0); }
        else if (!strcmp(op, "rshd")) { pstm_rshd(a, (uint16_t) k); print_state(0, 0, 0); }
        else if (!strcmp(op, "2expt")) { rc = pstm_2expt(a, (int16_t) k); print_state(rc, 0, 0); }
        else if (!strcmp(op, "cmp")) { print_state(0, 1, pstm_cmp(a, b)); }
        else if (!strcmp(op, "cmp_mag")) { print_state(0, 1, pstm_cmp_mag(a, b)); }
        else if (!strcmp(op, "cmp_d")) { print_state(0, 1, pstm_cmp_d(a, parse_k_digit(K))); }
        else if (!strcmp(op, "count_bits")) { print_state(0, 1, pstm_count_bits(a)); }
        else if (!strcmp(op, "bin_size")) { print_state(0, 1, pstm_unsigned_bin_size(a)); }
        else if (!strcmp(op, "copy")) { rc = pstm_copy(a, c); print_state(rc, 0, 0); }
        else if (!strcmp(op, "abs")) { rc = pstm_abs(a, c); print_state(rc, 0, 0); }
        else if (!strcmp(op, "clamp")) { pstm_clamp(a); print_state(0, 0, 0); }
        else if (!strcmp(op, "zero")) { pstm_zero(a); print_state(0, 0, 0); }
        else if (!strcmp(op, "set")) { pstm_set(a, parse_k_digit(K)); print_state(0, 0, 0); }
        else if (!strcmp(op, "mul")) {
            psSize_t pl; pstm_digit *pad = make_pad((int) k, (size_t) a->used + b->used, &pl);
            rc = pstm_mul_comba(NULL, a, b, c, pad, pl); print_state(rc, 0, 0); free(pad);
        }
        else if (!strcmp(op, "sqr")) {
            psSize_t pl; pstm_digit *pad = make_pad((int) k, (size_t) a->used * 2, &pl);
            rc = pstm_sqr_comba(NULL, a, c, pad, pl); print_state(rc, 0, 0); free(pad);
        }
        else if (!strcmp(op, "read_bin")) { rc = pstm_read_unsigned_bin(c, bytes, (psSize_t) blen); print_state(rc, 0, 0); }
        else if (!strcmp(op, "to_bin")) {
            size_t cap = (size_t) a->used * sizeof(pstm_digit) + 8;
            unsigned char *out = malloc(cap); memset(out, 0xEE, cap);
            uint16_t n = pstm_unsigned_bin_size(a);
            rc = pstm_to_unsigned_bin(NULL, a, out);
            printf("rc=%d", (int) rc);
            if (rc >= 0) { printf(" n=%d out=", (int) n); puthex(out, n); printf(" guard=%d", out[n] == 0xEE); for (int i = 0; i < NOBJ; i++) if (O[i].present) print_obj("abcd"[i], &O[i]); }
            printf("\n"); free(out);
        }
        else if (!strcmp(op, "mont_setup")) { pstm_digit rho = 0; rc = pstm_montgomery_setup(a, &rho); printf("rc=%d", (int) rc); if (rc >= 0) printf(" rho=%llx", (unsigned long long) rho); printf("\n"); }
        else if (!strcmp(op, "mont_norm")) { rc = pstm_montgomery_calc_normalization(a, b); print_state(rc, 0, 0); }
        else if (!strcmp(op, "mont_reduce")) {
            /* a reduced in place modulo m = b; rho from the library's own setup */
            pstm_digit rho = 0; rc = pstm_montgomery_setup(b, &rho);
            if (rc < 0) { printf("rc=%d setup\n", (int) rc); }
            else {
                psSize_t pl; pstm_digit *pad = make_pad((int) k, (size_t) 2 * b->used + 1, &pl);
                rc = pstm_montgomery_reduce(NULL, a, b, rho, pad, pl); print_state(rc, 0, 0); free(pad);
            }
        }
        else if (!strcmp(op, "div")) { rc = pstm_div(NULL, a, b, c, d); print_state(rc, 0, 0); }
        else if (!strcmp(op, "mod")) { rc = pstm_mod(NULL, a, b, c); print_state(rc, 0, 0); }
        else if (!strcmp(op, "mulmod")) { rc = pstm_mulmod(NULL, a, b, c, d); print_state(rc, 0, 0); }
        else if (!strcmp(op, "exptmod")) { rc = pstm_exptmod(NULL, a, b, c, d); print_state(rc, 0, 0); }
        else if (!strcmp(op, "invmod")) { rc = pstm_invmod(NULL, a, b, c); print_state(rc, 0, 0); }
#ifdef H_PSTM_STATIC
        else if (!strcmp(op, "mul_2d")) { rc = pstm_mul_2d(a, (int16_t) k, c); print_state(rc, 0, 0); }
        else if (!strcmp(op, "mod_2d")) { rc = pstm_mod_2d(a, (int16_t) k, c); print_state(rc, 0, 0); }
        else if (!strcmp(op, "s_add")) { rc = s_pstm_add(a, b, c); print_state(rc, 0, 0); }
#endif
        else printf("BADOP\n");
cleanup:
        for (int i = 0; i < NOBJ; i++) { pstm_clear(&O[i].v); free(O[i].in_dp); O[i].in_dp = NULL; }
        free(bytes);
        fflush(stdout);
    }
    return 0;
}
