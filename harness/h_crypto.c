/* C12 harness: drives the real digest / HMAC / HKDF / PBKDF2 / AES-CBC / AES-GCM / ChaCha20-Poly1305
   entry points of the freshly built libcrypt_s.a on one case per stdin line and prints one
   canonical result line per case.

   case lines (hex fields, "-" = empty; <splits> = "-" (one call with everything) or "a,b,c" =
   lengths of successive update calls, the remainder (if any) goes into one more call;
   <al> = 0..15 byte offset of the input (and output) inside a 16-aligned allocation;
   <ip> = 1: output buffer is the input buffer):

     dg   <sha256|sha1|sha384|sha512|md5> <msg> <splits> <al>            -> <digest>
     hms  <sha256|sha1|sha384|md5> <key> <msg> <splits> <al>             -> <mac>      streaming psHmac*Init/Update/Final
     hm1  <sha256|sha1|sha384|md5> <key> <msg> <al>                      -> <mac> <hmacKeyLen>   one-shot psHmac*()
     hmg  <sha256|sha1|sha384|md5> <key> <msg> <splits>                  -> <mac>      generic psHmacInit/Update/Final
     hkx  <sha256|sha384|sha1> <salt> <ikm>                              -> <prk>      psHkdfExtract
     hke  <sha256|sha384|sha1> <prk> <info> <L>                          -> <okm> | rc=<n>   psHkdfExpand
     pb2  <pw> <salt> <iters> <dklen>                                    -> <dk>       psPkcs5Pbkdf2
     cbc  <e|d> <key> <iv> <data> <splits> <al> <ip>                     -> <out>
     gcm  e <key> <iv12> <aad> <pt> <taglen> <splits> <al> <ip>          -> <ct> <tag>
     gcm  d <key> <iv12> <aad> <ct> <tag> <splits> <al> <ip>             -> ok <pt> | authfail | rc=<n>   (psAesDecryptGCM, tag appended)
     gcm  d2 <key> <iv12> <aad> <ct> <tag> <splits> <al> <ip>            -> ok <pt> | authfail            (psAesDecryptGCM2)
     gcmr <key> <iv1> <pt1> <taglen1> <iv2> <aad2> <pt2>                 -> <ct2> <tag2>   one context, second message after a (possibly truncated) first tag
     gcmz <key> <iv12> <total> <chunk>                                   -> <tag16>   <total> zero ciphertext bytes, no AAD, through psAesDecryptGCMtagless in <chunk>-byte calls
     des3 <e|d> <key24> <iv8> <data> <splits> <al> <ip>                  -> <out>      psDes3Init + psDes3Encrypt / psDes3Decrypt calls
     m5s1 <msg> <splits> <al>                                            -> <md5||sha1>  psMd5Sha1Init/Update/Final
     aesb <e|d> <key> <blk16> <al> <ip>                                  -> <out>      psAesInitBlockKey + psAesEncryptBlock / psAesDecryptBlock
     pb1  <pass> <salt8>                                                 -> <key24>    psPkcs5Pbkdf1 (iter = 1)
     sa2  <msg> <al>                                                     -> <digest>   psSha256Standalone
     s5s  <msg> <al>                                                     -> <digest>   psSha512Single
     hsg  <sha256|sha384|sha512|md5> <msg> <splits>                      -> <digest> | rc=<n>   psHashInit/Update/Final (OID-selected)
     hm0  <sha256|sha1|sha384|md5> <key> <msg>                           -> <mac>      psHmacSingle
     chpd e <key32> <nonce12> <aad> <pt> <al> <ip>                       -> <ct> <tag>   detached API
     chpd d <key32> <nonce12> <aad> <ct> <tag16> <al> <ip>               -> ok <pt> | authfail | rc=<n>
     chp  e <key32> <nonce12> <aad> <pt> <al> <ip>                       -> <ct||tag>
     chp  d <key32> <nonce12> <aad> <ct||tag> <al> <ip>                  -> ok <pt> | authfail | rc=<n>

   Every case runs in a forked child, so a memory fault of the library is the result "CRASH"
   (and does not end the run). */
#include "matrixssl/matrixsslImpl.h"
#include "hcommon.h"
#include <unistd.h>
#include <sys/wait.h>
#include <signal.h>

static int parse_splits(const char *s, size_t total, size_t *out, int max)
{
    int n = 0; size_t used = 0;
    if (strcmp(s, "-") == 0) { out[0] = total; return 1; }
    char *dup = strdup(s), *save = NULL;
    for (char *t = strtok_r(dup, ",", &save); t && n < max - 1; t = strtok_r(NULL, ",", &save)) {
        size_t v = (size_t) strtoul(t, NULL, 10);
        if (v > total - used) v = total - used;
        out[n++] = v; used += v;
    }
    free(dup);
    if (used < total) out[n++] = total - used;
    return n;
}

/* copy of data placed at offset al inside a 16-aligned block, with room for `extra` more bytes */
static unsigned char *g_blocks[64]; static int g_nblocks;
static unsigned char *aligned_copy(const unsigned char *d, size_t l, int al, size_t extra)
{
    void *p = NULL;
    if (posix_memalign(&p, 16, l + extra + 64) != 0) exit(3);
    memset(p, 0xA5, l + extra + 64);
    memcpy((unsigned char *) p + al, d, l);
    if (g_nblocks < 64) g_blocks[g_nblocks++] = p;
    return (unsigned char *) p + al;
}

static int alg_id(const char *a)
{
    if (!strcmp(a, "sha256")) return 256;
    if (!strcmp(a, "sha1")) return 1;
    if (!strcmp(a, "sha384")) return 384;
    if (!strcmp(a, "sha512")) return 512;
    if (!strcmp(a, "md5")) return 5;
    return -1;
}
static psCipherType_e hmac_type(int id)
{
    switch (id) { case 256: return HMAC_SHA256; case 1: return HMAC_SHA1; case 384: return HMAC_SHA384; case 5: return HMAC_MD5; }
    return (psCipherType_e) 0;
}

#define MAXSPL 4096
static size_t g_spl[MAXSPL];

static void do_case(void)
{
    const char *op = g_ntok ? g_tok[0] : "";
    if (!strcmp(op, "dg") && g_ntok == 5) {
        int id = alg_id(g_tok[1]); unsigned char *m0; size_t ml = unhex(g_tok[2], &m0);
        int al = atoi(g_tok[4]) & 15;
        unsigned char *m = aligned_copy(m0, ml, al, 0);
        int ns = parse_splits(g_tok[3], ml, g_spl, MAXSPL);
        unsigned char outbuf[64 + 16]; unsigned char *out = outbuf + (al & 7);
        size_t hl = 0, off = 0;
        switch (id) {
        case 256: { psSha256_t c; psSha256PreInit(&c); psSha256Init(&c); for (int i = 0; i < ns; i++) { psSha256Update(&c, m + off, (uint32_t) g_spl[i]); off += g_spl[i]; } psSha256Final(&c, out); hl = 32; break; }
        case 1:   { psSha1_t c;   psSha1PreInit(&c);   psSha1Init(&c);   for (int i = 0; i < ns; i++) { psSha1Update(&c, m + off, (uint32_t) g_spl[i]);   off += g_spl[i]; } psSha1Final(&c, out);   hl = 20; break; }
        case 384: { psSha384_t c; psSha384PreInit(&c); psSha384Init(&c); for (int i = 0; i < ns; i++) { psSha384Update(&c, m + off, (uint32_t) g_spl[i]); off += g_spl[i]; } psSha384Final(&c, out); hl = 48; break; }
        case 512: { psSha512_t c; psSha512PreInit(&c); psSha512Init(&c); for (int i = 0; i < ns; i++) { psSha512Update(&c, m + off, (uint32_t) g_spl[i]); off += g_spl[i]; } psSha512Final(&c, out); hl = 64; break; }
        case 5:   { psMd5_t c;    psMd5PreInit(&c);    psMd5Init(&c);    for (int i = 0; i < ns; i++) { psMd5Update(&c, m + off, (uint32_t) g_spl[i]);    off += g_spl[i]; } psMd5Final(&c, out);    hl = 16; break; }
        default: printf("BADCASE\n"); return;
        }
        puthex(out, hl); printf("\n");
    } else if (!strcmp(op, "hms") && g_ntok == 6) {
        int id = alg_id(g_tok[1]); unsigned char *k0, *m0; size_t kl = unhex(g_tok[2], &k0), ml = unhex(g_tok[3], &m0);
        int al = atoi(g_tok[5]) & 15;
        unsigned char *k = aligned_copy(k0, kl, al, 0), *m = aligned_copy(m0, ml, (al * 7) & 15, 0);
        int ns = parse_splits(g_tok[4], ml, g_spl, MAXSPL);
        unsigned char out[64]; size_t hl = 0, off = 0;
        switch (id) {
        case 256: { psHmacSha256_t c; psHmacSha256Init(&c, k, (psSize_t) kl); for (int i = 0; i < ns; i++) { psHmacSha256Update(&c, m + off, (uint32_t) g_spl[i]); off += g_spl[i]; } psHmacSha256Final(&c, out); hl = 32; break; }
        case 1:   { psHmacSha1_t c;   psHmacSha1Init(&c, k, (psSize_t) kl);   for (int i = 0; i < ns; i++) { psHmacSha1Update(&c, m + off, (uint32_t) g_spl[i]);   off += g_spl[i]; } psHmacSha1Final(&c, out);   hl = 20; break; }
        case 384: { psHmacSha384_t c; psHmacSha384Init(&c, k, (psSize_t) kl); for (int i = 0; i < ns; i++) { psHmacSha384Update(&c, m + off, (uint32_t) g_spl[i]); off += g_spl[i]; } psHmacSha384Final(&c, out); hl = 48; break; }
        case 5:   { psHmacMd5_t c;    psHmacMd5Init(&c, k, (psSize_t) kl);    for (int i = 0; i < ns; i++) { psHmacMd5Update(&c, m + off, (uint32_t) g_spl[i]);    off += g_spl[i]; } psHmacMd5Final(&c, out);    hl = 16; break; }
        default: printf("BADCASE\n"); return;
        }
        puthex(out, hl); printf("\n");
    } else if (!strcmp(op, "hm1") && g_ntok == 5) {
        int id = alg_id(g_tok[1]); unsigned char *k0, *m0; size_t kl = unhex(g_tok[2], &k0), ml = unhex(g_tok[3], &m0);
        int al = atoi(g_tok[4]) & 15;
        unsigned char *k = aligned_copy(k0, kl, al, 0), *m = aligned_copy(m0, ml, (al * 7) & 15, 0);
        unsigned char out[64], hk[64]; psSize_t hkl = 0; size_t hl = 0; int32_t rc = -1;
        switch (id) {
        case 256: rc = psHmacSha256(k, (psSize_t) kl, m, (uint32_t) ml, out, hk, &hkl); hl = 32; break;
        case 1:   rc = psHmacSha1(k, (psSize_t) kl, m, (uint32_t) ml, out, hk, &hkl); hl = 20; break;
        case 384: rc = psHmacSha384(k, (psSize_t) kl, m, (uint32_t) ml, out, hk, &hkl); hl = 48; break;
        case 5:   rc = psHmacMd5(k, (psSize_t) kl, m, (uint32_t) ml, out, hk, &hkl); hl = 16; break;
        default: printf("BADCASE\n"); return;
        }
        if (rc < 0) { printf("rc=%d\n", -rc); return; }
        puthex(out, hl); printf(" %u\n", (unsigned) hkl);
    } else if (!strcmp(op, "hmg") && g_ntok == 5) {
        int id = alg_id(g_tok[1]); unsigned char *k, *m; size_t kl = unhex(g_tok[2], &k), ml = unhex(g_tok[3], &m);
        int ns = parse_splits(g_tok[4], ml, g_spl, MAXSPL);
        unsigned char out[MAX_HASHLEN + 16]; size_t off = 0; psHmac_t c;
        size_t hl = id == 256 ? 32 : id == 1 ? 20 : id == 384 ? 48 : 16;
        int32_t rc = psHmacInit(&c, hmac_type(id), k, (psSize_t) kl);
        if (rc < 0) { printf("rc=%d\n", -rc); return; }
        for (int i = 0; i < ns; i++) { psHmacUpdate(&c, m + off, (uint32_t) g_spl[i]); off += g_spl[i]; }
        psHmacFinal(&c, out);
        puthex(out, hl); printf("\n");
    } else if (!strcmp(op, "hkx") && g_ntok == 4) {
        int id = alg_id(g_tok[1]); unsigned char *s, *ikm; size_t sl = unhex(g_tok[2], &s), il = unhex(g_tok[3], &ikm);
        unsigned char prk[MAX_HASHLEN + 16]; psSize_t pl = 0;
        int32_t rc = psHkdfExtract(hmac_type(id), s, (psSize_t) sl, ikm, (psSize_t) il, prk, &pl);
        if (rc < 0) { printf("rc=%d\n", -rc); return; }
        puthex(prk, pl); printf("\n");
    } else if (!strcmp(op, "hke") && g_ntok == 5) {
        int id = alg_id(g_tok[1]); unsigned char *prk, *info; size_t pl = unhex(g_tok[2], &prk), il = unhex(g_tok[3], &info);
        size_t L = (size_t) strtoul(g_tok[4], NULL, 10);
        unsigned char *okm = malloc(L + 64); memset(okm, 0xA5, L + 64);
        int32_t rc = psHkdfExpand(hmac_type(id), prk, (psSize_t) pl, info, (psSize_t) il, okm, (psSize_t) L);
        if (rc < 0) { printf("rc=%d\n", -rc); return; }
        for (int i = 0; i < 64; i++) if (okm[L + i] != 0xA5) { printf("OVERRUN\n"); return; }
        puthex(okm, L); printf("\n");
    } else if (!strcmp(op, "pb2") && g_ntok == 5) {
        unsigned char *pw, *salt; size_t pl = unhex(g_tok[1], &pw), sl = unhex(g_tok[2], &salt);
        int32 rounds = atoi(g_tok[3]); uint32 kl = (uint32) strtoul(g_tok[4], NULL, 10);
        unsigned char *dk = malloc(kl + 64); memset(dk, 0xA5, kl + 64);
        psPkcs5Pbkdf2(pw, (uint32) pl, salt, (uint32) sl, rounds, dk, kl);
        for (int i = 0; i < 64; i++) if (dk[kl + i] != 0xA5) { printf("OVERRUN\n"); return; }
        puthex(dk, kl); printf("\n");
    } else if (!strcmp(op, "cbc") && g_ntok == 8) {
        int enc = g_tok[1][0] == 'e';
        unsigned char *key, *iv, *d0; size_t kl = unhex(g_tok[2], &key), ivl = unhex(g_tok[3], &iv), dl = unhex(g_tok[4], &d0);
        int al = atoi(g_tok[6]) & 15, ip = atoi(g_tok[7]);
        if (ivl != 16 || (dl & 15)) { printf("BADCASE\n"); return; }
        unsigned char *in = aligned_copy(d0, dl, al, 0);
        unsigned char *out = ip ? in : aligned_copy(d0, 0, (al * 5 + 3) & 15, dl);
        int ns = parse_splits(g_tok[5], dl, g_spl, MAXSPL);
        psAesCbc_t c; size_t off = 0;
        int32_t rc = psAesInitCBC(&c, iv, key, (uint8_t) kl, enc ? PS_AES_ENCRYPT : PS_AES_DECRYPT);
        if (rc < 0) { printf("rc=%d\n", -rc); return; }
        for (int i = 0; i < ns; i++) {
            if (g_spl[i] & 15) { printf("BADCASE\n"); return; }
            if (enc) psAesEncryptCBC(&c, in + off, out + off, (uint32_t) g_spl[i]);
            else psAesDecryptCBC(&c, in + off, out + off, (uint32_t) g_spl[i]);
            off += g_spl[i];
        }
        puthex(out, dl); printf("\n");
    } else if (!strcmp(op, "gcm") && g_ntok == 10) {
        const char *mode = g_tok[1];
        unsigned char *key, *iv, *aad0, *d0; size_t kl = unhex(g_tok[2], &key), ivl = unhex(g_tok[3], &iv), al_ = unhex(g_tok[4], &aad0), dl = unhex(g_tok[5], &d0);
        int al = atoi(g_tok[8]) & 15, ip = atoi(g_tok[9]);
        if (ivl != 12) { printf("BADCASE\n"); return; }
        unsigned char *aad = aligned_copy(aad0, al_, (al * 3 + 1) & 15, 0);
        psAesGcm_t c;
        int32_t rc = psAesInitGCM(&c, key, (uint8_t) kl);
        if (rc < 0) { printf("rc=%d\n", -rc); return; }
        psAesReadyGCM(&c, iv, aad, (psSize_t) al_);
        if (!strcmp(mode, "e")) {
            int tl = atoi(g_tok[6]);
            if (tl < 0 || tl > 16) { printf("BADCASE\n"); return; }
            unsigned char *in = aligned_copy(d0, dl, al, 16);
            unsigned char *out = ip ? in : aligned_copy(d0, 0, (al * 5 + 3) & 15, dl + 16);
            int ns = parse_splits(g_tok[7], dl, g_spl, MAXSPL); size_t off = 0;
            for (int i = 0; i < ns; i++) { psAesEncryptGCM(&c, in + off, out + off, (uint32_t) g_spl[i]); off += g_spl[i]; }
            unsigned char tag[16];
            psAesGetGCMTag(&c, (uint8_t) tl, tag);
            puthex(out, dl); printf(" "); puthex(tag, (size_t) tl); printf("\n");
        } else {
            unsigned char *tag; size_t tl = unhex(g_tok[6], &tag);
            if (tl > 16) { printf("BADCASE\n"); return; }
            /* ciphertext || tag contiguous */
            unsigned char *in = aligned_copy(d0, dl, al, 16); memcpy(in + dl, tag, tl);
            unsigned char *out = ip ? in : aligned_copy(d0, 0, (al * 5 + 3) & 15, dl + 16);
            if (!strcmp(mode, "d")) {
                rc = psAesDecryptGCM(&c, in, (uint32_t) (dl + tl), out, (uint32_t) dl);
            } else {
                int ns = parse_splits(g_tok[7], dl, g_spl, MAXSPL); size_t off = 0;
                unsigned char tagc[16]; memcpy(tagc, tag, tl);
                /* all chunks but the last through the tagless call, the last through psAesDecryptGCM2 */
                for (int i = 0; i + 1 < ns; i++) { psAesDecryptGCMtagless(&c, in + off, out + off, (uint32_t) g_spl[i]); off += g_spl[i]; }
                rc = psAesDecryptGCM2(&c, in + off, out + off, (uint32_t) (dl - off), tagc, (uint32_t) tl);
            }
            if (rc == PS_AUTH_FAIL) printf("authfail\n");
            else if (rc < 0) printf("rc=%d\n", -rc);
            else { printf("ok "); puthex(out, dl); printf("\n"); }
        }
    } else if (!strcmp(op, "gcmr") && g_ntok == 8) {
        unsigned char *key, *iv1, *p1, *iv2, *aad2, *p2;
        size_t kl = unhex(g_tok[1], &key), i1 = unhex(g_tok[2], &iv1), l1 = unhex(g_tok[3], &p1);
        int tl1 = atoi(g_tok[4]);
        size_t i2 = unhex(g_tok[5], &iv2), al2 = unhex(g_tok[6], &aad2), l2 = unhex(g_tok[7], &p2);
        if (i1 != 12 || i2 != 12 || tl1 < 0 || tl1 > 16) { printf("BADCASE\n"); return; }
        psAesGcm_t c; unsigned char tag[16];
        unsigned char *o1 = malloc(l1 + 16), *o2 = malloc(l2 + 16);
        int32_t rc = psAesInitGCM(&c, key, (uint8_t) kl);
        if (rc < 0) { printf("rc=%d\n", -rc); return; }
        psAesReadyGCM(&c, iv1, NULL, 0);
        psAesEncryptGCM(&c, p1, o1, (uint32_t) l1);
        psAesGetGCMTag(&c, (uint8_t) tl1, tag);
        psAesReadyGCM(&c, iv2, aad2, (psSize_t) al2);
        psAesEncryptGCM(&c, p2, o2, (uint32_t) l2);
        psAesGetGCMTag(&c, 16, tag);
        puthex(o2, l2); printf(" "); puthex(tag, 16); printf("\n");
    } else if (!strcmp(op, "gcmz") && g_ntok == 5) {
        unsigned char *key, *iv; size_t kl = unhex(g_tok[1], &key), il = unhex(g_tok[2], &iv);
        size_t total = (size_t) strtoull(g_tok[3], NULL, 10), chunk = (size_t) strtoull(g_tok[4], NULL, 10);
        if (il != 12 || chunk == 0 || chunk > 0xFFFFFFFFUL) { printf("BADCASE\n"); return; }
        unsigned char *z = calloc(1, chunk), *o = malloc(chunk), tag[16];
        psAesGcm_t c;
        if (!z || !o) { printf("NOMEM\n"); return; }
        alarm(600);
        int32_t rc = psAesInitGCM(&c, key, (uint8_t) kl);
        if (rc < 0) { printf("rc=%d\n", -rc); return; }
        psAesReadyGCM(&c, iv, NULL, 0);
        for (size_t done = 0; done < total; done += chunk) {
            size_t n = total - done < chunk ? total - done : chunk;
            psAesDecryptGCMtagless(&c, z, o, (uint32_t) n);
        }
        psAesGetGCMTag(&c, 16, tag);
        puthex(tag, 16); printf("\n");
    } else if (!strcmp(op, "des3") && g_ntok == 8) {
        int enc = g_tok[1][0] == 'e';
        unsigned char *key, *iv, *d0; size_t kl = unhex(g_tok[2], &key), ivl = unhex(g_tok[3], &iv), dl = unhex(g_tok[4], &d0);
        int al = atoi(g_tok[6]) & 15, ip = atoi(g_tok[7]);
        if (kl != DES3_KEYLEN || ivl != DES3_IVLEN || (dl & 7)) { printf("BADCASE\n"); return; }
        unsigned char *in = aligned_copy(d0, dl, al, 0);
        unsigned char *out = ip ? in : aligned_copy(d0, 0, (al * 5 + 3) & 15, dl);
        int ns = parse_splits(g_tok[5], dl, g_spl, MAXSPL);
        psDes3_t c; size_t off = 0;
        int32_t rc = psDes3Init(&c, iv, key);
        if (rc < 0) { printf("rc=%d\n", -rc); return; }
        for (int i = 0; i < ns; i++) {
            if (g_spl[i] & 7) { printf("BADCASE\n"); return; }
            if (enc) psDes3Encrypt(&c, in + off, out + off, (uint32_t) g_spl[i]);
            else psDes3Decrypt(&c, in + off, out + off, (uint32_t) g_spl[i]);
            off += g_spl[i];
        }
        puthex(out, dl); printf("\n");
    } else if (!strcmp(op, "m5s1") && g_ntok == 4) {
        unsigned char *m0; size_t ml = unhex(g_tok[1], &m0);
        int al = atoi(g_tok[3]) & 15;
        unsigned char *m = aligned_copy(m0, ml, al, 0);
        int ns = parse_splits(g_tok[2], ml, g_spl, MAXSPL);
        unsigned char out[MD5SHA1_HASHLEN + 16]; size_t off = 0; psMd5Sha1_t c;
        psMd5Sha1PreInit(&c);
        if (psMd5Sha1Init(&c) < 0) { printf("rc=init\n"); return; }
        for (int i = 0; i < ns; i++) { psMd5Sha1Update(&c, m + off, (uint32_t) g_spl[i]); off += g_spl[i]; }
        psMd5Sha1Final(&c, out);
        puthex(out, MD5SHA1_HASHLEN); printf("\n");
    } else if (!strcmp(op, "aesb") && g_ntok == 6) {
        int enc = g_tok[1][0] == 'e';
        unsigned char *key, *b0; size_t kl = unhex(g_tok[2], &key), bl = unhex(g_tok[3], &b0);
        int al = atoi(g_tok[4]) & 15, ip = atoi(g_tok[5]);
        if (bl != 16) { printf("BADCASE\n"); return; }
        unsigned char *in = aligned_copy(b0, 16, al, 0);
        unsigned char *out = ip ? in : aligned_copy(b0, 0, (al * 5 + 3) & 15, 16);
        psAesKey_t k;
        int32_t rc = psAesInitBlockKey(&k, key, (uint8_t) kl, enc ? PS_AES_ENCRYPT : PS_AES_DECRYPT);
        if (rc < 0) { printf("rc=badkey\n"); return; }          /* which negative code is not part of the property */
        if (enc) psAesEncryptBlock(&k, in, out); else psAesDecryptBlock(&k, in, out);
        puthex(out, 16); printf("\n");
    } else if (!strcmp(op, "pb1") && g_ntok == 3) {
        unsigned char *pw, *salt; size_t pl = unhex(g_tok[1], &pw), sl = unhex(g_tok[2], &salt);
        unsigned char key[24 + 16]; memset(key, 0xA5, sizeof(key));
        if (sl != 8) { printf("BADCASE\n"); return; }
        int32_t rc = psPkcs5Pbkdf1(pw, (uint32) pl, salt, 1, key);
        if (rc < 0) { printf("rc=%d\n", -rc); return; }
        for (int i = 24; i < 40; i++) if (key[i] != 0xA5) { printf("OVERRUN\n"); return; }
        puthex(key, 24); printf("\n");
    } else if (!strcmp(op, "sa2") && g_ntok == 3) {
        unsigned char *m0; size_t ml = unhex(g_tok[1], &m0);
        unsigned char *m = aligned_copy(m0, ml, atoi(g_tok[2]) & 15, 0); unsigned char out[32];
        psSha256Standalone(m, (uint32_t) ml, out);
        puthex(out, 32); printf("\n");
    } else if (!strcmp(op, "s5s") && g_ntok == 3) {
        unsigned char *m0; size_t ml = unhex(g_tok[1], &m0);
        unsigned char *m = aligned_copy(m0, ml, atoi(g_tok[2]) & 15, 0); unsigned char out[64];
        psSha512Single(m, (uint32_t) ml, out);
        puthex(out, 64); printf("\n");
    } else if (!strcmp(op, "hsg") && g_ntok == 4) {
        int id = alg_id(g_tok[1]); unsigned char *m; size_t ml = unhex(g_tok[2], &m);
        int ns = parse_splits(g_tok[3], ml, g_spl, MAXSPL);
        int32_t oid = id == 256 ? OID_SHA256_ALG : id == 384 ? OID_SHA384_ALG : id == 512 ? OID_SHA512_ALG : id == 5 ? OID_MD5_ALG : 0;
        size_t hl = id == 256 ? 32 : id == 384 ? 48 : 64, off = 0;
        psDigestContext_t c; unsigned char out[64 + 16];
        psRes_t rc = psHashInit(&c, oid, NULL);
        if (rc < 0) { printf("rc=%d\n", (int) -rc); return; }
        for (int i = 0; i < ns; i++) { psHashUpdate(&c, m + off, g_spl[i]); off += g_spl[i]; }
        psHashFinal(&c, out);
        puthex(out, hl); printf("\n");
    } else if (!strcmp(op, "hm0") && g_ntok == 4) {
        int id = alg_id(g_tok[1]); unsigned char *k, *m; size_t kl = unhex(g_tok[2], &k), ml = unhex(g_tok[3], &m);
        size_t hl = id == 256 ? 32 : id == 1 ? 20 : id == 384 ? 48 : 16;
        psHmac_t c; unsigned char out[MAX_HASHLEN + 16];
        int32_t rc = psHmacSingle(&c, hmac_type(id), k, (psSize_t) kl, m, ml, out);
        if (rc < 0) { printf("rc=%d\n", -rc); return; }
        puthex(out, hl); printf("\n");
    } else if (!strcmp(op, "chpd") && (g_ntok == 8 || g_ntok == 9)) {
        int enc = g_tok[1][0] == 'e';
        if ((enc && g_ntok != 8) || (!enc && g_ntok != 9)) { printf("BADCASE\n"); return; }
        unsigned char *key, *nonce, *aad0, *d0, *tag0 = NULL; size_t kl = unhex(g_tok[2], &key), nl = unhex(g_tok[3], &nonce), al_ = unhex(g_tok[4], &aad0), dl = unhex(g_tok[5], &d0);
        size_t tl = enc ? 0 : unhex(g_tok[6], &tag0);
        int al = atoi(g_tok[enc ? 6 : 7]) & 15, ip = atoi(g_tok[enc ? 7 : 8]);
        if (kl != 32 || nl != 12 || (!enc && tl != 16)) { printf("BADCASE\n"); return; }
        unsigned char *aad = aligned_copy(aad0, al_, (al * 3 + 1) & 15, 0);
        unsigned char *in = aligned_copy(d0, dl, al, 16);
        unsigned char *out = ip ? in : aligned_copy(d0, 0, (al * 5 + 3) & 15, dl + 16);
        psChacha20Poly1305Ietf_t c; unsigned char tag[16];
        if (psChacha20Poly1305IetfInit(&c, key) < 0) { printf("rc=init\n"); return; }
        if (enc) {
            psResSize_t r = psChacha20Poly1305IetfEncryptDetached(&c, in, dl, nonce, aad, (psSize_t) al_, out, tag);
            if (r < 0) { printf("rc=%d\n", (int) -r); return; }
            puthex(out, dl); printf(" "); puthex(tag, 16); printf("\n");
        } else {
            psResSize_t r = psChacha20Poly1305IetfDecryptDetached(&c, in, dl, nonce, aad, al_, tag0, out);
            if (r == PS_AUTH_FAIL) printf("authfail\n");
            else if (r < 0) printf("rc=%d\n", (int) -r);
            else { printf("ok "); puthex(out, (size_t) r); printf("\n"); }
        }
    } else if (!strcmp(op, "chp") && g_ntok == 8) {
        int enc = g_tok[1][0] == 'e';
        unsigned char *key, *nonce, *aad0, *d0; size_t kl = unhex(g_tok[2], &key), nl = unhex(g_tok[3], &nonce), al_ = unhex(g_tok[4], &aad0), dl = unhex(g_tok[5], &d0);
        int al = atoi(g_tok[6]) & 15, ip = atoi(g_tok[7]);
        if (kl != 32 || nl != 12) { printf("BADCASE\n"); return; }
        unsigned char *aad = aligned_copy(aad0, al_, (al * 3 + 1) & 15, 0);
        unsigned char *in = aligned_copy(d0, dl, al, 16);
        unsigned char *out = ip ? in : aligned_copy(d0, 0, (al * 5 + 3) & 15, dl + 16);
        psChacha20Poly1305Ietf_t c;
        if (psChacha20Poly1305IetfInit(&c, key) < 0) { printf("rc=init\n"); return; }
        if (enc) {
            psResSize_t r = psChacha20Poly1305IetfEncrypt(&c, in, dl, nonce, aad, al_, out);
            if (r < 0) { printf("rc=%d\n", (int) -r); return; }
            puthex(out, (size_t) r); printf("\n");
        } else {
            psResSize_t r = psChacha20Poly1305IetfDecrypt(&c, in, dl, nonce, aad, al_, out);
            if (r == PS_AUTH_FAIL) printf("authfail\n");
            else if (r < 0) printf("rc=%d\n", (int) -r);
            else { printf("ok "); puthex(out, (size_t) r); printf("\n"); }
        }
    } else printf("BADCASE\n");
}

int main(int argc, char **argv)
{
    int nofork = argc > 1 && !strcmp(argv[1], "--nofork");
    static char obuf[1 << 22]; setvbuf(stdout, obuf, _IOFBF, sizeof(obuf));   /* nothing reaches the pipe before the explicit fflush */
    if (psCryptoOpen(PSCRYPTO_CONFIG) < 0) { printf("INITFAIL\n"); return 2; }
    while (next_case()) {
        fflush(stdout);
        if (nofork) { do_case(); fflush(stdout); continue; }
        pid_t pid = fork();
        if (pid == 0) {
            alarm(20);
            do_case(); fflush(stdout); _exit(0);
        }
        int st = 0;
        if (pid < 0 || waitpid(pid, &st, 0) < 0) { printf("FORKFAIL\n"); continue; }
        if (WIFSIGNALED(st)) printf("%s\n", WTERMSIG(st) == SIGALRM ? "HANG" : "CRASH");
        else if (WEXITSTATUS(st) != 0) printf("EXIT%d\n", WEXITSTATUS(st));
        fflush(stdout);
    }
    return 0;
}
