/* sess.h - scriptable two-peer in-memory TLS sessions for the correspondence harnesses.
   Both peers live in this process; records travel through two queues that the script controls
   (deliver one record, drop, save, replay, edit, inject raw bytes).  Entropy and calendar are
   pinned at link time (-Wl,--wrap=psGetEntropy,--wrap=psGetBrokenDownGMTime).  After every API
   call the harness can snapshot hsState / flags of each side through matrixsslImpl.h. */
#ifndef SESS_H
#define SESS_H
#define WRAP_TIME
#include "matrixssl/matrixsslImpl.h"
#include "hcommon.h"
#include "testkeys/RSA/2048_RSA.h"
#include "testkeys/RSA/2048_RSA_KEY.h"
#include "testkeys/RSA/2048_RSA_CA.h"
#include "testkeys/RSA/3072_RSA.h"
#include "testkeys/RSA/3072_RSA_KEY.h"
#include "testkeys/RSA/3072_RSA_CA.h"
#include "testkeys/RSA/4096_RSA.h"
#include "testkeys/RSA/4096_RSA_KEY.h"
#include "testkeys/RSA/4096_RSA_CA.h"
#include "testkeys/EC/256_EC.h"
#include "testkeys/EC/256_EC_KEY.h"
#include "testkeys/EC/256_EC_CA.h"

/* ---------------------------------------------------------------- deterministic entropy */
static int g_quiet = 0;
#define P(...) do { if (!g_quiet) printf(__VA_ARGS__); } while (0)
static uint64_t g_ent_state = 0x9E3779B97F4A7C15ULL;
static void ent_seed(uint64_t s) { g_ent_state = s * 0x9E3779B97F4A7C15ULL + 0x1234567; }
int32 __wrap_psGetEntropy(unsigned char *bytes, uint32 size, void *userPtr)
{
    (void) userPtr;
    for (uint32 i = 0; i < size; i++) {
        g_ent_state ^= g_ent_state << 13; g_ent_state ^= g_ent_state >> 7; g_ent_state ^= g_ent_state << 17;
        bytes[i] = (unsigned char) (g_ent_state >> 24);
    }
    return (int32) size;
}

/* the library's global PRNG keeps state across scenarios of one process: bypass it as well
   (link with --wrap=psGetPrngLocked) so that a scenario's bytes depend on its seed only */
static int32_t (*g_prng_hook)(unsigned char *bytes, psSize_t size) = NULL;   /* harnesses may log / fail individual draws */
#ifndef SESS_NO_PRNG_WRAP
int32_t __wrap_psGetPrngLocked(unsigned char *bytes, psSize_t size, void *userPtr)
{ if (g_prng_hook) return g_prng_hook(bytes, size); return __wrap_psGetEntropy(bytes, size, userPtr); }
#endif

/* the library's trace output goes to stdout and would break the one-line-per-case protocol
   (link with --wrap=_psTrace,--wrap=_psTraceStr,--wrap=_psTraceInt,--wrap=_psTracePtr,--wrap=psTraceBytes) */
#ifndef SESS_NO_TRACE_WRAPS      /* define before including sess.h if your harness provides its own */
void __wrap__psTrace(const char *m) { (void) m; }
void __wrap__psTraceStr(const char *m, const char *v) { (void) m; (void) v; }
void __wrap__psTraceInt(const char *m, int32 v) { (void) m; (void) v; }
void __wrap__psTracePtr(const char *m, const void *v) { (void) m; (void) v; }
# ifndef SESS_NO_TRACEBYTES_WRAP
void __wrap_psTraceBytes(const char *t, const unsigned char *p, int l) { (void) t; (void) p; (void) l; }
# endif
#endif

/* virtual clock (link with --wrap=psGetTime); `tick <secs>` advances it */
static long g_vtime = 1592222400;     /* 2020-06-15 12:00:00 UTC, consistent with the pinned calendar */
int32 __wrap_psGetTime(psTime_t *t, void *userPtr)
{ (void) userPtr; if (t) { t->psTimeAbstract[0] = (unsigned long long) g_vtime; t->psTimeAbstract[1] = 0; } return (int32) g_vtime; }

/* ---------------------------------------------------------------- TLS 1.3 inner content types
   link with --wrap=csAesGcmEncryptTls13,--wrap=csChacha20Poly1305IetfEncryptTls13: the sender's
   TLSInnerPlaintext is visible here, so every sealed record's inner type is known to the driver */
#define ILOG 4096
typedef struct { unsigned char t[ILOG]; int head, tail; } ilog_t;
static ilog_t g_ilog[2];            /* 0: client as sender, 1: server as sender */
static void *g_ssl_of[2];
static void ilog_push(void *ssl, const unsigned char *pt, uint32 len) {
    int w = (ssl == g_ssl_of[1]) ? 1 : 0; unsigned char t = 0;
    for (uint32 i = len; i > 0; i--) if (pt[i-1]) { t = pt[i-1]; break; }
    ilog_t *l = &g_ilog[w]; l->t[l->tail % ILOG] = t; l->tail++;
}
static int ilog_pop(int w) { ilog_t *l = &g_ilog[w]; if (l->head == l->tail) return -1; return l->t[(l->head++) % ILOG]; }
int32 __real_csAesGcmEncryptTls13(void *ssl, unsigned char *pt, unsigned char *ct, uint32 ptLen);
int32 __wrap_csAesGcmEncryptTls13(void *ssl, unsigned char *pt, unsigned char *ct, uint32 ptLen)
{ if (ptLen) ilog_push(ssl, pt, ptLen); return __real_csAesGcmEncryptTls13(ssl, pt, ct, ptLen); }
int32 __real_csChacha20Poly1305IetfEncryptTls13(void *ssl, unsigned char *pt, unsigned char *ct, uint32 ptLen);
int32 __wrap_csChacha20Poly1305IetfEncryptTls13(void *ssl, unsigned char *pt, unsigned char *ct, uint32 ptLen)
{ if (ptLen) ilog_push(ssl, pt, ptLen); return __real_csChacha20Poly1305IetfEncryptTls13(ssl, pt, ct, ptLen); }

/* ---------------------------------------------------------------- queues of records */
#define QCAP (1 << 20)
#define MQ 4096
typedef struct { int outer, inner, sealed, early; int dgend; } rmeta_t;   /* dgend: DTLS - last record of its datagram */
static int g_sdtls = 0;          /* the current scenario runs DTLS sessions (`new dtls=1`): 13-byte record headers, datagram-wise output */
#define SESS_RHL (g_sdtls ? 13 : 5)   /* record header length of the current scenario */
typedef struct { unsigned char *b; size_t len; rmeta_t m[MQ]; int mh, mt; } queue_t;
static void q_init(queue_t *q) { if (!q->b) q->b = malloc(QCAP); q->len = 0; q->mh = q->mt = 1024; }
static void q_meta_push_head(queue_t *q, int outer, int inner, int sealed) { if (q->mh > 0) { q->mh--; rmeta_t *m = &q->m[q->mh % MQ]; m->outer = outer; m->inner = inner; m->sealed = sealed; m->early = 0; m->dgend = 1; } }
static int g_meta_early = 0;   /* set while the sender is a client sealing 0-RTT data under the early traffic key */
static void q_meta_push(queue_t *q, int outer, int inner, int sealed) { rmeta_t *m = &q->m[q->mt++ % MQ]; m->outer = outer; m->inner = inner; m->sealed = sealed; m->early = (sealed && g_meta_early); m->dgend = 1; }
static rmeta_t q_meta_pop(queue_t *q) { rmeta_t z = { -1, -1, -1, 0, 1 }; if (q->mh == q->mt) return z; return q->m[q->mh++ % MQ]; }
static uint64_t g_wire_hash[2] = { 1469598103934665603ULL, 1469598103934665603ULL }; static size_t g_wire_len[2];
static int g_sendchunk = 0;     /* >0: drain outdata by partial sends of this many bytes */
static int g_rbofsize = 0;     /* 1: feed() asks for room with matrixSslGetReadbufOfSize(chunk) instead of matrixSslGetReadbuf */
static int g_callsep = 0;       /* print "/" after every matrixSslReceivedData cycle */
static void q_push(queue_t *q, const unsigned char *d, size_t l) { if (q->len + l <= QCAP) { memcpy(q->b + q->len, d, l); q->len += l; } }
static void q_pop(queue_t *q, size_t l) { memmove(q->b, q->b + l, q->len - l); q->len -= l; }
/* length of the first TLS / DTLS record in the queue (0 if none / incomplete) */
static size_t q_reclen(queue_t *q) {
    size_t h = (size_t) SESS_RHL;
    if (q->len < h) return 0;
    size_t l = h + ((size_t) q->b[h-2] << 8) + q->b[h-1];
    return l <= q->len ? l : 0;
}

/* ---------------------------------------------------------------- peers */
typedef struct {
    ssl_t *ssl; sslKeys_t *keys; int is_server;
    int cb_mode;            /* 0 none, 1 strict (returns alert as is), 2 permissive (returns 0 always) */
    int cb_calls; int cb_last_alert;
    sslSessionId_t *sid;
    int done_events;        /* MATRIXSSL_HANDSHAKE_COMPLETE seen */
    int tx_sealed;          /* <= TLS 1.2: a ChangeCipherSpec has been sent */
    int early_capable;      /* TLS 1.3 client created with 0-RTT enabled (PSK with max_early_data) */
} peer_t;
static peer_t g_c, g_s;
static queue_t g_c2s, g_s2c;
static sslSessionId_t *g_saved_sid = NULL;
static sslKeys_t *g_skeys_persist = NULL;   /* server keys kept across `new` for ticket resumption */

static int32_t cb_common(peer_t *p, int32_t alert) {
    p->cb_calls++; p->cb_last_alert = alert;
    if (p->cb_mode == 2) return 0;
    return alert;
}
static int32_t cb_client(ssl_t *ssl, psX509Cert_t *cert, int32_t alert) { (void) ssl; (void) cert; return cb_common(&g_c, alert); }
static int32_t cb_server(ssl_t *ssl, psX509Cert_t *cert, int32_t alert) { (void) ssl; (void) cert; return cb_common(&g_s, alert); }

static const char *rcname(int rc) {
    static char buf[24];
    switch (rc) {
    case MATRIXSSL_SUCCESS: return "OK";
    case MATRIXSSL_REQUEST_SEND: return "SEND";
    case MATRIXSSL_REQUEST_RECV: return "RECV";
    case MATRIXSSL_REQUEST_CLOSE: return "CLOSE";
    case MATRIXSSL_APP_DATA: return "APPDATA";
    case MATRIXSSL_HANDSHAKE_COMPLETE: return "HSDONE";
    case MATRIXSSL_RECEIVED_ALERT: return "ALERT";
    }
    snprintf(buf, sizeof buf, "E%d", rc); return buf;
}

static void print_snap(peer_t *p) {
    ssl_t *s = p->ssl;
    if (!s) { printf("nil"); return; }
    int edskip = (s->flags & SSL_FLAGS_SERVER) && !s->tls13ServerEarlyDataEnabled && s->extFlags.got_early_data;
    int limbo = s->sid && s->sid->sessionTicketState == SESS_TICKET_STATE_IN_LIMBO;
    printf("v=%d,sv=%d,hs=%d,f=%s%s%s%s,done=%d,err=%d,ed=%d:%d:%d,lb=%d,ig=%d,ce=%d,se=%d,ae=%d,bs=%d,ms=%d,cl=%d,np=%d",
           ACTV_VER(s, v_tls_1_3_any) ? 1 : 0, (s->flags & SSL_FLAGS_SERVER) ? 1 : 0, (int) s->hsState,
           (s->flags & SSL_FLAGS_ERROR) ? "E" : "", (s->flags & SSL_FLAGS_CLOSED) ? "C" : "",
           (s->flags & SSL_FLAGS_READ_SECURE) ? "R" : "", (s->flags & SSL_FLAGS_WRITE_SECURE) ? "W" : "",
           matrixSslHandshakeIsComplete(s) ? 1 : 0, (int) s->err,
           edskip, (int) (s->tls13ReceivedEarlyDataLen & 0x7fffffff), (int) s->tls13SessionMaxEarlyData, limbo, (int) s->ignoredMessageCount,
           s->tls13ClientEarlyDataEnabled ? 1 : 0, s->tls13ServerEarlyDataEnabled ? 1 : 0,
           (s->flags & SSL_FLAGS_AEAD_R) ? 1 : 0, (int) s->deBlockSize, (int) s->deMacSize,
           s->decState == SSL_HS_CCC ? 1 : 0, (s->sid && s->sid->sessionTicketState == SESS_TICKET_STATE_RECVD_EXT) ? 1 : 0);
#ifdef USE_DTLS
    /* DTLS sessions only (TLS snapshots keep their format): expected read epoch, CCS-parsed flag, application-data-exchanged flag,
       replay window (last sequence number, 32-bit bitmap), flight-done flag, pending output bytes, current write epoch,
       SSL_FLAGS_RESUMED, SSL_FLAGS_CLIENT_AUTH (inputs of canResend) */
    if (s->flags & SSL_FLAGS_DTLS)
        printf(",dt=1,xe=%d,pc=%d,ax=%d,lr=%lu,bm=%lx,fd=%d,ol=%d,we=%d,rs=%d,ca=%d", (s->expectedEpoch[0] << 8) | s->expectedEpoch[1], s->parsedCCS ? 1 : 0,
               s->appDataExch ? 1 : 0, ((unsigned long) s->lastRsn[2] << 24) | ((unsigned long) s->lastRsn[3] << 16) | ((unsigned long) s->lastRsn[4] << 8) | s->lastRsn[5],
               (unsigned long) s->dtlsBitmap, (int) s->flightDone, (int) s->outlen, (s->epoch[0] << 8) | s->epoch[1],
               (s->flags & SSL_FLAGS_RESUMED) ? 1 : 0, (s->flags & SSL_FLAGS_CLIENT_AUTH) ? 1 : 0);
#endif
}

/* move whatever the peer wants to send into the queue towards the other side */
static int g_in_poll = 0;
static void poll_rx(peer_t *p);
#ifdef USE_DTLS
/* DTLS: output is fetched datagram by datagram (matrixDtlsGetOutdata / matrixDtlsSentData).  Calling matrixDtlsGetOutdata with
   nothing pending is how an application signals a TIMEOUT (the last flight is rebuilt and sent again), so the harness only
   calls it when output is pending, when matrixSslReceivedData asked for a retransmission (g_dtls_resend, set by feed) or on
   the explicit `resend` command.  Every record goes to the wire queue individually; rmeta.dgend marks datagram ends. */
static int g_dtls_resend = 0;
/* A retransmission request / timeout is followed only on a flight boundary: a client that has sent ClientHello (SERVER_HELLO), its
   second flight (FINISHED, full handshake) or everything (DONE); a server expecting ClientHello, the client's second flight
   (CERTIFICATE with client authentication, else CLIENT_KEY_EXCHANGE), a resuming server expecting Finished, or DONE.  Since the
   repair of canResend (/repo eb793e2) the library refuses the other states itself; before it, rebuilding a flight there
   dereferenced NULL (client midway through the server's flight) or ran into the freed flight list (server between the client's
   ChangeCipherSpec and Finished), which killed the harness process.  Elsewhere the request is logged and not followed, as if the
   retransmission had been lost on the way. */
static int dtls_resend_safe(ssl_t *s) {
    if (s->flags & SSL_FLAGS_SERVER)
        return s->hsState == SSL_HS_CLIENT_HELLO || s->hsState == SSL_HS_DONE || (s->hsState == SSL_HS_FINISHED && (s->flags & SSL_FLAGS_RESUMED))
               || s->hsState == ((s->flags & SSL_FLAGS_CLIENT_AUTH) ? SSL_HS_CERTIFICATE : SSL_HS_CLIENT_KEY_EXCHANGE);
    return s->hsState == SSL_HS_SERVER_HELLO || s->hsState == SSL_HS_DONE || (s->hsState == SSL_HS_FINISHED && !(s->flags & SSL_FLAGS_RESUMED));
}
static size_t flush_out_dtls(peer_t *p) {
    size_t total = 0; unsigned char *buf; int32 n; int guard = 0;
    if (p->ssl->outlen == 0 && !g_dtls_resend) return 0;
    if (p->ssl->outlen == 0 && !dtls_resend_safe(p->ssl)) { g_dtls_resend = 0; P("[resend-skipped]"); return 0; }
    g_dtls_resend = 0;
    while (guard++ < 200) {
        n = matrixDtlsGetOutdata(p->ssl, &buf);
        if (n < 0) {
            P("[getout:E%d]", n);
            /* a failed flight rebuild could leave ssl->outbuf dangling (before /repo 12b3d54): the session object is not touched
               again, not even freed (as h_dtlswin.c does) */
            if (n != PS_PROTOCOL_FAIL) { P("[abandoned]"); p->ssl = NULL; return total; }
            break;
        }
        if (n == 0) break;
        queue_t *q = p->is_server ? &g_s2c : &g_c2s;
        for (int32 hi = 0; hi < n; hi++) { g_wire_hash[p->is_server] = (g_wire_hash[p->is_server] ^ buf[hi]) * 1099511628211ULL; }
        g_wire_len[p->is_server] += (size_t) n;
        q_push(q, buf, (size_t) n);
        size_t off = 0; rmeta_t *last = NULL;
        P("out=[");
        while (off + 13 <= (size_t) n) {
            size_t l = 13 + ((size_t) buf[off+11] << 8) + buf[off+12]; int outer = buf[off];
            int sealed = (buf[off+3] || buf[off+4]) ? 1 : 0;          /* epoch > 0: written under the negotiated keys */
            q_meta_push(q, outer, outer, sealed); last = &q->m[(q->mt - 1) % MQ]; last->dgend = 0;
            P("%d:%d:%d,", outer, outer, sealed);
            off += l;
        }
        if (last) last->dgend = 1;
        P("] ");
        total += (size_t) n;
        int32 rc = matrixDtlsSentData(p->ssl, (uint32) n);
        if (rc == MATRIXSSL_HANDSHAKE_COMPLETE) { p->done_events++; P("[sent:HSDONE]"); }
        else if (rc == MATRIXSSL_REQUEST_CLOSE) { P("[sent:CLOSE]"); break; }
        else if (rc < 0) { P("[sent:E%d]", rc); break; }
    }
    return total;
}
#endif
static size_t flush_out(peer_t *p) {
    size_t total = 0; unsigned char *buf; int32 n;
    if (!p->ssl) return 0;
#ifdef USE_DTLS
    if (p->ssl->flags & SSL_FLAGS_DTLS) return flush_out_dtls(p);
#endif
    while ((n = matrixSslGetOutdata(p->ssl, &buf)) > 0) {
        queue_t *q = p->is_server ? &g_s2c : &g_c2s;
        if (g_sendchunk > 0 && n > g_sendchunk) n = g_sendchunk;
        for (int32 hi = 0; hi < n; hi++) { g_wire_hash[p->is_server] = (g_wire_hash[p->is_server] ^ buf[hi]) * 1099511628211ULL; }
        g_wire_len[p->is_server] += (size_t) n;
        q_push(q, buf, (size_t) n);
        if (g_sendchunk == 0) {   /* per-record metadata: outer type, sealed?, inner type */
            size_t off = 0; int is13 = ACTV_VER(p->ssl, v_tls_1_3_any) ? 1 : 0;
            /* a TLS 1.3 client that has not processed a ServerHello yet can only seal under its early traffic key */
            g_meta_early = (!p->is_server && is13 && p->early_capable && p->ssl->hsState != SSL_HS_DONE) ? 1 : 0;
            P("out=[");
            while (off + 5 <= (size_t) n) {
                size_t l = 5 + ((size_t) buf[off+3] << 8) + buf[off+4]; int outer = buf[off], inner = outer, sealed;
                if (is13) { sealed = (outer == 23); if (sealed) { inner = ilog_pop(p->is_server); } }
                else { sealed = p->tx_sealed; if (outer == 20) p->tx_sealed = 1; }
                q_meta_push(q, outer, inner, sealed);
                P("%d:%d:%d,", outer, inner, sealed);
                off += l;
            }
            g_meta_early = 0;
            P("] ");
        }
        total += (size_t) n;
        int32 rc = matrixSslSentData(p->ssl, (uint32) n);
        if (rc == MATRIXSSL_HANDSHAKE_COMPLETE) { p->done_events++; P("[sent:HSDONE]"); if (!g_in_poll) poll_rx(p); }
        else if (rc == MATRIXSSL_REQUEST_CLOSE) { P("[sent:CLOSE]"); break; }
        else if (rc < 0) { P("[sent:E%d]", rc); break; }
    }
    return total;
}

/* documented idiom (matrixsslNet.c): after matrixSslSentData reports HANDSHAKE_COMPLETE, poll with zero new bytes for
   data the peer sent behind its Finished (TLS False Start) that is still waiting in the input buffer */
static void poll_rx(peer_t *p) {
    unsigned char *pt; uint32 ptlen; int guard = 0;
    if (!p->ssl || p->ssl->inlen <= 0) return;
    g_in_poll = 1;
    int32 rc = matrixSslReceivedData(p->ssl, 0, &pt, &ptlen);
    while (guard++ < 1000) {
        if (rc == MATRIXSSL_APP_DATA || rc == MATRIXSSL_APP_DATA_COMPRESSED) {
            P("APPDATA:"); if (!g_quiet) puthex(pt, ptlen); P(" ");
            rc = matrixSslProcessedData(p->ssl, &pt, &ptlen); continue;
        }
        if (rc == MATRIXSSL_RECEIVED_ALERT) {
            P("ALERT:%d:%d ", ptlen >= 1 ? pt[0] : -1, ptlen >= 2 ? pt[1] : -1);
            rc = matrixSslProcessedData(p->ssl, &pt, &ptlen); continue;
        }
        if (rc == MATRIXSSL_REQUEST_SEND) { P("SEND "); flush_out(p); }
        else if (rc == MATRIXSSL_REQUEST_CLOSE) P("CLOSE ");
        else if (rc < 0) P("E%d ", rc);
        break;
    }
    g_in_poll = 0;
}

/* feed bytes to a peer in chunks of `chunk` (0 = all at once); print every event */
static void feed(peer_t *p, const unsigned char *d, size_t l, size_t chunk) {
    size_t off = 0; int guard = 0;
    if (!p->ssl) { P("nil"); return; }
    if (chunk == 0) chunk = l ? l : 1;
    while (off < l && guard++ < 100000) {
        unsigned char *rb; int32 room;
        if (g_rbofsize) { size_t want = l - off; if (want > chunk) want = chunk; room = matrixSslGetReadbufOfSize(p->ssl, (int32) want, &rb); }   /* the "I have this many bytes" entry point */
        else room = matrixSslGetReadbuf(p->ssl, &rb);
        if (room <= 0) { P("rb:E%d ", room); return; }
        size_t n = l - off; if (n > chunk) n = chunk; if (n > (size_t) room) n = (size_t) room;
        memcpy(rb, d + off, n); off += n;
        unsigned char *pt; uint32 ptlen;
        int32 rc = matrixSslReceivedData(p->ssl, (uint32) n, &pt, &ptlen);
        for (;;) {
            if (rc == MATRIXSSL_APP_DATA || rc == MATRIXSSL_APP_DATA_COMPRESSED) {
                P("APPDATA:"); if (!g_quiet) puthex(pt, ptlen); P(" ");
                rc = matrixSslProcessedData(p->ssl, &pt, &ptlen); continue;
            }
            if (rc == MATRIXSSL_RECEIVED_ALERT) {
                P("ALERT:%d:%d ", ptlen >= 1 ? pt[0] : -1, ptlen >= 2 ? pt[1] : -1);
                rc = matrixSslProcessedData(p->ssl, &pt, &ptlen); continue;
            }
            if (rc == MATRIXSSL_HANDSHAKE_COMPLETE) { p->done_events++; P("HSDONE "); break; }
            if (rc == MATRIXSSL_REQUEST_SEND) {
                P("SEND ");
#ifdef USE_DTLS
                /* DTLS_RETRANSMIT: nothing was encoded, the library asks the application to call matrixDtlsGetOutdata so that the
                   last flight is rebuilt */
                if ((p->ssl->flags & SSL_FLAGS_DTLS) && p->ssl->outlen == 0) { P("RESEND "); g_dtls_resend = 1; }
#endif
                break;
            }
            if (rc == MATRIXSSL_REQUEST_RECV) { break; }
            if (rc == MATRIXSSL_SUCCESS) { P("OK "); break; }
            if (rc == MATRIXSSL_REQUEST_CLOSE) { P("CLOSE "); break; }
            P("E%d ", rc); if (g_callsep) P("{n=%zu in=%d}/ ", n, (int) p->ssl->inlen); return;
        }
        /* outgoing data produced by this input goes to the wire */
        flush_out(p);
        if (g_callsep) P("{n=%zu in=%d}/ ", n, (int) p->ssl->inlen);
        if (rc == MATRIXSSL_REQUEST_CLOSE) return;
    }
}

static void peer_free(peer_t *p) {
    if (p->ssl) matrixSslDeleteSession(p->ssl);
    p->ssl = NULL;
    if (p->keys && p->keys != g_skeys_persist) matrixSslDeleteKeys(p->keys);
    p->keys = NULL;
}

/* configuration of a scenario */
typedef struct {
    int cver[4], ncver, sver[4], nsver;    /* minor versions: 2 = TLS1.1, 3 = TLS1.2, 4 = TLS1.3 */
    psCipher16_t suites[8]; int nsuites;
    int cauth, ccb, scb, key /*0 rsa2048 1 ec256 2 rsa4096*/, resume /*0 none, 1 offer saved sid*/, ticket, ems;
    int cca /* client loads CA: 1 yes(default) 0 no 2 wrong CA */;
    int psk /* external TLS 1.3 PSK on both sides (allows client early data) */, smaxed /* server tls13SessionMaxEarlyData */;
    const char *name; int year; uint64_t seed;
    int keep_skeys;
    int dtls;      /* 1: DTLS sessions (cv/sv minor 3 = DTLS 1.2, 2 = DTLS 1.0) */
} scfg_t;

static psProtocolVersion_t minor2ver(int m) {
    switch (m) { case 2: return v_tls_1_1; case 3: return v_tls_1_2; case 4: return v_tls_1_3; }
    return v_tls_1_2;
}

/* DTLS: version flags as apps/dtls does (SSL_FLAGS_DTLS | SSL_FLAGS_TLS_1_2 enables DTLS 1.2 and 1.0, SSL_FLAGS_DTLS |
   SSL_FLAGS_TLS_1_1 enables DTLS 1.0 only; matrixsslInitVer.c initSupportedVersions) */
static int32 dtls_version_flag(const int *minor, int n) {
    int want12 = (n == 0);
    for (int i = 0; i < n; i++) if (minor[i] >= 3) want12 = 1;
#ifdef USE_DTLS
    return SSL_FLAGS_DTLS | (want12 ? SSL_FLAGS_TLS_1_2 : SSL_FLAGS_TLS_1_1);
#else
    return 0;
#endif
}

static int load_identity(sslKeys_t *k, int key, int with_id, int ca) {
    const unsigned char *cert = NULL, *priv = NULL, *cab = NULL; int32 cl = 0, pl = 0, cal = 0;
    if (!with_id && ca == 0) return 0;          /* nothing to load: an empty key structure */
    if (key == 2) { if (with_id) { cert = RSA4096; cl = sizeof(RSA4096); priv = RSA4096KEY; pl = sizeof(RSA4096KEY); }
                    if (ca == 1) { cab = RSA4096CA; cal = sizeof(RSA4096CA); } else if (ca == 2) { cab = RSA3072CA; cal = sizeof(RSA3072CA); }
                    return matrixSslLoadRsaKeysMem(k, cert, cl, priv, pl, cab, cal); }
    if (key == 0) { if (with_id) { cert = RSA2048; cl = sizeof(RSA2048); priv = RSA2048KEY; pl = sizeof(RSA2048KEY); }
                    if (ca == 1) { cab = RSA2048CA; cal = sizeof(RSA2048CA); } else if (ca == 2) { cab = RSA3072CA; cal = sizeof(RSA3072CA); }
                    return matrixSslLoadRsaKeysMem(k, cert, cl, priv, pl, cab, cal); }
    if (with_id) { cert = EC256; cl = sizeof(EC256); priv = EC256KEY; pl = sizeof(EC256KEY); }
    if (ca == 1) { cab = EC256CA; cal = sizeof(EC256CA); } else if (ca == 2) { cab = RSA3072CA; cal = sizeof(RSA3072CA); }
    return matrixSslLoadEcKeysMem(k, cert, cl, priv, pl, cab, cal);
}

static int sess_new(scfg_t *c) {
    int32 rc;
    peer_free(&g_c); peer_free(&g_s);
    memset(&g_c, 0, sizeof g_c); memset(&g_s, 0, sizeof g_s); g_s.is_server = 1;
    memset(g_ilog, 0, sizeof g_ilog);
    if (!c->keep_skeys) {            /* independent scenarios: reset the library's global state (session cache, PRNG) */
        if (g_skeys_persist) { matrixSslDeleteKeys(g_skeys_persist); g_skeys_persist = NULL; }
        if (g_saved_sid) { matrixSslDeleteSessionId(g_saved_sid); g_saved_sid = NULL; }
        if (c->dtls) ent_seed(c->seed ^ 0x44544c53);      /* matrixSslOpen draws the DTLS cookie secret */
        matrixSslClose(); if (matrixSslOpen() < 0) return -9;
        g_vtime = 1592222400;
    }
    g_sdtls = c->dtls ? 1 : 0;
    g_wire_hash[0] = g_wire_hash[1] = 1469598103934665603ULL; g_wire_len[0] = g_wire_len[1] = 0;
    q_init(&g_c2s); q_init(&g_s2c);
    ent_seed(c->seed);
    g_pin_year = 2020;               /* keys are loaded under a date at which every test certificate is valid */
    /* server keys */
    if (c->keep_skeys && g_skeys_persist) g_s.keys = g_skeys_persist;
    else {
        if (g_skeys_persist) { matrixSslDeleteKeys(g_skeys_persist); g_skeys_persist = NULL; }
        if (matrixSslNewKeys(&g_s.keys, NULL) < 0) return -1;
        if ((rc = load_identity(g_s.keys, c->key, 1, c->cauth ? 1 : 0)) < 0) return rc - 1000;
        if (c->ticket) {
            static const unsigned char tn[16] = "verif-ticketkey"; static unsigned char sk[32], hk[32];
            memset(sk, 0x5a, 32); memset(hk, 0xa5, 32);
            matrixSslLoadSessionTicketKeys(g_s.keys, tn, sk, 32, hk, 32);
        }
        g_skeys_persist = g_s.keys;
    }
    if (matrixSslNewKeys(&g_c.keys, NULL) < 0) return -2;
    if ((rc = load_identity(g_c.keys, c->key, c->cauth ? 1 : 0, c->cca)) < 0) return rc - 2000;
    if (c->psk) {
        static const unsigned char pskv[32] = "verif-external-psk-0123456789ab"; static const unsigned char pskid[] = "verif-psk-id";
        psTls13SessionParams_t pp; memset(&pp, 0, sizeof pp); pp.maxEarlyData = 16384; pp.cipherId = c->nsuites ? c->suites[0] : 0x1301;
        if (!(c->keep_skeys && g_skeys_persist == g_s.keys && c->resume) &&
            matrixSslLoadTls13Psk(g_s.keys, pskv, 32, pskid, sizeof(pskid) - 1, &pp) < 0) return -7;
        if (matrixSslLoadTls13Psk(g_c.keys, pskv, 32, pskid, sizeof(pskid) - 1, &pp) < 0) return -8;
    }
    sslSessOpts_t so; memset(&so, 0, sizeof so);
    psProtocolVersion_t v[4];
    for (int i = 0; i < c->nsver; i++) v[i] = minor2ver(c->sver[i]);
    if (c->dtls) so.versionFlag = dtls_version_flag(c->sver, c->nsver);
    else
    if (c->nsver && (rc = matrixSslSessOptsSetServerTlsVersions(&so, v, c->nsver)) < 0) return rc - 3000;
    if (c->ems < 0) so.extendedMasterSecret = -1;
    if (c->smaxed) so.tls13SessionMaxEarlyData = (psSize_t) c->smaxed;
    g_s.cb_mode = c->scb;
    rc = matrixSslNewServerSession(&g_s.ssl, g_s.keys, c->cauth ? cb_server : NULL, &so);
    if (rc < 0) return rc - 4000;
    if (c->cauth && c->scb == 0) g_s.ssl->sec.validateCert = NULL;
    memset(&so, 0, sizeof so);
    for (int i = 0; i < c->ncver; i++) v[i] = minor2ver(c->cver[i]);
    if (c->dtls) so.versionFlag = dtls_version_flag(c->cver, c->ncver);
    else
    if (c->ncver && (rc = matrixSslSessOptsSetClientTlsVersions(&so, v, c->ncver)) < 0) return rc - 5000;
    if (c->ems < 0) so.extendedMasterSecret = -1;
    if (c->ticket) so.ticketResumption = 1;
    g_c.cb_mode = c->ccb;
    if (c->resume && g_saved_sid) g_c.sid = g_saved_sid;
    else { if (g_saved_sid) { matrixSslDeleteSessionId(g_saved_sid); g_saved_sid = NULL; } matrixSslNewSessionId(&g_saved_sid, NULL); g_c.sid = g_saved_sid; }
    rc = matrixSslNewClientSession(&g_c.ssl, g_c.keys, g_c.sid, c->nsuites ? c->suites : NULL, (uint8_t) c->nsuites,
                                   c->ccb ? cb_client : NULL, c->name, NULL, NULL, &so);
    if (rc != MATRIXSSL_REQUEST_SEND) return rc - 6000;
    if (c->year) g_pin_year = c->year;   /* the handshake itself runs at the requested date (expired / not yet valid certificates) */
    g_ssl_of[0] = g_c.ssl; g_ssl_of[1] = g_s.ssl;
    g_c.early_capable = g_c.ssl->tls13ClientEarlyDataEnabled ? 1 : 0;
    return 0;
}

/* deliver the first record queued in direction dir (0: c2s, 1: s2c); returns 0 if none */
static int deliver_one(int dir, size_t chunk) {
    queue_t *q = dir ? &g_s2c : &g_c2s; peer_t *to = dir ? &g_c : &g_s;
    size_t l = q_reclen(q);
    if (!l) return 0;
    unsigned char *tmp = malloc(l); memcpy(tmp, q->b, l); q_pop(q, l);
    rmeta_t m = q_meta_pop(q);
    if (g_sdtls)    /* DTLS: 13-byte header; epoch and (low 32 bits of the) record sequence number are part of the metadata */
        P("[o=%d i=%d s=%d l=%zu b=%02x%02x e=%d ep=%d sq=%lu dg=%d vr=%02x%02x] ", tmp[0], m.inner, m.sealed, l - 13, l > 13 ? tmp[13] : 0, l > 14 ? tmp[14] : 0, m.early,
          (tmp[3] << 8) | tmp[4], ((unsigned long) tmp[7] << 24) | ((unsigned long) tmp[8] << 16) | ((unsigned long) tmp[9] << 8) | tmp[10], m.dgend, tmp[1], tmp[2]);
    else
    P("[o=%d i=%d s=%d l=%zu b=%02x%02x e=%d] ", tmp[0], m.inner, m.sealed, l - 5, l > 5 ? tmp[5] : 0, l > 6 ? tmp[6] : 0, m.early);
    feed(to, tmp, l, chunk); free(tmp);
    return 1;
}

/* DTLS: deliver the head DATAGRAM of a direction (all records up to the next datagram end) in one receive call */
static int deliver_dgram(int dir) {
    queue_t *q = dir ? &g_s2c : &g_c2s; peer_t *to = dir ? &g_c : &g_s;
    size_t total = 0, off = 0; int nrec = 0;
    if (!q_reclen(q)) return 0;
    P("[dg:");
    for (;;) {
        size_t h = (size_t) SESS_RHL;
        if (q->len - off < h) break;
        size_t l = h + ((size_t) q->b[off+h-2] << 8) + q->b[off+h-1];
        if (off + l > q->len) break;
        rmeta_t m = q_meta_pop(q); nrec++;
        P("%d:%d:%zu,", q->b[off], m.sealed, l - h);
        off += l; total = off;
        if (m.dgend) break;
    }
    P("] ");
    unsigned char *tmp = malloc(total + 1); memcpy(tmp, q->b, total); q_pop(q, total);
    feed(to, tmp, total, 0); free(tmp);
    return nrec;
}

/* run until nothing moves; returns number of records delivered */
static int pump(int quiet) {
    int n = 0, moved = 1, guard = 0; int saveq = g_quiet; g_quiet = quiet || saveq;
    flush_out(&g_c); flush_out(&g_s);
    while (moved && guard++ < 1000) {
        moved = 0;
        while (q_reclen(&g_c2s)) { P("<c2s "); deliver_one(0, 0); P("> "); n++; moved = 1; }
        while (q_reclen(&g_s2c)) { P("<s2c "); deliver_one(1, 0); P("> "); n++; moved = 1; }
    }
    g_quiet = saveq;
    return n;
}
#endif
