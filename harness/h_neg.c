/* h_neg (property C07): negotiation harness.  One case per input line; commands separated by " ; ".

   DIRECT CALLS on prepared ssl_t (extern functions of hsNegotiateVersion.c / tls13KeyAgree.c / cipherSuite.c):
   sv <srv prio csv|-> <legacy ver bits> <has_sv 0|1> <peer prio csv|-> <got13 0|1>
        -> leg=<rc>:<ver>:<alert> sup=<rc>:<ver>:<alert> neg=<rc>:<ver>:<alert> hi=<psVerGetHighestTls> hid=<psVerGetHighest(,1)> lo=<psVerGetLowestTls>
        (checkClientHelloVersion / checkSupportedVersions / tlsServerNegotiateVersion, each on a fresh ssl_t)
   cv <supp bits> <ServerHello version bits>       -> <rc>:<ver>:<alert>         (checkServerHelloVersion)
   dg <supp bits> <8 random-tail bytes hex>        -> <rc>:<alert>               (performTls13DowngradeCheck)
   ips <a csv|-> <b csv|-> <f csv|->               -> <rc>:<selected>            (tls13IntersectionPrioritySelect)
   grp <ours csv> <peer csv|->                     -> <group>                    (tls13NegotiateGroup)
   gcs <server 0|1> <supp bits> <active bits> <disabled hex csv|-> <id hex>   -> 0|1   (sslGetCipherSpec, no key material)
   ccs <key rsa|ec> <supp bits> <active bits> <disabled hex csv|-> <suite hex csv>  -> <rc>:<ident hex>   (chooseCipherSuite)
   dh <key rsa|ec> <supp bits> <active bits> <ops> <suite hex csv>      enable/disable HISTORY through the public API:
        ops = csv of d:<id> e:<id> (matrixSslSetCipherSuiteEnabledStatus(ssl, id, PS_FALSE/PS_TRUE)) and D:<id> E:<id> (ssl == NULL, global)
        -> rc=<0|L|F,...> slots=<hex csv of ssl->disabledCiphers[]> gcs=<0|1 per suite> ccs=<rc>:<ident>      (global state is reset afterwards)
   sg <configured ecFlags hex> <curve id csv|->    -> sg=<rc>:<ecFlags hex>:<ecCurveId>   (tlsParseSupportedGroups on a server ssl_t)
   psa <our sigalgs hex csv> <peer list hex csv>   -> psa=<rc>:<hashSigAlg hex>:<peerSigAlg hex>   (tlsParseSignatureAlgorithms)
   csa <cert sig OID> <key alg OID> <key bytes> <peer mask>   -> csa=<OID|U>      (chooseSigAlgInt)
   enc <enc16 hex>                                 -> <ver bits>                 (psVerFromEncoding)
   dv <c|s>                                        -> supp:prio                  (versions of a session created without options)
   dscsv <client 10|12> <server 10|12|both> <scsv 0|1> [client ecFlags hex] [server ecFlags hex]
                                                   one DTLS handshake in memory (datagram per flight):
                                                   -> dscsv:c=<done>,<ver>,<err> s=<done>,<ver>,<err> srvsupp=.. ec=<client: SKE curve>,<server: chosen curve>,<suite>

   LIVE two-peer sessions (sess.h):
   new k=v ...   cv=<minor list in priority order> sv=<..> suite=<hex,...> (<=32) key=rsa|ec cems=-1|0|1 sems=-1|0|1
                 scsv=0|1 cgrp=<hex,...> sgrp=<hex,...> csig=<hex,...> ssig=<hex,...> sdis=<hex,...> nks=<n> seed=<n>
                 sops=<d:id,e:id,...>  enable/disable history applied to the server session (after sdis)
                 cec=<hex> sec=<hex>   per-session ecFlags (sslSessOpts_t.ecFlags) of client / server
   ec                         -> ec:c=<curve named in ServerKeyExchange>,<ecFlags> s=<ecInfo.ecCurveId>,<ecFlags>
   hs / step <c2s|s2c> [n] / st / q / inj <c|s> <hex>   as in h_sess
   gethead <c2s|s2c>          -> head:<hex of the first queued record>|none
   sethead <c2s|s2c> <hex>    replace the first queued record by these bytes (any length)
   neg                        -> neg:c=<done>,<ver>,<suite>,<group>,<sigalg>,<ems>,<k c2s>,<k s2c>,<err> s=...
   cfgv                       -> cfgv:c=<supportedVersions>:<priority csv> s=...
*/
#define SESS_NO_TRACEBYTES_WRAP
#include "sess.h"

/* the library dumps "have"/"expect" verify_data on stdout when a Finished does not match (hsDecode.c psTraceBytes):
   link with --wrap=psTraceBytes so that the one-line-per-case protocol survives tampered handshakes */
void __wrap_psTraceBytes(const char *tag, const unsigned char *p, int l) { (void) tag; (void) p; (void) l; }

/* ------------------------------------------------------------------ helpers */
static int csv_u32(const char *s, uint32_t *out, int max, int base)
{
    int n = 0; char *e;
    if (!strcmp(s, "-")) return 0;
    while (*s && n < max) { out[n++] = (uint32_t) strtoul(s, &e, base); s = e; if (*s == ',') s++; else break; }
    return n;
}
static uint64_t fnv(uint64_t h, const unsigned char *p, size_t l) { for (size_t i = 0; i < l; i++) { h ^= p[i]; h *= 1099511628211ULL; } return h; }

static ssl_t *blank_ssl(int server)
{
    ssl_t *s = calloc(1, sizeof(ssl_t));
    if (server) s->flags |= SSL_FLAGS_SERVER;
    s->err = SSL_ALERT_NONE;
    return s;
}
static void set_prio(ssl_t *s, uint32_t *v, int n)
{
    s->supportedVersions = 0; s->supportedVersionsPriorityLen = 0;
    for (int i = 0; i < n && i < TLS_MAX_SUPPORTED_VERSIONS; i++) { s->supportedVersions |= v[i]; s->supportedVersionsPriority[s->supportedVersionsPriorityLen++] = v[i]; }
}
static void set_peer(ssl_t *s, uint32_t *v, int n)
{
    s->supportedVersionsPeer = 0; s->peerSupportedVersionsPriorityLen = 0;
    for (int i = 0; i < n && i < TLS_MAX_SUPPORTED_VERSIONS; i++) { s->supportedVersionsPeer |= v[i]; s->peerSupportedVersionsPriority[s->peerSupportedVersionsPriorityLen++] = v[i]; }
}
static void pr_res(const char *tag, int32_t rc, ssl_t *s)
{
    printf("%s=%d:%u:%d", tag, rc < 0 ? -1 : 0, rc < 0 ? 0u : (unsigned) VER_GET_RAW(s->activeVersion), rc < 0 ? (int) s->err : 255);
}

/* ------------------------------------------------------------------ direct calls */
static void do_sv(char **a, int n)
{
    uint32_t sp[16], pp[16]; int nsp, npp;
    if (n < 6) { printf("BADCASE"); return; }
    nsp = csv_u32(a[1], sp, 16, 10); npp = csv_u32(a[4], pp, 16, 10);
    uint32_t legacy = (uint32_t) strtoul(a[2], NULL, 10); int has_sv = atoi(a[3]), got13 = atoi(a[5]);
    for (int k = 0; k < 3; k++) {
        ssl_t *s = blank_ssl(1);
        set_prio(s, sp, nsp);
        s->peerHelloVersion = legacy;
        s->gotTls13CiphersuiteInCH = got13 ? PS_TRUE : PS_FALSE;
        if (has_sv) { s->extFlags.got_supported_versions = 1; set_peer(s, pp, npp); }
        if (k == 0) pr_res("leg", checkClientHelloVersion(s), s);
        else if (k == 1) { if (has_sv) pr_res(" sup", checkSupportedVersions(s), s); else printf(" sup=-"); }
        else pr_res(" neg", tlsServerNegotiateVersion(s), s);
        if (k == 2) printf(" hi=%u hid=%u lo=%u", (unsigned) psVerGetHighestTls(s->supportedVersions), (unsigned) psVerGetHighest(s->supportedVersions, 1),
                           (unsigned) psVerGetLowestTls(s->supportedVersions));
        free(s);
    }
}
static void do_cv(char **a, int n)
{
    if (n < 3) { printf("BADCASE"); return; }
    ssl_t *s = blank_ssl(0);
    s->supportedVersions = (uint32_t) strtoul(a[1], NULL, 10);
    s->peerHelloVersion = (uint32_t) strtoul(a[2], NULL, 10);
    pr_res("cv", checkServerHelloVersion(s), s);
    free(s);
}
static void do_dg(char **a, int n)
{
    if (n < 3) { printf("BADCASE"); return; }
    ssl_t *s = blank_ssl(0); unsigned char *t; size_t l = unhex(a[2], &t);
    s->supportedVersions = (uint32_t) strtoul(a[1], NULL, 10);
    for (int i = 0; i < 24; i++) s->sec.serverRandom[i] = (unsigned char) (i * 7 + 1);
    memcpy(s->sec.serverRandom + 24, t, l < 8 ? l : 8);
    int32_t rc = performTls13DowngradeCheck(s);
    printf("dg=%d:%d", rc < 0 ? -1 : 0, rc < 0 ? (int) s->err : 255);
    free(t); free(s);
}
static void do_ips(char **a, int n)
{
    uint32_t x[32], y[32], f[32]; int nx, ny, nf;
    if (n < 4) { printf("BADCASE"); return; }
    nx = csv_u32(a[1], x, 32, 10); ny = csv_u32(a[2], y, 32, 10); nf = csv_u32(a[3], f, 32, 10);
    uint32_t sel = 0;
    int32_t rc = tls13IntersectionPrioritySelect(x, (psSize_t) nx, y, (psSize_t) ny, nf ? f : NULL, (psSize_t) nf, &sel);
    printf("ips=%d:%u", rc < 0 ? -1 : 0, rc < 0 ? 0u : (unsigned) sel);
}
static void do_grp(char **a, int n)
{
    uint32_t x[32], y[32]; int nx, ny; uint16_t peer[32];
    if (n < 3) { printf("BADCASE"); return; }
    nx = csv_u32(a[1], x, TLS_1_3_MAX_GROUPS, 10); ny = csv_u32(a[2], y, 32, 10);
    if (nx == 0) { printf("BADCASE"); return; }
    ssl_t *s = blank_ssl(1);
    for (int i = 0; i < nx; i++) s->tls13SupportedGroups[i] = (uint16_t) x[i];
    s->tls13SupportedGroupsLen = (psSize_t) nx;
    for (int i = 0; i < ny; i++) peer[i] = (uint16_t) y[i];
    printf("grp=%u", (unsigned) tls13NegotiateGroup(s, peer, (psSize_t) ny));
    free(s);
}
static void set_disabled(ssl_t *s, const char *csv)
{
    uint32_t d[SSL_MAX_DISABLED_CIPHERS]; int nd = csv_u32(csv, d, SSL_MAX_DISABLED_CIPHERS, 16);
    memset(s->disabledCiphers, 0, sizeof s->disabledCiphers);
    for (int i = 0; i < nd; i++) s->disabledCiphers[i] = (uint16) d[i];
}
static void do_gcs(char **a, int n)
{
    if (n < 6) { printf("BADCASE"); return; }
    ssl_t *s = blank_ssl(atoi(a[1]));
    s->supportedVersions = (uint32_t) strtoul(a[2], NULL, 10);
    s->activeVersion = (uint32_t) strtoul(a[3], NULL, 10);
    set_disabled(s, a[4]);
    const sslCipherSpec_t *sp = sslGetCipherSpec(s, (uint16_t) strtoul(a[5], NULL, 16));
    printf("gcs=%d", sp ? 1 : 0);
    free(s);
}
static sslKeys_t *g_dk[2];
static void do_ccs(char **a, int n)
{
    if (n < 6) { printf("BADCASE"); return; }
    int key = !strcmp(a[1], "ec");
    if (!g_dk[key]) { matrixSslNewKeys(&g_dk[key], NULL); if (load_identity(g_dk[key], key, 1, 0) < 0) { printf("KEYFAIL"); return; } }
    sslSessOpts_t so; memset(&so, 0, sizeof so);
    psProtocolVersion_t v[3] = { v_tls_1_3, v_tls_1_2, v_tls_1_1 };
    matrixSslSessOptsSetServerTlsVersions(&so, v, 3);
    ssl_t *s = NULL;
    if (matrixSslNewServerSession(&s, g_dk[key], NULL, &so) < 0) { printf("SESSFAIL"); return; }
    s->supportedVersions = (uint32_t) strtoul(a[2], NULL, 10);
    s->activeVersion = (uint32_t) strtoul(a[3], NULL, 10);
    set_disabled(s, a[4]);
    /* the client is taken to accept every signature algorithm and curve: only list walk, table,
       version and disabled filters and the server's own key type decide */
    s->peerSigAlg = 0xffff; s->hashSigAlg = 0xffff; s->ecInfo.ecFlags = 0xffffff;
    s->rec.majVer = 3;
    uint32_t su[64]; int ns = csv_u32(a[5], su, 64, 16);
    unsigned char lst[128];
    for (int i = 0; i < ns; i++) { lst[2*i] = (unsigned char) (su[i] >> 8); lst[2*i+1] = (unsigned char) su[i]; }
    s->cipher = NULL;
    int32 rc = chooseCipherSuite(s, lst, 2 * ns);
    printf("ccs=%d:%04x", rc < 0 ? -1 : 0, (rc < 0 || !s->cipher) ? 0 : s->cipher->ident);
    matrixSslDeleteSession(s);
}
/* apply an enable/disable history; prints the return codes; remembers globally touched idents for the reset */
static uint16_t g_touched[256]; static int g_ntouched;
static void apply_ops(ssl_t *s, const char *ops, int print)
{
    const char *p = ops; int first = 1;
    if (!strcmp(ops, "-")) return;
    while (*p) {
        char k = *p; if (p[1] != ':') break;
        char *e; unsigned id = (unsigned) strtoul(p + 2, &e, 16);
        int glob = (k == 'D' || k == 'E'), en = (k == 'e' || k == 'E');
        int32_t rc = matrixSslSetCipherSuiteEnabledStatus(glob ? NULL : s, (psCipher16_t) id, en ? PS_TRUE : PS_FALSE);
        if (glob && g_ntouched < 256) g_touched[g_ntouched++] = (uint16_t) id;
        if (print) { if (!first) printf(","); printf("%s", rc == PS_SUCCESS ? "0" : rc == PS_LIMIT_FAIL ? "L" : rc == PS_FAILURE ? "F" : "?"); }
        first = 0; p = e; if (*p == ',') p++; else break;
    }
}
static void reset_global(void)
{
    for (int i = 0; i < g_ntouched; i++) matrixSslSetCipherSuiteEnabledStatus(NULL, g_touched[i], PS_TRUE);
    g_ntouched = 0;
}
static void do_dh(char **a, int n)
{
    if (n < 6) { printf("BADCASE"); return; }
    int key = !strcmp(a[1], "ec");
    if (!g_dk[key]) { matrixSslNewKeys(&g_dk[key], NULL); if (load_identity(g_dk[key], key, 1, 0) < 0) { printf("KEYFAIL"); return; } }
    sslSessOpts_t so; memset(&so, 0, sizeof so);
    psProtocolVersion_t v[3] = { v_tls_1_3, v_tls_1_2, v_tls_1_1 };
    matrixSslSessOptsSetServerTlsVersions(&so, v, 3);
    ssl_t *s = NULL;
    if (matrixSslNewServerSession(&s, g_dk[key], NULL, &so) < 0) { printf("SESSFAIL"); return; }
    printf("rc="); apply_ops(s, a[4], 1);
    printf(" slots="); for (int j = 0; j < SSL_MAX_DISABLED_CIPHERS; j++) printf("%s%x", j ? "," : "", (unsigned) s->disabledCiphers[j]);
    s->supportedVersions = (uint32_t) strtoul(a[2], NULL, 10);
    s->activeVersion = (uint32_t) strtoul(a[3], NULL, 10);
    s->peerSigAlg = 0xffff; s->hashSigAlg = 0xffff; s->ecInfo.ecFlags = 0xffffff; s->rec.majVer = 3;
    uint32_t su[64]; int ns = csv_u32(a[5], su, 64, 16); unsigned char lst[128];
    printf(" gcs=");
    sslKeys_t *kk = s->keys; s->keys = NULL;          /* sslGetCipherSpec without the key-material filter (as in `gcs`) */
    for (int i = 0; i < ns; i++) { lst[2*i] = (unsigned char) (su[i] >> 8); lst[2*i+1] = (unsigned char) su[i];
                                   printf("%s%d", i ? "," : "", sslGetCipherSpec(s, (uint16_t) su[i]) ? 1 : 0); }
    s->keys = kk;
    s->cipher = NULL;
    int32 rc = chooseCipherSuite(s, lst, 2 * ns);
    printf(" ccs=%d:%04x", rc < 0 ? -1 : 0, (rc < 0 || !s->cipher) ? 0 : s->cipher->ident);
    matrixSslDeleteSession(s); reset_global();
}
extern int32_t tlsParseSupportedGroups(ssl_t *ssl, const unsigned char *c, unsigned short extLen);
extern int32_t tlsParseSignatureAlgorithms(ssl_t *ssl, const unsigned char *c, unsigned short extLen);
static void do_sg(char **a, int n)
{
    if (n < 3) { printf("BADCASE"); return; }
    uint32_t ids[64]; int k = csv_u32(a[2], ids, 60, 10); unsigned char ext[2 + 128];
    ssl_t *s = blank_ssl(1);
    s->ecInfo.ecFlags = (uint32_t) strtoul(a[1], NULL, 16);
    ext[0] = (unsigned char) ((2 * k) >> 8); ext[1] = (unsigned char) (2 * k);
    for (int i = 0; i < k; i++) { ext[2 + 2*i] = (unsigned char) (ids[i] >> 8); ext[3 + 2*i] = (unsigned char) ids[i]; }
    int32_t rc = tlsParseSupportedGroups(s, ext, (unsigned short) (2 + 2 * k));
    printf("sg=%d:%x:%u", rc < 0 ? -1 : 0, (unsigned) s->ecInfo.ecFlags, (unsigned) s->ecInfo.ecCurveId);
    free(s);
}
static void do_psa(char **a, int n)
{
    if (n < 3) { printf("BADCASE"); return; }
    uint32_t sup[40], l[64]; int ns = csv_u32(a[1], sup, TLS_MAX_SIGNATURE_ALGORITHMS, 16), k = csv_u32(a[2], l, 60, 16); unsigned char ext[2 + 128];
    ssl_t *s = blank_ssl(1);
    for (int i = 0; i < ns; i++) s->supportedSigAlgs[i] = (uint16_t) sup[i];
    s->supportedSigAlgsLen = (psSize_t) ns;
    ext[0] = (unsigned char) ((2 * k) >> 8); ext[1] = (unsigned char) (2 * k);
    for (int i = 0; i < k; i++) { ext[2 + 2*i] = (unsigned char) (l[i] >> 8); ext[3 + 2*i] = (unsigned char) l[i]; }
    int32_t rc = tlsParseSignatureAlgorithms(s, ext, (unsigned short) (2 + 2 * k));
    printf("psa=%d:%x:%x", rc < 0 ? -1 : 0, (unsigned) s->hashSigAlg, (unsigned) s->peerSigAlg);
    free(s);
}
static void do_csa(char **a, int n)
{
    if (n < 5) { printf("BADCASE"); return; }
    int32_t r = chooseSigAlgInt((int32_t) atoi(a[1]), NULL, (psSize_t) atoi(a[3]), (int32_t) atoi(a[2]), (uint16_t) strtoul(a[4], NULL, 10));
    if (r < 0) printf("csa=U"); else printf("csa=%d", r);
}
static void do_dv(char **a, int n)
{
    sslSessOpts_t so; memset(&so, 0, sizeof so); ssl_t *s = NULL; sslKeys_t *k = NULL;
    int srv = (n >= 2 && a[1][0] == 's');
    matrixSslNewKeys(&k, NULL); load_identity(k, 0, srv, srv ? 0 : 1);
    int32 rc;
    if (srv) rc = matrixSslNewServerSession(&s, k, NULL, &so);
    else { rc = matrixSslNewClientSession(&s, k, NULL, NULL, 0, NULL, NULL, NULL, NULL, &so); if (rc == MATRIXSSL_REQUEST_SEND) rc = 0; }
    if (rc < 0 || !s) { printf("dv=E%d", rc); matrixSslDeleteKeys(k); return; }
    printf("dv=%u:", (unsigned) s->supportedVersions);
    for (unsigned i = 0; i < s->supportedVersionsPriorityLen; i++) printf("%s%u", i ? "," : "", (unsigned) s->supportedVersionsPriority[i]);
    matrixSslDeleteSession(s); matrixSslDeleteKeys(k);
}

/* one DTLS handshake, flights exchanged as datagrams (no loss); the only DTLS-specific live probe: fallback SCSV */
static size_t dtls_move(ssl_t *from, ssl_t *to, int *done_to)
{
    unsigned char *buf; int32 n; size_t total = 0; int guard = 0;
    while ((n = matrixDtlsGetOutdata(from, &buf)) > 0 && guard++ < 64) {
        unsigned char *rb; int32 room = matrixSslGetReadbuf(to, &rb);
        if (room < n) { matrixDtlsSentData(from, (uint32) n); break; }
        memcpy(rb, buf, (size_t) n); total += (size_t) n;
        matrixDtlsSentData(from, (uint32) n);
        unsigned char *pt; uint32 ptlen; int32 rc = matrixSslReceivedData(to, (uint32) n, &pt, &ptlen);
        int g2 = 0;
        while ((rc == MATRIXSSL_APP_DATA || rc == MATRIXSSL_RECEIVED_ALERT) && g2++ < 16) rc = matrixSslProcessedData(to, &pt, &ptlen);
        if (rc == MATRIXSSL_HANDSHAKE_COMPLETE) *done_to = 1;
        if (rc < 0) break;
    }
    return total;
}
static void do_dscsv(char **a, int n)
{
    if (n < 4) { printf("BADCASE"); return; }
    sslKeys_t *sk = NULL, *ckk = NULL; ssl_t *s = NULL, *c = NULL; sslSessOpts_t so;
    ent_seed(7);
    matrixSslNewKeys(&sk, NULL); load_identity(sk, 0, 1, 0);
    matrixSslNewKeys(&ckk, NULL); load_identity(ckk, 0, 0, 1);
    memset(&so, 0, sizeof so);
    so.versionFlag = SSL_FLAGS_DTLS | (strcmp(a[2], "10") ? SSL_FLAGS_TLS_1_2 : SSL_FLAGS_TLS_1_1);
    if (n >= 6) so.ecFlags = (int32) strtoul(a[5], NULL, 16);
    int32 rc = matrixSslNewServerSession(&s, sk, NULL, &so);
    if (rc < 0) { printf("dscsv:snew=%d", rc); goto out; }
    if (!strcmp(a[2], "12")) { s->supportedVersions = v_dtls_1_2; s->supportedVersionsPriority[0] = v_dtls_1_2; s->supportedVersionsPriorityLen = 1; }
    memset(&so, 0, sizeof so);
    so.versionFlag = SSL_FLAGS_DTLS | (strcmp(a[1], "10") ? SSL_FLAGS_TLS_1_2 : SSL_FLAGS_TLS_1_1);
    so.fallbackScsv = (short) atoi(a[3]);
    if (n >= 5) so.ecFlags = (int32) strtoul(a[4], NULL, 16);
    rc = matrixSslNewClientSession(&c, ckk, NULL, NULL, 0, NULL, NULL, NULL, NULL, &so);
    if (rc != MATRIXSSL_REQUEST_SEND) { printf("dscsv:cnew=%d", rc); goto out; }
    {
        int dc = 0, ds = 0;
        for (int round = 0; round < 12; round++) {
            size_t m = dtls_move(c, s, &ds); m += dtls_move(s, c, &dc);
            if (!m || (s->flags & SSL_FLAGS_ERROR) || (c->flags & SSL_FLAGS_ERROR)) break;
            if (matrixSslHandshakeIsComplete(c) && matrixSslHandshakeIsComplete(s)) break;
        }
        printf("dscsv:c=%d,%u,%d s=%d,%u,%d srvsupp=%u", matrixSslHandshakeIsComplete(c) ? 1 : 0, (unsigned) VER_GET_RAW(c->activeVersion), (int) c->err,
               matrixSslHandshakeIsComplete(s) ? 1 : 0, (unsigned) VER_GET_RAW(s->activeVersion), (int) s->err, (unsigned) s->supportedVersions);
        printf(" ec=%u,%u,%04x", (unsigned) c->sec.peerCurveId, (unsigned) s->ecInfo.ecCurveId, s->cipher ? (unsigned) s->cipher->ident : 0u);
    }
out:
    if (c) matrixSslDeleteSession(c); if (s) matrixSslDeleteSession(s);
    if (sk) matrixSslDeleteKeys(sk); if (ckk) matrixSslDeleteKeys(ckk);
}

/* ------------------------------------------------------------------ live sessions */
typedef struct {
    int cver[8], ncver, sver[8], nsver;
    psCipher16_t suites[32]; int nsuites;
    int key, cems, sems, scsv, nks;
    uint32_t cgrp[8], sgrp[8], csig[16], ssig[16], sdis[32]; int ncgrp, nsgrp, ncsig, nssig, nsdis;
    uint64_t seed; const char *sops; uint32_t cec, sec;      /* per-session ecFlags (0 = all compiled-in curves) */
} ncfg_t;

static int neg_new(ncfg_t *c)
{
    int32 rc;
    peer_free(&g_c); peer_free(&g_s);
    memset(&g_c, 0, sizeof g_c); memset(&g_s, 0, sizeof g_s); g_s.is_server = 1;
    memset(g_ilog, 0, sizeof g_ilog);
    q_init(&g_c2s); q_init(&g_s2c);
    ent_seed(c->seed);
    g_pin_year = 2020;
    if (g_skeys_persist) { matrixSslDeleteKeys(g_skeys_persist); g_skeys_persist = NULL; }
    if (matrixSslNewKeys(&g_s.keys, NULL) < 0) return -1;
    if ((rc = load_identity(g_s.keys, c->key, 1, 0)) < 0) return rc - 1000;
    if (matrixSslNewKeys(&g_c.keys, NULL) < 0) return -2;
    if ((rc = load_identity(g_c.keys, c->key, 0, 1)) < 0) return rc - 2000;
    sslSessOpts_t so; memset(&so, 0, sizeof so);
    psProtocolVersion_t v[8]; uint16_t g16[16];
    for (int i = 0; i < c->nsver; i++) v[i] = minor2ver(c->sver[i]);
    if (c->nsver && (rc = matrixSslSessOptsSetServerTlsVersions(&so, v, c->nsver)) < 0) return rc - 3000;
    so.extendedMasterSecret = (short) c->sems;
    so.ecFlags = (int32) c->sec;
    if (c->nsgrp) { for (int i = 0; i < c->nsgrp; i++) g16[i] = (uint16_t) c->sgrp[i]; if ((rc = matrixSslSessOptsSetKeyExGroups(&so, g16, (psSize_t) c->nsgrp, 1)) < 0) return rc - 3100; }
    if (c->nssig) { for (int i = 0; i < c->nssig; i++) g16[i] = (uint16_t) c->ssig[i]; if ((rc = matrixSslSessOptsSetSigAlgs(&so, g16, (psSize_t) c->nssig)) < 0) return rc - 3200; }
    rc = matrixSslNewServerSession(&g_s.ssl, g_s.keys, NULL, &so);
    if (rc < 0) return rc - 4000;
    for (int i = 0; i < c->nsdis; i++) matrixSslSetCipherSuiteEnabledStatus(g_s.ssl, (psCipher16_t) c->sdis[i], PS_FALSE);
    reset_global();                                   /* global switches of the previous scenario */
    if (c->sops) apply_ops(g_s.ssl, c->sops, 0);
    memset(&so, 0, sizeof so);
    for (int i = 0; i < c->ncver; i++) v[i] = minor2ver(c->cver[i]);
    if (c->ncver && (rc = matrixSslSessOptsSetClientTlsVersions(&so, v, c->ncver)) < 0) return rc - 5000;
    so.extendedMasterSecret = (short) c->cems;
    so.fallbackScsv = (short) c->scsv;
    so.ecFlags = (int32) c->cec;
    if (c->ncgrp) { for (int i = 0; i < c->ncgrp; i++) g16[i] = (uint16_t) c->cgrp[i]; if ((rc = matrixSslSessOptsSetKeyExGroups(&so, g16, (psSize_t) c->ncgrp, (psSize_t) (c->nks ? c->nks : 1))) < 0) return rc - 5100; }
    if (c->ncsig) { for (int i = 0; i < c->ncsig; i++) g16[i] = (uint16_t) c->csig[i]; if ((rc = matrixSslSessOptsSetSigAlgs(&so, g16, (psSize_t) c->ncsig)) < 0) return rc - 5200; }
    rc = matrixSslNewClientSession(&g_c.ssl, g_c.keys, NULL, c->nsuites ? c->suites : NULL, (uint8_t) c->nsuites,
                                   NULL, NULL, NULL, NULL, &so);
    if (rc != MATRIXSSL_REQUEST_SEND) return rc - 6000;
    g_ssl_of[0] = g_c.ssl; g_ssl_of[1] = g_s.ssl;
    return 0;
}
static int parse_list(const char *s, int *out, int max) { int n = 0; while (*s && n < max) { out[n++] = atoi(s); while (*s && *s != ',') s++; if (*s) s++; } return n; }
static void do_new(char **a, int n)
{
    ncfg_t c; memset(&c, 0, sizeof c); c.seed = 1;
    for (int i = 0; i < n; i++) {
        char *eq = strchr(a[i], '='); if (!eq) continue; *eq = 0; char *v = eq + 1;
        if (!strcmp(a[i], "cv")) c.ncver = parse_list(v, c.cver, 8);
        else if (!strcmp(a[i], "sv")) c.nsver = parse_list(v, c.sver, 8);
        else if (!strcmp(a[i], "suite")) { uint32_t t[32]; c.nsuites = csv_u32(v, t, 32, 16); for (int k = 0; k < c.nsuites; k++) c.suites[k] = (psCipher16_t) t[k]; }
        else if (!strcmp(a[i], "key")) c.key = !strcmp(v, "ec");
        else if (!strcmp(a[i], "cems")) c.cems = atoi(v);
        else if (!strcmp(a[i], "sems")) c.sems = atoi(v);
        else if (!strcmp(a[i], "scsv")) c.scsv = atoi(v);
        else if (!strcmp(a[i], "nks")) c.nks = atoi(v);
        else if (!strcmp(a[i], "cgrp")) c.ncgrp = csv_u32(v, c.cgrp, 8, 16);
        else if (!strcmp(a[i], "sgrp")) c.nsgrp = csv_u32(v, c.sgrp, 8, 16);
        else if (!strcmp(a[i], "csig")) c.ncsig = csv_u32(v, c.csig, 16, 16);
        else if (!strcmp(a[i], "ssig")) c.nssig = csv_u32(v, c.ssig, 16, 16);
        else if (!strcmp(a[i], "sdis")) c.nsdis = csv_u32(v, c.sdis, 32, 16);
        else if (!strcmp(a[i], "seed")) c.seed = strtoull(v, NULL, 10);
        else if (!strcmp(a[i], "sops")) c.sops = v;
        else if (!strcmp(a[i], "cec")) c.cec = (uint32_t) strtoul(v, NULL, 16);
        else if (!strcmp(a[i], "sec")) c.sec = (uint32_t) strtoul(v, NULL, 16);
    }
    int rc = neg_new(&c);
    if (rc == 0) { g_quiet = 1; flush_out(&g_c); g_quiet = 0; }
    printf("new:%d", rc);
}

static void print_neg(peer_t *p)
{
    ssl_t *s = p->ssl;
    if (!s) { printf("nil"); return; }
    int is13 = ACTV_VER(s, v_tls_1_3_any) ? 1 : 0;
    psCipher16_t id = 0; matrixSslGetNegotiatedCiphersuite(s, &id);
    unsigned sig = is13 ? (p->is_server ? s->sec.tls13CvSigAlg : s->sec.tls13PeerCvSigAlg) : 0;
    uint64_t kc = 14695981039346656037ULL, ks = kc;
    if (is13) {
        kc = fnv(kc, s->sec.tls13AppTrafficSecretClient, MAX_TLS_1_3_HASH_SIZE);
        ks = fnv(ks, s->sec.tls13AppTrafficSecretServer, MAX_TLS_1_3_HASH_SIZE);
    } else {
        /* direction client->server: the client's write keys, the server's read keys */
        const unsigned char *k1 = p->is_server ? s->sec.readKey : s->sec.writeKey, *k2 = p->is_server ? s->sec.writeKey : s->sec.readKey;
        const unsigned char *m1 = p->is_server ? s->sec.readMAC : s->sec.writeMAC, *m2 = p->is_server ? s->sec.writeMAC : s->sec.readMAC;
        const unsigned char *i1 = p->is_server ? s->sec.readIV : s->sec.writeIV, *i2 = p->is_server ? s->sec.writeIV : s->sec.readIV;
        kc = fnv(fnv(kc, k1, SSL_MAX_SYM_KEY_SIZE), m1, SSL_MAX_MAC_SIZE); ks = fnv(fnv(ks, k2, SSL_MAX_SYM_KEY_SIZE), m2, SSL_MAX_MAC_SIZE);
        if (s->cipher && (s->cipher->flags & (CRYPTO_FLAGS_GCM | CRYPTO_FLAGS_CHACHA))) { kc = fnv(kc, i1, 4); ks = fnv(ks, i2, 4); }
    }
    printf("%d,%u,%04x,%u,%u,%d,%016llx,%016llx,%d", matrixSslHandshakeIsComplete(s) ? 1 : 0,
           (unsigned) VER_GET_RAW(matrixSslGetNegotiatedVersion(s)), (unsigned) id, is13 ? (unsigned) s->tls13NegotiatedGroup : 0u, sig,
           (int) s->extFlags.extended_master_secret, (unsigned long long) kc, (unsigned long long) ks, (int) s->err);
}

static void print_cfgv(peer_t *p)
{
    ssl_t *s = p->ssl; if (!s) { printf("nil"); return; }
    printf("%u:", (unsigned) s->supportedVersions);
    for (unsigned i = 0; i < s->supportedVersionsPriorityLen; i++) printf("%s%u", i ? "," : "", (unsigned) s->supportedVersionsPriority[i]);
    if (!s->supportedVersionsPriorityLen) printf("-");
}
static peer_t *side(const char *s) { return s[0] == 's' ? &g_s : &g_c; }
static int dirof(const char *s) { return s[0] == 's' ? 1 : 0; }
static int qcount(queue_t *q) { size_t off = 0; int n = 0; while (off + 5 <= q->len) { size_t l = 5 + ((size_t) q->b[off+3] << 8) + q->b[off+4]; if (off + l > q->len) break; off += l; n++; } return n; }

static void run_cmd(char **a, int n)
{
    if (n == 0) return;
    if (!strcmp(a[0], "sv")) do_sv(a, n);
    else if (!strcmp(a[0], "cv")) do_cv(a, n);
    else if (!strcmp(a[0], "dg")) do_dg(a, n);
    else if (!strcmp(a[0], "ips")) do_ips(a, n);
    else if (!strcmp(a[0], "grp")) do_grp(a, n);
    else if (!strcmp(a[0], "gcs")) do_gcs(a, n);
    else if (!strcmp(a[0], "ccs")) do_ccs(a, n);
    else if (!strcmp(a[0], "dv")) do_dv(a, n);
    else if (!strcmp(a[0], "dh")) do_dh(a, n);
    else if (!strcmp(a[0], "sg")) do_sg(a, n);
    else if (!strcmp(a[0], "psa")) do_psa(a, n);
    else if (!strcmp(a[0], "csa")) do_csa(a, n);
    else if (!strcmp(a[0], "dscsv")) do_dscsv(a, n);
    else if (!strcmp(a[0], "enc") && n >= 2) printf("enc=%u", (unsigned) psVerFromEncoding((uint16_t) strtoul(a[1], NULL, 16)));
    else if (!strcmp(a[0], "new")) do_new(a + 1, n - 1);
    else if (!strcmp(a[0], "hs")) { pump(1); printf("hs:c="); print_snap(&g_c); printf(" s="); print_snap(&g_s); }
    else if (!strcmp(a[0], "neg")) { printf("neg:c="); print_neg(&g_c); printf(" s="); print_neg(&g_s); }
    else if (!strcmp(a[0], "ec")) {        /* <= TLS 1.2 ECDHE curve state: client = curve named in ServerKeyExchange, server = curve picked from the ClientHello */
        printf("ec:c=%u,%x s=%u,%x", g_c.ssl ? (unsigned) g_c.ssl->sec.peerCurveId : 0u, g_c.ssl ? (unsigned) g_c.ssl->ecInfo.ecFlags : 0u,
               g_s.ssl ? (unsigned) g_s.ssl->ecInfo.ecCurveId : 0u, g_s.ssl ? (unsigned) g_s.ssl->ecInfo.ecFlags : 0u);
        if (g_c.ssl) {      /* what the client's hello was built from */
            printf(" cg13="); int f = 1; for (int i = 0; i < TLS_1_3_MAX_GROUPS; i++) if (g_c.ssl->tls13SupportedGroups[i]) { printf("%s%u", f ? "" : ",", (unsigned) g_c.ssl->tls13SupportedGroups[i]); f = 0; } if (f) printf("-");
            printf(" csa="); for (unsigned i = 0; i < g_c.ssl->supportedSigAlgsLen; i++) printf("%s%04x", i ? "," : "", (unsigned) g_c.ssl->supportedSigAlgs[i]); if (!g_c.ssl->supportedSigAlgsLen) printf("-");
            printf(" ckx=%d%d", (g_c.ssl->flags & SSL_FLAGS_DHE_WITH_RSA) ? 1 : 0, (g_c.ssl->flags & SSL_FLAGS_DHE_WITH_DSA) ? 1 : 0);
        }
    }
    else if (!strcmp(a[0], "cfgv")) { printf("cfgv:c="); print_cfgv(&g_c); printf(" s="); print_cfgv(&g_s); }
    else if (!strcmp(a[0], "step") && n >= 2) {
        int k = n >= 3 ? atoi(a[2]) : 1, d = dirof(a[1]);
        for (int i = 0; i < k; i++) {
            if (!q_reclen(d ? &g_s2c : &g_c2s)) { printf("step:none"); break; }
            printf("step:%s pre=", d ? "c" : "s"); print_snap(d ? &g_c : &g_s); printf(" ");
            deliver_one(d, 0); printf("post="); print_snap(d ? &g_c : &g_s); printf(" ");
        }
    }
    else if (!strcmp(a[0], "inj") && n >= 3) {
        unsigned char *d; size_t l = unhex(a[2], &d); peer_t *p = side(a[1]);
        printf("inj:%s pre=", a[1]); print_snap(p); printf(" "); feed(p, d, l, 0); printf("post="); print_snap(p); free(d);
    }
    else if (!strcmp(a[0], "gethead") && n >= 2) {
        queue_t *q = dirof(a[1]) ? &g_s2c : &g_c2s; size_t l = q_reclen(q);
        printf("head:"); if (l) puthex(q->b, l); else printf("none");
    }
    else if (!strcmp(a[0], "sethead") && n >= 3) {
        queue_t *q = dirof(a[1]) ? &g_s2c : &g_c2s; size_t l = q_reclen(q); unsigned char *d; size_t nl = unhex(a[2], &d);
        if (!l || q->len - l + nl > QCAP) printf("sethead:none");
        else { memmove(q->b + nl, q->b + l, q->len - l); memcpy(q->b, d, nl); q->len = q->len - l + nl; printf("sethead:ok"); }
        free(d);
    }
    else if (!strcmp(a[0], "q")) printf("q:c2s=%d,s2c=%d", qcount(&g_c2s), qcount(&g_s2c));
    else if (!strcmp(a[0], "st")) { printf("st:c="); print_snap(&g_c); printf(" s="); print_snap(&g_s); }
    else printf("?%s", a[0]);
}

int main(void)
{
    if (matrixSslOpen() < 0) { printf("INITFAIL\n"); return 2; }
    while (next_case()) {
        int i = 0;
        reset_global();
        while (i < g_ntok) {
            int j = i; while (j < g_ntok && strcmp(g_tok[j], ";") != 0) j++;
            run_cmd(g_tok + i, j - i);
            if (j < g_ntok) printf(" | ");
            i = j + 1;
        }
        printf("\n"); fflush(stdout);
    }
    return 0;
}
