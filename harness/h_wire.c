/* h_wire: C08 harness (built in the "asan" variant: ASan + UBSan + LSan).
   One case per stdin line, one canonical result line per case.

   Exploration (every risky step runs in a forked child; an abort becomes a result line):
     cap <cfg>
         run the legal handshake + one application record each way, one record (TLS) / one
         record-per-datagram (DTLS) at a time; print the transcript:
         "cap n=<units> | <i>:<to c|s>:<hs before>:<kind>:<wire hex>:<plaintext hex|-> ..."
         kind: 0 plaintext, 1 AEAD with explicit nonce (8|pt|tag16), 2 AEAD without nonce (pt|tag16),
               3 TLS 1.3 (pt|type|pad|tag16), 4 CBC (iv|pt|mac|pad)
     x <cfg> <k> <c|s> <flags> <hex> [<hex> ...]
         replay the first k units of the legal transcript, then feed each <hex> with one
         matrixSslGetReadbuf/matrixSslReceivedData(+ProcessedData) cycle to the given side.
         flags: letters  e = input buffer re-allocated to fit exactly (overreads become visible)
                         n = receiver decrypts with the null cipher of the same geometry (the peer
                             that owns the keys is the adversary: chosen plaintext)
                         o = drain the receiver's output after each call (DTLS: matrixDtlsGetOutdata,
                             i.e. including the flight-resend path)
                         t = DTLS: after the input, take one timeout (GetOutdata on an empty outbuf)
                         z / f = before every call the stack below the caller is filled with 0x00 / 0xff, so that a
                             local the library forgot to initialise has that value (heap: ASan malloc_fill_byte 0xbe)
                         s = append " sni=<hex of ssl->expectedName>" to the result
                         r = afterwards the application connects again on the same client session id object / server keys
                             (what the peer made the client store is encoded into the next ClientHello and used):
                             " re=<rc>:<client hsState>/<server hsState>"
         -> "ok rc=<rc,rc,..> hs=<hsState> fl=<E|C|-> in=<inlen>/<insize>"     no finding
            "FAULT <asan|ubsan>:<function>:<kind>"      sanitizer report (child died)
            "HANG"                                      watchdog alarm (5 s)
            "LEAK <function>:<bytes>"                   LeakSanitizer after deleting both sessions
            "BADRC <rc>@<call>"                         undocumented return code
            "BOUNDS <inlen>/<insize>@<call>"            inlen/insize outside 0 <= inlen <= insize <= SSL_MAX_BUF_SIZE
            "FRAGSIZE <n>@<call>"                       handshake reassembly buffer above the 64 KB + header limit
            "ARGCAP <function>:claimed=..."             a length argument claims more room than the target object has
            "CRASH sig=<n>"                             died without a sanitizer report
   Unit operations (compared with the extracted Coq model, ocaml/drv_c08.ml): see the `u` section below.
*/
#include "sess.h"
#include <unistd.h>
#include <signal.h>
#include <fcntl.h>
#include <errno.h>
#include <sys/wait.h>
#include <sys/mman.h>
#include <sanitizer/lsan_interface.h>
#include <sanitizer/asan_interface.h>

#if !defined(__SANITIZE_ADDRESS__) && !defined(C08_HAS_ASAN)
/* plain build (run under valgrind memcheck): no ASan / LSan run time */
void *__asan_region_is_poisoned(void *beg, size_t size) { (void) beg; (void) size; return NULL; }
int __lsan_do_recoverable_leak_check(void) { return 0; }
#endif
const char *__asan_default_options(void) { return "exitcode=97:leak_check_at_exit=0:allocator_may_return_null=1:malloc_context_size=12:detect_stack_use_after_return=0:max_malloc_fill_size=65536:malloc_fill_byte=190:quarantine_size_mb=32"; }
const char *__ubsan_default_options(void) { return "print_stacktrace=1"; }
const char *__lsan_default_options(void) { return "print_suppressions=0"; }

/* ------------------------------------------------------------------ configurations */
/* ticket: the server holds session-ticket keys and the client asks for tickets.
   conn: the transcript is that of a LATER connection; the earlier ones run to completion first (handshake + one
   application record each way), the application-owned state (client sslSessionId_t, server keys / session cache) is
   carried over:   0 single connection
                   1 connection 2 offers what connection 1 left in the session id (ticket / TLS 1.3 PSK, else session id)
                   2 as 1, but the server's ticket key was replaced in between: resumption declined, full handshake,
                     NewSessionTicket for a session id that already holds a ticket
                   3 connection 3: resumption with the renewed ticket of conn 2 */
typedef struct { const char *name; int dtls, cmin, smin, suite, cauth, key, pmtu, ticket, conn, hrr; } wcfg_t;
static const wcfg_t CFGS[] = {
    { "t11",    0, 2, 2, 0,      0, 0, 0 },
    { "t12",    0, 3, 3, 0,      0, 0, 0 },
    { "t12cbc", 0, 3, 3, 0xc027, 0, 0, 0 },
    { "t12rsa", 0, 3, 3, 0x003c, 0, 0, 0 },
    { "t12ca",  0, 3, 3, 0,      1, 0, 0 },
    { "t12ec",  0, 3, 3, 0xc02b, 0, 1, 0 },
    { "t13",    0, 4, 4, 0,      0, 0, 0 },
    { "t13ca",  0, 4, 4, 0,      1, 0, 0 },
    { "t13cha", 0, 4, 4, 0x1303, 0, 0, 0 },
    { "d12",    1, 3, 3, 0xc02f, 0, 0, 0 },
    { "d12ca",  1, 3, 3, 0xc02f, 1, 0, 0 },
    { "d12cbc", 1, 3, 3, 0xc027, 0, 0, 0 },
    { "d12f",   1, 3, 3, 0xc02f, 0, 0, 400 },    /* small PMTU: real fragments in the legal transcript */
    { "d10",    1, 2, 2, 0xc013, 0, 0, 0 },
    /* several connections on one sslSessionId_t / one set of server keys */
    { "t12tk",    0, 3, 3, 0, 0, 0, 0, 1, 0 },   /* first NewSessionTicket */
    { "t12tk2",   0, 3, 3, 0, 0, 0, 0, 1, 1 },   /* resumption by ticket */
    { "t12tkrot", 0, 3, 3, 0, 0, 0, 0, 1, 2 },   /* ticket key rotated: full handshake + ticket renewal */
    { "t12tk3",   0, 3, 3, 0, 0, 0, 0, 1, 3 },   /* resumption with the renewed ticket */
    { "t12rid",   0, 3, 3, 0, 0, 0, 0, 0, 1 },   /* resumption by session id (server cache) */
    { "t13tk",    0, 4, 4, 0, 0, 0, 0, 1, 0 },   /* TLS 1.3 NewSessionTicket */
    { "t13tk2",   0, 4, 4, 0, 0, 0, 0, 1, 1 },   /* TLS 1.3 PSK resumption */
    { "d12rid",   1, 3, 3, 0xc02f, 0, 0, 0, 0, 1 },  /* DTLS resumption by session id */
    /* hrr: the server supports only a group the client listed but sent no key share for: HelloRetryRequest + second ClientHello */
    { "t13hrr",   0, 4, 4, 0, 0, 0, 0, 0, 0, 1 },
    { NULL }
};
static const wcfg_t *find_cfg(const char *n) { for (const wcfg_t *c = CFGS; c->name; c++) if (!strcmp(c->name, n)) return c; return NULL; }
static const wcfg_t *g_cfg;
static int g_default_pmtu;
static int finish_conn(void);

/* DTLS pair (own construction: the transcripts of the first rounds depend on its entropy schedule) */
static int mk_dtls(const wcfg_t *c, int first)
{
    peer_free(&g_c); peer_free(&g_s);
    memset(&g_c, 0, sizeof g_c); memset(&g_s, 0, sizeof g_s); g_s.is_server = 1;
    if (first) {
        if (g_skeys_persist) { matrixSslDeleteKeys(g_skeys_persist); g_skeys_persist = NULL; }
        if (g_saved_sid) { matrixSslDeleteSessionId(g_saved_sid); g_saved_sid = NULL; }
        matrixSslClose(); if (matrixSslOpen() < 0) return -9;
        g_vtime = 1592222400;
    }
    ent_seed(first ? 7 : 8); g_pin_year = 2020;
    matrixDtlsSetPmtu(c->pmtu > 0 ? c->pmtu : g_default_pmtu);
    if (matrixSslNewKeys(&g_s.keys, NULL) < 0) return -1;
    if (load_identity(g_s.keys, c->key, 1, c->cauth ? 1 : 0) < 0) return -2;
    if (matrixSslNewKeys(&g_c.keys, NULL) < 0) return -3;
    if (load_identity(g_c.keys, c->key, c->cauth ? 1 : 0, 1) < 0) return -4;
    sslSessOpts_t so; memset(&so, 0, sizeof so);
    so.versionFlag = SSL_FLAGS_DTLS | (c->smin == 2 ? SSL_FLAGS_TLS_1_1 : SSL_FLAGS_TLS_1_2);
    g_s.cb_mode = 1;
    if (matrixSslNewServerSession(&g_s.ssl, g_s.keys, c->cauth ? cb_server : NULL, &so) < 0) return -5;
    memset(&so, 0, sizeof so);
    so.versionFlag = SSL_FLAGS_DTLS | (c->cmin == 2 ? SSL_FLAGS_TLS_1_1 : SSL_FLAGS_TLS_1_2);
    psCipher16_t cs[1] = { (psCipher16_t) c->suite };
    if (c->conn) {          /* the application keeps one session id object across its connections */
        if (first || !g_saved_sid) { if (g_saved_sid) matrixSslDeleteSessionId(g_saved_sid); g_saved_sid = NULL; if (matrixSslNewSessionId(&g_saved_sid, NULL) < 0) return -7; }
        g_c.sid = g_saved_sid;
    }
    if (matrixSslNewClientSession(&g_c.ssl, g_c.keys, c->conn ? g_saved_sid : NULL, cs, 1, NULL, NULL, NULL, NULL, &so) != MATRIXSSL_REQUEST_SEND) return -6;
    return 0;
}

static int mk_pair(const wcfg_t *c)
{
    int rc;
    g_cfg = c;
    ent_seed(99);       /* matrixSslOpen() below draws global secrets (DTLS cookie key ...): independent of what ran before */
    if (c->dtls) {
        if ((rc = mk_dtls(c, 1)) < 0 || !c->conn) return rc;
        if ((rc = finish_conn()) < 0) return rc;
        return mk_dtls(c, 0);
    }
    scfg_t s; memset(&s, 0, sizeof s); s.cca = 1; s.seed = 7;
    s.ncver = 1; s.cver[0] = c->cmin; s.nsver = 1; s.sver[0] = c->smin;
    if (c->suite) { s.nsuites = 1; s.suites[0] = (psCipher16_t) c->suite; }
    s.cauth = c->cauth; s.scb = c->cauth ? 1 : 0; s.key = c->key; s.ticket = c->ticket;
    if ((rc = sess_new(&s)) < 0) return rc;
    if (c->hrr) {
        uint16_t want = 0; psSize_t nks = g_c.ssl->tls13NumClientHelloKeyShares ? g_c.ssl->tls13NumClientHelloKeyShares : 1;
        for (psSize_t i = nks; i < g_c.ssl->tls13SupportedGroupsLen && !want; i++) want = g_c.ssl->tls13SupportedGroups[i];
        if (!want) return -30;
        memset(g_s.ssl->tls13SupportedGroups, 0, sizeof g_s.ssl->tls13SupportedGroups);
        g_s.ssl->tls13SupportedGroups[0] = want; g_s.ssl->tls13SupportedGroupsLen = 1;
    }
    if (!c->conn) return 0;
    if ((rc = finish_conn()) < 0) return rc;
    if (c->conn >= 2) {     /* the server rotates its ticket key: tickets sealed under the old one can no longer be opened */
        static unsigned char tn[16] = "verif-ticketkey"; static const unsigned char tn2[16] = "verif-ticketke2"; unsigned char sk[32], hk[32];
        memset(sk, 0x6b, 32); memset(hk, 0xb6, 32);
        if (matrixSslDeleteSessionTicketKey(g_skeys_persist, tn) < 0) return -11;
        if (matrixSslLoadSessionTicketKeys(g_skeys_persist, tn2, sk, 32, hk, 32) < 0) return -12;
    }
    s.keep_skeys = 1; s.resume = 1; s.seed = 8;
    if ((rc = sess_new(&s)) < 0 || c->conn < 3) return rc;
    if ((rc = finish_conn()) < 0) return rc;
    s.seed = 9;
    return sess_new(&s);
}

static void drop_pair(void)
{
    peer_free(&g_c); peer_free(&g_s);
    if (g_skeys_persist) { matrixSslDeleteKeys(g_skeys_persist); g_skeys_persist = NULL; }
    if (g_saved_sid) { matrixSslDeleteSessionId(g_saved_sid); g_saved_sid = NULL; }
}

/* ------------------------------------------------------------------ decrypt shims */
static int32 (*g_real_dec)(void *, unsigned char *, unsigned char *, uint32);
static unsigned char *g_logpt; static int g_logptlen, g_logkind;
static int rec_kind(ssl_t *s)
{
    if (!(s->flags & SSL_FLAGS_READ_SECURE)) return 0;
    if (ACTV_VER(s, v_tls_1_3_any)) return 3;
    if (s->flags & SSL_FLAGS_AEAD_R) return (s->flags & SSL_FLAGS_NONCE_R) ? 1 : 2;
    return s->deBlockSize > 1 ? 4 : 0;
}
static int32 shim_log(void *v, unsigned char *in, unsigned char *out, uint32 len)
{
    ssl_t *s = v; int kind = rec_kind(s);
    int32 rc = g_real_dec(v, in, out, len);
    if (rc >= 0 && kind && !g_logpt) {
        int n = (int) len - (kind == 1 ? 24 : kind == 4 ? 0 : 16);
        if (n > 0) { g_logpt = malloc(n); memcpy(g_logpt, out, n); g_logptlen = n; g_logkind = kind; }
    }
    return rc;
}
static int32 shim_null(void *v, unsigned char *in, unsigned char *out, uint32 len)
{
    ssl_t *s = v; int kind = rec_kind(s);
    switch (kind) {
    case 1: if (len < 25) return -1; memmove(out, in + 8, len - 24); return (int32) len;
    case 2: case 3: if (len < 17) return -1; memmove(out, in, len - 16); return (int32) len;
    default: if (out != in) memmove(out, in, len); return (int32) len;
    }
}
static int32 shim_mac_ok(void *ssl, unsigned char type, unsigned char *data, uint32 len, unsigned char *mac) { return 0; }

/* ------------------------------------------------------------------ I/O with invariant checks */
static int g_ncall; static char g_verdict[160];
static int doc_rc(int rc, int fed)
{
    if (rc == 0) return !fed;               /* 0 only as "nothing to do" */
    if (rc >= 1 && rc <= 7) return 1;
    switch (rc) { case PS_FAILURE: case PS_ARG_FAIL: case PS_PLATFORM_FAIL: case PS_MEM_FAIL: case PS_LIMIT_FAIL:
                  case PS_UNSUPPORTED_FAIL: case PS_DISABLED_FEATURE_FAIL: case PS_PROTOCOL_FAIL: case PS_TIMEOUT_FAIL:
                  case PS_INTERRUPT_FAIL: case PS_PARSE_FAIL: case PS_CERT_AUTH_FAIL: case PS_AUTH_FAIL: return 1; }
    return 0;
}
static int check_inv(ssl_t *s, int rc, int fed)
{
    g_ncall++;
    if (g_verdict[0]) return 0;
    if (s->inlen < 0 || s->inlen > s->insize || s->insize > SSL_MAX_BUF_SIZE || s->outlen < 0 || s->outlen > s->outsize)
        { snprintf(g_verdict, sizeof g_verdict, "BOUNDS %d/%d:%d/%d@%d", (int) s->inlen, (int) s->insize, (int) s->outlen, (int) s->outsize, g_ncall); return 0; }
    if (s->fragMessage && (ACTV_VER(s, v_dtls_any) ? s->fragLenStored : s->fragTotal) > 65536 + (uint32) s->hshakeHeadLen)
        { snprintf(g_verdict, sizeof g_verdict, "FRAGSIZE %u@%d", (unsigned) (ACTV_VER(s, v_dtls_any) ? s->fragLenStored : s->fragTotal), g_ncall); return 0; }
    if (!doc_rc(rc, fed)) { snprintf(g_verdict, sizeof g_verdict, "BADRC %d@%d", rc, g_ncall); return 0; }
    return 1;
}

/* ------------------------------------------------------------------ stack painting (differential for uninitialised reads)
   C08_PAINT=<hex byte> in the environment: the unused stack below the current frame is filled with that byte before
   every API call, before every record decode (wrapper of matrixSslDecode: also the second record of one receive call
   starts on a painted stack) and - through link-time wrappers of functions the parsers call between their own sub-parsers
   (psParseBufFromStaticData, psParseTlsVariableLengthVec, psParseBufCopyN, sslUpdateHSHash, tls13TranscriptHashUpdate) -
   in the middle of a call (after the wrapped function returned, i.e. when the stack below the parser is free again), so that a local the library forgot to initialise holds the paint instead of what an earlier
   callee left there.  The same case run with two paints must give the same observables.  (Heap: ASAN_OPTIONS
   malloc_fill_byte, set by the check.)  C08_PAINT=none: nothing is painted (the stack stays as the previous call left it:
   the run that shows a value which is only right because an earlier call left it in the same slot) but the result lines
   have the same format.  `u paint` is the positive control.  In this mode `x` results carry every observable:
   " err=<ssl->err> out=<n>:<fnv of bytes sent + queued> pt=<n>:<fnv of delivered plaintext> sni=<hex> alpn=<hex>" */
static int g_paint = -1, g_obs = 0;   /* C08_PAINT=<hex>: paint byte; C08_PAINT=none: same observables, the stack left as the previous call left it */
static uint32_t g_obs_out = 2166136261u, g_obs_pt = 2166136261u; static long g_obs_outn, g_obs_ptn;
static void obs_mix(uint32_t *h, const unsigned char *b, size_t l) { for (size_t i = 0; i < l; i++) { *h ^= b[i]; *h *= 16777619u; } }
static __attribute__((noinline)) void poison_stack(int byte)
{
    volatile unsigned char pad[56 * 1024];
    memset((void *) pad, byte, sizeof pad);
    __asm__ __volatile__("" : : "r"(pad) : "memory");
}
#define PAINT() do { if (g_paint >= 0) poison_stack(g_paint); } while (0)
int32_t __real_psParseBufFromStaticData(psParseBuf_t *pb, const void *data, size_t len);
int32_t __wrap_psParseBufFromStaticData(psParseBuf_t *pb, const void *data, size_t len) { int32_t r = __real_psParseBufFromStaticData(pb, data, len); PAINT(); return r; }
int __real_psParseTlsVariableLengthVec(const unsigned char *start, const unsigned char *end, psSizeL_t minLen, psSizeL_t maxLen, psSizeL_t *vecDataLen);
int __wrap_psParseTlsVariableLengthVec(const unsigned char *start, const unsigned char *end, psSizeL_t minLen, psSizeL_t maxLen, psSizeL_t *vecDataLen)
{ int r = __real_psParseTlsVariableLengthVec(start, end, minLen, maxLen, vecDataLen); PAINT(); return r; }
int32_t __real_psParseBufCopyN(const psParseBuf_t *pb, size_t reqLen, unsigned char *target, size_t *targetlen);
/* psParseBufCopyN takes the room in `target` in *targetlen: a caller that claims more room than the object has (an
   uninitialised or stale length) is a defect whatever the value happens to be; ASan knows the object */
static char g_argcap[96];
int32_t __wrap_psParseBufCopyN(const psParseBuf_t *pb, size_t reqLen, unsigned char *target, size_t *targetlen)
{
    if (target && targetlen && *targetlen && !g_argcap[0]) {
        size_t n = *targetlen > (1u << 20) ? (1u << 20) : *targetlen;
        if (__asan_region_is_poisoned(target, n))
            snprintf(g_argcap, sizeof g_argcap, "ARGCAP psParseBufCopyN:claimed=%s", *targetlen > (1u << 20) ? "huge" : "beyond-object");
    }
    int32_t r = __real_psParseBufCopyN(pb, reqLen, target, targetlen); PAINT(); return r;
}
int32_t __real_tls13TranscriptHashUpdate(ssl_t *ssl, const unsigned char *in, psSize_t len);
int32_t __wrap_tls13TranscriptHashUpdate(ssl_t *ssl, const unsigned char *in, psSize_t len) { int32_t r = __real_tls13TranscriptHashUpdate(ssl, in, len); PAINT(); return r; }

/* drain the output of a peer; DTLS through matrixDtlsGetOutdata. sink: called per chunk (may be NULL) */
typedef void (*sink_t)(peer_t *from, const unsigned char *b, int n);
static int drain_out(peer_t *p, sink_t sink, int force)
{
    int total = 0; unsigned char *buf; int32 n;
    if (!p->ssl) return 0;
    for (int guard = 0; guard < 64; guard++) {
        PAINT();
        if (g_cfg->dtls) {
            if (p->ssl->outlen <= 0 && !force) break;
            n = matrixDtlsGetOutdata(p->ssl, &buf); force = 0;
        } else n = matrixSslGetOutdata(p->ssl, &buf);
        if (n <= 0) break;
        if (sink) sink(p, buf, n);
        else { obs_mix(&g_obs_out, buf, (size_t) n); g_obs_outn += n; }
        PAINT();
        total += n;
        int32 rc = g_cfg->dtls ? matrixDtlsSentData(p->ssl, (uint32) n) : matrixSslSentData(p->ssl, (uint32) n);
        if (rc == MATRIXSSL_REQUEST_CLOSE || rc < 0) break;
    }
    return total;
}

#define MAXRC 24
static int g_rcs[MAXRC], g_nrc;
/* one GetReadbuf / ReceivedData (+ ProcessedData re-entries) cycle; returns last rc */
static int feed_api(peer_t *p, const unsigned char *d, int l, int exact)
{
    ssl_t *s = p->ssl; unsigned char *rb, *pt; uint32 ptlen; int32 room, rc;
    if (exact && l > 0) {
        /* same effect as matrixSslGetReadbufOfSize on a session configured with a small default */
        if (s->inlen == 0) { psFree(s->inbuf, s->bufferPool); s->inbuf = psMalloc(s->bufferPool, l); s->insize = l; }
        else { s->inbuf = psRealloc(s->inbuf, s->inlen + l, s->bufferPool); s->insize = s->inlen + l; }
    }
    room = matrixSslGetReadbuf(s, &rb);
    if (room < l) {
        if (room <= 0) { if (g_nrc < MAXRC) g_rcs[g_nrc++] = -1000 + room; return -1000; }
        room = matrixSslGetReadbufOfSize(s, l, &rb);
        if (room < l) { if (g_nrc < MAXRC) g_rcs[g_nrc++] = -2000; return -2000; }
    }
    memcpy(rb, d, l);
    PAINT();
    rc = matrixSslReceivedData(s, (uint32) l, &pt, &ptlen);
    if (g_nrc < MAXRC) g_rcs[g_nrc++] = rc;
    if (!check_inv(s, rc, l > 0)) return rc;
    for (int guard = 0; guard < 4096; guard++) {
        if (rc == MATRIXSSL_APP_DATA || rc == MATRIXSSL_APP_DATA_COMPRESSED || rc == MATRIXSSL_RECEIVED_ALERT) {
            if (pt && ptlen) { obs_mix(&g_obs_pt, pt, ptlen); g_obs_ptn += ptlen; }    /* the application reads what it was given */
            PAINT();
            rc = matrixSslProcessedData(s, &pt, &ptlen);
            if (g_nrc < MAXRC) g_rcs[g_nrc++] = rc;
            if (!check_inv(s, rc, 0) ) return rc;
            if (rc == 0) break;
            continue;
        }
        break;
    }
    return rc;
}

/* ------------------------------------------------------------------ transcript */
typedef struct { int to, len, hs, kind, ptlen; unsigned char *b, *pt; } unit_t;
#define MAXU 256
static unit_t U[MAXU]; static int nU, g_head;
static void units_free(void) { for (int i = 0; i < nU; i++) { free(U[i].b); free(U[i].pt); } nU = 0; g_head = 0; }
static void sink_units(peer_t *from, const unsigned char *b, int n)
{
    int hl = g_cfg->dtls ? 13 : 5, off = 0;
    while (off < n && nU < MAXU) {
        int l = n - off;
        if (off + hl <= n) { int rl = hl + ((b[off + hl - 2] << 8) | b[off + hl - 1]); if (rl < l) l = rl; }
        unit_t *u = &U[nU++]; memset(u, 0, sizeof *u);
        u->to = from->is_server ? 0 : 1; u->len = l; u->b = malloc(l); memcpy(u->b, b + off, l);
        off += l;
    }
}
static peer_t *peer_of(int to) { return to ? &g_s : &g_c; }   /* to: 1 = server */

/* deliver legal units until k have been delivered (k < 0: all); log plaintext if cap */
static int g_app_sent;
static int run_prefix(int k, int cap)
{
    int delivered = 0;
    for (int guard = 0; guard < 400; guard++) {
        drain_out(&g_c, sink_units, 0); drain_out(&g_s, sink_units, 0);
        if (g_head == nU) {
            /* handshake finished on both sides: one application record each way, then stop */
            if (g_app_sent < 2 && g_c.ssl->hsState == SSL_HS_DONE && g_s.ssl->hsState == SSL_HS_DONE) {
                peer_t *p = g_app_sent == 0 ? &g_c : &g_s; g_app_sent++;
                matrixSslEncodeToOutdata(p->ssl, (unsigned char *) "hello, world", 12);
                continue;
            }
            break;
        }
        if (k >= 0 && delivered == k) break;
        unit_t *u = &U[g_head++]; peer_t *p = peer_of(u->to);
        u->hs = p->ssl->hsState; u->kind = rec_kind(p->ssl);
        if (cap) { g_real_dec = p->ssl->decrypt; p->ssl->decrypt = shim_log; g_logpt = NULL; }
        int rc = feed_api(p, u->b, u->len, 0);
        if (cap) { if (p->ssl->decrypt == shim_log) p->ssl->decrypt = g_real_dec; u->pt = g_logpt; u->ptlen = g_logptlen; if (g_logpt) u->kind = g_logkind; g_logpt = NULL; }
        delivered++;
        if (rc < 0) return -delivered - 1;
        if (g_cfg->dtls && rc == MATRIXSSL_REQUEST_SEND) drain_out(p, sink_units, 1);
    }
    return delivered;
}

/* run the current connection to completion (an earlier connection of a multi-connection configuration) */
static int finish_conn(void)
{
    units_free(); g_app_sent = 0;
    int rc = run_prefix(-1, 0);
    int ok = rc >= 0 && g_c.ssl->hsState == SSL_HS_DONE && g_s.ssl->hsState == SSL_HS_DONE;
    units_free(); g_app_sent = 0;
    return ok ? 0 : -20;
}

/* ------------------------------------------------------------------ child verdicts */
static int g_errfd = -1;
static void classify_report(char *out, size_t cap)
{
    static char rep[1 << 16];
    ssize_t n = pread(g_errfd, rep, sizeof rep - 1, 0); if (n < 0) n = 0; rep[n] = 0;
    const char *tool = "asan"; char kind[64] = "?"; char rw = '-';
    char *e = strstr(rep, "ERROR: AddressSanitizer: ");
    if (e) { sscanf(e + 25, "%63[^ \n]", kind); if (strstr(e, "\nREAD of size")) rw = 'R'; else if (strstr(e, "\nWRITE of size")) rw = 'W'; }
    else if ((e = strstr(rep, "runtime error: "))) { tool = "ubsan"; int i = 0; for (char *q = e + 15; *q && *q != '\n' && i < 40; q++) kind[i++] = (*q == ' ') ? '_' : *q; kind[i] = 0; }
    else if ((e = strstr(rep, "LeakSanitizer"))) { tool = "lsan"; strcpy(kind, "fatal"); }
    else { snprintf(out, cap, "noreport"); return; }
    /* first frame inside the library */
    char func[96] = "?"; char *q = e;
    while ((q = strstr(q, " in "))) {
        char f[96], file[256]; f[0] = file[0] = 0;
        if (sscanf(q + 4, "%95s %255s", f, file) >= 1) {
            if ((strstr(file, "/matrixssl/") || strstr(file, "/crypto/") || strstr(file, "/core/")) && !strstr(file, "libsanitizer")) { strcpy(func, f); break; }
        }
        q += 4;
        if (q - e > 6000) break;
    }
    snprintf(out, cap, "%s:%s:%s%s%c", tool, func, kind, rw == '-' ? "" : ":", rw == '-' ? 0 : rw);
}
static void classify_leak(char *out, size_t cap)
{
    static char rep[1 << 16];
    ssize_t n = pread(g_errfd, rep, sizeof rep - 1, 0); if (n < 0) n = 0; rep[n] = 0;
    char *e = strstr(rep, "leak of "); long bytes = 0; char func[96] = "?";
    if (e) {
        sscanf(e + 8, "%ld", &bytes);
        /* first frame that is neither the interceptor nor an allocation wrapper */
        char *q = e;
        while ((q = strstr(q, " in "))) {
            char f[96], file[256]; f[0] = file[0] = 0;
            sscanf(q + 4, "%95s %255s", f, file);
            q += 4;
            if (!((f[0] >= 'a' && f[0] <= 'z') || (f[0] >= 'A' && f[0] <= 'Z') || f[0] == '_')) continue;   /* "in 129 object(s)" */
            if (strstr(f, "interceptor") || strstr(file, "libsanitizer") || strstr(file, "asan_")) continue;
            if (!strncmp(f, "psMalloc", 8) || !strncmp(f, "psCalloc", 8) || !strncmp(f, "psRealloc", 9) || !strncmp(f, "psBufInit", 9) ||
                !strncmp(f, "psDynBuf", 8) || !strncmp(f, "psBufFromData", 13)) continue;
            strcpy(func, f); break;
        }
    }
    snprintf(out, cap, "%s:%ld", func, bytes);
}

/* the library traces (psAssert, psTraceBytes) to stdout: results go to a private copy of fd 1 */
static FILE *g_out;
static void emit(const char *s) { fputs(s, g_out); fputc('\n', g_out); fflush(g_out); }
static void outhex(const unsigned char *b, size_t l) { if (l == 0) { fputs("-", g_out); return; } for (size_t i = 0; i < l; i++) fprintf(g_out, "%02x", b[i]); }

/* next connection of the same application: same client session id object, same server keys / session cache */
static int reconnect(void)
{
    const wcfg_t *c = g_cfg; int rc;
    if (c->dtls) rc = mk_dtls(c, 0);
    else {
        scfg_t s; memset(&s, 0, sizeof s); s.cca = 1; s.seed = 11;
        s.ncver = 1; s.cver[0] = c->cmin; s.nsver = 1; s.sver[0] = c->smin;
        if (c->suite) { s.nsuites = 1; s.suites[0] = (psCipher16_t) c->suite; }
        s.cauth = c->cauth; s.scb = c->cauth ? 1 : 0; s.key = c->key; s.ticket = c->ticket;
        s.keep_skeys = 1; s.resume = 1;
        rc = sess_new(&s);
    }
    if (rc < 0) return rc;          /* e.g. the ClientHello could not be encoded: a documented failure of the API */
    units_free(); g_app_sent = 0;
    rc = run_prefix(-1, 0);
    units_free();
    return rc < 0 ? -1 : 1;
}

/* body of the child for an x case */
static void child_x(int to, const char *flags, char **hex, int nhex)
{
    peer_t *p = peer_of(to); char line[1024];
    int exact = strchr(flags, 'e') != NULL, nullc = strchr(flags, 'n') != NULL, out = strchr(flags, 'o') != NULL, tmo = strchr(flags, 't') != NULL;
    g_nrc = 0; g_ncall = 0; g_verdict[0] = 0;
    g_obs_out = g_obs_pt = 2166136261u; g_obs_outn = g_obs_ptn = 0;
    alarm(5);
    if (nullc) { p->ssl->decrypt = shim_null; p->ssl->verifyMac = shim_mac_ok; }
    for (int i = 0; i < nhex && !g_verdict[0]; i++) {
        unsigned char *d; size_t l = unhex(hex[i], &d);
        if (strchr(flags, 'z')) poison_stack(0x00); else if (strchr(flags, 'f')) poison_stack(0xff);
        int rc = feed_api(p, d, (int) l, exact);
        free(d);
        if (out || rc == MATRIXSSL_REQUEST_SEND) drain_out(p, NULL, g_cfg->dtls && rc == MATRIXSSL_REQUEST_SEND);
        if (p->ssl->inlen < 0 || p->ssl->inlen > p->ssl->insize) check_inv(p->ssl, 1, 0);
        if (rc < 0 || rc == MATRIXSSL_REQUEST_CLOSE) break;
    }
    if (tmo && !g_verdict[0] && g_cfg->dtls) { drain_out(p, NULL, 1); check_inv(p->ssl, 1, 0); }
    int n = snprintf(line, sizeof line, "ok rc=");
    for (int i = 0; i < g_nrc; i++) n += snprintf(line + n, sizeof line - n, "%s%d", i ? "," : "", g_rcs[i]);
    snprintf(line + n, sizeof line - n, " hs=%d fl=%s%s in=%d/%d", (int) p->ssl->hsState, (p->ssl->flags & SSL_FLAGS_ERROR) ? "E" : "",
             (p->ssl->flags & SSL_FLAGS_CLOSED) ? "C" : "", (int) p->ssl->inlen, (int) p->ssl->insize);
    if (g_obs) {
        ssl_t *q = p->ssl; n = (int) strlen(line);
        if (q->outlen > 0 && q->outbuf) { obs_mix(&g_obs_out, q->outbuf, (size_t) q->outlen); g_obs_outn += q->outlen; }
        n += snprintf(line + n, sizeof line - n, " err=%d out=%ld:%08x pt=%ld:%08x alpn=", (int) q->err, g_obs_outn, g_obs_out, g_obs_ptn, g_obs_pt);
#ifdef USE_ALPN
        if (!q->alpn || q->alpnLen <= 0) n += snprintf(line + n, sizeof line - n, "-");
        else for (int i = 0; i < q->alpnLen && i < 32; i++) n += snprintf(line + n, sizeof line - n, "%02x", (unsigned char) q->alpn[i]);
#else
        n += snprintf(line + n, sizeof line - n, "off");
#endif
    }
    if (strchr(flags, 's') || g_obs) {
        n = (int) strlen(line); n += snprintf(line + n, sizeof line - n, " sni=");
        if (!p->ssl->expectedName) n += snprintf(line + n, sizeof line - n, "-");
        else for (int i = 0; i < 64 && p->ssl->expectedName[i]; i++) n += snprintf(line + n, sizeof line - n, "%02x", (unsigned char) p->ssl->expectedName[i]);
    }
    if (strchr(flags, 'r') && !g_verdict[0] && g_saved_sid) {
        /* the application connects again with the session id object this connection has (perhaps) written to: whatever the
           peer made the client store (ticket, TLS 1.3 PSK, session id) is now encoded into a ClientHello and used */
        int rc2 = reconnect();
        n = (int) strlen(line); snprintf(line + n, sizeof line - n, " re=%d:%d/%d", rc2, g_c.ssl ? (int) g_c.ssl->hsState : -1, g_s.ssl ? (int) g_s.ssl->hsState : -1);
    }
    if (g_argcap[0] && !g_verdict[0]) snprintf(g_verdict, sizeof g_verdict, "%s", g_argcap);
    if (g_verdict[0]) { emit(g_verdict); _exit(0); }
    /* delete everything that belongs to the sessions, then look for leaks */
    drop_pair(); matrixSslClose();
    if (__lsan_do_recoverable_leak_check()) { char l[160]; classify_leak(l, sizeof l); char o[200]; snprintf(o, sizeof o, "LEAK %s", l); emit(o); _exit(0); }
    emit(line);
    _exit(0);
}

static void run_forked(void (*body)(void *), void *arg)
{
    fflush(stdout); fflush(g_out);
    if (getenv("C08_NOFORK")) { g_errfd = 2; body(arg); return; }     /* debugging: full report on stderr */
    if (g_errfd < 0) g_errfd = memfd_create("c08err", 0);
    ftruncate(g_errfd, 0);
    pid_t pid = fork();
    if (pid == 0) { dup2(g_errfd, 2); lseek(2, 0, SEEK_SET); body(arg); _exit(0); }
    int st = 0; while (waitpid(pid, &st, 0) < 0 && errno == EINTR) ;
    if (WIFEXITED(st) && WEXITSTATUS(st) == 0) return;      /* child printed its line */
    char sig[200], o[260];
    if (WIFSIGNALED(st) && WTERMSIG(st) == SIGALRM) { emit("HANG"); return; }
    classify_report(sig, sizeof sig);
    if (!strcmp(sig, "noreport")) { snprintf(o, sizeof o, "CRASH sig=%d code=%d", WIFSIGNALED(st) ? WTERMSIG(st) : 0, WIFEXITED(st) ? WEXITSTATUS(st) : 0); emit(o); return; }
    snprintf(o, sizeof o, "FAULT %s", sig); emit(o);
}

struct xarg { int to; const char *flags; char **hex; int nhex; };
static void body_x(void *v) { struct xarg *a = v; child_x(a->to, a->flags, a->hex, a->nhex); }

/* state cache: consecutive x cases with the same (cfg,k) reuse the prepared parent state */
static char g_state_cfg[16]; static int g_state_k = -2;
static int prepare_state(const char *cfg, int k)
{
    if (!strcmp(cfg, g_state_cfg) && k == g_state_k) return 0;
    const wcfg_t *c = find_cfg(cfg); if (!c) return -100;
    units_free(); g_app_sent = 0; g_state_k = -2; g_state_cfg[0] = 0;
    int rc = mk_pair(c); if (rc < 0) return rc;
    rc = run_prefix(k, 0);
    if (rc < 0) return -200 + rc;
    if (rc < k) return -300;
    snprintf(g_state_cfg, sizeof g_state_cfg, "%s", cfg); g_state_k = k;
    return 0;
}

static void op_cap(const char *cfg)
{
    const wcfg_t *c = find_cfg(cfg); if (!c) { emit("BADCFG"); return; }
    units_free(); g_app_sent = 0; g_state_k = -2; g_state_cfg[0] = 0;
    int rc = mk_pair(c); if (rc < 0) { fprintf(g_out, "cap MKFAIL %d\n", rc); fflush(g_out); return; }
    rc = run_prefix(-1, 1);
    fprintf(g_out, "cap n=%d rc=%d done=%d%d |", g_head, rc, g_c.ssl->hsState == SSL_HS_DONE, g_s.ssl->hsState == SSL_HS_DONE);
    for (int i = 0; i < g_head; i++) {
        fprintf(g_out, " %d:%c:%d:%d:", i, U[i].to ? 's' : 'c', U[i].hs, U[i].kind); outhex(U[i].b, U[i].len);
        fprintf(g_out, ":"); outhex(U[i].pt, U[i].pt ? U[i].ptlen : 0);
    }
    fprintf(g_out, "\n"); fflush(g_out);
}

static void body_cap(void *arg) { op_cap((const char *) arg); fflush(g_out); _exit(0); }

/*UNIT-OPS*/
/* ------------------------------------------------------------------ unit operations (model correspondence)
   All of them: u <op> <cfg> <k> <c|s> ... ; the parent replays the first k units of the legal transcript of
   <cfg>, the forked child works on the given side through matrixSslDecode (the public decode entry point;
   every input sits in a heap block of exactly its size, so a read past *len is an ASan report).
     u hdr <cfg> <k> <c|s> <hs|-> <expEpoch|-> <pccs> <ade> <hex>
          record header + (DTLS) epoch / replay gate; ssl->decrypt is replaced by a spy that notes where the
          record was handed to the cipher.  -> "pre=<head>:<actv>:<supp>:<hs>:<exp>:<last>:<bm>:<pccs>:<ade0>:<server>
          <D off len | P req | A alert | R rc used> post=<actv>:<exp>:<last>:<bm>"
     u t13 <cfg> <k> <c|s> <hex> [<hex> ...]
          TLS 1.3 plaintext state: record header / CCS loop / handshake message reassembly; one decode call per hex.
          -> per call "<P req | A alert | R rc used> fi=<fragIndex> ft=<fragTotal> fm=<0|1>" joined by " | "
     u tls <cfg> <k> <c|s> <hex> ...      TLS <= 1.2 handshake records; sslUpdateHSHash is wrapped: every message
          handed to hash + parser is logged.  -> per call "<..> fi= ft= fm= [H<len>:<fnv32>...]"
     u dtls <cfg> <k> <c|s> <hex> ...     DTLS handshake records (one datagram per hex)
          -> per call "<..> ft=<fragTotal> fs=<fragLenStored> nh=<used fragHeaders> fm= [F<off>:<len>:<fnv>|I<len>:<fnv>|S<len>...]"
     u api <cfg> <k> <c|s> <insize> <outsize> <outlen> <n> <rc:moved:len:req:err:alert:ctlen:done,...>
          matrixSslGetReadbuf / matrixSslReceivedData / matrixSslProcessedData with matrixSslDecode replaced
          (--wrap) by the scripted answers.  -> "rb=<room> <rc>:<inlen>/<insize>:<outlen>/<outsize> ..."
     u cbc <cfg> <k> <c|s> <hex>
          one record for a session whose read cipher is CBC: null cipher of the same geometry + a verifyMac spy
          -> "pre=<macSize>:<blockSize>:<explicit iv>:<read secure> <V data_off data_len mac_off | A alert>" */
static uint32_t fnv32(const unsigned char *b, size_t l) { uint32_t h = 2166136261u; for (size_t i = 0; i < l; i++) { h ^= b[i]; h *= 16777619u; } return h; }

static unsigned char *g_ubuf; static int g_ulen; static ssl_t *g_ussl;
static int g_spy_off, g_spy_len, g_spy_hit;
static int32 spy_dec(void *v, unsigned char *in, unsigned char *out, uint32 len)
{ if (!g_spy_hit) { g_spy_hit = 1; g_spy_off = (int) (in - g_ubuf); g_spy_len = (int) len; } return -1; }

static int g_mac_hit, g_mac_data, g_mac_len, g_mac_off;
static int32 spy_mac(void *ssl, unsigned char type, unsigned char *data, uint32 len, unsigned char *mac)
{ g_mac_hit = 1; g_mac_data = (int) (data - g_ubuf); g_mac_len = (int) len; g_mac_off = (int) (mac - g_ubuf); return -1; }

static char g_hlog[2048]; static int g_hlogn, g_hlog_on;
int32_t __real_sslUpdateHSHash(ssl_t *ssl, const unsigned char *in, psSize_t len);
int32_t __wrap_sslUpdateHSHash(ssl_t *ssl, const unsigned char *in, psSize_t len)
{
    if (g_hlog_on && ssl == g_ussl && g_hlogn < (int) sizeof g_hlog - 64) {
        if (ssl->fragMessage && in >= ssl->fragMessage && in <= ssl->fragMessage + ssl->fragLenStored && (ACTV_VER(ssl, v_dtls_any)))
            g_hlogn += snprintf(g_hlog + g_hlogn, sizeof g_hlog - g_hlogn, " F%d:%d:%08x", (int) (in - ssl->fragMessage), (int) len, fnv32(in, len));
        else if (g_ubuf && in >= g_ubuf && in <= g_ubuf + g_ulen)
            g_hlogn += snprintf(g_hlog + g_hlogn, sizeof g_hlog - g_hlogn, " %c%d:%08x", g_hlog_on == 2 ? 'I' : 'H', (int) len, fnv32(in, len));
        else if (g_hlog_on == 2) g_hlogn += snprintf(g_hlog + g_hlogn, sizeof g_hlog - g_hlogn, " S%d", (int) len);
        else g_hlogn += snprintf(g_hlog + g_hlogn, sizeof g_hlog - g_hlogn, " H%d:%08x", (int) len, fnv32(in, len));
    }
    { int32_t r = __real_sslUpdateHSHash(ssl, in, len); PAINT(); return r; }
}

/* scripted decoder for `u api` */
typedef struct { int rc, moved, len, req, err, alert, ctlen, done; } dscript_t;
static dscript_t g_ds[32]; static int g_nds, g_dsi, g_ds_on;
int32 __real_matrixSslDecode(ssl_t *ssl, unsigned char **buf, uint32 *len, uint32 size, uint32 *remaining, uint32 *requiredLen,
                             int32 *error, unsigned char *alertLevel, unsigned char *alertDescription);
int32 __wrap_matrixSslDecode(ssl_t *ssl, unsigned char **buf, uint32 *len, uint32 size, uint32 *remaining, uint32 *requiredLen,
                             int32 *error, unsigned char *alertLevel, unsigned char *alertDescription)
{
    if (!g_ds_on) { PAINT();      /* every record starts on a painted stack, also the second record of one receive call */
        return __real_matrixSslDecode(ssl, buf, len, size, remaining, requiredLen, error, alertLevel, alertDescription); }
    static dscript_t more = { SSL_PARTIAL, 0, 0, 5, 0, 255, 0, 0 };      /* script exhausted: "need more data" */
    dscript_t *d = g_dsi < g_nds ? &g_ds[g_dsi] : &more; g_dsi++;
    *buf += d->moved; *len = (uint32) d->len; *requiredLen = (uint32) d->req; *error = d->err;
    *alertLevel = 2; *alertDescription = (unsigned char) d->alert; *remaining = (uint32) (ssl->inlen - d->moved);
    ssl->rec.len = (unsigned short) (d->ctlen - ssl->recordHeadLen);   /* ProcessedData recomputes ctlen from it */
    if (d->done) ssl->hsState = SSL_HS_DONE;
    return d->rc;
}

typedef struct { int rc, used, req, alert; } ures_t;
static ures_t decode_exact(ssl_t *s, const unsigned char *d, int l)
{
    ures_t r; unsigned char *buf = malloc(l ? l : 1); memcpy(buf, d, l);
    unsigned char *p = buf, al = 0, ad = 0; uint32 len = (uint32) l, rem = 0, req = 0; int32 err = 0;
    g_ubuf = buf; g_ulen = l;
    int rc = matrixSslDecode(s, &p, &len, (uint32) l, &rem, &req, &err, &al, &ad);
    r.used = (int) (p - buf);
    if (rc == SSL_FULL) {          /* the response does not fit the (exact) buffer: grow it as matrixSslReceivedData does */
        unsigned char *nb = malloc(req ? req : 1); p = nb; len = 0; uint32 sz = req;
        rc = matrixSslDecode(s, &p, &len, sz, &rem, &req, &err, &al, &ad);
        free(nb);
    }
    r.rc = rc; r.req = (int) req; r.alert = s->err;
    g_ubuf = NULL; free(buf);
    return r;
}
static int fmt_res(char *o, size_t cap, ures_t r)
{
    if (g_spy_hit) return snprintf(o, cap, "D %d %d", g_spy_off, g_spy_len);
    if (r.rc == SSL_PARTIAL) return snprintf(o, cap, "P %d", r.req);
    if (r.rc == SSL_SEND_RESPONSE && r.alert != SSL_ALERT_NONE) return snprintf(o, cap, "A %d", r.alert);
    if (r.rc == MATRIXSSL_SUCCESS || r.rc == DTLS_RETRANSMIT || r.rc == PS_FAILURE) return snprintf(o, cap, "R %d %d", r.rc, r.used);
    return snprintf(o, cap, "X %d %d", r.rc, r.alert);
}
static unsigned long long be48(const unsigned char *b) { unsigned long long v = 0; for (int i = 0; i < 6; i++) v = (v << 8) | b[i]; return v; }

static void child_unit(void *v)
{
    (void) v; char line[4096]; int n = 0;
    const char *op = g_tok[1]; peer_t *p = peer_of(g_tok[4][0] == 's'); ssl_t *s = p->ssl;
    alarm(5); g_ussl = s;
    if (!strcmp(op, "hdr") && g_ntok >= 10) {
        if (strcmp(g_tok[5], "-")) s->hsState = atoi(g_tok[5]);
        if (strcmp(g_tok[6], "-")) { int e = atoi(g_tok[6]); s->expectedEpoch[0] = e >> 8; s->expectedEpoch[1] = e & 0xff; }
        s->parsedCCS = atoi(g_tok[7]); s->appDataExch = atoi(g_tok[8]);
        n += snprintf(line + n, sizeof line - n, "pre=%d:%llx:%llx:%d:%d:%llx:%lx:%d:%d:%d ", (int) s->recordHeadLen,
                      (unsigned long long) s->activeVersion, (unsigned long long) s->supportedVersions, (int) s->hsState,
                      (s->expectedEpoch[0] << 8) | s->expectedEpoch[1], be48(s->lastRsn), (unsigned long) s->dtlsBitmap,
                      s->parsedCCS ? 1 : 0, s->appDataExch == 0, (s->flags & SSL_FLAGS_SERVER) ? 1 : 0);
        s->decrypt = spy_dec; g_spy_hit = 0;
        unsigned char *d; size_t l = unhex(g_tok[9], &d);
        ures_t r = decode_exact(s, d, (int) l);
        n += fmt_res(line + n, sizeof line - n, r);
        n += snprintf(line + n, sizeof line - n, " post=%llx:%d:%llx:%lx", (unsigned long long) s->activeVersion,
                      (s->expectedEpoch[0] << 8) | s->expectedEpoch[1], be48(s->lastRsn), (unsigned long) s->dtlsBitmap);
        emit(line); _exit(0);
    }
    if ((!strcmp(op, "t13") || !strcmp(op, "tls") || !strcmp(op, "dtls")) && g_ntok >= 6) {
        int kind = op[1] == '1' ? 0 : op[0] == 't' ? 1 : 2;
        g_hlog_on = kind == 0 ? 0 : kind; g_spy_hit = 0;
        for (int i = 5; i < g_ntok; i++) {
            unsigned char *d; size_t l = unhex(g_tok[i], &d);
            g_hlogn = 0; g_hlog[0] = 0;
            ures_t r = decode_exact(s, d, (int) l); free(d);
            if (i > 5) n += snprintf(line + n, sizeof line - n, " | ");
            n += fmt_res(line + n, sizeof line - n, r);
            if (kind == 2) {
                int nh = 0; for (int j = 0; j < MAX_FRAGMENTS; j++) if (s->fragHeaders[j].offset != -1) nh++;
                n += snprintf(line + n, sizeof line - n, " ft=%u fs=%u nh=%d fm=%d", (unsigned) s->fragTotal, (unsigned) s->fragLenStored, nh, s->fragMessage != NULL);
            } else
                n += snprintf(line + n, sizeof line - n, " fi=%u ft=%u fm=%d", (unsigned) s->fragIndex, (unsigned) s->fragTotal, s->fragMessage != NULL);
            n += snprintf(line + n, sizeof line - n, "%s", g_hlog);
            if (s->flags & (SSL_FLAGS_ERROR | SSL_FLAGS_CLOSED)) break;
            if (n > (int) sizeof line - 600) break;
        }
        emit(line); _exit(0);
    }
    if (!strcmp(op, "cbc") && g_ntok >= 6) {
        /* CBC record with chosen plaintext: where does the code look for pad and MAC?  verifyMac is a spy */
        s->decrypt = shim_null; s->verifyMac = spy_mac; g_mac_hit = 0;
        unsigned char *d; size_t l = unhex(g_tok[5], &d);
        n += snprintf(line + n, sizeof line - n, "pre=%d:%d:%d:%d ", (int) s->deMacSize, (int) s->deBlockSize,
                      ACTV_VER(s, v_tls_explicit_iv) ? 1 : 0, (s->flags & SSL_FLAGS_READ_SECURE) ? 1 : 0);
        ures_t r = decode_exact(s, d, (int) l);
        if (g_mac_hit) n += snprintf(line + n, sizeof line - n, "V %d %d %d", g_mac_data, g_mac_len, g_mac_off);
        else n += fmt_res(line + n, sizeof line - n, r);
        emit(line); _exit(0);
    }
    if (!strcmp(op, "api") && g_ntok >= 10) {
        int insize = atoi(g_tok[5]), outsize = atoi(g_tok[6]), outlen = atoi(g_tok[7]), nin = atoi(g_tok[8]);
        g_nds = 0; g_dsi = 0;
        for (char *q = g_tok[9]; *q && g_nds < 32; ) {
            dscript_t *d = &g_ds[g_nds++];
            sscanf(q, "%d:%d:%d:%d:%d:%d:%d:%d", &d->rc, &d->moved, &d->len, &d->req, &d->err, &d->alert, &d->ctlen, &d->done);
            while (*q && *q != ',') q++; if (*q) q++;
        }
        psFree(s->inbuf, s->bufferPool); s->inbuf = psMalloc(s->bufferPool, insize); s->insize = insize; s->inlen = 0;
        psFree(s->outbuf, s->bufferPool); s->outbuf = psMalloc(s->bufferPool, outsize); s->outsize = outsize; s->outlen = outlen;
        memset(s->outbuf, 0, outsize); memset(s->inbuf, 0, insize);
        s->bFlags &= ~BFLAG_HS_COMPLETE; s->flags &= ~SSL_FLAGS_FALSE_START;
        unsigned char *rb, *pt; uint32 ptl; int32 room = matrixSslGetReadbuf(s, &rb);
        n += snprintf(line + n, sizeof line - n, "rb=%d", room);
        memset(rb, 0x16, nin);                                   /* the application writes what it received */
        g_ds_on = 1; int oob = 0;
        int rc = matrixSslReceivedData(s, (uint32) nin, &pt, &ptl);
        for (int guard = 0; guard < 40; guard++) {
            n += snprintf(line + n, sizeof line - n, " %d:%d/%d:%d/%d", rc, (int) s->inlen, (int) s->insize, (int) s->outlen, (int) s->outsize);
            if (s->inlen < 0 || s->inlen > s->insize) oob = 1;
            if (rc == MATRIXSSL_APP_DATA || rc == MATRIXSSL_RECEIVED_ALERT) { rc = matrixSslProcessedData(s, &pt, &ptl); continue; }
            break;
        }
        g_ds_on = 0;
        /* a fill level outside the buffer is the fault itself (the next write through matrixSslGetReadbuf lands outside;
           ASan sees it only when it hits a red zone) */
        if (oob) { n += snprintf(line + n, sizeof line - n, " FAULT"); emit(line); _exit(0); }
        /* what the application does next: ask for the read buffer and store one byte there */
        room = matrixSslGetReadbuf(s, &rb);
        if (room > 0) rb[0] = 1;
        n += snprintf(line + n, sizeof line - n, " rb=%d", room);
        emit(line); _exit(0);
    }
    emit("BADUNIT"); _exit(0);
}
/* u pb <hex> <off> <len> <op> ...   the psbuf parse primitives on an object of exactly the given bytes (heap block of
   that size); psParseBufFromStaticData(&pb, object + off, len), then per op "<op>:<result>@<pb.start - object>":
     o octet, h uint16, w uint32, t<n> psParseBufTryParseOctets(store), s<n> the same without storing, f<n> psParseTryForward,
     r psParseTlsRecordHeader, m psParseTlsHandshakeHeader, g psParseGetRemainingLen, k<n> psParseCanRead, e pb.err = 1,
     v<min>,<max> psParseBufParseTlsVector (an accepted body is then read, as every caller does),
     V<s>,<e>,<min>,<max> psParseTlsVariableLengthVec(object + s, object + e, ...) (same),
     c<req>,<tl> psParseBufCopyN into a block of tl bytes, C<req> with a NULL target */
static void child_pb(void *v)
{
    (void) v; char line[8192]; int n = 0; alarm(5);
    unsigned char *tmp; size_t l = unhex(g_tok[2], &tmp);
    unsigned char *obj = malloc(l ? l : 1); memcpy(obj, tmp, l); free(tmp);       /* exact size: unhex() appends a byte */
    long off = atol(g_tok[3]), len = atol(g_tok[4]);
    psParseBuf_t pb; psParseBufFromStaticData(&pb, obj + off, (size_t) len);
    for (int i = 5; i < g_ntok && n < (int) sizeof line - 700; i++) {
        const char *a = g_tok[i]; char op = a[0]; long x = 0, y = 0, z = 0, w = 0;
        sscanf(a + 1, "%ld,%ld,%ld,%ld", &x, &y, &z, &w);
        if (i > 5) line[n++] = ' ';
        if (op == 'o') { unsigned char c; if (psParseOctet(&pb, &c)) n += snprintf(line + n, sizeof line - n, "o:%d", c); else n += snprintf(line + n, sizeof line - n, "o:-"); }
        else if (op == 'h') { uint16_t c; if (psParseBufTryParseBigEndianUint16(&pb, &c)) n += snprintf(line + n, sizeof line - n, "h:%u", c); else n += snprintf(line + n, sizeof line - n, "h:-"); }
        else if (op == 'w') { uint32_t c; if (psParseBufTryParseBigEndianUint32(&pb, &c)) n += snprintf(line + n, sizeof line - n, "w:%u", c); else n += snprintf(line + n, sizeof line - n, "w:-"); }
        else if (op == 't' || op == 's') {
            unsigned char *out = malloc(x ? x : 1); int rc = psParseBufTryParseOctets(&pb, (size_t) x, out, op == 't');
            if (!rc && x) n += snprintf(line + n, sizeof line - n, "%c:-", op);
            else if (op == 't') { n += snprintf(line + n, sizeof line - n, "t:%08x", fnv32(out, (size_t) x)); }
            else n += snprintf(line + n, sizeof line - n, "s:1");
            free(out);
        }
        else if (op == 'f') n += snprintf(line + n, sizeof line - n, "f:%d", psParseTryForward(&pb, (size_t) x));
        else if (op == 'r') { unsigned char t, ma, mi; unsigned short ln; if (psParseTlsRecordHeader(&pb, &t, &ma, &mi, &ln)) n += snprintf(line + n, sizeof line - n, "r:%d,%d,%d,%d", t, ma, mi, ln); else n += snprintf(line + n, sizeof line - n, "r:-"); }
        else if (op == 'm') { unsigned char t; unsigned int ln; if (psParseTlsHandshakeHeader(&pb, &t, &ln)) n += snprintf(line + n, sizeof line - n, "m:%d,%u", t, ln); else n += snprintf(line + n, sizeof line - n, "m:-"); }
        else if (op == 'g') n += snprintf(line + n, sizeof line - n, "g:%zu", psParseGetRemainingLen(&pb));
        else if (op == 'k') n += snprintf(line + n, sizeof line - n, "k:%d", psParseCanRead(&pb, (size_t) x) ? 1 : 0);
        else if (op == 'e') { pb.err = 1; n += snprintf(line + n, sizeof line - n, "e:1"); }
        else if (op == 'v' || op == 'V') {
            psSizeL_t dl = 0; int rc; const unsigned char *body;
            if (op == 'v') { rc = psParseBufParseTlsVector(&pb, (psSizeL_t) x, (psSizeL_t) y, &dl); body = pb.buf.start; }
            else { rc = psParseTlsVariableLengthVec(obj + x, obj + y, (psSizeL_t) z, (psSizeL_t) w, &dl); body = obj + x + (rc > 0 ? rc : 0); }
            if (rc >= 0) { volatile unsigned char acc = 0; for (psSizeL_t j = 0; j < dl; j++) acc ^= body[j]; (void) acc;
                           n += snprintf(line + n, sizeof line - n, "%c:%d,%zu", op, rc, (size_t) dl); }
            else n += snprintf(line + n, sizeof line - n, "%c:%d", op, rc);
        }
        else if (op == 'c' || op == 'C') {
            size_t tl = (size_t) y; unsigned char *tg = op == 'c' ? malloc(tl ? tl : 1) : NULL; if (tg) memset(tg, 0xee, tl ? tl : 1);
            int32_t rc = psParseBufCopyN(&pb, (size_t) x, tg, &tl);
            n += snprintf(line + n, sizeof line - n, "%c:%d,%zu,%08x", op, rc, tl, (rc == PS_SUCCESS && tg) ? fnv32(tg, tl) : 0);
            free(tg);
        }
        else n += snprintf(line + n, sizeof line - n, "?");
        n += snprintf(line + n, sizeof line - n, "@%ld", (long) (pb.buf.start - obj));
    }
    line[n] = 0; emit(line); free(obj); _exit(0);
}

/* u paint   positive control of the stack painter: a frame opened right after a paint point must see nothing but the
   paint byte in its uninitialised locals (no fake stack, no compiler initialisation, the painter not optimised away) */
static __attribute__((noinline)) void probe_stack(int *lo, int *hi)
{
    volatile unsigned char junk[8192];
    __asm__ __volatile__("" : : "r"(junk) : "memory");
    *lo = 255; *hi = 0;
    for (int i = 512; i < 8192 - 512; i += 8) { int c = junk[i]; if (c < *lo) *lo = c; if (c > *hi) *hi = c; }
}
static void child_paint(void *v)
{
    (void) v; char line[64]; int lo = -1, hi = -1;
    PAINT(); probe_stack(&lo, &hi);
    snprintf(line, sizeof line, "paint:%02x-%02x", lo, hi); emit(line); _exit(0);
}

static void op_unit(void)
{
    if (g_ntok >= 2 && !strcmp(g_tok[1], "paint")) { run_forked(child_paint, NULL); return; }
    if (g_ntok >= 5 && !strcmp(g_tok[1], "pb")) { run_forked(child_pb, NULL); return; }
    if (g_ntok < 5) { emit("BADCASE"); return; }
    int rc = prepare_state(g_tok[2], atoi(g_tok[3]));
    if (rc < 0) { fprintf(g_out, "PREPFAIL %d\n", rc); fflush(g_out); return; }
    run_forked(child_unit, NULL);
}
/*END-UNIT-OPS*/

int main(void)
{
    signal(SIGPIPE, SIG_IGN);
    g_out = fdopen(dup(1), "w");
    { int nul = open("/dev/null", O_WRONLY); if (nul >= 0) { dup2(nul, 1); close(nul); } }
    if (matrixSslOpen() < 0) { emit("INITFAIL"); return 2; }
    g_default_pmtu = matrixDtlsGetPmtu();
    if (getenv("C08_PAINT")) { g_obs = 1; if (strcmp(getenv("C08_PAINT"), "none")) g_paint = (int) strtol(getenv("C08_PAINT"), NULL, 16) & 0xff; }
    g_quiet = 1;
    while (next_case()) {
        if (g_ntok >= 2 && !strcmp(g_tok[0], "cap")) run_forked(body_cap, g_tok[1]);     /* a sanitizer abort costs this trace only */
        else if (g_ntok >= 6 && !strcmp(g_tok[0], "x")) {
            int k = atoi(g_tok[2]); int rc = prepare_state(g_tok[1], k);
            if (rc < 0) { fprintf(g_out, "PREPFAIL %d\n", rc); fflush(g_out); continue; }
            struct xarg a = { g_tok[3][0] == 's', g_tok[4], g_tok + 5, g_ntok - 5 };
            run_forked(body_x, &a);
        }
        else if (g_ntok >= 2 && !strcmp(g_tok[0], "u")) op_unit();
        else emit("BADCASE");
    }
    fflush(g_out);
    _exit(0);
}
