/* h_nonce: C17 seal-history logger on top of sess.h (two in-memory TLS peers, pinned entropy / PRNG / clock).
   One scenario per input line; commands separated by " ; " (same style as h_sess.c):
     new k=v ...        as h_sess (cv= sv= suite= cauth= ccb= scb= key= resume= ticket= name= seed= cca= keepkeys=)
                        psk=1 (external TLS 1.3 PSK on both sides) smaxed=<n> (server option tls13SessionMaxEarlyData)
                        plus maxed=<n>  (server: tls13SessionMaxEarlyData, early data offered in tickets / accepted)
                             sgroup=<id> (server supports only this key-exchange group: 24 = secp384r1 forces a HelloRetryRequest)
     hs | pumpv         pump both ways until quiescent
     step <c2s|s2c> [n] deliver the next n records
     inj <c|s> <hex>    feed raw bytes (attacker) to a side
     app <c|s> <hex>    matrixSslEncodeToOutdata (non in-situ; fragments large writes), flush
     appn <c|s> <len> <count>   count calls of matrixSslEncodeToOutdata(len pattern bytes) BEFORE one flush
     appw <c|s> <len>   in-situ send: matrixSslGetWritebuf + matrixSslEncodeWritebuf (len 0 = empty record), flush
     closure <c|s>      matrixSslEncodeClosureAlert, flush
     drop <c2s|s2c> [n] remove n head records of a queue
     xor <c2s|s2c> <offset> <hexbyte>   edit the head record of a queue
     prngfail <n>       the n-th NEXT psGetPrngLocked call fails (returns -1, bytes untouched)
     ivfail <n>         the n-th NEXT psGetPrngLocked call that writes into a session's output buffer fails
     st                 snapshot of both sides
   DTLS 1.2 (datagram queues; the log of such a connection starts with the marker D and numbers records by epoch||rsn):
     dnew suite=.. key=.. cauth=.. seed=..   create DTLS client + server, queue the first ClientHello flight
     dstep <c2s|s2c> [n] | dpump | ddrop <dir> [n] | ddup <dir> | dtimeout <c|s> (retransmit) | dapp <c|s> <hex> | dclosure <c|s> | dq
   Output line:  <command results joined by " | ">  ||  <event log>
   Event log tokens (space separated, fields ':' separated), in program order:
     AW:<side>:<seq before>:<suite>:<keyfp>:<iv>    sslActivateWriteCipher entered (seq, cipher ident, hash of the key and the IV about to be installed)
     ER:<side>:<seq before>                         tls13ActivateEarlyDataReadKeys entered
     I:<who>:<g|c|b>:<keyfp>                        psAesInitGCM / psChacha20Poly1305IetfInit / psAesInitCBC(encrypt)
     S:<who>:<g|c>:<keyfp>:<nonce>:<seq>:<iv>:<rectype>:<ptlen>:<pthash>:<ct8>:<v13>   one AEAD seal
     M:<who>:<rectype>:<seq>:<len>:<pthash>         tlsHMACSha1/2(HMAC_CREATE): the sequence number bound into the MAC
     B:<who>:<keyfp>:<len>:<pt block 0>:<ct block 0>:<ct last block>            psAesEncryptCBC
     P:<idx>:<size>:<rc>:<dest>:<first 16 bytes>    psGetPrngLocked (dest: co/so = inside that side's record buffers, x = elsewhere);
                                                    output idx of a connection = f(seed, idx), independent of everything else
     W:<side>:<outer type>:<len>:<first 16 body bytes>:<last 16 body bytes>     record handed to the transport
     Q:<side>:<seq>                                 write sequence number at the end of the scenario
   who = c|s (peer) followed by w (its encrypt context) or r (its decrypt context); "xx" = not a record context. */
#define __wrap_psGetPrngLocked sess_prng_bytes      /* sess.h's deterministic generator, kept as the byte source */
#include "sess.h"
#undef __wrap_psGetPrngLocked
#include <stddef.h>
#include <stdarg.h>

/* ---------------------------------------------------------------- event log */
static char *g_ev; static size_t g_evlen, g_evcap;
static void ev(const char *fmt, ...)
{
    va_list ap; char tmp[1024];
    va_start(ap, fmt); int n = vsnprintf(tmp, sizeof tmp, fmt, ap); va_end(ap);
    if (n < 0) return; if ((size_t) n >= sizeof tmp) n = sizeof tmp - 1;
    if (g_evlen + (size_t) n + 2 > g_evcap) { g_evcap = (g_evcap + n + 2) * 2; g_ev = realloc(g_ev, g_evcap); }
    memcpy(g_ev + g_evlen, tmp, (size_t) n); g_evlen += (size_t) n; g_ev[g_evlen++] = ' '; g_ev[g_evlen] = 0;
}
static const char *hx(const unsigned char *b, size_t l)
{
    static char buf[8][160]; static int k; char *o = buf[k++ & 7];
    if (l == 0 || !b) { strcpy(o, "-"); return o; }
    if (l > 64) l = 64;
    for (size_t i = 0; i < l; i++) sprintf(o + 2 * i, "%02x", b[i]);
    return o;
}
static uint64_t fnv(const unsigned char *b, size_t l)
{ uint64_t h = 1469598103934665603ULL; for (size_t i = 0; i < l; i++) h = (h ^ b[i]) * 1099511628211ULL; return h; }

/* which peer / which direction does a cipher context belong to */
static const char *who_of(const void *ctx, ssl_t **sslout)
{
    peer_t *ps[2] = { &g_s, &g_c }; static const char *nm[2][2] = { { "sw", "sr" }, { "cw", "cr" } };
    if (sslout) *sslout = NULL;
    for (int i = 0; i < 2; i++) {
        ssl_t *s = ps[i]->ssl; if (!s) continue;
        if (ctx == (const void *) &s->sec.encryptCtx) { if (sslout) *sslout = s; return nm[i][0]; }
        if (ctx == (const void *) &s->sec.decryptCtx) { if (sslout) *sslout = s; return nm[i][1]; }
    }
    return NULL;
}
/* the client session is created inside matrixSslNewClientSession before g_c.ssl is assigned: contexts that lie in
   no known session while the client is being created belong to it */
static int g_creating_client = 0; static ssl_t *g_pending_client = NULL;
static const char *who_ctx(const void *ctx, ssl_t **sslout)
{
    const char *w = who_of(ctx, sslout);
    if (w) return w;
    if (g_creating_client && g_pending_client) {
        ssl_t *s = g_pending_client;
        if (ctx == (const void *) &s->sec.encryptCtx) { if (sslout) *sslout = s; return "cw"; }
        if (ctx == (const void *) &s->sec.decryptCtx) { if (sslout) *sslout = s; return "cr"; }
    }
    return "xx";
}
static const char *side_of(const ssl_t *ssl) { return (ssl && ssl == g_s.ssl) ? "s" : "c"; }
static int g_dtls = 0;      /* the current connection is DTLS: records are numbered by epoch || rsn, not by sec.seq */
static const char *wseq(ssl_t *ssl)
{
    if (g_dtls) { unsigned char b[8]; memcpy(b, ssl->epoch, 2); memcpy(b + 2, ssl->rsn, 6); return hx(b, 8); }
    return hx(ssl->sec.seq, 8);
}

/* key fingerprint of the context as seen at Init */
#define NCTX 64
static struct { const void *ctx; uint64_t fp; } g_fp[NCTX]; static int g_nfp;
static void fp_set(const void *ctx, uint64_t fp)
{ for (int i = 0; i < g_nfp; i++) if (g_fp[i].ctx == ctx) { g_fp[i].fp = fp; return; }
  if (g_nfp < NCTX) { g_fp[g_nfp].ctx = ctx; g_fp[g_nfp].fp = fp; g_nfp++; } }
static uint64_t fp_get(const void *ctx) { for (int i = 0; i < g_nfp; i++) if (g_fp[i].ctx == ctx) return g_fp[i].fp; return 0; }

/* ---------------------------------------------------------------- key activation */
int32 __real_sslActivateWriteCipher(ssl_t *ssl);
int32 __wrap_sslActivateWriteCipher(ssl_t *ssl)
{
    if (g_creating_client && ssl != g_s.ssl) g_pending_client = ssl;
    unsigned id = ssl->cipher ? (unsigned) ssl->cipher->ident : 0;
    if (id && ssl->sec.wKeyptr)
        ev("AW:%s:%s:%04x:%016llx:%s", side_of(ssl), hx(ssl->sec.seq, 8), id, (unsigned long long) fnv(ssl->sec.wKeyptr, ssl->cipher->keySize),
           ssl->sec.wIVptr ? hx(ssl->sec.wIVptr, ssl->cipher->ivSize) : "-");
    else ev("AW:%s:%s:%04x:0:-", side_of(ssl), hx(ssl->sec.seq, 8), id);
    return __real_sslActivateWriteCipher(ssl);
}
int32_t __real_tls13ActivateEarlyDataReadKeys(ssl_t *ssl);
int32_t __wrap_tls13ActivateEarlyDataReadKeys(ssl_t *ssl)
{ ev("ER:%s:%s", side_of(ssl), hx(ssl->sec.seq, 8)); return __real_tls13ActivateEarlyDataReadKeys(ssl); }

/* ---------------------------------------------------------------- AES-GCM */
int32_t __real_psAesInitGCM(psAesGcm_t *ctx, const unsigned char *key, uint8_t keylen);
int32_t __wrap_psAesInitGCM(psAesGcm_t *ctx, const unsigned char *key, uint8_t keylen)
{
    uint64_t f = fnv(key, keylen); int32_t rc = __real_psAesInitGCM(ctx, key, keylen);
    fp_set(ctx, f); ev("I:%s:g:%016llx", who_ctx(ctx, NULL), (unsigned long long) f);
    return rc;
}
static struct { const void *ctx; unsigned char nonce[12]; int armed; } g_gcm[8];
void __real_psAesReadyGCM(psAesGcm_t *ctx, const unsigned char *IV, const unsigned char *aad, psSize_t aadLen);
void __wrap_psAesReadyGCM(psAesGcm_t *ctx, const unsigned char *IV, const unsigned char *aad, psSize_t aadLen)
{
    int k = -1;
    for (int i = 0; i < 8; i++) if (g_gcm[i].ctx == ctx) k = i;
    if (k < 0) for (int i = 0; i < 8; i++) if (!g_gcm[i].ctx) { k = i; break; }
    if (k >= 0) { g_gcm[k].ctx = ctx; memcpy(g_gcm[k].nonce, IV, 12); g_gcm[k].armed = 1; }
    __real_psAesReadyGCM(ctx, IV, aad, aadLen);
}
static int inner_type(const unsigned char *pt, uint32_t len) { for (uint32_t i = len; i > 0; i--) if (pt[i-1]) return pt[i-1]; return 0; }
static void log_seal(const char *w, ssl_t *ssl, char alg, const void *ctx, const unsigned char *nonce,
                     const unsigned char *pt, uint32_t len, const unsigned char *ct, int cont)
{
    int v13 = ssl && ACTV_VER(ssl, v_tls_1_3_any) ? 1 : 0; int rt = -1; const char *iv = "-"; const char *seq = "-";
    if (ssl) {
        seq = wseq(ssl);
        if (v13) { rt = inner_type(pt, len); iv = hx(ssl->sec.tls13WriteIv, 12); }
        else { rt = ssl->outRecType; iv = hx(ssl->sec.writeIV, alg == 'g' ? 4 : 12); }
    }
    ev("%s:%s:%c:%016llx:%s:%s:%s:%d:%u:%016llx:%s:%d", cont ? "S2" : "S", w, alg, (unsigned long long) fp_get(ctx), hx(nonce, 12), seq, iv, rt,
       (unsigned) len, (unsigned long long) fnv(pt, len), hx(ct, len < 8 ? len : 8), v13);
}
void __real_psAesEncryptGCM(psAesGcm_t *ctx, const unsigned char *pt, unsigned char *ct, uint32_t len);
void __wrap_psAesEncryptGCM(psAesGcm_t *ctx, const unsigned char *pt, unsigned char *ct, uint32_t len)
{
    ssl_t *ssl; const char *w = who_ctx(ctx, &ssl); int k = -1; unsigned char nonce[12]; uint64_t ph;
    for (int i = 0; i < 8; i++) if (g_gcm[i].ctx == ctx) k = i;
    memset(nonce, 0, 12); if (k >= 0) memcpy(nonce, g_gcm[k].nonce, 12);
    /* in-situ: remember what the plaintext was before it is overwritten */
    unsigned char *ptc = malloc(len + 1); memcpy(ptc, pt, len);
    __real_psAesEncryptGCM(ctx, pt, ct, len);
    log_seal(w, ssl, 'g', ctx, nonce, ptc, len, ct, k < 0 || !g_gcm[k].armed);
    if (k >= 0) g_gcm[k].armed = 0;
    free(ptc); (void) ph;
}

/* ---------------------------------------------------------------- ChaCha20-Poly1305 */
psRes_t __real_psChacha20Poly1305IetfInit(psChacha20Poly1305Ietf_t *ctx, const unsigned char *key);
psRes_t __wrap_psChacha20Poly1305IetfInit(psChacha20Poly1305Ietf_t *ctx, const unsigned char *key)
{
    uint64_t f = fnv(key, 32); psRes_t rc = __real_psChacha20Poly1305IetfInit(ctx, key);
    fp_set(ctx, f); ev("I:%s:c:%016llx", who_ctx(ctx, NULL), (unsigned long long) f);
    return rc;
}
psResSize_t __real_psChacha20Poly1305IetfEncrypt(psChacha20Poly1305Ietf_t *ctx, const unsigned char *pt, psSizeL_t ptLen,
    const unsigned char *iv, const unsigned char *aad, psSizeL_t aadLen, unsigned char *ct);
psResSize_t __wrap_psChacha20Poly1305IetfEncrypt(psChacha20Poly1305Ietf_t *ctx, const unsigned char *pt, psSizeL_t ptLen,
    const unsigned char *iv, const unsigned char *aad, psSizeL_t aadLen, unsigned char *ct)
{
    ssl_t *ssl; const char *w = who_ctx(ctx, &ssl); unsigned char nonce[12]; memcpy(nonce, iv, 12);
    unsigned char *ptc = malloc(ptLen + 1); memcpy(ptc, pt, ptLen);
    psResSize_t rc = __real_psChacha20Poly1305IetfEncrypt(ctx, pt, ptLen, iv, aad, aadLen, ct);
    log_seal(w, ssl, 'c', ctx, nonce, ptc, (uint32_t) ptLen, ct, 0);
    free(ptc); return rc;
}

/* ---------------------------------------------------------------- AES-CBC + HMAC */
int32_t __real_psAesInitCBC(psAesCbc_t *ctx, const unsigned char *IV, const unsigned char *key, uint8_t keylen, uint32_t flags);
int32_t __wrap_psAesInitCBC(psAesCbc_t *ctx, const unsigned char *IV, const unsigned char *key, uint8_t keylen, uint32_t flags)
{
    uint64_t f = fnv(key, keylen); int32_t rc = __real_psAesInitCBC(ctx, IV, key, keylen, flags);
    fp_set(ctx, f);
    if (flags == PS_AES_ENCRYPT) ev("I:%s:b:%016llx", who_ctx(ctx, NULL), (unsigned long long) f);
    return rc;
}
void __real_psAesEncryptCBC(psAesCbc_t *ctx, const unsigned char *pt, unsigned char *ct, uint32_t len);
void __wrap_psAesEncryptCBC(psAesCbc_t *ctx, const unsigned char *pt, unsigned char *ct, uint32_t len)
{
    unsigned char p0[16]; memset(p0, 0, 16); memcpy(p0, pt, len < 16 ? len : 16);
    __real_psAesEncryptCBC(ctx, pt, ct, len);
    ev("B:%s:%016llx:%u:%s:%s:%s", who_ctx(ctx, NULL), (unsigned long long) fp_get(ctx), (unsigned) len, hx(p0, len < 16 ? len : 16),
       hx(ct, len < 16 ? len : 16), len >= 16 ? hx(ct + len - 16, 16) : "-");
}
static void log_mac(ssl_t *ssl, int32 mode, unsigned char type, unsigned char *data, uint32 len)
{ if (mode == HMAC_CREATE) ev("M:%sw:%d:%s:%u:%016llx", side_of(ssl), type, wseq(ssl), (unsigned) len, (unsigned long long) fnv(data, len)); }
int32 __real_tlsHMACSha1(ssl_t *ssl, int32 mode, unsigned char type, unsigned char *data, uint32 len, unsigned char *mac);
int32 __wrap_tlsHMACSha1(ssl_t *ssl, int32 mode, unsigned char type, unsigned char *data, uint32 len, unsigned char *mac)
{ log_mac(ssl, mode, type, data, len); return __real_tlsHMACSha1(ssl, mode, type, data, len, mac); }
int32 __real_tlsHMACSha2(ssl_t *ssl, int32 mode, unsigned char type, unsigned char *data, uint32 len, unsigned char *mac, int32 hashSize);
int32 __wrap_tlsHMACSha2(ssl_t *ssl, int32 mode, unsigned char type, unsigned char *data, uint32 len, unsigned char *mac, int32 hashSize)
{ log_mac(ssl, mode, type, data, len); return __real_tlsHMACSha2(ssl, mode, type, data, len, mac, hashSize); }

/* ---------------------------------------------------------------- PRNG (bytes from sess.h's pinned generator) */
/* output j of a connection is a pure function of (seed, j): the model's `prng : nat -> block` */
static long g_prng_idx = 0, g_prng_fail_in = 0, g_iv_fail_in = 0; static uint64_t g_pseed = 1;
static void prng_fill(unsigned char *b, size_t n, uint64_t seed, uint64_t idx)
{
    uint64_t x = seed * 0x9E3779B97F4A7C15ULL + idx * 0xBF58476D1CE4E5B9ULL + 0x632BE59BD9B4E019ULL;
    for (size_t i = 0; i < n; i++) {
        if ((i & 7) == 0) { x += 0x9E3779B97F4A7C15ULL; }
        uint64_t z = x; z = (z ^ (z >> 30)) * 0xBF58476D1CE4E5B9ULL; z = (z ^ (z >> 27)) * 0x94D049BB133111EBULL; z ^= z >> 31;
        b[i] = (unsigned char) (z >> (8 * (i & 7)));
    }
}
static int in_buf(const unsigned char *p, const unsigned char *b, long n) { return b && n > 0 && p >= b && p < b + n; }
int32_t __wrap_psGetPrngLocked(unsigned char *bytes, psSize_t size, void *userPtr)
{
    const char *dest = "x"; peer_t *ps[2] = { &g_c, &g_s };
    for (int i = 0; i < 2; i++) { ssl_t *s = ps[i]->ssl; if (i == 0 && !s && g_creating_client) s = g_pending_client;
        if (s && (in_buf(bytes, s->outbuf, s->outsize) || in_buf(bytes, s->inbuf, s->insize))) dest = i ? "so" : "co"; }
    int fail = 0;
    if (g_prng_fail_in > 0 && --g_prng_fail_in == 0) fail = 1;
    if (dest[0] != 'x' && g_iv_fail_in > 0 && --g_iv_fail_in == 0) fail = 1;
    if (fail) { ev("P:-:%u:-1:%s:%s", (unsigned) size, dest, hx(bytes, size < 16 ? size : 16)); return -1; }   /* no output consumed */
    prng_fill(bytes, size, g_pseed, (uint64_t) g_prng_idx); (void) userPtr;
    ev("P:%ld:%u:0:%s:%s", g_prng_idx++, (unsigned) size, dest, hx(bytes, size < 16 ? size : 16));
    return (int32_t) size;
}

/* ---------------------------------------------------------------- records handed to the transport */
int32 __real_matrixSslSentData(ssl_t *ssl, uint32 bytes);
int32 __wrap_matrixSslSentData(ssl_t *ssl, uint32 bytes)
{
    size_t off = 0; const unsigned char *b = ssl->outbuf;
    while (g_dtls && b && off + 13 <= bytes) {
        size_t l = ((size_t) b[off+11] << 8) + b[off+12];
        if (off + 13 + l > bytes) { ev("W:%s:partial:%zu", side_of(ssl), (size_t) bytes - off); break; }
        ev("W:%s:%d:%zu:%s:%s:%s", side_of(ssl), b[off], l, hx(b + off + 13, l < 16 ? l : 16), l >= 16 ? hx(b + off + 13 + l - 16, 16) : "-", hx(b + off + 3, 8));
        off += 13 + l;
    }
    while (!g_dtls && b && off + 5 <= bytes) {
        size_t l = ((size_t) b[off+3] << 8) + b[off+4];
        if (off + 5 + l > bytes) { ev("W:%s:partial:%zu", side_of(ssl), (size_t) bytes - off); break; }
        ev("W:%s:%d:%zu:%s:%s", side_of(ssl), b[off], l, hx(b + off + 5, l < 16 ? l : 16), l >= 16 ? hx(b + off + 5 + l - 16, 16) : "-");
        off += 5 + l;
    }
    return __real_matrixSslSentData(ssl, bytes);
}

/* ---------------------------------------------------------------- commands */
static int parse_list(const char *s, int *out, int max) { int n = 0; while (*s && n < max) { out[n++] = atoi(s); while (*s && *s != ',') s++; if (*s) s++; } return n; }
static peer_t *side(const char *s) { return s[0] == 's' ? &g_s : &g_c; }
static int dirof(const char *s) { return s[0] == 's' ? 1 : 0; }
static int qcount(queue_t *q) { size_t off = 0; int n = 0; while (off + 5 <= q->len) { size_t l = 5 + ((size_t) q->b[off+3] << 8) + q->b[off+4]; if (off + l > q->len) break; off += l; n++; } return n; }

static void do_new(char **a, int n)
{
    scfg_t c; memset(&c, 0, sizeof c); c.cca = 1; c.seed = 1; int maxed = 0, sgroup = 0;
    for (int i = 0; i < n; i++) {
        char *eq = strchr(a[i], '='); if (!eq) continue; *eq = 0; char *v = eq + 1;
        if (!strcmp(a[i], "cv")) c.ncver = parse_list(v, c.cver, 4);
        else if (!strcmp(a[i], "sv")) c.nsver = parse_list(v, c.sver, 4);
        else if (!strcmp(a[i], "suite")) { while (*v && c.nsuites < 8) { c.suites[c.nsuites++] = (psCipher16_t) strtol(v, &v, 16); if (*v == ',') v++; } }
        else if (!strcmp(a[i], "cauth")) c.cauth = atoi(v);
        else if (!strcmp(a[i], "ccb")) c.ccb = atoi(v);
        else if (!strcmp(a[i], "scb")) c.scb = atoi(v);
        else if (!strcmp(a[i], "key")) c.key = !strcmp(v, "ec");
        else if (!strcmp(a[i], "resume")) c.resume = atoi(v);
        else if (!strcmp(a[i], "ticket")) c.ticket = atoi(v);
        else if (!strcmp(a[i], "ems")) c.ems = atoi(v);
        else if (!strcmp(a[i], "cca")) c.cca = atoi(v);
        else if (!strcmp(a[i], "name")) c.name = v;
        else if (!strcmp(a[i], "year")) c.year = atoi(v);
        else if (!strcmp(a[i], "seed")) c.seed = strtoull(v, NULL, 10);
        else if (!strcmp(a[i], "keepkeys")) c.keep_skeys = atoi(v);
        else if (!strcmp(a[i], "maxed")) maxed = atoi(v);
        else if (!strcmp(a[i], "smaxed")) c.smaxed = atoi(v);     /* sess.h: server option tls13SessionMaxEarlyData */
        else if (!strcmp(a[i], "psk")) c.psk = atoi(v);           /* sess.h: external TLS 1.3 PSK on both sides */
        else if (!strcmp(a[i], "sgroup")) sgroup = atoi(v);
    }
    /* a new connection: per-connection log markers (the Q events of the previous connection first) */
    if (g_c.ssl) ev("Q:c:%s", wseq(g_c.ssl));
    if (g_s.ssl) ev("Q:s:%s", wseq(g_s.ssl));
    ev("N");
    g_nfp = 0; memset(g_gcm, 0, sizeof g_gcm); g_prng_idx = 0; g_pseed = c.seed; g_dtls = 0;
    g_creating_client = 1; g_pending_client = NULL;
    int rc = sess_new(&c);
    g_creating_client = 0; g_pending_client = NULL;
    if (rc == 0 && maxed > 0) g_s.ssl->tls13SessionMaxEarlyData = (uint32_t) maxed;
    if (rc == 0 && sgroup > 0) { g_s.ssl->tls13SupportedGroups[0] = (uint16_t) sgroup; g_s.ssl->tls13SupportedGroupsLen = 1; }
    if (rc == 0) { g_quiet = 1; flush_out(&g_c); g_quiet = 0; }
    printf("new:%d", rc);
}

/* ---------------------------------------------------------------- DTLS 1.2 (search only: datagram queues with loss / resend) */
#define DQ 512
typedef struct { unsigned char *d[DQ]; size_t l[DQ]; int h, t; } dq_t;
static dq_t g_dq[2];        /* 0: client to server, 1: server to client */
static void dq_clear(dq_t *q) { while (q->h < q->t) { free(q->d[q->h % DQ]); q->h++; } q->h = q->t = 0; }
/* force = a retransmission timer fired: matrixDtlsGetOutdata is called although nothing is pending */
static void dflush2(peer_t *p, int force)
{
    unsigned char *buf; int32 n; int guard = 0;
    if (!p->ssl) return;
    if (!force && p->ssl->outlen == 0) return;
    while ((n = matrixDtlsGetOutdata(p->ssl, &buf)) > 0 && guard++ < 200) {
        dq_t *q = &g_dq[p->is_server];
        if (q->t - q->h < DQ) { unsigned char *c = malloc((size_t) n); memcpy(c, buf, (size_t) n); q->d[q->t % DQ] = c; q->l[q->t % DQ] = (size_t) n; q->t++; }
        printf("dgram:%d ", (int) n);
        int32 rc = matrixDtlsSentData(p->ssl, (uint32) n);
        if (rc == MATRIXSSL_HANDSHAKE_COMPLETE) { p->done_events++; printf("[sent:HSDONE]"); }
        else if (rc == MATRIXSSL_REQUEST_CLOSE) { printf("[sent:CLOSE]"); break; }
        else if (rc < 0) { printf("[sent:E%d]", rc); break; }
    }
}
static void dflush(peer_t *p) { dflush2(p, 0); }
static void dfeed(peer_t *p, const unsigned char *d, size_t l)
{
    unsigned char *rb, *pt; uint32 ptlen; int guard = 0;
    if (!p->ssl) { printf("nil"); return; }
    int32 room = matrixSslGetReadbuf(p->ssl, &rb);
    if (room < (int32) l) room = matrixSslGetReadbufOfSize(p->ssl, (int32) l, &rb);
    if (room < (int32) l) { printf("rb:E%d ", room); return; }
    memcpy(rb, d, l);
    int32 rc = matrixSslReceivedData(p->ssl, (uint32) l, &pt, &ptlen);
    while (guard++ < 200) {
        if (rc == MATRIXSSL_APP_DATA || rc == MATRIXSSL_APP_DATA_COMPRESSED) { printf("APPDATA:"); puthex(pt, ptlen > 16 ? 16 : ptlen); printf(" "); rc = matrixSslProcessedData(p->ssl, &pt, &ptlen); continue; }
        if (rc == MATRIXSSL_RECEIVED_ALERT) { printf("ALERT:%d:%d ", ptlen >= 1 ? pt[0] : -1, ptlen >= 2 ? pt[1] : -1); rc = matrixSslProcessedData(p->ssl, &pt, &ptlen); continue; }
        if (rc == MATRIXSSL_HANDSHAKE_COMPLETE) { p->done_events++; printf("HSDONE "); break; }
        if (rc == MATRIXSSL_REQUEST_SEND) { printf("SEND "); break; }
        if (rc == MATRIXSSL_REQUEST_RECV) { printf("RECV "); break; }
        if (rc == MATRIXSSL_SUCCESS) { printf("OK "); break; }
        if (rc == MATRIXSSL_REQUEST_CLOSE) { printf("CLOSE "); break; }
        printf("E%d ", rc); break;
    }
    /* like the sample applications: send only when asked to or when something is pending; a timer is `dtimeout` */
    if (rc == MATRIXSSL_REQUEST_SEND || p->ssl->outlen > 0) dflush(p);
}
static int dtls_new(char **a, int n)
{
    psCipher16_t suites[8]; int ns = 0, key = 0, cauth = 0, resume = 0; uint64_t seed = 1; int32 rc; static sslSessionId_t *dsid = NULL;
    for (int i = 0; i < n; i++) {
        char *eq = strchr(a[i], '='); if (!eq) continue; *eq = 0; char *v = eq + 1;
        if (!strcmp(a[i], "suite")) { while (*v && ns < 8) { suites[ns++] = (psCipher16_t) strtol(v, &v, 16); if (*v == ',') v++; } }
        else if (!strcmp(a[i], "key")) key = !strcmp(v, "ec");
        else if (!strcmp(a[i], "cauth")) cauth = atoi(v);
        else if (!strcmp(a[i], "resume")) resume = atoi(v);
        else if (!strcmp(a[i], "seed")) seed = strtoull(v, NULL, 10);
    }
    if (g_c.ssl) ev("Q:c:%s", wseq(g_c.ssl));
    if (g_s.ssl) ev("Q:s:%s", wseq(g_s.ssl));
    ev("N"); ev("D");
    g_nfp = 0; memset(g_gcm, 0, sizeof g_gcm); g_prng_idx = 0; g_pseed = seed; g_dtls = 1;
    peer_free(&g_c); peer_free(&g_s);
    memset(&g_c, 0, sizeof g_c); memset(&g_s, 0, sizeof g_s); g_s.is_server = 1;
    dq_clear(&g_dq[0]); dq_clear(&g_dq[1]);
    if (!resume) {
        if (g_skeys_persist) { matrixSslDeleteKeys(g_skeys_persist); g_skeys_persist = NULL; }
        if (dsid) { matrixSslDeleteSessionId(dsid); dsid = NULL; }
        matrixSslClose(); if (matrixSslOpen() < 0) return -9;
        g_vtime = 1592222400;
    }
    ent_seed(seed); g_pin_year = 2020;
    if (matrixSslNewKeys(&g_s.keys, NULL) < 0) return -1;
    if ((rc = load_identity(g_s.keys, key, 1, cauth ? 1 : 0)) < 0) return rc - 1000;
    if (matrixSslNewKeys(&g_c.keys, NULL) < 0) return -2;
    if ((rc = load_identity(g_c.keys, key, cauth ? 1 : 0, 1)) < 0) return rc - 2000;
    sslSessOpts_t so; memset(&so, 0, sizeof so); so.versionFlag = SSL_FLAGS_DTLS | SSL_FLAGS_TLS_1_2;
    rc = matrixSslNewServerSession(&g_s.ssl, g_s.keys, cauth ? cb_server : NULL, &so);
    if (rc < 0) return rc - 4000;
    g_s.cb_mode = 2;
    memset(&so, 0, sizeof so); so.versionFlag = SSL_FLAGS_DTLS | SSL_FLAGS_TLS_1_2;
    if (!dsid) matrixSslNewSessionId(&dsid, NULL);
    g_creating_client = 1; g_pending_client = NULL;
    rc = matrixSslNewClientSession(&g_c.ssl, g_c.keys, dsid, ns ? suites : NULL, (uint8_t) ns, NULL, NULL, NULL, NULL, &so);
    g_creating_client = 0; g_pending_client = NULL;
    if (rc != MATRIXSSL_REQUEST_SEND) return rc - 6000;
    return 0;
}

static void run_cmd(char **a, int n)
{
    if (n == 0) return;
    if (!strcmp(a[0], "new")) do_new(a + 1, n - 1);
    else if (!strcmp(a[0], "hs")) { pump(1); printf("hs:c="); print_snap(&g_c); printf(" s="); print_snap(&g_s); }
    else if (!strcmp(a[0], "pumpv")) { pump(0); }
    else if (!strcmp(a[0], "step") && n >= 2) {
        int k = n >= 3 ? atoi(a[2]) : 1, d = dirof(a[1]);
        for (int i = 0; i < k; i++) {
            if (!q_reclen(d ? &g_s2c : &g_c2s)) { printf("step:none"); break; }
            printf("step:%s ", d ? "c" : "s"); deliver_one(d, 0);
        }
    }
    else if (!strcmp(a[0], "inj") && n >= 3) {
        unsigned char *d; size_t l = unhex(a[2], &d); peer_t *p = side(a[1]);
        printf("inj:%s ", a[1]); feed(p, d, l, 0); free(d);
    }
    else if (!strcmp(a[0], "app") && n >= 3) {
        unsigned char *d; size_t l = unhex(a[2], &d); peer_t *p = side(a[1]);
        int32 rc = p->ssl ? matrixSslEncodeToOutdata(p->ssl, d, (uint32) l) : -999;
        printf("app:%s rc=%s ", a[1], rc >= 0 ? "OK" : rcname(rc)); flush_out(p); free(d);
    }
    else if (!strcmp(a[0], "appn") && n >= 4) {
        peer_t *p = side(a[1]); int len = atoi(a[2]), cnt = atoi(a[3]), ok = 0; unsigned char *d = malloc((size_t) len + 1);
        for (int k = 0; k < cnt && p->ssl; k++) {
            for (int i = 0; i < len; i++) d[i] = (unsigned char) (i * 7 + k * 13 + 1);
            int32 rc = matrixSslEncodeToOutdata(p->ssl, d, (uint32) len); if (rc >= 0) ok++;
        }
        printf("appn:%s ok=%d ", a[1], ok); flush_out(p); free(d);
    }
    else if (!strcmp(a[0], "appw") && n >= 3) {
        peer_t *p = side(a[1]); int len = atoi(a[2]), left = len, recs = 0; int32 rc = 0;
        do {
            unsigned char *wb; int32 room = p->ssl ? matrixSslGetWritebuf(p->ssl, &wb, (uint32) left) : -999;
            if (room < 0) { rc = room; break; }
            int k = left < room ? left : room;
            for (int i = 0; i < k; i++) wb[i] = (unsigned char) (i * 5 + 3);
            rc = matrixSslEncodeWritebuf(p->ssl, (uint32) k); if (rc < 0) break;
            recs++; left -= k;
        } while (left > 0);
        printf("appw:%s recs=%d rc=%s ", a[1], recs, rc >= 0 ? "OK" : rcname(rc)); flush_out(p);
    }
    else if (!strcmp(a[0], "closure") && n >= 2) {
        peer_t *p = side(a[1]); int32 rc = p->ssl ? matrixSslEncodeClosureAlert(p->ssl) : -999;
        printf("closure:%s rc=%s ", a[1], rcname(rc)); flush_out(p);
    }
    else if (!strcmp(a[0], "drop") && n >= 2) {
        queue_t *q = dirof(a[1]) ? &g_s2c : &g_c2s; int k = n >= 3 ? atoi(a[2]) : 1, i;
        for (i = 0; i < k; i++) { size_t l = q_reclen(q); if (!l) break; q_pop(q, l); q_meta_pop(q); } printf("drop:%d", i);
    }
    else if (!strcmp(a[0], "xor") && n >= 4) {
        queue_t *q = dirof(a[1]) ? &g_s2c : &g_c2s; size_t off = (size_t) atoi(a[2]); size_t l = q_reclen(q);
        if (off < l) { q->b[off] ^= (unsigned char) strtol(a[3], NULL, 16); printf("xor:ok"); } else printf("xor:range");
    }
    else if (!strcmp(a[0], "dnew")) { int rc = dtls_new(a + 1, n - 1); printf("dnew:%d ", rc); if (rc == 0) dflush(&g_c); }
    else if (!strcmp(a[0], "dstep") && n >= 2) {     /* deliver the next n datagrams of a direction */
        int d = dirof(a[1]), k = n >= 3 ? atoi(a[2]) : 1; dq_t *q = &g_dq[d];
        printf("dstep:%s ", d ? "c" : "s");
        for (int i = 0; i < k; i++) {
            if (q->h == q->t) { printf("none "); break; }
            unsigned char *dg = q->d[q->h % DQ]; size_t l = q->l[q->h % DQ]; q->h++;
            dfeed(d ? &g_c : &g_s, dg, l); free(dg);
        }
    }
    else if (!strcmp(a[0], "ddrop") && n >= 2) {
        int d = dirof(a[1]), k = n >= 3 ? atoi(a[2]) : 1, i; dq_t *q = &g_dq[d];
        for (i = 0; i < k && q->h < q->t; i++) { free(q->d[q->h % DQ]); q->h++; } printf("ddrop:%d", i);
    }
    else if (!strcmp(a[0], "ddup") && n >= 2) {      /* duplicate the head datagram (it will be delivered twice) */
        int d = dirof(a[1]); dq_t *q = &g_dq[d];
        if (q->h < q->t && q->t - q->h < DQ - 1) {
            for (int i = q->t; i > q->h; i--) { q->d[i % DQ] = q->d[(i - 1) % DQ]; q->l[i % DQ] = q->l[(i - 1) % DQ]; }
            q->t++; size_t l = q->l[q->h % DQ]; unsigned char *c = malloc(l); memcpy(c, q->d[(q->h + 1) % DQ], l); q->d[q->h % DQ] = c; printf("ddup:ok");
        } else printf("ddup:none");
    }
    else if (!strcmp(a[0], "dtimeout") && n >= 2) {  /* retransmission timer of a side fires: matrixDtlsGetOutdata with nothing pending */
        /* an application does not run retransmission timers on a session that reported a fatal error or was closed */
        peer_t *p = side(a[1]); printf("dtimeout:%s ", a[1]);
        if (p->ssl && ((p->ssl->flags & (SSL_FLAGS_ERROR | SSL_FLAGS_CLOSED)) || p->ssl->err != SSL_ALERT_NONE) && p->ssl->outlen == 0) printf("dead"); else dflush2(p, 1);
    }
    else if (!strcmp(a[0], "dpump")) {               /* deliver everything both ways until quiescent */
        int moved = 1, guard = 0; printf("dpump: ");
        while (moved && guard++ < 200) { moved = 0;
            for (int d = 0; d < 2; d++) while (g_dq[d].h < g_dq[d].t) { dq_t *q = &g_dq[d]; unsigned char *dg = q->d[q->h % DQ]; size_t l = q->l[q->h % DQ]; q->h++;
                                                                     dfeed(d ? &g_c : &g_s, dg, l); free(dg); moved = 1; } }
        printf("c="); print_snap(&g_c); printf(" s="); print_snap(&g_s);
    }
    else if (!strcmp(a[0], "dapp") && n >= 3) {
        unsigned char *d; size_t l = unhex(a[2], &d); peer_t *p = side(a[1]);
        int32 rc = p->ssl ? matrixSslEncodeToOutdata(p->ssl, d, (uint32) l) : -999;
        printf("dapp:%s rc=%s ", a[1], rc >= 0 ? "OK" : rcname(rc)); dflush(p); free(d);
    }
    else if (!strcmp(a[0], "dclosure") && n >= 2) {
        peer_t *p = side(a[1]); int32 rc = p->ssl ? matrixSslEncodeClosureAlert(p->ssl) : -999;
        printf("dclosure:%s rc=%s ", a[1], rcname(rc)); dflush(p);
    }
    else if (!strcmp(a[0], "dq")) printf("dq:c2s=%d,s2c=%d", g_dq[0].t - g_dq[0].h, g_dq[1].t - g_dq[1].h);
    else if (!strcmp(a[0], "prngfail") && n >= 2) { g_prng_fail_in = atol(a[1]); printf("prngfail:%ld", g_prng_fail_in); }
    else if (!strcmp(a[0], "ivfail") && n >= 2) { g_iv_fail_in = atol(a[1]); printf("ivfail:%ld", g_iv_fail_in); }
    else if (!strcmp(a[0], "q")) printf("q:c2s=%d,s2c=%d", qcount(&g_c2s), qcount(&g_s2c));
    else if (!strcmp(a[0], "st")) { printf("st:c="); print_snap(&g_c); printf(" s="); print_snap(&g_s); }
    else printf("?%s", a[0]);
}

int main(void)
{
    if (matrixSslOpen() < 0) { printf("INITFAIL\n"); return 2; }
    while (next_case()) {
        int i = 0;
        g_evlen = 0; if (g_ev) g_ev[0] = 0; g_prng_idx = 0; g_prng_fail_in = g_iv_fail_in = 0;
        peer_free(&g_c); peer_free(&g_s);
        while (i < g_ntok) {
            int j = i; while (j < g_ntok && strcmp(g_tok[j], ";") != 0) j++;
            run_cmd(g_tok + i, j - i);
            if (j < g_ntok) printf(" | ");
            i = j + 1;
        }
        if (g_c.ssl) ev("Q:c:%s", wseq(g_c.ssl));
        if (g_s.ssl) ev("Q:s:%s", wseq(g_s.ssl));
        printf(" || %s\n", g_ev ? g_ev : ""); fflush(stdout);
    }
    return 0;
}
