/* h_cache: server session cache / session tickets of matrixssl/matrixssl.c, driven directly (C14).
   One case per line.  First token selects the mode:

   c  <op> ; <op> ; ...        direct calls on fabricated server ssl_t objects (connections A..F).
                               The cache is reset (matrixSslClose/Open) and the virtual clock set to
                               1000000 ms at the start of every case.
      new X v=<31|32|33|34> s=<suite hex> e=<0|1> m=<hexbyte> r=<hexbyte|64 hex>
                               (re)initialise connection X: SSL_FLAGS_SERVER, negotiated version,
                               cipher, extended-master-secret flag, masterSecret = m (48x),
                               serverRandom = r (32x, or explicit 32 bytes)
      sh X                     ServerHello + ClientKeyExchange of a full handshake: reg + upd unless RESUMED (-100)
      reg X | res X | upd X | clr X <0|1>     matrixRegisterSession / matrixResumeSession /
                               matrixUpdateSession / matrixClearSession
      sid X <idspec>           what the ClientHello parser does: ssl->sessionId/Len := idspec
                               idspec = - | <hex> | @Y (current id of connection Y) | #k (bank k)
                               followed by edits  :t<k> truncate  :x<pos>.<hex> xor a byte
                               :s<k> set the length (new bytes are 0)
      save k X                 bank[k] := current id of X
      flag X <C0|C1|E0|E1|R0|R1>   SSL_FLAGS_CLOSED / _ERROR / _RESUMED
      chr X                    ClientHello resumption decision (hsDecode.c 515-556): ticket overrides
                               id, matrixResumeSession, RESUMED flag, id cleared on failure (< TLS 1.3)
      del X                    cache part of matrixSslDeleteSession (matrixssl.c 819-860)
      alert X                  fatal alert written by the server (sslEncode.c 1120-1153):
                               SSL_FLAGS_ERROR + matrixClearSession(ssl, 1)
      tick <ms>                advance the virtual clock
      t13v X v= s= life= age=  tls13ValidateSessionParams on fabricated parameters of a decrypted TLS 1.3 ticket
                               (version token, suite, sealed lifetime in s, age of the sealed timestamp in ms)
      kadd n=<xx> k=<xx> kl=<16|32> h=<xx> | kdel n=<xx>   ticket key list (names/keys = byte repeated)
      cb <script|-> [k=xx h=xx kl=n wn=xx]   register / remove the application ticket callback with scripted verdicts
                               (a accept, r reject, l load the named key when not found, w load a key of another name)
      mkt X iv=<xx> j=<k>      matrixCreateSessionTicket -> ticket bank k
      unl X <tspec>            matrixUnlockSessionTicket as the extension parser calls it
                               (extDecode.c 630-690 incl. the state changes around it)
                               tspec = $k with edits :t<k> :x<pos>.<hex> :a<hex>   or raw hex
      After every op: "<op>=<rc> X{..} T{..} L[..]" (connection, non-empty table slots, list order).
      The table and list are found through the ELF symbol table of this executable (they are
      static in matrixssl.c) - link with -no-pie.

   live <script>               scripted two-peer sessions (cache_sess.h, a private copy of sess.h) against the same global cache;
                               see run_live() below.
*/
#define NEED_PS_TIME_CONCRETE          /* psTime_t.psTimeInternal (struct timespec on Linux/x86-64) */
#include "cache_sess.h"
#include <elf.h>
#include <fcntl.h>
#include <unistd.h>
#include <sys/mman.h>
#include <sys/stat.h>

#ifndef TOYCRYPTO
#define TOYCRYPTO 0
#endif

/* ------------------------------------------------------------------ virtual clock */
static int64_t g_now_ms = 1000000;
static int g_time_virtual = 1;
int32 __real_psGetTime(psTime_t *t, void *userPtr);
int32 __wrap_psGetTime(psTime_t *t, void *userPtr)
{
    psTime_t lt;
    if (!g_time_virtual) return __real_psGetTime(t, userPtr);
    if (t == NULL) t = &lt;
    memset(t, 0, sizeof *t);
    t->psTimeInternal.tv_sec = (time_t) (g_now_ms / 1000);
    t->psTimeInternal.tv_nsec = (long) (g_now_ms % 1000) * 1000000L;
    return (int32) t->psTimeInternal.tv_sec;
}

#if TOYCRYPTO
/* Toy cipher/MAC for the model correspondence of the ticket LAYOUT and control flow (the real
   primitives are C12's subject; the spec-oracle run uses the real ones).
   enc: ct[i] = pt[i] ^ key[i % keylen] ^ iv[i % 16] ^ (i & 0xff)
   mac: 32-byte state, s = key (padded with 0x36); for byte b at position p:
        s[p%32] = (s[p%32]*31 + b + p + s[(p+1)%32]) & 0xff; 4 finishing rounds. */
typedef struct { unsigned char key[32]; int kl; unsigned char iv[16]; } toy_cbc_t;
static toy_cbc_t g_toy_cbc;
int32_t __wrap_psAesInitCBC(psAesCbc_t *ctx, const unsigned char IV[16], const unsigned char key[], uint8_t keylen, uint32_t flags)
{ (void) ctx; (void) flags; memcpy(g_toy_cbc.key, key, keylen); g_toy_cbc.kl = keylen; memcpy(g_toy_cbc.iv, IV, 16); return 0; }
static void toy_crypt(const unsigned char *in, unsigned char *out, uint32_t len)
{ for (uint32_t i = 0; i < len; i++) out[i] = in[i] ^ g_toy_cbc.key[i % g_toy_cbc.kl] ^ g_toy_cbc.iv[i % 16] ^ (unsigned char) (i & 0xff); }
void __wrap_psAesEncryptCBC(psAesCbc_t *ctx, const unsigned char *pt, unsigned char *ct, uint32_t len) { (void) ctx; toy_crypt(pt, ct, len); }
void __wrap_psAesDecryptCBC(psAesCbc_t *ctx, const unsigned char *ct, unsigned char *pt, uint32_t len) { (void) ctx; toy_crypt(ct, pt, len); }
void __wrap_psAesClearCBC(psAesCbc_t *ctx) { (void) ctx; }
static unsigned char g_toy_mac[32]; static uint32_t g_toy_pos;
int32_t __wrap_psHmacSha256Init(psHmacSha256_t *ctx, const unsigned char *key, psSize_t keyLen)
{ (void) ctx; for (int i = 0; i < 32; i++) g_toy_mac[i] = i < keyLen ? key[i] : 0x36; g_toy_pos = 0; return 0; }
void __wrap_psHmacSha256Update(psHmacSha256_t *ctx, const unsigned char *buf, uint32_t len)
{ (void) ctx; for (uint32_t i = 0; i < len; i++, g_toy_pos++) { uint32_t p = g_toy_pos % 32;
    g_toy_mac[p] = (unsigned char) (g_toy_mac[p] * 31 + buf[i] + (g_toy_pos & 0xff) + g_toy_mac[(p + 1) % 32]); } }
void __wrap_psHmacSha256Final(psHmacSha256_t *ctx, unsigned char hash[32])
{ (void) ctx; for (int r = 0; r < 4 * 32; r++) { uint32_t p = r % 32; g_toy_mac[p] = (unsigned char) (g_toy_mac[p] * 31 + 0x5c + g_toy_mac[(p + 1) % 32]); }
  memcpy(hash, g_toy_mac, 32); }
#endif

/* ------------------------------------------------------------------ locate the static table */
static sslSessionEntry_t *g_tbl; static DLListEntry *g_chron;
static int find_statics(void)
{
    int fd = open("/proc/self/exe", O_RDONLY); struct stat st;
    if (fd < 0 || fstat(fd, &st) < 0) return -1;
    unsigned char *m = mmap(NULL, (size_t) st.st_size, PROT_READ, MAP_PRIVATE, fd, 0);
    if (m == MAP_FAILED) return -2;
    Elf64_Ehdr *eh = (Elf64_Ehdr *) m;
    if (eh->e_type != ET_EXEC) return -3;          /* needs -no-pie: st_value is then the address */
    Elf64_Shdr *sh = (Elf64_Shdr *) (m + eh->e_shoff);
    int nt = 0, nl = 0;
    for (int i = 0; i < eh->e_shnum; i++) {
        if (sh[i].sh_type != SHT_SYMTAB) continue;
        Elf64_Sym *sy = (Elf64_Sym *) (m + sh[i].sh_offset); size_t n = sh[i].sh_size / sizeof(Elf64_Sym);
        const char *str = (const char *) (m + sh[sh[i].sh_link].sh_offset);
        for (size_t k = 0; k < n; k++) {
            const char *nm = str + sy[k].st_name;
            if (ELF64_ST_TYPE(sy[k].st_info) != STT_OBJECT) continue;
            if (!strcmp(nm, "g_sessionTable")) { g_tbl = (sslSessionEntry_t *) (uintptr_t) sy[k].st_value; nt++;
                if (sy[k].st_size != sizeof(sslSessionEntry_t) * SSL_SESSION_TABLE_SIZE) return -4; }
            if (!strcmp(nm, "g_sessionChronList")) { g_chron = (DLListEntry *) (uintptr_t) sy[k].st_value; nl++; }
        }
    }
    munmap(m, (size_t) st.st_size); close(fd);
    return (nt == 1 && nl == 1) ? 0 : -5;
}

/* ------------------------------------------------------------------ canonical dump */
static int all_zero(const unsigned char *b, size_t n) { for (size_t i = 0; i < n; i++) if (b[i]) return 0; return 1; }
static int64_t t_ms(psTime_t t) { return (int64_t) t.psTimeInternal.tv_sec * 1000 + t.psTimeInternal.tv_nsec / 1000000; }
static void dump_table(void)
{
    printf(" T{");
    for (int i = 0; i < SSL_SESSION_TABLE_SIZE; i++) {
        sslSessionEntry_t *e = &g_tbl[i];
        if (e->cipher == NULL && e->inUse == 0 && all_zero(e->id + 4, SSL_MAX_SESSION_ID_SIZE - 4) && all_zero(e->masterSecret, SSL_HS_MASTER_SIZE)) continue;
        printf("%d:%d:", i, (int) e->inUse);
        if (e->cipher) printf("%04x", (unsigned) e->cipher->ident); else printf("N");
        printf(":%d.%d:%d:%lld:", e->majVer, e->minVer, (int) e->extendedMasterSecret, (long long) t_ms(e->startTime));
        puthex(e->id, SSL_MAX_SESSION_ID_SIZE); printf(":"); puthex(e->masterSecret, 4); printf(" ");
    }
    printf("}");
    /* list: forward walk with consistency check (every link must be mirrored, every node a table slot, no repeats) */
    int order[SSL_SESSION_TABLE_SIZE + 2], n = 0, bad = 0; unsigned char seen[SSL_SESSION_TABLE_SIZE]; memset(seen, 0, sizeof seen);
    DLListEntry *p = g_chron;
    for (;;) {
        DLListEntry *nx = p->pNext;
        if (nx == NULL || nx->pPrev != p) { bad = 1; break; }
        if (nx == g_chron) break;
        sslSessionEntry_t *e = DLListGetContainer(nx, sslSessionEntry_t, chronList);
        if (e < g_tbl || e >= g_tbl + SSL_SESSION_TABLE_SIZE) { bad = 1; break; }
        int idx = (int) (e - g_tbl);
        if (seen[idx] || n >= SSL_SESSION_TABLE_SIZE) { bad = 1; break; }
        seen[idx] = 1; order[n++] = idx; p = nx;
    }
    if (bad) { printf(" L!CORRUPT"); return; }
    printf(" L[");
    for (int i = 0; i < n; i++) printf("%s%d", i ? "," : "", order[i]);
    printf("]");
}

/* ------------------------------------------------------------------ connections */
#define NCONN 6
static ssl_t g_conn[NCONN]; static sslSessionId_t g_sidbuf[NCONN]; static sslKeys_t *g_keys;
typedef struct { unsigned char b[32]; int len; } idv_t;
static idv_t g_bank[16];
typedef struct { unsigned char b[512]; int len; } tkt_t;
static tkt_t g_tbank[16];

static int conn_ix(const char *s) { int c = s[0] - 'A'; return (c >= 0 && c < NCONN) ? c : 0; }
static const char *kv(char **a, int n, const char *k) { size_t l = strlen(k); for (int i = 0; i < n; i++) if (!strncmp(a[i], k, l) && a[i][l] == '=') return a[i] + l + 1; return NULL; }
static int hexbyte(const char *s) { return s ? (int) strtol(s, NULL, 16) & 0xff : 0; }

static psProtocolVersion_t vtok(int v) {
    switch (v) { case 31: return v_tls_1_0; case 32: return v_tls_1_1; case 33: return v_tls_1_2; case 34: return v_tls_1_3; }
    return v_tls_1_2;
}
static void dump_conn(int x)
{
    ssl_t *s = &g_conn[x];
    printf(" %c{%d:", 'A' + x, (int) s->sessionIdLen); puthex(s->sessionId, SSL_MAX_SESSION_ID_SIZE);
    printf(":%s%s%s:", (s->flags & SSL_FLAGS_RESUMED) ? "R" : "", (s->flags & SSL_FLAGS_CLOSED) ? "C" : "", (s->flags & SSL_FLAGS_ERROR) ? "E" : "");
    if (s->cipher) printf("%04x", (unsigned) s->cipher->ident); else printf("N");
    printf(":"); puthex(s->sec.masterSecret, 4);
    printf(":t%d:", s->sid ? (int) s->sid->sessionTicketState : -1);
    if (s->sid) puthex(s->sid->masterSecret, 4); else printf("-");
    printf(":q%d", (int) s->extFlags.require_extended_master_secret);
#ifdef HAVE_CACHE_REF
    printf(":h%u}", (unsigned) s->sessionCacheRef);       /* field added by the C14 fix "session cache reference" */
#else
    printf(":h-}");
#endif
}

static int parse_idspec(char *spec, idv_t *out)
{
    memset(out, 0, sizeof *out);
    char *ed = strchr(spec, ':'); if (ed) *ed++ = 0;
    if (spec[0] == '-') out->len = 0;
    else if (spec[0] == '@') { ssl_t *y = &g_conn[conn_ix(spec + 1)]; out->len = y->sessionIdLen; memcpy(out->b, y->sessionId, 32); }
    else if (spec[0] == '#') *out = g_bank[atoi(spec + 1) & 15];
    else { unsigned char *d; size_t l = unhex(spec, &d); if (l > 32) l = 32; memcpy(out->b, d, l); out->len = (int) l; free(d); }
    while (ed && *ed) {
        char *nx = strchr(ed, ':'); if (nx) *nx++ = 0;
        if (ed[0] == 't') { int k = atoi(ed + 1); if (k < out->len) { out->len = k; memset(out->b + k, 0, 32 - k); } }
        else if (ed[0] == 's') { int k = atoi(ed + 1); if (k > 32) k = 32; if (k < out->len) memset(out->b + k, 0, 32 - k); out->len = k; }
        else if (ed[0] == 'x') { int pos = atoi(ed + 1); char *dot = strchr(ed, '.'); if (dot && pos >= 0 && pos < 32) out->b[pos] ^= (unsigned char) hexbyte(dot + 1); }
        ed = nx;
    }
    return 0;
}
static int parse_tspec(char *spec, tkt_t *out)
{
    memset(out, 0, sizeof *out);
    char *ed = strchr(spec, ':'); if (ed) *ed++ = 0;
    if (spec[0] == '$') *out = g_tbank[atoi(spec + 1) & 15];
    else { unsigned char *d; size_t l = unhex(spec, &d); if (l > sizeof out->b) l = sizeof out->b; memcpy(out->b, d, l); out->len = (int) l; free(d); }
    while (ed && *ed) {
        char *nx = strchr(ed, ':'); if (nx) *nx++ = 0;
        if (ed[0] == 't') { int k = atoi(ed + 1); if (k < out->len) out->len = k; }
        else if (ed[0] == 'x') { int pos = atoi(ed + 1); char *dot = strchr(ed, '.'); if (dot && pos >= 0 && pos < out->len) out->b[pos] ^= (unsigned char) hexbyte(dot + 1); }
        else if (ed[0] == 'a') { unsigned char *d; size_t l = unhex(ed + 1, &d); if (out->len + l <= sizeof out->b) { memcpy(out->b + out->len, d, l); out->len += (int) l; } free(d); }
        ed = nx;
    }
    return 0;
}

/* scripted application ticket callback (matrixSslSetSessionTicketCallback): one letter per invocation, the last one
   repeats.  a: return 0   r: return -1   l: if the key was not found load one of the requested name, return 0
   w: load a key of ANOTHER name (byte g_cb_wn), return 0 */
static char g_cb_script[32]; static int g_cb_pos, g_cb_calls, g_cb_lastfound, g_cb_on;
static unsigned char g_cb_k = 0x11, g_cb_h = 0x22, g_cb_wn = 0xee; static int g_cb_kl = 32;
static int32 scripted_ticket_cb(void *keys, unsigned char name[16], short found)
{
    char v = g_cb_script[g_cb_pos]; unsigned char k[32], h[32], nm[16];
    if (g_cb_script[g_cb_pos + 1]) g_cb_pos++;
    g_cb_calls++; g_cb_lastfound = found;
    memset(k, g_cb_k, 32); memset(h, g_cb_h, 32);
    if (v == 'r') return -1;
    if (v == 'l' && !found) matrixSslLoadSessionTicketKeys((sslKeys_t *) keys, name, k, (short) g_cb_kl, h, 32);
    if (v == 'w') { memset(nm, g_cb_wn, 16); matrixSslLoadSessionTicketKeys((sslKeys_t *) keys, nm, k, (short) g_cb_kl, h, 32); }
    return 0;
}
static void cb_set(sslKeys_t *keys, const char *script, const char *k, const char *h, const char *kl, const char *wn)
{
    g_cb_pos = g_cb_calls = 0; g_cb_lastfound = -1;
    if (!script || script[0] == '-') { g_cb_on = 0; g_cb_script[0] = 0; if (keys) matrixSslSetSessionTicketCallback(keys, NULL); return; }
    strncpy(g_cb_script, script, sizeof g_cb_script - 1); g_cb_script[sizeof g_cb_script - 1] = 0; g_cb_on = 1;
    g_cb_k = k ? (unsigned char) strtol(k, NULL, 16) : 0x11; g_cb_h = h ? (unsigned char) strtol(h, NULL, 16) : 0x22;
    g_cb_kl = kl ? atoi(kl) : 32; g_cb_wn = wn ? (unsigned char) strtol(wn, NULL, 16) : 0xee;
    if (keys) matrixSslSetSessionTicketCallback(keys, scripted_ticket_cb);
}

static void keys_reset(void)
{
    if (g_keys) matrixSslDeleteKeys(g_keys);
    g_keys = NULL; matrixSslNewKeys(&g_keys, NULL);
    load_identity(g_keys, 0, 1, 0);      /* RSA identity: sslGetCipherSpec validates key material (VALIDATE_KEY_MATERIAL) */
}

static void do_op(char **a, int n)
{
    const char *op = a[0]; int x = n >= 2 ? conn_ix(a[1]) : 0; ssl_t *s = &g_conn[x]; int32 rc = 0; int show = 1;
    if (!strcmp(op, "new") && n >= 2) {
        memset(s, 0, sizeof *s); memset(&g_sidbuf[x], 0, sizeof g_sidbuf[x]);
        s->flags = SSL_FLAGS_SERVER; s->keys = g_keys;
        const char *v = kv(a + 2, n - 2, "v"), *su = kv(a + 2, n - 2, "s"), *e = kv(a + 2, n - 2, "e"), *m = kv(a + 2, n - 2, "m"), *r = kv(a + 2, n - 2, "r");
        SET_NGTD_VER(s, vtok(v ? atoi(v) : 33));
        s->cipher = sslGetCipherSpec(s, su ? (uint32) strtol(su, NULL, 16) : 0xc02f);
        s->extFlags.extended_master_secret = e ? atoi(e) & 1 : 0;
        memset(s->sec.masterSecret, hexbyte(m), SSL_HS_MASTER_SIZE);
        if (r && strlen(r) == 64) { unsigned char *d; unhex(r, &d); memcpy(s->sec.serverRandom, d, 32); free(d); }
        else memset(s->sec.serverRandom, hexbyte(r), SSL_HS_RANDOM_SIZE);
        rc = s->cipher ? 0 : -1;
    }
    else if (!strcmp(op, "reg")) rc = matrixRegisterSession(s);
    else if (!strcmp(op, "sh")) {
        /* full handshake only: sslEncode.c 3601-3604 registers when the connection is not resumed, hsDecode.c 1262
           stores the master secret at ClientKeyExchange */
        if (s->flags & SSL_FLAGS_RESUMED) rc = -100; else { rc = matrixRegisterSession(s); matrixUpdateSession(s); }
    }
    else if (!strcmp(op, "res")) rc = matrixResumeSession(s);
    else if (!strcmp(op, "upd")) rc = matrixUpdateSession(s);
    else if (!strcmp(op, "clr") && n >= 3) rc = matrixClearSession(s, atoi(a[2]));
    else if (!strcmp(op, "sid") && n >= 3) { idv_t v; parse_idspec(a[2], &v); memset(s->sessionId, 0, 32); memcpy(s->sessionId, v.b, 32); s->sessionIdLen = (unsigned char) v.len;
        if (v.len == 0) s->flags &= ~SSL_FLAGS_RESUMED;      /* hsDecode.c 233-238 */ }
    else if (!strcmp(op, "save") && n >= 3) { x = conn_ix(a[2]); s = &g_conn[x]; idv_t *b = &g_bank[atoi(a[1]) & 15]; b->len = s->sessionIdLen; memcpy(b->b, s->sessionId, 32); }
    else if (!strcmp(op, "flag") && n >= 3) { uint32 f = a[2][0] == 'C' ? SSL_FLAGS_CLOSED : a[2][0] == 'E' ? SSL_FLAGS_ERROR : SSL_FLAGS_RESUMED;
        if (a[2][1] == '1') s->flags |= f; else s->flags &= ~f; }
    else if (!strcmp(op, "chr")) {
        /* hsDecode.c 515-556 */
        rc = 1;                                              /* 1 = no session id presented */
        if (s->sessionIdLen > 0) {
            if ((s->flags & SSL_FLAGS_RESUMED) && s->sid && s->sid->sessionTicketState == SESS_TICKET_STATE_USING_TICKET) rc = 2;
            else if ((rc = matrixResumeSession(s)) >= 0) { s->flags &= ~SSL_FLAGS_CLIENT_AUTH; s->flags |= SSL_FLAGS_RESUMED; }
            else { s->flags &= ~SSL_FLAGS_RESUMED;
                   if (!NGTD_VER(s, v_tls_1_3_any)) { memset(s->sessionId, 0, SSL_MAX_SESSION_ID_SIZE); s->sessionIdLen = 0; } }
        }
    }
    else if (!strcmp(op, "del")) {
        /* matrixssl.c matrixSslDeleteSession: flags |= CLOSED; update if an id is held; forget the id */
        s->flags |= SSL_FLAGS_CLOSED; rc = 1;
        if (s->sessionIdLen > 0 && (s->flags & SSL_FLAGS_SERVER)) rc = matrixUpdateSession(s);
        s->sid = NULL; s->sessionIdLen = 0;
    }
    else if (!strcmp(op, "alert")) { s->flags |= SSL_FLAGS_ERROR; rc = (s->flags & SSL_FLAGS_SERVER) ? matrixClearSession(s, 1) : 1; }
    else if (!strcmp(op, "t13v")) {
        /* tls13ValidateSessionParams on fabricated decrypted-ticket parameters: t13v X v=<tok> s=<suite> life=<s> age=<ms> */
        const char *v = kv(a + 2, n - 2, "v"), *su = kv(a + 2, n - 2, "s"), *li = kv(a + 2, n - 2, "life"), *ag = kv(a + 2, n - 2, "age");
        psTls13SessionParams_t p; memset(&p, 0, sizeof p); show = 0;
        psProtocolVersion_t pv = vtok(v ? atoi(v) : 34) | v_tls_negotiated;
        p.majVer = psEncodeVersionMaj(pv); p.minVer = psEncodeVersionMin(pv);
        p.cipherId = (uint16_t) (su ? strtol(su, NULL, 16) : 0x1301); p.ticketLifetime = (uint32_t) (li ? strtoul(li, NULL, 10) : 360);
        int64_t t0 = g_now_ms - (ag ? strtoll(ag, NULL, 10) : 0);
        p.timestamp.psTimeInternal.tv_sec = (time_t) (t0 / 1000); p.timestamp.psTimeInternal.tv_nsec = (long) (t0 % 1000) * 1000000L;
        if (s->cipher == NULL || t0 < 0) { printf("t13v=-100:0"); return; }
        s->err = SSL_ALERT_NONE; rc = tls13ValidateSessionParams(s, &p);
        printf("t13v=%d:%d", rc, (int) s->err); return;
    }
    else if (!strcmp(op, "tick") && n >= 2) { g_now_ms += strtoll(a[1], NULL, 10); show = 0; }
    else if (!strcmp(op, "kadd")) {
        unsigned char nm[16], k[32], h[32]; memset(nm, hexbyte(kv(a + 1, n - 1, "n")), 16); memset(k, hexbyte(kv(a + 1, n - 1, "k")), 32); memset(h, hexbyte(kv(a + 1, n - 1, "h")), 32);
        const char *kl = kv(a + 1, n - 1, "kl"), *hl = kv(a + 1, n - 1, "hl");
        rc = matrixSslLoadSessionTicketKeys(g_keys, nm, k, (short) (kl ? atoi(kl) : 32), h, (short) (hl ? atoi(hl) : 32)); show = 0;
    }
    else if (!strcmp(op, "cb") && n >= 2) {
        cb_set(g_keys, a[1], kv(a + 2, n - 2, "k"), kv(a + 2, n - 2, "h"), kv(a + 2, n - 2, "kl"), kv(a + 2, n - 2, "wn"));
        printf("cb=%d", g_cb_on); return;
    }
    else if (!strcmp(op, "kdel")) { unsigned char nm[16]; memset(nm, hexbyte(kv(a + 1, n - 1, "n")), 16); rc = matrixSslDeleteSessionTicketKey(g_keys, nm); show = 0; }
    else if (!strcmp(op, "mkt")) {
        const char *iv = kv(a + 2, n - 2, "iv"), *j = kv(a + 2, n - 2, "j"); tkt_t *t = &g_tbank[(j ? atoi(j) : 0) & 15];
        int32 ol = sizeof t->b; g_iv_fixed = 1; g_iv_byte = (unsigned char) hexbyte(iv);
        if (g_keys->sessTickets == NULL || s->cipher == NULL) rc = -100;   /* sslEncode.c only encodes a ticket when a key exists */
        else rc = matrixCreateSessionTicket(s, t->b, &ol);
        g_iv_fixed = 0; t->len = rc >= 0 ? ol : 0;
        printf("mkt=%d:", rc); puthex(t->b, (size_t) t->len); show = 2;
        /* the client sends back the ticket without the 6-byte lifetime/length header */
        if (t->len >= 6) { memmove(t->b, t->b + 6, (size_t) t->len - 6); t->len -= 6; }
    }
    else if (!strcmp(op, "unl") && n >= 3) {
        /* extDecode.c EXT_SESSION_TICKET with extLen > 0 */
        tkt_t t; parse_tspec(a[2], &t);
        if (s->sid == NULL) { s->sid = &g_sidbuf[x]; memset(s->sid, 0, sizeof *s->sid); }
        rc = matrixUnlockSessionTicket(s, t.b, t.len);
        if (rc == PS_SUCCESS) { s->flags |= SSL_FLAGS_RESUMED; s->sid->sessionTicketState = SESS_TICKET_STATE_USING_TICKET; memcpy(s->sec.masterSecret, s->sid->masterSecret, SSL_HS_MASTER_SIZE); }
        else { if (s->sessionIdLen > 0) { memset(s->sessionId, 0, SSL_MAX_SESSION_ID_SIZE); s->sessionIdLen = 0; }
               s->sid->sessionTicketState = (s->keys && s->keys->sessTickets) ? SESS_TICKET_STATE_RECVD_EXT : SESS_TICKET_STATE_INIT; }
    }
    else { printf("?%s", op); return; }
    if (show != 2) printf("%s=%d", op, rc);
    if (show) { dump_conn(x); dump_table(); }
    if (!strcmp(op, "kadd") || !strcmp(op, "kdel") || !strcmp(op, "unl") || !strcmp(op, "mkt")) {
        printf(" K["); for (psSessionTicketKeys_t *k = g_keys->sessTickets; k; k = k->next) printf("%02x/%d/%d,", k->name[0], (int) k->symkeyLen, (int) k->inUse); printf("]");
        if (g_cb_on && !strcmp(op, "unl")) printf(" C%d:%d", g_cb_calls, g_cb_lastfound);
    }
}

static void run_ops(void)
{
    matrixSslClose(); matrixSslOpen();
    g_now_ms = 1000000; memset(g_conn, 0, sizeof g_conn); memset(g_bank, 0, sizeof g_bank); memset(g_tbank, 0, sizeof g_tbank);
    keys_reset(); cb_set(NULL, "-", NULL, NULL, NULL, NULL);
    int i = 1;
    while (i < g_ntok) {
        int j = i; while (j < g_ntok && strcmp(g_tok[j], ";") != 0) j++;
        if (j > i) do_op(g_tok + i, j - i);
        if (j < g_ntok) printf(" | ");
        i = j + 1;
    }
}

/* ------------------------------------------------------------------ live sessions
   live <cmd> ; <cmd> ...  : h_sess commands `new k=v..`, `hs`, plus
      idc <hex|slot:k>   overwrite the session id the CLIENT will present (its sslSessionId_t) before `new resume=1`
      chx <off> <hex>    xor a byte of the queued ClientHello body at offset <off> counted from the session_id length byte
      res?               print matrixSslIsResumedSession of both ends + master-secret equality + first bytes
      tbl                dump the server cache
      sidinfo            print the client's saved session id / ticket length
      tick <ms>
      stash/unstash k, idfrom k, mksid, tkdrop, tkx, pskx, pskkx, rekey, step, xor, park/unpark k, app, dels, sflags: see live_cmd()
   The cache is NOT reset between commands of one line; it is reset at the start of the line. */
static unsigned char g_first_ms[48]; static int g_have_first;
static sslSessionId_t *g_sid_stash[8];
static peer_t g_park_c[4], g_park_s[4];      /* connections kept open while another session runs (shared cache entries) */
static void live_cmd(char **a, int n)
{
    if (!strcmp(a[0], "new")) {
        scfg_t c; memset(&c, 0, sizeof c); c.cca = 1; c.seed = 1; int fresh_sid = 0;
        for (int i = 1; i < n; i++) {
            char *eq = strchr(a[i], '='); if (!eq) continue; *eq = 0; char *v = eq + 1;
            if (!strcmp(a[i], "cv")) { c.ncver = 0; while (*v && c.ncver < 4) { c.cver[c.ncver++] = atoi(v); while (*v && *v != ',') v++; if (*v) v++; } }
            else if (!strcmp(a[i], "sv")) { c.nsver = 0; while (*v && c.nsver < 4) { c.sver[c.nsver++] = atoi(v); while (*v && *v != ',') v++; if (*v) v++; } }
            else if (!strcmp(a[i], "suite")) { while (*v && c.nsuites < 8) { c.suites[c.nsuites++] = (psCipher16_t) strtol(v, &v, 16); if (*v == ',') v++; } }
            else if (!strcmp(a[i], "resume")) c.resume = atoi(v);
            else if (!strcmp(a[i], "ticket")) c.ticket = atoi(v);
            else if (!strcmp(a[i], "ems")) c.ems = atoi(v);
            else if (!strcmp(a[i], "seed")) c.seed = strtoull(v, NULL, 10);
            else if (!strcmp(a[i], "keepkeys")) c.keep_skeys = atoi(v);
            else if (!strcmp(a[i], "cauth")) c.cauth = atoi(v);
            else if (!strcmp(a[i], "scb")) c.scb = atoi(v);
            else if (!strcmp(a[i], "keepsrv")) fresh_sid = 0;
        }
        (void) fresh_sid;
        int rc = sess_new(&c);
        if (rc == 0) { g_quiet = 1; flush_out(&g_c); g_quiet = 0; }
        printf("new:%d", rc);
    }
    else if (!strcmp(a[0], "hs")) {
        pump(1);
        printf("hs:c=%d/%d,s=%d/%d", g_c.ssl ? matrixSslHandshakeIsComplete(g_c.ssl) : -1, g_c.ssl ? !!(g_c.ssl->flags & SSL_FLAGS_ERROR) : -1,
               g_s.ssl ? matrixSslHandshakeIsComplete(g_s.ssl) : -1, g_s.ssl ? !!(g_s.ssl->flags & SSL_FLAGS_ERROR) : -1);
    }
    else if (!strcmp(a[0], "step") && n >= 2) {      /* deliver the next n records of one direction, quietly */
        int k = n >= 3 ? atoi(a[2]) : 1, d = a[1][0] == 's' ? 1 : 0, i, sq = g_quiet; g_quiet = 1;
        for (i = 0; i < k; i++) if (!deliver_one(d, 0)) break;
        g_quiet = sq; printf("step:%d", i);
    }
    else if (!strcmp(a[0], "xor") && n >= 4) {       /* edit the head record queued in one direction */
        queue_t *q = a[1][0] == 's' ? &g_s2c : &g_c2s; size_t off = (size_t) atoi(a[2]); size_t l = q_reclen(q);
        if (off < l) { q->b[off] ^= (unsigned char) strtol(a[3], NULL, 16); printf("xor:ok"); } else printf("xor:range");
    }
    else if (!strcmp(a[0], "park") && n >= 2) {
        /* keep the current client+server connection OPEN and out of the way; the next `new` starts another pair */
        int k = atoi(a[1]) & 3; g_park_c[k] = g_c; g_park_s[k] = g_s; memset(&g_c, 0, sizeof g_c); memset(&g_s, 0, sizeof g_s); g_s.is_server = 1;
        q_init(&g_c2s); q_init(&g_s2c); printf("park");
    }
    else if (!strcmp(a[0], "unpark") && n >= 2) {
        int k = atoi(a[1]) & 3; peer_free(&g_c); peer_free(&g_s); g_c = g_park_c[k]; g_s = g_park_s[k];
        memset(&g_park_c[k], 0, sizeof g_c); memset(&g_park_s[k], 0, sizeof g_s); q_init(&g_c2s); q_init(&g_s2c);
        g_ssl_of[0] = g_c.ssl; g_ssl_of[1] = g_s.ssl; printf("unpark:%d", g_s.ssl ? 1 : 0);
    }
    else if (!strcmp(a[0], "app") && n >= 3) {       /* application record from one side, left in the queue */
        unsigned char *d; size_t l = unhex(a[2], &d); peer_t *p = a[1][0] == 's' ? &g_s : &g_c; int sq = g_quiet;
        int32 rc = p->ssl ? matrixSslEncodeToOutdata(p->ssl, d, (uint32) l) : -999; g_quiet = 1; flush_out(p); g_quiet = sq; free(d);
        printf("app:%d", rc >= 0 ? 0 : rc);
    }
    else if (!strcmp(a[0], "sflags")) {              /* server connection: error / closed flags, cache reference */
        if (g_s.ssl) printf("sflags:E%d,C%d", !!(g_s.ssl->flags & SSL_FLAGS_ERROR), !!(g_s.ssl->flags & SSL_FLAGS_CLOSED)); else printf("sflags:nil");
    }
    else if (!strcmp(a[0], "dels")) { peer_free(&g_s); printf("dels"); }          /* matrixSslDeleteSession on the server side only */
    else if (!strcmp(a[0], "res?")) {
        int cr = g_c.ssl ? matrixSslIsResumedSession(g_c.ssl) : -1, sr = g_s.ssl ? matrixSslIsResumedSession(g_s.ssl) : -1;
        int eq = (g_c.ssl && g_s.ssl) ? !memcmp(g_c.ssl->sec.masterSecret, g_s.ssl->sec.masterSecret, 48) : -1;
        int same = -1;
        if (g_s.ssl) { if (!g_have_first) { memcpy(g_first_ms, g_s.ssl->sec.masterSecret, 48); g_have_first = 1; same = 2; } else same = !memcmp(g_first_ms, g_s.ssl->sec.masterSecret, 48); }
        printf("res:c=%d,s=%d,mseq=%d,first=%d,sidlen=%d,v13=%d", cr, sr, eq, same, g_s.ssl ? (int) g_s.ssl->sessionIdLen : -1, g_s.ssl ? !!ACTV_VER(g_s.ssl, v_tls_1_3_any) : -1);
    }
    else if (!strcmp(a[0], "markfirst")) { if (g_s.ssl) { memcpy(g_first_ms, g_s.ssl->sec.masterSecret, 48); g_have_first = 1; } printf("markfirst"); }
    else if (!strcmp(a[0], "tbl")) { printf("tbl"); dump_table(); }
    else if (!strcmp(a[0], "tick") && n >= 2) { g_now_ms += strtoll(a[1], NULL, 10); printf("tick"); }
    else if (!strcmp(a[0], "idc") && n >= 2) {
        /* edit the id the client will offer next: idc <idspec with #/@ unsupported> applies edits to the saved sid */
        if (g_saved_sid) {
            idv_t v; memset(&v, 0, sizeof v); v.len = g_saved_sid->idLen; memcpy(v.b, g_saved_sid->id, 32);
            char *ed = a[1];
            while (ed && *ed) {
                char *nx = strchr(ed, ':'); if (nx) *nx++ = 0;
                if (ed[0] == 't') { int k = atoi(ed + 1); if (k < v.len) { v.len = k; memset(v.b + k, 0, 32 - k); } }
                else if (ed[0] == 'x') { int pos = atoi(ed + 1); char *dot = strchr(ed, '.'); if (dot && pos >= 0 && pos < 32) v.b[pos] ^= (unsigned char) hexbyte(dot + 1); }
                else if (ed[0] == '=') { unsigned char *d; size_t l = unhex(ed + 1, &d); if (l > 32) l = 32; memset(v.b, 0, 32); memcpy(v.b, d, l); v.len = (int) l; free(d); }
                ed = nx;
            }
            memcpy(g_saved_sid->id, v.b, 32); g_saved_sid->idLen = (unsigned char) v.len;
            printf("idc:%d", v.len);
        } else printf("idc:nosid");
    }
    else if (!strcmp(a[0], "tkx") && n >= 3) {
        /* edit the ticket the client will offer next */
        if (g_saved_sid && g_saved_sid->sessionTicket) { int pos = atoi(a[1]);
            if (pos >= 0 && pos < g_saved_sid->sessionTicketLen) { g_saved_sid->sessionTicket[pos] ^= (unsigned char) hexbyte(a[2]); printf("tkx:ok"); } else printf("tkx:range"); }
        else printf("tkx:noticket");
    }
    else if (!strcmp(a[0], "stash") && n >= 2) { peer_free(&g_c); g_sid_stash[atoi(a[1]) & 7] = g_saved_sid; g_saved_sid = NULL; printf("stash"); }
    else if (!strcmp(a[0], "unstash") && n >= 2) { peer_free(&g_c); if (g_saved_sid) matrixSslDeleteSessionId(g_saved_sid);
        g_saved_sid = g_sid_stash[atoi(a[1]) & 7]; g_sid_stash[atoi(a[1]) & 7] = NULL; printf("unstash:%d", g_saved_sid ? 1 : 0); }
    else if (!strcmp(a[0], "idfrom") && n >= 2) {     /* the attacker copies the (public) session id of the stashed session */
        sslSessionId_t *v = g_sid_stash[atoi(a[1]) & 7];
        if (g_saved_sid && v) { memcpy(g_saved_sid->id, v->id, 32); g_saved_sid->idLen = v->idLen; printf("idfrom:%d", (int) v->idLen); } else printf("idfrom:none");
    }
    else if (!strcmp(a[0], "tkdrop")) {
        if (g_saved_sid && g_saved_sid->sessionTicket) { psFree(g_saved_sid->sessionTicket, g_saved_sid->pool); g_saved_sid->sessionTicket = NULL; g_saved_sid->sessionTicketLen = 0; printf("tkdrop:ok"); }
        else printf("tkdrop:none");
    }
    else if (!strcmp(a[0], "mksid")) {
        /* a client-side session object made up by the attacker: mksid id=<hex> cipher=<hex> m=<xx> */
        peer_free(&g_c); if (g_saved_sid) matrixSslDeleteSessionId(g_saved_sid); g_saved_sid = NULL;
        matrixSslNewSessionId(&g_saved_sid, NULL);
        const char *id = kv(a + 1, n - 1, "id"), *ci = kv(a + 1, n - 1, "cipher"), *m = kv(a + 1, n - 1, "m");
        if (id) { unsigned char *d; size_t l = unhex(id, &d); if (l > 32) l = 32; memcpy(g_saved_sid->id, d, l); g_saved_sid->idLen = (unsigned char) l; free(d); }
        g_saved_sid->cipherId = ci ? (uint32) strtol(ci, NULL, 16) : 0xc02f;
        memset(g_saved_sid->masterSecret, hexbyte(m), SSL_HS_MASTER_SIZE);
        printf("mksid:%d", (int) g_saved_sid->idLen);
    }
    else if ((!strcmp(a[0], "pskx") || !strcmp(a[0], "pskkx")) && n >= 3) {
        /* TLS 1.3: edit the ticket (PSK identity) / the resumption secret the client will offer next */
        psTls13Psk_t *p = g_saved_sid ? g_saved_sid->psk : NULL; int pos = atoi(a[1]);
        if (!p) printf("%s:nopsk", a[0]);
        else if (a[0][3] == 'x') { if (pos >= 0 && pos < p->pskIdLen) { p->pskId[pos] ^= (unsigned char) hexbyte(a[2]); printf("pskx:ok:%d", (int) p->pskIdLen); } else printf("pskx:range:%d", (int) p->pskIdLen); }
        else { if (pos >= 0 && pos < p->pskLen) { p->pskKey[pos] ^= (unsigned char) hexbyte(a[2]); printf("pskkx:ok"); } else printf("pskkx:range"); }
    }
    else if (!strcmp(a[0], "tcb") && n >= 2) {        /* ticket callback on the persistent server keys; default key material = the one sess_new loads */
        const char *k = kv(a + 2, n - 2, "k"), *h = kv(a + 2, n - 2, "h");
        cb_set(g_skeys_persist, a[1], k ? k : "5a", h ? h : "a5", kv(a + 2, n - 2, "kl"), kv(a + 2, n - 2, "wn"));
        printf("tcb:%d", g_skeys_persist ? g_cb_on : -1);
    }
    else if (!strcmp(a[0], "tcb?")) printf("tcb:calls=%d,found=%d", g_cb_calls, g_cb_lastfound);
    else if (!strcmp(a[0], "sidinfo")) {
        if (g_saved_sid) { printf("sid:len=%d,tk=%d,id=", (int) g_saved_sid->idLen, (int) g_saved_sid->sessionTicketLen); puthex(g_saved_sid->id, g_saved_sid->idLen); }
        else printf("sid:none");
    }
    else if (!strcmp(a[0], "ssid")) { printf("ssid:"); if (g_s.ssl) puthex(g_s.ssl->sessionId, g_s.ssl->sessionIdLen); else printf("nil"); }
    else if (!strcmp(a[0], "closeall")) { peer_free(&g_c); peer_free(&g_s); printf("closeall"); }
    else if (!strcmp(a[0], "rekey") && n >= 2) {
        /* rotate ticket keys of the persistent server key set: rekey add=<xx> | rekey del=<name hex 16B> | rekey delfirst */
        if (g_skeys_persist) {
            if (!strncmp(a[1], "add=", 4)) { unsigned char nm[16], k[32], h[32]; int b = hexbyte(a[1] + 4); memset(nm, b, 16); memset(k, b ^ 0x11, 32); memset(h, b ^ 0x22, 32);
                printf("rekey:add=%d", matrixSslLoadSessionTicketKeys(g_skeys_persist, nm, k, 32, h, 32)); }
            else if (!strcmp(a[1], "delfirst") && g_skeys_persist->sessTickets) { unsigned char nm[16]; memcpy(nm, g_skeys_persist->sessTickets->name, 16);
                printf("rekey:del=%d", matrixSslDeleteSessionTicketKey(g_skeys_persist, nm)); }
            else printf("rekey:?");
        } else printf("rekey:nokeys");
    }
    else printf("?%s", a[0]);
}
static void run_live(void)
{
    peer_free(&g_c); peer_free(&g_s);
    for (int k = 0; k < 4; k++) { peer_free(&g_park_c[k]); peer_free(&g_park_s[k]); memset(&g_park_c[k], 0, sizeof g_c); memset(&g_park_s[k], 0, sizeof g_s); }
    if (g_saved_sid) { matrixSslDeleteSessionId(g_saved_sid); g_saved_sid = NULL; }
    if (g_skeys_persist) { matrixSslDeleteKeys(g_skeys_persist); g_skeys_persist = NULL; }
    for (int k = 0; k < 8; k++) if (g_sid_stash[k]) { matrixSslDeleteSessionId(g_sid_stash[k]); g_sid_stash[k] = NULL; }
    matrixSslClose(); matrixSslOpen(); cb_set(NULL, "-", NULL, NULL, NULL, NULL);
    g_now_ms = 1000000; g_have_first = 0;
    int i = 1;
    while (i < g_ntok) {
        int j = i; while (j < g_ntok && strcmp(g_tok[j], ";") != 0) j++;
        if (j > i) live_cmd(g_tok + i, j - i);
        if (j < g_ntok) printf(" | ");
        i = j + 1;
    }
}

int main(void)
{
    if (matrixSslOpen() < 0) { printf("INITFAIL\n"); return 2; }
    int rc = find_statics();
    if (rc < 0) { printf("NOSTATICS %d\n", rc); return 2; }
    while (next_case()) {
        if (g_ntok == 0) { printf("\n"); continue; }
        if (!strcmp(g_tok[0], "c")) run_ops();
        else if (!strcmp(g_tok[0], "live")) run_live();
        else printf("BADCASE");
        printf("\n"); fflush(stdout);
    }
    return 0;
}
