/* C09 correspondence / exploration harness: ASN.1 primitives, GeneralNames, DN attributes, base64,
 * PEM framing, and the whole credential parsers of the library built from /repo's working tree.
 *
 * One case per stdin line, one canonical result line per case on stdout (flushed per case, so that
 * when a sanitizer kills the process the driver script knows which case did it: the first case
 * without a result line = FAULT).
 *
 * Link with -Wl,--wrap=malloc,--wrap=calloc,--wrap=realloc,--wrap=free,--wrap=psGetBrokenDownGMTime,--wrap=psDes3Init,--wrap=psAesInitCBC
 * Every input buffer handed to the library is an EXACT-size heap block (no slack, no terminator
 * unless the case supplies one) so that AddressSanitizer sees every read outside [0,limit).
 *
 * modelled ops (same line printed by ocaml/drv_c09.ml):
 *   len32 <indef> <hex> | len16 <hex> | seq32 <indef> <hex> | seq16 <hex> | set32 <indef> <hex> | set16 <hex>
 *   int <hex> | enum <hex> | oid <checkParams> <hex> | algid <hex> | taglen <hex> | oidcopy <derlen> <hex>
 *   gn <len> <hex: GeneralNames bytes .. extEnd> <hex: DER certificate containing them as SAN>
 *   crlrev <glen> <hex: revoked entries .. end of CRL> <hex: DER CRL ending with those bytes>
 *   dn <hex>            psX509GetDNAttributes on a buffer cut at the end of the Name SEQUENCE
 *   b64 <outcap> <hex of the text>
 *   pemchk <type> <hex> | pemdec <hex> | pemlist <hex> | pempw <pw hex|NULL> <hex>
 * whole-parser ops (implementation only):  <op> <hex> [<hex password>]  ->  rc=<ok|fail> C=<0|1> L=<leaked blocks>
 *   cert certdata crl (x3) crlcache ocsp pkcs8 p12 dhparams pubkey rsapub privkey keys ; kload <rsa|ec|any> <cert> <key> [<CA>] ; pkfile <pw|NULL> <file bytes>
 */
#include "matrixssl/matrixsslImpl.h"
#define WRAP_TIME
#include "hcommon.h"
#include <unistd.h>
#include <fcntl.h>

/* Result lines go to the ORIGINAL stdout through g_out; fd 1 itself is pointed at /dev/null in
   main() because the library prints trace / psAssert text to stdout, which would break the
   one-line-per-case protocol. */
static FILE *g_out;
#define printf(...) fprintf(g_out, __VA_ARGS__)
#define puthex puthex_out
static void puthex_out(const unsigned char *b, size_t l)
{
    if (l == 0 || b == NULL) { fputs("-", g_out); return; }
    for (size_t i = 0; i < l; i++) fprintf(g_out, "%02x", b[i]);
}

/* ------------------------------------------------------------------ allocation table (ptr -> size) */
void *__real_malloc(size_t); void *__real_calloc(size_t, size_t); void *__real_realloc(void *, size_t); void __real_free(void *);
#define TBL (1u << 18)
static struct { void *p; size_t n; unsigned seq; } g_tbl[TBL];
static unsigned g_seq = 0;
static long g_live = 0;
static unsigned g_tomb = 0;
static int g_track = 1;
static unsigned hp(void *p) { uintptr_t x = (uintptr_t) p; x ^= x >> 17; x *= 0x9E3779B97F4A7C15ull; return (unsigned) (x >> 40) & (TBL - 1); }
static void tbl_put(void *p, size_t n)
{
    if (!p || !g_track) return;
    unsigned i = hp(p), k;
    for (k = 0; k < TBL; k++, i = (i + 1) & (TBL - 1))
        if (g_tbl[i].p == NULL || g_tbl[i].p == (void *) 1 || g_tbl[i].p == p) {
            if (g_tbl[i].p == (void *) 1 && g_tomb) g_tomb--;
            g_tbl[i].p = p; g_tbl[i].n = n; g_tbl[i].seq = g_seq; g_live++; return;
        }
}
static long tbl_get(const void *p)          /* -1: unknown */
{
    if (!p) return -1;
    unsigned i = hp((void *) p), k;
    for (k = 0; k < TBL; k++, i = (i + 1) & (TBL - 1)) {
        if (g_tbl[i].p == NULL) return -1;
        if (g_tbl[i].p == p) return (long) g_tbl[i].n;
    }
    return -1;
}
/* tombstones make every probe sequence longer; rebuild the table when they pile up */
static void tbl_rebuild(void)
{
    size_t n = 0, i;
    struct { void *p; size_t n; unsigned seq; } *tmp;
    for (i = 0; i < TBL; i++) if (g_tbl[i].p != NULL && g_tbl[i].p != (void *) 1) n++;
    tmp = __real_malloc((n + 1) * sizeof *tmp);
    if (!tmp) return;
    n = 0;
    for (i = 0; i < TBL; i++) if (g_tbl[i].p != NULL && g_tbl[i].p != (void *) 1) { tmp[n].p = g_tbl[i].p; tmp[n].n = g_tbl[i].n; tmp[n].seq = g_tbl[i].seq; n++; }
    memset(g_tbl, 0, sizeof g_tbl);
    g_tomb = 0;
    for (i = 0; i < n; i++) {
        unsigned j = hp(tmp[i].p);
        while (g_tbl[j].p != NULL) j = (j + 1) & (TBL - 1);
        g_tbl[j].p = tmp[i].p; g_tbl[j].n = tmp[i].n; g_tbl[j].seq = tmp[i].seq;
    }
    __real_free(tmp);
}
static void tbl_del(void *p)
{
    if (!p || !g_track) return;
    unsigned i = hp(p), k;
    for (k = 0; k < TBL; k++, i = (i + 1) & (TBL - 1)) {
        if (g_tbl[i].p == NULL) return;
        if (g_tbl[i].p == p) {
            g_tbl[i].p = (void *) 1; g_live--;
            if (++g_tomb > TBL / 8) tbl_rebuild();
            return;
        }
    }
}
void *__wrap_malloc(size_t n) { void *p = __real_malloc(n); tbl_put(p, n); return p; }
void *__wrap_calloc(size_t a, size_t b) { void *p = __real_calloc(a, b); tbl_put(p, a * b); return p; }
void *__wrap_realloc(void *o, size_t n) { void *p = __real_realloc(o, n); if (p || n == 0) tbl_del(o); tbl_put(p, n); return p; }
void __wrap_free(void *p) { tbl_del(p); __real_free(p); }

/* ---- psPemDecode's cipher set-up is observed through link-time wraps (kind and IV it parsed from DEK-Info) */
int32_t __real_psDes3Init(psDes3_t *ctx, const unsigned char *IV, const unsigned char *key);
int32_t __real_psAesInitCBC(psAesCbc_t *ctx, const unsigned char *IV, const unsigned char *key, uint8_t keylen, uint32_t flags);
static int g_ck = 0; static unsigned char g_civ[16];
int32_t __wrap_psDes3Init(psDes3_t *ctx, const unsigned char *IV, const unsigned char *key)
{ g_ck = 1; memcpy(g_civ, IV, 8); return __real_psDes3Init(ctx, IV, key); }
int32_t __wrap_psAesInitCBC(psAesCbc_t *ctx, const unsigned char *IV, const unsigned char *key, uint8_t keylen, uint32_t flags)
{ g_ck = 2; memcpy(g_civ, IV, 16); return __real_psAesInitCBC(ctx, IV, key, keylen, flags); }

/* exact-size heap copy of a hex token */
static unsigned char *exact(const char *h, size_t *len)
{
    size_t l = (strcmp(h, "-") == 0) ? 0 : strlen(h) / 2;
    unsigned char *b = malloc(l);
    for (size_t i = 0; i < l; i++) b[i] = (unsigned char) (hexval(h[2 * i]) * 16 + hexval(h[2 * i + 1]));
    *len = l; return b;
}

/* ------------------------------------------------------------------ consistency walker */
static int g_budget_s = 10;
static int g_bad; static char g_why[200];
static void bad(const char *w) { if (!g_bad) { snprintf(g_why, sizeof g_why, "%s", w); } g_bad++; }
/* (ptr,len): len bytes must lie inside the allocation of ptr (when ptr is a known heap block) */
static void chk_len(const void *p, long len, const char *w)
{
    if (p == NULL) { return; }
    long a = tbl_get(p);
    if (len < 0) { bad(w); return; }
    if (a >= 0 && len > a) bad(w);
}
/* C string: a NUL must occur inside the allocation */
static void chk_str(const char *s, const char *w)
{
    if (!s) return;
    long a = tbl_get(s);
    if (a < 0) return;
    if (memchr(s, 0, (size_t) a) == NULL) bad(w);
}
static void walk_gn(const x509GeneralName_t *g, const char *w)
{
    int n = 0;
    for (; g && n < 100000; g = g->next, n++) {
        long a = tbl_get(g->data);
        if (g->data == NULL) { if (g->dataLen) bad(w); continue; }
        if (a >= 0 && (long) g->dataLen >= a) bad(w);                 /* room for the terminator */
        else if (a >= 0 && g->data[g->dataLen] != 0) bad(w);
        if (g->oid) chk_len(g->oid, g->oidLen, w);
        if (memchr(g->name, 0, sizeof g->name) == NULL) bad(w);
    }
}
static void walk_dnstr(const char *s, long len, const char *w)
{
    if (!s) return;
    long a = tbl_get(s);
    if (len < DN_NUM_TERMINATING_NULLS) { bad(w); return; }
    if (a >= 0 && len > a) { bad(w); return; }
    if (s[len - 1] != 0 || s[len - 2] != 0) bad(w);
}
static void walk_dn(const x509DNattributes_t *d, const char *w)
{
    walk_dnstr(d->country, d->countryLen, w); walk_dnstr(d->state, d->stateLen, w);
    walk_dnstr(d->organization, d->organizationLen, w); walk_dnstr(d->dnQualifier, d->dnQualifierLen, w);
    walk_dnstr(d->commonName, d->commonNameLen, w); walk_dnstr(d->serialNumber, d->serialNumberLen, w);
    for (x509OrgUnit_t *o = d->orgUnit; o; o = o->next) walk_dnstr(o->name, o->len, w);
    for (x509DomainComponent_t *c = d->domainComponent; c; c = c->next) walk_dnstr(c->name, c->len, w);
    chk_len(d->dnenc, d->dnencLen, w);
}
static void walk_ext(const x509v3extensions_t *e)
{
    walk_gn(e->san, "san"); walk_gn(e->issuerAltName, "ian");
    chk_len(e->sk.id, e->sk.len, "skid"); chk_len(e->ak.keyId, e->ak.keyLen, "akid");
    chk_len(e->ak.serialNum, e->ak.serialNumLen, "akid-serial"); walk_dn(&e->ak.attribs, "akid-dn");
#ifdef USE_FULL_CERT_PARSE
    walk_gn(e->nameConstraints.permitted, "nc-permitted"); walk_gn(e->nameConstraints.excluded, "nc-excluded");
    for (x509authorityInfoAccess_t *a = e->authorityInfoAccess; a; a = a->next) {
        chk_len(a->ocsp, a->ocspLen, "aia-ocsp"); chk_len(a->caIssuers, a->caIssuersLen, "aia-ca");
    }
    if (e->netscapeComment) chk_len(e->netscapeComment->comment, e->netscapeComment->commentLen, "nscomment");
    for (x509PolicyInformation_t *p = e->certificatePolicy.policy; p; p = p->next)
        for (x509PolicyQualifierInfo_t *q = p->qualifiers; q; q = q->next) {
            chk_len(q->cps, q->cpsLen, "cps"); chk_len(q->unoticeOrganization, q->unoticeOrganizationLen, "unotice-org");
            chk_len(q->unoticeExplicitText, q->unoticeExplicitTextLen, "unotice-text");
            if (q->unoticeNumbersLen > MAX_UNOTICE_NUMBERS) bad("unotice-numbers");
        }
#endif
#ifdef USE_CRL
    walk_gn(e->crlDist, "crldp"); chk_len(e->crlNum, e->crlNumLen, "crlnum");
#endif
}
static void walk_cert(const psX509Cert_t *c)
{
    int n = 0;
    for (; c && n < 1000; c = c->next, n++) {
        /* "on success the object is consistent": a bundle loaded with CERT_ALLOW_BUNDLE_PARTIAL_PARSE keeps
           the certificates that failed to parse in the list, marked by parseStatus; they are only to be freed */
        if (c->parseStatus != PS_X509_PARSE_SUCCESS) continue;
        chk_len(c->signature, c->signatureLen, "signature");
        chk_len(c->serialNumber, c->serialNumberLen, "serial");
        walk_dn(&c->issuer, "issuer-dn"); walk_dn(&c->subject, "subject-dn");
        chk_str(c->notBefore, "notBefore"); chk_str(c->notAfter, "notAfter");
        chk_len(c->uniqueIssuerId, c->uniqueIssuerIdLen, "uid-issuer"); chk_len(c->uniqueSubjectId, c->uniqueSubjectIdLen, "uid-subject");
        walk_ext(&c->extensions);
        if (c->sigHashLen > MAX_HASH_SIZE) bad("sigHashLen");
        chk_len(c->unparsedBin, c->binLen, "unparsedBin");
        if (c->unparsedBin && c->parseStatus == PS_X509_PARSE_SUCCESS) {
            if ((long) c->publicKeyDerOffsetIntoUnparsedBin + c->publicKeyDerLen > c->binLen) bad("pubkey-der-range");
            if (c->subjectKeyDerOffsetIntoUnparsedBin > c->binLen) bad("subject-der-offset");
        }
    }
}

/* ------------------------------------------------------------------ modelled ops */
static void res_len(int32 rc, uint32_t len, long adv)
{
    if (rc < 0) printf("rc=%d\n", rc); else printf("rc=%d len=%u adv=%ld\n", rc, len, adv);
}
static void op_prim(void)
{
    const char *op = g_tok[0];
    size_t n; unsigned char *b; const unsigned char *p; int32 rc;
    if (!strcmp(op, "len32") || !strcmp(op, "seq32") || !strcmp(op, "set32")) {
        uint32_t indef = (uint32_t) atoi(g_tok[1]), len = 0;
        b = exact(g_tok[2], &n); p = b;
        rc = !strcmp(op, "len32") ? getAsnLength32(&p, n, &len, indef) : !strcmp(op, "seq32") ? getAsnSequence32(&p, n, &len, indef) : getAsnSet32(&p, n, &len, indef);
        res_len(rc, len, p - b);
    } else if (!strcmp(op, "len16") || !strcmp(op, "seq16") || !strcmp(op, "set16")) {
        psSize_t len = 0;
        b = exact(g_tok[1], &n); p = b;
        rc = !strcmp(op, "len16") ? getAsnLength(&p, n, &len) : !strcmp(op, "seq16") ? getAsnSequence(&p, n, &len) : getAsnSet(&p, n, &len);
        res_len(rc, len, p - b);
    } else if (!strcmp(op, "int") || !strcmp(op, "enum")) {
        int32_t v = 0;
        b = exact(g_tok[1], &n); p = b;
        rc = !strcmp(op, "int") ? getAsnInteger(&p, n, &v) : getAsnEnumerated(&p, n, &v);
        if (rc < 0) printf("rc=%d\n", rc); else printf("rc=%d val=%d adv=%ld\n", rc, v, (long) (p - b));
    } else if (!strcmp(op, "oid")) {
        int32_t oi = 0; psSize_t plen = 0;
        b = exact(g_tok[2], &n); p = b;
        rc = getAsnOID(&p, n, &oi, (uint8_t) atoi(g_tok[1]), &plen);
        if (rc < 0) printf("rc=%d\n", rc); else printf("rc=%d plen=%u adv=%ld\n", rc, plen, (long) (p - b));
    } else if (!strcmp(op, "oidcopy")) {
        /* asnCopyOid into an exact MAX_OID_BYTES heap block (what callers keep on their stack) */
        unsigned char *oid = malloc(MAX_OID_BYTES);
        uint8_t ret;
        memset(oid, 0xAA, MAX_OID_BYTES);
        b = exact(g_tok[2], &n);
        ret = asnCopyOid(b, (psSizeL_t) strtoul(g_tok[1], NULL, 10), oid);
        printf("ret=%u oid=", (unsigned) ret); puthex(oid, MAX_OID_BYTES); printf("\n");
        free(oid);
    } else if (!strcmp(op, "algid")) {
        int32_t oi = 0; psSize_t plen = 0;
        b = exact(g_tok[1], &n); p = b;
        rc = getAsnAlgorithmIdentifier(&p, n, &oi, &plen);
        if (rc < 0) printf("rc=%d\n", rc); else printf("rc=%d plen=%u adv=%ld\n", rc, plen, (long) (p - b));
    } else { /* taglen */
        b = exact(g_tok[1], &n);
        printf("len=%u\n", getAsnTagLenUnsafe(b));
    }
    free(b);
}

static void op_gn(void)
{
    size_t gl, cl; unsigned char *g = exact(g_tok[2], &gl), *c = exact(g_tok[3], &cl);
    psX509Cert_t *cert = NULL; int32 rc;
    if (gl && memmem(c, cl, g, gl) == NULL) { printf("BADCASE\n"); free(g); free(c); return; }
    rc = psX509ParseCert(NULL, c, (uint32) cl, &cert, 0);
    if (rc < 0) printf("fail\n");
    else {
        int n = 0; x509GeneralName_t *e;
        for (e = cert->extensions.san; e; e = e->next) n++;
        printf("ok n=%d", n);
        for (e = cert->extensions.san; e; e = e->next) {
            long a = tbl_get(e->data);
            int term = (e->data != NULL && a > (long) e->dataLen && e->data[e->dataLen] == 0);
            printf(" %d:%u:", (int) e->id, (unsigned) e->dataLen);
            puthex(e->data, e->dataLen);
            printf(":T%d:", term);
            puthex(e->oid, e->oid ? e->oidLen : 0);
            /* what a consumer of the C string sees (name check uses strlen/strcasecmp on DNS/email) */
            if (term && (e->id == GN_DNS || e->id == GN_EMAIL || e->id == GN_URI))
                printf(":S%zu", strlen((char *) e->data));
            else printf(":S-");
        }
        printf("\n");
    }
    psX509FreeCert(cert);
    free(g); free(c);
}

/* crlrev <glen> <hex: revoked-entry bytes .. end of the CRL> <hex: the CRL>: the revoked list as psX509ParseCRL stored it */
static void op_crlrev(void)
{
    size_t gl, cl; unsigned char *g = exact(g_tok[2], &gl), *c = exact(g_tok[3], &cl);
    psX509Crl_t *crl = NULL; int32 rc;
    if (gl && (cl < gl || memcmp(c + cl - gl, g, gl) != 0)) { printf("BADCASE\n"); free(g); free(c); return; }
    rc = psX509ParseCRL(NULL, &crl, c, (int32) cl);
    if (rc < 0) printf("fail\n");
    else {
        int n = 0; x509revoked_t *r;
        for (r = crl->revoked; r; r = r->next) n++;
        printf("ok n=%d", n);
        for (r = crl->revoked; r; r = r->next) { printf(" "); puthex(r->serial, r->serial ? r->serialLen : 0); }
        printf("\n");
        psX509FreeCRL(crl);
    }
    free(g); free(c);
}

static void dn_item(const char *tag, const char *s, int type, long len)
{
    long a = tbl_get(s);
    int term = (s != NULL && len >= 2 && (a < 0 || len <= a) && s[len - 1] == 0 && s[len - 2] == 0);
    printf(" %s=%d:%ld:T%d:", tag, type, len, term);
    if (s && (a < 0 || len <= a)) puthex((const unsigned char *) s, (size_t) len); else printf("?");
}
static void op_dn(void)
{
    size_t n; unsigned char *b = exact(g_tok[1], &n);
    const unsigned char *p = b; psSize_t sl = 0;
    x509DNattributes_t a; int32 rc;
    /* cut the buffer at the end of the Name SEQUENCE so that a read past dnEnd is a read past the block */
    if (n <= 0xFFFF && getAsnSequence(&p, n, &sl) >= 0) {
        size_t m = (size_t) (p - b) + sl;
        unsigned char *b2 = malloc(m); memcpy(b2, b, m); free(b); b = b2; n = m;
    }
    memset(&a, 0, sizeof a);
    p = b;
    rc = psX509GetDNAttributes(NULL, &p, (psSize_t) n, &a, 0);
    if (rc < 0) printf("rc=%d\n", rc);
    else {
        printf("ok adv=%ld", (long) (p - b));
        if (a.country) dn_item("C", a.country, a.countryType, a.countryLen);
        if (a.state) dn_item("ST", a.state, a.stateType, a.stateLen);
        if (a.organization) dn_item("O", a.organization, a.organizationType, a.organizationLen);
        for (x509OrgUnit_t *o = a.orgUnit; o; o = o->next) dn_item("OU", o->name, o->type, o->len);
        if (a.dnQualifier) dn_item("DNQ", a.dnQualifier, a.dnQualifierType, a.dnQualifierLen);
        if (a.commonName) dn_item("CN", a.commonName, a.commonNameType, a.commonNameLen);
        if (a.serialNumber) dn_item("SN", a.serialNumber, a.serialNumberType, a.serialNumberLen);
        for (x509DomainComponent_t *c = a.domainComponent; c; c = c->next) dn_item("DC", c->name, c->type, c->len);
        printf("\n");
    }
    psX509FreeDNStruct(&a, NULL);
    free(b);
}

static void op_b64(void)
{
    size_t n; unsigned char *in = exact(g_tok[2], &n);
    psSize_t cap = (psSize_t) atoi(g_tok[1]), ol = cap;
    unsigned char *out = malloc(cap);
    int32 rc = psBase64decode(in, (psSize_t) n, out, &ol);
    if (rc < 0) printf("rc=%d\n", rc); else { printf("ok "); puthex(out, ol); printf("\n"); }
    free(in); free(out);
}

static void op_pem(void)
{
    const char *op = g_tok[0];
    size_t n; unsigned char *b;
    if (!strcmp(op, "pemchk")) {
        char *s = NULL, *e = NULL; psSizeL_t pl = 0;
        b = exact(g_tok[2], &n);
        psBool_t ok = psPemCheckOk(b, n, (psPemType_t) atoi(g_tok[1]), &s, &e, &pl);
        if (ok) printf("ok s=%ld e=%ld\n", (long) ((unsigned char *) s - b), (long) ((unsigned char *) e - b)); else printf("no\n");
    } else if (!strcmp(op, "pempw")) {
        /* psPemDecode with a password ("NULL" = none, "-" = empty string): header parsing of encrypted PEM */
        unsigned char *out = NULL, *pw = NULL; psSizeL_t ol = 0; size_t pn = 0; char *pass = NULL;
        if (strcmp(g_tok[1], "NULL")) { pw = exact(g_tok[1], &pn); pass = malloc(pn + 1); memcpy(pass, pw, pn); pass[pn] = 0; }
        b = exact(g_tok[2], &n);
        g_ck = 0;
        int32 rc = psPemDecode(NULL, b, n, pass, &out, &ol);
        if (rc < 0) printf("rc=%d\n", rc);
        else {
            printf("ok k=%d iv=", g_ck); puthex(g_civ, g_ck == 1 ? 8 : g_ck == 2 ? 16 : 0);
            printf(" len=%zu d=", (size_t) ol);
            if (g_ck == 0) puthex(out, ol); else printf("?");
            printf("\n"); psFree(out, NULL);
        }
        if (pass) free(pass); if (pw) free(pw);
    } else if (!strcmp(op, "pemdec")) {
        unsigned char *out = NULL; psSizeL_t ol = 0;
        b = exact(g_tok[1], &n);
        int32 rc = psPemDecode(NULL, b, n, NULL, &out, &ol);
        if (rc < 0) printf("rc=%d\n", rc); else { printf("ok "); puthex(out, ol); printf("\n"); psFree(out, NULL); }
    } else {
        psList_t *l = NULL, *i; int k = 0;
        b = exact(g_tok[1], &n);
        int32 rc = psPemCertBufToList(NULL, b, n, &l);
        if (rc < 0) printf("rc=%d\n", rc);
        else {
            for (i = l; i; i = i->next) k++;
            printf("ok n=%d", k);
            for (i = l; i; i = i->next) { printf(" "); puthex(i->item, i->len); }
            printf("\n");
            psFreeList(l, NULL);
        }
    }
    free(b);
}

/* ------------------------------------------------------------------ whole parsers */
static void op_whole(void)
{
    const char *op = g_tok[0];
    size_t n, pn = 0; unsigned char *b = exact(g_tok[1], &n), *pw = NULL;
    int32 rc = -1; long live0;
    char *pass = NULL;
    if (g_ntok > 2) { pw = exact(g_tok[2], &pn); pass = malloc(pn + 1); memcpy(pass, pw, pn); pass[pn] = 0; }
    live0 = g_live; g_bad = 0; g_why[0] = 0;
    if (!strcmp(op, "cert") || !strcmp(op, "certdata")) {
        psX509Cert_t *c = NULL;
        int32 flags = (g_ntok > 2) ? atoi(g_tok[2]) : 0;
        if (pass) { free(pass); free(pw); pass = NULL; pw = NULL; live0 = g_live; }
        rc = !strcmp(op, "cert") ? psX509ParseCert(NULL, b, (uint32) n, &c, flags) : psX509ParseCertData(NULL, b, n, &c, flags);
        if (rc >= 0) walk_cert(c);
        psX509FreeCert(c);
    }
#ifdef USE_CRL
    else if (!strcmp(op, "crl")) {
        /* parsed three times: on success AND on failure the heap must be back at the baseline afterwards */
        for (int rep = 0; rep < 3; rep++) {
            psX509Crl_t *crl = NULL;
            rc = psX509ParseCRL(NULL, &crl, b, (int32) n);
            if (rc >= 0 && crl) {
                chk_len(crl->sig, crl->sigLen, "crl-sig"); walk_dn(&crl->issuer, "crl-issuer"); walk_ext(&crl->extensions);
                if (crl->sigHashLen > MAX_HASH_SIZE) bad("crl-sigHashLen");
                chk_str(crl->nextUpdate, "crl-nextUpdate");
                for (x509revoked_t *r = crl->revoked; r; r = r->next) chk_len(r->serial, r->serialLen, "crl-serial");
                psX509FreeCRL(crl);
            }
        }
    }
    else if (!strcmp(op, "crlcache")) {
        /* CRL cache management around a parsed CRL: RemoveAll on the empty cache, Insert, RemoveAll, Update, DeleteAll */
        psX509Crl_t *crl = NULL;
        psCRL_RemoveAll();
        rc = psX509ParseCRL(NULL, &crl, b, (int32) n);
        if (rc >= 0 && crl) {
            psCRL_Insert(crl); psCRL_RemoveAll();
            psCRL_Update(crl, 0); psCRL_Remove(crl);
            psCRL_RemoveAll();
            psX509FreeCRL(crl);
        }
        psCRL_DeleteAll();
    }
#endif
#ifdef USE_OCSP_RESPONSE
    else if (!strcmp(op, "ocsp")) {
        psOcspResponse_t r; unsigned char *cp = b;
        memset(&r, 0, sizeof r);
        rc = psOcspParseResponse(NULL, (int32) n, &cp, b + n, &r);
        if (rc >= 0) {
            const unsigned char *e = b + n;
#define INBUF(p, l, w) do { if ((p) != NULL && ((const unsigned char *) (p) < b || (const unsigned char *) (p) + (l) > e || (long) (l) < 0)) bad(w); } while (0)
            INBUF(r.sig, r.sigLen, "ocsp-sig"); INBUF(r.timeProduced, r.timeProducedLen, "ocsp-time");
            INBUF(r.responderKeyHash, 20, "ocsp-keyhash"); INBUF(r.responderName, 2, "ocsp-name");
            if (r.hashLen > MAX_HASH_SIZE) bad("ocsp-hashLen");
            for (int i = 0; i < MAX_OCSP_RESPONSES; i++) {
                psOcspSingleResponse_t *s = &r.singleResponse[i];
                INBUF(s->certIdSerial, s->certIdSerialLen, "ocsp-serial"); INBUF(s->thisUpdate, s->thisUpdateLen, "ocsp-thisUpdate");
                INBUF(s->nextUpdate, s->nextUpdateLen, "ocsp-nextUpdate"); INBUF(s->certIdNameHash, 20, "ocsp-namehash"); INBUF(s->certIdKeyHash, 20, "ocsp-keyhash2");
            }
            INBUF(r.nonce.start, r.nonce.end - r.nonce.start, "ocsp-nonce");
            walk_cert(r.OCSPResponseCert);
        }
        psOcspResponseUninit(&r);
    }
#endif
#ifdef USE_PKCS8
    else if (!strcmp(op, "pkcs8")) {
        psPubKey_t k; memset(&k, 0, sizeof k);
        rc = psPkcs8ParsePrivBin(NULL, b, n, pass, &k);
        psClearPubKey(&k);
    }
#endif
#if defined(USE_PKCS12) && defined(MATRIX_USE_FILE_SYSTEM)
    else if (!strcmp(op, "p12")) {
        psX509Cert_t *c = NULL; psPubKey_t k; memset(&k, 0, sizeof k);
        rc = psPkcs12ParseMem(NULL, &c, &k, b, (int32) n, 0, (unsigned char *) pass, (int32) pn, (unsigned char *) pass, (int32) pn);
        if (rc >= 0) walk_cert(c);
        psX509FreeCert(c); psClearPubKey(&k);
    }
#endif
#ifdef USE_DH
    else if (!strcmp(op, "dhparams")) {
        psDhParams_t dp; memset(&dp, 0, sizeof dp);
        rc = psPkcs3ParseDhParamBin(NULL, b, (psSize_t) n, &dp);
        if (rc >= 0) psPkcs3ClearDhParams(&dp);
    }
#endif
#if defined(USE_RSA) && defined(USE_PRIVATE_KEY_PARSING)
    else if (!strcmp(op, "rsapub")) {
        psRsaKey_t k; memset(&k, 0, sizeof k);
        rc = psRsaParsePubKeyMem(NULL, b, n, pass, &k);
        if (rc >= 0) psRsaClearKey(&k);
    }
#endif
    else if (!strcmp(op, "pubkey")) {
        psPubKey_t k; memset(&k, 0, sizeof k);
        rc = psParseUnknownPubKeyMem(NULL, b, (int32) n, pass, &k);
        psClearPubKey(&k);
    } else if (!strcmp(op, "privkey")) {
        psPubKey_t k; memset(&k, 0, sizeof k);
        rc = psParseUnknownPrivKeyMem(NULL, b, (int32) n, pass, &k);
        psClearPubKey(&k);
    } else if (!strcmp(op, "keys")) {
        /* the same bytes as certificate, as private key and as CA file */
        sslKeys_t *keys = NULL; int which = (g_ntok > 3) ? atoi(g_tok[3]) : 7;
        if (matrixSslNewKeys(&keys, NULL) >= 0) {
            rc = matrixSslLoadKeysMem(keys, (which & 1) ? b : NULL, (which & 1) ? (int32) n : 0, (which & 2) ? b : NULL, (which & 2) ? (int32) n : 0,
                                      (which & 4) ? b : NULL, (which & 4) ? (int32) n : 0, NULL);
            if (rc >= 0) {
# ifdef USE_CLIENT_SIDE_SSL
                walk_cert(keys->CAcerts);
# endif
                if (keys->identity) walk_cert(keys->identity->cert);
            }
            matrixSslDeleteKeys(keys);
        }
    } else { printf("BADCASE\n"); goto out; }
    printf("rc=%s C=%d L=%ld%s%s", rc >= 0 ? "ok" : "fail", g_bad ? 0 : 1, g_live - live0, g_bad ? " why=" : "", g_bad ? g_why : "");
    if (g_live - live0 > 0) {       /* sizes of the blocks allocated during this case and still live */
        int shown = 0;
        printf(" leaked=");
        for (size_t i = 0; i < TBL && shown < 8; i++)
            if (g_tbl[i].p != NULL && g_tbl[i].p != (void *) 1 && g_tbl[i].seq == g_seq && g_tbl[i].p != (void *) b && g_tbl[i].p != (void *) pass && g_tbl[i].p != (void *) pw)
                { printf("%s%zu", shown ? "," : "", g_tbl[i].n); shown++; }
    }
    printf("\n");
out:
    free(b); if (pass) free(pass); if (pw) free(pw);
}

/* kload <rsa|ec|any> <cert hex|-> <key hex|-> [<CA hex|->] */
static void op_kload(void)
{
    size_t cn, kn, an = 0; unsigned char *c = exact(g_tok[2], &cn), *k = exact(g_tok[3], &kn), *a = NULL;
    sslKeys_t *keys = NULL; int32 rc = -1; long live0;
    if (g_ntok > 4) a = exact(g_tok[4], &an);
    live0 = g_live; g_bad = 0; g_why[0] = 0;
    if (matrixSslNewKeys(&keys, NULL) >= 0) {
        const unsigned char *cp = cn ? c : NULL, *kp = kn ? k : NULL, *ap = an ? a : NULL;
        if (!strcmp(g_tok[1], "rsa")) rc = matrixSslLoadRsaKeysMem(keys, cp, (int32) cn, kp, (int32) kn, ap, (int32) an);
#ifdef USE_ECC
        else if (!strcmp(g_tok[1], "ec")) rc = matrixSslLoadEcKeysMem(keys, cp, (int32) cn, kp, (int32) kn, ap, (int32) an);
#endif
        else rc = matrixSslLoadKeysMem(keys, cp, (int32) cn, kp, (int32) kn, ap, (int32) an, NULL);
        if (rc >= 0) {
# ifdef USE_CLIENT_SIDE_SSL
            walk_cert(keys->CAcerts);
# endif
            for (sslIdentity_t *id = keys->identity; id; id = id->next) walk_cert(id->cert);
        }
        matrixSslDeleteKeys(keys);
    }
    printf("rc=%s C=%d L=%ld%s%s\n", rc >= 0 ? "ok" : "fail", g_bad ? 0 : 1, g_live - live0, g_bad ? " why=" : "", g_bad ? g_why : "");
    free(c); free(k); if (a) free(a);
}

/* pkfile <pw hex|NULL> <file bytes>: the file-based private key entry points (these take the PEM password) */
static void op_pkfile(void)
{
#if defined(MATRIX_USE_FILE_SYSTEM) && defined(USE_RSA) && defined(USE_PRIVATE_KEY_PARSING)
    size_t n, pn = 0; unsigned char *b, *pw = NULL, *der = NULL; char *pass = NULL; psSize_t dl = 0;
    char path[64]; int fd; long live0; int32 rc1, rc2; psRsaKey_t key;
    if (strcmp(g_tok[1], "NULL")) { pw = exact(g_tok[1], &pn); pass = malloc(pn + 1); memcpy(pass, pw, pn); pass[pn] = 0; }
    b = exact(g_tok[2], &n);
    snprintf(path, sizeof path, "/var/tmp/h_asn.%d.pem", (int) getpid());
    fd = open(path, O_WRONLY | O_CREAT | O_TRUNC, 0600);
    if (fd < 0 || write(fd, b, n) != (ssize_t) n) { printf("BADCASE\n"); if (fd >= 0) close(fd); goto done; }
    close(fd);
    live0 = g_live;
    rc1 = psPkcs1DecodePrivFile(NULL, path, pass, &der, &dl);
    if (rc1 >= 0) psFree(der, NULL);
    memset(&key, 0, sizeof key);
    rc2 = psPkcs1ParsePrivFile(NULL, path, pass, &key);
    if (rc2 >= 0) psRsaClearKey(&key);
    printf("rc=%s C=1 L=%ld dec=%s\n", rc2 >= 0 ? "ok" : "fail", g_live - live0, rc1 >= 0 ? "ok" : "fail");
done:
    unlink(path);
    free(b); if (pass) free(pass); if (pw) free(pw);
#else
    printf("rc=fail C=1 L=0\n");
#endif
}

#include <signal.h>
static void on_alarm(int sig)
{
    static const char m[] = "\nVERIF-TIMEOUT: case exceeded its time budget\n";
    (void) sig; (void) !write(2, m, sizeof m - 1); _exit(97);
}

int main(void)
{
    int fd = dup(1), nul = open("/dev/null", O_WRONLY);
    g_out = fdopen(fd, "w");
    if (nul >= 0) dup2(nul, 1);
    signal(SIGALRM, on_alarm);
    if (matrixSslOpen() < 0) { fprintf(stderr, "matrixSslOpen failed\n"); return 2; }
    while (next_case()) {
        const char *op = g_ntok ? g_tok[0] : "";
        alarm(g_budget_s); g_seq++;
        if (g_ntok < 2) printf("BADCASE\n");
        else if (!strcmp(op, "gn") && g_ntok >= 4) op_gn();
        else if (!strcmp(op, "dn")) op_dn();
        else if (!strcmp(op, "crlrev") && g_ntok >= 4) op_crlrev();
        else if (!strcmp(op, "kload") && g_ntok >= 4) op_kload();
        else if (!strcmp(op, "pkfile") && g_ntok >= 3) op_pkfile();
        else if (!strcmp(op, "pempw") && g_ntok >= 3) op_pem();
        else if (!strcmp(op, "b64") && g_ntok >= 3) op_b64();
        else if (!strncmp(op, "pem", 3)) op_pem();
        else if (!strcmp(op, "len32") || !strcmp(op, "seq32") || !strcmp(op, "set32") || !strcmp(op, "oid") || !strcmp(op, "oidcopy")) { if (g_ntok >= 3) op_prim(); else printf("BADCASE\n"); }
        else if (!strcmp(op, "len16") || !strcmp(op, "seq16") || !strcmp(op, "set16") || !strcmp(op, "int") || !strcmp(op, "enum") ||
                 !strcmp(op, "algid") || !strcmp(op, "taglen")) op_prim();
        else op_whole();
        fflush(g_out);
    }
    return 0;
}
