/* h_fault - C19: exhaustive single-fault (and random multi-fault) allocation-failure injection.

   usage: h_fault <scenario> <resultfile> <shard> <nshards> <maxchildren> <maxocc> <multi> <seed>

   The library's malloc/calloc/realloc/free are interposed at link time (-Wl,--wrap=malloc,... ; psMalloc
   & co. are macros over the libc names in this configuration, core/include/psmalloc.h).  The harness's own
   allocations bypass the wrapper (macros below), so only allocations made INSIDE the library are counted.

   One process = one scenario = one fault-free "parent" run.  At every library allocation k that this
   shard owns the parent forks: in the child that allocation returns NULL (and, with multi != 0, later
   allocations fail again at random), the scenario continues to its end, the child checks the verdict
   conditions and writes one `V` line; the parent goes on with a successful allocation.  A child killed by
   a signal / stopped by a sanitizer is reported by the parent (`R` line); its sanitizer report is in
   <resultfile>.err.<k>.  Lines (all in <resultfile>, appended atomically):

     A k ra0 ra1 ra2 ra3 ra4     (shard 0 only) return addresses of allocation k (ra0 = the library function that
                                 called the allocator): k -> allocation site
     B scenario=.. allocs=N ...  baseline verdict of the fault-free run
     F k=.. pid=.. api=.. side=.. phase=.. bt=a,b,c,...     the injected failure
     V k=.. pid=.. ...           verdict of the child that ran to the end
     R k=.. pid=.. exit=..|sig=..   how the child ended

   No addresses are interpreted here: props/C19.py symbolises them (addr2line) and decides. */
#include <stdio.h>
#include <stdlib.h>
#include <string.h>
#include <stdint.h>
#include <unistd.h>
#include <fcntl.h>
#include <errno.h>
#include <signal.h>
#include <sys/wait.h>
#include <execinfo.h>
#include <sys/resource.h>

void *__real_malloc(size_t n);
void *__real_calloc(size_t a, size_t b);
void *__real_realloc(void *p, size_t n);
void __real_free(void *p);
/* everything below this line that says malloc/free is harness bookkeeping, not a library allocation */
#define malloc(n) __real_malloc(n)
#define calloc(a, b) __real_calloc(a, b)
#define realloc(p, n) __real_realloc(p, n)
#define free(p) __real_free(p)

#include "matrixssl/matrixsslImpl.h"

/* ---------------------------------------------------------------- API call bracket
   Every public API call made by the scenarios (including those inside sess.h) goes through these
   macros: the name of the call in progress, the side, and the return code are known to the verdict. */
enum { A_NONE, A_OPEN, A_CLOSE, A_NEWKEYS, A_DELKEYS, A_LOADRSAMEM, A_LOADECMEM, A_LOADKEYSMEM, A_LOADKEYS, A_LOADTICKET,
       A_NEWSID, A_DELSID, A_NEWCLIENT, A_NEWSERVER, A_DELSESSION, A_GETOUT, A_SENT, A_GETREADBUF, A_RECEIVED,
       A_PROCESSED, A_ENCODE, A_CLOSURE, A_OPTS, A_MAX };
static const char *A_NAME[A_MAX] = { "-", "matrixSslOpen", "matrixSslClose", "matrixSslNewKeys", "matrixSslDeleteKeys",
    "matrixSslLoadRsaKeysMem", "matrixSslLoadEcKeysMem", "matrixSslLoadKeysMem", "matrixSslLoadKeys", "matrixSslLoadSessionTicketKeys",
    "matrixSslNewSessionId", "matrixSslDeleteSessionId", "matrixSslNewClientSession", "matrixSslNewServerSession",
    "matrixSslDeleteSession", "matrixSslGetOutdata", "matrixSslSentData", "matrixSslGetReadbuf", "matrixSslReceivedData",
    "matrixSslProcessedData", "matrixSslEncodeToOutdata", "matrixSslEncodeClosureAlert", "matrixSslSessOptsSet*" };
static void api_enter(int id, const void *ssl);
static int32 api_leave(int id, int32 rc, const uint32 *ptlen);
#define F_I(id, ssl, call) ({ api_enter(id, ssl); int32 rc__ = (int32) (call); api_leave(id, rc__, NULL); })
#define F_V(id, ssl, call) do { api_enter(id, ssl); call; api_leave(id, 0, NULL); } while (0)

#define matrixSslOpenWithConfig(c) F_I(A_OPEN, NULL, matrixSslOpenWithConfig(c))
#define matrixSslClose() F_V(A_CLOSE, NULL, matrixSslClose())
#define matrixSslNewKeys(k, u) F_I(A_NEWKEYS, NULL, matrixSslNewKeys(k, u))
#define matrixSslDeleteKeys(k) F_V(A_DELKEYS, NULL, matrixSslDeleteKeys(k))
#define matrixSslLoadRsaKeysMem(k, a, b, c, d, e, f) F_I(A_LOADRSAMEM, NULL, matrixSslLoadRsaKeysMem(k, a, b, c, d, e, f))
#define matrixSslLoadEcKeysMem(k, a, b, c, d, e, f) F_I(A_LOADECMEM, NULL, matrixSslLoadEcKeysMem(k, a, b, c, d, e, f))
#define matrixSslLoadKeysMem(k, a, b, c, d, e, f, o) F_I(A_LOADKEYSMEM, NULL, matrixSslLoadKeysMem(k, a, b, c, d, e, f, o))
#define matrixSslLoadKeys(k, a, b, c, d, o) F_I(A_LOADKEYS, NULL, matrixSslLoadKeys(k, a, b, c, d, o))
#define matrixSslLoadSessionTicketKeys(k, n, s, sl, h, hl) F_I(A_LOADTICKET, NULL, matrixSslLoadSessionTicketKeys(k, n, s, sl, h, hl))
#define matrixSslNewSessionId(s, u) F_I(A_NEWSID, NULL, matrixSslNewSessionId(s, u))
#define matrixSslDeleteSessionId(s) F_V(A_DELSID, NULL, matrixSslDeleteSessionId(s))
#define matrixSslNewClientSession(s, k, sid, cs, n, cb, en, ext, ecb, o) F_I(A_NEWCLIENT, NULL, matrixSslNewClientSession(s, k, sid, cs, n, cb, en, ext, ecb, o))
#define matrixSslNewServerSession(s, k, cb, o) F_I(A_NEWSERVER, NULL, matrixSslNewServerSession(s, k, cb, o))
#define matrixSslDeleteSession(s) F_V(A_DELSESSION, s, matrixSslDeleteSession(s))
#define matrixSslGetOutdata(s, b) F_I(A_GETOUT, s, matrixSslGetOutdata(s, b))
#define matrixSslSentData(s, n) F_I(A_SENT, s, matrixSslSentData(s, n))
#define matrixSslGetReadbuf(s, b) F_I(A_GETREADBUF, s, matrixSslGetReadbuf(s, b))
#define matrixSslReceivedData(s, n, p, l) ({ api_enter(A_RECEIVED, s); int32 rc__ = matrixSslReceivedData(s, n, p, l); api_leave(A_RECEIVED, rc__, l); })
#define matrixSslProcessedData(s, p, l) ({ api_enter(A_PROCESSED, s); int32 rc__ = matrixSslProcessedData(s, p, l); api_leave(A_PROCESSED, rc__, l); })
#define matrixSslEncodeToOutdata(s, d, l) F_I(A_ENCODE, s, matrixSslEncodeToOutdata(s, d, l))
#define matrixSslEncodeClosureAlert(s) F_I(A_CLOSURE, s, matrixSslEncodeClosureAlert(s))
#define matrixSslSessOptsSetServerTlsVersions(o, v, n) F_I(A_OPTS, NULL, matrixSslSessOptsSetServerTlsVersions(o, v, n))
#define matrixSslSessOptsSetClientTlsVersions(o, v, n) F_I(A_OPTS, NULL, matrixSslSessOptsSetClientTlsVersions(o, v, n))

#include "sess.h"
#include "testkeys/RSA/2048_RSA_PSS.h"

/* ---------------------------------------------------------------- injector state */
enum { M_OFF, M_PARENT, M_CHILD };
static int g_mode = M_OFF;
static int g_counting = 0;            /* inside a scenario: library allocations are counted / tracked */
static long g_k = 0;                  /* index of the last library allocation */
static long g_fail_k = 0;             /* child: the allocation that failed first */
static long g_nfail = 0;              /* child: failures injected so far */
static int g_shard = 0, g_nshards = 1, g_maxchildren = 2, g_maxocc = 0, g_multi = 0;
static uint64_t g_seed = 1, g_mf_state = 0;
static int g_resfd = -1; static const char *g_respath = ""; static char g_errpath[600];
static const char *g_scen = "?";
static const char *g_phase = "init";
static int g_cur_api = A_NONE; static char g_cur_side = '-';
static int g_fault_api = A_NONE; static char g_fault_side = '-'; static int g_fault_pending = 0;
static int32 g_fault_rc = 0; static int g_fault_rc_known = 0;
static char g_fault_phase[32] = "-";
static int g_first_err_api = A_NONE; static int32 g_first_err_rc = 0;
static char g_undoc[256] = "";
static unsigned long g_app_bytes[2];
static int g_hs_done[2][4];           /* [side][handshake #] matrixSslHandshakeIsComplete after pumping */
static int g_nhs = 0;
static int g_in_wrapper = 0;

static void wr(const char *s) { size_t l = strlen(s); ssize_t r = write(g_resfd, s, l); (void) r; }

/* live library blocks: open addressing, pointer -> (k, return address) */
#define LIVE_CAP (1u << 18)
#define NRA 5
typedef struct { void *p; long k; void *ra[NRA]; } live_t;
static live_t *g_live; static unsigned long g_nlive = 0; static unsigned long g_foreign_free = 0;
static unsigned live_slot(void *p) { uint64_t h = (uint64_t) (uintptr_t) p; h ^= h >> 17; h *= 0x9E3779B97F4A7C15ULL; return (unsigned) (h >> 40) & (LIVE_CAP - 1); }
static void live_add(void *p, long k, void **ra) {
    unsigned i = live_slot(p);
    while (g_live[i].p && g_live[i].p != (void *) 1) i = (i + 1) & (LIVE_CAP - 1);
    g_live[i].p = p; g_live[i].k = k; memcpy(g_live[i].ra, ra, sizeof g_live[i].ra); g_nlive++;
}
/* call stack by frame pointers (library and harness are built with -fno-omit-frame-pointer): out[0] = caller of the
   allocator wrapper, out[1] = its caller, ...  Inlined callers are recovered later by addr2line -i. */
extern void *__libc_stack_end;
__attribute__((no_sanitize_address, no_sanitize_undefined, noinline))
static int fpwalk(void **fp, void **out, int max) {
    int n = 0; uintptr_t lo = (uintptr_t) fp, hi = (uintptr_t) __libc_stack_end;
    while (n < max) {
        uintptr_t a = (uintptr_t) fp;
        if (a < lo || a + 16 > hi || (a & 7)) break;
        void *ra = fp[1]; if (!ra) break;
        out[n++] = ra;
        void **nx = (void **) fp[0];
        if ((uintptr_t) nx <= a) break;
        fp = nx;
    }
    for (int i = n; i < max; i++) out[i] = NULL;
    return n;
}
static int live_del(void *p) {
    unsigned i = live_slot(p), n = 0;
    while (g_live[i].p && n++ < LIVE_CAP) {
        if (g_live[i].p == p) { g_live[i].p = (void *) 1; g_nlive--; return 1; }
        i = (i + 1) & (LIVE_CAP - 1);
    }
    return 0;
}

/* occurrences of a call-stack signature (parent only, for --maxocc pruning) */
#define OCC_CAP (1u << 16)
static struct { uint64_t h; int n; } *g_occ;
static int occ_bump(uint64_t h) {
    unsigned i = (unsigned) (h >> 20) & (OCC_CAP - 1), n = 0;
    if (!h) h = 1;
    while (g_occ[i].h && g_occ[i].h != h && n++ < OCC_CAP) i = (i + 1) & (OCC_CAP - 1);
    g_occ[i].h = h; return ++g_occ[i].n;
}

/* children of the parent */
#define MAXKIDS 64
static struct { pid_t pid; long k; } g_kids[MAXKIDS]; static int g_nkids = 0;
static void reap(int block) {
    while (g_nkids > 0) {
        int st; pid_t p = waitpid(-1, &st, block ? 0 : WNOHANG);
        if (p <= 0) return;
        for (int i = 0; i < g_nkids; i++) if (g_kids[i].pid == p) {
            char b[128];
            if (WIFSIGNALED(st)) snprintf(b, sizeof b, "R k=%ld pid=%d sig=%d\n", g_kids[i].k, (int) p, WTERMSIG(st));
            else snprintf(b, sizeof b, "R k=%ld pid=%d exit=%d\n", g_kids[i].k, (int) p, WEXITSTATUS(st));
            wr(b);
            g_kids[i] = g_kids[--g_nkids]; break;
        }
        block = 0;
    }
}

static uint64_t mf_next(void) { g_mf_state ^= g_mf_state << 13; g_mf_state ^= g_mf_state >> 7; g_mf_state ^= g_mf_state << 17; return g_mf_state; }

/* returns 1 when THIS allocation must fail (we are then in a child) */
#define NBT 14
static int inject(long k, void **bt, int nbt)
{
    if (g_mode == M_CHILD) {
        if (!g_multi) return 0;
        if ((mf_next() >> 11) % (unsigned) g_multi != 0) return 0;
        g_nfail++;
        if (g_cur_api != A_NONE && !g_fault_pending) { g_fault_pending = 1; }
        return 1;
    }
    if (g_mode != M_PARENT) return 0;
    if (g_shard == 0) {
        char b[160]; int n = snprintf(b, sizeof b, "A %ld", k);
        for (int i = 0; i < nbt && i < 5; i++) n += snprintf(b + n, sizeof b - n, " %lx", (unsigned long) bt[i]);
        b[n++] = '\n'; b[n] = 0; wr(b);
    }
    if (k % g_nshards != g_shard) return 0;
    if (g_maxocc > 0) {
        uint64_t h = 1469598103934665603ULL;
        for (int i = 0; i < nbt && i < 6; i++) h = (h ^ (uint64_t) (uintptr_t) bt[i]) * 1099511628211ULL;
        h ^= (uint64_t) g_cur_api * 0x9E3779B97F4A7C15ULL;
        if (occ_bump(h) > g_maxocc) return 0;
    }
    while (g_nkids >= g_maxchildren) reap(1);
    reap(0);
    fflush(NULL);
    pid_t pid = fork();
    if (pid < 0) { char b[64]; snprintf(b, sizeof b, "E fork failed k=%ld errno=%d\n", k, errno); wr(b); return 0; }
    if (pid > 0) { g_kids[g_nkids].pid = pid; g_kids[g_nkids].k = k; g_nkids++; return 0; }
    /* ---- child: this allocation fails */
    g_mode = M_CHILD; g_nkids = 0; g_fail_k = k; g_nfail = 1;
    g_mf_state = (g_seed * 0x9E3779B97F4A7C15ULL) ^ ((uint64_t) k * 0xD1B54A32D192ED03ULL) ^ 0x1234567ULL;
    g_fault_api = g_cur_api; g_fault_side = g_cur_side; g_fault_pending = (g_cur_api != A_NONE);
    snprintf(g_fault_phase, sizeof g_fault_phase, "%s", g_phase);
    alarm(60);
    /* the child's stderr (sanitizer reports) goes to its own file <resultfile>.err.<k>; removed again if it stays empty */
    snprintf(g_errpath, sizeof g_errpath, "%s.err.%ld", g_respath, k);
    { int efd = open(g_errpath, O_WRONLY | O_CREAT | O_TRUNC, 0644); if (efd >= 0) { dup2(efd, 2); close(efd); } }
    {
        /* full call stack of the failing allocation through the DWARF unwinder (some objects of the library are
           built without frame pointers); frames of the wrapper itself are dropped: the list starts at bt[0] */
        void *ub[24]; int nu, skip = 0;
        g_in_wrapper = 1; nu = backtrace(ub, 24); g_in_wrapper = 0;
        for (int i = 0; i < nu && i < 6; i++) if (ub[i] == bt[0]) { skip = i; break; }
        char b[700]; int n = snprintf(b, sizeof b, "F k=%ld pid=%d api=%s side=%c phase=%s bt=", k, (int) getpid(), A_NAME[g_cur_api], g_cur_side, g_phase);
        if (skip == 0 && !(nu > 0 && ub[0] == bt[0])) { for (int i = 0; i < nbt; i++) n += snprintf(b + n, sizeof b - n, "%s%lx", i ? "," : "", (unsigned long) bt[i]); }
        else for (int i = skip; i < nu && i < skip + 16; i++) n += snprintf(b + n, sizeof b - n, "%s%lx", i > skip ? "," : "", (unsigned long) ub[i]);
        b[n++] = '\n'; b[n] = 0; wr(b);
    }
    return 1;
}

void *__wrap_malloc(size_t n)
{
    if (!g_counting || g_in_wrapper) return __real_malloc(n);
    void *bt[NBT]; int nbt = fpwalk((void **) __builtin_frame_address(0), bt, NBT);
    long k = ++g_k;
    if (inject(k, bt, nbt)) return NULL;
    void *p = __real_malloc(n);
    if (p) live_add(p, k, bt);
    return p;
}
void *__wrap_calloc(size_t a, size_t b)
{
    if (!g_counting || g_in_wrapper) return __real_calloc(a, b);
    void *bt[NBT]; int nbt = fpwalk((void **) __builtin_frame_address(0), bt, NBT);
    long k = ++g_k;
    if (inject(k, bt, nbt)) return NULL;
    void *p = __real_calloc(a, b);
    if (p) live_add(p, k, bt);
    return p;
}
void *__wrap_realloc(void *old, size_t n)
{
    if (!g_counting || g_in_wrapper) return __real_realloc(old, n);
    void *bt[NBT]; int nbt = fpwalk((void **) __builtin_frame_address(0), bt, NBT);
    long k = ++g_k;
    if (inject(k, bt, nbt)) return NULL;            /* the old block stays valid and live */
    int tracked = old ? live_del(old) : 0;
    void *p = __real_realloc(old, n);
    if (p) live_add(p, k, bt);
    else if (tracked && n) live_add(old, k, bt);
    return p;
}
void __wrap_free(void *p)
{
    if (p && g_live && !g_in_wrapper) { if (!live_del(p)) g_foreign_free++; }
    __real_free(p);
}

/* ---------------------------------------------------------------- API bracket */
static void api_enter(int id, const void *ssl)
{
    g_cur_api = id;
    g_cur_side = (ssl && ssl == (const void *) g_c.ssl) ? 'c' : (ssl && ssl == (const void *) g_s.ssl) ? 's' :
                 id == A_NEWCLIENT ? 'c' : id == A_NEWSERVER ? 's' : '-';
}
static int32 api_leave(int id, int32 rc, const uint32 *ptlen)
{
    int ok = 1;
    /* documented results (matrixsslApi.h / matrixsslApiRet.h): negative = failure; the non-negative ones per call */
    if (rc >= 0) switch (id) {
    case A_OPEN: case A_NEWKEYS: case A_LOADRSAMEM: case A_LOADECMEM: case A_LOADKEYSMEM: case A_LOADKEYS: case A_LOADTICKET:
    case A_NEWSID: case A_OPTS: case A_NEWSERVER:
        ok = (rc == PS_SUCCESS); break;
    case A_NEWCLIENT: ok = (rc == MATRIXSSL_REQUEST_SEND); break;
    case A_GETOUT: case A_GETREADBUF: case A_ENCODE: ok = 1; break;          /* byte counts */
    case A_SENT: ok = (rc == MATRIXSSL_SUCCESS || rc == MATRIXSSL_REQUEST_SEND || rc == MATRIXSSL_REQUEST_CLOSE || rc == MATRIXSSL_HANDSHAKE_COMPLETE); break;
    case A_RECEIVED: case A_PROCESSED:
        ok = (rc == MATRIXSSL_SUCCESS || rc == MATRIXSSL_REQUEST_SEND || rc == MATRIXSSL_REQUEST_RECV || rc == MATRIXSSL_REQUEST_CLOSE ||
              rc == MATRIXSSL_APP_DATA || rc == MATRIXSSL_HANDSHAKE_COMPLETE || rc == MATRIXSSL_RECEIVED_ALERT || rc == MATRIXSSL_APP_DATA_COMPRESSED);
        if ((rc == MATRIXSSL_APP_DATA) && ptlen && g_cur_side != '-') g_app_bytes[g_cur_side == 's'] += *ptlen;
        break;
    case A_CLOSURE: ok = (rc == MATRIXSSL_SUCCESS); break;
    default: break;
    }
    if (!ok && strlen(g_undoc) < sizeof g_undoc - 48) { char b[48]; snprintf(b, sizeof b, "%s%s:%d", g_undoc[0] ? "," : "", A_NAME[id], rc); strcat(g_undoc, b); }
    if (g_mode == M_CHILD) {
        if (g_fault_pending && !g_fault_rc_known) { g_fault_rc = rc; g_fault_rc_known = 1; g_fault_pending = 0; if (g_fault_api == A_NONE) g_fault_api = id; }
        if (rc < 0 && g_first_err_api == A_NONE) { g_first_err_api = id; g_first_err_rc = rc; }
    }
    g_cur_api = A_NONE; g_cur_side = '-';
    return rc;
}

/* ---------------------------------------------------------------- scenarios */
static unsigned char *slurp(const char *rel, int32 *len)
{
    char path[512]; snprintf(path, sizeof path, "%s/%s", VERIF_REPO_DIR, rel);
    FILE *f = fopen(path, "rb"); if (!f) { *len = 0; return NULL; }
    unsigned char *b = malloc(1 << 16); size_t n = fread(b, 1, (1 << 16) - 1, f); fclose(f); b[n] = 0; *len = (int32) n; return b;
}

static int g_ok = 1;                 /* scenario still on its nominal path */
#define PHASE(name) do { g_phase = (name); } while (0)

/* key loading through every mem API: DER (typed RSA / EC entry points), PEM and DER via the generic one, PEM files */
static void sc_keys(void)
{
    sslKeys_t *k = NULL; int32 rc, cl, pl, al; unsigned char *c, *p, *a;
    PHASE("rsa-der");
    if (matrixSslNewKeys(&k, NULL) >= 0) {
        rc = matrixSslLoadRsaKeysMem(k, RSA2048, sizeof(RSA2048), RSA2048KEY, sizeof(RSA2048KEY), RSA2048CA, sizeof(RSA2048CA));
        if (rc < 0) g_ok = 0;
        matrixSslDeleteKeys(k);
    } else g_ok = 0;
    PHASE("ec-der"); k = NULL;
    if (matrixSslNewKeys(&k, NULL) >= 0) {
        rc = matrixSslLoadEcKeysMem(k, EC256, sizeof(EC256), EC256KEY, sizeof(EC256KEY), EC256CA, sizeof(EC256CA));
        if (rc < 0) g_ok = 0;
        matrixSslDeleteKeys(k);
    } else g_ok = 0;
    PHASE("rsa-pem-mem"); k = NULL;
    c = slurp("testkeys/RSA/2048_RSA.pem", &cl); p = slurp("testkeys/RSA/2048_RSA_KEY.pem", &pl); a = slurp("testkeys/RSA/2048_RSA_CA.pem", &al);
    if (c && p && a && matrixSslNewKeys(&k, NULL) >= 0) {
        matrixSslLoadKeysOpts_t o; memset(&o, 0, sizeof o);
        rc = matrixSslLoadKeysMem(k, c, cl, p, pl, a, al, &o);
        if (rc < 0) g_ok = 0;
        matrixSslDeleteKeys(k);
    } else g_ok = 0;
    free(c); free(p); free(a);
    PHASE("ec-pem-mem"); k = NULL;
    c = slurp("testkeys/EC/256_EC.pem", &cl); p = slurp("testkeys/EC/256_EC_KEY.pem", &pl); a = slurp("testkeys/EC/256_EC_CA.pem", &al);
    if (c && p && a && matrixSslNewKeys(&k, NULL) >= 0) {
        matrixSslLoadKeysOpts_t o; memset(&o, 0, sizeof o);
        rc = matrixSslLoadKeysMem(k, c, cl, p, pl, a, al, &o);
        if (rc < 0) g_ok = 0;
        matrixSslDeleteKeys(k);
    } else g_ok = 0;
    free(c); free(p); free(a);
    PHASE("generic-der"); k = NULL;
    if (matrixSslNewKeys(&k, NULL) >= 0) {
        matrixSslLoadKeysOpts_t o; memset(&o, 0, sizeof o);
        rc = matrixSslLoadKeysMem(k, RSA3072, sizeof(RSA3072), RSA3072KEY, sizeof(RSA3072KEY), RSA3072CA, sizeof(RSA3072CA), &o);
        if (rc < 0) g_ok = 0;
        matrixSslDeleteKeys(k);
    } else g_ok = 0;
    PHASE("pem-files"); k = NULL;
    if (matrixSslNewKeys(&k, NULL) >= 0) {
        char cf[512], pf[512], af[512]; matrixSslLoadKeysOpts_t o; memset(&o, 0, sizeof o);
        snprintf(cf, sizeof cf, "%s/testkeys/RSA/2048_RSA.pem", VERIF_REPO_DIR); snprintf(pf, sizeof pf, "%s/testkeys/RSA/2048_RSA_KEY.pem", VERIF_REPO_DIR);
        snprintf(af, sizeof af, "%s/testkeys/RSA/2048_RSA_CA.pem;%s/testkeys/EC/256_EC_CA.pem", VERIF_REPO_DIR, VERIF_REPO_DIR);
        rc = matrixSslLoadKeys(k, cf, pf, NULL, af, &o);
        if (rc < 0) g_ok = 0;
        matrixSslDeleteKeys(k);
    } else g_ok = 0;
}

static const unsigned char APP1[] = "GET /verif HTTP/1.0\r\n\r\n";
static unsigned char APP2[3000];

static void exchange(void)
{
    int32 rc;
    PHASE("data");
    if (!g_c.ssl || !g_s.ssl) { g_ok = 0; return; }
    rc = matrixSslEncodeToOutdata(g_c.ssl, (unsigned char *) APP1, sizeof APP1); if (rc < 0) { g_ok = 0; return; }
    pump(1);
    for (size_t i = 0; i < sizeof APP2; i++) APP2[i] = (unsigned char) (i * 7 + 1);
    rc = matrixSslEncodeToOutdata(g_s.ssl, APP2, sizeof APP2); if (rc < 0) { g_ok = 0; return; }
    pump(1);
}
static void closure(void)
{
    PHASE("close");
    if (g_c.ssl) { matrixSslEncodeClosureAlert(g_c.ssl); pump(1); }
    if (g_s.ssl) { matrixSslEncodeClosureAlert(g_s.ssl); pump(1); }
}
static void handshake(scfg_t *c, const char *newphase, const char *hsphase)
{
    PHASE(newphase);
    int rc = sess_new(c);
    int idx = g_nhs < 4 ? g_nhs : 3; g_nhs++;
    if (rc != 0) { g_ok = 0; return; }
    PHASE(hsphase);
    pump(1);
    g_hs_done[0][idx] = g_c.ssl && matrixSslHandshakeIsComplete(g_c.ssl);
    g_hs_done[1][idx] = g_s.ssl && matrixSslHandshakeIsComplete(g_s.ssl);
    if (!g_hs_done[0][idx] || !g_hs_done[1][idx]) g_ok = 0;
}
static void teardown(void)
{
    PHASE("teardown");
    peer_free(&g_c); peer_free(&g_s);
    if (g_skeys_persist) { matrixSslDeleteKeys(g_skeys_persist); g_skeys_persist = NULL; }
    if (g_saved_sid) { matrixSslDeleteSessionId(g_saved_sid); g_saved_sid = NULL; }
    matrixSslClose();
}

/* full handshake + data + closure, then a resumed handshake + data + closure, then delete everything */
static void sc_tls(int minor, int key, int cauth, int ticket, const char *suite)
{
    scfg_t c; memset(&c, 0, sizeof c);
    c.cver[0] = c.sver[0] = minor; c.ncver = c.nsver = 1; c.key = key; c.cauth = cauth; c.cca = 1; c.seed = g_seed;
    c.scb = cauth ? 1 : 0; c.ccb = 1; c.ticket = ticket; c.name = "localhost";
    if (suite) { c.suites[0] = (psCipher16_t) strtol(suite, NULL, 16); c.nsuites = 1; }
    handshake(&c, "new", "handshake");
    if (g_ok) exchange();
    if (g_ok) closure();
    if (g_ok) {
        c.resume = 1; c.keep_skeys = 1; c.seed = g_seed + 1;
        handshake(&c, "new-resumed", "handshake-resumed");
        if (g_ok) exchange();
        if (g_ok) closure();
    }
    teardown();
}

typedef struct { const char *name; int kind, minor, key, cauth, ticket; const char *suite; } scen_t;
static const scen_t SCEN[] = {
    { "keys", 0, 0, 0, 0, 0, NULL },
    { "tls12", 1, 3, 0, 0, 0, NULL },
    { "tls13", 1, 4, 0, 0, 1, NULL },
    { "tls12-cauth", 1, 3, 0, 1, 0, NULL },
    { "tls13-cauth", 1, 4, 0, 1, 1, NULL },
    { "tls12-ec", 1, 3, 1, 0, 1, "c02b" },
    { "tls13-ec-cauth", 1, 4, 1, 1, 1, NULL },
    { "tls11", 1, 2, 0, 0, 0, NULL },
    { "tls12-rsa-cbc", 1, 3, 0, 1, 1, "003c" },
    { "tls12-ticket", 1, 3, 0, 0, 1, NULL },
    { "tls13-chacha", 1, 4, 0, 0, 1, "1303" },
};

extern int __lsan_do_recoverable_leak_check(void) __attribute__((weak));

static void verdict(char tag)
{
    char b[3072]; int n;
    unsigned long leaks = 0; char ls[1200] = ""; int ln = 0;
    if (g_nlive) for (unsigned i = 0; i < LIVE_CAP; i++) if (g_live[i].p && g_live[i].p != (void *) 1) {
        leaks++;
        if (ln < (int) sizeof ls - 100) {
            ln += snprintf(ls + ln, sizeof ls - ln, "%s%ld", ln ? "," : "", g_live[i].k);
            for (int j = 0; j < NRA && g_live[i].ra[j]; j++) ln += snprintf(ls + ln, sizeof ls - ln, ":%lx", (unsigned long) g_live[i].ra[j]);
        }
    }
    int lsan = -1;
    if (getenv("H_FAULT_LSAN") && __lsan_do_recoverable_leak_check) lsan = __lsan_do_recoverable_leak_check();
    n = snprintf(b, sizeof b, "%c k=%ld pid=%d scenario=%s allocs=%ld nfail=%ld ok=%d fault_api=%s fault_side=%c fault_phase=%s fault_rc=%s%d first_err=%s:%d "
                 "cdone=%d%d%d%d sdone=%d%d%d%d nhs=%d app_c=%lu app_s=%lu leaks=%lu leak_sites=%s foreign_free=%lu lsan=%d undoc=%s\n",
                 tag, g_fail_k, (int) getpid(), g_scen, g_k, g_nfail, g_ok, A_NAME[g_fault_api], g_fault_side, g_fault_phase,
                 g_fault_rc_known ? "" : "?", g_fault_rc, A_NAME[g_first_err_api], g_first_err_rc,
                 g_hs_done[0][0], g_hs_done[0][1], g_hs_done[0][2], g_hs_done[0][3], g_hs_done[1][0], g_hs_done[1][1], g_hs_done[1][2], g_hs_done[1][3],
                 g_nhs, g_app_bytes[0], g_app_bytes[1], leaks, ls[0] ? ls : "-", g_foreign_free, lsan, g_undoc[0] ? g_undoc : "-");
    (void) n; wr(b);
}

int main(int argc, char **argv)
{
    if (argc < 9) { fprintf(stderr, "usage: h_fault scenario resultfile shard nshards maxchildren maxocc multi seed\n"); return 2; }
    const scen_t *sc = NULL;
    if (!strcmp(argv[1], "list")) { for (size_t i = 0; i < sizeof SCEN / sizeof SCEN[0]; i++) printf("%s\n", SCEN[i].name); return 0; }
    for (size_t i = 0; i < sizeof SCEN / sizeof SCEN[0]; i++) if (!strcmp(SCEN[i].name, argv[1])) sc = &SCEN[i];
    if (!sc) { fprintf(stderr, "unknown scenario\n"); return 2; }
    g_scen = sc->name;
    g_respath = argv[2];
    g_resfd = open(argv[2], O_WRONLY | O_CREAT | O_APPEND, 0644);
    if (g_resfd < 0) { perror("open"); return 2; }
    g_shard = atoi(argv[3]); g_nshards = atoi(argv[4]); if (g_nshards < 1) g_nshards = 1;
    g_maxchildren = atoi(argv[5]); if (g_maxchildren < 1) g_maxchildren = 1; if (g_maxchildren > MAXKIDS) g_maxchildren = MAXKIDS;
    g_maxocc = atoi(argv[6]); g_multi = atoi(argv[7]); g_seed = strtoull(argv[8], NULL, 10);
    int dry = argc > 9 && !strcmp(argv[9], "dry");      /* count only, no injection */
    g_live = calloc(LIVE_CAP, sizeof *g_live); g_occ = calloc(OCC_CAP, sizeof *g_occ);
    { void *ub[4]; backtrace(ub, 4); }                  /* load the unwinder before counting starts */
    setpriority(PRIO_PROCESS, 0, 10);
    g_quiet = 1;
    q_init(&g_c2s); q_init(&g_s2c);
    /* the library is opened before counting starts only for the key scenario's benefit?  No: matrixSslOpen is part
       of the property ("at any point"), it runs under injection as well. */
    g_mode = dry ? M_OFF : M_PARENT; g_counting = 1;
    PHASE("open");
    int32 orc = matrixSslOpen();
    if (orc < 0) { g_ok = 0; }
    else {
        if (sc->kind == 0) { sc_keys(); PHASE("teardown"); matrixSslClose(); }
        else sc_tls(sc->minor, sc->key, sc->cauth, sc->ticket, sc->suite);
    }
    g_counting = 0;
    if (g_mode == M_CHILD) {
        verdict('V');
        off_t sz = lseek(2, 0, SEEK_END);
        if (sz == 0 && g_errpath[0]) unlink(g_errpath);
        _exit(0);
    }
    while (g_nkids) reap(1);
    verdict('B');
    return 0;
}
