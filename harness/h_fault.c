/* h_fault - C19: exhaustive single-fault (and random multi-fault) allocation-failure injection.

   usage: h_fault <scenario>[+del] <resultfile> <shard> <nshards> <maxchildren> <maxocc> <multi> <seed> [dry]
          h_fault list

   Self-contained two-peer in-memory TLS driver (no sess.h): client and server sessions live in this process, records
   travel through two byte queues.  The library's malloc/calloc/realloc/free are interposed at link time
   (-Wl,--wrap=malloc,... ; psMalloc & co. are macros over the libc names in this configuration, core/include/psmalloc.h).
   The harness's own allocations bypass the wrapper (macros below), so only allocations made INSIDE the library count.
   Entropy, PRNG, clock and calendar are pinned (--wrap=psGetEntropy,psGetPrngLocked,psGetTime,psGetBrokenDownGMTime).

   One process = one scenario = one fault-free "parent" run.  At every library allocation k that this shard owns the
   parent forks: in the child that allocation returns NULL (and, with multi != 0, later allocations fail again at
   random), the scenario continues to its end INCLUDING the deletion of every object the application owns (sessions,
   session id, both key sets, matrixSslClose), the child checks the verdict conditions and writes one `V` line; the parent
   goes on with a successful allocation.  A child killed by a signal / stopped by a sanitizer is reported by the parent
   (`R` line); its sanitizer report is in <resultfile>.err.<k>.  maxocc > 0 = deterministic subsampling (quick tier): only
   the first maxocc executions of a (call stack, API call, phase) combination are fault points.

   Scenarios (table SCEN below):
     positive  keys; full handshake + data both ways (20000 bytes up in one call: fragmentation and buffer growth, 3000 down
               through GetWritebuf/EncodeWritebuf) + closure, then a resumed connection (session id / ticket / TLS 1.3 PSK) on
               the SAME application-owned session id and keys; tls12-ticket-renew adds a server restart with another ticket
               key (ticket refused, full handshake, NEW ticket replaces the old one in the session id) and a resumption with
               it.  The client always has an expectedName and a certificate callback.  "<scenario>+del": the application
               deletes everything right after the connection in which the allocation failed (a later connection can
               overwrite, and so hide, a stale pointer).
               After every API call that reports success the configuration it was asked to install is checked
               (expectedName, callback, keys, sid, identity, CA list, ticket keys, PSK): `cfglost=`.
               Connections after a fault reuse what the faulted one left in the application-owned objects: same session id and
               keys with the same name (resumed or full - both fine), and - right after the connection in which the allocation
               failed, if the client completed it, and again at the end - a NEW client session for a DIFFERENT server name on
               the same session id (`xname=`: R refused, F failed, C/c completed): it must not complete unless it also does
               in the fault-free run (TLS 1.3 refuses: the resumption PSK is bound to the SNI of its session).
               Checkpoints (`fp=`): content of both key sets after loading, of the session id after every connection
               (ticket, master secret, PSK with sni/alpn/cipher/early-data/lifetime) and of the server's session-cache
               entry, compared with the fault-free run by props/C19.py.
     DTLS      dtls12 (RSA cert, ECDHE; full + session-id resumption), dtls12-ticket, dtls12-cauth, dtls12-ec-cauth (ECDSA
               CertificateVerify saved aside for retransmits), dtls10-cbc, dtls12-frag (PMTU 400: fragmented handshake messages
               and their reassembly), dtls12-lost1/2/6 and dtls12-cauth-lost5 (one flight of the first connection is lost; its
               sender times out: matrixDtlsGetOutdata with nothing pending -> dtlsResendFlight, so the RESEND path runs under
               injection), negd12-name/ca/clientcert.  Datagrams travel whole (one matrixSslReceivedData call each); output is
               fetched with the documented loop `while (matrixDtlsGetOutdata() > 0) matrixDtlsSentData()` - the final 0 is how
               the library learns that the flight went out.  H_FAULT_TRACE=1 prints one line per datagram.
     negative  twins: one verification step each that MUST refuse the handshake without any fault (expectedName mismatch,
               server chain not under the client's CA, client certificate not trusted by the server, rejecting certificate
               callback, different PSKs): under NO fault may a side listed in `neg` (1 client, 2 server) report
               completion, and no application data may be delivered.

   Lines (all in <resultfile>, appended atomically):
     A k ra0 ra1 ra2 ra3 ra4     (shard 0 only) return addresses of allocation k (ra0 = the library function that
                                 called the allocator): k -> allocation site
     B scenario=.. allocs=N ...  baseline verdict of the fault-free run
     F k=.. pid=.. api=.. side=.. phase=.. bt=a,b,c,...     the injected failure
     V k=.. pid=.. ...           verdict of the child that ran to the end
     R k=.. pid=.. exit=..|sig=..   how the child ended

   No addresses are interpreted here: props/C19.py symbolises them (addr2line) and decides. */
#include <stdio.h>
#include <stdlib.h>
#include <string.h>
#include <stdint.h>
#include <unistd.h>
#include <fcntl.h>
#include <errno.h>
#include <signal.h>
#include <sys/wait.h>
#include <execinfo.h>
#include <sys/resource.h>
#include <stdarg.h>

void *__real_malloc(size_t n);
void *__real_calloc(size_t a, size_t b);
void *__real_realloc(void *p, size_t n);
void __real_free(void *p);
/* everything below this line that says malloc/free is harness bookkeeping, not a library allocation */
#define malloc(n) __real_malloc(n)
#define calloc(a, b) __real_calloc(a, b)
#define realloc(p, n) __real_realloc(p, n)
#define free(p) __real_free(p)

#include "matrixssl/matrixsslImpl.h"

/* ---------------------------------------------------------------- API call bracket
   Every public API call made by the scenarios goes through these
   macros: the name of the call in progress, the side, and the return code are known to the verdict. */
enum { A_NONE, A_OPEN, A_CLOSE, A_NEWKEYS, A_DELKEYS, A_LOADRSAMEM, A_LOADECMEM, A_LOADKEYSMEM, A_LOADKEYS, A_LOADTICKET,
       A_NEWSID, A_DELSID, A_NEWCLIENT, A_NEWSERVER, A_DELSESSION, A_GETOUT, A_SENT, A_GETREADBUF, A_RECEIVED,
       A_PROCESSED, A_ENCODE, A_CLOSURE, A_OPTS, A_LOADPSK, A_GETWRITEBUF, A_ENCODEWRITEBUF, A_DTLSGETOUT, A_DTLSSENT, A_MAX };
static const char *A_NAME[A_MAX] = { "-", "matrixSslOpen", "matrixSslClose", "matrixSslNewKeys", "matrixSslDeleteKeys",
    "matrixSslLoadRsaKeysMem", "matrixSslLoadEcKeysMem", "matrixSslLoadKeysMem", "matrixSslLoadKeys", "matrixSslLoadSessionTicketKeys",
    "matrixSslNewSessionId", "matrixSslDeleteSessionId", "matrixSslNewClientSession", "matrixSslNewServerSession",
    "matrixSslDeleteSession", "matrixSslGetOutdata", "matrixSslSentData", "matrixSslGetReadbuf", "matrixSslReceivedData",
    "matrixSslProcessedData", "matrixSslEncodeToOutdata", "matrixSslEncodeClosureAlert", "matrixSslSessOptsSet*",
    "matrixSslLoadTls13Psk", "matrixSslGetWritebuf", "matrixSslEncodeWritebuf", "matrixDtlsGetOutdata", "matrixDtlsSentData" };
static void api_enter(int id, const void *ssl);
static int32 api_leave(int id, int32 rc, const uint32 *ptlen);
#define F_I(id, ssl, call) ({ api_enter(id, ssl); int32 rc__ = (int32) (call); api_leave(id, rc__, NULL); })
#define F_V(id, ssl, call) do { api_enter(id, ssl); call; api_leave(id, 0, NULL); } while (0)

#define matrixSslOpenWithConfig(c) F_I(A_OPEN, NULL, matrixSslOpenWithConfig(c))
#define matrixSslClose() F_V(A_CLOSE, NULL, matrixSslClose())
#define matrixSslNewKeys(k, u) F_I(A_NEWKEYS, NULL, matrixSslNewKeys(k, u))
#define matrixSslDeleteKeys(k) F_V(A_DELKEYS, NULL, matrixSslDeleteKeys(k))
#define matrixSslLoadRsaKeysMem(k, a, b, c, d, e, f) F_I(A_LOADRSAMEM, NULL, matrixSslLoadRsaKeysMem(k, a, b, c, d, e, f))
#define matrixSslLoadEcKeysMem(k, a, b, c, d, e, f) F_I(A_LOADECMEM, NULL, matrixSslLoadEcKeysMem(k, a, b, c, d, e, f))
#define matrixSslLoadKeysMem(k, a, b, c, d, e, f, o) F_I(A_LOADKEYSMEM, NULL, matrixSslLoadKeysMem(k, a, b, c, d, e, f, o))
#define matrixSslLoadKeys(k, a, b, c, d, o) F_I(A_LOADKEYS, NULL, matrixSslLoadKeys(k, a, b, c, d, o))
#define matrixSslLoadSessionTicketKeys(k, n, s, sl, h, hl) F_I(A_LOADTICKET, NULL, matrixSslLoadSessionTicketKeys(k, n, s, sl, h, hl))
#define matrixSslNewSessionId(s, u) F_I(A_NEWSID, NULL, matrixSslNewSessionId(s, u))
#define matrixSslDeleteSessionId(s) F_V(A_DELSID, NULL, matrixSslDeleteSessionId(s))
#define matrixSslNewClientSession(s, k, sid, cs, n, cb, en, ext, ecb, o) F_I(A_NEWCLIENT, NULL, matrixSslNewClientSession(s, k, sid, cs, n, cb, en, ext, ecb, o))
#define matrixSslNewServerSession(s, k, cb, o) F_I(A_NEWSERVER, NULL, matrixSslNewServerSession(s, k, cb, o))
#define matrixSslDeleteSession(s) F_V(A_DELSESSION, s, matrixSslDeleteSession(s))
#define matrixSslGetOutdata(s, b) F_I(A_GETOUT, s, matrixSslGetOutdata(s, b))
#define matrixSslSentData(s, n) F_I(A_SENT, s, matrixSslSentData(s, n))
#define matrixSslGetReadbuf(s, b) F_I(A_GETREADBUF, s, matrixSslGetReadbuf(s, b))
#define matrixSslReceivedData(s, n, p, l) ({ api_enter(A_RECEIVED, s); int32 rc__ = matrixSslReceivedData(s, n, p, l); api_leave(A_RECEIVED, rc__, l); })
#define matrixSslProcessedData(s, p, l) ({ api_enter(A_PROCESSED, s); int32 rc__ = matrixSslProcessedData(s, p, l); api_leave(A_PROCESSED, rc__, l); })
#define matrixSslEncodeToOutdata(s, d, l) F_I(A_ENCODE, s, matrixSslEncodeToOutdata(s, d, l))
#define matrixSslEncodeClosureAlert(s) F_I(A_CLOSURE, s, matrixSslEncodeClosureAlert(s))
#define matrixSslSessOptsSetServerTlsVersions(o, v, n) F_I(A_OPTS, NULL, matrixSslSessOptsSetServerTlsVersions(o, v, n))
#define matrixSslSessOptsSetClientTlsVersions(o, v, n) F_I(A_OPTS, NULL, matrixSslSessOptsSetClientTlsVersions(o, v, n))

#define matrixSslLoadTls13Psk(k, key, kl, id, il, p) F_I(A_LOADPSK, NULL, matrixSslLoadTls13Psk(k, key, kl, id, il, p))
#define matrixSslGetWritebuf(s, b, l) F_I(A_GETWRITEBUF, s, matrixSslGetWritebuf(s, b, l))
#define matrixSslEncodeWritebuf(s, l) F_I(A_ENCODEWRITEBUF, s, matrixSslEncodeWritebuf(s, l))
#define matrixDtlsGetOutdata(s, b) F_I(A_DTLSGETOUT, s, matrixDtlsGetOutdata(s, b))
#define matrixDtlsSentData(s, n) F_I(A_DTLSSENT, s, matrixDtlsSentData(s, n))

#include "testkeys/RSA/2048_RSA.h"
#include "testkeys/RSA/2048_RSA_KEY.h"
#include "testkeys/RSA/2048_RSA_CA.h"
#include "testkeys/RSA/3072_RSA.h"
#include "testkeys/RSA/3072_RSA_KEY.h"
#include "testkeys/RSA/3072_RSA_CA.h"
#include "testkeys/EC/256_EC.h"
#include "testkeys/EC/256_EC_KEY.h"
#include "testkeys/EC/256_EC_CA.h"

/* ---------------------------------------------------------------- determinism (link with --wrap=psGetEntropy,psGetPrngLocked,
   psGetTime,psGetBrokenDownGMTime): entropy is a seeded stream, the clock stands still, the calendar is pinned inside the
   validity period of the test certificates (2017-03 .. 2027-03) */
static uint64_t g_ent_state = 0x9E3779B97F4A7C15ULL;
static void ent_seed(uint64_t s) { g_ent_state = s * 0x9E3779B97F4A7C15ULL + 0x1234567; }
int32 __wrap_psGetEntropy(unsigned char *bytes, uint32 size, void *userPtr)
{
    (void) userPtr;
    for (uint32 i = 0; i < size; i++) {
        g_ent_state ^= g_ent_state << 13; g_ent_state ^= g_ent_state >> 7; g_ent_state ^= g_ent_state << 17;
        bytes[i] = (unsigned char) (g_ent_state >> 24);
    }
    return (int32) size;
}
int32_t __wrap_psGetPrngLocked(unsigned char *bytes, psSize_t size, void *userPtr) { return __wrap_psGetEntropy(bytes, size, userPtr); }
static long g_vtime = 1592222400;     /* 2020-06-15 12:00:00 UTC */
int32 __wrap_psGetTime(psTime_t *t, void *userPtr)
{ (void) userPtr; if (t) { t->psTimeAbstract[0] = (unsigned long long) g_vtime; t->psTimeAbstract[1] = 0; } return (int32) g_vtime; }
int __wrap_psGetBrokenDownGMTime(struct tm *t, int offset)
{ memset(t, 0, sizeof(*t)); t->tm_year = 2020 - 1900; t->tm_mon = 5; t->tm_mday = 15; t->tm_hour = 12; (void) offset; return 0; }

/* ---------------------------------------------------------------- the two peers and the wire between them */
typedef struct { ssl_t *ssl; int is_server; int done_events; int cb_calls; int32 cb_last_alert; int dead; } peer_t;
static peer_t g_c, g_s;
#define QCAP (1 << 20)
typedef struct { unsigned char *b; size_t len; } queue_t;
static queue_t g_c2s, g_s2c;
static void q_init(queue_t *q) { if (!q->b) q->b = malloc(QCAP); q->len = 0; }
static void q_push(queue_t *q, const unsigned char *d, size_t l) { if (q->len + l <= QCAP) { memcpy(q->b + q->len, d, l); q->len += l; } }
static void q_pop(queue_t *q, size_t l) { memmove(q->b, q->b + l, q->len - l); q->len -= l; }
/* DTLS: the wire carries datagrams (4-byte length prefix in the queue); a flight = what one turn of a peer puts on the wire */
static int g_dtls = 0;                /* the scenario runs DTLS sessions */
static int g_trace = 0;               /* H_FAULT_TRACE=1: one stderr line per datagram / API result (for replays) */
#define TR(...) do { if (g_trace) fprintf(stderr, __VA_ARGS__); } while (0)
static int g_drop_flight = 0;         /* > 0: the n-th flight of the connection is lost once (its sender then times out and resends) */
static int g_flight_no = 0, g_resends = 0; static int g_lost_sender = -1;
static void q_push_dg(queue_t *q, const unsigned char *d, size_t l) {
    unsigned char h[4] = { (unsigned char) (l >> 24), (unsigned char) (l >> 16), (unsigned char) (l >> 8), (unsigned char) l };
    if (q->len + l + 4 <= QCAP) { memcpy(q->b + q->len, h, 4); memcpy(q->b + q->len + 4, d, l); q->len += l + 4; }
}
static size_t q_dglen(queue_t *q) { if (q->len < 4) return 0; size_t l = ((size_t) q->b[0] << 24) | ((size_t) q->b[1] << 16) | ((size_t) q->b[2] << 8) | q->b[3]; return l + 4 <= q->len ? l : 0; }
static size_t q_reclen(queue_t *q) { if (q->len < 5) return 0; size_t l = 5 + ((size_t) q->b[3] << 8) + q->b[4]; return l <= q->len ? l : 0; }

/* ---------------------------------------------------------------- injector state */
enum { M_OFF, M_PARENT, M_CHILD };
static int g_mode = M_OFF;
static int g_counting = 0;            /* inside a scenario: library allocations are counted / tracked */
static long g_k = 0;                  /* index of the last library allocation */
static long g_fail_k = 0;             /* child: the allocation that failed first */
static long g_nfail = 0;              /* child: failures injected so far */
static int g_shard = 0, g_nshards = 1, g_maxchildren = 2, g_maxocc = 0, g_multi = 0;
static uint64_t g_seed = 1, g_mf_state = 0;
static int g_resfd = -1; static const char *g_respath = ""; static char g_errpath[600];
static const char *g_scen = "?";
static const char *g_phase = "init";
static int g_cur_api = A_NONE; static char g_cur_side = '-';
static int g_fault_api = A_NONE; static char g_fault_side = '-'; static int g_fault_pending = 0;
static int32 g_fault_rc = 0; static int g_fault_rc_known = 0;
static char g_fault_phase[32] = "-";
static int g_first_err_api = A_NONE; static int32 g_first_err_rc = 0;
static char g_undoc[256] = "";
static unsigned long g_app_bytes[2];
#define MAXCONN 8
static int g_hs_done[2][MAXCONN];     /* [side][connection #]: HANDSHAKE_COMPLETE event seen or matrixSslHandshakeIsComplete after pumping */
static int g_nhs = 0;
static int g_resumed[MAXCONN];        /* server side: abbreviated handshake / PSK accepted */
static char g_xname[24] = "";         /* results of the different-name probes on the same session id: R refused by
                                         matrixSslNewClientSession, F handshake failed, C client COMPLETED (resumed), c completed (full) */
static char g_fp[6144] = "";          /* fingerprints of security-relevant object content at the checkpoints */
static int g_neg_mask = 0;            /* negative twin: sides (1 client, 2 server) that must never complete */
static char g_cfglost[256] = "";      /* security-relevant configuration missing after an API call that reported success */
static uint64_t g_rx_hash[2] = { 1469598103934665603ULL, 1469598103934665603ULL };
static int g_in_wrapper = 0;

static void wr(const char *s) { size_t l = strlen(s); ssize_t r = write(g_resfd, s, l); (void) r; }

/* live library blocks: open addressing, pointer -> (k, return address) */
#define LIVE_CAP (1u << 18)
#define NRA 5
typedef struct { void *p; long k; void *ra[NRA]; } live_t;
static live_t *g_live; static unsigned long g_nlive = 0; static unsigned long g_foreign_free = 0;
static unsigned live_slot(void *p) { uint64_t h = (uint64_t) (uintptr_t) p; h ^= h >> 17; h *= 0x9E3779B97F4A7C15ULL; return (unsigned) (h >> 40) & (LIVE_CAP - 1); }
static void live_add(void *p, long k, void **ra) {
    unsigned i = live_slot(p);
    while (g_live[i].p && g_live[i].p != (void *) 1) i = (i + 1) & (LIVE_CAP - 1);
    g_live[i].p = p; g_live[i].k = k; memcpy(g_live[i].ra, ra, sizeof g_live[i].ra); g_nlive++;
}
/* call stack by frame pointers (library and harness are built with -fno-omit-frame-pointer): out[0] = caller of the
   allocator wrapper, out[1] = its caller, ...  Inlined callers are recovered later by addr2line -i. */
extern void *__libc_stack_end;
__attribute__((no_sanitize_address, no_sanitize_undefined, noinline))
static int fpwalk(void **fp, void **out, int max) {
    int n = 0; uintptr_t lo = (uintptr_t) fp, hi = (uintptr_t) __libc_stack_end;
    while (n < max) {
        uintptr_t a = (uintptr_t) fp;
        if (a < lo || a + 16 > hi || (a & 7)) break;
        void *ra = fp[1]; if (!ra) break;
        out[n++] = ra;
        void **nx = (void **) fp[0];
        if ((uintptr_t) nx <= a) break;
        fp = nx;
    }
    for (int i = n; i < max; i++) out[i] = NULL;
    return n;
}
static int live_del(void *p) {
    unsigned i = live_slot(p), n = 0;
    while (g_live[i].p && n++ < LIVE_CAP) {
        if (g_live[i].p == p) { g_live[i].p = (void *) 1; g_nlive--; return 1; }
        i = (i + 1) & (LIVE_CAP - 1);
    }
    return 0;
}

/* occurrences of a call-stack signature (parent only, for --maxocc pruning) */
#define OCC_CAP (1u << 16)
static struct { uint64_t h; int n; } *g_occ;
static int occ_bump(uint64_t h) {
    unsigned i = (unsigned) (h >> 20) & (OCC_CAP - 1), n = 0;
    if (!h) h = 1;
    while (g_occ[i].h && g_occ[i].h != h && n++ < OCC_CAP) i = (i + 1) & (OCC_CAP - 1);
    g_occ[i].h = h; return ++g_occ[i].n;
}

/* children of the parent */
#define MAXKIDS 64
static struct { pid_t pid; long k; } g_kids[MAXKIDS]; static int g_nkids = 0;
static void reap(int block) {
    while (g_nkids > 0) {
        int st; pid_t p = waitpid(-1, &st, block ? 0 : WNOHANG);
        if (p <= 0) return;
        for (int i = 0; i < g_nkids; i++) if (g_kids[i].pid == p) {
            char b[128];
            if (WIFSIGNALED(st)) snprintf(b, sizeof b, "R k=%ld pid=%d sig=%d\n", g_kids[i].k, (int) p, WTERMSIG(st));
            else snprintf(b, sizeof b, "R k=%ld pid=%d exit=%d\n", g_kids[i].k, (int) p, WEXITSTATUS(st));
            wr(b);
            g_kids[i] = g_kids[--g_nkids]; break;
        }
        block = 0;
    }
}

static uint64_t mf_next(void) { g_mf_state ^= g_mf_state << 13; g_mf_state ^= g_mf_state >> 7; g_mf_state ^= g_mf_state << 17; return g_mf_state; }

/* returns 1 when THIS allocation must fail (we are then in a child) */
#define NBT 14
static int inject(long k, void **bt, int nbt)
{
    if (g_mode == M_CHILD) {
        if (!g_multi) return 0;
        if ((mf_next() >> 11) % (unsigned) g_multi != 0) return 0;
        g_nfail++;
        if (g_cur_api != A_NONE && !g_fault_pending) { g_fault_pending = 1; }
        return 1;
    }
    if (g_mode != M_PARENT) return 0;
    if (g_shard == 0) {
        char b[160]; int n = snprintf(b, sizeof b, "A %ld", k);
        for (int i = 0; i < nbt && i < 5; i++) n += snprintf(b + n, sizeof b - n, " %lx", (unsigned long) bt[i]);
        b[n++] = '\n'; b[n] = 0; wr(b);
    }
    if (g_maxocc > 0) {
        /* deterministic subsampling (quick tier): only the first g_maxocc executions of a (call stack, API call, phase)
           combination are fault points; counted over ALL allocations, so the selection does not depend on the sharding */
        uint64_t h = 1469598103934665603ULL;
        for (int i = 0; i < nbt && i < 6; i++) h = (h ^ (uint64_t) (uintptr_t) bt[i]) * 1099511628211ULL;
        h ^= (uint64_t) g_cur_api * 0x9E3779B97F4A7C15ULL;
        for (const char *p = g_phase; *p; p++) h = (h ^ (unsigned char) *p) * 1099511628211ULL;
        if (occ_bump(h) > g_maxocc) return 0;
    }
    if (k % g_nshards != g_shard) return 0;
    while (g_nkids >= g_maxchildren) reap(1);
    reap(0);
    fflush(NULL);
    pid_t pid = fork();
    if (pid < 0) { char b[64]; snprintf(b, sizeof b, "E fork failed k=%ld errno=%d\n", k, errno); wr(b); return 0; }
    if (pid > 0) { g_kids[g_nkids].pid = pid; g_kids[g_nkids].k = k; g_nkids++; return 0; }
    /* ---- child: this allocation fails */
    g_mode = M_CHILD; g_nkids = 0; g_fail_k = k; g_nfail = 1;
    g_mf_state = (g_seed * 0x9E3779B97F4A7C15ULL) ^ ((uint64_t) k * 0xD1B54A32D192ED03ULL) ^ 0x1234567ULL;
    g_fault_api = g_cur_api; g_fault_side = g_cur_side; g_fault_pending = (g_cur_api != A_NONE);
    snprintf(g_fault_phase, sizeof g_fault_phase, "%s", g_phase);
    alarm(60);
    /* the child's stderr (sanitizer reports) goes to its own file <resultfile>.err.<k>; removed again if it stays empty */
    snprintf(g_errpath, sizeof g_errpath, "%s.err.%ld", g_respath, k);
    { int efd = open(g_errpath, O_WRONLY | O_CREAT | O_TRUNC, 0644); if (efd >= 0) { dup2(efd, 2); close(efd); } }
    {
        /* full call stack of the failing allocation through the DWARF unwinder (some objects of the library are
           built without frame pointers); frames of the wrapper itself are dropped: the list starts at bt[0] */
        void *ub[24]; int nu, skip = 0;
        g_in_wrapper = 1; nu = backtrace(ub, 24); g_in_wrapper = 0;
        for (int i = 0; i < nu && i < 6; i++) if (ub[i] == bt[0]) { skip = i; break; }
        char b[700]; int n = snprintf(b, sizeof b, "F k=%ld pid=%d api=%s side=%c phase=%s bt=", k, (int) getpid(), A_NAME[g_cur_api], g_cur_side, g_phase);
        if (skip == 0 && !(nu > 0 && ub[0] == bt[0])) { for (int i = 0; i < nbt; i++) n += snprintf(b + n, sizeof b - n, "%s%lx", i ? "," : "", (unsigned long) bt[i]); }
        else for (int i = skip; i < nu && i < skip + 16; i++) n += snprintf(b + n, sizeof b - n, "%s%lx", i > skip ? "," : "", (unsigned long) ub[i]);
        b[n++] = '\n'; b[n] = 0; wr(b);
    }
    return 1;
}

void *__wrap_malloc(size_t n)
{
    if (!g_counting || g_in_wrapper) return __real_malloc(n);
    void *bt[NBT]; int nbt = fpwalk((void **) __builtin_frame_address(0), bt, NBT);
    long k = ++g_k;
    if (inject(k, bt, nbt)) return NULL;
    void *p = __real_malloc(n);
    if (p) live_add(p, k, bt);
    return p;
}
void *__wrap_calloc(size_t a, size_t b)
{
    if (!g_counting || g_in_wrapper) return __real_calloc(a, b);
    void *bt[NBT]; int nbt = fpwalk((void **) __builtin_frame_address(0), bt, NBT);
    long k = ++g_k;
    if (inject(k, bt, nbt)) return NULL;
    void *p = __real_calloc(a, b);
    if (p) live_add(p, k, bt);
    return p;
}
void *__wrap_realloc(void *old, size_t n)
{
    if (!g_counting || g_in_wrapper) return __real_realloc(old, n);
    void *bt[NBT]; int nbt = fpwalk((void **) __builtin_frame_address(0), bt, NBT);
    long k = ++g_k;
    if (inject(k, bt, nbt)) return NULL;            /* the old block stays valid and live */
    int tracked = old ? live_del(old) : 0;
    void *p = __real_realloc(old, n);
    if (p) live_add(p, k, bt);
    else if (tracked && n) live_add(old, k, bt);
    return p;
}
void __wrap_free(void *p)
{
    if (p && g_live && !g_in_wrapper) { if (!live_del(p)) g_foreign_free++; }
    __real_free(p);
}

/* ---------------------------------------------------------------- API bracket */
static void api_enter(int id, const void *ssl)
{
    g_cur_api = id;
    g_cur_side = (ssl && ssl == (const void *) g_c.ssl) ? 'c' : (ssl && ssl == (const void *) g_s.ssl) ? 's' :
                 id == A_NEWCLIENT ? 'c' : id == A_NEWSERVER ? 's' : '-';
}
static int32 api_leave(int id, int32 rc, const uint32 *ptlen)
{
    int ok = 1;
    /* documented results (matrixsslApi.h / matrixsslApiRet.h): negative = failure; the non-negative ones per call */
    if (rc >= 0) switch (id) {
    case A_OPEN: case A_NEWKEYS: case A_LOADRSAMEM: case A_LOADECMEM: case A_LOADKEYSMEM: case A_LOADKEYS: case A_LOADTICKET:
    case A_NEWSID: case A_OPTS: case A_NEWSERVER: case A_LOADPSK:
        ok = (rc == PS_SUCCESS); break;
    case A_NEWCLIENT: ok = (rc == MATRIXSSL_REQUEST_SEND); break;
    case A_GETOUT: case A_GETREADBUF: case A_ENCODE: case A_GETWRITEBUF: case A_ENCODEWRITEBUF: case A_DTLSGETOUT: ok = 1; break;   /* byte counts */
    case A_SENT: case A_DTLSSENT: ok = (rc == MATRIXSSL_SUCCESS || rc == MATRIXSSL_REQUEST_SEND || rc == MATRIXSSL_REQUEST_CLOSE || rc == MATRIXSSL_HANDSHAKE_COMPLETE); break;
    case A_RECEIVED: case A_PROCESSED:
        ok = (rc == MATRIXSSL_SUCCESS || rc == MATRIXSSL_REQUEST_SEND || rc == MATRIXSSL_REQUEST_RECV || rc == MATRIXSSL_REQUEST_CLOSE ||
              rc == MATRIXSSL_APP_DATA || rc == MATRIXSSL_HANDSHAKE_COMPLETE || rc == MATRIXSSL_RECEIVED_ALERT || rc == MATRIXSSL_APP_DATA_COMPRESSED);
        break;
    case A_CLOSURE: ok = (rc == MATRIXSSL_SUCCESS); break;
    default: break;
    }
    (void) ptlen;
    if (!ok && strlen(g_undoc) < sizeof g_undoc - 48) { char b[48]; snprintf(b, sizeof b, "%s%s:%d", g_undoc[0] ? "," : "", A_NAME[id], rc); strcat(g_undoc, b); }
    if (g_mode == M_CHILD) {
        if (g_fault_pending && !g_fault_rc_known) { g_fault_rc = rc; g_fault_rc_known = 1; g_fault_pending = 0; if (g_fault_api == A_NONE) g_fault_api = id; }
        if (rc < 0 && g_first_err_api == A_NONE) { g_first_err_api = id; g_first_err_rc = rc; }
    }
    g_cur_api = A_NONE; g_cur_side = '-';
    return rc;
}

/* an API call reported success: the security-relevant configuration it was asked to install must be there */
static void cfg_lost(const char *what)
{
    if (strlen(g_cfglost) + strlen(what) + 2 < sizeof g_cfglost) { if (g_cfglost[0]) strcat(g_cfglost, ","); strcat(g_cfglost, what); }
}

/* ---------------------------------------------------------------- certificate callbacks */
static int g_cb_reject_client = 0;       /* negative twin: the application's callback refuses the (valid) chain */
static int32_t cb_client(ssl_t *ssl, psX509Cert_t *cert, int32_t alert)
{ (void) ssl; (void) cert; g_c.cb_calls++; g_c.cb_last_alert = alert; if (g_cb_reject_client) return SSL_ALERT_BAD_CERTIFICATE; return alert; }
static int32_t cb_server(ssl_t *ssl, psX509Cert_t *cert, int32_t alert)
{ (void) ssl; (void) cert; g_s.cb_calls++; g_s.cb_last_alert = alert; return alert; }

/* ---------------------------------------------------------------- moving bytes */
#ifdef USE_DTLS
/* DTLS: matrixDtlsGetOutdata with nothing pending means TIMEOUT (the last flight is rebuilt and sent again), so it is only
   called with output pending, or with force (a retransmission asked for by matrixSslReceivedData / a simulated timeout).
   A forced rebuild is only attempted at the flight boundaries (harness/sess.h: dtls_resend_safe; elsewhere the rebuild is
   known to fault without any allocation failure - open C16 findings - and a timeout cannot happen there in these runs). */
static int dtls_resend_safe(ssl_t *s) {
    if (s->flags & SSL_FLAGS_SERVER)
        return s->hsState == SSL_HS_CLIENT_HELLO || s->hsState == SSL_HS_DONE || (s->hsState == SSL_HS_FINISHED && (s->flags & SSL_FLAGS_RESUMED));
    return s->hsState == SSL_HS_SERVER_HELLO || s->hsState == SSL_HS_DONE || (s->hsState == SSL_HS_FINISHED && !(s->flags & SSL_FLAGS_RESUMED));
}
static size_t flush_out_dtls(peer_t *p, int force)
{
    size_t total = 0; unsigned char *buf; int32 n; int guard = 0, flight_counted = 0, drop = 0;
    if (!p->ssl || p->dead) return 0;
    if (p->ssl->flags & (SSL_FLAGS_ERROR | SSL_FLAGS_CLOSED)) force = 0;
    if (p->ssl->outlen == 0 && (!force || !dtls_resend_safe(p->ssl))) return 0;
    if (p->ssl->outlen == 0) g_resends++;
    /* the application loop of the API documentation: fetch datagrams until matrixDtlsGetOutdata returns 0 - that last call
       is how the library learns that the flight has gone out (flightDone); a further call with nothing pending is a TIMEOUT */
    while (guard++ < 400) {
        n = matrixDtlsGetOutdata(p->ssl, &buf);
        TR("%c getout n=%d hs=%d force=%d\n", p->is_server ? 'S' : 'C', n, (int) p->ssl->hsState, force);
        if (n < 0) { p->dead = 1; break; }
        if (n == 0) break;
        if (!flight_counted) { flight_counted = 1; g_flight_no++; drop = (g_drop_flight > 0 && g_flight_no == g_drop_flight); if (drop) g_lost_sender = p->is_server; }
        if (!drop) q_push_dg(p->is_server ? &g_s2c : &g_c2s, buf, (size_t) n);
        total += (size_t) n;
        int32 rc = matrixDtlsSentData(p->ssl, (uint32) n);
        TR("%c sent %d flight=%d drop=%d rc=%d outlen=%d\n", p->is_server ? 'S' : 'C', n, g_flight_no, drop, rc, (int) p->ssl->outlen);
        if (rc == MATRIXSSL_HANDSHAKE_COMPLETE) p->done_events++;
        else if (rc == MATRIXSSL_REQUEST_CLOSE) break;
        else if (rc < 0) { p->dead = 1; break; }
    }
    return total;
}
#endif
static size_t flush_out(peer_t *p)
{
    size_t total = 0; unsigned char *buf; int32 n; int guard = 0;
    if (!p->ssl || p->dead) return 0;
#ifdef USE_DTLS
    if (g_dtls) return flush_out_dtls(p, 0);
#endif
    while (guard++ < 10000 && (n = matrixSslGetOutdata(p->ssl, &buf)) > 0) {
        q_push(p->is_server ? &g_s2c : &g_c2s, buf, (size_t) n);
        total += (size_t) n;
        int32 rc = matrixSslSentData(p->ssl, (uint32) n);
        if (rc == MATRIXSSL_HANDSHAKE_COMPLETE) p->done_events++;
        else if (rc == MATRIXSSL_REQUEST_CLOSE || rc < 0) break;
    }
    return total;
}
static void feed(peer_t *p, const unsigned char *d, size_t l)
{
    size_t off = 0; int guard = 0; int side = p->is_server;
    if (!p->ssl || p->dead) return;
    while (off < l && guard++ < 100000) {
        unsigned char *rb; int32 room = matrixSslGetReadbuf(p->ssl, &rb);
        if (room <= 0) return;
        size_t n = l - off; if (n > (size_t) room) { if (g_dtls) return; n = (size_t) room; }     /* a datagram is delivered whole */
        memcpy(rb, d + off, n); off += n;
        unsigned char *pt; uint32 ptlen;
        int32 rc = matrixSslReceivedData(p->ssl, (uint32) n, &pt, &ptlen);
        TR("%c recv %zu rc=%d hs=%d err=%d outlen=%d\n", p->is_server ? 'S' : 'C', n, rc, (int) p->ssl->hsState, (int) p->ssl->err, (int) p->ssl->outlen);
        int inner = 0;
        for (;;) {
            if (inner++ > 100000) return;
            if (rc == MATRIXSSL_APP_DATA || rc == MATRIXSSL_APP_DATA_COMPRESSED) {
                g_app_bytes[side] += ptlen;
                for (uint32 i = 0; i < ptlen; i++) g_rx_hash[side] = (g_rx_hash[side] ^ pt[i]) * 1099511628211ULL;
                rc = matrixSslProcessedData(p->ssl, &pt, &ptlen); continue;
            }
            if (rc == MATRIXSSL_RECEIVED_ALERT) { rc = matrixSslProcessedData(p->ssl, &pt, &ptlen); continue; }
            if (rc == MATRIXSSL_HANDSHAKE_COMPLETE) { p->done_events++; break; }
            if (rc == MATRIXSSL_REQUEST_SEND || rc == MATRIXSSL_REQUEST_RECV || rc == MATRIXSSL_SUCCESS || rc == MATRIXSSL_REQUEST_CLOSE) break;
            p->dead = 1;
            return;                                   /* error: the session is dead */
        }
#ifdef USE_DTLS
        if (g_dtls) {
            /* REQUEST_SEND with nothing encoded = the peer's flight was a duplicate: the library asks for a retransmission */
            if (rc == MATRIXSSL_REQUEST_SEND && p->ssl->outlen == 0) flush_out_dtls(p, 1); else flush_out_dtls(p, 0);
        } else
#endif
        flush_out(p);
        if (rc == MATRIXSSL_REQUEST_CLOSE) return;
    }
}
static int deliver_one(int dir)
{
    queue_t *q = dir ? &g_s2c : &g_c2s; peer_t *to = dir ? &g_c : &g_s;
    size_t l = g_dtls ? q_dglen(q) : q_reclen(q), h = g_dtls ? 4 : 0;
    if (!l) return 0;
    unsigned char *tmp = malloc(l); memcpy(tmp, q->b + h, l); q_pop(q, l + h);
    feed(to, tmp, l); free(tmp);
    return 1;
}
static int q_pending(queue_t *q) { return g_dtls ? q_dglen(q) != 0 : q_reclen(q) != 0; }
static void pump(void)
{
    int moved = 1, guard = 0;
    flush_out(&g_c); flush_out(&g_s);
    while (guard++ < 2000) {
        moved = 0;
        while (q_pending(&g_c2s)) { deliver_one(0); moved = 1; }
        while (q_pending(&g_s2c)) { deliver_one(1); moved = 1; }
        if (moved) continue;
#ifdef USE_DTLS
        /* nothing on the wire although the handshake is not over: the peer whose flight was lost times out and resends */
        if (g_dtls && g_lost_sender >= 0 && g_resends < 3 && g_c.ssl && g_s.ssl && !g_c.dead && !g_s.dead &&
            !(matrixSslHandshakeIsComplete(g_c.ssl) && matrixSslHandshakeIsComplete(g_s.ssl))) {
            peer_t *w = g_lost_sender ? &g_s : &g_c;
            if (flush_out_dtls(w, 1) > 0) continue;
        }
#endif
        break;
    }
}

/* ---------------------------------------------------------------- scenarios */
static unsigned char *slurp(const char *rel, int32 *len)
{
    char path[512]; snprintf(path, sizeof path, "%s/%s", VERIF_REPO_DIR, rel);
    FILE *f = fopen(path, "rb"); if (!f) { *len = 0; return NULL; }
    unsigned char *b = malloc(1 << 16); size_t n = fread(b, 1, (1 << 16) - 1, f); fclose(f); b[n] = 0; *len = (int32) n; return b;
}

static int g_ok = 1;                 /* scenario still on its nominal path */
#define PHASE(name) do { g_phase = (name); } while (0)

static void check_keys(sslKeys_t *k, int32 rc, int want_id, int want_ca, const char *api)
{
    char b[64];
    if (rc < 0 || !k) return;
    if (want_id && k->identity == NULL) { snprintf(b, sizeof b, "%s:identity", api); cfg_lost(b); }
    if (want_ca && k->CAcerts == NULL) { snprintf(b, sizeof b, "%s:CAcerts", api); cfg_lost(b); }
}

/* key loading through every mem API: DER (typed RSA / EC entry points), PEM and DER via the generic one, PEM files */
static void sc_keys(void)
{
    sslKeys_t *k = NULL; int32 rc, cl, pl, al; unsigned char *c, *p, *a;
    PHASE("rsa-der");
    if (matrixSslNewKeys(&k, NULL) >= 0) {
        rc = matrixSslLoadRsaKeysMem(k, RSA2048, sizeof(RSA2048), RSA2048KEY, sizeof(RSA2048KEY), RSA2048CA, sizeof(RSA2048CA));
        check_keys(k, rc, 1, 1, "matrixSslLoadRsaKeysMem");
        if (rc < 0) g_ok = 0;
        matrixSslDeleteKeys(k);
    } else g_ok = 0;
    PHASE("ec-der"); k = NULL;
    if (matrixSslNewKeys(&k, NULL) >= 0) {
        rc = matrixSslLoadEcKeysMem(k, EC256, sizeof(EC256), EC256KEY, sizeof(EC256KEY), EC256CA, sizeof(EC256CA));
        check_keys(k, rc, 1, 1, "matrixSslLoadEcKeysMem");
        if (rc < 0) g_ok = 0;
        matrixSslDeleteKeys(k);
    } else g_ok = 0;
    PHASE("rsa-pem-mem"); k = NULL;
    c = slurp("testkeys/RSA/2048_RSA.pem", &cl); p = slurp("testkeys/RSA/2048_RSA_KEY.pem", &pl); a = slurp("testkeys/RSA/2048_RSA_CA.pem", &al);
    if (c && p && a && matrixSslNewKeys(&k, NULL) >= 0) {
        matrixSslLoadKeysOpts_t o; memset(&o, 0, sizeof o);
        rc = matrixSslLoadKeysMem(k, c, cl, p, pl, a, al, &o);
        check_keys(k, rc, 1, 1, "matrixSslLoadKeysMem");
        if (rc < 0) g_ok = 0;
        matrixSslDeleteKeys(k);
    } else g_ok = 0;
    free(c); free(p); free(a);
    PHASE("ec-pem-mem"); k = NULL;
    c = slurp("testkeys/EC/256_EC.pem", &cl); p = slurp("testkeys/EC/256_EC_KEY.pem", &pl); a = slurp("testkeys/EC/256_EC_CA.pem", &al);
    if (c && p && a && matrixSslNewKeys(&k, NULL) >= 0) {
        matrixSslLoadKeysOpts_t o; memset(&o, 0, sizeof o);
        rc = matrixSslLoadKeysMem(k, c, cl, p, pl, a, al, &o);
        check_keys(k, rc, 1, 1, "matrixSslLoadKeysMem");
        if (rc < 0) g_ok = 0;
        matrixSslDeleteKeys(k);
    } else g_ok = 0;
    free(c); free(p); free(a);
    PHASE("generic-der"); k = NULL;
    if (matrixSslNewKeys(&k, NULL) >= 0) {
        matrixSslLoadKeysOpts_t o; memset(&o, 0, sizeof o);
        rc = matrixSslLoadKeysMem(k, RSA3072, sizeof(RSA3072), RSA3072KEY, sizeof(RSA3072KEY), RSA3072CA, sizeof(RSA3072CA), &o);
        check_keys(k, rc, 1, 1, "matrixSslLoadKeysMem");
        if (rc < 0) g_ok = 0;
        matrixSslDeleteKeys(k);
    } else g_ok = 0;
    PHASE("pem-files"); k = NULL;
    if (matrixSslNewKeys(&k, NULL) >= 0) {
        char cf[512], pf[512], af[1100]; matrixSslLoadKeysOpts_t o; memset(&o, 0, sizeof o);
        snprintf(cf, sizeof cf, "%s/testkeys/RSA/2048_RSA.pem", VERIF_REPO_DIR); snprintf(pf, sizeof pf, "%s/testkeys/RSA/2048_RSA_KEY.pem", VERIF_REPO_DIR);
        snprintf(af, sizeof af, "%s/testkeys/RSA/2048_RSA_CA.pem;%s/testkeys/EC/256_EC_CA.pem", VERIF_REPO_DIR, VERIF_REPO_DIR);
        rc = matrixSslLoadKeys(k, cf, pf, NULL, af, &o);
        check_keys(k, rc, 1, 1, "matrixSslLoadKeys");
        if (rc < 0) g_ok = 0;
        matrixSslDeleteKeys(k);
    } else g_ok = 0;
}

/* ---- TLS scenarios: objects owned by the application across connections */
typedef struct {
    const char *name;
    int kind;                  /* 0 keys, 1 positive TLS plan, 2 negative twin */
    int minor;                 /* 2 TLS1.1, 3 TLS1.2, 4 TLS1.3 */
    int key;                   /* 0 RSA-2048 identities, 1 EC-256 identities */
    int cauth;                 /* server asks for a client certificate */
    int ticket;                /* session tickets (server ticket key loaded, client ticketResumption) */
    const char *suite;         /* hex id or NULL */
    int plan;                  /* positive: 0 = full + resumed; 1 = ticket renewal after server key rotation */
    /* negative twins */
    const char *expected;      /* expectedName of the client (default "localhost" = matches the test certificates) */
    int client_ca;             /* 1 the CA of the server's chain, 2 an unrelated CA */
    int server_ca;             /* client auth: 1 the CA of the client's chain, 2 an unrelated CA */
    int cb_reject;             /* client certificate callback refuses */
    int psk;                   /* TLS 1.3 external PSK: 1 same key on both sides, 2 different keys under the same identity */
    int must_not_complete;     /* sides that must never report completion: 1 client, 2 server */
    /* DTLS */
    int dtls;                  /* 1: DTLS (minor 3 = DTLS 1.2, minor 2 = DTLS 1.0) */
    int pmtu;                  /* > 0: matrixDtlsSetPmtu (small = fragmented handshake messages, reassembly on the other side) */
    int drop;                  /* > 0: the n-th flight of the FIRST connection is lost once; its sender times out and rebuilds
                                  the flight (matrixDtlsGetOutdata with nothing pending -> dtlsResendFlight) */
} scen_t;

static sslKeys_t *g_ckeys, *g_skeys; static sslSessionId_t *g_sid;
static const unsigned char PSK_ID[16] = "verif-psk-ident";
static unsigned char PSK_A[32], PSK_B[32];
static const unsigned char TICKET_NAME1[16] = "verif-ticketk-1", TICKET_NAME2[16] = "verif-ticketk-2";

static int load_id(sslKeys_t *k, int key, int with_id, int ca /*0 none 1 family 2 unrelated*/)
{
    const unsigned char *cert = NULL, *priv = NULL, *cab = NULL; int32 cl = 0, pl = 0, cal = 0, rc;
    if (key == 0) {
        if (with_id) { cert = RSA2048; cl = sizeof(RSA2048); priv = RSA2048KEY; pl = sizeof(RSA2048KEY); }
        if (ca == 1) { cab = RSA2048CA; cal = sizeof(RSA2048CA); } else if (ca == 2) { cab = RSA3072CA; cal = sizeof(RSA3072CA); }
        rc = matrixSslLoadRsaKeysMem(k, cert, cl, priv, pl, cab, cal);
        check_keys(k, rc, with_id, ca != 0, "matrixSslLoadRsaKeysMem");
        return rc;
    }
    if (with_id) { cert = EC256; cl = sizeof(EC256); priv = EC256KEY; pl = sizeof(EC256KEY); }
    if (ca == 1) { cab = EC256CA; cal = sizeof(EC256CA); } else if (ca == 2) { cab = RSA3072CA; cal = sizeof(RSA3072CA); }
    rc = matrixSslLoadEcKeysMem(k, cert, cl, priv, pl, cab, cal);
    check_keys(k, rc, with_id, ca != 0, "matrixSslLoadEcKeysMem");
    return rc;
}

static int new_server_keys(const scen_t *sc, const unsigned char *tname, unsigned char fill)
{
    int32 rc;
    if (matrixSslNewKeys(&g_skeys, NULL) < 0) { g_skeys = NULL; return -1; }
    if (load_id(g_skeys, sc->key, 1, sc->cauth ? (sc->server_ca ? sc->server_ca : 1) : 0) < 0) return -2;
    if (sc->ticket) {
        unsigned char sk[32], hk[32]; memset(sk, fill, 32); memset(hk, (unsigned char) ~fill, 32);
        rc = matrixSslLoadSessionTicketKeys(g_skeys, tname, sk, 32, hk, 32);
        if (rc < 0) return -3;
        if (g_skeys->sessTickets == NULL) cfg_lost("matrixSslLoadSessionTicketKeys:sessTickets");
    }
    if (sc->psk) {
        rc = matrixSslLoadTls13Psk(g_skeys, PSK_A, 32, PSK_ID, sizeof PSK_ID, NULL);
        if (rc < 0) return -4;
        if (g_skeys->tls13PskKeys == NULL) cfg_lost("matrixSslLoadTls13Psk:tls13PskKeys");
    }
    return 0;
}

static void fp_keys(const char *cp, const sslKeys_t *k);
/* application objects that live across the connections of a scenario */
static int app_setup(const scen_t *sc)
{
    int32 rc;
    for (int i = 0; i < 32; i++) { PSK_A[i] = (unsigned char) (i * 3 + 1); PSK_B[i] = (unsigned char) (i * 5 + 2); }
    if (new_server_keys(sc, TICKET_NAME1, 0x5a) < 0) return -1;
    if (matrixSslNewKeys(&g_ckeys, NULL) < 0) { g_ckeys = NULL; return -2; }
    if (load_id(g_ckeys, sc->key, sc->cauth ? 1 : 0, sc->client_ca ? sc->client_ca : 1) < 0) return -3;
    if (sc->psk) {
        rc = matrixSslLoadTls13Psk(g_ckeys, sc->psk == 2 ? PSK_B : PSK_A, 32, PSK_ID, sizeof PSK_ID, NULL);
        if (rc < 0) return -4;
        if (g_ckeys->tls13PskKeys == NULL) cfg_lost("matrixSslLoadTls13Psk:tls13PskKeys");
    }
    if (matrixSslNewSessionId(&g_sid, NULL) < 0) { g_sid = NULL; return -5; }
    fp_keys("keys.server", g_skeys); fp_keys("keys.client", g_ckeys);
    return 0;
}

static void sessions_free(void)
{
    if (g_c.ssl) { matrixSslDeleteSession(g_c.ssl); g_c.ssl = NULL; }
    if (g_s.ssl) { matrixSslDeleteSession(g_s.ssl); g_s.ssl = NULL; }
}

static psProtocolVersion_t minor2ver(int m) { return m == 2 ? v_tls_1_1 : m == 4 ? v_tls_1_3 : v_tls_1_2; }


/* ---------------------------------------------------------------- fingerprints of what API calls produced or updated
   (compared field by field with the fault-free run by props/C19.py: a field that is empty where the fault-free run has
   content, inside an object that exists, is a swallowed failure) */
static uint32_t fnv(const unsigned char *p, size_t l) { uint32_t h = 2166136261u; for (size_t i = 0; p && i < l; i++) h = (h ^ p[i]) * 16777619u; return h; }
static int nonzero(const unsigned char *p, size_t l) { for (size_t i = 0; i < l; i++) if (p[i]) return 1; return 0; }
static void fp_add(const char *fmt, ...)
{
    va_list ap; size_t l = strlen(g_fp);
    if (l + 400 > sizeof g_fp) return;
    va_start(ap, fmt); vsnprintf(g_fp + l, sizeof g_fp - l, fmt, ap); va_end(ap);
}
static void fp_psk(const psTls13Psk_t *k)
{
    int n = 0; for (const psTls13Psk_t *q = k; q; q = q->next) n++;
    fp_add("npsk=%d,", n);
    if (!k) return;
    fp_add("pskLen=%d,pskIdLen=%d,res=%d,params=%d,", (int) k->pskLen, (int) k->pskIdLen, k->isResumptionPsk ? 1 : 0, k->params ? 1 : 0);
    if (k->params)
        fp_add("sni=%d:%08x,alpn=%d:%08x,ver=%d.%d,pcipher=%d,med=%u,life=%u,", (int) k->params->sniLen, fnv(k->params->sni, k->params->sniLen),
               (int) k->params->alpnLen, fnv(k->params->alpn, k->params->alpnLen), k->params->majVer, k->params->minVer, (int) k->params->cipherId,
               (unsigned) k->params->maxEarlyData, (unsigned) k->params->ticketLifetime);
}
static void fp_keys(const char *cp, const sslKeys_t *k)
{
    int nid = 0, nca = 0, ntick = 0, chain = 0;
    fp_add("%s{", cp);
    if (k) {
        for (const sslIdentity_t *i = k->identity; i; i = i->next) nid++;
        for (const psX509Cert_t *c = k->CAcerts; c; c = c->next) nca++;
        for (const psSessionTicketKeys_t *t = k->sessTickets; t; t = t->next) ntick++;
        if (k->identity) for (const psX509Cert_t *c = k->identity->cert; c; c = c->next) chain++;
        fp_add("ids=%d,chain=%d,priv=%d:%d,subjcn=%d,pubkey=%d:%d,ca=%d,casubj=%d,tick=%d,", nid, chain, k->identity ? (int) k->identity->privKey.type : 0,
               k->identity ? (int) k->identity->privKey.keysize : 0, (k->identity && k->identity->cert && k->identity->cert->subject.commonName) ? 1 : 0,
               (k->identity && k->identity->cert) ? (int) k->identity->cert->publicKey.type : 0, (k->identity && k->identity->cert) ? (int) k->identity->cert->publicKey.keysize : 0,
               nca, (k->CAcerts && k->CAcerts->subject.commonName) ? 1 : 0, ntick);
        if (k->sessTickets) fp_add("tickkey=%d:%d,", (int) k->sessTickets->symkeyLen, (int) k->sessTickets->hashkeyLen);
        fp_psk(k->tls13PskKeys);
    }
    fp_add("};");
}
static void fp_sid(const char *cp, const sslSessionId_t *sid)
{
    fp_add("sid@%s{", cp);
    if (sid) {
        fp_add("idLen=%d,cid=%u,ms=%d,tick=%d,tickptr=%d,hint=%u,", (int) sid->idLen, (unsigned) sid->cipherId, nonzero(sid->masterSecret, SSL_HS_MASTER_SIZE),
               (int) sid->sessionTicketLen, sid->sessionTicket ? 1 : 0, (unsigned) sid->sessionTicketLifetimeHint);
        fp_psk(sid->psk);
    }
    fp_add("};");
}
/* the server's session cache entry of the connection that just ended (TLS <= 1.2).  The table is a static of matrixssl.c: its
   address comes from the symbol table (props/C19.py: nm, the harness is linked non-PIE) */
static void fp_cache(const char *cp, const sslSessionId_t *sid)
{
    const char *a = getenv("H_FAULT_SESSTAB");
    if (!a || !sid || sid->idLen == 0) return;
    sslSessionEntry_t *tab = (sslSessionEntry_t *) (uintptr_t) strtoull(a, NULL, 16);
    if (!tab) return;
    for (int i = 0; i < SSL_SESSION_TABLE_SIZE; i++)
        if (nonzero(tab[i].id, SSL_MAX_SESSION_ID_SIZE) && memcmp(tab[i].id, sid->id, sid->idLen < SSL_MAX_SESSION_ID_SIZE ? sid->idLen : SSL_MAX_SESSION_ID_SIZE) == 0) {
            fp_add("cache@%s{found=1,ms=%d,cipher=%d,ver=%d.%d,ems=%d,};", cp, nonzero(tab[i].masterSecret, SSL_HS_MASTER_SIZE),
                   tab[i].cipher ? (int) tab[i].cipher->ident : 0, tab[i].majVer, tab[i].minVer, (int) tab[i].extendedMasterSecret);
            return;
        }
}

/* server_name extension for the ClientHello (the application owns it and deletes it after the session is created) */
void __wrap_free(void *p);
static tlsExtension_t *mk_sni(const char *host)
{
    tlsExtension_t *ext = NULL; unsigned char *data = NULL; int32 len = 0;
    if (matrixSslNewHelloExtension(&ext, NULL) < 0) return NULL;
    if (matrixSslCreateSNIext(NULL, (unsigned char *) host, (int32) strlen(host), &data, &len) < 0) { matrixSslDeleteHelloExtension(ext); return NULL; }
    /* `data` was allocated by the library and is released by the application: through the tracked free */
    if (matrixSslLoadHelloExtension(ext, data, len, EXT_SNI) < 0) { __wrap_free(data); matrixSslDeleteHelloExtension(ext); return NULL; }
    __wrap_free(data);
    return ext;
}

/* one connection: create both sessions, run the handshake; returns 0 when both sides completed */
static int connect_named(const scen_t *sc, const char *expected, int probe, const char *ph_new, const char *ph_hs)
{
    int32 rc; sslSessOpts_t so; psProtocolVersion_t v[1]; psCipher16_t suites[1]; int nsuites = 0;
    int idx = 0; tlsExtension_t *sni;
    if (!probe) { idx = g_nhs < MAXCONN ? g_nhs : MAXCONN - 1; g_nhs++; }
    PHASE(ph_new);
    sessions_free();
    memset(&g_c, 0, sizeof g_c); memset(&g_s, 0, sizeof g_s); g_s.is_server = 1;
    q_init(&g_c2s); q_init(&g_s2c);
    ent_seed(g_seed + (uint64_t) (probe ? 100 + strlen(g_xname) : idx) * 7919);
    g_cb_reject_client = sc->cb_reject;
    v[0] = minor2ver(sc->minor);
    g_dtls = sc->dtls; g_flight_no = 0; g_resends = 0; g_lost_sender = -1;
    g_drop_flight = (!probe && idx == 0) ? sc->drop : 0;
    memset(&so, 0, sizeof so);
    if (sc->dtls) so.versionFlag = SSL_FLAGS_DTLS | (sc->minor == 2 ? SSL_FLAGS_TLS_1_1 : SSL_FLAGS_TLS_1_2);
    else if (matrixSslSessOptsSetServerTlsVersions(&so, v, 1) < 0) return -1;
    rc = matrixSslNewServerSession(&g_s.ssl, g_skeys, sc->cauth ? cb_server : NULL, &so);
    if (rc < 0) { g_s.ssl = NULL; return -2; }
    if (g_s.ssl->keys != g_skeys) cfg_lost("matrixSslNewServerSession:keys");
    if (sc->cauth && (g_s.ssl->sec.validateCert != cb_server || !(g_s.ssl->flags & SSL_FLAGS_CLIENT_AUTH))) cfg_lost("matrixSslNewServerSession:client-auth");
    memset(&so, 0, sizeof so);
    if (sc->dtls) so.versionFlag = SSL_FLAGS_DTLS | (sc->minor == 2 ? SSL_FLAGS_TLS_1_1 : SSL_FLAGS_TLS_1_2);
    else if (matrixSslSessOptsSetClientTlsVersions(&so, v, 1) < 0) return -3;
    if (sc->ticket) so.ticketResumption = 1;
    if (sc->suite) { suites[0] = (psCipher16_t) strtol(sc->suite, NULL, 16); nsuites = 1; }
    sni = mk_sni(expected);
    if (sni == NULL) return -6;
    rc = matrixSslNewClientSession(&g_c.ssl, g_ckeys, g_sid, nsuites ? suites : NULL, (uint8_t) nsuites, cb_client, expected, sni, NULL, &so);
    matrixSslDeleteHelloExtension(sni);
    if (rc != MATRIXSSL_REQUEST_SEND) { if (rc < 0) g_c.ssl = NULL; return -4; }
    /* the call reported success: what it was asked to install must be installed */
    if (g_c.ssl->expectedName == NULL || strcmp(g_c.ssl->expectedName, expected) != 0) cfg_lost("matrixSslNewClientSession:expectedName");
    if (g_c.ssl->sec.validateCert != cb_client) cfg_lost("matrixSslNewClientSession:certCb");
    if (g_c.ssl->keys != g_ckeys) cfg_lost("matrixSslNewClientSession:keys");
    if (g_c.ssl->sid != g_sid) cfg_lost("matrixSslNewClientSession:sid");
    PHASE(ph_hs);
    pump();
    int cd = g_c.done_events > 0 || (g_c.ssl && matrixSslHandshakeIsComplete(g_c.ssl));
    int sd = g_s.done_events > 0 || (g_s.ssl && matrixSslHandshakeIsComplete(g_s.ssl));
    int rs = g_s.ssl && ((g_s.ssl->flags & SSL_FLAGS_RESUMED) || g_s.ssl->sec.tls13UsingPsk);
    if (probe) return cd ? (rs ? 2 : 1) : -5;
    g_hs_done[0][idx] = cd; g_hs_done[1][idx] = sd; g_resumed[idx] = rs ? 1 : 0;
    return (cd && sd) ? 0 : -5;
}
static int connect_once(const scen_t *sc, const char *ph_new, const char *ph_hs)
{ return connect_named(sc, sc->expected ? sc->expected : "localhost", 0, ph_new, ph_hs); }

/* negative twin ACROSS connections: a new client session on the SAME application-owned session id (whatever the earlier
   connections - possibly under a fault - left in it) but for a DIFFERENT server name.  It must not complete: either
   matrixSslNewClientSession refuses (TLS 1.3: the resumption PSK is bound to the server name of the original session,
   RFC 8446 4.6.1) or the full handshake fails on the name check of the certificate. */
static void xname_probe(const scen_t *sc)
{
    size_t l = strlen(g_xname);
    if (l + 2 > sizeof g_xname || !g_sid || !g_ckeys || !g_skeys) return;
    int r = connect_named(sc, "other.example.com", 1, "xname-new", "xname-handshake");
    g_xname[l] = (r == 2) ? 'C' : (r == 1) ? 'c' : (r == -4) ? 'R' : 'F'; g_xname[l + 1] = 0;
    sessions_free();
}
/* checkpoint after a connection (handshake, data, post-handshake messages, closure all done) */
static void checkpoint(const char *cp)
{
    fp_sid(cp, g_sid);
    fp_cache(cp, g_sid);
}

static unsigned char APP_UP[20000], APP_DOWN[3000];
/* application data in both directions: client -> server 20000 bytes in one matrixSslEncodeToOutdata call (fragmented, the
   output buffer and the receiver's input buffer grow and shrink again), server -> client 3000 bytes through
   matrixSslGetWritebuf / matrixSslEncodeWritebuf */
static int exchange(void)
{
    int32 rc; unsigned long c0 = g_app_bytes[0], s0 = g_app_bytes[1];
    PHASE("data");
    if (!g_c.ssl || !g_s.ssl) return -1;
    for (size_t i = 0; i < sizeof APP_UP; i++) APP_UP[i] = (unsigned char) (i * 7 + 1);
    for (size_t i = 0; i < sizeof APP_DOWN; i++) APP_DOWN[i] = (unsigned char) (i * 13 + 5);
    /* DTLS: one record per datagram, below the path MTU */
    size_t up = g_dtls ? 300 : sizeof APP_UP, down = g_dtls ? 200 : sizeof APP_DOWN;
    rc = matrixSslEncodeToOutdata(g_c.ssl, APP_UP, (uint32) up); if (rc < 0) return -2;
    pump();
    size_t off = 0;
    while (off < down) {
        unsigned char *wb; rc = matrixSslGetWritebuf(g_s.ssl, &wb, (uint32) (down - off)); if (rc <= 0) return -3;
        size_t n = down - off; if (n > (size_t) rc) n = (size_t) rc;
        memcpy(wb, APP_DOWN + off, n);
        rc = matrixSslEncodeWritebuf(g_s.ssl, (uint32) n); if (rc < 0) return -4;
        off += n;
    }
    pump();
    if (g_app_bytes[1] - s0 != up || g_app_bytes[0] - c0 != down) return -5;
    return 0;
}
static void closure(void)
{
    PHASE("close");
    if (g_c.ssl) { matrixSslEncodeClosureAlert(g_c.ssl); pump(); }
    if (g_s.ssl) { matrixSslEncodeClosureAlert(g_s.ssl); pump(); }
}
/* the teardown is part of every scenario: sessions, the session id and both key sets are the application's to delete */
static void teardown(void)
{
    PHASE("teardown");
    sessions_free();
    if (g_sid) { matrixSslDeleteSessionId(g_sid); g_sid = NULL; }
    if (g_ckeys) { matrixSslDeleteKeys(g_ckeys); g_ckeys = NULL; }
    if (g_skeys) { matrixSslDeleteKeys(g_skeys); g_skeys = NULL; }
#ifdef USE_DTLS
    if (g_dtls) matrixDtlsSetPmtu(-1);
#endif
    matrixSslClose();
}

/* "<scenario>+del": the application deletes everything right after the connection during which the allocation failed
   (a later connection can overwrite - and so hide - a stale pointer left in the session id or the keys) */
static int g_stop_after_fault = 0;
#define STOP_NOW (g_stop_after_fault && g_mode == M_CHILD)
/* plain scenarios: right after the connection during which the allocation failed, try the different-name session (a later
   same-name connection would replace - and so repair - a PSK that lost its server name) */
static int g_probed = 0;
#define PROBE_NOW (!g_stop_after_fault && g_mode == M_CHILD && !g_probed && g_nhs > 0 && g_hs_done[0][(g_nhs < MAXCONN ? g_nhs : MAXCONN) - 1])
/* (only when the client COMPLETED the connection in which the allocation failed: a failure that was reported needs no probe) */

static void sc_tls(const scen_t *sc)
{
    PHASE("setup");
    g_dtls = sc->dtls;
#ifdef USE_DTLS
    if (sc->dtls) matrixDtlsSetPmtu(sc->pmtu > 0 ? sc->pmtu : -1);
#endif
    if (app_setup(sc) < 0) { g_ok = 0; teardown(); return; }
    if (sc->kind == 2) {
        /* negative twin: without any fault this handshake must fail on the verification step under test */
        g_neg_mask = sc->must_not_complete;
        connect_once(sc, "new", "handshake");
        g_ok = 0;
        if (g_c.ssl && g_s.ssl) exchange();          /* nothing may come through either */
        teardown();
        return;
    }
    /* connection 1: full handshake */
    if (connect_once(sc, "new", "handshake") < 0) g_ok = 0;
    if (g_ok && exchange() < 0) g_ok = 0;
    if (g_ok) { closure(); checkpoint("conn1"); }
    if (STOP_NOW) goto down;
    if (PROBE_NOW) { g_probed = 1; xname_probe(sc); }
    /* connection 2: resumed (session id / ticket / TLS 1.3 PSK from the NewSessionTicket) */
    if (g_ok) {
        if (connect_once(sc, "new-resumed", "handshake-resumed") < 0) g_ok = 0;
        if (g_ok && exchange() < 0) g_ok = 0;
        if (g_ok) { closure(); checkpoint("conn2"); }
    }
    if (STOP_NOW) goto down;
    if (PROBE_NOW) { g_probed = 1; xname_probe(sc); }
    if (g_ok && sc->plan == 1) {
        /* the server is restarted with another ticket key: the client's ticket is refused, a full handshake follows and
           the server issues a NEW ticket that replaces the one held in the application's session id (renewal) */
        PHASE("rotate");
        sessions_free();
        matrixSslDeleteKeys(g_skeys); g_skeys = NULL;
        if (new_server_keys(sc, TICKET_NAME2, 0x3c) < 0) g_ok = 0;
        if (g_ok) fp_keys("keys.server2", g_skeys);
        if (g_ok && connect_once(sc, "new-renewal", "handshake-renewal") < 0) g_ok = 0;
        if (g_ok && exchange() < 0) g_ok = 0;
        if (g_ok) { closure(); checkpoint("conn3"); }
        if (STOP_NOW) goto down;
        if (PROBE_NOW) { g_probed = 1; xname_probe(sc); }
        /* connection 4: resumption with the renewed ticket */
        if (g_ok && connect_once(sc, "new-resumed2", "handshake-resumed2") < 0) g_ok = 0;
        if (g_ok) { closure(); checkpoint("conn4"); }
    }
    /* last: the different-name probe on whatever the connections left in the session id (also in the fault-free run) */
    if (!STOP_NOW && (g_mode != M_CHILD || g_ok)) xname_probe(sc);
down:
    teardown();
}

static const scen_t SCEN[] = {
    /* name               kind minor key cauth ticket suite   plan expected              cca sca cbrej psk mustnot */
    { "keys",               0, 0, 0, 0, 0, NULL,   0, NULL,                0, 0, 0, 0, 0 },
    { "tls12",              1, 3, 0, 0, 0, NULL,   0, NULL,                0, 0, 0, 0, 0 },   /* full + session-id resumption */
    { "tls12-ticket-renew", 1, 3, 0, 0, 1, NULL,   1, NULL,                0, 0, 0, 0, 0 },   /* ticket issue, resumption, renewal, resumption */
    { "tls13",              1, 4, 0, 0, 1, NULL,   0, NULL,                0, 0, 0, 0, 0 },   /* NewSessionTicket + PSK resumption */
    { "tls12-cauth",        1, 3, 0, 1, 0, NULL,   0, NULL,                0, 0, 0, 0, 0 },
    { "tls13-cauth",        1, 4, 0, 1, 1, NULL,   0, NULL,                0, 0, 0, 0, 0 },
    { "tls12-ec-cauth",     1, 3, 1, 1, 1, "c02b", 0, NULL,                0, 0, 0, 0, 0 },
    { "tls13-ec-cauth",     1, 4, 1, 1, 1, NULL,   0, NULL,                0, 0, 0, 0, 0 },
    { "tls11",              1, 2, 0, 0, 0, NULL,   0, NULL,                0, 0, 0, 0, 0 },
    { "tls12-rsa-cbc",      1, 3, 0, 1, 1, "003c", 0, NULL,                0, 0, 0, 0, 0 },
    { "tls12-cbc-sha384",   1, 3, 0, 0, 0, "c028", 0, NULL,                0, 0, 0, 0, 0 },
    { "tls13-chacha",       1, 4, 0, 0, 1, "1303", 0, NULL,                0, 0, 0, 0, 0 },
    { "tls13-psk",          1, 4, 0, 0, 0, NULL,   0, NULL,                0, 0, 0, 1, 0 },   /* external PSK, same key on both sides */
    /* negative twins: one verification step each that must fail without any fault - and under every fault */
    { "neg12-name",         2, 3, 0, 0, 0, NULL,   0, "wrong.example.com", 0, 0, 0, 0, 3 },
    { "neg13-name",         2, 4, 0, 0, 0, NULL,   0, "wrong.example.com", 0, 0, 0, 0, 3 },
    { "neg12-ca",           2, 3, 0, 0, 0, NULL,   0, NULL,                2, 0, 0, 0, 3 },
    { "neg13-ca",           2, 4, 0, 0, 0, NULL,   0, NULL,                2, 0, 0, 0, 3 },
    { "neg12-clientcert",   2, 3, 0, 1, 0, NULL,   0, NULL,                0, 2, 0, 0, 2 },   /* TLS 1.2: client finishes after the server */
    { "neg13-clientcert",   2, 4, 0, 1, 0, NULL,   0, NULL,                0, 2, 0, 0, 2 },   /* TLS 1.3: the client completes first by design */
    { "neg12-cb",           2, 3, 0, 0, 0, NULL,   0, NULL,                0, 0, 1, 0, 3 },
    { "neg13-cb",           2, 4, 0, 0, 0, NULL,   0, NULL,                0, 0, 1, 0, 3 },
    { "neg13-psk",          2, 4, 0, 0, 0, NULL,   0, "wrong.example.com", 0, 0, 0, 2, 3 },   /* wrong PSK; the certificate fallback must not pass either */
    { "neg12-ec-name",      2, 3, 1, 0, 0, "c02b", 0, "wrong.example.com", 0, 0, 0, 0, 3 },
#ifdef USE_DTLS
    /* DTLS: name                 kind minor key cauth ticket suite plan expected            cca sca cbrej psk mustnot dtls pmtu drop */
    { "dtls12",               1, 3, 0, 0, 0, NULL,   0, NULL,                0, 0, 0, 0, 0, 1, 0, 0 },   /* RSA cert, ECDHE; full + session-id resumption */
    { "dtls12-ticket",        1, 3, 0, 0, 1, NULL,   0, NULL,                0, 0, 0, 0, 0, 1, 0, 0 },   /* ticket resumption over DTLS */
    { "dtls12-cauth",         1, 3, 0, 1, 0, NULL,   0, NULL,                0, 0, 0, 0, 0, 1, 0, 0 },
    { "dtls12-ec-cauth",      1, 3, 1, 1, 0, "c02b", 0, NULL,                0, 0, 0, 0, 0, 1, 0, 0 },   /* ECDSA CertificateVerify saved aside for retransmits */
    { "dtls10-cbc",           1, 2, 0, 0, 0, "c014", 0, NULL,                0, 0, 0, 0, 0, 1, 0, 0 },   /* DTLS 1.0, ECDHE-RSA-AES256-CBC-SHA */
    { "dtls12-frag",          1, 3, 0, 1, 0, NULL,   0, NULL,                0, 0, 0, 0, 0, 1, 400, 0 }, /* PMTU 400: fragmented messages + reassembly */
    { "dtls12-lost1",         1, 3, 0, 0, 0, NULL,   0, NULL,                0, 0, 0, 0, 0, 1, 0, 1 },   /* ClientHello lost */
    { "dtls12-lost2",         1, 3, 0, 0, 0, NULL,   0, NULL,                0, 0, 0, 0, 0, 1, 0, 2 },   /* HelloVerifyRequest lost */
    { "dtls12-cauth-lost5",   1, 3, 0, 1, 0, NULL,   0, NULL,                0, 0, 0, 0, 0, 1, 0, 5 },   /* client's Certificate..Finished flight lost */
    { "dtls12-lost6",         1, 3, 0, 0, 0, NULL,   0, NULL,                0, 0, 0, 0, 0, 1, 0, 6 },   /* server's ChangeCipherSpec, Finished lost */
    { "negd12-name",          2, 3, 0, 0, 0, NULL,   0, "wrong.example.com", 0, 0, 0, 0, 3, 1, 0, 0 },
    { "negd12-ca",            2, 3, 0, 0, 0, NULL,   0, NULL,                2, 0, 0, 0, 3, 1, 0, 0 },
    { "negd12-clientcert",    2, 3, 0, 1, 0, NULL,   0, NULL,                0, 2, 0, 0, 2, 1, 0, 0 },
#endif
};

extern int __lsan_do_recoverable_leak_check(void) __attribute__((weak));

static void verdict(char tag)
{
    static char b[12288]; int n;
    unsigned long leaks = 0; char ls[1200] = ""; int ln = 0;
    if (g_nlive) for (unsigned i = 0; i < LIVE_CAP; i++) if (g_live[i].p && g_live[i].p != (void *) 1) {
        leaks++;
        if (ln < (int) sizeof ls - 100) {
            ln += snprintf(ls + ln, sizeof ls - ln, "%s%ld", ln ? "," : "", g_live[i].k);
            for (int j = 0; j < NRA && g_live[i].ra[j]; j++) ln += snprintf(ls + ln, sizeof ls - ln, ":%lx", (unsigned long) g_live[i].ra[j]);
        }
    }
    int lsan = -1;
    if (getenv("H_FAULT_LSAN") && __lsan_do_recoverable_leak_check) lsan = __lsan_do_recoverable_leak_check();
    char cd[MAXCONN + 1], sd[MAXCONN + 1], rs[MAXCONN + 1];
    for (int i = 0; i < MAXCONN; i++) { cd[i] = g_hs_done[0][i] ? '1' : '0'; sd[i] = g_hs_done[1][i] ? '1' : '0'; rs[i] = g_resumed[i] ? '1' : '0'; }
    cd[MAXCONN] = sd[MAXCONN] = rs[MAXCONN] = 0;
    n = snprintf(b, sizeof b, "%c k=%ld pid=%d scenario=%s allocs=%ld nfail=%ld ok=%d fault_api=%s fault_side=%c fault_phase=%s fault_rc=%s%d first_err=%s:%d "
                 "cdone=%s sdone=%s resumed=%s xname=%s nhs=%d neg=%d app_c=%lu app_s=%lu rxh=%016llx%016llx cfglost=%s leaks=%lu leak_sites=%s foreign_free=%lu lsan=%d undoc=%s fp=%s\n",
                 tag, g_fail_k, (int) getpid(), g_scen, g_k, g_nfail, g_ok, A_NAME[g_fault_api], g_fault_side, g_fault_phase,
                 g_fault_rc_known ? "" : "?", g_fault_rc, A_NAME[g_first_err_api], g_first_err_rc,
                 cd, sd, rs, g_xname[0] ? g_xname : "-", g_nhs, g_neg_mask, g_app_bytes[0], g_app_bytes[1], (unsigned long long) g_rx_hash[0], (unsigned long long) g_rx_hash[1],
                 g_cfglost[0] ? g_cfglost : "-", leaks, ls[0] ? ls : "-", g_foreign_free, lsan, g_undoc[0] ? g_undoc : "-", g_fp[0] ? g_fp : "-");
    (void) n; wr(b);
}

int main(int argc, char **argv)
{
    if (argc >= 2 && !strcmp(argv[1], "list")) {
        for (size_t i = 0; i < sizeof SCEN / sizeof SCEN[0]; i++) printf("%s %s\n", SCEN[i].name, SCEN[i].kind == 2 ? "negative" : "positive");
        return 0;
    }
    if (argc < 9) { fprintf(stderr, "usage: h_fault scenario resultfile shard nshards maxchildren maxocc multi seed [dry]\n       h_fault list\n"); return 2; }
    const scen_t *sc = NULL;
    char base[64]; snprintf(base, sizeof base, "%s", argv[1]);
    { char *plus = strchr(base, '+'); if (plus) { if (!strcmp(plus, "+del")) g_stop_after_fault = 1; *plus = 0; } }
    for (size_t i = 0; i < sizeof SCEN / sizeof SCEN[0]; i++) if (!strcmp(SCEN[i].name, base)) sc = &SCEN[i];
    if (!sc) { fprintf(stderr, "unknown scenario\n"); return 2; }
    g_scen = argv[1];
    g_respath = argv[2];
    g_resfd = open(argv[2], O_WRONLY | O_CREAT | O_APPEND, 0644);
    if (g_resfd < 0) { perror("open"); return 2; }
    g_shard = atoi(argv[3]); g_nshards = atoi(argv[4]); if (g_nshards < 1) g_nshards = 1;
    g_maxchildren = atoi(argv[5]); if (g_maxchildren < 1) g_maxchildren = 1; if (g_maxchildren > MAXKIDS) g_maxchildren = MAXKIDS;
    g_maxocc = atoi(argv[6]); g_multi = atoi(argv[7]); g_seed = strtoull(argv[8], NULL, 10);
    int dry = argc > 9 && !strcmp(argv[9], "dry");      /* count only, no injection */
    g_trace = getenv("H_FAULT_TRACE") != NULL;
    g_live = calloc(LIVE_CAP, sizeof *g_live); g_occ = calloc(OCC_CAP, sizeof *g_occ);
    { void *ub[4]; backtrace(ub, 4); }                  /* load the unwinder before counting starts */
    setpriority(PRIO_PROCESS, 0, 10);
    q_init(&g_c2s); q_init(&g_s2c);
    /* matrixSslOpen is part of the property ("at any point"): it runs under injection as well */
    g_mode = dry ? M_OFF : M_PARENT; g_counting = 1;
    PHASE("open");
    int32 orc = matrixSslOpen();
    if (orc < 0) { g_ok = 0; }
    else {
        if (sc->kind == 0) { sc_keys(); PHASE("teardown"); matrixSslClose(); }
        else sc_tls(sc);
    }
    g_counting = 0;
    if (g_mode == M_CHILD) {
        verdict('V');
        off_t sz = lseek(2, 0, SEEK_END);
        if (sz == 0 && g_errpath[0]) unlink(g_errpath);
        _exit(0);
    }
    while (g_nkids) reap(1);
    verdict('B');
    return 0;
}
